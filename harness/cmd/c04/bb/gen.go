package bb

import (
	"fmt"

	"github.com/spikeekips/mitum/base"
	"github.com/spikeekips/mitum/isaac"
	"verifharness/vh"
)

// ---------------------------------------------------------------- generator of ballots

type genState struct {
	h            *Hist
	w            *World
	r            *vh.Rand
	vpcache      map[string]int
	expsets      [][]int // candidate expel sets (indices), [0] = none
	forceFlavour int     // >0: flavour of the embedded voteproofs (1 = not valid for the suffrage, never forwarded)
	phase        struct {
		hh, rr  int64
		kind    int
		variant int
		exset   int
		perm    []int
		next    int
	}
}

func (g *genState) members(height int64) []int { return g.w.sufs[height] }

// signers for a voteproof at height hh: the members of the suffrage of hh-1
func (g *genState) vpSigners(hh int64, flavour int) [][2]int {
	var out [][2]int
	m := g.members(hh - 1)
	if len(m) == 0 {
		m = g.members(g.w.H - 2)
	}
	switch flavour {
	case 1: // too few
		out = append(out, [2]int{m[0], m[0]})
	case 2: // an outsider among them
		for _, i := range m {
			out = append(out, [2]int{i, i})
		}
		out[len(out)-1] = [2]int{g.w.n, g.w.n}
	case 3: // wrong key
		for _, i := range m {
			out = append(out, [2]int{i, i})
		}
		out[0] = [2]int{m[0], 100 + m[0]}
	case 5: // just enough signers for threshold 51
		k := (len(m)*510 + 999) / 1000
		for _, i := range m[:k] {
			out = append(out, [2]int{i, i})
		}
	default:
		for _, i := range m {
			out = append(out, [2]int{i, i})
		}
	}
	return out
}

// embedded voteproof: majority (or draw) at (hh, rr, stage) for the facts of variant v with expels ex.
func (g *genState) vp(hh, rr int64, stage int, majority bool, v int, ex []int, kind int, flavour int) int {
	th10 := g.w.th10
	if (flavour == 4 || flavour == 5) && th10 > 510 {
		th10 = 510 // below the threshold of the box; flavour 5: a majority only under that lower threshold
	}
	if flavour == 6 {
		th10 = 1000
	}
	key := fmt.Sprintf("%d/%d/%d/%v/%d/%v/%d/%d", hh, rr, stage, majority, v, ex, kind, flavour)
	if i, ok := g.vpcache[key]; ok {
		return i
	}
	fk := kInit
	if stage == 1 {
		fk = kAccept
	}
	exOf := map[int]bool{}
	for _, e := range ex {
		exOf[g.w.expels[e].target] = true
	}
	var sfs []aSF
	maj := -1
	signers := g.vpSigners(hh, flavour)
	for i, s := range signers {
		if kind == vkExpel && exOf[s[0]] {
			continue
		}
		vv := v
		if !majority {
			vv = 50 + i // everybody votes something else
		}
		f := g.w.Fact(hh, rr, fk, vv, ex)
		sfs = append(sfs, g.w.SignFact(s[0], s[1], f))
		if majority {
			maj = f
		}
	}
	if len(sfs) == 0 {
		g.vpcache[key] = -1
		return -1
	}
	i := g.w.Voteproof(hh, rr, stage, th10, maj, sfs, ex, kind)
	g.vpcache[key] = i
	return i
}

// ballot for (node, pub) on fact (hh, rr, kind, v, exset); returns nil when no valid ballot can be built.
func (g *genState) ballot(node, pub int, hh, rr int64, kind, v int, ex []int, full bool) *aBallot {
	w := g.w
	fi := w.Fact(hh, rr, kind, v, ex)
	bl := &aBallot{sf: w.SignFact(node, pub, fi), vp: -1, full: full}
	if !full {
		bl.valid = bl.sf.real.IsValid(w.netID) == nil
		return bl
	}
	flavour := 0
	if g.r.Chance(1, 6) {
		flavour = g.r.Range(1, 8)
	}
	if g.forceFlavour > 0 {
		flavour = g.forceFlavour
	} else if g.forceFlavour < 0 {
		flavour = 0
	}
	ex = w.facts[fi].ex
	rex := make([]base.SuffrageExpelOperation, len(ex))
	for i, e := range ex {
		rex[i] = w.expels[e].real
	}
	switch kind {
	case kInit:
		switch {
		case rr == 0:
			bl.vp = g.vp(hh-1, 0, 1, true, 0, nil, vkPlain, flavour)
		case flavour == 7 || flavour == 8:
			bl.vp = g.stuckVP(hh, rr-1, g.r.Intn(2), flavour == 8)
		case g.r.Bool():
			bl.vp = g.vp(hh, rr-1, 0, false, 0, nil, vkPlain, flavour)
		default:
			bl.vp = g.vp(hh, rr-1, 1, false, 0, nil, vkPlain, flavour)
		}
		if bl.vp < 0 {
			return nil
		}
		bl.real = isaac.NewINITBallot(w.vps[bl.vp].real, bl.sf.real.(isaac.INITBallotSignFact), rex)
	case kSC:
		if len(ex) == 0 {
			return nil
		}
		bl.vp = g.vp(hh, rr, 0, true, v, ex, vkExpel, flavour)
		if bl.vp < 0 {
			return nil
		}
		bl.real = isaac.NewINITBallot(w.vps[bl.vp].real, bl.sf.real.(isaac.INITBallotSignFact), nil)
	default:
		k := vkPlain
		if len(ex) > 0 {
			k = vkExpel
		}
		bl.vp = g.vp(hh, rr, 0, true, v, ex, k, flavour)
		if bl.vp < 0 {
			return nil
		}
		ivp, ok := w.vps[bl.vp].real.(base.INITVoteproof)
		if !ok {
			return nil
		}
		bl.real = isaac.NewACCEPTBallot(ivp, bl.sf.real.(isaac.ACCEPTBallotSignFact), rex)
	}
	bl.valid = bl.real.IsValid(w.netID) == nil
	// what the ballotbox is given as expels: Ballot.Expels()
	if we, ok := bl.real.(base.HasExpels); ok {
		for _, e := range we.Expels() {
			i, ok := w.ehash[e.Hash().String()]
			if !ok {
				return nil
			}
			bl.ex = append(bl.ex, i)
		}
	}
	return bl
}

func (g *genState) makeExpels() {
	w, r := g.w, g.r
	g.expsets = [][]int{nil}
	if w.n < 2 || r.Chance(1, 4) {
		return
	}
	ne := r.Range(1, 3)
	var idx []int
	for i := 0; i < ne; i++ {
		target := r.Range(1, w.n-1)
		if r.Chance(1, 12) {
			target = 0 // possibly the local node
		}
		if r.Chance(1, 15) {
			target = w.n // not a member
		}
		start, end := w.H-1, w.H+1
		if r.Chance(1, 10) {
			end = w.H - 1 // expired for height H
		}
		var signers [][2]int
		switch r.Intn(8) {
		case 0: // a single signer
			signers = [][2]int{{(target + 1) % w.n, (target + 1) % w.n}}
		case 1: // an outsider signs too
			for j := 0; j < w.n; j++ {
				signers = append(signers, [2]int{j, j})
			}
			signers = append(signers, [2]int{w.n + 1, w.n + 1})
		case 2: // about the threshold
			k := (w.n*w.th10 + 999) / 1000
			for j := 0; j < w.n && len(signers) < k-r.Intn(2); j++ {
				if j != target {
					signers = append(signers, [2]int{j, j})
				}
			}
		default:
			for j := 0; j < w.n; j++ {
				signers = append(signers, [2]int{j, j})
			}
		}
		if len(signers) == 0 {
			signers = [][2]int{{0, 0}}
		}
		idx = append(idx, w.Expel(target, start, end, signers))
	}
	// sets: each single, and all together (distinct targets only)
	for _, i := range idx {
		g.expsets = append(g.expsets, []int{i})
	}
	if len(idx) > 1 {
		seen := map[int]bool{}
		var all []int
		for _, i := range idx {
			if !seen[w.expels[i].target] {
				seen[w.expels[i].target] = true
				all = append(all, i)
			}
		}
		if len(all) > 1 {
			g.expsets = append(g.expsets, all)
		}
		if r.Chance(1, 5) {
			g.expsets = append(g.expsets, idx) // maybe duplicate targets
		}
	}
}

func (g *genState) newPhase() {
	w, r := g.w, g.r
	p := &g.phase
	switch r.Intn(10) {
	case 0, 1, 2, 3, 4:
		p.hh, p.rr = w.H, 0
	case 5, 6:
		p.hh, p.rr = w.H, 1
	case 7, 8:
		p.hh, p.rr = w.H+1, 0
	default:
		p.hh, p.rr = w.H-1, 0
	}
	p.kind = []int{kInit, kInit, kInit, kAccept, kAccept, kSC}[r.Intn(6)]
	p.variant = []int{0, 0, 0, 1}[r.Intn(4)]
	p.exset = 0
	if len(g.expsets) > 1 && (p.kind == kSC || r.Chance(1, 2)) {
		p.exset = r.Range(1, len(g.expsets)-1)
	}
	p.perm = r.Perm(w.n)
	p.next = 0
}

// RunForced generates and executes one forced history.
func RunForced(r *vh.Rand, res *vh.Result, mode string, maxSteps int) *Hist {
	n := []int{1, 2, 3, 3, 4, 4, 5, 5, 6, 7, 7, 8, 9}[r.Intn(13)]
	th10 := []int{510, 600, 670, 670, 670, 750, 800, 1000}[r.Intn(8)]
	w := NewWorld(r, n, th10, r.Chance(3, 4))
	h := NewHist(w, res, mode)
	g := &genState{h: h, w: w, r: r, vpcache: map[string]int{}}
	g.makeExpels()
	res.Dist(fmt.Sprintf("forced_n=%d", n))
	// which suffrages are known from the start
	late := r.Chance(1, 4)
	for _, x := range []int64{w.H - 2, w.H - 1, w.H} {
		if !late || r.Bool() {
			h.doLearn(x)
		}
	}
	if r.Chance(1, 3) {
		h.doSetLast(lastP{h: w.H - 1, r: 0, stage: 1, maj: true})
	}
	if n >= 3 && r.Chance(1, 5) {
		for _, x := range []int64{w.H - 2, w.H - 1, w.H} {
			if !h.known[x] {
				h.doLearn(x)
			}
		}
		g.holdScenario(r.Chance(3, 4))
		res.Dist("forced_hold_scenario")
	}
	if n >= 3 && r.Chance(1, 5) {
		for _, x := range []int64{w.H - 2, w.H - 1, w.H} {
			if !h.known[x] {
				h.doLearn(x)
			}
		}
		g.revoteScenario(r.Intn(5))
		res.Dist("forced_revote_scenario")
	}
	if n >= 3 && r.Chance(1, 6) {
		g.lowThresholdScenario([]int{5, 5, 4, 6, 0}[r.Intn(5)])
		res.Dist("forced_lowthreshold_scenario")
	}
	if n >= 3 && r.Chance(1, 6) {
		for _, x := range []int64{w.H - 2, w.H - 1, w.H} {
			if !h.known[x] {
				h.doLearn(x)
			}
		}
		g.scBackScenario()
		res.Dist("forced_scback_scenario")
	}
	if n >= 3 && r.Chance(1, 6) {
		for _, x := range []int64{w.H - 2, w.H - 1, w.H} {
			if !h.known[x] {
				h.doLearn(x)
			}
		}
		g.stuckScenario(r.Chance(1, 3))
		res.Dist("forced_stuck_scenario")
	}
	g.newPhase()
	nsteps := len(h.steps) + r.Range(maxSteps/3, maxSteps)
	for len(h.steps) < nsteps && !h.failed {
		switch x := r.Intn(100); {
		case x < 58:
			p := &g.phase
			if r.Chance(1, 9) || p.next >= len(p.perm) {
				g.newPhase()
			}
			node, pub := p.perm[p.next], p.perm[p.next]
			hh, rr, kind, variant, exset := p.hh, p.rr, p.kind, p.variant, p.exset
			p.next++
			if p.next > 1 && r.Chance(1, 7) { // a second ballot of a node that voted already, with other expels / fact
				node = p.perm[r.Intn(p.next-1)]
				pub = node
				exset = r.Intn(len(g.expsets))
				variant = r.Intn(3)
			}
			switch r.Intn(20) {
			case 0:
				node, pub = w.n+r.Intn(2), w.n+r.Intn(2) // outsider (maybe with another outsider's key)
			case 1:
				pub = 100 + node // member address, other key
			case 2:
				variant = 2 // a conflicting vote
			case 3:
				exset = r.Intn(len(g.expsets))
			}
			full := !r.Chance(1, 5)
			bl := g.ballot(node, pub, hh, rr, kind, variant, g.expsets[exset], full)
			if bl == nil {
				res.Dist("ballot_not_buildable")
				continue
			}
			if !bl.valid {
				res.Dist("ballot_invalid_skipped")
				continue
			}
			h.doVote(bl)
			if len(h.pend) > 0 && r.Chance(2, 3) {
				g.runPending(len(h.pend) - 1)
			}
		case x < 68:
			if len(h.pend) > 0 {
				g.runPending(r.Intn(len(h.pend)))
			}
		case x < 78: // Count(): snapshot, then one step per record
			el := r.Chance(1, 3)
			for _, p := range h.box.VerifUnfinished() {
				if id, ok := h.ids[p]; ok {
					h.doCount(id, el, nil)
				}
			}
		case x < 81:
			if len(h.ptrs) > 0 { // a stale pointer
				h.doCount(r.Intn(len(h.ptrs)), r.Bool(), nil)
			}
		case x < 87: // countHoldeds()
			el := r.Chance(2, 3)
			for _, p := range h.box.VerifUnfinished() {
				if id, ok := h.ids[p]; ok {
					h.doHeld(id, el)
				}
			}
		case x < 91:
			l := lastP{h: w.H + int64(r.Intn(3)) - 1, r: int64(r.Intn(2)), stage: r.Intn(2), maj: r.Bool()}
			if l.stage == 0 {
				l.sc = r.Chance(1, 4)
			}
			h.doSetLast(l)
		case x < 94:
			h.doClean()
		default:
			for _, x := range []int64{w.H - 2, w.H - 1, w.H} {
				if !h.known[x] {
					h.doLearn(x)
					break
				}
			}
		}
	}
	return h
}

func (g *genState) runPending(i int) {
	h := g.h
	p := h.pend[i]
	h.pend = append(h.pend[:i], h.pend[i+1:]...)
	if p.cnt {
		h.doCount(p.rid, g.r.Chance(1, 3), &p)
	} else {
		h.doForward(p)
	}
}

// holdScenario: an INIT stage point of round 1 is drawn with pending expels (put on hold), then the box moves to a
// point that makes the held one passed although it is higher by StagePoint.Compare (majority ACCEPT of round 0),
// then the hold expires (countHoldeds).
func (g *genState) holdScenario(advance bool) {
	h, w := g.h, g.w
	target := w.n - 1
	var signers [][2]int
	for j := 0; j < w.n; j++ {
		signers = append(signers, [2]int{j, j})
	}
	e := w.Expel(target, w.H-1, w.H+1, signers)
	h.doSetLast(lastP{h: w.H - 1, r: 0, stage: 1, maj: true})
	g.forceFlavour = 1
	for i := 0; i < w.n; i++ {
		var bl *aBallot
		switch {
		case i == target:
			bl = g.ballot(i, i, w.H, 1, kInit, 2, nil, true)
		case i%2 == 0:
			bl = g.ballot(i, i, w.H, 1, kInit, 0, []int{e}, true)
		default:
			bl = g.ballot(i, i, w.H, 1, kInit, 0, nil, true)
		}
		if bl == nil || !bl.valid {
			continue
		}
		h.doVote(bl)
		for len(h.pend) > 0 {
			p := h.pend[0]
			h.pend = h.pend[1:]
			if p.cnt {
				h.doCount(p.rid, false, &p)
			} else {
				h.doForward(p)
			}
		}
	}
	g.forceFlavour = 0
	if advance {
		h.doSetLast(lastP{h: w.H, r: 0, stage: 1, maj: true})
	}
	for _, p := range h.box.VerifUnfinished() {
		if id, ok := h.ids[p]; ok {
			h.doHeld(id, true)
		}
	}
}

// revoteScenario: node 0 votes; a second ballot of node 0 carrying an expel (expired / signed by outsiders / target not
// a member / under-signed / valid) arrives and must be rejected without leaving a trace; then every member but the
// expel target votes the fact of the first ballot and the record is counted.
func (g *genState) revoteScenario(flavour int) {
	h, w := g.h, g.w
	target := w.n - 1
	start, end := w.H-1, w.H+1
	var signers [][2]int
	for j := 0; j < w.n; j++ {
		signers = append(signers, [2]int{j, j})
	}
	switch flavour {
	case 0:
		end = w.H - 1 // expired for height H
	case 1:
		signers = [][2]int{{w.n, w.n}, {w.n + 1, w.n + 1}, {0, 0}} // outsiders sign
	case 2:
		target = w.n // not a member
	case 3:
		signers = [][2]int{{0, 0}} // not enough signs
	}
	e := w.Expel(target, start, end, signers)
	h.doSetLast(lastP{h: w.H - 1, r: 0, stage: 1, maj: true})
	run := func(bl *aBallot) {
		if bl == nil || !bl.valid {
			return
		}
		h.doVote(bl)
		for len(h.pend) > 0 {
			p := h.pend[0]
			h.pend = h.pend[1:]
			if p.cnt {
				h.doCount(p.rid, false, &p)
			} else {
				h.doForward(p)
			}
		}
	}
	run(g.ballot(0, 0, w.H, 0, kInit, 0, nil, true))
	run(g.ballot(0, 0, w.H, 0, kInit, 0, []int{e}, true)) // the second ballot of node 0
	if g.r.Bool() {
		run(g.ballot(0, 0, w.H, 0, kInit, 1, []int{e}, true))
	}
	for i := 1; i < w.n; i++ {
		if i == target {
			continue
		}
		run(g.ballot(i, i, w.H, 0, kInit, 0, nil, true))
	}
	for _, p := range h.box.VerifUnfinished() {
		if id, ok := h.ids[p]; ok {
			h.doCount(id, true, nil)
		}
	}
}

func (g *genState) runAllPending(elapsed bool) {
	h := g.h
	for len(h.pend) > 0 {
		p := h.pend[0]
		h.pend = h.pend[1:]
		if p.cnt {
			h.doCount(p.rid, elapsed, &p)
		} else {
			h.doForward(p)
		}
	}
}

// lowThresholdScenario: INIT ballots of (H,0) arrive while the suffrage of their height is not known yet but the
// suffrage of the embedded ACCEPT voteproof of H-1 is (the not-validated path: the deferred forward of the embedded
// voteproof); the embedded voteproof carries a threshold below / equal / above the threshold of the box.  Then the
// suffrage becomes known and the records are counted (the Count() path).
func (g *genState) lowThresholdScenario(flavour int) {
	h, w := g.h, g.w
	if !h.known[w.H-2] {
		h.doLearn(w.H - 2)
	}
	g.forceFlavour = flavour
	if flavour == 0 {
		g.forceFlavour = -1
	}
	for i := 0; i < 2 && i < w.n; i++ {
		bl := g.ballot(i, i, w.H, 0, kInit, 0, nil, true)
		if bl == nil || !bl.valid {
			continue
		}
		h.doVote(bl)
		g.runAllPending(false)
	}
	g.forceFlavour = 0
	if !h.known[w.H-1] {
		h.doLearn(w.H - 1)
	}
	for _, p := range h.box.VerifUnfinished() {
		if id, ok := h.ids[p]; ok {
			h.doCount(id, false, nil)
		}
	}
}

// scBackScenario: the last point is the draw of INIT (H,1); suffrage-confirm ballots of (H,0) arrive carrying the old
// INIT majority (expel) voteproof of (H,0).  The old voteproof may be handed on, but the last point must not move
// back to (H,0) for it.
func (g *genState) scBackScenario() {
	h, w := g.h, g.w
	target := w.n - 1
	var signers [][2]int
	for j := 0; j < w.n; j++ {
		signers = append(signers, [2]int{j, j})
	}
	e := w.Expel(target, w.H-1, w.H+1, signers)
	h.doSetLast(lastP{h: w.H - 1, r: 0, stage: 1, maj: true})
	h.doSetLast(lastP{h: w.H, r: 1, stage: 0, maj: false})
	g.forceFlavour = -1
	for i := 0; i < w.n-1; i++ {
		bl := g.ballot(i, i, w.H, 0, kSC, 0, []int{e}, true)
		if bl == nil || !bl.valid {
			continue
		}
		h.doVote(bl)
		g.runAllPending(false)
	}
	g.forceFlavour = 0
}

// stuckVP: an embedded stuck voteproof of (hh, rr) with a genuine expel (the last member, signed by every member) and
// exactly suffrage-size-minus-expels sign facts; good: the sign facts are from the remaining members; otherwise from an
// outsider and from member addresses under foreign keys.
func (g *genState) stuckVP(hh, rr int64, stage int, good bool) int {
	w := g.w
	key := fmt.Sprintf("stuck/%d/%d/%d/%v", hh, rr, stage, good)
	if i, ok := g.vpcache[key]; ok {
		return i
	}
	m := g.members(hh - 1)
	if len(m) < 2 {
		g.vpcache[key] = -1
		return -1
	}
	target := m[len(m)-1]
	var signers [][2]int
	for _, j := range m {
		signers = append(signers, [2]int{j, j})
	}
	e := w.Expel(target, hh-1, hh+1, signers)
	fk := kInit
	if stage == 1 {
		fk = kAccept
	}
	var sfs []aSF
	for i, j := range m[:len(m)-1] {
		node, pub := j, j
		if !good {
			pub = 100 + j // member address, foreign key
			if i == 0 {
				node, pub = w.n, w.n // an outsider
			}
		}
		sfs = append(sfs, w.SignFact(node, pub, w.Fact(hh, rr, fk, 60+i, nil)))
	}
	i := w.Voteproof(hh, rr, stage, 1000, -1, sfs, []int{e}, vkStuck)
	g.vpcache[key] = i
	return i
}

// stuckScenario: next-round INIT ballots of members embed a stuck voteproof of the previous round whose sign facts are
// not from the suffrage (or, good, are): the box must not hand it on (must hand it on).
func (g *genState) stuckScenario(good bool) {
	h, w := g.h, g.w
	h.doSetLast(lastP{h: w.H - 1, r: 0, stage: 1, maj: true})
	g.forceFlavour = 7
	if good {
		g.forceFlavour = 8
	}
	for i := 0; i < 2; i++ {
		bl := g.ballot(i, i, w.H, 1, kInit, 0, nil, true)
		if bl == nil || !bl.valid {
			g.h.res.Dist("stuck_ballot_invalid")
			continue
		}
		h.doVote(bl)
		g.runAllPending(false)
	}
	g.forceFlavour = 0
}
