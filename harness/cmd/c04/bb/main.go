package bb

import (
	"context"
	"fmt"
	"os"
	"sync"
	"time"

	"github.com/spikeekips/mitum/base"
	"verifharness/vh"
)

// Main runs the harness for property "C04" or "C05" (same histories; the Coq check and the oracle emphasis differ).
func Main(prop string) {
	o := vh.ParseFlags()
	rule := "forced histories of atomic steps (Vote/VoteSignFact, countVoterecords per record incl. stale pointers, countHolded, deferred forward, SetLastPoint, clean, suffrage becoming known) on the real Ballotbox with real keys; after every step: emitted voteproofs, Vote result, last point, inspector (key, record identity, record stage point, isc, sizes, removed, pool), Voted(); non-trivial = history emits at least one voteproof or releases at least one record; plus free-running goroutines (voters + Count loop + ticker) with the oracle on every emitted voteproof"
	res := vh.NewResult(rule)
	_ = os.MkdirAll(o.Out, 0o755)
	r := vh.NewRand(o.Seed)
	imp := "From MV Require Import C04.Model."
	if prop == "C05" {
		imp = "From MV Require Import C05.Model."
	}
	cases := &vh.Cases{Import: imp, Type: "case", CheckFn: "check", Shard: 25}

	// corpus: the witnesses of the defects fixed in /repo, always first
	for _, c := range Corpus(res, prop) {
		cases.Add(c.CaseC(), map[string]any{"history": c.desc})
	}

	nh := o.Pick(260, 4000)
	maxSteps := 45
	for i := 0; i < nh; i++ {
		h := RunForced(r, res, prop, maxSteps)
		nontrivial := len(h.ownVPs) > 0
		for _, st := range h.steps {
			if st.kind == sClean || (st.kind == sCount && len(h.ownVPs) > 0) {
				nontrivial = true
			}
		}
		res.Count(fmt.Sprintf("h%d", i), nontrivial)
		res.Evaluations += len(h.steps) - 1
		cases.Add(h.CaseC(), map[string]any{"history": h.desc})
		if i < 2 {
			res.Sample(map[string]any{"history": h.desc})
		}
	}

	// free-running goroutines
	nc := o.Pick(25, 400)
	for i := 0; i < nc; i++ {
		RunConcurrent(r, res, prop)
	}
	res.Distribution["concurrent_runs"] = nc

	res.ModelCases = cases.Len()
	if err := cases.Write(o.Out); err != nil {
		panic(err)
	}
	res.Write(o.Out)
}

// ---------------------------------------------------------------- free-running mode (exported API only + inspector at the end)

func RunConcurrent(r *vh.Rand, res *vh.Result, prop string) {
	n := r.Range(3, 9)
	th10 := []int{600, 670, 670, 750, 1000}[r.Intn(5)]
	w := NewWorld(r, n, th10, r.Bool())
	h := NewHist(w, res, prop)
	for _, x := range []int64{w.H - 2, w.H - 1, w.H} {
		h.known[x] = true
	}
	g := &genState{h: h, w: w, r: r, vpcache: map[string]int{}}
	g.makeExpels()
	box := h.box
	box.SetCountAfter(time.Millisecond)
	box.SetInterval(time.Millisecond)

	// ballots: every member votes INIT (H,0), ACCEPT (H,0), maybe SC, INIT (H+1,0); a few conflicting / outsider ones
	type job struct {
		bl *aBallot
	}
	exset := 0
	if len(g.expsets) > 1 && r.Bool() {
		exset = r.Range(1, len(g.expsets)-1)
	}
	jobs := make([][]job, 0)
	votedSP := map[string]bool{}
	for i := 0; i < n+1; i++ {
		var js []job
		node, pub := i, i
		if i == n && r.Bool() {
			pub = n + 1
		}
		conflict := r.Chance(1, 6)
		stagesK := []struct {
			hh, rr int64
			kind   int
		}{{w.H, 0, kInit}, {w.H, 0, kSC}, {w.H, 0, kAccept}, {w.H + 1, 0, kInit}, {w.H, 1, kInit}}
		for _, s := range stagesK {
			v := 0
			if conflict {
				v = 1 + r.Intn(2)
			}
			ex := g.expsets[exset]
			if s.hh != w.H {
				ex = nil
			}
			if s.kind == kSC && len(ex) == 0 {
				continue
			}
			bl := g.ballot(node, pub, s.hh, s.rr, s.kind, v, ex, !r.Chance(1, 6))
			if bl == nil || !bl.valid {
				continue
			}
			js = append(js, job{bl})
			f := w.facts[bl.sf.fact]
			votedSP[spKey(f.h, f.r, kindStage(f.kind))] = true
		}
		jobs = append(jobs, js)
	}

	ctx, cancel := context.WithCancel(context.Background())
	_ = box.Start(ctx)
	var emitted []base.Voteproof
	var elock sync.Mutex
	done := make(chan struct{})
	go func() {
		defer close(done)
		for {
			select {
			case vp := <-box.Voteproof():
				elock.Lock()
				emitted = append(emitted, vp)
				elock.Unlock()
			case <-ctx.Done():
				return
			}
		}
	}()
	var wg sync.WaitGroup
	for _, js := range jobs {
		wg.Add(1)
		go func(js []job) {
			defer wg.Done()
			for _, j := range js {
				var err error
				if j.bl.full {
					_, err = box.Vote(j.bl.real)
				} else {
					_, err = box.VoteSignFact(j.bl.sf.real)
				}
				if err != nil {
					res.Fail("vote-error", err.Error(), map[string]any{"mode": "concurrent"})
				}
			}
		}(js)
	}
	stopCount := make(chan struct{})
	wg2 := sync.WaitGroup{}
	wg2.Add(1)
	go func() {
		defer wg2.Done()
		for {
			select {
			case <-stopCount:
				return
			default:
				box.Count()
			}
		}
	}()
	wg.Wait()
	time.Sleep(15 * time.Millisecond) // the goroutines started by Vote, the ticker
	close(stopCount)
	wg2.Wait()
	box.Count()
	time.Sleep(3 * time.Millisecond)
	_ = box.Stop()
	cancel()
	<-done
	for {
		select {
		case vp := <-box.Voteproof():
			emitted = append(emitted, vp)
			continue
		default:
		}
		break
	}
	desc := fmt.Sprintf("concurrent n=%d th10=%d local=%d exset=%v", n, th10, w.local, g.expsets[exset])
	fail := func(class, d string) {
		res.Fail(class, d, map[string]any{"mode": "concurrent", "setup": desc})
	}
	for _, vp := range emitted {
		res.Evaluations++
		CheckVP(w, vp, votedSP, fail)
		res.Dist(fmt.Sprintf("concurrent_emitted_%s", vp.Result()))
	}
	if len(emitted) > 0 {
		res.Count("c"+desc+fmt.Sprint(r.U64()), true)
	}
	// C05 on the final state: ownership, release
	live, removed := box.VerifInspect()
	last := box.LastPoint()
	seen := map[uintptr]string{}
	for _, l := range live {
		if k, dup := seen[l.ID]; dup {
			fail("record-under-two-keys", fmt.Sprintf("%q and %q", k, l.Key))
		}
		seen[l.ID] = l.Key
		pfx, hh, rr, st, ok := parseKey(l.Key)
		stage := base.StageINIT
		if st == 1 {
			stage = base.StageACCEPT
		}
		switch {
		case !ok:
			fail("unparsable-key", l.Key)
		case l.Point.IsZero():
			fail("live-record-zeroed", l.Key)
		case !l.Point.Equal(base.NewStagePoint(base.RawPoint(hh, uint64(rr)), stage)) || (pfx != "") != l.ISC:
			fail("key-record-mismatch", fmt.Sprintf("%q holds %v isc=%v", l.Key, l.Point, l.ISC))
		}
	}
	// one more cycle: after a clean nothing below the last point stays
	box.VerifClean()
	live, removed = box.VerifInspect()
	for _, l := range live {
		if !last.IsZero() && l.Point.Compare(last.StagePoint) < 0 {
			fail("finished-record-not-released", fmt.Sprintf("%q below last point %v after clean", l.Key, last.StagePoint))
		}
	}
	rs := map[uintptr]bool{}
	for _, x := range removed {
		if rs[x.ID] {
			fail("released-twice", "")
		}
		rs[x.ID] = true
		if _, ok := seen[x.ID]; ok {
			if _, still := func() (string, bool) {
				for _, l := range live {
					if l.ID == x.ID {
						return l.Key, true
					}
				}
				return "", false
			}(); still {
				fail("released-record-still-live", "")
			}
		}
	}
}
