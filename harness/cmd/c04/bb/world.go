// Package bb: shared harness of C04 (ballotbox emits only sound voteproofs) and C05 (ballotbox isolation and
// release).  It drives the real isaacstates.Ballotbox through forced sequences of atomic steps (verif hooks
// VerifVote / VerifCountRecord / VerifCountHolded, real SetLastPoint / Voted / Voteproof()), records the observables
// after every step for the Coq model, evaluates the properties' own statements on the real observables (oracle), and
// runs free-running goroutines on the exported API only.
package bb

import (
	"fmt"
	"sort"
	"strings"

	"github.com/spikeekips/mitum/base"
	"github.com/spikeekips/mitum/isaac"
	"github.com/spikeekips/mitum/util"
	"github.com/spikeekips/mitum/util/valuehash"
	"verifharness/vh"
)

const (
	kInit   = 0
	kSC     = 1
	kAccept = 2

	vkPlain = 0
	vkExpel = 1
	vkStuck = 2
)

type aFact struct {
	idx      int // index in the table
	fid      int // f_id: one id per fact hash (INIT and suffrage-confirm facts of the same content share their hash)
	h, r     int64
	kind     int
	variant  int
	ex       []int // indices into expels, in the order of ExpelFacts()
	real     base.BallotFact
	emptyish bool
}

type aExpel struct {
	idx        int // index in the table
	eid        int // e_id: one id per expel fact hash (the hash covers node, start, end only)
	target     int
	start, end int64
	signers    [][2]int // (node, pub)
	real       base.SuffrageExpelOperation
}

type aSF struct {
	node, pub, fact int
	real            base.BallotSignFact
}

type aVP struct {
	idx   int // tag = idx+1
	h, r  int64
	stage int // 0 INIT, 1 ACCEPT
	th10  int
	maj   int // fact idx or -1
	sfs   []aSF
	ex    []int
	kind  int
	real  base.Voteproof
	own   bool // built by the ballotbox (rendered only in validator cases)
}

type aBallot struct {
	sf    aSF
	vp    int // index into vps or -1
	ex    []int
	full  bool
	real  base.Ballot // nil when !full
	valid bool        // real Ballot.IsValid / signfact IsValid
}

// World: one suffrage universe with real keys.
type World struct {
	r      *vh.Rand
	netID  base.NetworkID
	n      int               // members are nodes 0..n-1; n, n+1 are outsiders
	nodes  []isaac.LocalNode // own keys (pub id = node index)
	alt    []base.Privatekey // other keys for the same addresses (pub id = 100+node index)
	local  int               // node index of the local address, or 999 (an address that never votes)
	localA base.Address
	th10   int
	H      int64
	sufs   map[int64][]int // members per height (H-2, H-1, H)
	rsufs  map[int64]base.Suffrage

	facts  []*aFact
	fkey   map[string]int
	fhash  map[string]int
	hashid map[string]int
	expels []*aExpel
	ehash  map[string]int
	vps    []*aVP
	vpid   map[string]int

	blk  map[int64]util.Hash
	prop map[string]util.Hash
	addr map[string]int
	pubs map[string]int
}

func NewWorld(r *vh.Rand, n int, th10 int, localMember bool) *World {
	w := &World{r: r, n: n, th10: th10, H: 33, netID: base.NetworkID(r.Bytes(8)),
		fkey: map[string]int{}, fhash: map[string]int{}, hashid: map[string]int{}, ehash: map[string]int{}, vpid: map[string]int{},
		blk: map[int64]util.Hash{}, prop: map[string]util.Hash{}, addr: map[string]int{}, pubs: map[string]int{},
		sufs: map[int64][]int{}, rsufs: map[int64]base.Suffrage{}}
	for i := 0; i < n+2; i++ {
		a := base.NewStringAddress(fmt.Sprintf("nd%02d", i))
		l := isaac.NewLocalNode(base.NewMPrivatekey(), a)
		w.nodes = append(w.nodes, l)
		k := base.NewMPrivatekey()
		w.alt = append(w.alt, k)
		w.addr[a.String()] = i
		w.pubs[l.Publickey().String()] = i
		w.pubs[k.Publickey().String()] = 100 + i
	}
	if localMember {
		w.local = 0
		w.localA = w.nodes[0].Address()
	} else {
		w.local = 999
		w.localA = base.NewStringAddress("localzz")
		w.addr[w.localA.String()] = 999
	}
	all := make([]int, n)
	for i := range all {
		all[i] = i
	}
	for _, h := range []int64{w.H - 2, w.H - 1, w.H} {
		m := all
		if h == w.H && n > 2 && r.Chance(1, 4) { // the suffrage of height H lost its last member
			m = all[:n-1]
		}
		w.sufs[h] = m
		ns := make([]base.Node, len(m))
		for i, j := range m {
			ns[i] = w.nodes[j]
		}
		s, err := isaac.NewSuffrage(ns)
		if err != nil {
			panic(err)
		}
		w.rsufs[h] = s
	}
	for h := w.H - 3; h <= w.H+2; h++ {
		w.blk[h] = valuehash.RandomSHA256()
	}
	return w
}

func (w *World) priv(node, pub int) base.Privatekey {
	if pub >= 100 {
		return w.alt[pub-100]
	}
	return w.nodes[pub].Privatekey()
}

func (w *World) proposal(h, r int64, v int) util.Hash {
	k := fmt.Sprintf("%d/%d/%d", h, r, v)
	if x, ok := w.prop[k]; ok {
		return x
	}
	x := valuehash.RandomSHA256()
	w.prop[k] = x
	return x
}

// Expel returns the table index of an expel operation (one operation object per call).
func (w *World) Expel(target int, start, end int64, signers [][2]int) int {
	f := isaac.NewSuffrageExpelFact(w.nodeAddr(target), base.Height(start), base.Height(end), fmt.Sprintf("r%d", len(w.expels)))
	op := isaac.NewSuffrageExpelOperation(f)
	for _, s := range signers {
		if err := op.NodeSign(w.priv(s[0], s[1]), w.netID, w.nodeAddr(s[0])); err != nil {
			panic(err)
		}
	}
	e := &aExpel{idx: len(w.expels), target: target, start: start, end: end, real: op}
	// NodeSigns() filters the signs of the expelled node itself: record what the code sees
	for _, ns := range op.NodeSigns() {
		e.signers = append(e.signers, [2]int{w.addr[ns.Node().String()], w.pubs[ns.Signer().String()]})
	}
	if id, ok := w.hashid["e"+f.Hash().String()]; ok {
		e.eid = id
	} else {
		e.eid = len(w.hashid) + 1
		w.hashid["e"+f.Hash().String()] = e.eid
	}
	w.expels = append(w.expels, e)
	w.ehash[op.Hash().String()] = e.idx
	return e.idx
}

func (w *World) nodeAddr(i int) base.Address {
	if i == 999 {
		return w.localA
	}
	return w.nodes[i].Address()
}

// sortExpels orders expel indices the way isaac.sortExpels does (by fact hash string).
func (w *World) sortExpels(ex []int) []int {
	out := append([]int{}, ex...)
	sort.Slice(out, func(i, j int) bool {
		return w.expels[out[i]].real.Fact().Hash().String() < w.expels[out[j]].real.Fact().Hash().String()
	})
	return out
}

// Fact returns the table index of the ballot fact (h, r, kind, variant, expels); equal arguments give the same object.
func (w *World) Fact(h, r int64, kind, variant int, ex []int) int {
	ex = w.sortExpels(ex)
	k := fmt.Sprintf("%d/%d/%d/%d/%v", h, r, kind, variant, ex)
	if i, ok := w.fkey[k]; ok {
		return i
	}
	hs := make([]util.Hash, len(ex))
	for i, e := range ex {
		hs[i] = w.expels[e].real.Fact().Hash()
	}
	p := base.RawPoint(h, uint64(r))
	var real base.BallotFact
	switch kind {
	case kInit:
		real = isaac.NewINITBallotFact(p, w.blk[h-1], w.proposal(h, r, variant), hs)
	case kSC:
		real = isaac.NewSuffrageConfirmBallotFact(p, w.blk[h-1], w.proposal(h, r, variant), hs)
	default:
		nb := w.blk[h]
		if variant != 0 {
			nb = w.proposal(h, r, 1000+variant)
		}
		real = isaac.NewACCEPTBallotFact(p, w.proposal(h, r, variant), nb, hs)
	}
	f := &aFact{idx: len(w.facts), h: h, r: r, kind: kind, variant: variant, ex: ex, real: real}
	if id, ok := w.hashid[real.Hash().String()]; ok {
		f.fid = id
	} else {
		f.fid = len(w.hashid) + 1
		w.hashid[real.Hash().String()] = f.fid
	}
	w.facts = append(w.facts, f)
	w.fkey[k] = f.idx
	w.fhash[factKey(real)] = f.idx
	return f.idx
}

func factKey(f base.Fact) string {
	k := "p"
	if isaac.IsSuffrageConfirmBallotFact(f) {
		k = "s"
	}
	return f.Hash().String() + k
}

func (w *World) SignFact(node, pub, fact int) aSF {
	f := w.facts[fact]
	var real base.BallotSignFact
	switch f.kind {
	case kAccept:
		sf := isaac.NewACCEPTBallotSignFact(f.real.(base.ACCEPTBallotFact))
		if err := sf.NodeSign(w.priv(node, pub), w.netID, w.nodeAddr(node)); err != nil {
			panic(err)
		}
		real = sf
	default:
		sf := isaac.NewINITBallotSignFact(f.real.(base.INITBallotFact))
		if err := sf.NodeSign(w.priv(node, pub), w.netID, w.nodeAddr(node)); err != nil {
			panic(err)
		}
		real = sf
	}
	return aSF{node: node, pub: pub, fact: fact, real: real}
}

// Voteproof builds a real voteproof for the table.
func (w *World) Voteproof(h, r int64, stage int, th10 int, maj int, sfs []aSF, ex []int, kind int) int {
	p := base.RawPoint(h, uint64(r))
	rsfs := make([]base.BallotSignFact, len(sfs))
	for i := range sfs {
		rsfs[i] = sfs[i].real
	}
	var mf base.BallotFact
	if maj >= 0 {
		mf = w.facts[maj].real
	}
	ex = w.sortExpels(ex)
	rex := make([]base.SuffrageExpelOperation, len(ex))
	for i, e := range ex {
		rex[i] = w.expels[e].real
	}
	th := base.Threshold(float64(th10) / 10)
	var real base.Voteproof
	switch {
	case stage == 0 && kind == vkPlain:
		v := isaac.NewINITVoteproof(p)
		v.SetSignFacts(rsfs).SetMajority(mf).SetThreshold(th).Finish()
		real = v
	case stage == 0 && kind == vkExpel:
		v := isaac.NewINITExpelVoteproof(p)
		v.SetSignFacts(rsfs).SetMajority(mf).SetThreshold(th)
		v.SetExpels(rex)
		v.Finish()
		real = v
	case stage == 1 && kind == vkPlain:
		v := isaac.NewACCEPTVoteproof(p)
		v.SetSignFacts(rsfs).SetMajority(mf).SetThreshold(th).Finish()
		real = v
	case stage == 1 && kind == vkExpel:
		v := isaac.NewACCEPTExpelVoteproof(p)
		v.SetSignFacts(rsfs).SetMajority(mf).SetThreshold(th)
		v.SetExpels(rex)
		v.Finish()
		real = v
	case stage == 0 && kind == vkStuck:
		v := isaac.NewINITStuckVoteproof(p)
		v.SetSignFacts(rsfs).SetMajority(nil)
		v.SetExpels(rex)
		v.Finish()
		real = v
		th10, maj = 1000, -1
	case stage == 1 && kind == vkStuck:
		v := isaac.NewACCEPTStuckVoteproof(p)
		v.SetSignFacts(rsfs).SetMajority(nil)
		v.SetExpels(rex)
		v.Finish()
		real = v
		th10, maj = 1000, -1
	default:
		panic("unsupported voteproof kind")
	}
	a := &aVP{idx: len(w.vps), h: h, r: r, stage: stage, th10: th10, maj: maj, sfs: sfs, ex: ex, kind: kind, real: real}
	w.vps = append(w.vps, a)
	w.vpid[real.ID()] = a.idx
	return a.idx
}

// Abstract rebuilds the abstract description of a voteproof built by the ballotbox (nil if it mentions unknown objects).
func (w *World) Abstract(vp base.Voteproof) *aVP {
	a := &aVP{idx: -1, h: int64(vp.Point().Height()), r: int64(vp.Point().Round()), maj: -1, own: true}
	if vp.Point().Stage() == base.StageACCEPT {
		a.stage = 1
	}
	a.th10 = int(vp.Threshold().Float64()*10 + 0.5)
	if m := vp.Majority(); m != nil {
		i, ok := w.fhash[factKey(m)]
		if !ok {
			return nil
		}
		a.maj = i
	}
	for _, sf := range vp.SignFacts() {
		fi, ok := w.fhash[factKey(sf.Fact())]
		n, ok2 := w.addr[sf.Node().String()]
		p, ok3 := w.pubs[sf.Signer().String()]
		if !ok || !ok2 || !ok3 {
			return nil
		}
		a.sfs = append(a.sfs, aSF{node: n, pub: p, fact: fi, real: sf})
	}
	if we, ok := vp.(base.HasExpels); ok {
		for _, e := range we.Expels() {
			i, ok := w.ehash[e.Hash().String()]
			if !ok {
				return nil
			}
			a.ex = append(a.ex, i)
		}
		a.kind = vkExpel
		if _, ok := vp.(base.StuckVoteproof); ok {
			a.kind = vkStuck
		}
	}
	a.real = vp
	return a
}

// ---------------------------------------------------------------- Coq rendering

func stageC(s int) string {
	if s == 1 {
		return "ACCEPT"
	}
	return "INIT"
}

func spC(h, r int64, stage int) string {
	return fmt.Sprintf("(mkSP %s %s %s)", vh.Z(h), vh.Z(r), stageC(stage))
}

func kindStage(kind int) int {
	if kind == kAccept {
		return 1
	}
	return 0
}

func natList(xs []int) string {
	ss := make([]string, len(xs))
	for i, x := range xs {
		ss[i] = fmt.Sprintf("%d%%nat", x)
	}
	return "[" + strings.Join(ss, "; ") + "]"
}

func (w *World) sufC(h int64) string {
	m := w.sufs[h]
	ss := make([]string, len(m))
	for i, j := range m {
		ss[i] = fmt.Sprintf("(%d, %d)", j, j)
	}
	return "[" + strings.Join(ss, "; ") + "]%Z"
}

func (w *World) envC() string {
	var hs []string
	for _, h := range []int64{w.H - 2, w.H - 1, w.H} {
		hs = append(hs, fmt.Sprintf("(%s, %s)", vh.Z(h), w.sufC(h)))
	}
	return fmt.Sprintf("(mkEnv %d %d [%s])", w.local, w.th10, strings.Join(hs, "; "))
}

func sfC(s aSF) string { return fmt.Sprintf("(%d, %d, %d%%nat)", s.node, s.pub, s.fact) }

func (a *aVP) cvpC() string {
	maj := "None"
	if a.maj >= 0 {
		maj = fmt.Sprintf("(Some %d%%nat)", a.maj)
	}
	sfs := make([]string, len(a.sfs))
	for i := range a.sfs {
		sfs[i] = sfC(a.sfs[i])
	}
	k := []string{"VPlain", "VExpel", "VStuck"}[a.kind]
	return fmt.Sprintf("(mkCVP %s %d %s [%s] %s %s)", spC(a.h, a.r, a.stage), a.th10, maj, strings.Join(sfs, "; "), natList(a.ex), k)
}

// tabsC renders the tables; extra voteproofs (built by the ballotbox) may be appended for validator cases.
func (w *World) tabsC(extra []*aVP) string {
	fs := make([]string, len(w.facts))
	for i, f := range w.facts {
		ex := make([]int64, len(f.ex))
		for j, e := range f.ex {
			ex[j] = int64(w.expels[e].eid)
		}
		k := []string{"KInit", "KSC", "KAccept"}[f.kind]
		fs[i] = fmt.Sprintf("(mkFact %d %s %s %s)", f.fid, spC(f.h, f.r, kindStage(f.kind)), k, vh.ZList(ex))
	}
	es := make([]string, len(w.expels))
	for i, e := range w.expels {
		sg := make([]string, len(e.signers))
		for j, s := range e.signers {
			sg[j] = fmt.Sprintf("(%d, %d)", s[0], s[1])
		}
		es[i] = fmt.Sprintf("(mkExpel %d %d %s %s [%s]%%Z)", e.eid, e.target, vh.Z(e.start), vh.Z(e.end), strings.Join(sg, "; "))
	}
	vs := make([]string, 0, len(w.vps)+len(extra))
	for _, v := range w.vps {
		vs = append(vs, v.cvpC())
	}
	for _, v := range extra {
		vs = append(vs, v.cvpC())
	}
	return fmt.Sprintf("(mkTabs [%s] [%s] [%s])", strings.Join(fs, "; "), strings.Join(es, "; "), strings.Join(vs, "; "))
}
