package bb

import (
	"fmt"
	"math/big"
	"sort"
	"strings"
	"time"

	"github.com/spikeekips/mitum/base"
	"github.com/spikeekips/mitum/isaac"
	isaacstates "github.com/spikeekips/mitum/isaac/states"
	"verifharness/vh"
)

// ---------------------------------------------------------------- one forced history

type stepKind int

const (
	sVote stepKind = iota
	sCount
	sHeld
	sForward
	sSetLast
	sClean
	sLearn
)

type lastP struct {
	h, r    int64
	stage   int
	maj, sc bool
}

type step struct {
	kind    stepKind
	bl      *aBallot
	rid     int
	elapsed bool
	vp      int
	last    lastP
	h       int64
	// oracles resolved from the observation
	get    int // -1 none
	pickvp int // -1 none
	pickex int
	about  string // key the step is about ("" = box level)
	obs    string // rendered sobs
}

type liveInfo struct {
	pfx      string
	h, r     int64
	stage    int
	rid      int
	zero     bool
	sh, sr   int64
	sstage   int
	isc      bool
	nv, nb   int
	nvp, nex int
	fin, hld bool
	key      string
}

type pending struct {
	f   func() []base.Voteproof
	rid int
	cnt bool
	vp  int
}

type Hist struct {
	w     *World
	box   *isaacstates.Ballotbox
	res   *vh.Result
	mode  string
	known map[int64]bool
	steps []*step
	ids   map[uintptr]int
	ptrs  []uintptr
	// accepted ballots per record since its last initialisation
	acc       map[int][]*aBallot
	pend      []pending
	points    map[string][3]int64 // stage points voted on (non-sc queries)
	votedSP   map[string]bool     // every stage point a sign fact was submitted for
	ownVPs    []*aVP
	valids    []validCase
	nputs     int
	prevLast  *lastP
	prevPool  map[int]bool
	desc      []string
	failed    bool
	prevVoted map[string]string
}

func parseKey(k string) (pfx string, h, r int64, stage int, ok bool) {
	i := strings.Index(k, "{StagePoint ")
	if i < 0 {
		return "", 0, 0, 0, false
	}
	pfx = k[:i]
	var st string
	if _, err := fmt.Sscanf(k[i:], "{StagePoint height=%d round=%d stage=%s", &h, &r, &st); err != nil {
		return "", 0, 0, 0, false
	}
	st = strings.TrimSuffix(st, "}")
	if st == "ACCEPT" {
		stage = 1
	} else if st != "INIT" {
		return pfx, h, r, 0, false
	}
	return pfx, h, r, stage, true
}

func NewHist(w *World, res *vh.Result, mode string) *Hist {
	isaacstates.VerifResetPool()
	h := &Hist{w: w, res: res, mode: mode, known: map[int64]bool{}, ids: map[uintptr]int{}, acc: map[int][]*aBallot{},
		points: map[string][3]int64{}, votedSP: map[string]bool{}, prevVoted: map[string]string{}}
	th := base.Threshold(float64(w.th10) / 10)
	h.box = isaacstates.NewBallotbox(w.localA, func() base.Threshold { return th },
		func(ht base.Height) (base.Suffrage, bool, error) {
			if !h.known[int64(ht)] {
				return nil, false, nil
			}
			s, ok := w.rsufs[int64(ht)]
			if !ok {
				return nil, false, nil
			}
			return s, true, nil
		})
	return h
}

func (h *Hist) rid(p uintptr) (int, bool) {
	if i, ok := h.ids[p]; ok {
		return i, true
	}
	i := len(h.ptrs)
	h.ids[p] = i
	h.ptrs = append(h.ptrs, p)
	return i, false
}

func (h *Hist) drain() []base.Voteproof {
	var out []base.Voteproof
	for {
		select {
		case vp := <-h.box.Voteproof():
			out = append(out, vp)
		default:
			return out
		}
	}
}

func (h *Hist) fail(class, desc string) {
	h.failed = true
	h.res.Fail(class, desc, map[string]any{"mode": "forced", "history": h.desc})
}

func spKey(hh, r int64, stage int) string { return fmt.Sprintf("%d/%d/%d", hh, r, stage) }

func (h *Hist) setElapsed(el bool) {
	if el {
		h.box.SetCountAfter(time.Nanosecond)
		t := time.Now()
		for time.Since(t) < 2*time.Microsecond {
		}
	} else {
		h.box.SetCountAfter(time.Hour)
	}
}

// snapshot inspects the real box and renders the state part of the observation.
func (h *Hist) snapshot(st *step) (live []liveInfo, removed []int, pool []int) {
	l, rm := h.box.VerifInspect()
	for _, x := range l {
		id, _ := h.rid(x.ID)
		li := liveInfo{rid: id, isc: x.ISC, nv: x.NVoted, nb: x.NBallots, nvp: x.NVps, nex: x.NExpels, fin: x.Finished, hld: x.Hold, key: x.Key}
		var ok bool
		li.pfx, li.h, li.r, li.stage, ok = parseKey(x.Key)
		if !ok {
			h.fail("unparsable-key", x.Key)
		}
		if x.Point.IsZero() {
			li.zero = true
		} else {
			li.sh, li.sr = int64(x.Point.Height()), int64(x.Point.Round())
			if x.Point.Stage() == base.StageACCEPT {
				li.sstage = 1
			}
		}
		live = append(live, li)
	}
	for _, x := range rm {
		id, _ := h.rid(x.ID)
		removed = append(removed, id)
	}
	puts := isaacstates.VerifPoolPuts()
	inpool := map[int]bool{}
	for i, p := range puts {
		id, _ := h.rid(p)
		// a record put again while it was waiting in the pool (no newVoterecords in between)
		if i >= h.nputs && h.prevPool[id] {
			h.fail("pooled-twice", fmt.Sprintf("record %d put into the pool while waiting in it", id))
		}
		if info, ok := isaacstates.VerifRecord(p); ok && info.Point.IsZero() && !inpool[id] {
			inpool[id] = true
			pool = append(pool, id)
		}
	}
	h.nputs = len(puts)
	h.prevPool = inpool
	return live, removed, pool
}

func (h *Hist) lastC() (string, *lastP) {
	lp := h.box.LastPoint()
	if lp.IsZero() {
		return "None", nil
	}
	l := &lastP{h: int64(lp.Height()), r: int64(lp.Round()), maj: lp.IsMajority(), sc: lp.IsSuffrageConfirm()}
	if lp.Stage() == base.StageACCEPT {
		l.stage = 1
	}
	return fmt.Sprintf("(Some %s)", lastPC(*l)), l
}

func lastPC(l lastP) string {
	return fmt.Sprintf("(mkLP %s %s %s)", spC(l.h, l.r, l.stage), vh.Bool(l.maj), vh.Bool(l.sc))
}

func optZ(i int) string {
	if i < 0 {
		return "None"
	}
	return fmt.Sprintf("(Some %d)", i)
}
func optNat(i int) string {
	if i < 0 {
		return "None"
	}
	return fmt.Sprintf("(Some %d%%nat)", i)
}

// vobs renders the observation of an emitted voteproof.
func (h *Hist) vobs(vp base.Voteproof) string {
	if i, ok := h.w.vpid[vp.ID()]; ok {
		return fmt.Sprintf("(mkVO %d (mkSP 0 0 INIT) 0 None [] [] VPlain)", i+1)
	}
	a := h.w.Abstract(vp)
	if a == nil {
		h.fail("vp-unknown-objects", fmt.Sprintf("%v", vp.Point()))
		return "(mkVO (-2) (mkSP 0 0 INIT) 0 None [] [] VPlain)"
	}
	maj := "None"
	if a.maj >= 0 {
		maj = fmt.Sprintf("(Some %d)", h.w.facts[a.maj].fid)
	}
	sfs := append([]aSF{}, a.sfs...)
	sort.SliceStable(sfs, func(i, j int) bool { return sfs[i].node < sfs[j].node })
	ss := make([]string, len(sfs))
	for i, s := range sfs {
		ss[i] = fmt.Sprintf("(%d, %d)", s.node, h.w.facts[s.fact].fid)
	}
	ex := make([]int64, len(a.ex))
	for i, e := range a.ex {
		ex[i] = int64(h.w.expels[e].eid)
	}
	k := []string{"VPlain", "VExpel", "VStuck"}[a.kind]
	return fmt.Sprintf("(mkVO 0 %s %d %s [%s]%%Z %s %s)", spC(a.h, a.r, a.stage), a.th10, maj, strings.Join(ss, "; "), vh.ZList(ex), k)
}

// observe runs after every step: renders sobs, evaluates the C05 oracle on the inspector data.
func (h *Hist) observe(st *step, voted bool, hasDef bool, vps []base.Voteproof, cleaned bool) {
	live, removed, pool := h.snapshot(st)
	lastS, last := h.lastC()
	// C06 clause on the ballotbox: the last point never moves to a lower height, and moves to an earlier (round, stage)
	// of the same height only for a suffrage-confirm result while the previous last point was not a majority
	if old := h.prevLast; old != nil {
		switch {
		case last == nil:
			h.fail("lastpoint-moved-backward", fmt.Sprintf("last point %+v was reset", *old))
		case last.h < old.h:
			h.fail("lastpoint-moved-backward", fmt.Sprintf("last point %+v -> %+v", *old, *last))
		case last.h == old.h && cmpSP(last.h, last.r, last.stage, old.h, old.r, old.stage) < 0 && !(last.sc && !old.maj):
			h.fail("lastpoint-moved-backward", fmt.Sprintf("last point %+v -> %+v", *old, *last))
		}
	}
	h.prevLast = last

	vs := make([]string, len(vps))
	for i := range vps {
		vs[i] = h.vobs(vps[i])
	}
	ls := make([]string, len(live))
	for i, l := range live {
		sp := "None"
		if !l.zero {
			sp = "(Some " + spC(l.sh, l.sr, l.sstage) + ")"
		}
		ls[i] = fmt.Sprintf("(mkLO %s %s %d%%nat %s %s %d %d %d %d %s %s)", vh.Str(l.pfx), spC(l.h, l.r, l.stage), l.rid, sp,
			vh.Bool(l.isc), l.nv, l.nb, l.nvp, l.nex, vh.Bool(l.fin), vh.Bool(l.hld))
	}
	// Voted() for every stage point voted on so far
	var qs []string
	keys := make([]string, 0, len(h.points))
	for k := range h.points {
		keys = append(keys, k)
	}
	sort.Strings(keys)
	allnodes := make([]base.Address, len(h.w.nodes))
	for i := range h.w.nodes {
		allnodes[i] = h.w.nodes[i].Address()
	}
	curVoted := map[string]string{}
	for _, k := range keys {
		p := h.points[k]
		sp := base.NewStagePoint(base.RawPoint(p[0], uint64(p[1])), base.StageINIT)
		if p[2] == 1 {
			sp = base.NewStagePoint(base.RawPoint(p[0], uint64(p[1])), base.StageACCEPT)
		}
		sfs := h.box.Voted(sp, allnodes)
		ns := make([]int64, 0, len(sfs))
		for _, sf := range sfs {
			ns = append(ns, int64(h.w.addr[sf.Node().String()]))
			// isolation (C05): what is reported for a stage point is a vote for that stage point
			if f, ok := sf.Fact().(base.BallotFact); !ok || !f.Point().Equal(sp) {
				h.fail("voted-reports-other-stage-point", fmt.Sprintf("Voted(%v) returned a sign fact for %v", sp, sf.Fact()))
			}
		}
		sort.Slice(ns, func(i, j int) bool { return ns[i] < ns[j] })
		qs = append(qs, fmt.Sprintf("(%s, %s)", spC(p[0], p[1], int(p[2])), vh.ZList(ns)))
		curVoted[k] = fmt.Sprint(ns)
	}
	// isolation (C05): a step about another key changes Voted(p) only by releasing p (p below the last point)
	for k, cur := range curVoted {
		prev, ok := h.prevVoted[k]
		if !ok || prev == cur || st.about == k {
			continue
		}
		p := h.points[k]
		released := cur == "[]" && last != nil && cmpSP(p[0], p[1], int(p[2]), last.h, last.r, last.stage) < 0
		if !released && st.kind != sLearn {
			h.fail("voted-changed-by-other-stage-point", fmt.Sprintf("Voted(%s): %s -> %s after a step about %q", k, prev, cur, st.about))
		}
	}
	h.prevVoted = curVoted

	st.obs = fmt.Sprintf("(mkSO %s %s [%s] %s [%s] %s %s [%s])", vh.Bool(voted), vh.Bool(hasDef), strings.Join(vs, "; "), lastS,
		strings.Join(ls, "; "), natList(removed), natList(pool), strings.Join(qs, "; "))

	// ---- C05 oracle on the real observables
	seen := map[int]string{}
	for _, l := range live {
		if k, dup := seen[l.rid]; dup {
			h.fail("record-under-two-keys", fmt.Sprintf("record %d under %q and %q", l.rid, k, l.key))
		}
		seen[l.rid] = l.key
		if l.zero {
			h.fail("live-record-zeroed", fmt.Sprintf("record %d under %q has the zero stage point (pooled while live)", l.rid, l.key))
		} else if l.h != l.sh || l.r != l.sr || l.stage != l.sstage || (l.pfx != "") != l.isc {
			h.fail("key-record-mismatch", fmt.Sprintf("key %q holds record of %d/%d/%d isc=%v", l.key, l.sh, l.sr, l.sstage, l.isc))
		}
		if cleaned && last != nil && cmpSP(l.h, l.r, l.stage, last.h, last.r, last.stage) < 0 {
			h.fail("finished-record-not-released", fmt.Sprintf("key %q below last point %v after clean", l.key, *last))
		}
	}
	rs := map[int]bool{}
	for _, r := range removed {
		if rs[r] {
			h.fail("released-twice", fmt.Sprintf("record %d twice in removed", r))
		}
		rs[r] = true
		if k, ok := seen[r]; ok {
			h.fail("released-record-still-live", fmt.Sprintf("record %d in removed and live under %q", r, k))
		}
	}
	for _, r := range pool {
		if rs[r] {
			h.fail("pooled-and-removed", fmt.Sprintf("record %d", r))
		}
	}
}

func cmpSP(h1, r1 int64, s1 int, h2, r2 int64, s2 int) int {
	switch {
	case h1 != h2:
		if h1 < h2 {
			return -1
		}
		return 1
	case r1 != r2:
		if r1 < r2 {
			return -1
		}
		return 1
	case s1 != s2:
		if s1 < s2 {
			return -1
		}
		return 1
	}
	return 0
}

// ---------------------------------------------------------------- C04 oracle: the property on a real emitted voteproof

// CheckVP evaluates the four clauses of C04 on a voteproof emitted by the real ballotbox.
// votedSP: stage points for which a sign fact was submitted; embedded: ids of voteproofs carried by submitted ballots.
func CheckVP(w *World, vp base.Voteproof, votedSP map[string]bool, fail func(class, desc string)) {
	sp := vp.Point()
	stage := 0
	if sp.Stage() == base.StageACCEPT {
		stage = 1
	}
	_, embedded := w.vpid[vp.ID()]
	if !embedded && !votedSP[spKey(int64(sp.Height()), int64(sp.Round()), stage)] {
		fail("vp-point-not-voted", fmt.Sprintf("voteproof for %v but no vote was given for it", sp))
	}
	suf, ok := w.rsufs[int64(sp.Height())-1]
	if !ok {
		fail("vp-unknown-suffrage", fmt.Sprintf("%v", sp))
		return
	}
	// (b) sign facts: for that stage point, from distinct nodes of the suffrage
	seen := map[string]bool{}
	for _, sf := range vp.SignFacts() {
		n := sf.Node().String()
		if seen[n] {
			fail("vp-signfact-unsound", fmt.Sprintf("%v: node %s signs twice", sp, n))
		}
		seen[n] = true
		if !suf.ExistsPublickey(sf.Node(), sf.Signer()) {
			fail("vp-signfact-unsound", fmt.Sprintf("%v: sign fact of %s is not from a suffrage node", sp, n))
		}
		if f, ok := sf.Fact().(base.BallotFact); !ok || !f.Point().Equal(sp) {
			fail("vp-signfact-unsound", fmt.Sprintf("%v: sign fact of %s is for %v", sp, n, sf.Fact()))
		}
	}
	// (c) the validation other nodes apply
	if err := vp.IsValid(w.netID); err != nil {
		fail("vp-fails-validation", fmt.Sprintf("%v %T: IsValid: %v", sp, vp, err))
	}
	if err := isaac.IsValidVoteproofWithSuffrage(vp, suf); err != nil {
		fail("vp-fails-validation", fmt.Sprintf("%v %T nsfs=%d: IsValidVoteproofWithSuffrage: %v", sp, vp, len(vp.SignFacts()), err))
	}
	// (c') the threshold it was counted with is not below the threshold of the box
	if got := int(vp.Threshold().Float64()*10 + 0.5); got < w.th10 {
		fail("vp-threshold-below-box", fmt.Sprintf("%v %T: threshold %d/10, the ballotbox counts with %d/10", sp, vp, got, w.th10))
	}
	// (d) fresh recount, independent of base.FindVoteResult
	if _, stuck := vp.(base.StuckVoteproof); stuck {
		return
	}
	q := int64(suf.Len())
	th10 := int64(vp.Threshold().Float64()*10 + 0.5)
	if we, ok := vp.(base.HasExpels); ok && len(we.Expels()) > 0 {
		ex := map[string]bool{}
		for _, e := range we.Expels() {
			ex[e.ExpelFact().Node().String()] = true
		}
		q = 0
		for _, n := range suf.Nodes() {
			if !ex[n.Address().String()] {
				q++
			}
		}
		th10 = 1000
	}
	need := new(big.Int).Mul(big.NewInt(q), big.NewInt(th10)) // votes*1000 >= q*th10
	counts := map[string]int64{}
	var total, best int64
	var bestk string
	for _, sf := range vp.SignFacts() {
		k := sf.Fact().Hash().String()
		counts[k]++
		total++
		if counts[k] > best {
			best, bestk = counts[k], k
		}
	}
	reach := func(c int64) bool { return new(big.Int).Mul(big.NewInt(c), big.NewInt(1000)).Cmp(need) >= 0 }
	rest := q - total
	if rest < 0 {
		rest = 0
	}
	want := base.VoteResultNotYet
	switch {
	case reach(best):
		want = base.VoteResultMajority
	case !reach(best + rest):
		want = base.VoteResultDraw
	}
	// a majority must also be a majority under the threshold of the box (plain voteproofs)
	if we, ok := vp.(base.HasExpels); (!ok || len(we.Expels()) == 0) && vp.Result() == base.VoteResultMajority {
		if new(big.Int).Mul(big.NewInt(best), big.NewInt(1000)).Cmp(new(big.Int).Mul(big.NewInt(q), big.NewInt(int64(w.th10)))) < 0 {
			fail("vp-recount-mismatch", fmt.Sprintf("%v: MAJORITY with %d of %d votes is not a majority under the threshold of the box %d/10", sp, best, q, w.th10))
		}
	}
	if vp.Result() != want {
		fail("vp-recount-mismatch", fmt.Sprintf("%v: result %s, recount %s (quorum %d, th %d/10, best %d of %d)", sp, vp.Result(), want, q, th10, best, total))
	} else if want == base.VoteResultMajority && (vp.Majority() == nil || vp.Majority().Hash().String() != bestk) {
		fail("vp-recount-mismatch", fmt.Sprintf("%v: majority is not the most voted fact", sp))
	}
}
