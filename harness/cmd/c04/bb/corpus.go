package bb

import (
	"github.com/spikeekips/mitum/base"
	"github.com/spikeekips/mitum/isaac"
	"verifharness/vh"
)

func isaacValid(vp base.Voteproof, suf base.Suffrage) bool {
	return isaac.IsValidVoteproofWithSuffrage(vp, suf) == nil
}

func corpusHist(res *vh.Result, prop string, n, th10 int) (*Hist, *genState) {
	r := vh.NewRand(7)
	w := NewWorld(r, n, th10, true)
	// the corpus histories use the full suffrage at every height
	all := make([]int, n)
	ns := make([]base.Node, n)
	for i := range all {
		all[i] = i
		ns[i] = w.nodes[i]
	}
	s, _ := isaac.NewSuffrage(ns)
	for _, x := range []int64{w.H - 2, w.H - 1, w.H} {
		w.sufs[x] = all
		w.rsufs[x] = s
	}
	h := NewHist(w, res, prop)
	g := &genState{h: h, w: w, r: r, vpcache: map[string]int{}, expsets: [][]int{nil}}
	for _, x := range []int64{w.H - 2, w.H - 1, w.H} {
		h.doLearn(x)
	}
	h.doSetLast(lastP{h: w.H - 1, r: 0, stage: 1, maj: true})
	return h, g
}

func allSigners(n int) [][2]int {
	var s [][2]int
	for j := 0; j < n; j++ {
		s = append(s, [2]int{j, j})
	}
	return s
}

func (g *genState) voteAndCount(node, pub int, hh, rr int64, kind, v int, ex []int, full bool) {
	bl := g.ballot(node, pub, hh, rr, kind, v, ex, full)
	if bl == nil || !bl.valid {
		return
	}
	g.h.doVote(bl)
	for len(g.h.pend) > 0 {
		g.runPending(0)
	}
}

// Corpus: the minimised witnesses of the defects of ballotbox.go that were fixed (1fd631b, fbc0fd9, 3e29325).
func Corpus(res *vh.Result, prop string) []*Hist {
	var out []*Hist

	// C04: n=7, threshold 67, one expel carried by the voters: 5 voters used to emit an INITExpelVoteproof that the
	// validator rejects ("wrong result ... NOT YET")
	{
		h, g := corpusHist(res, prop, 7, 670)
		e := h.w.Expel(6, h.w.H-1, h.w.H+1, allSigners(6))
		for i := 0; i < 6; i++ {
			g.voteAndCount(i, i, h.w.H, 0, kInit, 0, []int{e}, true)
		}
		out = append(out, h)
	}
	// C04: sign facts not from the suffrage (outsider through VoteSignFact, member address with another key through Vote)
	{
		h, g := corpusHist(res, prop, 3, 670)
		g.voteAndCount(3, 3, h.w.H, 0, kInit, 0, nil, false)
		g.voteAndCount(4, 4, h.w.H, 0, kInit, 0, nil, false)
		g.voteAndCount(1, 101, h.w.H, 0, kInit, 0, nil, true)
		g.voteAndCount(0, 0, h.w.H, 0, kInit, 0, nil, true)
		g.voteAndCount(2, 2, h.w.H, 0, kInit, 0, nil, true)
		g.voteAndCount(1, 1, h.w.H, 0, kInit, 0, nil, true)
		out = append(out, h)
	}
	// C04: expel signed by outsiders only / by too few nodes, carried by the voters
	{
		h, g := corpusHist(res, prop, 3, 670)
		e := h.w.Expel(2, h.w.H-1, h.w.H+1, [][2]int{{3, 3}, {4, 4}})
		g.voteAndCount(0, 0, h.w.H, 0, kInit, 0, []int{e}, true)
		g.voteAndCount(1, 1, h.w.H, 0, kInit, 0, []int{e}, true)
		e2 := h.w.Expel(2, h.w.H-1, h.w.H+1, [][2]int{{0, 0}})
		g.voteAndCount(0, 0, h.w.H, 1, kInit, 0, []int{e2}, true)
		g.voteAndCount(1, 1, h.w.H, 1, kInit, 0, []int{e2}, true)
		out = append(out, h)
	}
	// C05: a suffrage confirm record, then the box moves on over several clean cycles and new stage points take
	// records from the pool
	{
		h, g := corpusHist(res, prop, 3, 670)
		w := h.w
		e := w.Expel(2, w.H-1, w.H+1, allSigners(3))
		h.doSetLast(lastP{h: w.H, r: 0, stage: 0, maj: true})
		g.voteAndCount(0, 0, w.H, 0, kSC, 0, []int{e}, true)
		g.voteAndCount(0, 0, w.H, 0, kAccept, 0, nil, false)
		h.doSetLast(lastP{h: w.H, r: 0, stage: 1, maj: true})
		h.doClean()
		h.doSetLast(lastP{h: w.H + 1, r: 0, stage: 0, maj: true})
		h.doClean()
		h.doClean()
		g.voteAndCount(0, 0, w.H+1, 0, kAccept, 0, nil, false)
		g.voteAndCount(1, 1, w.H+1, 1, kInit, 0, nil, false)
		g.voteAndCount(0, 0, w.H+1, 1, kAccept, 0, nil, false)
		h.doClean()
		g.voteAndCount(1, 1, w.H+1, 1, kAccept, 0, nil, false)
		out = append(out, h)
	}
	// C05 (seeded change C05-B): a held INIT(H,1) record, the box moves to the majority of ACCEPT(H,0), the hold
	// expires: nothing may be emitted from the records of the passed stage point
	{
		h, g := corpusHist(res, prop, 3, 670)
		g.holdScenario(true)
		out = append(out, h)
	}
	// C04 (seeded change C04-A): a rejected second ballot of a node carries an expired expel; it must leave no trace
	// in the record: no expel voteproof may be built from it
	for _, fl := range []int{0, 1} {
		h, g := corpusHist(res, prop, 4, 670)
		g.revoteScenario(fl)
		out = append(out, h)
	}
	// C04 (seeded change C04-D): an embedded voteproof made under a lower threshold on the deferred (not validated) path
	{
		r := vh.NewRand(11)
		w := NewWorld(r, 3, 670, true)
		h := NewHist(w, res, prop)
		g := &genState{h: h, w: w, r: r, vpcache: map[string]int{}, expsets: [][]int{nil}}
		g.lowThresholdScenario(5)
		out = append(out, h)
	}
	// C06 clause (seeded change C06-D): last point INIT(H,1) draw, suffrage-confirm ballots of (H,0) carry the old INIT
	// majority voteproof of (H,0): the last point must not move back
	{
		h, g := corpusHist(res, prop, 3, 670)
		g.scBackScenario()
		out = append(out, h)
	}
	// C04 (seeded change C04-E): an embedded stuck voteproof signed by an outsider and by foreign keys
	{
		h, g := corpusHist(res, prop, 4, 670)
		g.stuckScenario(false)
		out = append(out, h)
	}
	return out
}
