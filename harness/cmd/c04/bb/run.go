package bb

import (
	"fmt"
	"strings"

	"github.com/spikeekips/mitum/base"
	"github.com/spikeekips/mitum/isaac"
	isaacstates "github.com/spikeekips/mitum/isaac/states"
	"verifharness/vh"
)

// isaacstatesRecord: the suffrage-confirm flag of a record object
func isaacstatesRecord(h *Hist, rid int) (isc bool, ok bool) {
	if rid < 0 || rid >= len(h.ptrs) {
		return false, false
	}
	info, found := isaacstates.VerifRecord(h.ptrs[rid])
	return info.ISC, found
}

type validCase struct {
	a         *aVP
	sufH      int64
	wf, valid bool
}

// ---------------------------------------------------------------- steps on the real box

func (h *Hist) liveMap() map[string]int {
	m := map[string]int{}
	l, _ := h.box.VerifInspect()
	for _, x := range l {
		if id, ok := h.ids[x.ID]; ok {
			m[x.Key] = id
		}
	}
	return m
}

func (h *Hist) keyOfRid(rid int) string {
	for k, id := range h.liveMap() {
		if id == rid {
			return k
		}
	}
	return ""
}

func (h *Hist) queryKey(f *aFact) string {
	return spKey(f.h, f.r, kindStage(f.kind))
}

func realKey(f *aFact) string {
	sp := base.NewStagePoint(base.RawPoint(f.h, uint64(f.r)), base.StageINIT)
	if f.kind == kAccept {
		sp = base.NewStagePoint(base.RawPoint(f.h, uint64(f.r)), base.StageACCEPT)
	}
	return sp.String()
}

func (h *Hist) doVote(bl *aBallot) {
	w := h.w
	f := w.facts[bl.sf.fact]
	st := &step{kind: sVote, bl: bl, get: -1, pickvp: -1, pickex: -1, about: h.queryKey(f)}
	h.steps = append(h.steps, st)
	h.desc = append(h.desc, fmt.Sprintf("vote node=%d pub=%d fact=%d(h%d r%d k%d v%d ex%v) vp=%d ex=%v full=%v", bl.sf.node, bl.sf.pub, f.idx, f.h, f.r, f.kind, f.variant, f.ex, bl.vp, bl.ex, bl.full))
	h.points[h.queryKey(f)] = [3]int64{f.h, f.r, int64(kindStage(f.kind))}
	h.votedSP[h.queryKey(f)] = true
	before := h.liveMap()

	var voted bool
	var def func() []base.Voteproof
	var err error
	if bl.full {
		voted, def, err = h.box.VerifVote(bl.real)
	} else {
		voted, def, err = h.box.VerifVoteSignFact(bl.sf.real)
	}
	if err != nil {
		h.fail("vote-error", err.Error())
	}
	vps := h.drain()

	// the record of the key of this ballot; was it taken from the pool?
	rid := -1
	l, _ := h.box.VerifInspect()
	for _, x := range l {
		if !strings.HasSuffix(x.Key, realKey(f)) || (x.Key != realKey(f)) != (f.kind == kSC) {
			continue
		}
		if _, was := before[x.Key]; !was {
			if id, seen := h.ids[x.ID]; seen {
				st.get = id
			}
			id, _ := h.rid(x.ID)
			h.acc[id] = nil
		}
		rid, _ = h.rid(x.ID)
	}
	if voted && rid >= 0 {
		h.acc[rid] = append(h.acc[rid], bl)
	}
	h.observe(st, voted, def != nil, vps, false)
	if def != nil && rid >= 0 {
		cnt := voted && h.known[f.h-1]
		h.pend = append(h.pend, pending{f: def, rid: rid, cnt: cnt, vp: bl.vp})
	}
}

func sameSet(a, b []int) bool {
	if len(a) != len(b) {
		return false
	}
	m := map[int]int{}
	for _, x := range a {
		m[x]++
	}
	for _, x := range b {
		m[x]--
	}
	for _, v := range m {
		if v != 0 {
			return false
		}
	}
	return true
}

// afterCount resolves the map-order oracles from the emitted voteproofs and applies the C04 oracle.
// passedOracle (C05: once the ballotbox has moved past a stage point, its records are no longer consulted): no
// voteproof is built from the records of a stage point p with !last.Before(p) at the time of the step.
func (h *Hist) passedOracle(lastBefore isaac.LastPoint, rid int, vps []base.Voteproof) {
	info, ok := isaacstatesRecord(h, rid)
	for _, vp := range vps {
		if _, emb := h.w.vpid[vp.ID()]; emb {
			continue
		}
		isc := ok && info
		if !lastBefore.IsZero() && !lastBefore.Before(vp.Point(), isc) {
			h.fail("vp-from-passed-stage-point", fmt.Sprintf("voteproof %v %s built while last point is %v (majority=%v)", vp.Point(), vp.Result(), lastBefore.StagePoint, lastBefore.IsMajority()))
		}
	}
}

func (h *Hist) afterCount(st *step, rid int, ret, vps []base.Voteproof, viaChannelOnly bool) {
	if !viaChannelOnly && len(ret) != len(vps) {
		h.fail("returned-and-emitted-differ", fmt.Sprintf("returned %d, channel %d", len(ret), len(vps)))
	}
	for _, vp := range vps {
		if i, ok := h.w.vpid[vp.ID()]; ok {
			for _, bl := range h.acc[rid] {
				if bl.vp == i {
					st.pickvp = bl.sf.node
					break
				}
			}
		} else if a := h.w.Abstract(vp); a != nil {
			if len(a.ex) > 0 {
				in := map[int]bool{}
				for _, s := range a.sfs {
					in[s.node] = true
				}
				for pass := 0; pass < 2 && st.pickex < 0; pass++ {
					for _, bl := range h.acc[rid] {
						if sameSet(bl.ex, a.ex) && (pass == 1 || in[bl.sf.node]) {
							st.pickex = bl.sf.node
							break
						}
					}
				}
			}
			suf := h.w.rsufs[a.h-1]
			vc := validCase{a: a, sufH: a.h - 1, wf: vp.IsValid(h.w.netID) == nil}
			if suf != nil {
				vc.valid = isaac.IsValidVoteproofWithSuffrage(vp, suf) == nil
			}
			h.ownVPs = append(h.ownVPs, a)
			h.valids = append(h.valids, vc)
		}
		CheckVP(h.w, vp, h.votedSP, h.fail)
		h.res.Dist(fmt.Sprintf("emitted_%T_%s", vp, vp.Result()))
	}
}

func (h *Hist) doCount(rid int, elapsed bool, p *pending) {
	st := &step{kind: sCount, rid: rid, elapsed: elapsed, get: -1, pickvp: -1, pickex: -1, about: stripPfx(h.keyOfRid(rid))}
	h.steps = append(h.steps, st)
	h.desc = append(h.desc, fmt.Sprintf("count rec=%d elapsed=%v deferred=%v", rid, elapsed, p != nil))
	h.setElapsed(elapsed)
	lastBefore := h.box.LastPoint()
	var ret []base.Voteproof
	if p != nil {
		ret = p.f()
	} else {
		ret = h.box.VerifCountRecord(h.ptrs[rid])
	}
	vps := h.drain()
	h.passedOracle(lastBefore, rid, vps)
	h.afterCount(st, rid, ret, vps, false)
	h.observe(st, false, false, vps, len(vps) > 0)
}

func (h *Hist) doHeld(rid int, elapsed bool) {
	st := &step{kind: sHeld, rid: rid, elapsed: elapsed, get: -1, pickvp: -1, pickex: -1, about: stripPfx(h.keyOfRid(rid))}
	h.steps = append(h.steps, st)
	h.desc = append(h.desc, fmt.Sprintf("held rec=%d elapsed=%v", rid, elapsed))
	h.setElapsed(elapsed)
	lastBefore := h.box.LastPoint()
	ret := h.box.VerifCountHolded(h.ptrs[rid])
	vps := h.drain()
	h.passedOracle(lastBefore, rid, vps)
	h.afterCount(st, rid, ret, vps, false)
	h.observe(st, false, false, vps, false)
}

func (h *Hist) doForward(p pending) {
	st := &step{kind: sForward, rid: p.rid, vp: p.vp, get: -1, pickvp: -1, pickex: -1, about: stripPfx(h.keyOfRid(p.rid))}
	h.steps = append(h.steps, st)
	h.desc = append(h.desc, fmt.Sprintf("forward rec=%d vp=%d", p.rid, p.vp))
	ret := p.f()
	vps := h.drain()
	h.afterCount(st, p.rid, ret, vps, false)
	h.observe(st, false, false, vps, false)
}

func (h *Hist) doSetLast(l lastP) {
	st := &step{kind: sSetLast, last: l, get: -1, pickvp: -1, pickex: -1}
	h.steps = append(h.steps, st)
	h.desc = append(h.desc, fmt.Sprintf("setlast %+v", l))
	sp := base.NewStagePoint(base.RawPoint(l.h, uint64(l.r)), base.StageINIT)
	if l.stage == 1 {
		sp = base.NewStagePoint(base.RawPoint(l.h, uint64(l.r)), base.StageACCEPT)
	}
	lp, err := isaac.NewLastPoint(sp, l.maj, l.sc)
	if err != nil {
		panic(err)
	}
	h.box.SetLastPoint(lp)
	h.observe(st, false, false, h.drain(), false)
}

func (h *Hist) doClean() {
	st := &step{kind: sClean, get: -1, pickvp: -1, pickex: -1}
	h.steps = append(h.steps, st)
	h.desc = append(h.desc, "clean")
	h.box.VerifClean()
	h.observe(st, false, false, h.drain(), true)
}

func (h *Hist) doLearn(height int64) {
	st := &step{kind: sLearn, h: height, get: -1, pickvp: -1, pickex: -1}
	h.steps = append(h.steps, st)
	h.desc = append(h.desc, fmt.Sprintf("learn %d", height))
	h.known[height] = true
	h.observe(st, false, false, h.drain(), false)
}

func stripPfx(k string) string {
	_, hh, r, s, ok := parseKey(k)
	if !ok {
		return ""
	}
	return spKey(hh, r, s)
}

// ---------------------------------------------------------------- rendering of the history case

func (st *step) copC() string {
	switch st.kind {
	case sVote:
		bl := st.bl
		vp := "None"
		if bl.vp >= 0 {
			vp = fmt.Sprintf("(Some %d%%nat)", bl.vp)
		}
		return fmt.Sprintf("(CVote %s %s %s %s %s)", sfC(bl.sf), vp, natList(bl.ex), vh.Bool(bl.full), optNat(st.get))
	case sCount:
		return fmt.Sprintf("(CCount %d%%nat %s %s %s)", st.rid, vh.Bool(st.elapsed), optZ(st.pickvp), optZ(st.pickex))
	case sHeld:
		return fmt.Sprintf("(CHeld %d%%nat %s %s %s)", st.rid, vh.Bool(st.elapsed), optZ(st.pickvp), optZ(st.pickex))
	case sForward:
		return fmt.Sprintf("(CForward %d%%nat %d%%nat)", st.rid, st.vp)
	case sSetLast:
		return "(CSetLast " + lastPC(st.last) + ")"
	case sClean:
		return "CClean"
	default:
		return fmt.Sprintf("(CLearn %s)", vh.Z(st.h))
	}
}

func (h *Hist) CaseC() string {
	w := h.w
	ss := make([]string, len(h.steps))
	for i, st := range h.steps {
		ss[i] = fmt.Sprintf("(%s, %s)", st.copC(), st.obs)
	}
	// validator checks: every embedded voteproof of the table, every voteproof built by the ballotbox
	var vs []string
	var extra []*aVP
	for _, v := range w.vps {
		suf, ok := w.rsufs[v.h-1]
		if !ok {
			continue
		}
		wf := v.real.IsValid(w.netID) == nil
		vs = append(vs, fmt.Sprintf("(%d%%nat, %s, %s, %s)", v.idx, vh.Z(v.h-1), vh.Bool(wf), vh.Bool(isaacValid(v.real, suf))))
		h.res.Evaluations++
	}
	for _, vc := range h.valids {
		if _, ok := w.rsufs[vc.sufH]; !ok {
			continue
		}
		vs = append(vs, fmt.Sprintf("(%d%%nat, %s, %s, %s)", len(w.vps)+len(extra), vh.Z(vc.sufH), vh.Bool(vc.wf), vh.Bool(vc.valid)))
		extra = append(extra, vc.a)
	}
	return fmt.Sprintf("(CaseHist %s %s [\n    %s] [%s])", w.envC(), w.tabsC(extra), strings.Join(ss, ";\n    "), strings.Join(vs, "; "))
}
