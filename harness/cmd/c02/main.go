// c02: Threshold.Threshold(n) == least m with m >= n*t/100, exhaustive grid + model correspondence.
package main

import (
	"fmt"
	"math/big"

	"github.com/spikeekips/mitum/base"
	"verifharness/vh"
)

type replay struct {
	N uint64 `json:"n"`
	T string `json:"t"` // threshold text, one decimal place
}

func thresholdFromTenths(k int) (base.Threshold, string) {
	s := fmt.Sprintf("%d.%d", k/10, k%10)
	var t base.Threshold
	if err := t.UnmarshalText([]byte(s)); err != nil {
		panic(err)
	}
	return t, s
}

func exact(n uint64, k int) uint64 {
	nk := new(big.Int).Mul(new(big.Int).SetUint64(n), big.NewInt(int64(k)))
	nk.Add(nk, big.NewInt(999))
	nk.Div(nk, big.NewInt(1000))
	return nk.Uint64()
}

func main() {
	o := vh.ParseFlags()
	res := vh.NewResult("exhaustive grid n in 1..N x t in 51.0..100.0 step 0.1 (thresholds produced by Threshold.UnmarshalText), compared with exact integer ceiling; plus random n up to 2^53; non-trivial = n*t/100 is not an integer (rounding matters)")
	if o.Replay != "" {
		var rp replay
		if err := vh.ReadReplay(o.Replay, &rp); err != nil {
			panic(err)
		}
		var t base.Threshold
		if err := t.UnmarshalText([]byte(rp.T)); err != nil {
			panic(err)
		}
		fmt.Printf("Threshold(%s).Threshold(%d) = %d\n", rp.T, rp.N, t.Threshold(uint(rp.N)))
	}
	maxN := o.Pick(100000, 400000)
	ths := make([]base.Threshold, 0, 491)
	txt := make([]string, 0, 491)
	for k := 510; k <= 1000; k++ {
		t, s := thresholdFromTenths(k)
		if err := t.IsValid(nil); err != nil {
			res.Fail("grid-threshold-invalid", err.Error(), replay{0, s})
		}
		ths = append(ths, t)
		txt = append(txt, s)
	}
	nontrivial := 0
	for n := 1; n <= maxN; n++ {
		for i, t := range ths {
			k := 510 + i
			got := uint64(t.Threshold(uint(n)))
			want := (uint64(n)*uint64(k) + 999) / 1000
			res.Evaluations++
			if (n*k)%1000 != 0 {
				nontrivial++
			}
			if got != want {
				res.Fail("count-not-ceiling", fmt.Sprintf("Threshold(%s).Threshold(%d)=%d want %d", txt[i], n, got, want), replay{uint64(n), txt[i]})
			}
		}
	}
	res.Exhaustive = true
	// thresholds given as Go float literals / arithmetic (k/10 computed in float64), not parsed text
	for k := 510; k <= 1000; k++ {
		t := base.Threshold(float64(k) / 10)
		for _, n := range []uint64{1, 3, 7, 25, 100, 1000, 99999} {
			res.Evaluations++
			if got, want := uint64(t.Threshold(uint(n))), exact(n, k); got != want {
				res.Fail("count-not-ceiling", fmt.Sprintf("Threshold(float %d/10).Threshold(%d)=%d want %d", k, n, got, want), replay{n, fmt.Sprintf("%d.%d", k/10, k%10)})
			}
		}
	}
	// random large n, and model cases
	r := vh.NewRand(o.Seed)
	cases := &vh.Cases{Import: "From MV Require Import C02.Model.", Type: "Z * Z * Z", CheckFn: "check"}
	nm := o.Pick(1500, 20000)
	for i := 0; i < nm; i++ {
		var n uint64
		switch r.Intn(4) {
		case 0:
			n = uint64(r.Range(1, 200))
		case 1:
			n = uint64(r.Range(1, 100000))
		case 2:
			n = r.U64() >> uint(11+r.Intn(50))
		default:
			n = (uint64(1) << 53) - uint64(r.Intn(1000)) - 1
		}
		k := r.Range(510, 1000)
		t, s := thresholdFromTenths(k)
		got := uint64(t.Threshold(uint(n)))
		want := exact(n, k)
		res.Evaluations++
		nt := new(big.Int).Mod(new(big.Int).Mul(new(big.Int).SetUint64(n), big.NewInt(int64(k))), big.NewInt(1000)).Sign() != 0
		if nt {
			nontrivial++
		}
		if n > 100000 {
			res.Dist("random_n>1e5")
		} else {
			res.Dist("random_n<=1e5")
		}
		if got != want {
			res.Fail("count-not-ceiling", fmt.Sprintf("Threshold(%s).Threshold(%d)=%d want %d", s, n, got, want), replay{n, s})
		}
		cases.Add(vh.Tuple(vh.ZU(n), vh.Z(int64(k)), vh.ZU(got)), map[string]any{"n": n, "t": s, "impl": got})
		if i < 4 {
			res.Sample(map[string]any{"n": n, "t": s, "impl": got, "exact": want})
		}
	}
	// the formerly failing corner cases, always part of the corpus
	for _, c := range [][2]int{{25, 560}, {100, 550}, {3, 670}, {7, 670}, {100, 1000}, {1, 510}} {
		t, s := thresholdFromTenths(c[1])
		got := uint64(t.Threshold(uint(c[0])))
		cases.Add(vh.Tuple(vh.Z(int64(c[0])), vh.Z(int64(c[1])), vh.ZU(got)), map[string]any{"n": c[0], "t": s, "impl": got})
	}
	res.DistinctNontrivial = nontrivial
	res.Distribution["grid_maxN"] = maxN
	res.Distribution["grid_thresholds"] = len(ths)
	res.ModelCases = cases.Len()
	if err := cases.Write(o.Out); err != nil {
		panic(err)
	}
	res.Write(o.Out)
}
