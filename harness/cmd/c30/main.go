// c30: stream header protocol (network/quicstream/header): request head / response head / bodies round trip under
// any chunking; hostile byte streams into the read side yield an error or a well-formed message, never a panic.
//
// The parent re-executes itself with -child (address space capped) so that a crash of the real code is observable.
package main

import (
	"bytes"
	"context"
	"encoding/hex"
	"encoding/json"
	"errors"
	"flag"
	"fmt"
	"io"
	"net"
	"net/url"
	"os"
	"os/exec"
	"path/filepath"
	"runtime/debug"
	"strings"
	"sync"
	"syscall"

	"github.com/spikeekips/mitum/base"
	isaacnetwork "github.com/spikeekips/mitum/isaac/network"
	"github.com/spikeekips/mitum/launch"
	"github.com/spikeekips/mitum/network/quicmemberlist"
	"github.com/spikeekips/mitum/network/quicstream"
	quicstreamheader "github.com/spikeekips/mitum/network/quicstream/header"
	"github.com/spikeekips/mitum/util"
	"github.com/spikeekips/mitum/util/encoder"
	jsonenc "github.com/spikeekips/mitum/util/encoder/json"
	"github.com/spikeekips/mitum/util/valuehash"
	"verifharness/vh"
)

// ---------------------------------------------------------------- environment: chunking reader (same spec as C29/Model.v reader)

var errIO = errors.New("io failure (harness)")

type chunkReader struct {
	chunks [][]byte
	ending int // 0: (0,EOF) after the last byte; 1: EOF together with the last chunk; 2: (0, errIO) after the last byte
}

func (c *chunkReader) Read(p []byte) (int, error) {
	if len(p) == 0 {
		return 0, nil
	}
	if len(c.chunks) == 0 {
		if c.ending == 2 {
			return 0, errIO
		}
		return 0, io.EOF
	}
	ch := c.chunks[0]
	if len(ch) <= len(p) {
		copy(p, ch)
		c.chunks = c.chunks[1:]
		if len(c.chunks) == 0 && c.ending == 1 {
			return len(ch), io.EOF
		}
		return len(ch), nil
	}
	copy(p, ch[:len(p)])
	c.chunks[0] = ch[len(p):]
	return len(p), nil
}

func (c *chunkReader) rest() []byte {
	var b []byte
	for _, ch := range c.chunks {
		b = append(b, ch...)
	}
	return b
}

type chunking struct {
	Sizes  []int `json:"sizes"`
	Unit   int   `json:"unit"`
	Ending int   `json:"ending"`
}

func split(d []byte, ck chunking) [][]byte {
	var out [][]byte
	for _, s := range ck.Sizes {
		if s > len(d) {
			s = len(d)
		}
		out = append(out, d[:s:s])
		d = d[s:]
	}
	if len(d) == 0 {
		return out
	}
	if ck.Unit == 0 {
		return append(out, d)
	}
	for len(d) > 0 {
		s := ck.Unit
		if s > len(d) {
			s = len(d)
		}
		out = append(out, d[:s:s])
		d = d[s:]
	}
	return out
}

func newReader(d []byte, ck chunking) *chunkReader {
	cp := append([]byte{}, d...)
	return &chunkReader{chunks: split(cp, ck), ending: ck.Ending}
}

func randChunking(r *vh.Rand, n int) chunking {
	ck := chunking{Ending: r.Intn(2)}
	switch r.Intn(6) {
	case 0:
	case 1:
		ck.Unit = 1
	case 2:
		ck.Sizes = []int{1}
	case 3:
		ck.Unit = []int{2, 3, 7, 8, 9, 16, 31, 32, 33, 1200}[r.Intn(10)]
	default:
		k := r.Range(1, 10)
		for i := 0; i < k; i++ {
			switch r.Intn(5) {
			case 0:
				ck.Sizes = append(ck.Sizes, 0)
			case 1:
				ck.Sizes = append(ck.Sizes, r.Range(1, 9))
			default:
				ck.Sizes = append(ck.Sizes, r.Range(1, n/2+2))
			}
		}
		if r.Bool() {
			ck.Unit = r.Range(1, 40)
		}
	}
	return ck
}

type capture struct {
	bytes.Buffer
	closed bool
}

func (c *capture) Close() error { c.closed = true; return nil }

// ---------------------------------------------------------------- headers of every registered type

type world struct {
	enc  encoder.Encoder
	encs *encoder.Encoders
	r    *vh.Rand
	priv base.Privatekey
	nid  base.NetworkID
}

func (w *world) hash() util.Hash { return valuehash.NewSHA256(w.r.Bytes(16)) }
func (w *world) str(n int) string {
	b := w.r.Bytes(w.r.Range(1, n))
	return hex.EncodeToString(b)
}

func (w *world) connInfo() quicstream.ConnInfo {
	return quicstream.UnsafeConnInfo(&net.UDPAddr{IP: net.IPv4(10, byte(w.r.Intn(250)), byte(w.r.Intn(250)), byte(1+w.r.Intn(250))), Port: w.r.Range(1024, 60000)}, w.r.Bool())
}

func (w *world) requestHeaders() []quicstreamheader.RequestHeader {
	pub := w.priv.Publickey()
	addr := base.RandomAddress("n")
	h := func() base.Height { return base.Height(int64(w.r.Intn(1 << 30))) }
	ensure, err := quicmemberlist.NewEnsureBroadcastMessageHeader(w.str(8), quicstream.HashPrefix(launch.HandlerNameMemberlistEnsureBroadcastMessage), addr, w.priv, w.nid)
	if err != nil {
		panic(err)
	}
	return []quicstreamheader.RequestHeader{
		isaacnetwork.NewOperationRequestHeader(w.hash()),
		isaacnetwork.NewSendOperationRequestHeader(),
		isaacnetwork.NewRequestProposalRequestHeader(base.RawPoint(int64(w.r.Intn(1<<20)), uint64(w.r.Intn(9))), addr, w.hash()),
		isaacnetwork.NewProposalRequestHeader(w.hash()),
		isaacnetwork.NewLastSuffrageProofRequestHeader(w.hash()),
		isaacnetwork.NewSuffrageProofRequestHeader(h()),
		isaacnetwork.NewLastBlockMapRequestHeader(w.hash()),
		isaacnetwork.NewBlockMapRequestHeader(h()),
		isaacnetwork.NewBlockItemRequestHeader(h(), base.BlockItemOperations),
		isaacnetwork.NewBlockItemFilesRequestHeader(h(), pub),
		isaacnetwork.NewNodeChallengeRequestHeader(w.r.Bytes(w.r.Range(1, 33)), addr, pub),
		isaacnetwork.NewSuffrageNodeConnInfoRequestHeader(),
		isaacnetwork.NewSyncSourceConnInfoRequestHeader(),
		isaacnetwork.NewStateRequestHeader(w.str(12), w.hash()),
		isaacnetwork.NewExistsInStateOperationRequestHeader(w.hash()),
		isaacnetwork.NewNodeInfoRequestHeader(),
		isaacnetwork.NewSendBallotsHeader(),
		isaacnetwork.NewSetAllowConsensusHeader(w.r.Bool()),
		isaacnetwork.NewStreamOperationsHeader(w.r.Bytes(w.r.Range(0, 20))),
		isaacnetwork.NewStartHandoverHeader(w.connInfo(), addr, pub),
		isaacnetwork.NewCheckHandoverHeader(w.connInfo(), addr, pub),
		isaacnetwork.NewAskHandoverHeader(w.connInfo(), addr),
		isaacnetwork.NewCancelHandoverHeader(pub),
		isaacnetwork.NewHandoverMessageHeader(),
		isaacnetwork.NewCheckHandoverXHeader(addr),
		launch.NewEventLoggingHeader(launch.AllEventLogger, [2]int64{int64(100 + w.r.Intn(100)), int64(w.r.Intn(100))}, uint64(w.r.Range(1, 50)), w.r.Bool(), pub),
		launch.NewReadNodeHeader(w.str(10), pub),
		launch.NewWriteNodeHeader(w.str(10), pub),
		quicmemberlist.NewCallbackBroadcastMessageHeader(w.str(8), quicstream.HashPrefix(launch.HandlerNameMemberlistCallbackBroadcastMessage)),
		ensure,
	}
}

func (w *world) responseHeaders() []quicstreamheader.ResponseHeader {
	var e error
	if w.r.Bool() {
		e = errors.New("error " + w.str(10))
	}
	u := url.URL{Scheme: "https", Host: "a" + w.str(4) + ".example", Path: "/" + w.str(6)}
	return []quicstreamheader.ResponseHeader{
		quicstreamheader.NewDefaultResponseHeader(w.r.Bool(), e),
		quicstreamheader.NewDefaultResponseHeader(true, nil),
		isaacnetwork.NewAskHandoverResponseHeader(w.r.Bool(), e, w.str(8)),
		isaacnetwork.NewBlockItemResponseHeader(w.r.Bool(), e, u, []string{"", "gz"}[w.r.Intn(2)]),
	}
}

func (w *world) marshal(v interface{}) []byte {
	b, err := w.enc.Marshal(v)
	if err != nil {
		panic(err)
	}
	return b
}

// ---------------------------------------------------------------- reference view of a head (lenient; only to query the encoder layer and for the oracle)

func be(b []byte) uint64 {
	var x uint64
	for _, c := range b {
		x = x<<8 | uint64(c)
	}
	return x
}

type headView struct {
	dt        byte
	hint, hdr []byte
	nfields   int    // how many of (hint, hdr) could be cut out
	end       int    // offset after the head when nfields == 2
	hostile   uint64 // a length field that cannot be satisfied (would be allocated by ReadLengthed)
}

func viewHead(in []byte, off int) (v headView) {
	if len(in) <= off {
		return
	}
	v.dt = in[off]
	p := off + 1
	for i := 0; i < 2; i++ {
		if p+8 > len(in) {
			return
		}
		l := be(in[p : p+8])
		if l > uint64(len(in)-p-8) {
			if l <= 1<<31 {
				v.hostile = l
			}
			return
		}
		f := in[p+8 : p+8+int(l)]
		if i == 0 {
			v.hint = f
		} else {
			v.hdr = f
		}
		v.nfields++
		p += 8 + int(l)
	}
	v.end = p
	return
}

const (
	kErr   = 0
	kReq   = 1
	kResp  = 2
	kOther = 3
)

// the encoder layer of the real code, queried exactly as broker.go does
func (w *world) encKnown(hint []byte) bool {
	_, enc, found, err := w.encs.FindByString(string(hint))
	return err == nil && found && enc != nil
}

func (w *world) kindOf(hint, hdr []byte) (k int) {
	defer func() {
		if p := recover(); p != nil {
			k = kErr
		}
	}()
	_, enc, found, err := w.encs.FindByString(string(hint))
	if err != nil || !found {
		return kErr
	}
	var header quicstreamheader.Header
	if err := encoder.Decode(enc, hdr, &header); err != nil {
		return kErr
	}
	if header == nil {
		return kErr
	}
	if _, ok := header.(quicstreamheader.RequestHeader); ok {
		return kReq
	}
	if _, ok := header.(quicstreamheader.ResponseHeader); ok {
		return kResp
	}
	return kOther
}

// ---------------------------------------------------------------- running the real read side

const (
	tagOk    = 0
	tagErr   = 1
	tagPanic = 2
)

type readObs struct {
	tag    int
	prefix []byte
	hint   []byte
	header interface{} // decoded header
	sub    int         // op 2: 0 body, 1 response head
	bt     byte
	blen   uint64
	data   []byte
	ok     bool // io.ReadAll(body) returned no error
	rest   []byte
	msg    string
}

func (w *world) runRead(op int, in []byte, ck chunking) (o readObs) {
	cr := newReader(in, ck)
	defer func() {
		if p := recover(); p != nil {
			o = readObs{tag: tagPanic, msg: fmt.Sprint(p) + "\n" + string(debug.Stack())}
		}
	}()
	ctx := context.Background()
	switch op {
	case 0:
		p, err := quicstream.ReadPrefixVerif(ctx, cr)
		if err != nil {
			return readObs{tag: tagErr, msg: "prefix: " + err.Error()}
		}
		hb := quicstreamheader.NewHandlerBroker(w.encs, nil, cr, &capture{})
		h, err := hb.ReadRequestHead(ctx)
		if err != nil {
			return readObs{tag: tagErr, msg: err.Error()}
		}
		o = readObs{tag: tagOk, prefix: p[:], header: h}
		if hb.Encoder != nil {
			o.hint = hb.Encoder.Hint().Bytes()
		}
	case 1:
		cb := quicstreamheader.NewClientBroker(w.encs, w.enc, cr, &capture{})
		enc, h, err := cb.ReadResponseHead(ctx)
		if err != nil {
			return readObs{tag: tagErr, msg: err.Error()}
		}
		o = readObs{tag: tagOk, header: h}
		if enc != nil {
			o.hint = enc.Hint().Bytes()
		}
	default:
		cb := quicstreamheader.NewClientBroker(w.encs, w.enc, cr, &capture{})
		bt, bl, body, enc, res, err := cb.ReadBody(ctx)
		if err != nil {
			return readObs{tag: tagErr, msg: err.Error()}
		}
		if res != nil {
			o = readObs{tag: tagOk, sub: 1, header: res}
			if enc != nil {
				o.hint = enc.Hint().Bytes()
			}
		} else {
			o = readObs{tag: tagOk, bt: bt[0], blen: bl, ok: true}
			if body != nil {
				b, err := io.ReadAll(body)
				o.data, o.ok = b, err == nil
			}
		}
	}
	o.rest = cr.rest()
	return o
}

// ---------------------------------------------------------------- replay

type replay struct {
	Op       int       `json:"op"` // 0 request (prefix+head), 1 response head, 2 body
	Input    string    `json:"input_hex"`
	Chunking *chunking `json:"chunking,omitempty"`
	Note     string    `json:"note,omitempty"`
}

type runner struct {
	o     *vh.Opts
	w     *world
	res   *vh.Result
	cases *vh.Cases
	cur   string
}

func (h *runner) mark(rp replay) {
	b, _ := json.Marshal(rp)
	_ = os.WriteFile(h.cur, b, 0o644)
}

func coqInts(xs []int) string {
	ss := make([]string, len(xs))
	for i, x := range xs {
		ss[i] = fmt.Sprintf("%d", x)
	}
	return "[" + strings.Join(ss, "; ") + "]%N"
}

// one read of the real code on (op, input, chunking): oracle "error or well-formed, never a panic" + a model case
func (h *runner) readCase(op int, in []byte, ck chunking, note string, model bool) readObs {
	w, res := h.w, h.res
	off := 0
	if op == 0 {
		off = 32
	}
	v := viewHead(in, off)
	rp := replay{Op: op, Input: hex.EncodeToString(in), Chunking: &ck, Note: note}
	headExpected := op != 2 || (len(in) > 0 && in[0] == 3)
	if headExpected && v.hostile > 1<<20 {
		res.Dist("skipped_hostile_alloc")
		return readObs{tag: -1}
	}
	if headExpected && v.hostile > 512 && (ck.Unit != 0 && uint64(ck.Unit) < v.hostile/8) {
		ck.Unit = int(v.hostile / 8) // EnsureRead allocates the missing size for every Read call
	}
	h.mark(rp)
	o := w.runRead(op, in, ck)
	res.Evaluations++
	res.Dist(fmt.Sprintf("op%d_tag=%d", op, o.tag))
	fail := func(class, desc string) {
		res.Fail(class, fmt.Sprintf("op=%d %s: %s [%s] chunking=%+v", op, note, desc, o.msg, ck), rp)
	}
	switch o.tag {
	case tagPanic:
		fail("panic", "the read side panicked")
	case tagOk:
		// well-formedness of what was accepted, against the reference view of the input
		if op != 2 || o.sub == 1 {
			wantDt := map[int]byte{0: 1, 1: 3, 2: 3}[op]
			switch {
			case o.header == nil:
				fail("accepted-nil-header", "accepted a nil header")
			case v.nfields != 2 || v.dt != wantDt:
				fail("accepted-malformed-head", "accepted a head whose data type / length fields do not frame the input")
			case !bytes.Equal(o.rest, in[v.end:]):
				fail("head-wrong-consumption", fmt.Sprintf("consumed %d bytes, the head is %d bytes", len(in)-len(o.rest), v.end))
			case op == 0 && (!bytes.Equal(o.prefix, in[:32]) || bytes.Equal(o.prefix, make([]byte, 32))):
				fail("head-wrong-prefix", "prefix differs or is zero")
			}
			if op == 0 {
				if _, ok := o.header.(quicstreamheader.RequestHeader); !ok {
					fail("accepted-wrong-kind", "request head is not a RequestHeader")
				}
			} else if _, ok := o.header.(quicstreamheader.ResponseHeader); !ok {
				fail("accepted-wrong-kind", "response head is not a ResponseHeader")
			}
		} else {
			avail := in[min(2, len(in)):]
			switch o.bt {
			case 1:
				if len(o.data) != 0 || !bytes.Equal(o.rest, avail) || !o.ok {
					fail("body-empty-wrong", "empty body consumed data")
				}
			case 2:
				if len(avail) < 8 {
					fail("body-fixed-wrong", "fixed body accepted without a length")
					break
				}
				avail = avail[8:]
				switch {
				case o.blen <= uint64(len(avail)):
					if !o.ok || !bytes.Equal(o.data, avail[:o.blen]) || !bytes.Equal(o.rest, avail[o.blen:]) {
						fail("body-fixed-wrong", fmt.Sprintf("announced %d bytes, read %d (err=%v), %d left unread of %d", o.blen, len(o.data), !o.ok, len(o.rest), len(avail)))
					}
				default:
					if o.ok {
						fail("body-fixed-truncated-accepted", fmt.Sprintf("announced %d bytes, stream holds %d: io.ReadAll(body) returned %d bytes without error", o.blen, len(avail), len(o.data)))
					}
				}
			case 3:
				if !bytes.Equal(o.data, avail) || len(o.rest) != 0 || o.ok != (ck.Ending != 2) {
					fail("body-stream-wrong", "stream body is not the rest of the stream")
				}
			default:
				fail("body-type-invalid", fmt.Sprintf("accepted body type %d", o.bt))
			}
		}
	}
	if model && len(in) <= 1500 && h.cases.Len() < h.o.Pick(2200, 9000) {
		known := []string{}
		kinds := []string{}
		if (op != 2 || v.dt == 3) && v.nfields >= 1 {
			known = append(known, vh.Tuple(vh.Hex(v.hint), vh.Bool(w.encKnown(v.hint))))
			if v.nfields == 2 {
				kinds = append(kinds, vh.Tuple(vh.Hex(v.hdr), vh.N(uint64(w.kindOf(v.hint, v.hdr)))))
			}
		}
		var hdr, hint []byte
		if o.tag == tagOk && (op != 2 || o.sub == 1) && v.nfields == 2 {
			// the decoded header and the resolved encoder are compared by the oracle; the model returns the raw wire bytes
			hdr, hint = v.hdr, v.hint
		}
		h.cases.Add(fmt.Sprintf("CRead %s %s %s %s %s %s %s %s %s %s %s %s %s %s %s %s %s",
			vh.N(uint64(op)), vh.Hex(in), coqInts(ck.Sizes), vh.N(uint64(ck.Unit)), vh.N(uint64(ck.Ending)),
			vh.List(known), vh.List(kinds), vh.N(uint64(o.tag)), vh.Hex(o.prefix), vh.Hex(hint), vh.Hex(hdr),
			vh.N(uint64(o.sub)), vh.N(uint64(o.bt)), vh.N(o.blen), vh.Hex(o.data), vh.Bool(o.ok), vh.Hex(o.rest)),
			map[string]any{"op": op, "input": hex.EncodeToString(in), "chunking": ck, "tag": o.tag, "note": note, "msg": firstLine(o.msg)})
	}
	return o
}

func firstLine(s string) string {
	if i := strings.IndexByte(s, '\n'); i >= 0 {
		return s[:i]
	}
	return s
}

// ---------------------------------------------------------------- writers (real code) + write cases

func (h *runner) writeRequest(rh quicstreamheader.RequestHeader) []byte {
	c := &capture{}
	cb := quicstreamheader.NewClientBroker(h.w.encs, h.w.enc, bytes.NewReader(nil), c)
	if err := cb.WriteRequestHead(context.Background(), rh); err != nil {
		h.res.Fail("write-request-error", fmt.Sprintf("WriteRequestHead(%T): %v", rh, err), nil)
		return nil
	}
	out := append([]byte{}, c.Bytes()...)
	p := rh.Handler()
	h.cases.Add(fmt.Sprintf("CWriteReq %s %s %s true %s", vh.Hex(p[:]), vh.Hex(h.w.enc.Hint().Bytes()), vh.Hex(h.w.marshal(rh)), vh.Hex(out)),
		map[string]any{"kind": "write-request", "type": fmt.Sprintf("%T", rh)})
	return out
}

func (h *runner) writeResponse(rs quicstreamheader.ResponseHeader) []byte {
	c := &capture{}
	hb := quicstreamheader.NewHandlerBroker(h.w.encs, h.w.enc, bytes.NewReader(nil), c)
	if err := hb.WriteResponseHead(context.Background(), rs); err != nil {
		h.res.Fail("write-response-error", fmt.Sprintf("WriteResponseHead(%T): %v", rs, err), nil)
		return nil
	}
	out := append([]byte{}, c.Bytes()...)
	h.cases.Add(fmt.Sprintf("CWriteResp %s %s %s", vh.Hex(h.w.enc.Hint().Bytes()), vh.Hex(h.w.marshal(rs)), vh.Hex(out)),
		map[string]any{"kind": "write-response", "type": fmt.Sprintf("%T", rs)})
	return out
}

func (h *runner) writeBody(bt byte, blen uint64, data []byte, has bool) ([]byte, bool) {
	c := &capture{}
	cb := quicstreamheader.NewClientBroker(h.w.encs, h.w.enc, bytes.NewReader(nil), c)
	var body io.Reader
	if has {
		body = bytes.NewReader(data)
	}
	err := cb.WriteBody(context.Background(), quicstreamheader.BodyType{bt}, blen, body)
	out := append([]byte{}, c.Bytes()...)
	if bt == 3 && err == nil && !c.closed {
		h.res.Fail("stream-body-not-closed", "WriteBody(StreamBodyType) did not close the broker", nil)
	}
	if len(data) <= 400 {
		h.cases.Add(fmt.Sprintf("CWriteBody %s %s %s %s %s %s", vh.N(uint64(bt)), vh.N(blen), vh.Bool(has), vh.Hex(data), vh.Bool(err == nil), vh.Hex(outIf(err == nil, out))),
			map[string]any{"kind": "write-body", "bt": bt, "len": blen, "has": has, "err": fmt.Sprint(err)})
	}
	return out, err == nil
}

func outIf(ok bool, b []byte) []byte {
	if ok {
		return b
	}
	return nil
}

func (h *runner) randBody(maxLen int) (bt byte, data []byte) {
	r := h.w.r
	bt = byte(1 + r.Intn(3))
	if bt != 1 {
		n := []int{0, 1, 7, 8, 9, r.Range(2, 64), r.Range(65, 600), r.Range(601, maxLen)}[r.Intn(8)]
		data = r.Bytes(n)
	}
	return
}

// ---------------------------------------------------------------- round trips

func (h *runner) sameHeader(a, b interface{}) bool {
	if a == nil || b == nil {
		return false
	}
	return fmt.Sprintf("%T", a) == fmt.Sprintf("%T", b) && bytes.Equal(h.w.marshal(a), h.w.marshal(b))
}

func (h *runner) roundtrips(rounds int) {
	w, res, r := h.w, h.res, h.w.r
	for round := 0; round < rounds; round++ {
		reqs := w.requestHeaders()
		resps := w.responseHeaders()
		for i, rh := range reqs {
			res.Dist(fmt.Sprintf("request %T", rh))
			head := h.writeRequest(rh)
			if head == nil {
				continue
			}
			bt, data := h.randBody(3000)
			body, ok := h.writeBody(bt, uint64(len(data)), data, bt != 1 || r.Bool())
			if !ok {
				res.Fail("write-body-error", fmt.Sprintf("WriteBody(%d, %d bytes) failed", bt, len(data)), nil)
				continue
			}
			rs := resps[(i+round)%len(resps)]
			res.Dist(fmt.Sprintf("response %T", rs))
			rhead := h.writeResponse(rs)
			if rhead == nil {
				continue
			}
			bt2, data2 := h.randBody(3000)
			body2, ok := h.writeBody(bt2, uint64(len(data2)), data2, bt2 != 1 || r.Bool())
			if !ok {
				continue
			}
			// client -> server: request head, then body (and, unless the body is a stream, another message follows)
			next := []byte{}
			if bt != 3 {
				next = []byte{2, 1}
			}
			up := append(append(append([]byte{}, head...), body...), next...)
			cks := []chunking{{}, {Ending: 1}, {Unit: 1}, {Unit: 1, Ending: 1}, {Sizes: []int{1}}, randChunking(r, len(up)), randChunking(r, len(up))}
			for j, ck := range cks {
				if ck.Unit == 1 && len(up) > 1200 {
					ck.Unit = 64
				}
				model := round < 1 && j < 3 && len(up) <= 700
				o := h.readCase(0, up, ck, fmt.Sprintf("request %T + body type %d", rh, bt), model)
				res.Count(fmt.Sprintf("req:%T:%d", rh, j), true)
				if o.tag != tagOk || !h.sameHeader(o.header, rh) || !bytes.Equal(o.rest, up[len(head):]) {
					res.Fail("roundtrip-request", fmt.Sprintf("%T written, read back tag=%d %T, unread %d (want %d) chunking=%+v %s", rh, o.tag, o.header, len(o.rest), len(up)-len(head), ck, firstLine(o.msg)),
						replay{Op: 0, Input: hex.EncodeToString(up), Chunking: &ck})
					continue
				}
				ck2 := randChunking(r, len(o.rest))
				if j < 4 {
					ck2 = cks[j]
				}
				if ck2.Unit == 1 && len(o.rest) > 1200 {
					ck2.Unit = 64
				}
				if bt == 3 && ck2.Ending == 2 {
					ck2.Ending = 0
				}
				ob := h.readCase(2, o.rest, ck2, fmt.Sprintf("body type %d after %T", bt, rh), model)
				wantRest := next
				if ob.tag != tagOk || ob.sub != 0 || ob.bt != bt || !ob.ok || !bytes.Equal(ob.data, data) || !bytes.Equal(ob.rest, wantRest) ||
					(bt == 2 && ob.blen != uint64(len(data))) {
					res.Fail("roundtrip-body", fmt.Sprintf("body type %d, %d bytes written; read back tag=%d type=%d len=%d data=%d ok=%v unread=%d chunking=%+v %s", bt, len(data), ob.tag, ob.bt, ob.blen, len(ob.data), ob.ok, len(ob.rest), ck2, firstLine(ob.msg)),
						replay{Op: 2, Input: hex.EncodeToString(o.rest), Chunking: &ck2})
				}
			}
			// server -> client: response head, then body
			down := append(append([]byte{}, rhead...), body2...)
			for j, ck := range []chunking{{}, {Ending: 1}, {Unit: 1}, {Unit: 1, Ending: 1}, {Sizes: []int{1}}, randChunking(r, len(down))} {
				if ck.Unit == 1 && len(down) > 1200 {
					ck.Unit = 64
				}
				model := round < 1 && j < 3 && len(down) <= 700
				op := 1
				if j%2 == 1 {
					op = 2 // the response head arrives where a body is awaited (error response)
				}
				o := h.readCase(op, down, ck, fmt.Sprintf("response %T + body type %d", rs, bt2), model)
				res.Count(fmt.Sprintf("resp:%T:%d", rs, j), true)
				if o.tag != tagOk || !h.sameHeader(o.header, rs) || !bytes.Equal(o.rest, body2) || (op == 2 && o.sub != 1) {
					res.Fail("roundtrip-response", fmt.Sprintf("%T written, read back (op %d) tag=%d %T, unread %d (want %d) chunking=%+v %s", rs, op, o.tag, o.header, len(o.rest), len(body2), ck, firstLine(o.msg)),
						replay{Op: op, Input: hex.EncodeToString(down), Chunking: &ck})
					continue
				}
				ckb := ck
				if bt2 == 3 && ckb.Ending == 2 {
					ckb.Ending = 0
				}
				ob := h.readCase(2, o.rest, ckb, fmt.Sprintf("body type %d after %T", bt2, rs), model)
				if ob.tag != tagOk || ob.sub != 0 || ob.bt != bt2 || !ob.ok || !bytes.Equal(ob.data, data2) || len(ob.rest) != 0 {
					res.Fail("roundtrip-body", fmt.Sprintf("body type %d, %d bytes written; read back tag=%d type=%d data=%d ok=%v unread=%d chunking=%+v %s", bt2, len(data2), ob.tag, ob.bt, len(ob.data), ob.ok, len(ob.rest), ckb, firstLine(ob.msg)),
						replay{Op: 2, Input: hex.EncodeToString(o.rest), Chunking: &ckb})
				}
			}
			// a head that is the last thing on the stream (io.EOF may arrive together with its last bytes)
			for j, ck := range []chunking{{Ending: 1}, {Unit: 1, Ending: 1}, {Unit: 16, Ending: 1}, {Ending: 0}} {
				o := h.readCase(0, head, ck, fmt.Sprintf("request %T alone", rh), round == 0 && j < 1)
				if o.tag != tagOk || !h.sameHeader(o.header, rh) || len(o.rest) != 0 {
					res.Fail("roundtrip-request", fmt.Sprintf("%T written alone, read back tag=%d %T chunking=%+v %s", rh, o.tag, o.header, ck, firstLine(o.msg)), replay{Op: 0, Input: hex.EncodeToString(head), Chunking: &ck})
				}
				op := 1 + j%2
				o = h.readCase(op, rhead, ck, fmt.Sprintf("response %T alone", rs), round == 0 && j < 1)
				if o.tag != tagOk || !h.sameHeader(o.header, rs) || len(o.rest) != 0 {
					res.Fail("roundtrip-response", fmt.Sprintf("%T written alone, read back (op %d) tag=%d %T chunking=%+v %s", rs, op, o.tag, o.header, ck, firstLine(o.msg)), replay{Op: op, Input: hex.EncodeToString(rhead), Chunking: &ck})
				}
			}
			// truncations of the heads: every strict prefix is rejected; of a fixed body: reported by the body reader
			if round == 0 {
				for c := 0; c < len(head); c++ {
					if c > 48 && c < len(head)-12 && c%5 != i%5 {
						continue
					}
					ck := randChunking(r, c)
					ck.Ending = r.Intn(3)
					o := h.readCase(0, head[:c], ck, "truncated request head", c%10 == 0)
					if o.tag == tagOk {
						res.Fail("truncation-accepted", fmt.Sprintf("prefix of %d/%d bytes of a request head accepted", c, len(head)), replay{Op: 0, Input: hex.EncodeToString(head[:c]), Chunking: &ck})
					}
				}
				for c := 0; c < len(rhead); c++ {
					if c > 16 && c < len(rhead)-12 && c%5 != i%5 {
						continue
					}
					ck := randChunking(r, c)
					ck.Ending = r.Intn(3)
					o := h.readCase(1+c%2, rhead[:c], ck, "truncated response head", c%10 < 2)
					if o.tag == tagOk {
						res.Fail("truncation-accepted", fmt.Sprintf("prefix of %d/%d bytes of a response head accepted", c, len(rhead)), replay{Op: 1 + c%2, Input: hex.EncodeToString(rhead[:c]), Chunking: &ck})
					}
				}
				if bt == 2 && len(data) > 0 {
					for k := 0; k < 6; k++ {
						c := r.Intn(len(body))
						ck := randChunking(r, c)
						ck.Ending = r.Intn(3)
						o := h.readCase(2, body[:c], ck, "truncated fixed body", true)
						if o.tag == tagOk && o.ok {
							res.Fail("body-fixed-truncated-accepted", fmt.Sprintf("prefix of %d/%d bytes of a fixed body message accepted", c, len(body)), replay{Op: 2, Input: hex.EncodeToString(body[:c]), Chunking: &ck})
						}
					}
				}
			}
		}
	}
}

// the whole exchange through the real server path (PrefixHandler -> NewHandler -> handler callback) and the real
// client calls, over io.Pipe with writers that cut every Write into random pieces
type chunkWriter struct {
	w io.WriteCloser
	r *vh.Rand
	m sync.Mutex
}

func (c *chunkWriter) Write(p []byte) (int, error) {
	c.m.Lock()
	defer c.m.Unlock()
	n := 0
	for len(p) > 0 {
		k := c.r.Range(1, 9)
		if c.r.Chance(1, 4) {
			k = c.r.Range(1, 300)
		}
		if k > len(p) {
			k = len(p)
		}
		m, err := c.w.Write(p[:k])
		n += m
		if err != nil {
			return n, err
		}
		p = p[k:]
	}
	return n, nil
}
func (c *chunkWriter) Close() error { return c.w.Close() }

func (h *runner) pipes(rounds int) {
	w, res, r := h.w, h.res, h.w.r
	ctx := context.Background()
	for round := 0; round < rounds; round++ {
		for _, rh := range w.requestHeaders() {
			rh := rh
			bt, data := h.randBody(20000)
			resps := w.responseHeaders()
			rs := resps[r.Intn(len(resps))]
			bt2, data2 := h.randBody(20000)
			seeds := [2]uint64{r.U64(), r.U64()}

			upR, upW := io.Pipe()
			downR, downW := io.Pipe()
			var got struct {
				header quicstreamheader.RequestHeader
				bt     byte
				data   []byte
				err    error
			}
			ph := quicstream.NewPrefixHandler(func(ctx context.Context, _ net.Addr, _ io.Reader, _ io.WriteCloser, err error) (context.Context, error) {
				got.err = err
				return ctx, nil
			})
			handler := quicstreamheader.NewHandler[quicstreamheader.RequestHeader](w.encs, func(ctx context.Context, _ net.Addr, broker *quicstreamheader.HandlerBroker, header quicstreamheader.RequestHeader) (context.Context, error) {
				got.header = header
				t, _, body, err := broker.ReadBodyErr(ctx)
				if err != nil {
					return ctx, err
				}
				got.bt = t[0]
				if body != nil {
					b, err := io.ReadAll(body)
					if err != nil {
						return ctx, err
					}
					got.data = b
				}
				if err := broker.WriteResponseHead(ctx, rs); err != nil {
					return ctx, err
				}
				var rd io.Reader
				if bt2 != 1 {
					rd = bytes.NewReader(data2)
				}
				return ctx, broker.WriteBody(ctx, quicstreamheader.BodyType{bt2}, uint64(len(data2)), rd)
			}, func(ctx context.Context, _ net.Addr, _ *quicstreamheader.HandlerBroker, err error) (context.Context, error) {
				got.err = err
				return ctx, nil
			})
			// PrefixHandler dispatches on the hash of the registered name: register the name whose prefix the header carries
			reg := registerFor(ph, rh.Handler(), handler)

			var wg sync.WaitGroup
			wg.Add(1)
			var panicked any
			go func() {
				defer wg.Done()
				defer func() {
					if p := recover(); p != nil {
						panicked = p
					}
					_ = downW.Close()
					_ = upR.CloseWithError(io.ErrClosedPipe)
				}()
				_, _ = ph.Handler(ctx, &net.UDPAddr{}, upR, &chunkWriter{w: downW, r: vh.NewRand(seeds[0])})
			}()

			cb := quicstreamheader.NewClientBroker(w.encs, w.enc, downR, &chunkWriter{w: upW, r: vh.NewRand(seeds[1])})
			var cerr error
			var gotRes quicstreamheader.ResponseHeader
			var gotBt byte
			var gotData []byte
			func() {
				defer func() {
					if p := recover(); p != nil {
						panicked = p
					}
				}()
				if cerr = cb.WriteRequestHead(ctx, rh); cerr != nil {
					return
				}
				var rd io.Reader
				if bt != 1 {
					rd = bytes.NewReader(data)
				}
				if cerr = cb.WriteBody(ctx, quicstreamheader.BodyType{bt}, uint64(len(data)), rd); cerr != nil {
					return
				}
				if bt != 3 {
					defer cb.Close()
				}
				_, gotRes, cerr = cb.ReadResponseHead(ctx)
				if cerr != nil {
					return
				}
				t, _, body, _, res2, err := cb.ReadBody(ctx)
				if err != nil || res2 != nil {
					cerr = fmt.Errorf("read body: %v %v", err, res2)
					return
				}
				gotBt = t[0]
				if body != nil {
					gotData, cerr = io.ReadAll(body)
				}
			}()
			_ = upW.Close()
			_ = downR.CloseWithError(io.ErrClosedPipe)
			wg.Wait()
			res.Evaluations++
			res.Count(fmt.Sprintf("pipe:%T:%d", rh, round), true)
			desc := fmt.Sprintf("%T + body %d/%d bytes -> %T + body %d/%d bytes over io.Pipe (registered=%v)", rh, bt, len(data), rs, bt2, len(data2), reg)
			switch {
			case panicked != nil:
				res.Fail("panic", desc+": panic "+fmt.Sprint(panicked), nil)
			case !reg:
				res.Dist("pipe_prefix_not_registrable")
			case got.err != nil || cerr != nil:
				res.Fail("roundtrip-pipe", fmt.Sprintf("%s: server err=%v client err=%v", desc, got.err, cerr), nil)
			case !h.sameHeader(got.header, rh) || got.bt != bt || !bytes.Equal(got.data, data):
				res.Fail("roundtrip-pipe", desc+": the server read a different request", nil)
			case !h.sameHeader(gotRes, rs) || gotBt != bt2 || !bytes.Equal(gotData, data2):
				res.Fail("roundtrip-pipe", desc+": the client read a different response", nil)
			}
		}
	}
}

// PrefixHandler.Add takes a name and hashes it; the handler names of the repository are known constants.
var knownNames = []quicstream.HandlerName{
	isaacnetwork.HandlerNameRequestProposal, isaacnetwork.HandlerNameProposal, isaacnetwork.HandlerNameLastSuffrageProof,
	isaacnetwork.HandlerNameSuffrageProof, isaacnetwork.HandlerNameLastBlockMap, isaacnetwork.HandlerNameBlockMap,
	isaacnetwork.HandlerNameBlockItem, isaacnetwork.HandlerNameBlockItemFiles, isaacnetwork.HandlerNameNodeChallenge,
	isaacnetwork.HandlerNameSuffrageNodeConnInfo, isaacnetwork.HandlerNameSyncSourceConnInfo, isaacnetwork.HandlerNameOperation,
	isaacnetwork.HandlerNameSendOperation, isaacnetwork.HandlerNameState, isaacnetwork.HandlerNameExistsInStateOperation,
	isaacnetwork.HandlerNameNodeInfo, isaacnetwork.HandlerNameSendBallots, isaacnetwork.HandlerNameSetAllowConsensus,
	isaacnetwork.HandlerNameStreamOperations, isaacnetwork.HandlerNameStartHandover, isaacnetwork.HandlerNameCheckHandover,
	isaacnetwork.HandlerNameAskHandover, isaacnetwork.HandlerNameCancelHandover, isaacnetwork.HandlerNameHandoverMessage,
	isaacnetwork.HandlerNameCheckHandoverX, launch.HandlerNameMemberlistCallbackBroadcastMessage,
	launch.HandlerNameMemberlistEnsureBroadcastMessage, launch.HandlerNameEventLogging, launch.HandlerNameNodeRead, launch.HandlerNameNodeWrite,
}

func registerFor(ph *quicstream.PrefixHandler, prefix quicstream.HandlerPrefix, handler quicstream.Handler) bool {
	for _, n := range knownNames {
		if quicstream.HashPrefix(n) == prefix {
			ph.Add(n, handler)
			return true
		}
	}
	return false
}

// ---------------------------------------------------------------- hostile streams

func (h *runner) hostile(n int) {
	w, r := h.w, h.w.r
	reqs := w.requestHeaders()
	resps := w.responseHeaders()
	var seedsReq, seedsResp, seedsBody [][]byte
	for _, rh := range reqs {
		seedsReq = append(seedsReq, h.writeRequest(rh))
	}
	for _, rs := range resps {
		seedsResp = append(seedsResp, h.writeResponse(rs))
	}
	for _, bt := range []byte{1, 2, 2, 3} {
		d := r.Bytes(r.Range(0, 40))
		b, _ := h.writeBody(bt, uint64(len(d)), d, true)
		seedsBody = append(seedsBody, b)
	}
	// cross-kind heads: a response header sent as a request and vice versa, other hinted objects as headers
	mkHead := func(prefix []byte, dt byte, hint, hdr []byte) []byte {
		var b bytes.Buffer
		b.Write(prefix)
		b.WriteByte(dt)
		_ = util.WriteLengthed(&b, hint)
		_ = util.WriteLengthed(&b, hdr)
		return b.Bytes()
	}
	pfx := quicstream.HashPrefix("x")
	hint := w.enc.Hint().Bytes()
	var special [][3]any
	for _, hdr := range [][]byte{nil, []byte("null"), []byte("{}"), []byte("[]"), []byte(`"x"`), []byte(`{"_hint":"sha256-v0.0.1"}`),
		[]byte(`{"_hint":"operation-header-v0.0.1"}`), w.marshal(resps[0]), w.marshal(reqs[0]), w.marshal(reqs[5]), w.marshal(base.RandomAddress("x")),
		[]byte(`{"_hint":"quicstream-default-response-header-v0.0.1"}`), []byte(`{"_hint":"quicstream-default-response-header-v9.0.1","ok":true}`)} {
		for _, hn := range [][]byte{hint, nil, []byte("json-encoder-v9.9.9"), []byte("unknown-v0.0.1"), []byte("x")} {
			special = append(special, [3]any{0, mkHead(pfx[:], 1, hn, hdr), "crafted request head"})
			special = append(special, [3]any{0, mkHead(pfx[:], 3, hn, hdr), "crafted request head, response data type"})
			special = append(special, [3]any{0, mkHead(make([]byte, 32), 1, hn, hdr), "crafted request head, zero prefix"})
			special = append(special, [3]any{1, mkHead(nil, 3, hn, hdr), "crafted response head"})
			special = append(special, [3]any{1, mkHead(nil, 1, hn, hdr), "crafted response head, request data type"})
			special = append(special, [3]any{2, mkHead(nil, 3, hn, hdr), "crafted response head as body"})
		}
	}
	for _, bt := range []byte{0, 1, 2, 3, 4, 255} {
		for _, l := range []uint64{0, 1, 5, 6, 1 << 31, 1 << 32, 1<<63 - 1, 1 << 63, 1<<63 + 5, ^uint64(0)} {
			b := append([]byte{2, bt}, util.Uint64ToBytes(l)...)
			b = append(b, []byte("hello")...)
			special = append(special, [3]any{2, b, fmt.Sprintf("crafted body type %d length %d", bt, l)})
		}
	}
	for i, s := range special {
		ck := randChunking(r, len(s[1].([]byte)))
		ck.Ending = i % 3
		h.readCase(s[0].(int), s[1].([]byte), ck, s[2].(string), true)
	}
	nModel := 0
	for i := 0; i < n; i++ {
		op := r.Intn(3)
		var in []byte
		note := ""
		switch op {
		case 0:
			in = append([]byte{}, seedsReq[r.Intn(len(seedsReq))]...)
			if r.Chance(1, 3) {
				in = append(in, seedsBody[r.Intn(len(seedsBody))]...)
			}
		case 1:
			in = append([]byte{}, seedsResp[r.Intn(len(seedsResp))]...)
		default:
			if r.Chance(1, 3) {
				in = append([]byte{}, seedsResp[r.Intn(len(seedsResp))]...)
			} else {
				in = append([]byte{}, seedsBody[r.Intn(len(seedsBody))]...)
				in = append(in, r.Bytes(r.Intn(12))...)
			}
		}
		off := 0
		if op == 0 {
			off = 32
		}
		nm := 1
		if r.Chance(1, 4) {
			nm = r.Range(2, 4)
		}
		for k := 0; k < nm && len(in) > 0; k++ {
			if off >= len(in) {
				off = 0
			}
			switch r.Intn(9) {
			case 0, 1: // bit flip in the framing bytes (data type, lengths, body type)
				j := off + r.Intn(min(18, len(in)-off))
				in[j] ^= 1 << uint(r.Intn(8))
				note += fmt.Sprintf("bit flip at %d;", j)
			case 2: // low bytes of a length field
				v := viewHead(in, off)
				j := off + 1 + 4 + r.Intn(4)
				if v.nfields >= 1 && r.Bool() {
					j = off + 1 + 8 + len(v.hint) + 4 + r.Intn(4)
				}
				if j < len(in) {
					in[j] ^= 1 << uint(r.Intn(8))
					note += fmt.Sprintf("length bit flip at %d;", j)
				}
			case 3: // byte flip anywhere
				j := r.Intn(len(in))
				in[j] ^= byte(1 + r.Intn(255))
				note += fmt.Sprintf("byte flip at %d;", j)
			case 4: // truncate
				in = in[:r.Intn(len(in))]
				note += fmt.Sprintf("cut to %d;", len(in))
			case 5: // drop / duplicate a byte
				j := r.Intn(len(in))
				if r.Bool() {
					in = append(in[:j:j], in[j+1:]...)
					note += fmt.Sprintf("byte %d removed;", j)
				} else {
					in = append(in[:j+1:j+1], in[j:]...)
					note += fmt.Sprintf("byte %d duplicated;", j)
				}
			case 6: // swap the data type
				if off < len(in) {
					in[off] = byte(r.Intn(5))
					note += "data type replaced;"
				}
			case 7: // raw
				in = r.Bytes(r.Range(0, 80))
				if len(in) > off && r.Bool() {
					in[off] = byte(1 + r.Intn(3))
				}
				note += "raw;"
			default: // splice two messages
				o := seedsResp[r.Intn(len(seedsResp))]
				j := r.Intn(len(in))
				in = append(in[:j:j], o[r.Intn(len(o)):]...)
				note += "spliced;"
			}
		}
		ck := randChunking(r, len(in))
		ck.Ending = r.Intn(3)
		model := nModel < h.o.Pick(800, 6000) && len(in) <= 600
		if model {
			nModel++
		}
		h.readCase(op, in, ck, note, model)
	}
}

// ---------------------------------------------------------------- main

func child(o *vh.Opts) {
	_ = syscall.Setrlimit(syscall.RLIMIT_AS, &syscall.Rlimit{Cur: 12 << 30, Max: 12 << 30})
	enc := jsonenc.NewEncoder()
	encs := encoder.NewEncoders(enc, enc)
	if err := launch.LoadHinters(encs); err != nil {
		panic(err)
	}
	w := &world{enc: enc, encs: encs, r: vh.NewRand(vh.NewRand(o.Seed).U64()), priv: base.NewMPrivatekey(), nid: base.NetworkID("c30 network")}
	h := &runner{o: o, w: w, cur: filepath.Join(o.Out, "current_case.json"),
		res:   vh.NewResult("every registered request header type (30) and response header type (3) written by ClientBroker/HandlerBroker with bodies of every kind, read back through quicstream.readPrefix + HandlerBroker.ReadRequestHead / ClientBroker.ReadResponseHead / ReadBody under chunked readers (3 EOF policies) and over io.Pipe with chunking writers through PrefixHandler+NewHandler; all/5th truncations; >= 20000 mutated / crafted / raw byte streams into the read side. Non-trivial = a complete exchange of a distinct (header type, chunking)"),
		cases: &vh.Cases{Import: "From MV Require Import C30.Model.", Type: "case", CheckFn: "check", Shard: 400}}
	if o.Replay != "" {
		var rp replay
		if err := vh.ReadReplay(o.Replay, &rp); err == nil && rp.Input != "" {
			if b, err := hex.DecodeString(rp.Input); err == nil {
				ck := chunking{}
				if rp.Chunking != nil {
					ck = *rp.Chunking
				}
				ob := w.runRead(rp.Op, b, ck)
				fmt.Printf("replay op=%d %d bytes chunking=%+v: tag=%d header=%T sub=%d bt=%d len=%d data=%d ok=%v unread=%d %s\n", rp.Op, len(b), ck, ob.tag, ob.header, ob.sub, ob.bt, ob.blen, len(ob.data), ob.ok, len(ob.rest), firstLine(ob.msg))
			}
		}
	}
	// corpus: the formerly failing inputs
	// (1) a fixed-length body cut short by the peer was handed out as complete (io.ReadAll(body) returned 3 of 5 bytes, no error)
	h.readCase(2, append(append([]byte{2, 2}, util.Uint64ToBytes(5)...), []byte("hel")...), chunking{}, "fixed body announced 5 bytes, stream holds 3", true)
	// (2) an announced length >= 2^63 turned the body into an unbounded stream body
	h.readCase(2, append(append([]byte{2, 2}, util.Uint64ToBytes(1<<63+5)...), []byte("helloWORLD")...), chunking{Ending: 1}, "fixed body announced 2^63+5 bytes", true)

	h.roundtrips(o.Pick(2, 12))
	h.res.Write(o.Out) // partial result: survives a later crash of the process
	h.pipes(o.Pick(2, 20))
	h.hostile(o.Pick(21000, 200000))

	h.res.ModelCases = h.cases.Len()
	if err := h.cases.Write(o.Out); err != nil {
		panic(err)
	}
	h.res.Write(o.Out)
	_ = os.Remove(h.cur)
}

func main() {
	isChild := flag.Bool("child", false, "internal")
	o := vh.ParseFlags()
	if *isChild {
		child(o)
		return
	}
	args := append([]string{"-child"}, os.Args[1:]...)
	cmd := exec.Command(os.Args[0], args...)
	var stderr bytes.Buffer
	cmd.Stdout = os.Stdout
	cmd.Stderr = &stderr
	err := cmd.Run()
	os.Stderr.Write(tailBytes(stderr.Bytes(), 4000))
	if err == nil {
		return
	}
	res := vh.NewResult("crash of the child process while running the real code")
	if b, e := os.ReadFile(filepath.Join(o.Out, "result.json")); e == nil {
		var partial vh.Result
		if json.Unmarshal(b, &partial) == nil {
			res.Failures = append(res.Failures, partial.Failures...)
			res.Evaluations = partial.Evaluations
		}
	}
	var rp any
	if b, e := os.ReadFile(filepath.Join(o.Out, "current_case.json")); e == nil {
		_ = json.Unmarshal(b, &rp)
	}
	res.Fail("crash", "the process running the brokers died: "+err.Error()+": "+string(tailBytes(stderr.Bytes(), 600)), rp)
	empty := &vh.Cases{Import: "From MV Require Import C30.Model.", Type: "case", CheckFn: "check"}
	_ = empty.Write(o.Out)
	res.Write(o.Out)
}

func tailBytes(b []byte, n int) []byte {
	if len(b) > n {
		return b[len(b)-n:]
	}
	return b
}
