// c32: util.LockedMap implementations (SingleLockedMap, ShardedMap, deep sharding) and util.Locked behave like a
// sequential map / value; Len() at quiescence = number of keys.
//
// A. forced schedules (MapCase): ShardedMap with hash = key mod n built by NewShardedMapWithSeed with a newMap
//    wrapper (the real SingleLockedMap embedded) that parks each operation before and after its leaf critical
//    section; the controller interleaves invoke / leaf step / length update of several operations with
//    Empty / Close; after every step Len(), Map() and the answers are compared with the Coq model.
// B. sequential histories (SeqCase) on the real maps of every shape (1, 2..64 shards, deep) vs the sequential map.
// C. sequential histories on the real Locked[int] (LockedCase).
// D. free-running goroutines on the real maps / Locked: recorded histories are checked for linearizability
//    (per key: Wing & Gong search against the sequential register semantics) and Len() = number of keys after
//    the operations finish (also with concurrent Empty / Close).
package main

import (
	"bytes"
	"encoding/json"
	"flag"
	"fmt"
	"os"
	"os/exec"
	"path/filepath"
	"runtime"
	"sort"
	"strconv"
	"strings"
	"sync"
	"sync/atomic"
	"time"

	"github.com/pkg/errors"
	"github.com/spikeekips/mitum/util"
	"verifharness/vh"
)

func goid() int64 {
	var buf [64]byte
	b := buf[:runtime.Stack(buf[:], false)]
	b = bytes.TrimPrefix(b, []byte("goroutine "))
	i := bytes.IndexByte(b, ' ')
	n, _ := strconv.ParseInt(string(b[:i]), 10, 64)
	return n
}

type LM = util.LockedMap[uint64, int]

// ------------------------------------------------------------------ operations

type Kc struct {
	K string `json:"k"` // val inc remove ignore err
	V int    `json:"v,omitempty"`
}

func (k Kc) coq() string {
	switch k.K {
	case "val":
		return fmt.Sprintf("(KVal %d%%N)", k.V)
	case "inc":
		return "KInc"
	case "remove":
		return "KRemove"
	case "ignore":
		return "KIgnore"
	}
	return "KErr"
}

type Op struct {
	Kind string `json:"op"` // exists value setvalue removevalue get getorcreate set remove setorremove | empty close
	Key  uint64 `json:"key"`
	Val  int    `json:"val,omitempty"`
	Kn   Kc     `json:"kn,omitempty"` // callback answer when shown "not found"
	Ks   Kc     `json:"ks,omitempty"` // callback answer when shown a value
}

func (o Op) coq() string {
	k := fmt.Sprintf("%d%%N", o.Key)
	switch o.Kind {
	case "exists":
		return "CExists " + k
	case "value":
		return "CValue " + k
	case "setvalue":
		return fmt.Sprintf("CSetValue %s %d%%N", k, o.Val)
	case "removevalue":
		return "CRemoveValue " + k
	case "get":
		return "CGet " + k
	case "getorcreate":
		return fmt.Sprintf("CGetOrCreate %s %s", k, o.Kn.coq())
	case "set":
		return fmt.Sprintf("CSet %s %s %s", k, o.Kn.coq(), o.Ks.coq())
	case "remove":
		return fmt.Sprintf("CRemove %s %s %s", k, o.Kn.coq(), o.Ks.coq())
	case "setorremove":
		return fmt.Sprintf("CSetOrRemove %s %s %s", k, o.Kn.coq(), o.Ks.coq())
	}
	panic("op " + o.Kind)
}

// Res mirrors Model.res: V (0 = None), A, B, E (0 none, 1 closed, 2 other)
type Res struct {
	V    int  `json:"v"`
	HasV bool `json:"hasv"`
	A    bool `json:"a"`
	B    bool `json:"b"`
	E    int  `json:"e"`
}

func (r Res) coq() string {
	v := "None"
	if r.HasV {
		v = fmt.Sprintf("(Some %d%%N)", r.V)
	}
	return fmt.Sprintf("(mkR %s %s %s %s)", v, vh.Bool(r.A), vh.Bool(r.B), []string{"ENone", "EClosed", "EOther"}[r.E])
}

func errEnum(err error) int {
	switch {
	case err == nil:
		return 0
	case errors.Is(err, util.ErrLockedMapClosed):
		return 1
	}
	return 2
}

var errScripted = errors.Errorf("scripted error")

func nz(v int) (int, bool) { return v, v != 0 }

// cbAnswer: what the scripted callback answers when shown (old, found): kind, value
func cbAnswer(o Op, old int, found bool) (string, int) {
	k := o.Kn
	if found {
		k = o.Ks
	}
	switch k.K {
	case "val":
		return "val", k.V
	case "inc":
		if found {
			return "val", old + 1
		}
		return "val", 1
	}
	return k.K, 0
}

// apply runs one operation on the real map
func apply(m LM, o Op) Res {
	var r Res
	switch o.Kind {
	case "exists":
		r.A = m.Exists(o.Key)
	case "value":
		v, found := m.Value(o.Key)
		r.A = found
		if found {
			r.V, r.HasV = v, true
		}
	case "setvalue":
		r.A = m.SetValue(o.Key, o.Val)
	case "removevalue":
		r.A = m.RemoveValue(o.Key)
	case "get":
		err := m.Get(o.Key, func(v int, found bool) error {
			if found {
				r.V, r.HasV = v, true
			}
			return nil
		})
		r.E = errEnum(err)
	case "getorcreate":
		err := m.GetOrCreate(o.Key, func(v int, created bool) error {
			r.V, r.HasV, r.A = v, true, created
			return nil
		}, func() (int, error) {
			switch k, v := cbAnswer(Op{Kn: o.Kn}, 0, false); k {
			case "val":
				return v, nil
			case "ignore":
				return 0, util.ErrLockedSetIgnore.WithStack()
			}
			return 0, errScripted
		})
		r.E = errEnum(err)
	case "set":
		v, created, err := m.Set(o.Key, func(old int, found bool) (int, error) {
			switch k, v := cbAnswer(o, old, found); k {
			case "val":
				return v, nil
			case "ignore":
				return 0, util.ErrLockedSetIgnore.WithStack()
			}
			return 0, errScripted
		})
		r.V, r.HasV = nz(v)
		r.A, r.E = created, errEnum(err)
	case "remove":
		removed, err := m.Remove(o.Key, func(old int, found bool) error {
			switch k, _ := cbAnswer(o, old, found); k {
			case "remove":
				return nil
			case "ignore":
				return util.ErrLockedSetIgnore.WithStack()
			}
			return errScripted
		})
		r.A, r.E = removed, errEnum(err)
	case "setorremove":
		v, created, removed, err := m.SetOrRemove(o.Key, func(old int, found bool) (int, bool, error) {
			switch k, v := cbAnswer(o, old, found); k {
			case "val":
				return v, false, nil
			case "remove":
				return 0, true, nil
			case "ignore":
				return 0, false, util.ErrLockedSetIgnore.WithStack()
			}
			return 0, false, errScripted
		})
		r.V, r.HasV = nz(v)
		r.A, r.B, r.E = created, removed, errEnum(err)
	default:
		panic("apply " + o.Kind)
	}
	return r
}

// specOp: the sequential register semantics for one key (Go twin of Model.leaf_op false; used by the
// linearizability search only)
func specOp(cur int, found bool, o Op) (int, bool, Res) {
	var r Res
	switch o.Kind {
	case "exists":
		r.A = found
	case "value", "get":
		if found {
			r.V, r.HasV = cur, true
		}
		if o.Kind == "value" {
			r.A = found
		}
	case "setvalue":
		r.A = !found
		return o.Val, true, r
	case "removevalue":
		r.A = found
		return 0, false, r
	case "getorcreate":
		if found {
			r.V, r.HasV = cur, true
			return cur, found, r
		}
		switch k, v := cbAnswer(Op{Kn: o.Kn}, 0, false); k {
		case "val":
			r.V, r.HasV, r.A = v, true, true
			return v, true, r
		case "ignore":
		default:
			r.E = 2
		}
	case "set":
		switch k, v := cbAnswer(o, cur, found); k {
		case "val":
			r.V, r.HasV, r.A = v, true, !found
			return v, true, r
		case "ignore":
			if found {
				r.V, r.HasV = cur, true
			}
		default:
			r.E = 2
		}
	case "remove":
		switch k, _ := cbAnswer(o, cur, found); k {
		case "remove":
			r.A = found
			return 0, false, r
		case "ignore":
		default:
			r.E = 2
		}
	case "setorremove":
		switch k, v := cbAnswer(o, cur, found); k {
		case "val":
			r.V, r.HasV, r.A = v, true, !found
			return v, true, r
		case "remove":
			if found {
				r.B = true
				return 0, false, r
			}
		case "ignore":
			if found {
				r.V, r.HasV = cur, true
			}
		default:
			r.E = 2
		}
	}
	return cur, found, r
}

func randKc(r *vh.Rand, kinds ...string) Kc {
	k := kinds[r.Intn(len(kinds))]
	if k == "val" {
		return Kc{K: k, V: r.Range(1, 99)}
	}
	return Kc{K: k}
}

func randOp(r *vh.Rand, nkeys int) Op {
	o := Op{Key: uint64(r.Intn(nkeys))}
	switch x := r.Intn(100); {
	case x < 8:
		o.Kind = "exists"
	case x < 16:
		o.Kind = "value"
	case x < 34:
		o.Kind, o.Val = "setvalue", r.Range(1, 99)
	case x < 44:
		o.Kind = "removevalue"
	case x < 50:
		o.Kind = "get"
	case x < 62:
		o.Kind, o.Kn = "getorcreate", randKc(r, "val", "val", "val", "ignore", "err")
	case x < 76:
		o.Kind, o.Kn, o.Ks = "set", randKc(r, "val", "val", "inc", "ignore", "err"), randKc(r, "val", "inc", "inc", "ignore", "err")
	case x < 87:
		o.Kind, o.Kn, o.Ks = "remove", randKc(r, "remove", "ignore", "err"), randKc(r, "remove", "remove", "remove", "ignore", "err")
	default:
		o.Kind, o.Kn, o.Ks = "setorremove", randKc(r, "val", "inc", "remove", "ignore", "err"), randKc(r, "val", "inc", "remove", "remove", "ignore", "err")
	}
	return o
}

// ------------------------------------------------------------------ A. forced schedules

type thread struct {
	idx      int
	op       Op
	enter    chan struct{} // released by the controller: do the leaf operation
	exit     chan struct{} // released by the controller: go on to the length update
	hold     bool          // park after the leaf operation
	parked   chan string   // "enter" / "exit" announcements
	done     chan Res
	res      Res
	finished bool
	modelID  int // in-flight id in the model (-1: answered at invoke)
	state    string
	linGroup int
}

type hooks struct {
	mu      sync.Mutex
	threads map[int64]*thread
}

func (h *hooks) cur() *thread {
	h.mu.Lock()
	defer h.mu.Unlock()
	return h.threads[goid()]
}

func (h *hooks) before() *thread {
	t := h.cur()
	if t == nil {
		return nil
	}
	t.parked <- "enter"
	<-t.enter
	return t
}

func (h *hooks) after(t *thread) {
	if t == nil || !t.hold {
		return
	}
	t.parked <- "exit"
	<-t.exit
}

// leafW: the real SingleLockedMap with park points around each keyed operation
type leafW struct {
	*util.SingleLockedMap[uint64, int]
	h *hooks
}

func (l *leafW) Exists(k uint64) bool {
	t := l.h.before()
	defer l.h.after(t)
	return l.SingleLockedMap.Exists(k)
}

func (l *leafW) Value(k uint64) (int, bool) {
	t := l.h.before()
	defer l.h.after(t)
	return l.SingleLockedMap.Value(k)
}

func (l *leafW) SetValue(k uint64, v int) bool {
	t := l.h.before()
	defer l.h.after(t)
	return l.SingleLockedMap.SetValue(k, v)
}

func (l *leafW) RemoveValue(k uint64) bool {
	t := l.h.before()
	defer l.h.after(t)
	return l.SingleLockedMap.RemoveValue(k)
}

func (l *leafW) Get(k uint64, f func(int, bool) error) error {
	t := l.h.before()
	defer l.h.after(t)
	return l.SingleLockedMap.Get(k, f)
}

func (l *leafW) GetOrCreate(k uint64, f func(int, bool) error, c func() (int, error)) error {
	t := l.h.before()
	defer l.h.after(t)
	return l.SingleLockedMap.GetOrCreate(k, f, c)
}

func (l *leafW) Set(k uint64, f func(int, bool) (int, error)) (int, bool, error) {
	t := l.h.before()
	defer l.h.after(t)
	return l.SingleLockedMap.Set(k, f)
}

func (l *leafW) Remove(k uint64, f func(int, bool) error) (bool, error) {
	t := l.h.before()
	defer l.h.after(t)
	return l.SingleLockedMap.Remove(k, f)
}

func (l *leafW) SetOrRemove(k uint64, f func(int, bool) (int, bool, error)) (int, bool, bool, error) {
	t := l.h.before()
	defer l.h.after(t)
	return l.SingleLockedMap.SetOrRemove(k, f)
}

type FStep struct {
	K    string `json:"k"` // invoke leaf add empty close
	Op   *Op    `json:"o,omitempty"`
	T    int    `json:"t,omitempty"` // thread index (invoke order)
	Hold bool   `json:"hold,omitempty"`
}

type FScript struct {
	Leaves int     `json:"leaves"`
	Seed   int64   `json:"seed"` // > 0: steps generated online
	N      int     `json:"n"`
	Steps  []FStep `json:"steps,omitempty"`
}

const nkeysForced = 8

type forcedOut struct {
	term      string
	fails     []vh.Failure
	steps     []FStep
	dist      []string
	hadReset  bool
	overlaps  int
	nontrivia bool
}

// mid: model id of a thread for rendering (an id the model never uses when the thread has none)
func mid(t *thread) int {
	if t.modelID < 0 {
		return 999999
	}
	return t.modelID
}

func runForced(sc *FScript) forcedOut {
	var out forcedOut
	h := &hooks{threads: map[int64]*thread{}}
	m, err := util.NewShardedMapWithSeed[uint64, int](1, uint64(sc.Leaves),
		func(k interface{}, size uint64) (uint64, interface{}) { return k.(uint64) % size, k },
		func() LM { return &leafW{SingleLockedMap: util.NewSingleLockedMap[uint64, int](), h: h} })
	if err != nil {
		panic(err)
	}
	var threads []*thread
	nextModelID := 0
	type group struct {
		steps []string
		len   int
		cont  [][2]int
		lin   []int // thread indices answered (linearised) in this group
	}
	var groups []group
	observe := func(g *group) {
		g.len = m.Len()
		mp := m.Map()
		for k := 0; k < nkeysForced; k++ {
			if v, ok := mp[uint64(k)]; ok {
				g.cont = append(g.cont, [2]int{k, v})
			}
		}
	}
	waitT := func(t *thread) string {
		select {
		case s := <-t.parked:
			t.state = s
			return s
		case r := <-t.done:
			t.res, t.finished, t.state = r, true, "done"
			return "done"
		case <-time.After(5 * time.Second):
			panic("c32 forced: thread stuck")
		}
	}
	var r *vh.Rand
	if sc.Seed > 0 {
		r = vh.NewRand(uint64(sc.Seed))
	}
	closedTop := false
	pick := func(state string) []*thread {
		var l []*thread
		for _, t := range threads {
			if t.state == state {
				l = append(l, t)
			}
		}
		return l
	}
	gen := func() FStep {
		for {
			x := r.Intn(100)
			have, exit := pick("enter"), pick("exit")
			switch {
			case x < 38 && len(have)+len(exit) < 5:
				o := randOp(r, nkeysForced)
				return FStep{K: "invoke", Op: &o}
			case x < 70 && len(have) > 0:
				return FStep{K: "leaf", T: have[r.Intn(len(have))].idx, Hold: r.Chance(3, 5)}
			case x < 88 && len(exit) > 0:
				return FStep{K: "add", T: exit[r.Intn(len(exit))].idx}
			case x >= 88 && x < 96 && !closedTop:
				return FStep{K: "empty"}
			case x >= 96 && !closedTop && r.Chance(1, 2):
				return FStep{K: "close"}
			}
		}
	}
	n := sc.N
	if sc.Seed == 0 {
		n = len(sc.Steps)
	}
	for i := 0; i < n; i++ {
		var st FStep
		if sc.Seed > 0 {
			st = gen()
		} else {
			st = sc.Steps[i]
		}
		out.steps = append(out.steps, st)
		out.dist = append(out.dist, "step:"+st.K)
		var g group
		switch st.K {
		case "invoke":
			t := &thread{idx: len(threads), op: *st.Op, enter: make(chan struct{}), exit: make(chan struct{}),
				parked: make(chan string, 2), done: make(chan Res, 1), modelID: -1}
			threads = append(threads, t)
			ready := make(chan struct{})
			go func() {
				h.mu.Lock()
				h.threads[goid()] = t
				h.mu.Unlock()
				close(ready)
				t.done <- apply(m, t.op)
			}()
			<-ready
			g.steps = []string{"CInvoke (" + t.op.coq() + ")"}
			if waitT(t) == "done" {
				g.lin = []int{t.idx}
			} else {
				t.modelID = nextModelID
				nextModelID++
				if len(pick("enter"))+len(pick("exit")) > 1 {
					out.overlaps++
				}
			}
		case "leaf":
			t := threads[st.T]
			if t.state != "enter" { // scripted step that does not apply (the implementation answered earlier than the script expects)
				g.steps = []string{fmt.Sprintf("CLeaf %d%%N", mid(t))}
				break
			}
			t.hold = st.Hold
			t.enter <- struct{}{}
			g.steps = []string{fmt.Sprintf("CLeaf %d%%N", t.modelID)}
			g.lin = []int{t.idx}
			if waitT(t) == "done" {
				g.steps = append(g.steps, fmt.Sprintf("CAdd %d%%N", t.modelID))
			}
		case "add":
			t := threads[st.T]
			if t.state != "exit" {
				g.steps = []string{fmt.Sprintf("CAdd %d%%N", mid(t))}
				break
			}
			t.exit <- struct{}{}
			waitT(t)
			g.steps = []string{fmt.Sprintf("CAdd %d%%N", t.modelID)}
		case "empty", "close":
			out.hadReset = true
			id := nextModelID
			nextModelID++
			g.steps = []string{fmt.Sprintf("CResetBegin %s", vh.Bool(st.K == "close"))}
			for l := 0; l < sc.Leaves; l++ {
				g.steps = append(g.steps, fmt.Sprintf("CResetLeaf %d%%N %d%%N", id, l))
			}
			g.steps = append(g.steps, fmt.Sprintf("CResetEnd %d%%N", id), fmt.Sprintf("CAdd %d%%N", id))
			if st.K == "close" {
				m.Close()
				closedTop = true
			} else {
				m.Empty()
			}
		}
		observe(&g)
		groups = append(groups, g)
	}
	// finish everything that is still parked, oldest first, one group per step
	for _, t := range threads {
		for !t.finished {
			var g group
			switch t.state {
			case "enter":
				t.hold = false
				t.enter <- struct{}{}
				g.steps = []string{fmt.Sprintf("CLeaf %d%%N", t.modelID), fmt.Sprintf("CAdd %d%%N", t.modelID)}
				g.lin = []int{t.idx}
			case "exit":
				t.exit <- struct{}{}
				g.steps = []string{fmt.Sprintf("CAdd %d%%N", t.modelID)}
			}
			waitT(t)
			observe(&g)
			groups = append(groups, g)
		}
	}
	// oracle: after the operations finish the reported length equals the number of keys
	if l, k := m.Len(), len(m.Map()); l != k {
		class := "len-not-keys"
		if out.hadReset {
			class = "len-after-concurrent-close"
		}
		out.fails = append(out.fails, vh.Failure{Class: class, Desc: fmt.Sprintf("forced schedule: after all operations finished Len() = %d but the map holds %d keys", l, k), Replay: map[string]any{"forced": sc, "steps": out.steps}})
	}
	var gs []string
	for _, g := range groups {
		var cont, answers []string
		for _, c := range g.cont {
			cont = append(cont, fmt.Sprintf("(%d%%N, %d%%N)", c[0], c[1]))
		}
		for _, ti := range g.lin {
			answers = append(answers, threads[ti].res.coq())
		}
		gs = append(gs, fmt.Sprintf("(%s, (%s, %s, %s))", vh.List(g.steps), vh.Z(int64(g.len)), vh.List(cont), vh.List(answers)))
	}
	out.term = fmt.Sprintf("MapCase %d%%N %d%%nat %s", sc.Leaves, nkeysForced, vh.List(gs))
	out.nontrivia = out.overlaps > 0
	return out
}

func forcedCorpus() []*FScript {
	sv := func(k uint64, v int) *Op { return &Op{Kind: "setvalue", Key: k, Val: v} }
	return []*FScript{
		// DESIGN 5.4 C32: SetValue has done its leaf operation, Empty (Close) runs, then the length is increased
		{Leaves: 2, Steps: []FStep{{K: "invoke", Op: sv(5, 50)}, {K: "leaf", T: 0, Hold: true}, {K: "empty"}, {K: "add", T: 0}}},
		{Leaves: 4, Steps: []FStep{{K: "invoke", Op: sv(1, 10)}, {K: "invoke", Op: sv(2, 20)}, {K: "leaf", T: 0, Hold: true}, {K: "leaf", T: 1, Hold: true}, {K: "close"}, {K: "add", T: 1}, {K: "add", T: 0}}},
		// RemoveValue counted after Empty: the length went to -1
		{Leaves: 2, Steps: []FStep{{K: "invoke", Op: sv(3, 30)}, {K: "leaf", T: 0}, {K: "invoke", Op: &Op{Kind: "removevalue", Key: 3}}, {K: "leaf", T: 1, Hold: true}, {K: "empty"}, {K: "add", T: 1}}},
		// the operation holds its leaf, Empty runs, then the leaf operation: the key survives and is counted
		{Leaves: 2, Steps: []FStep{{K: "invoke", Op: sv(4, 40)}, {K: "empty"}, {K: "leaf", T: 0, Hold: true}, {K: "add", T: 0}}},
		// the operation holds its leaf, Close runs: the leaf is closed, every kind of operation answers "closed"
		{Leaves: 3, Steps: []FStep{{K: "invoke", Op: sv(0, 1)}, {K: "leaf", T: 0},
			{K: "invoke", Op: sv(0, 2)}, {K: "invoke", Op: &Op{Kind: "get", Key: 0}}, {K: "invoke", Op: &Op{Kind: "remove", Key: 0, Kn: Kc{K: "remove"}, Ks: Kc{K: "remove"}}},
			{K: "invoke", Op: &Op{Kind: "set", Key: 0, Kn: Kc{K: "val", V: 7}, Ks: Kc{K: "inc"}}}, {K: "invoke", Op: &Op{Kind: "value", Key: 0}},
			{K: "close"}, {K: "leaf", T: 1}, {K: "leaf", T: 2}, {K: "leaf", T: 3}, {K: "leaf", T: 4}, {K: "leaf", T: 5}, {K: "invoke", Op: sv(0, 3)}}},
		// two operations on one key, leaf steps in the opposite order of the invocations
		{Leaves: 2, Steps: []FStep{{K: "invoke", Op: sv(6, 60)}, {K: "invoke", Op: &Op{Kind: "set", Key: 6, Kn: Kc{K: "val", V: 5}, Ks: Kc{K: "inc"}}}, {K: "leaf", T: 1, Hold: true}, {K: "leaf", T: 0, Hold: true}, {K: "add", T: 0}, {K: "add", T: 1}}},
	}
}

// ------------------------------------------------------------------ B. sequential histories on every shape

type Shape struct {
	Name  string   `json:"shape"`
	Sizes []uint64 `json:"sizes"`
}

func (s Shape) build() LM {
	switch {
	case len(s.Sizes) == 1:
		m, err := util.NewLockedMap[uint64, int](s.Sizes[0], nil)
		if err != nil {
			panic(err)
		}
		return m
	default:
		m, err := util.NewDeepShardedMap[uint64, int](s.Sizes, nil)
		if err != nil {
			panic(err)
		}
		return m
	}
}

var shapes = []Shape{{"single", []uint64{1}}, {"sharded2", []uint64{2}}, {"sharded3", []uint64{3}}, {"sharded7", []uint64{7}},
	{"sharded64", []uint64{64}}, {"deep444", []uint64{4, 4, 4}}, {"deep23", []uint64{2, 3}}, {"deep22", []uint64{2, 2}}}

func contentOf(m LM, nkeys int) ([][2]int, string) {
	mp := m.Map()
	var c [][2]int
	var s []string
	for k := 0; k < nkeys; k++ {
		if v, ok := mp[uint64(k)]; ok {
			c = append(c, [2]int{k, v})
			s = append(s, fmt.Sprintf("(%d%%N, %d%%N)", k, v))
		}
	}
	return c, vh.List(s)
}

func runSeq(r *vh.Rand, sh Shape, n int, res *vh.Result, desc any) string {
	const nk = 12
	m := sh.build()
	var ops, answers []string
	for i := 0; i < n; i++ {
		o := randOp(r, nk)
		a := apply(m, o)
		ops = append(ops, o.coq())
		answers = append(answers, a.coq())
		res.Dist("seq-op:" + o.Kind)
	}
	c, cs := contentOf(m, nk)
	if m.Len() != len(c) {
		res.Fail("len-not-keys", fmt.Sprintf("sequential history on %s: Len() = %d, keys = %d", sh.Name, m.Len(), len(c)), desc)
	}
	// Traverse visits exactly the content
	seen := map[uint64]int{}
	m.Traverse(func(k uint64, v int) bool { seen[k] = v; return true })
	if len(seen) != len(c) {
		res.Fail("traverse-not-content", fmt.Sprintf("sequential history on %s: Traverse visited %d entries, content has %d", sh.Name, len(seen), len(c)), desc)
	}
	for _, kv := range c {
		if seen[uint64(kv[0])] != kv[1] {
			res.Fail("traverse-not-content", fmt.Sprintf("sequential history on %s: Traverse value of key %d", sh.Name, kv[0]), desc)
		}
	}
	return fmt.Sprintf("SeqCase %s %s %s %d%%nat", vh.List(ops), vh.List(answers), cs, nk)
}

// ------------------------------------------------------------------ C. Locked[int]

type LOp struct {
	Kind string `json:"op"` // value setvalue emptyvalue get getorcreate set empty
	Val  int    `json:"val,omitempty"`
	Kn   Kc     `json:"kn,omitempty"`
	Ks   Kc     `json:"ks,omitempty"`
}

func (o LOp) coq() string {
	switch o.Kind {
	case "value":
		return "LValue"
	case "setvalue":
		return fmt.Sprintf("(LSetValue %d%%N)", o.Val)
	case "emptyvalue":
		return "LEmptyValue"
	case "get":
		return "LGet"
	case "getorcreate":
		return fmt.Sprintf("(LGetOrCreate (dec_cb %s %s None))", o.Kn.coq(), o.Kn.coq())
	case "set":
		return fmt.Sprintf("(LSet (dec_cb %s %s))", o.Kn.coq(), o.Ks.coq())
	case "empty":
		return fmt.Sprintf("(LEmpty (dec_rm %s %s))", o.Kn.coq(), o.Ks.coq())
	}
	panic(o.Kind)
}

func randLOp(r *vh.Rand) LOp {
	switch x := r.Intn(100); {
	case x < 15:
		return LOp{Kind: "value"}
	case x < 30:
		return LOp{Kind: "setvalue", Val: r.Range(1, 99)}
	case x < 40:
		return LOp{Kind: "emptyvalue"}
	case x < 50:
		return LOp{Kind: "get"}
	case x < 65:
		return LOp{Kind: "getorcreate", Kn: randKc(r, "val", "val", "ignore", "err")}
	case x < 85:
		return LOp{Kind: "set", Kn: randKc(r, "val", "inc", "ignore", "err"), Ks: randKc(r, "val", "inc", "inc", "ignore", "err")}
	default:
		return LOp{Kind: "empty", Kn: randKc(r, "remove", "ignore", "err"), Ks: randKc(r, "remove", "remove", "ignore", "err")}
	}
}

func applyLocked(l *util.Locked[int], o LOp) Res {
	var r Res
	mop := Op{Kn: o.Kn, Ks: o.Ks}
	switch o.Kind {
	case "value":
		v, isempty := l.Value()
		r.A = isempty
		if !isempty {
			r.V, r.HasV = v, true
		}
	case "setvalue":
		l.SetValue(o.Val)
	case "emptyvalue":
		l.EmptyValue()
	case "get":
		_ = l.Get(func(v int, isempty bool) error {
			if !isempty {
				r.V, r.HasV = v, true
			}
			return nil
		})
	case "getorcreate":
		err := l.GetOrCreate(func(v int, created bool) error {
			r.V, r.HasV, r.A = v, true, created
			return nil
		}, func() (int, error) {
			switch k, v := cbAnswer(Op{Kn: o.Kn}, 0, false); k {
			case "val":
				return v, nil
			case "ignore":
				return 0, util.ErrLockedSetIgnore.WithStack()
			}
			return 0, errScripted
		})
		r.E = errEnum(err)
	case "set":
		v, err := l.Set(func(old int, isempty bool) (int, error) {
			switch k, v := cbAnswer(mop, old, !isempty); k {
			case "val":
				return v, nil
			case "ignore":
				return 0, util.ErrLockedSetIgnore.WithStack()
			}
			return 0, errScripted
		})
		r.E = errEnum(err)
		if err == nil {
			r.V, r.HasV = v, true
		}
	case "empty":
		err := l.Empty(func(old int, isempty bool) error {
			switch k, _ := cbAnswer(mop, old, !isempty); k {
			case "remove":
				return nil
			case "ignore":
				return util.ErrLockedSetIgnore.WithStack()
			}
			return errScripted
		})
		r.E = errEnum(err)
	}
	return r
}

// specLocked: sequential optional value (Go twin of Model.locked_spec), for the linearizability search
func specLocked(cur int, has bool, o LOp) (int, bool, Res) {
	var r Res
	mop := Op{Kn: o.Kn, Ks: o.Ks}
	switch o.Kind {
	case "value":
		r.A = !has
		if has {
			r.V, r.HasV = cur, true
		}
	case "setvalue":
		return o.Val, true, r
	case "emptyvalue":
		return 0, false, r
	case "get":
		if has {
			r.V, r.HasV = cur, true
		}
	case "getorcreate":
		if has {
			r.V, r.HasV = cur, true
			return cur, has, r
		}
		switch k, v := cbAnswer(Op{Kn: o.Kn}, 0, false); k {
		case "val":
			r.V, r.HasV, r.A = v, true, true
			return v, true, r
		case "ignore":
		default:
			r.E = 2
		}
	case "set":
		switch k, v := cbAnswer(mop, cur, has); k {
		case "val":
			r.V, r.HasV = v, true
			return v, true, r
		case "ignore":
			r.V, r.HasV = 0, true
			if has {
				r.V = cur
			}
		default:
			r.E = 2
		}
	case "empty":
		switch k, _ := cbAnswer(mop, cur, has); k {
		case "remove":
			return 0, false, r
		case "ignore":
		default:
			r.E = 2
		}
	}
	return cur, has, r
}

// ------------------------------------------------------------------ D. free running + linearizability search

type hev struct {
	inv, ret int64
	op       Op
	lop      LOp
	res      Res
}

// linearizable: Wing & Gong search on the history of ONE register (one key / one Locked)
func linearizable(h []hev, step func(cur int, has bool, e hev) (int, bool, Res)) bool {
	n := len(h)
	if n == 0 {
		return true
	}
	if n > 24 {
		panic("history too long for the search")
	}
	sort.Slice(h, func(i, j int) bool { return h[i].inv < h[j].inv })
	type key struct {
		done uint32
		cur  int
		has  bool
	}
	seen := map[key]bool{}
	var rec func(done uint32, cur int, has bool) bool
	rec = func(done uint32, cur int, has bool) bool {
		if done == uint32(1)<<n-1 {
			return true
		}
		k := key{done, cur, has}
		if seen[k] {
			return false
		}
		seen[k] = true
		// minimal return time among the not yet linearised: an operation may go first only if it was invoked before that
		minRet := int64(1) << 62
		for i := 0; i < n; i++ {
			if done&(1<<i) == 0 && h[i].ret < minRet {
				minRet = h[i].ret
			}
		}
		for i := 0; i < n; i++ {
			if done&(1<<i) != 0 || h[i].inv > minRet {
				continue
			}
			nc, nh, r := step(cur, has, h[i])
			if r == h[i].res && rec(done|1<<i, nc, nh) {
				return true
			}
		}
		return false
	}
	return rec(0, 0, false)
}

type FreeReplay struct {
	Free  string `json:"free"`
	Shape Shape  `json:"shape"`
	Seed  uint64 `json:"seed"`
	Reset string `json:"reset,omitempty"`
}

func runFreeMap(seed uint64, sh Shape, reset string, res *vh.Result) (nops int, overl int) {
	rp := FreeReplay{"map", sh, seed, reset}
	m := sh.build()
	const nk = 6
	const workers = 4
	perKeyMax := 20
	var clock atomic.Int64
	var mu sync.Mutex
	hist := map[uint64][]hev{}
	var wg sync.WaitGroup
	r0 := vh.NewRand(seed)
	start := make(chan struct{})
	for w := 0; w < workers; w++ {
		rw := vh.NewRand(r0.U64())
		wg.Add(1)
		go func() {
			defer wg.Done()
			<-start
			for i := 0; i < 9; i++ {
				o := randOp(rw, nk)
				mu.Lock()
				full := len(hist[o.Key]) >= perKeyMax
				mu.Unlock()
				if full {
					continue
				}
				inv := clock.Add(1)
				if rw.Chance(1, 2) {
					runtime.Gosched() // invoked, not yet running: widens the overlap windows
				}
				a := apply(m, o)
				ret := clock.Add(1)
				mu.Lock()
				hist[o.Key] = append(hist[o.Key], hev{inv: inv, ret: ret, op: o, res: a})
				mu.Unlock()
				if rw.Chance(1, 3) {
					runtime.Gosched()
				}
			}
		}()
	}
	if reset != "" {
		wg.Add(1)
		go func() {
			defer wg.Done()
			<-start
			for i := 0; i < 2; i++ {
				time.Sleep(time.Duration(r0.Range(1, 30)) * time.Microsecond)
				if reset == "close" && i == 1 {
					m.Close()
				} else {
					m.Empty()
				}
			}
		}()
	}
	close(start)
	wg.Wait()
	if reset == "" {
		// a final read of every key, after everything: ties the final content to the linearization
		for k := 0; k < nk; k++ {
			o := Op{Kind: "value", Key: uint64(k)}
			inv := clock.Add(1)
			a := apply(m, o)
			ret := clock.Add(1)
			hist[o.Key] = append(hist[o.Key], hev{inv: inv, ret: ret, op: o, res: a})
		}
	}
	keys := len(m.Map())
	if l := m.Len(); l != keys {
		class := "len-not-keys"
		if reset != "" {
			class = "len-after-concurrent-close"
		}
		res.Fail(class, fmt.Sprintf("free run on %s (reset=%q): after the operations finished Len() = %d, keys = %d", sh.Name, reset, l, keys), rp)
	}
	for k, h := range hist {
		nops += len(h)
		for i := range h {
			for j := range h {
				if i < j && h[i].inv < h[j].ret && h[j].inv < h[i].ret {
					overl++
				}
			}
		}
		if reset != "" {
			continue // Empty / Close are not single-key operations: only the length / final content oracle
		}
		if !linearizable(h, func(cur int, has bool, e hev) (int, bool, Res) { return specOp(cur, has, e.op) }) {
			var sb strings.Builder
			sort.Slice(h, func(i, j int) bool { return h[i].inv < h[j].inv })
			for _, e := range h {
				fmt.Fprintf(&sb, "[%d,%d] %s -> %+v; ", e.inv, e.ret, e.op.coq(), e.res)
			}
			res.Fail("not-linearizable", fmt.Sprintf("free run on %s: history of key %d is not linearizable: %s", sh.Name, k, sb.String()), rp)
		}
		// final content must be the value of some linearization: checked through a final Value() appended to the history
	}
	if reset == "close" {
		if keys != 0 {
			res.Fail("content-after-close", fmt.Sprintf("free run on %s: %d keys after Close and quiescence", sh.Name, keys), rp)
		}
	}
	return nops, overl
}

func runFreeLocked(seed uint64, res *vh.Result) (int, int) {
	rp := FreeReplay{Free: "locked", Seed: seed}
	l := util.EmptyLocked[int]()
	var clock atomic.Int64
	var mu sync.Mutex
	var h []hev
	var wg sync.WaitGroup
	r0 := vh.NewRand(seed)
	start := make(chan struct{})
	for w := 0; w < 5; w++ {
		rw := vh.NewRand(r0.U64())
		wg.Add(1)
		go func() {
			defer wg.Done()
			<-start
			for i := 0; i < 4; i++ {
				o := randLOp(rw)
				inv := clock.Add(1)
				if rw.Chance(2, 3) {
					runtime.Gosched()
				}
				a := applyLocked(l, o)
				ret := clock.Add(1)
				mu.Lock()
				h = append(h, hev{inv: inv, ret: ret, lop: o, res: a})
				mu.Unlock()
			}
		}()
	}
	close(start)
	wg.Wait()
	overl := 0
	for i := range h {
		for j := range h {
			if i < j && h[i].inv < h[j].ret && h[j].inv < h[i].ret {
				overl++
			}
		}
	}
	if !linearizable(h, func(cur int, has bool, e hev) (int, bool, Res) { return specLocked(cur, has, e.lop) }) {
		var sb strings.Builder
		for _, e := range h {
			fmt.Fprintf(&sb, "[%d,%d] %s -> %+v; ", e.inv, e.ret, e.lop.coq(), e.res)
		}
		res.Fail("locked-not-linearizable", "free run on Locked[int]: history is not linearizable: "+sb.String(), rp)
	}
	return len(h), overl
}

// runStress: long same-key histories, checked by counting (consequences of linearizability that need no search):
// G goroutines x N increments through Set / SetOrRemove callbacks must add up; GetOrCreate creates exactly once;
// successful SetValue / RemoveValue on one key alternate; Len() = number of keys afterwards.
func runStress(seed uint64, sh Shape, res *vh.Result) int {
	rp := FreeReplay{Free: "stress", Shape: sh, Seed: seed}
	m := sh.build()
	const G, N = 6, 150
	keys := []uint64{3, 3 + 64*4*4} // same leaf under "mod" routing for most shapes
	var created, added, removed atomic.Int64
	var wg sync.WaitGroup
	start := make(chan struct{})
	for g := 0; g < G; g++ {
		wg.Add(1)
		go func(g int) {
			defer wg.Done()
			<-start
			for i := 0; i < N; i++ {
				k := keys[(g+i)%2]
				apply(m, Op{Kind: "set", Key: k, Kn: Kc{K: "inc"}, Ks: Kc{K: "inc"}})
				apply(m, Op{Kind: "setorremove", Key: k + 1, Kn: Kc{K: "inc"}, Ks: Kc{K: "inc"}})
				if r := apply(m, Op{Kind: "getorcreate", Key: 900, Kn: Kc{K: "val", V: g + 1}}); r.A {
					created.Add(1)
				}
				if g%2 == 0 {
					if apply(m, Op{Kind: "setvalue", Key: 500, Val: 1}).A {
						added.Add(1)
					}
				} else if apply(m, Op{Kind: "removevalue", Key: 500}).A {
					removed.Add(1)
				}
			}
		}(g)
	}
	close(start)
	wg.Wait()
	mp := m.Map()
	if got := mp[keys[0]] + mp[keys[1]]; got != G*N {
		res.Fail("lost-update", fmt.Sprintf("stress on %s: %d increments through Set callbacks, values add up to %d", sh.Name, G*N, got), rp)
	}
	if got := mp[keys[0]+1] + mp[keys[1]+1]; got != G*N {
		res.Fail("lost-update", fmt.Sprintf("stress on %s: %d increments through SetOrRemove callbacks, values add up to %d", sh.Name, G*N, got), rp)
	}
	if created.Load() != 1 {
		res.Fail("getorcreate-not-once", fmt.Sprintf("stress on %s: GetOrCreate reported created %d times for one key", sh.Name, created.Load()), rp)
	}
	_, present := mp[500]
	if d := added.Load() - removed.Load(); d != 0 && d != 1 || (d == 1) != present {
		res.Fail("add-remove-not-alternating", fmt.Sprintf("stress on %s: %d successful SetValue, %d successful RemoveValue, key present=%v", sh.Name, added.Load(), removed.Load(), present), rp)
	}
	if m.Len() != len(mp) {
		res.Fail("len-not-keys", fmt.Sprintf("stress on %s: Len() = %d, keys = %d", sh.Name, m.Len(), len(mp)), rp)
	}
	// Locked
	l := util.NewLocked(0)
	e := util.EmptyLocked[int]()
	var lcreated atomic.Int64
	start2 := make(chan struct{})
	for g := 0; g < G; g++ {
		wg.Add(1)
		go func(g int) {
			defer wg.Done()
			<-start2
			for i := 0; i < N; i++ {
				applyLocked(l, LOp{Kind: "set", Kn: Kc{K: "inc"}, Ks: Kc{K: "inc"}})
				if applyLocked(e, LOp{Kind: "getorcreate", Kn: Kc{K: "val", V: g + 1}}).A {
					lcreated.Add(1)
				}
			}
		}(g)
	}
	close(start2)
	wg.Wait()
	if v, _ := l.Value(); v != G*N {
		res.Fail("lost-update", fmt.Sprintf("stress on Locked: %d increments through Set, value %d", G*N, v), rp)
	}
	if lcreated.Load() != 1 {
		res.Fail("getorcreate-not-once", fmt.Sprintf("stress on Locked: GetOrCreate created %d times", lcreated.Load()), rp)
	}
	return 4*G*N + 2*G*N
}

// runCreateOnce: N callers of GetOrCreate are released together on an EMPTY Locked value / an absent map key, many
// rounds.  To make them really arrive together the write lock is first held by a helper (a Set callback that blocks
// and then answers "ignore", so the value stays empty); the callers queue up behind it and are woken at once.
// Oracle (what every sequential order gives): exactly one caller reports created=true, and every caller was shown
// the value that is stored afterwards.
func runCreateOnce(seed uint64, sh Shape, rounds int, res *vh.Result) int {
	rp := FreeReplay{Free: "createonce", Shape: sh, Seed: seed}
	r := vh.NewRand(seed)
	ops := 0
	type target struct {
		name  string
		hold  func(held chan<- struct{}, release <-chan struct{}) // blocks inside the write critical section
		goc   func(v int) (seen int, created bool, err error)
		final func() (int, bool)
		reset func()
	}
	l := util.EmptyLocked[int]()
	m := sh.build()
	var key uint64
	targets := []target{
		{
			name: "Locked",
			hold: func(held chan<- struct{}, release <-chan struct{}) {
				_, _ = l.Set(func(int, bool) (int, error) {
					close(held)
					<-release
					return 0, util.ErrLockedSetIgnore.WithStack()
				})
			},
			goc: func(v int) (seen int, created bool, err error) {
				err = l.GetOrCreate(func(x int, c bool) error { seen, created = x, c; return nil }, func() (int, error) { return v, nil })
				return
			},
			final: func() (int, bool) { v, e := l.Value(); return v, !e },
			reset: func() { l.EmptyValue() },
		},
		{
			name: "map " + sh.Name,
			hold: func(held chan<- struct{}, release <-chan struct{}) {
				_, _, _ = m.Set(key, func(int, bool) (int, error) {
					close(held)
					<-release
					return 0, util.ErrLockedSetIgnore.WithStack()
				})
			},
			goc: func(v int) (seen int, created bool, err error) {
				err = m.GetOrCreate(key, func(x int, c bool) error { seen, created = x, c; return nil }, func() (int, error) { return v, nil })
				return
			},
			final: func() (int, bool) { return m.Value(key) },
			reset: func() { m.RemoveValue(key) },
		},
	}
	for round := 0; round < rounds; round++ {
		key = uint64(r.Intn(50))
		n := r.Range(8, 24)
		for _, tg := range targets {
			held, release := make(chan struct{}), make(chan struct{})
			var hw sync.WaitGroup
			hw.Add(1)
			go func() { defer hw.Done(); tg.hold(held, release) }()
			<-held
			seen := make([]int, n)
			created := make([]bool, n)
			errs := make([]error, n)
			var arrived, wg sync.WaitGroup
			for i := 0; i < n; i++ {
				arrived.Add(1)
				wg.Add(1)
				go func(i int) {
					defer wg.Done()
					arrived.Done()
					seen[i], created[i], errs[i] = tg.goc(100 + i)
				}(i)
			}
			arrived.Wait()
			// let the callers reach the lock (they cannot pass it: the helper holds it)
			for k := 0; k < 20; k++ {
				runtime.Gosched()
			}
			time.Sleep(time.Duration(r.Range(50, 400)) * time.Microsecond)
			close(release)
			hw.Wait()
			wg.Wait()
			ops += n
			fv, ok := tg.final()
			nc := 0
			for i := 0; i < n; i++ {
				if created[i] {
					nc++
				}
			}
			switch {
			case !ok:
				res.Fail("getorcreate-not-once", fmt.Sprintf("create-once on %s: %d callers of GetOrCreate on an empty value, nothing stored afterwards", tg.name, n), rp)
			case nc != 1:
				res.Fail("getorcreate-not-once", fmt.Sprintf("create-once on %s: %d callers of GetOrCreate released together on an empty value, %d of them report created=true (stored %d, shown %v)", tg.name, n, nc, fv, seen), rp)
			default:
				for i := 0; i < n; i++ {
					if errs[i] != nil || seen[i] != fv {
						res.Fail("getorcreate-stale-value", fmt.Sprintf("create-once on %s: caller %d was shown %d (err %v), stored value is %d", tg.name, i, seen[i], errs[i], fv), rp)
						break
					}
				}
			}
			tg.reset()
		}
	}
	if m.Len() != len(m.Map()) {
		res.Fail("len-not-keys", fmt.Sprintf("create-once on %s: Len() = %d, keys = %d", sh.Name, m.Len(), len(m.Map())), rp)
	}
	return ops
}

// runTraverseSnapshot: forced schedule on Traverse.  One shard (the whole map for SingleLockedMap) holds keys
// k, k+size, k+2*size, ... all with value 1.  A Traverse parks inside its callback on the first key it visits in
// that shard; a writer then changes SEVERAL keys of the same shard (SetValue 2 / RemoveValue / SetValue of a new key).
// On a map whose Traverse of a shard is one critical section the writer blocks until the traverse of the shard ends
// (bounded wait here, then the callback is resumed).  Oracle: what the traverse reports for that shard is the
// shard's content at ONE moment: the content before the writer's operations or the content after all of them,
// never a mix; every key is reported at most once.
func runTraverseSnapshot(seed uint64, size uint64, res *vh.Result) int {
	sh := Shape{Name: fmt.Sprintf("size%d", size), Sizes: []uint64{size}}
	rp := FreeReplay{Free: "traverse", Shape: sh, Seed: seed}
	r := vh.NewRand(seed)
	m := sh.build()
	base := uint64(r.Intn(int(size)))
	inShard := func(k uint64) bool { return size == 1 || k%size == base%size }
	nkeys := r.Range(2, 5)
	before := map[uint64]int{}
	for i := 0; i < nkeys; i++ {
		k := base + uint64(i)*size
		m.SetValue(k, 1)
		before[k] = 1
	}
	for i := 0; i < 3; i++ { // other shards: noise
		m.SetValue(base+1+uint64(i)*size, 7)
	}
	if size == 1 {
		for i := 0; i < 3; i++ {
			before[base+1+uint64(i)] = 7
		}
	}
	// the writer's operations, all on keys of the shard; at least two of them
	type wop struct {
		set bool
		k   uint64
	}
	var wops []wop
	after := map[uint64]int{}
	for k, v := range before {
		after[k] = v
	}
	for i := 0; i < nkeys; i++ {
		k := base + uint64(i)*size
		switch {
		case r.Chance(1, 4):
			wops = append(wops, wop{false, k})
			delete(after, k)
		default:
			wops = append(wops, wop{true, k})
			after[k] = 2
		}
	}
	if r.Bool() {
		k := base + uint64(nkeys+3)*size
		wops = append(wops, wop{true, k})
		after[k] = 2
	}
	inCallback, release := make(chan struct{}), make(chan struct{})
	reported := map[uint64]int{}
	dup := false
	var once sync.Once
	tdone := make(chan struct{})
	go func() {
		defer close(tdone)
		m.Traverse(func(k uint64, v int) bool {
			if !inShard(k) {
				return true
			}
			if _, ok := reported[k]; ok {
				dup = true
			}
			reported[k] = v
			once.Do(func() {
				close(inCallback)
				<-release
			})
			return true
		})
	}()
	<-inCallback
	wdone := make(chan struct{})
	go func() {
		defer close(wdone)
		for _, w := range wops {
			if w.set {
				m.SetValue(w.k, 2)
			} else {
				m.RemoveValue(w.k)
			}
		}
	}()
	blocked := true
	select {
	case <-wdone:
		blocked = false
	case <-time.After(3 * time.Millisecond):
	}
	close(release)
	<-tdone
	<-wdone
	if blocked {
		res.Dist("traverse-writer-blocked-until-shard-done")
	} else {
		res.Dist("traverse-writer-not-blocked")
	}
	eq := func(a, b map[uint64]int) bool {
		if len(a) != len(b) {
			return false
		}
		for k, v := range a {
			if w, ok := b[k]; !ok || w != v {
				return false
			}
		}
		return true
	}
	if dup || (!eq(reported, before) && !eq(reported, after)) {
		res.Fail("traverse-not-a-snapshot", fmt.Sprintf("Traverse on a map of %d shard(s): a writer changed %d keys of one shard while the callback was inside that shard; reported %v is neither the shard's content before (%v) nor after (%v) the writer (duplicate=%v)", size, len(wops), reported, before, after, dup), rp)
	}
	if l, k := m.Len(), len(m.Map()); l != k {
		res.Fail("len-not-keys", fmt.Sprintf("traverse schedule: Len() = %d, keys = %d", l, k), rp)
	}
	return len(wops) + 1
}

// ------------------------------------------------------------------ main

func freeMain(o *vh.Opts, out string) {
	res := vh.NewResult("free-running part")
	r := vh.NewRand(o.Seed + 7777)
	nfree := o.Pick(400, 8000)
	for i := 0; i < nfree; i++ {
		sh := shapes[i%len(shapes)]
		reset := ""
		switch i % 5 {
		case 3:
			reset = "empty"
		case 4:
			reset = "close"
		}
		n, ov := runFreeMap(r.U64(), sh, reset, res)
		res.Count(fmt.Sprintf("free-%d", i), ov > 0)
		res.Distribution["free-ops"] += n
		res.Distribution["free-overlapping-pairs-same-key"] += ov
		res.Dist("free-reset:" + reset)
	}
	for i := 0; i < o.Pick(150, 3000); i++ {
		n, ov := runFreeLocked(r.U64(), res)
		res.Count(fmt.Sprintf("freelocked-%d", i), ov > 0)
		res.Distribution["free-locked-ops"] += n
		res.Distribution["free-locked-overlapping-pairs"] += ov
	}
	for i := 0; i < o.Pick(40, 600); i++ {
		n := runStress(r.U64(), shapes[i%len(shapes)], res)
		res.Count(fmt.Sprintf("stress-%d", i), true)
		res.Distribution["stress-ops"] += n
	}
	for i := 0; i < o.Pick(32, 400); i++ {
		n := runCreateOnce(r.U64(), shapes[i%len(shapes)], 12, res)
		res.Count(fmt.Sprintf("createonce-%d", i), true)
		res.Distribution["createonce-callers"] += n
	}
	for i := 0; i < o.Pick(120, 1500); i++ {
		n := runTraverseSnapshot(r.U64(), []uint64{1, 1, 2, 3, 7, 64}[i%6], res)
		res.Count(fmt.Sprintf("traverse-%d", i), true)
		res.Distribution["traverse-schedule-ops"] += n
	}
	b, _ := json.Marshal(res)
	if err := os.WriteFile(out, b, 0o644); err != nil {
		panic(err)
	}
}

func main() {
	freechild := flag.String("freechild", "", "internal: run the free-running part and write its result here")
	o := vh.ParseFlags()
	if *freechild != "" {
		freeMain(o, *freechild)
		return
	}
	res := vh.NewResult("A: forced schedules on ShardedMap (hash = key mod 2..4) through a parking newMap wrapper: invoke / leaf step / length update of up to 5 overlapping operations interleaved with Empty and Close, Len()/Map()/answers compared with the Coq model after every step; non-trivial = at least two operations in flight at once. B: sequential random histories of all 9 keyed operations on SingleLockedMap, ShardedMap 2..64, deep {4,4,4},{2,3},{2,2} vs the sequential map. C: sequential histories on Locked[int]. D: free-running goroutines on the same shapes and on Locked[int]: per-key linearizability search, Len() = number of keys after the operations finish (also with concurrent Empty/Close)")
	if o.Replay != "" {
		var rp struct {
			Forced *FScript `json:"forced"`
			FreeReplay
		}
		if err := vh.ReadReplay(o.Replay, &rp); err == nil {
			switch {
			case rp.Forced != nil:
				out := runForced(rp.Forced)
				fmt.Printf("replay forced: failures=%v\n%s\n", out.fails, out.term)
			case rp.Free == "map":
				r2 := vh.NewResult("")
				runFreeMap(rp.Seed, rp.Shape, rp.Reset, r2)
				fmt.Printf("replay free map: failures=%v\n", r2.Failures)
			case rp.Free == "createonce":
				r2 := vh.NewResult("")
				runCreateOnce(rp.Seed, rp.Shape, 12, r2)
				fmt.Printf("replay createonce: failures=%v\n", r2.Failures)
			case rp.Free == "traverse":
				r2 := vh.NewResult("")
				runTraverseSnapshot(rp.Seed, rp.Shape.Sizes[0], r2)
				fmt.Printf("replay traverse: failures=%v\n", r2.Failures)
			case rp.Free == "stress":
				r2 := vh.NewResult("")
				runStress(rp.Seed, rp.Shape, r2)
				fmt.Printf("replay stress: failures=%v\n", r2.Failures)
			case rp.Free == "locked":
				r2 := vh.NewResult("")
				runFreeLocked(rp.Seed, r2)
				fmt.Printf("replay free locked: failures=%v\n", r2.Failures)
			}
		}
	}
	cases := &vh.Cases{Import: "From MV Require Import C32.Model.", Type: "case", CheckFn: "check", Shard: 80}
	r := vh.NewRand(o.Seed)

	// A
	var scripts []*FScript
	scripts = append(scripts, forcedCorpus()...)
	for i := 0; i < o.Pick(300, 6000); i++ {
		scripts = append(scripts, &FScript{Leaves: r.Range(2, 4), Seed: int64(r.U64()>>2) + 1, N: r.Range(8, 28)})
	}
	for i, sc := range scripts {
		out := runForced(sc)
		cases.Add(out.term, map[string]any{"forced": sc})
		res.Count(fmt.Sprintf("forced-%d", i), out.nontrivia)
		for _, d := range out.dist {
			res.Dist(d)
		}
		if out.hadReset {
			res.Dist("forced-with-empty-or-close")
		}
		for _, f := range out.fails {
			res.Fail(f.Class, f.Desc, f.Replay)
		}
		if i < 2 {
			res.Sample(map[string]any{"forced": sc, "steps": out.steps})
		}
	}
	// B
	for i := 0; i < o.Pick(160, 3000); i++ {
		sh := shapes[i%len(shapes)]
		seed := r.U64()
		desc := map[string]any{"seq": sh, "seed": seed}
		cases.Add(runSeq(vh.NewRand(seed), sh, r.Range(10, 40), res, desc), desc)
		res.Count(fmt.Sprintf("seq-%d", i), true)
		res.Dist("seq-shape:" + sh.Name)
	}
	// C
	for i := 0; i < o.Pick(120, 2000); i++ {
		var l *util.Locked[int]
		start := "None"
		if r.Bool() {
			v := r.Range(1, 99)
			l = util.NewLocked(v)
			start = fmt.Sprintf("(Some %d%%N)", v)
		} else {
			l = util.EmptyLocked[int]()
		}
		var ops, answers []string
		var lops []LOp
		for j := 0; j < r.Range(5, 25); j++ {
			lo := randLOp(r)
			lops = append(lops, lo)
			ops = append(ops, lo.coq())
			answers = append(answers, applyLocked(l, lo).coq())
			res.Dist("locked-op:" + lo.Kind)
		}
		cases.Add(fmt.Sprintf("LockedCase %s %s %s", start, vh.List(ops), vh.List(answers)), map[string]any{"locked": lops, "start": start})
		res.Count(fmt.Sprintf("locked-%d", i), true)
	}
	res.ModelCases = cases.Len()
	// D: in a child process (a missing lock shows as "fatal error: concurrent map writes", which kills the process)
	childOut := filepath.Join(o.Out, "free_result.json")
	cmd := exec.Command(os.Args[0], "-seed", fmt.Sprint(o.Seed), "-tier", o.Tier, "-out", o.Out, "-n", fmt.Sprint(o.N), "-freechild", childOut)
	var stderr bytes.Buffer
	cmd.Stderr = &stderr
	cerr := cmd.Run()
	var child vh.Result
	if b, err := os.ReadFile(childOut); err == nil {
		_ = json.Unmarshal(b, &child)
	}
	if cerr != nil {
		tail := stderr.String()
		if len(tail) > 600 {
			tail = tail[:600]
		}
		res.Fail("free-run-crashed", "the free-running part crashed: "+cerr.Error()+": "+tail, map[string]any{"free": "all", "seed": o.Seed})
	}
	res.Evaluations += child.Evaluations
	res.DistinctNontrivial += child.DistinctNontrivial
	for _, f := range child.Failures { // before the distribution: vh.Fail keeps at most 25 per class, counted there
		res.Fail(f.Class, f.Desc, f.Replay)
	}
	for k, v := range child.Distribution {
		if strings.HasPrefix(k, "oracle_fail:") {
			if v > res.Distribution[k] {
				res.Distribution[k] = v
			}
			continue
		}
		res.Distribution[k] += v
	}
	if err := cases.Write(o.Out); err != nil {
		panic(err)
	}
	res.Write(o.Out)
}
