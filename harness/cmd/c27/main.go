// c27: encoded objects decode to the same object (same type, hash, validity; re-encoding gives the same bytes).
//
// Oracle (the property's own statement, on the real code): every generated valid instance of every type
// registered in launch/hinters.go is encoded with the JSON encoder loaded with launch.LoadHinters, decoded
// back through the hint dispatch, and compared: Go type, Hash()/HashBytes()/hint, IsValid result, re-encoded
// bytes.  Correspondence: the keys actually present in / consumed from the real JSON are compared with the
// codec tables the translator extracted from the source (coq/Gen/Codecs.v) by the Coq model's `check`.
package main

import (
	"bytes"
	"encoding/json"
	"fmt"
	"reflect"
	"sort"

	"github.com/spikeekips/mitum/base"
	"github.com/spikeekips/mitum/isaac"
	"github.com/spikeekips/mitum/network/quicmemberlist"
	"github.com/spikeekips/mitum/util/fixedtree"
	"github.com/spikeekips/mitum/util/hint"
	"verifharness/cmd/c27/gen"
	"verifharness/vh"
)

type replay struct {
	Seed uint64 `json:"seed"`
	Kind string `json:"kind"`
	JSON string `json:"json"`
}

func zeroish(v any) bool {
	switch x := v.(type) {
	case nil:
		return true
	case string:
		return x == ""
	case bool:
		return !x
	case json.Number:
		return x.String() == "0"
	case []any:
		return len(x) == 0
	case map[string]any:
		// a nested document all of whose members are zero (the genesis point {height 0, round 0}) decodes to the
		// same value as a missing one
		for _, e := range x {
			if !zeroish(e) {
				return false
			}
		}
		return true
	}
	return false
}

func strList(ss []string) string {
	out := make([]string, len(ss))
	for i, s := range ss {
		out[i] = vh.Str(s)
	}
	return vh.List(out)
}

// hintOfObj: the registered hint string of an object that does not carry "_hint" in its own encoding.
func hintOfObj(v any) string {
	switch v.(type) {
	case base.OperationFixedtreeNode:
		return base.OperationFixedtreeHint.String()
	case fixedtree.BaseNode:
		return base.StateFixedtreeHint.String()
	}
	if h, ok := v.(hint.Hinter); ok {
		for _, r := range gen.AllHints() {
			if rh, err := hint.ParseHint(r); err == nil && rh.Type() == h.Hint().Type() {
				return r
			}
		}
		return h.Hint().String()
	}
	return ""
}

func hintOfAny(v any) string {
	if h, ok := v.(hint.Hinter); ok {
		return h.Hint().String()
	}
	return ""
}

func main() {
	o := vh.ParseFlags()
	res := vh.NewResult("random valid instances of every type registered in launch.Hinters / SupportedProposalOperationFactHinters " +
		"(repository constructors, real signatures), JSON-encoded, decoded by hint, compared on Go type, Hash/HashBytes, IsValid, re-encoded bytes; " +
		"non-trivial = object carries at least one nested hinted value or a hash")
	r := vh.NewRand(o.Seed)
	w := gen.NewWorld(r)
	cases := &vh.Cases{Import: "From MV Require Import C27.Model.", Type: "case", CheckFn: "check", Shard: 400}
	rounds := o.Pick(14, 300)
	seenCase := map[string]bool{}
	seenHint := map[string]int{}
	knownSeen := map[string]int{}

	checkOne := func(ob gen.Obj, round int) {
		fail := func(class, desc string, b []byte) {
			if _, isMember := ob.V.(quicmemberlist.BaseMember); isMember {
				class = "member-json-roundtrip"
			}
			if class == "member-json-roundtrip" || class == "reencode-map-key-order" {
				// known-finding classes: recorded a few times, then only counted (vh.Result keeps 200 failures)
				knownSeen[class]++
				if knownSeen[class] > 8 {
					res.Dist("oracle_fail:" + class)
					return
				}
			}
			res.Fail(class, ob.Kind+": "+desc, replay{o.Seed, ob.Kind, string(b)})
		}
		b, err := w.Enc.Marshal(ob.V)
		if err != nil {
			fail("marshal-failed", err.Error(), nil)
			return
		}
		ht := gen.HintOf(b)
		if ht == "" {
			ht = hintOfObj(ob.V)
		}
		seenHint[ht]++
		res.Dist("type:" + ob.Kind)
		tag, dg := gen.Digest(ob.V)
		res.Count(ob.Kind+fmt.Sprintf("#%d", round), len(b) > 200 || tag != "h")
		d, err := w.Decode(ob.V, b)
		if err != nil {
			fail("decode-failed", err.Error(), b)
			return
		}
		if p, ok := d.(*isaac.Params); ok {
			// the network id is not part of the encoding of Params: every user sets it after decoding
			_ = p.SetNetworkID(w.NetworkID)
		}
		if reflect.TypeOf(d) != reflect.TypeOf(ob.V) {
			fail("type-changed", fmt.Sprintf("%T -> %T", ob.V, d), b)
			return
		}
		tag2, dg2 := gen.Digest(d)
		if tag != tag2 || !bytes.Equal(dg, dg2) {
			fail("hash-changed", fmt.Sprintf("digest(%s) %x -> digest(%s) %x", tag, dg, tag2, dg2), b)
		}
		var nid []byte
		if ob.NID {
			nid = w.NetworkID
		}
		e1, ok1 := gen.IsValid(ob.V, nid)
		e2, ok2 := gen.IsValid(d, nid)
		switch {
		case ok1 != ok2 || (e1 == nil) != (e2 == nil):
			fail("validity-changed", fmt.Sprintf("IsValid before: %v; after: %v", e1, e2), b)
		case e1 != nil:
			// the generators only build valid objects: an invalid one is a harness/generator problem, not the property
			res.Note(fmt.Sprintf("generator produced an invalid %s: %v", ob.Kind, e1))
			res.Dist("generator-invalid")
		}
		b2, err := w.Enc.Marshal(d)
		switch {
		case err != nil:
			fail("reencode-failed", err.Error(), b)
		case !bytes.Equal(b, b2):
			if bytes.Equal(gen.Canonical(b), gen.Canonical(b2)) {
				fail("reencode-map-key-order", "re-encoded bytes differ only in the order of object members", b)
			} else {
				fail("reencode-differs", fmt.Sprintf("re-encoded: %.300s", string(b2)), b)
			}
		}
		if round < 3 && len(res.Samples) < 6 && len(b) < 700 {
			res.Sample(map[string]any{"kind": ob.Kind, "json": string(b)})
		}

		// ---- the same message decoded again and again by the same long-lived encoder (hint lookup caches)
		for i := 0; i < 2; i++ {
			dn, err := w.Decode(ob.V, b)
			if err != nil {
				fail("decode-not-repeatable", fmt.Sprintf("decode #%d failed: %v", i+2, err), b)
				break
			}
			bn, _ := w.Enc.Marshal(dn)
			if !bytes.Equal(gen.Canonical(bn), gen.Canonical(b2)) || hintOfAny(dn) != hintOfAny(d) {
				fail("decode-not-repeatable", fmt.Sprintf("decode #%d differs from decode #1: %.300s", i+2, string(bn)), b)
				break
			}
		}
		// ---- the same object under a compatible, different hint version (top level / every nested hint):
		// the decoded object must keep the hint of the message, on every one of 3 consecutive decodes
		if gen.HintOf(b) != "" {
			if root0, err := gen.ParseJSON(b); err == nil {
				for vi, deep := range []bool{false, true} {
					mv := gen.BumpHints(root0, deep, true)
					mb := gen.RenderJSON(mv)
					wantCanon := gen.Canonical(mb)
					firstValid := e1 == nil // top-level variant: as valid as the original; deep variant: nested hints can be
					// hashed content (limiter rule), so only consistency over the repeated decodes is required
					res.Dist(fmt.Sprintf("hint-version-variant:%d", vi))
					for i := 0; i < 3; i++ {
						dv, err := w.Enc.Decode(mb)
						if err != nil {
							fail("variant-decode-failed", fmt.Sprintf("hint version variant (deep=%v) decode #%d: %v", deep, i+1, err), mb)
							break
						}
						if reflect.TypeOf(dv) != reflect.TypeOf(ob.V) {
							fail("variant-type-changed", fmt.Sprintf("%T -> %T", ob.V, dv), mb)
							break
						}
						bv, err := w.Enc.Marshal(dv)
						if err != nil || !bytes.Equal(gen.Canonical(bv), wantCanon) {
							fail("variant-reencode-differs", fmt.Sprintf("decode #%d (deep=%v) re-encoded: %.300s", i+1, deep, string(bv)), mb)
							break
						}
						if p, ok := dv.(*isaac.Params); ok {
							_ = p.SetNetworkID(w.NetworkID)
						}
						ev, _ := gen.IsValid(dv, nid)
						if deep && i == 0 {
							firstValid = ev == nil
						}
						if (ev == nil) != firstValid {
							fail("variant-validity-changed", fmt.Sprintf("decode #%d (deep=%v): %v", i+1, deep, ev), mb)
							break
						}
					}
				}
			}
		}

		// ---- correspondence case: keys of the real JSON vs. the extracted tables
		root, err := gen.ParseJSON(b)
		if err != nil {
			fail("not-json", err.Error(), b)
			return
		}
		m, isObj := root.(map[string]any)
		if !isObj {
			key := ht + "|<string>"
			if !seenCase[key] {
				seenCase[key] = true
				cases.Add(vh.Tuple(vh.Str(ht), "[]", "[]", "[]"), map[string]any{"hint": ht, "kind": ob.Kind, "encoded": "string"})
			}
			return
		}
		var present, consumed, nonzero []string
		ref := gen.Canonical(b2)
		for k, v := range m {
			present = append(present, k)
			if !zeroish(v) {
				nonzero = append(nonzero, k)
			}
			// remove the key: is the decoded object any different?
			m2 := map[string]any{}
			for k2, v2 := range m {
				if k2 != k {
					m2[k2] = v2
				}
			}
			dd, err := w.Decode(ob.V, gen.RenderJSON(m2))
			if err != nil {
				consumed = append(consumed, k)
				continue
			}
			bb, err := w.Enc.Marshal(dd)
			if err != nil || !bytes.Equal(gen.Canonical(bb), ref) {
				consumed = append(consumed, k)
			}
		}
		sort.Strings(present)
		sort.Strings(consumed)
		sort.Strings(nonzero)
		key := fmt.Sprintf("%s|%v|%v|%v", ht, present, consumed, nonzero)
		if !seenCase[key] || round < 4 {
			seenCase[key] = true
			cases.Add(vh.Tuple(vh.Str(ht), strList(present), strList(consumed), strList(nonzero)),
				map[string]any{"hint": ht, "kind": ob.Kind, "present": present, "consumed": consumed, "nonzero": nonzero})
		}
	}

	if o.Replay != "" {
		var rp replay
		if err := vh.ReadReplay(o.Replay, &rp); err == nil && rp.JSON != "" {
			d, err := w.Enc.Decode([]byte(rp.JSON))
			fmt.Printf("replay %s: decode err=%v type=%T\n", rp.Kind, err, d)
			if err == nil {
				b2, _ := w.Enc.Marshal(d)
				fmt.Printf("re-encoded equal=%v\n", bytes.Equal([]byte(rp.JSON), b2))
			}
		}
	}

	for round := 0; round < rounds; round++ {
		if round%5 == 4 {
			w = gen.NewWorld(r) // fresh nodes / network id
		}
		for _, ob := range w.All() {
			checkOne(ob, round)
		}
	}

	// every registered hint must have been exercised at top level or the run says so
	var missing []string
	for _, h := range gen.AllHints() {
		if seenHint[h] == 0 {
			missing = append(missing, h)
		}
	}
	if len(missing) > 0 {
		res.Note(fmt.Sprintf("registered hints only exercised nested (not as a top-level object): %v", missing))
	}
	res.Distribution["registered_hints"] = len(gen.AllHints())
	res.Distribution["hints_top_level"] = len(seenHint)
	res.ModelCases = cases.Len()
	if err := cases.Write(o.Out); err != nil {
		panic(err)
	}
	res.Write(o.Out)
	_ = base.NilHeight
}
