// c27: encoded objects decode to the same object (hash, validity, re-encoded bytes).
package main

import (
	"bytes"
	"fmt"
	"reflect"

	"github.com/spikeekips/mitum/util"
	"verifharness/cmd/c27/gen"
	"verifharness/vh"
)

func main() {
	o := vh.ParseFlags()
	r := vh.NewRand(o.Seed)
	w := gen.NewWorld(r)
	for _, ob := range w.All() {
		b, err := w.Enc.Marshal(ob.V)
		if err != nil {
			fmt.Println("MARSHAL", ob.Kind, err)
			continue
		}
		d, err := w.Decode(ob.V, b)
		if err != nil {
			fmt.Println("DECODE", ob.Kind, err)
			continue
		}
		if reflect.TypeOf(d) != reflect.TypeOf(ob.V) {
			fmt.Println("TYPE", ob.Kind, reflect.TypeOf(d), reflect.TypeOf(ob.V))
		}
		b2, _ := w.Enc.Marshal(d)
		if !bytes.Equal(b, b2) {
			if bytes.Equal(gen.Canonical(b), gen.Canonical(b2)) {
				fmt.Println("REENCODE-ORDER", ob.Kind)
			} else {
				fmt.Println("REENCODE", ob.Kind, string(b), string(b2))
			}
		}
		if v, ok := ob.V.(util.IsValider); ok {
			var nid []byte
			if ob.Signed {
				nid = w.NetworkID
			}
			e1 := v.IsValid(nid)
			e2 := d.(util.IsValider).IsValid(nid)
			if e1 != nil || e2 != nil {
				fmt.Println("ISVALID", ob.Kind, e1, e2)
			}
			if ob.Signed {
				if e3 := v.IsValid(w.OtherID); e3 == nil {
					fmt.Println("OTHERID-VALID", ob.Kind)
				}
			}
		} else {
			fmt.Println("NOT-ISVALIDER", ob.Kind)
		}
		fmt.Println("ok", ob.Kind, len(b))
	}
}
