package gen

import (
	"bytes"
	"encoding/base64"
	"encoding/json"
	"fmt"
	"strings"
	"time"
)

// ---------------------------------------------------------------- generic JSON tree helpers

func ParseJSON(b []byte) (any, error) {
	var v any
	dec := json.NewDecoder(bytes.NewReader(b))
	dec.UseNumber()
	if err := dec.Decode(&v); err != nil {
		return nil, err
	}
	return v, nil
}

func RenderJSON(v any) []byte {
	var buf bytes.Buffer
	canon(&buf, v)
	return buf.Bytes()
}

func clone(v any) any {
	switch x := v.(type) {
	case map[string]any:
		m := make(map[string]any, len(x))
		for k, e := range x {
			m[k] = clone(e)
		}
		return m
	case []any:
		l := make([]any, len(x))
		for i, e := range x {
			l[i] = clone(e)
		}
		return l
	default:
		return v
	}
}

// PathElem is a map key (string) or a slice index (int).
type Path []any

func (p Path) String() string {
	var sb strings.Builder
	for _, e := range p {
		switch x := e.(type) {
		case string:
			sb.WriteString("/" + x)
		case int:
			sb.WriteString(fmt.Sprintf("/%d", x))
		}
	}
	return sb.String()
}

// Generic drops slice indices (stable identification of *which field* was mutated).
func (p Path) Generic() string {
	var sb strings.Builder
	for _, e := range p {
		switch x := e.(type) {
		case string:
			sb.WriteString("/" + x)
		case int:
			sb.WriteString("/[]")
		}
	}
	return sb.String()
}

func (p Path) with(e any) Path {
	q := make(Path, len(p)+1)
	copy(q, p)
	q[len(p)] = e
	return q
}

func Get(root any, p Path) any {
	cur := root
	for _, e := range p {
		switch x := e.(type) {
		case string:
			m, ok := cur.(map[string]any)
			if !ok {
				return nil
			}
			cur = m[x]
		case int:
			l, ok := cur.([]any)
			if !ok || x >= len(l) {
				return nil
			}
			cur = l[x]
		}
	}
	return cur
}

// Set returns a deep copy of root with the value at p replaced.
func Set(root any, p Path, v any) any {
	if len(p) == 0 {
		return clone(v)
	}
	switch e := p[0].(type) {
	case string:
		m := root.(map[string]any)
		n := make(map[string]any, len(m))
		for k, x := range m {
			if k == e {
				n[k] = Set(x, p[1:], v)
			} else {
				n[k] = x
			}
		}
		if _, ok := m[e]; !ok {
			n[e] = clone(v)
		}
		return n
	case int:
		l := root.([]any)
		n := make([]any, len(l))
		copy(n, l)
		n[e] = Set(l[e], p[1:], v)
		return n
	}
	return root
}

// ---------------------------------------------------------------- signed units

// Unit is a JSON sub-object whose content is covered by signatures: {fact, sign|signs} (ballot sign facts,
// proposal sign facts, operations) or a block map {manifest, items, node, signer, signature, signed_at}.
type Unit struct {
	At    Path
	Kind  string // "signfact" | "operation" | "blockmap"
	Hint  string // _hint of the unit
	FHint string // _hint of the fact ("" for block maps)
}

func FindUnits(root any) []Unit {
	var us []Unit
	var walk func(v any, p Path)
	walk = func(v any, p Path) {
		switch x := v.(type) {
		case map[string]any:
			h, _ := x["_hint"].(string)
			if f, ok := x["fact"].(map[string]any); ok {
				fh, _ := f["_hint"].(string)
				if _, ok := x["sign"]; ok {
					us = append(us, Unit{At: p, Kind: "signfact", Hint: h, FHint: fh})
				} else if _, ok := x["signs"]; ok {
					us = append(us, Unit{At: p, Kind: "operation", Hint: h, FHint: fh})
				}
			} else if _, ok := x["manifest"]; ok {
				if _, ok := x["items"]; ok {
					if _, ok := x["signature"]; ok {
						us = append(us, Unit{At: p, Kind: "blockmap", Hint: h})
					}
				}
			}
			for k, e := range x {
				walk(e, p.with(k))
			}
		case []any:
			for i, e := range x {
				walk(e, p.with(i))
			}
		}
	}
	walk(root, nil)
	return us
}

// ---------------------------------------------------------------- mutations

type Mutation struct {
	Unit  Unit
	Rel   Path   // path relative to the unit
	Op    string // "value" | "drop-last" | "dup-first" | "swap-elems" | "hint-swap" | "swap-other:<field>" | "null"
	New   any    // replacement value (for value / hint-swap / swap-other)
	Descr string
	// Rehash: after the change, the hash of the (node) operation is recomputed over its signs, as anybody can:
	// only the signature check is left to notice the change
	Rehash bool
}

func (m Mutation) Field() string { return m.Rel.Generic() }

func isHex(s string) bool {
	if len(s) == 0 {
		return false
	}
	for _, c := range s {
		if !((c >= '0' && c <= '9') || (c >= 'a' && c <= 'f')) {
			return false
		}
	}
	return true
}

const b58 = "123456789ABCDEFGHJKLMNPQRSTUVWXYZabcdefghijkmnopqrstuvwxyz"

func isB58(s string) bool {
	if len(s) == 0 {
		return false
	}
	for _, c := range s {
		if !strings.ContainsRune(b58, c) {
			return false
		}
	}
	return true
}

func flipAt(s string, i int, alphabet string) string {
	c := s[i]
	j := strings.IndexByte(alphabet, c)
	n := alphabet[(j+1)%len(alphabet)]
	return s[:i] + string(n) + s[i+1:]
}

// mutateString returns variants of a string leaf that are different values of the same shape.
func (w *World) mutateString(s string) []string {
	var out []string
	switch {
	case strings.HasSuffix(s, "mpu") && len(s) > 40:
		out = append(out, w.Priv().Publickey().String())
	case strings.HasSuffix(s, "sas"):
		out = append(out, w.Addr().String(), s[:len(s)-3]+"x"+"sas")
	default:
		if t, err := time.Parse(time.RFC3339Nano, s); err == nil && len(s) >= 20 {
			// the repository defines times at millisecond precision (util.NormalizeTime in localtime.Time.Bytes):
			// the smallest change of a signed time is 1ms
			out = append(out, t.Add(time.Millisecond).UTC().Format(time.RFC3339Nano), t.Add(-time.Second).UTC().Format(time.RFC3339Nano))
			break
		}
		switch {
		case len(s) >= 32 && isHex(s):
			out = append(out, flipAt(s, w.R.Intn(len(s)), "0123456789abcdef"), flipAt(s, len(s)-1, "0123456789abcdef"))
		case len(s) >= 32 && isB58(s):
			out = append(out, flipAt(s, w.R.Intn(len(s)), b58), flipAt(s, len(s)-1, b58))
		default:
			out = append(out, s+"x")
			if len(s) > 1 {
				out = append(out, s[:len(s)-1])
			}
		}
	}
	return out
}

// leafMutations enumerates single-leaf value changes and single-array structural changes below v.
func (w *World) leafMutations(u Unit, v any, rel Path, skipHint bool) []Mutation {
	var ms []Mutation
	switch x := v.(type) {
	case map[string]any:
		for _, k := range sortedKeys(x) {
			if k == "_hint" {
				// kinds are changed by the explicit hint-swap mutation; version strings of nested values are not content
				continue
			}
			if tk, ok := x[k].(string); ok && (k == "token") {
				if raw, err := base64.StdEncoding.DecodeString(tk); err == nil && len(raw) > 0 {
					raw2 := append([]byte{}, raw...)
					raw2[w.R.Intn(len(raw2))] ^= 0x01
					ms = append(ms, Mutation{Unit: u, Rel: rel.with(k), Op: "value", New: base64.StdEncoding.EncodeToString(raw2)})
					ms = append(ms, Mutation{Unit: u, Rel: rel.with(k), Op: "value", New: base64.StdEncoding.EncodeToString(append(raw2, 0x7))})
					continue
				}
			}
			ms = append(ms, w.leafMutations(u, x[k], rel.with(k), false)...)
		}
	case []any:
		for i, e := range x {
			ms = append(ms, w.leafMutations(u, e, rel.with(i), false)...)
		}
		if len(x) > 0 {
			ms = append(ms, Mutation{Unit: u, Rel: rel, Op: "drop-last", New: append([]any{}, x[:len(x)-1]...)})
			ms = append(ms, Mutation{Unit: u, Rel: rel, Op: "dup-first", New: append(append([]any{}, x...), clone(x[0]))})
		}
		if len(x) > 1 && string(RenderJSON(x[0])) != string(RenderJSON(x[1])) {
			y := append([]any{}, x...)
			y[0], y[1] = y[1], y[0]
			ms = append(ms, Mutation{Unit: u, Rel: rel, Op: "swap-elems", New: y})
		}
	case string:
		for _, n := range w.mutateString(x) {
			if n != x {
				ms = append(ms, Mutation{Unit: u, Rel: rel, Op: "value", New: n})
			}
		}
	case json.Number:
		var n int64
		if _, err := fmt.Sscan(x.String(), &n); err == nil {
			ms = append(ms, Mutation{Unit: u, Rel: rel, Op: "value", New: json.Number(fmt.Sprintf("%d", n+1))})
		} else {
			ms = append(ms, Mutation{Unit: u, Rel: rel, Op: "value", New: json.Number(x.String() + "1")})
		}
	case bool:
		ms = append(ms, Mutation{Unit: u, Rel: rel, Op: "value", New: !x})
	case nil:
		// a nil optional field: set it to a hash-shaped value
		ms = append(ms, Mutation{Unit: u, Rel: rel, Op: "value", New: w.Hash().String()})
	}
	return ms
}

func sortedKeys(m map[string]any) []string {
	ks := make([]string, 0, len(m))
	for k := range m {
		ks = append(ks, k)
	}
	for i := 1; i < len(ks); i++ {
		for j := i; j > 0 && ks[j] < ks[j-1]; j-- {
			ks[j], ks[j-1] = ks[j-1], ks[j]
		}
	}
	return ks
}

// UnitMutations: every single-field mutation of the signed content of unit u inside root:
// each leaf of the fact (value change), array edits, the fact's _hint to every hint in hints, each sign
// field (value change), and replacement of sign fields / whole signs / the fact by those of other
// units of the same kind (donors).
func (w *World) UnitMutations(root any, u Unit, hints []string, donors []any) []Mutation {
	var ms []Mutation
	uv, _ := Get(root, u.At).(map[string]any)
	if uv == nil {
		return nil
	}
	signFields := []string{"signer", "signature", "signed_at", "node"}
	switch u.Kind {
	case "signfact", "operation":
		fact := uv["fact"].(map[string]any)
		ms = append(ms, w.leafMutations(u, fact, Path{"fact"}, true)...)
		cur, _ := fact["_hint"].(string)
		for _, h := range hints {
			if h != cur {
				ms = append(ms, Mutation{Unit: u, Rel: Path{"fact", "_hint"}, Op: "hint-swap", New: h})
			}
		}
		var signs []Path
		if u.Kind == "signfact" {
			signs = []Path{{"sign"}}
		} else {
			l, _ := uv["signs"].([]any)
			for i := range l {
				signs = append(signs, Path{"signs", i})
			}
			if len(l) > 0 {
				// removing / duplicating a sign changes the operation hash
				ms = append(ms, Mutation{Unit: u, Rel: Path{"signs"}, Op: "dup-first", New: append(append([]any{}, l...), clone(l[0]))})
				if len(l) > 1 {
					ms = append(ms, Mutation{Unit: u, Rel: Path{"signs"}, Op: "drop-last", New: append([]any{}, l[:len(l)-1]...)})
				}
			}
			ms = append(ms, w.leafMutations(u, uv["hash"], Path{"hash"}, false)...)
		}
		for _, sp := range signs {
			s, _ := Get(uv, sp).(map[string]any)
			for _, f := range signFields {
				if v, ok := s[f]; ok {
					ms = append(ms, w.leafMutations(u, v, sp.with(f), false)...)
				}
			}
		}
		// swaps with donors (other valid units of the same kind)
		for _, d := range donors {
			dm, _ := d.(map[string]any)
			if dm == nil {
				continue
			}
			var dsign map[string]any
			if u.Kind == "signfact" {
				dsign, _ = dm["sign"].(map[string]any)
			} else if l, _ := dm["signs"].([]any); len(l) > 0 {
				dsign, _ = l[0].(map[string]any)
			}
			if dsign == nil || len(signs) == 0 {
				continue
			}
			for _, sp := range signs {
				s, _ := Get(uv, sp).(map[string]any)
				same := true
				for _, f := range signFields {
					if !sameValue(dsign[f], s[f]) {
						same = false
					}
				}
				if same {
					// the donor signed the same content in the same millisecond: not a change
					continue
				}
				ms = append(ms, Mutation{Unit: u, Rel: sp, Op: "swap-other:sign", New: dsign})
				for _, f := range signFields {
					if v, ok := dsign[f]; ok && !sameValue(v, s[f]) {
						ms = append(ms, Mutation{Unit: u, Rel: sp.with(f), Op: "swap-other:" + f, New: v})
					}
				}
			}
			if df, ok := dm["fact"].(map[string]any); ok && string(RenderJSON(df)) != string(RenderJSON(fact)) {
				ms = append(ms, Mutation{Unit: u, Rel: Path{"fact"}, Op: "swap-other:fact", New: df})
			}
		}
		if u.Kind == "operation" {
			n := len(ms)
			for i := 0; i < n; i++ {
				// (dropping or repeating a whole sign and rehashing is not a change of signed content: an operation
				// with fewer signs is a validly signed operation; only changes inside a sign are re-hashed)
				if len(ms[i].Rel) >= 2 && ms[i].Rel[0] == "signs" {
					r := ms[i]
					r.Rehash = true
					r.Op += "+rehash"
					ms = append(ms, r)
				}
			}
		}
	case "blockmap":
		ms = append(ms, w.leafMutations(u, uv["manifest"], Path{"manifest"}, true)...)
		if items, ok := uv["items"].(map[string]any); ok {
			for _, k := range sortedKeys(items) {
				it, _ := items[k].(map[string]any)
				if it == nil {
					continue
				}
				ms = append(ms, w.leafMutations(u, it["checksum"], Path{"items", k, "checksum"}, false)...)
				// the item's type -> every valid item type the map does not carry yet (the decoder files the item
				// under its inner "type")
				for _, t := range AllBlockItemTypes {
					if _, has := items[t.String()]; !has {
						ms = append(ms, Mutation{Unit: u, Rel: Path{"items", k, "type"}, Op: "item-type", New: t.String()})
					}
				}
			}
		}
		for _, f := range signFields {
			if v, ok := uv[f]; ok {
				ms = append(ms, w.leafMutations(u, v, Path{f}, false)...)
			}
		}
		for _, d := range donors {
			dm, _ := d.(map[string]any)
			if dm == nil {
				continue
			}
			for _, f := range signFields {
				if v, ok := dm[f]; ok && !sameValue(v, uv[f]) {
					ms = append(ms, Mutation{Unit: u, Rel: Path{f}, Op: "swap-other:" + f, New: v})
				}
			}
			if dmf, ok := dm["manifest"]; ok && string(RenderJSON(dmf)) != string(RenderJSON(uv["manifest"])) {
				ms = append(ms, Mutation{Unit: u, Rel: Path{"manifest"}, Op: "swap-other:manifest", New: dmf})
			}
		}
	}
	return ms
}

// Apply returns the mutated document.
func (m Mutation) Apply(root any) any {
	full := append(append(Path{}, m.Unit.At...), m.Rel...)
	return Set(root, full, m.New)
}

// sameValue: equal JSON values; times compared at the repository's millisecond precision.
func sameValue(a, b any) bool {
	as, ok1 := a.(string)
	bs, ok2 := b.(string)
	if ok1 && ok2 {
		ta, e1 := time.Parse(time.RFC3339Nano, as)
		tb, e2 := time.Parse(time.RFC3339Nano, bs)
		if e1 == nil && e2 == nil {
			return ta.Truncate(time.Millisecond).Equal(tb.Truncate(time.Millisecond))
		}
	}
	return string(RenderJSON(a)) == string(RenderJSON(b))
}
