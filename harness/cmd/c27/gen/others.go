package gen

import (
	"errors"
	"fmt"
	"net"
	"net/url"

	"github.com/spikeekips/mitum/base"
	"github.com/spikeekips/mitum/isaac"
	isaacnetwork "github.com/spikeekips/mitum/isaac/network"
	isaacstates "github.com/spikeekips/mitum/isaac/states"
	"github.com/spikeekips/mitum/launch"
	"github.com/spikeekips/mitum/network/quicmemberlist"
	"github.com/spikeekips/mitum/network/quicstream"
	quicstreamheader "github.com/spikeekips/mitum/network/quicstream/header"
	"github.com/spikeekips/mitum/util"
	"github.com/spikeekips/mitum/util/fixedtree"
)

func (w *World) ConnInfo() quicstream.ConnInfo {
	addr := &net.UDPAddr{IP: net.IPv4(byte(w.R.Range(1, 223)), byte(w.R.Intn(256)), byte(w.R.Intn(256)), byte(w.R.Range(1, 254))), Port: w.R.Range(1024, 65000)}
	return quicstream.MustConnInfo(addr, w.R.Bool())
}

func (w *World) optErr() error {
	if w.R.Bool() {
		return nil
	}
	return errors.New(w.Str("some error "))
}

func (w *World) Version() util.Version {
	return util.MustNewVersion(fmt.Sprintf("v%d.%d.%d", w.R.Intn(9), w.R.Intn(99), w.R.Intn(99)))
}

func (w *World) clientID(h interface{ SetClientID(string) }) {
	if w.R.Bool() {
		h.SetClientID(w.Str("client-"))
	}
}

// others: values, network headers, node info, handover messages, memberlist types, params.
func (w *World) others() []Obj {
	var os []Obj
	add := func(kind string, signed bool, v any) { os = append(os, Obj{Kind: kind, V: v, Signed: signed, NID: signed}) }
	pub := func() base.Publickey { return w.Priv().Publickey() }

	// plain values
	add("NetworkPolicy", false, w.Policy())
	add("NetworkPolicyStateValue", false, isaac.NewNetworkPolicyStateValue(w.Policy()))
	add("FixedSuffrageCandidateLimiterRule", false, isaac.NewFixedSuffrageCandidateLimiterRule(uint64(w.R.Range(1, 99))))
	add("SuffrageNodesStateValue", false, w.SuffrageNodesValue(w.Height()))
	add("SuffrageCandidatesStateValue", false, w.CandidatesValue())
	l := w.NewLocal()
	add("Node", false, isaac.NewNode(l.Publickey(), l.Address()))
	add("SuffrageNodeStateValue", false, isaac.NewSuffrageNodeStateValue(isaac.NewNode(l.Publickey(), l.Address()), w.Height()))
	add("SuffrageCandidateStateValue", false, isaac.NewSuffrageCandidateStateValue(isaac.NewNode(l.Publickey(), l.Address()), base.Height(10), base.Height(20+w.R.Intn(100))))
	add("BaseOperationProcessReasonError", false, base.NewBaseOperationProcessReason(w.Str("reason ")))
	add("BlockItemFile/localfs", false, isaac.NewLocalFSBlockItemFile(w.Str("f")+".json.gz", ""))
	add("BlockItemFile/remote", false, isaac.NewBlockItemFile(url.URL{Scheme: "https", Host: w.Str("h") + ".example.com", Path: "/" + w.Str("p")}, "gz"))
	// remote item files: ports, userinfo, queries, fragments, escaped paths
	add("BlockItemFile/remote-query-fragment", false, isaac.NewBlockItemFile(url.URL{Scheme: "https", Host: w.Str("h") + ".example.com:" + fmt.Sprint(w.R.Range(1024, 65000)), Path: "/" + w.Str("p") + "/b.json.gz", RawQuery: "a=" + w.Str("v") + "&b=1", Fragment: w.Str("frag-")}, "gz"))
	add("BlockItemFile/remote-userinfo", false, isaac.NewBlockItemFile(url.URL{Scheme: "http", User: url.UserPassword(w.Str("u"), w.Str("p")), Host: "10.1.2.3:" + fmt.Sprint(w.R.Range(1024, 65000)), Path: "/a b/" + w.Str("x")}, ""))
	add("BlockItemFile/remote-fragment-only", false, isaac.NewBlockItemFile(url.URL{Scheme: "https", Host: "a.b.c", Path: "/" + w.Str("x"), Fragment: w.Str("f")}, "bz2"))
	add("BlockItemResponseHeader/uri-query-fragment", false, isaacnetwork.NewBlockItemResponseHeader(true, nil, url.URL{Scheme: "https", Host: "a.b.c:8443", Path: "/" + w.Str("x"), RawQuery: "k=" + w.Str("v"), Fragment: w.Str("f")}, "gz"))
	items := map[base.BlockItemType]base.BlockItemFile{}
	for _, t := range []base.BlockItemType{base.BlockItemMap, base.BlockItemProposal, base.BlockItemOperations, base.BlockItemVoteproofs, base.BlockItemStates} {
		if t == base.BlockItemMap || t == base.BlockItemProposal || t == base.BlockItemVoteproofs || w.R.Chance(3, 4) {
			if w.R.Chance(1, 3) {
				items[t] = isaac.NewBlockItemFile(url.URL{Scheme: "https", Host: w.Str("h") + ".example.com", Path: "/" + w.Str("p"), RawQuery: "q=" + w.Str("v"), Fragment: w.Str("f")}, "gz")
			} else {
				items[t] = isaac.NewLocalFSBlockItemFile(w.Str("f")+".json", "")
			}
		}
	}
	add("BlockItemFiles", false, isaac.NewBlockItemFiles(items))
	params := isaac.DefaultParams(w.NetworkID)
	must(params.SetThreshold(w.threshold()))
	must(params.SetMaxTryHandoverYBrokerSyncData(uint64(w.R.Range(1, 99))))
	os = append(os, Obj{Kind: "Params", V: params, NID: true})

	// fixedtree nodes (encoded without their own _hint key at top level; decoded with a given hint)
	add("StateFixedtreeNode", false, fixedtree.NewBaseNode(w.Hash().String()).SetHash(w.Hash()))
	add("OperationFixedtreeNode/in", false, base.NewInStateOperationFixedtreeNode(w.Hash(), "").SetHash(w.Hash()))
	add("OperationFixedtreeNode/notin", false, base.NewNotInStateOperationFixedtreeNode(w.Hash(), w.Str("bad ")).SetHash(w.Hash()))

	// isaac/network request headers
	{
		h := isaacnetwork.NewOperationRequestHeader(w.Hash())
		w.clientID(&h)
		add("OperationRequestHeader", false, h)
	}
	{
		h := isaacnetwork.NewSendOperationRequestHeader()
		w.clientID(&h)
		add("SendOperationRequestHeader", false, h)
	}
	{
		h := isaacnetwork.NewRequestProposalRequestHeader(w.Point(), w.Addr(), w.Hash())
		w.clientID(&h)
		add("RequestProposalRequestHeader", false, h)
	}
	{
		h := isaacnetwork.NewProposalRequestHeader(w.Hash())
		w.clientID(&h)
		add("ProposalRequestHeader", false, h)
	}
	add("LastSuffrageProofRequestHeader", false, isaacnetwork.NewLastSuffrageProofRequestHeader(w.optHash()))
	add("SuffrageProofRequestHeader", false, isaacnetwork.NewSuffrageProofRequestHeader(w.Height()))
	add("LastBlockMapRequestHeader", false, isaacnetwork.NewLastBlockMapRequestHeader(w.optHash()))
	add("BlockMapRequestHeader", false, isaacnetwork.NewBlockMapRequestHeader(w.Height()))
	add("BlockItemRequestHeader", false, isaacnetwork.NewBlockItemRequestHeader(w.Height(), base.BlockItemOperations))
	add("BlockItemFilesRequestHeader", false, isaacnetwork.NewBlockItemFilesRequestHeader(w.Height(), pub()))
	add("NodeChallengeRequestHeader", false, isaacnetwork.NewNodeChallengeRequestHeader(w.R.Bytes(1+w.R.Intn(40)), l.Address(), l.Publickey()))
	add("NodeChallengeRequestHeader/anon", false, isaacnetwork.NewNodeChallengeRequestHeader(w.R.Bytes(1+w.R.Intn(40)), nil, nil))
	add("SuffrageNodeConnInfoRequestHeader", false, isaacnetwork.NewSuffrageNodeConnInfoRequestHeader())
	add("SyncSourceConnInfoRequestHeader", false, isaacnetwork.NewSyncSourceConnInfoRequestHeader())
	add("StateRequestHeader", false, isaacnetwork.NewStateRequestHeader(w.Str("key-"), w.optHash()))
	add("ExistsInStateOperationRequestHeader", false, isaacnetwork.NewExistsInStateOperationRequestHeader(w.Hash()))
	add("NodeInfoRequestHeader", false, isaacnetwork.NewNodeInfoRequestHeader())
	add("SendBallotsHeader", false, isaacnetwork.NewSendBallotsHeader())
	add("SetAllowConsensusHeader", false, isaacnetwork.NewSetAllowConsensusHeader(w.R.Bool()))
	add("StreamOperationsHeader", false, isaacnetwork.NewStreamOperationsHeader(w.R.Bytes(w.R.Intn(30))))
	add("StartHandoverHeader", false, isaacnetwork.NewStartHandoverHeader(w.ConnInfo(), w.Addr(), pub()))
	add("CheckHandoverHeader", false, isaacnetwork.NewCheckHandoverHeader(w.ConnInfo(), w.Addr(), pub()))
	add("AskHandoverHeader", false, isaacnetwork.NewAskHandoverHeader(w.ConnInfo(), w.Addr()))
	add("AskHandoverResponseHeader", false, isaacnetwork.NewAskHandoverResponseHeader(w.R.Bool(), w.optErr(), w.Str("id-")))
	add("CancelHandoverHeader", false, isaacnetwork.NewCancelHandoverHeader(pub()))
	add("HandoverMessageHeader", false, isaacnetwork.NewHandoverMessageHeader())
	add("CheckHandoverXHeader", false, isaacnetwork.NewCheckHandoverXHeader(w.Addr()))
	add("BlockItemResponseHeader", false, isaacnetwork.NewBlockItemResponseHeader(w.R.Bool(), w.optErr(), url.URL{Scheme: "https", Host: "a.b.c", Path: "/" + w.Str("x")}, "gz"))
	add("DefaultResponseHeader", false, quicstreamheader.NewDefaultResponseHeader(w.R.Bool(), w.optErr()))

	// node info
	{
		up := isaacnetwork.NewNodeInfoUpdater(w.NetworkID, isaac.NewNode(l.Publickey(), l.Address()), w.Version())
		up.SetConsensusState(isaacstates.StateConsensus)
		up.SetLastManifest(w.Manifest(w.Height(), w.Hash()))
		up.SetSuffrageHeight(base.Height(w.R.Intn(99)))
		up.SetNetworkPolicy(w.Policy())
		up.SetLocalParams(isaac.DefaultParams(w.NetworkID))
		up.SetConnInfo(w.ConnInfo().String())
		up.SetConsensusNodes(w.Nodes())
		up.SetLastVote(base.NewStagePoint(w.Point(), base.StageACCEPT), base.VoteResultMajority)
		os = append(os, Obj{Kind: "NodeInfo", V: up.NodeInfo(), NID: true})
	}

	// launch
	add("DefaultNodeInfo", false, launch.NewDefaultNodeInfo(w.Str("id-"), w.NetworkID, w.Version()))
	add("EventLoggingHeader", false, launch.NewEventLoggingHeader(launch.AllEventLogger, [2]int64{int64(w.R.Range(10, 99)), int64(w.R.Intn(9))}, uint64(w.R.Range(1, 99)), w.R.Bool(), pub()))
	add("ReadNodeHeader", false, launch.NewReadNodeHeader(w.Str("key."), pub()))
	add("WriteNodeHeader", false, launch.NewWriteNodeHeader(w.Str("key."), pub()))

	// states: stuck resolver + handover messages
	add("MissingBallotsRequestMessage", false, isaacstates.NewMissingBallotsRequestsMessage(
		base.NewStagePoint(w.Point(), base.StageINIT), []base.Address{w.Addr(), w.Addr()}, w.ConnInfo()))
	add("HandoverMessageCancel", false, isaacstates.NewHandoverMessageCancel(w.Str("id-"), w.optErr()))
	add("HandoverMessageChallengeResponse", false, isaacstates.VerifNewHandoverMessageChallengeResponse(
		w.Str("id-"), base.NewStagePoint(w.Point(), base.StageACCEPT), w.R.Bool(), w.optErr()))
	{
		ifact := isaac.NewINITBallotFact(w.Point(), w.Hash(), w.Hash(), nil)
		add("HandoverMessageFinish", true, isaacstates.VerifNewHandoverMessageFinish(w.Str("id-"), w.INITVoteproof(ifact), w.ProposalSignFact()))
	}
	add("HandoverMessageChallengeStagePoint", false, isaacstates.VerifNewHandoverMessageChallengeStagePoint(
		w.Str("id-"), base.NewStagePoint(w.Point(), base.StageINIT)))
	{
		m := w.Manifest(w.Height(), w.Hash())
		add("HandoverMessageChallengeBlockMap", true, isaacstates.VerifNewHandoverMessageChallengeBlockMap(
			w.Str("id-"), base.NewStagePoint(base.NewPoint(m.Height(), 0), base.StageACCEPT), w.BlockMap(m)))
	}
	add("HandoverMessageData/voteproof", true, isaacstates.VerifNewHandoverMessageData(w.Str("id-"),
		isaacstates.HandoverMessageDataTypeVoteproof, w.ACCEPTVoteproof(isaac.NewACCEPTBallotFact(w.Point(), w.Hash(), w.Hash(), nil))))
	{
		ifact := isaac.NewINITBallotFact(w.Point(), w.Hash(), w.Hash(), nil)
		add("HandoverMessageData/init-voteproof", true, isaacstates.VerifNewHandoverMessageData(w.Str("id-"),
			isaacstates.HandoverMessageDataTypeINITVoteproof, []interface{}{w.ProposalSignFact(), w.INITVoteproof(ifact)}))
	}
	add("HandoverMessageData/ballot", true, isaacstates.VerifNewHandoverMessageData(w.Str("id-"),
		isaacstates.HandoverMessageDataTypeBallot, w.ACCEPTBallot(0)))
	add("HandoverMessageData/proposal", true, isaacstates.VerifNewHandoverMessageData(w.Str("id-"),
		isaacstates.HandoverMessageDataTypeProposal, w.ProposalSignFact()))
	add("HandoverMessageData/operation", true, isaacstates.VerifNewHandoverMessageData(w.Str("id-"),
		isaacstates.HandoverMessageDataTypeOperation, w.SuffrageJoin()))
	{
		_, exps, _ := w.Expels(w.HeightPos(), 1)
		add("HandoverMessageData/suffrage-voting", true, isaacstates.VerifNewHandoverMessageData(w.Str("id-"),
			isaacstates.HandoverMessageDataTypeSuffrageVoting, exps[0]))
	}

	// memberlist
	add("ConnInfoBroadcastMessage", false, quicmemberlist.NewConnInfoBroadcastMessage(w.Str("id-"), w.ConnInfo()))
	add("CallbackBroadcastMessageHeader", false, quicmemberlist.NewCallbackBroadcastMessageHeader(w.Str("id-"), quicstream.HashPrefix(quicstream.HandlerName(w.Str("h")))))
	{
		h, err := quicmemberlist.NewEnsureBroadcastMessageHeader(w.Str("id-"), quicstream.HashPrefix(quicstream.HandlerName(w.Str("h"))), l.Address(), l.Privatekey(), w.NetworkID)
		must(err)
		add("EnsureBroadcastMessageHeader", false, h)
	}
	{
		ci := w.ConnInfo()
		m, err := quicmemberlist.NewMember(w.Str("name-"), ci.UDPAddr(), l.Address(), l.Publickey(), ci.UDPAddr().String(), ci.TLSInsecure())
		must(err)
		add("Member", false, m)
	}

	// keys and addresses (encoded as hinted strings, not JSON objects)
	add("MPublickey", false, pub())
	add("MPrivatekey", false, w.Priv())
	add("StringAddress", false, w.Addr())

	return os
}
