package gen

import (
	"github.com/spikeekips/mitum/base"
	"github.com/spikeekips/mitum/isaac"
)

// All returns one fresh random instance per generator (every registered hinted type appears at least once,
// at top level or nested; see Coverage()).
func (w *World) All() []Obj {
	var os []Obj
	add := func(kind string, signed bool, v any) { os = append(os, Obj{Kind: kind, V: v, Signed: signed, NID: signed}) }

	// ballot facts on their own
	p := w.Point()
	add("INITBallotFact", false, isaac.NewINITBallotFact(p, w.Hash(), w.Hash(), nil))
	add("INITBallotFact/expels", false, isaac.NewINITBallotFact(p, w.Hash(), w.Hash(), w.Hashes(1, 3)))
	add("ACCEPTBallotFact", false, isaac.NewACCEPTBallotFact(p, w.Hash(), w.Hash(), w.Hashes(0, 2)))
	add("SuffrageConfirmBallotFact", false, isaac.NewSuffrageConfirmBallotFact(p, w.Hash(), w.Hash(), w.Hashes(1, 3)))
	add("EmptyProposalINITBallotFact", false, isaac.NewEmptyProposalINITBallotFact(p, w.Hash(), w.Hash()))
	add("EmptyOperationsACCEPTBallotFact", false, isaac.NewEmptyOperationsACCEPTBallotFact(p, w.Hash()))
	add("NotProcessedACCEPTBallotFact", false, isaac.NewNotProcessedACCEPTBallotFact(p, w.Hash()))

	// sign facts
	add("INITBallotSignFact", true, w.signINIT(isaac.NewINITBallotFact(w.Point(), w.Hash(), w.Hash(), nil)))
	add("ACCEPTBallotSignFact", true, w.signACCEPT(isaac.NewACCEPTBallotFact(w.Point(), w.Hash(), w.Hash(), nil)))

	// voteproofs
	add("INITVoteproof", true, w.INITVoteproof(isaac.NewINITBallotFact(w.Point(), w.Hash(), w.Hash(), nil)))
	// mixed votes: the minority vote first / in the middle / last (the majority has to be found wherever it is)
	add("INITVoteproof/minority-first", true, w.INITVoteproofAt(isaac.NewINITBallotFact(w.Point(), w.Hash(), w.Hash(), nil), 0))
	add("INITVoteproof/minority-middle", true, w.INITVoteproofAt(isaac.NewINITBallotFact(w.Point(), w.Hash(), w.Hash(), nil), 1+w.R.Intn(len(w.Locals)-2)))
	add("INITVoteproof/minority-last", true, w.INITVoteproofAt(isaac.NewINITBallotFact(w.Point(), w.Hash(), w.Hash(), nil), len(w.Locals)-1))
	add("ACCEPTVoteproof/minority-first", true, w.ACCEPTVoteproofAt(isaac.NewACCEPTBallotFact(w.Point(), w.Hash(), w.Hash(), nil), 0))
	add("ACCEPTVoteproof/minority-last", true, w.ACCEPTVoteproofAt(isaac.NewACCEPTBallotFact(w.Point(), w.Hash(), w.Hash(), nil), len(w.Locals)-1))
	{
		ifact := isaac.NewINITBallotFact(w.Point(), w.Hash(), w.Hash(), nil)
		afact := isaac.NewACCEPTBallotFact(ifact.Point().Point, ifact.Proposal(), w.Hash(), nil)
		add("ACCEPTBallot/minority-first-vp", true, isaac.NewACCEPTBallot(w.INITVoteproofAt(ifact, 0), w.signACCEPT(afact), nil))
	}
	add("INITVoteproof/draw", true, w.INITVoteproofDraw(w.Point()))
	add("ACCEPTVoteproof", true, w.ACCEPTVoteproof(isaac.NewACCEPTBallotFact(w.Point(), w.Hash(), w.Hash(), nil)))
	add("ACCEPTVoteproof/draw", true, w.ACCEPTVoteproofDraw(w.Point()))
	ievp, _, _ := w.INITExpelVoteproof(w.PointPos(), 1+w.R.Intn(2))
	add("INITExpelVoteproof", true, ievp)
	add("ACCEPTExpelVoteproof", true, w.ACCEPTExpelVoteproof(w.PointPos(), 1+w.R.Intn(2)))
	add("INITStuckVoteproof", true, w.INITStuckVoteproof(w.PointPos(), 1+w.R.Intn(2)))
	add("ACCEPTStuckVoteproof", true, w.ACCEPTStuckVoteproof(w.PointPos(), 1+w.R.Intn(2)))

	// ballots
	add("INITBallot/accept-vp", true, w.INITBallotOnAccept(false, false))
	add("INITBallot/accept-vp/expels", true, w.INITBallotOnAccept(false, true))
	add("INITBallot/empty-proposal", true, w.INITBallotOnAccept(true, false))
	add("INITBallot/next-round", true, w.INITBallotNextRound(false))
	add("INITBallot/next-round-accept-draw", true, w.INITBallotNextRound(true))
	add("INITBallot/suffrage-confirm", true, w.SuffrageConfirmBallot())
	add("ACCEPTBallot", true, w.ACCEPTBallot(0))
	add("ACCEPTBallot/empty-operations", true, w.ACCEPTBallot(1))
	add("ACCEPTBallot/not-processed", true, w.ACCEPTBallot(2))
	add("ACCEPTBallot/expels", true, w.ACCEPTBallot(3))

	// proposals
	add("ProposalFact", false, w.ProposalFact())
	add("ProposalSignFact", true, w.ProposalSignFact())

	// operations
	_, exps, _ := w.Expels(w.HeightPos(), 1)
	add("SuffrageExpelOperation", true, exps[0])
	add("SuffrageCandidate", true, w.SuffrageCandidate())
	add("SuffrageJoin", true, w.SuffrageJoin())
	add("SuffrageDisjoin", true, w.SuffrageDisjoin())
	add("SuffrageGenesisJoin", true, w.SuffrageGenesisJoin())
	add("NetworkPolicyOp", true, w.NetworkPolicyOp())
	add("GenesisNetworkPolicyOp", true, w.GenesisNetworkPolicyOp())
	add("NetworkPolicyOp/same-key-signs", true, w.NetworkPolicyOpSameKey())
	add("SuffrageExpelOperation/same-key-signs", true, w.SuffrageExpelOperationSameKey())
	add("SuffrageJoin/same-key-signs", true, w.SuffrageJoinSameKey())

	// operation facts on their own
	for _, o := range []interface{ Fact() base.Fact }{exps[0], w.SuffrageCandidate(), w.SuffrageJoin(), w.SuffrageDisjoin(), w.SuffrageGenesisJoin(), w.NetworkPolicyOp(), w.GenesisNetworkPolicyOp()} {
		os = append(os, Obj{Kind: "OperationFact", V: o.Fact(), NID: true}) // (the genesis join fact checks its token against the network id)
	}

	// states / manifests / block maps / proofs
	add("BaseState/suffrage", false, w.State(0))
	add("BaseState/candidates", false, w.State(1))
	add("BaseState/policy", false, w.State(2))
	add("Manifest", false, w.Manifest(w.Height(), w.optHash()))
	add("BlockMap", true, w.BlockMap(w.Manifest(w.Height(), w.optHash())))
	add("BlockMap/all-item-types", true, w.BlockMapWith(w.Manifest(w.Height(), w.optHash()), true))
	add("SuffrageProof", true, w.SuffrageProof())

	os = append(os, w.others()...)
	os = append(os, w.boundary()...)
	return os
}

var _ = base.NilHeight
