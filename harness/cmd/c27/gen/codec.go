package gen

import (
	"bytes"
	"encoding/json"
	"fmt"
	"reflect"
	"sort"
	"time"

	"github.com/spikeekips/mitum/base"
	"github.com/spikeekips/mitum/launch"
	"github.com/spikeekips/mitum/util"
	"github.com/spikeekips/mitum/util/fixedtree"
	"github.com/spikeekips/mitum/util/hint"
)

// HintOf returns the hint string found at the top level of an encoded JSON object ("" when b is not an
// object carrying "_hint").
func HintOf(b []byte) string {
	if len(b) < 1 || b[0] != '{' {
		return ""
	}
	var head struct {
		H string `json:"_hint"`
	}
	if json.Unmarshal(b, &head) != nil {
		return ""
	}
	return head.H
}

// Decode is the inverse the node itself would use for an object of this kind: hinted JSON objects go
// through Encoder.Decode (hint lookup); hinted *strings* (keys, addresses) through the base decoders;
// the two fixedtree node types (no "_hint" of their own) through DecodeWithHint like the block readers do.
func (w *World) Decode(orig any, b []byte) (any, error) {
	if HintOf(b) != "" {
		return w.Enc.Decode(b)
	}
	switch orig.(type) {
	case base.Privatekey:
		var s string
		if err := json.Unmarshal(b, &s); err != nil {
			return nil, err
		}
		return base.DecodePrivatekeyFromString(s, w.Enc)
	case base.Publickey:
		var s string
		if err := json.Unmarshal(b, &s); err != nil {
			return nil, err
		}
		return base.DecodePublickeyFromString(s, w.Enc)
	case base.Address:
		var s string
		if err := json.Unmarshal(b, &s); err != nil {
			return nil, err
		}
		return base.DecodeAddress(s, w.Enc)
	case base.OperationFixedtreeNode:
		return w.Enc.DecodeWithHint(b, base.OperationFixedtreeHint)
	case fixedtree.BaseNode:
		return w.Enc.DecodeWithHint(b, base.StateFixedtreeHint)
	case hint.Hinter:
		// a registered type whose MarshalJSON does not emit "_hint": decode with its own hint
		return w.Enc.DecodeWithHint(b, orig.(hint.Hinter).Hint())
	}
	return nil, fmt.Errorf("no decoder for %T (no _hint in %.60s)", orig, string(b))
}

// Digest returns the object's identity as the repository defines it: Hash() when it is a util.Hasher,
// HashBytes() when it is a util.HashByter, Bytes() for keys/addresses; tag says which were present.
func Digest(v any) (tag string, d []byte) {
	var buf bytes.Buffer
	if h, ok := v.(util.Hasher); ok {
		tag += "H"
		if hh := h.Hash(); hh != nil {
			buf.Write(hh.Bytes())
		}
		buf.WriteByte('|')
	}
	if h, ok := v.(util.HashByter); ok {
		tag += "B"
		buf.Write(h.HashBytes())
		buf.WriteByte('|')
	}
	if tag == "" {
		if h, ok := v.(util.Byter); ok {
			tag += "b"
			buf.Write(h.Bytes())
		}
	}
	if h, ok := v.(hint.Hinter); ok {
		tag += "h"
		buf.WriteString(h.Hint().String())
	}
	return tag, buf.Bytes()
}

// Canonical re-renders JSON with sorted object keys (to tell a map-iteration-order difference from a
// real difference).
func Canonical(b []byte) []byte {
	var v any
	dec := json.NewDecoder(bytes.NewReader(b))
	dec.UseNumber()
	if err := dec.Decode(&v); err != nil {
		return b
	}
	var buf bytes.Buffer
	canon(&buf, v)
	return buf.Bytes()
}

func canon(buf *bytes.Buffer, v any) {
	switch x := v.(type) {
	case map[string]any:
		ks := make([]string, 0, len(x))
		for k := range x {
			ks = append(ks, k)
		}
		sort.Strings(ks)
		buf.WriteByte('{')
		for i, k := range ks {
			if i > 0 {
				buf.WriteByte(',')
			}
			kb, _ := json.Marshal(k)
			buf.Write(kb)
			buf.WriteByte(':')
			canon(buf, x[k])
		}
		buf.WriteByte('}')
	case []any:
		buf.WriteByte('[')
		for i := range x {
			if i > 0 {
				buf.WriteByte(',')
			}
			canon(buf, x[i])
		}
		buf.WriteByte(']')
	default:
		b, _ := json.Marshal(x)
		buf.Write(b)
	}
}

// IsValid calls the object's own IsValid with the given network id. ok=false when v has none.
func IsValid(v any, nid []byte) (err error, ok bool) {
	defer func() {
		if r := recover(); r != nil {
			err, ok = fmt.Errorf("panic in IsValid: %v", r), true
		}
	}()
	switch x := v.(type) {
	case util.IsValider:
		return x.IsValid(nid), true
	case interface{ IsValid(base.NetworkID) error }:
		return x.IsValid(base.NetworkID(nid)), true
	}
	return nil, false
}

// AllHints lists every hint string registered by launch.LoadHinters.
func AllHints() []string {
	var hs []string
	for _, d := range launch.Hinters {
		hs = append(hs, d.Hint.String())
	}
	for _, d := range launch.SupportedProposalOperationFactHinters {
		hs = append(hs, d.Hint.String())
	}
	return hs
}

// BumpHint returns "type-vX.Y.Z+2" for a hint string "type-vX.Y.Z" (a compatible, different version).
func BumpHint(s string) (string, bool) {
	ht, err := hint.ParseHint(s)
	if err != nil {
		return "", false
	}
	v := ht.Version()
	n, err := hint.ParseHint(fmt.Sprintf("%s-v%d.%d.%d", ht.Type(), v.Major(), v.Minor(), v.Patch()+2))
	if err != nil {
		return "", false
	}
	return n.String(), true
}

// BumpHints rewrites the "_hint" member of the top-level object (deep=false) or of every object (deep=true).
func BumpHints(v any, deep bool, top bool) any {
	switch x := v.(type) {
	case map[string]any:
		m := make(map[string]any, len(x))
		for k, e := range x {
			if k == "_hint" && (top || deep) {
				if s, ok := e.(string); ok {
					if b, ok := BumpHint(s); ok {
						m[k] = b
						continue
					}
				}
			}
			if deep {
				m[k] = BumpHints(e, deep, false)
			} else {
				m[k] = e
			}
		}
		return m
	case []any:
		if !deep {
			return x
		}
		l := make([]any, len(x))
		for i := range x {
			l[i] = BumpHints(x[i], deep, false)
		}
		return l
	}
	return v
}

// CanonicalContent: canonical JSON with every RFC3339 time string cut to the millisecond -- the precision the
// repository itself gives to times (util.NormalizeTime in localtime.Time.Bytes, which is what is hashed and
// signed).  Two documents equal under CanonicalContent carry the same content.
func CanonicalContent(b []byte) []byte {
	v, err := ParseJSON(b)
	if err != nil {
		return b
	}
	var norm func(v any) any
	norm = func(v any) any {
		switch x := v.(type) {
		case map[string]any:
			m := make(map[string]any, len(x))
			for k, e := range x {
				m[k] = norm(e)
			}
			return m
		case []any:
			l := make([]any, len(x))
			for i := range x {
				l[i] = norm(x[i])
			}
			return l
		case string:
			if len(x) >= 20 {
				if t, err := time.Parse(time.RFC3339Nano, x); err == nil {
					return t.UTC().Truncate(time.Millisecond).Format(time.RFC3339Nano)
				}
			}
		}
		return v
	}
	return RenderJSON(norm(v))
}

// RehashNodeOperation decodes a node operation, recomputes its hash over its present signs (what anybody
// can do: the operation hash is not secret) and returns the re-encoded operation.
func (w *World) RehashNodeOperation(unit []byte) ([]byte, bool) {
	v, err := w.Enc.Decode(unit)
	if err != nil || v == nil {
		return nil, false
	}
	p := reflect.New(reflect.TypeOf(v))
	p.Elem().Set(reflect.ValueOf(v))
	op, ok := p.Interface().(interface {
		SetNodeSigns([]base.NodeSign) error
		NodeSigns() []base.NodeSign
	})
	if !ok {
		return nil, false
	}
	var signs []base.NodeSign
	func() {
		defer func() { _ = recover() }()
		signs = op.NodeSigns()
	}()
	if signs == nil || op.SetNodeSigns(signs) != nil {
		return nil, false
	}
	b, err := w.Enc.Marshal(p.Elem().Interface())
	if err != nil {
		return nil, false
	}
	return b, true
}
