package gen

import (
	"github.com/spikeekips/mitum/base"
	"github.com/spikeekips/mitum/isaac"
	isaacnetwork "github.com/spikeekips/mitum/isaac/network"
	isaacoperation "github.com/spikeekips/mitum/isaac/operation"
	isaacstates "github.com/spikeekips/mitum/isaac/states"
	"github.com/spikeekips/mitum/util"
)

// boundary: instances at the boundary values the validity rules allow -- genesis height 0 and round 0 in every
// type carrying a height or a point, nil optional hashes, empty lists, empty optional strings/bytes.
func (w *World) boundary() []Obj {
	var os []Obj
	add := func(kind string, signed bool, v any) {
		os = append(os, Obj{Kind: "boundary/" + kind, V: v, Signed: signed, NID: signed})
	}
	g := base.GenesisPoint // height 0, round 0
	ifact := isaac.NewINITBallotFact(g, w.Hash(), w.Hash(), nil)
	afact := isaac.NewACCEPTBallotFact(g, ifact.Proposal(), w.Hash(), nil)
	add("INITBallotFact/genesis", false, ifact)
	add("ACCEPTBallotFact/genesis", false, afact)
	add("EmptyProposalINITBallotFact/genesis", false, isaac.NewEmptyProposalINITBallotFact(g, w.Hash(), w.Hash()))
	add("EmptyOperationsACCEPTBallotFact/genesis", false, isaac.NewEmptyOperationsACCEPTBallotFact(g, w.Hash()))
	add("INITBallotSignFact/genesis", true, w.signINIT(ifact))
	ivp := w.INITVoteproof(ifact)
	add("INITVoteproof/genesis", true, ivp)
	add("ACCEPTVoteproof/genesis", true, w.ACCEPTVoteproof(afact))
	add("INITVoteproof/draw/genesis", true, w.INITVoteproofDraw(g))
	add("ACCEPTBallot/genesis", true, isaac.NewACCEPTBallot(ivp, w.signACCEPT(afact), nil))
	{
		// INIT ballot of height 1 round 0 on the genesis ACCEPT voteproof
		next := isaac.NewINITBallotFact(base.NewPoint(base.GenesisHeight+1, 0), afact.NewBlock(), w.Hash(), nil)
		add("INITBallot/on-genesis-accept", true, isaac.NewINITBallot(w.ACCEPTVoteproof(afact), w.signINIT(next), nil))
	}
	{
		pf := isaac.NewProposalFact(g, w.Locals[0].Address(), nil, [][2]util.Hash{}) // no previous block, no operations (non-nil: a nil slice is null -> [] after decoding, see notes)
		add("ProposalFact/genesis-empty", false, pf)
		sf := isaac.NewProposalSignFact(pf)
		must(sf.Sign(w.Locals[0].Privatekey(), w.NetworkID))
		add("ProposalSignFact/genesis-empty", true, sf)
	}
	// manifests: genesis height, optional hashes nil
	m0 := isaac.NewManifest(base.GenesisHeight, nil, w.Hash(), nil, nil, nil, w.Time())
	add("Manifest/genesis-nils", false, m0)
	add("Manifest/genesis", false, isaac.NewManifest(base.GenesisHeight, w.Hash(), w.Hash(), w.Hash(), w.Hash(), w.Hash(), w.Time()))
	add("BlockMap/genesis", true, w.BlockMap(m0))
	// states at height 0, no previous, single operation / empty (non-nil) operations
	add("BaseState/genesis", false, base.NewBaseState(base.GenesisHeight, isaac.SuffrageStateKey,
		isaac.NewSuffrageNodesStateValue(base.GenesisHeight, []base.SuffrageNodeStateValue{
			isaac.NewSuffrageNodeStateValue(w.Nodes()[0], base.GenesisHeight)}), nil, []util.Hash{w.Hash()}))
	add("BaseState/genesis-no-ops", false, base.NewBaseState(base.GenesisHeight, isaac.NetworkPolicyStateKey,
		isaac.NewNetworkPolicyStateValue(w.Policy()), nil, []util.Hash{}))
	{
		l := w.NewLocal()
		add("SuffrageCandidateStateValue/genesis", false, isaac.NewSuffrageCandidateStateValue(isaac.NewNode(l.Publickey(), l.Address()), base.GenesisHeight, base.GenesisHeight+1))
		add("SuffrageNodeStateValue/genesis", false, isaac.NewSuffrageNodeStateValue(isaac.NewNode(l.Publickey(), l.Address()), base.GenesisHeight))
		add("SuffrageJoin/genesis-start", true, func() isaacoperation.SuffrageJoin {
			op := isaacoperation.NewSuffrageJoin(isaacoperation.NewSuffrageJoinFact(w.Token(), l.Address(), base.GenesisHeight))
			must(op.NodeSign(l.Privatekey(), w.NetworkID, l.Address()))
			return op
		}())
	}
	// headers and messages at height 0 / zero values
	add("SuffrageProofRequestHeader/0", false, isaacnetwork.NewSuffrageProofRequestHeader(base.GenesisHeight))
	add("BlockMapRequestHeader/0", false, isaacnetwork.NewBlockMapRequestHeader(base.GenesisHeight))
	add("BlockItemRequestHeader/0", false, isaacnetwork.NewBlockItemRequestHeader(base.GenesisHeight, base.BlockItemMap))
	add("BlockItemFilesRequestHeader/0", false, isaacnetwork.NewBlockItemFilesRequestHeader(base.GenesisHeight, w.Priv().Publickey()))
	add("RequestProposalRequestHeader/genesis", false, isaacnetwork.NewRequestProposalRequestHeader(g, w.Addr(), w.Hash()))
	add("StreamOperationsHeader/empty", false, isaacnetwork.NewStreamOperationsHeader(nil))
	add("SetAllowConsensusHeader/false", false, isaacnetwork.NewSetAllowConsensusHeader(false))
	add("StateRequestHeader/nil-hash", false, isaacnetwork.NewStateRequestHeader(w.Str("k"), nil))
	add("HandoverMessageChallengeStagePoint/genesis", false, isaacstates.VerifNewHandoverMessageChallengeStagePoint(w.Str("id-"), base.NewStagePoint(g, base.StageINIT)))
	add("HandoverMessageChallengeResponse/genesis", false, isaacstates.VerifNewHandoverMessageChallengeResponse(w.Str("id-"), base.NewStagePoint(g, base.StageACCEPT), false, nil))
	add("MissingBallotsRequestMessage/genesis", false, isaacstates.NewMissingBallotsRequestsMessage(base.NewStagePoint(g, base.StageINIT), []base.Address{w.Addr()}, w.ConnInfo()))
	return os
}
