// Package gen builds random *valid* instances of every hinted type registered in launch/hinters.go,
// through the repository's exported constructors (the same ones the in-tree tests use), with every
// random choice drawn from one vh.Rand.  Shared by the C27 and C28 harnesses.
package gen

import (
	"fmt"
	"time"

	"github.com/spikeekips/mitum/base"
	"github.com/spikeekips/mitum/isaac"
	isaacblock "github.com/spikeekips/mitum/isaac/block"
	isaacoperation "github.com/spikeekips/mitum/isaac/operation"
	"github.com/spikeekips/mitum/launch"
	"github.com/spikeekips/mitum/util"
	"github.com/spikeekips/mitum/util/encoder"
	jsonenc "github.com/spikeekips/mitum/util/encoder/json"
	"github.com/spikeekips/mitum/util/fixedtree"
	"github.com/spikeekips/mitum/util/hint"
	"github.com/spikeekips/mitum/util/valuehash"
	"verifharness/vh"
)

// Obj is one generated object.
type Obj struct {
	Kind   string // generator name, e.g. "INITBallot/accept-vp"
	V      any
	Signed bool // in the scope of C28 (contains signed content checked by IsValid(networkID))
	NID    bool // IsValid is to be called with the network id (signed objects, Params, NodeInfo)
}

type World struct {
	R         *vh.Rand
	NetworkID base.NetworkID
	OtherID   base.NetworkID
	Locals    []isaac.LocalNode
	Enc       *jsonenc.Encoder
	Encs      *encoder.Encoders
	keyn      int
}

func NewEncoder() (*jsonenc.Encoder, *encoder.Encoders) {
	enc := jsonenc.NewEncoder()
	encs := encoder.NewEncoders(enc, enc)
	if err := launch.LoadHinters(encs); err != nil {
		panic(err)
	}
	return enc, encs
}

func NewWorld(r *vh.Rand) *World {
	w := &World{R: r}
	w.Enc, w.Encs = NewEncoder()
	w.NetworkID = base.NetworkID(fmt.Sprintf("verif-network-%x", r.Bytes(6)))
	w.OtherID = base.NetworkID(fmt.Sprintf("verif-network-%x", r.Bytes(6)))
	n := 4 + r.Intn(3)
	for i := 0; i < n; i++ {
		w.Locals = append(w.Locals, w.NewLocal())
	}
	return w
}

func (w *World) Priv() base.Privatekey {
	w.keyn++
	k, err := base.NewMPrivatekeyFromSeed(fmt.Sprintf("verif-seed-%d-%x-padding-padding-padding-padding", w.keyn, w.R.Bytes(8)))
	if err != nil {
		panic(err)
	}
	return k
}

func (w *World) Addr() base.Address {
	return base.NewStringAddress(fmt.Sprintf("node%x", w.R.Bytes(3+w.R.Intn(6))))
}

func (w *World) NewLocal() isaac.LocalNode { return isaac.NewLocalNode(w.Priv(), w.Addr()) }

func (w *World) Hash() util.Hash { return valuehash.NewSHA256(w.R.Bytes(16)) }

func (w *World) Hashes(lo, hi int) []util.Hash {
	n := w.R.Range(lo, hi)
	hs := make([]util.Hash, n)
	for i := range hs {
		hs[i] = w.Hash()
	}
	return hs
}

func (w *World) Str(prefix string) string { return fmt.Sprintf("%s%x", prefix, w.R.Bytes(1+w.R.Intn(8))) }

// Height: the genesis height 0 (the boundary every height codec must keep apart from "missing") one time in five.
func (w *World) Height() base.Height {
	if w.R.Chance(1, 5) {
		return base.GenesisHeight
	}
	return base.Height(w.R.Range(1, 5000))
}

// HeightPos: a height >= 2 (objects carrying expels need start > genesis and start <= height).
func (w *World) HeightPos() base.Height { return base.Height(w.R.Range(2, 5000)) }

func (w *World) Point() base.Point {
	h := w.Height()
	if h == base.GenesisHeight {
		return base.GenesisPoint // Point.IsValid: the genesis height has round 0 only
	}
	return base.NewPoint(h, base.Round(w.R.Intn(4)))
}

func (w *World) PointPos() base.Point {
	return base.NewPoint(w.HeightPos(), base.Round(w.R.Intn(4)))
}

func (w *World) Time() time.Time {
	// nanosecond component exercised: any loss of precision in the codec changes hashes/signatures
	return time.Unix(1600000000+int64(w.R.Intn(200000000)), int64(w.R.Intn(1000000000))).UTC()
}

func must(err error) {
	if err != nil {
		panic(err)
	}
}

// ------------------------------------------------------------------ expels

// Expels returns expel operations for the last k nodes, each signed by the first len-k nodes.
func (w *World) Expels(height base.Height, k int) ([]util.Hash, []base.SuffrageExpelOperation, []isaac.LocalNode) {
	n := len(w.Locals)
	voters := w.Locals[:n-k]
	ops := make([]base.SuffrageExpelOperation, k)
	for i := 0; i < k; i++ {
		target := w.Locals[n-k+i]
		start := height - base.Height(w.R.Intn(2))
		if start <= base.GenesisHeight {
			start = base.GenesisHeight + 1
		}
		fact := isaac.NewSuffrageExpelFact(target.Address(), start, start+base.Height(w.R.Range(0, 10)), w.Str("reason-"))
		op := isaac.NewSuffrageExpelOperation(fact)
		for _, v := range voters {
			must(op.NodeSign(v.Privatekey(), w.NetworkID, v.Address()))
		}
		ops[i] = op
	}
	// same order the constructors impose (sorted by fact hash string)
	for i := 0; i < len(ops); i++ {
		for j := i + 1; j < len(ops); j++ {
			if ops[j].Fact().Hash().String() < ops[i].Fact().Hash().String() {
				ops[i], ops[j] = ops[j], ops[i]
			}
		}
	}
	facts := make([]util.Hash, k)
	for i := range ops {
		facts[i] = ops[i].Fact().Hash()
	}
	return facts, ops, voters
}

// ------------------------------------------------------------------ ballot facts / sign facts / voteproofs

func (w *World) initSignFacts(fact base.INITBallotFact, voters []isaac.LocalNode) []base.BallotSignFact {
	sfs := make([]base.BallotSignFact, len(voters))
	for i, n := range voters {
		sf := isaac.NewINITBallotSignFact(fact)
		must(sf.NodeSign(n.Privatekey(), w.NetworkID, n.Address()))
		sfs[i] = sf
	}
	return sfs
}

func (w *World) acceptSignFacts(fact base.ACCEPTBallotFact, voters []isaac.LocalNode) []base.BallotSignFact {
	sfs := make([]base.BallotSignFact, len(voters))
	for i, n := range voters {
		sf := isaac.NewACCEPTBallotSignFact(fact)
		must(sf.NodeSign(n.Privatekey(), w.NetworkID, n.Address()))
		sfs[i] = sf
	}
	return sfs
}

func (w *World) threshold() base.Threshold {
	return base.Threshold(float64(w.R.Range(670, 1000)) / 10)
}

// mixedINIT / mixedACCEPT: sign facts of the voters for `fact`, one of them (position pos; -1: random position
// incl. the first, or none one time in three) voting for another fact of the same point.  The majority keeps
// len(voters)-1 votes: with >= 4 voters that is >= 67%.
func (w *World) minorityPos(n, pos int) int {
	switch {
	case n < 3:
		return -1
	case pos >= 0:
		return pos % n
	case w.R.Chance(1, 3):
		return -1
	default:
		return w.R.Intn(n)
	}
}

func (w *World) mixedINIT(fact isaac.INITBallotFact, voters []isaac.LocalNode, pos int) []base.BallotSignFact {
	sfs := w.initSignFacts(fact, voters)
	if j := w.minorityPos(len(voters), pos); j >= 0 {
		other := isaac.NewINITBallotFact(fact.Point().Point, w.Hash(), w.Hash(), fact.ExpelFacts())
		sfs[j] = w.initSignFacts(other, voters[j:j+1])[0]
	}
	return sfs
}

func (w *World) mixedACCEPT(fact isaac.ACCEPTBallotFact, voters []isaac.LocalNode, pos int) []base.BallotSignFact {
	sfs := w.acceptSignFacts(fact, voters)
	if j := w.minorityPos(len(voters), pos); j >= 0 {
		other := isaac.NewACCEPTBallotFact(fact.Point().Point, w.Hash(), w.Hash(), fact.ExpelFacts())
		sfs[j] = w.acceptSignFacts(other, voters[j:j+1])[0]
	}
	return sfs
}

func (w *World) mixedThreshold(n int) base.Threshold {
	if n >= 4 {
		return base.Threshold(67) // n-1 of n votes reach it for every n >= 4
	}
	return base.Threshold(51)
}

func (w *World) INITVoteproof(fact isaac.INITBallotFact) isaac.INITVoteproof { return w.INITVoteproofAt(fact, -1) }

// INITVoteproofAt: majority voteproof with the minority vote at position pos (-1 random / none).
func (w *World) INITVoteproofAt(fact isaac.INITBallotFact, pos int) isaac.INITVoteproof {
	vp := isaac.NewINITVoteproof(fact.Point().Point)
	vp.SetMajority(fact).SetSignFacts(w.mixedINIT(fact, w.Locals, pos)).SetThreshold(w.mixedThreshold(len(w.Locals))).Finish()
	return vp
}

// INITVoteproofDraw: two different facts, no majority.
func (w *World) INITVoteproofDraw(point base.Point) isaac.INITVoteproof {
	h := len(w.Locals) / 2
	f1 := isaac.NewINITBallotFact(point, w.Hash(), w.Hash(), nil)
	f2 := isaac.NewINITBallotFact(point, w.Hash(), w.Hash(), nil)
	sfs := append(w.initSignFacts(f1, w.Locals[:h]), w.initSignFacts(f2, w.Locals[h:])...)
	if w.R.Bool() { // a third fact
		f3 := isaac.NewINITBallotFact(point, w.Hash(), w.Hash(), nil)
		j := w.R.Intn(len(sfs))
		sfs[j] = w.initSignFacts(f3, w.Locals[j:j+1])[0]
	}
	vp := isaac.NewINITVoteproof(point)
	vp.SetSignFacts(sfs).SetThreshold(w.threshold()).Finish()
	return vp
}

func (w *World) ACCEPTVoteproof(fact isaac.ACCEPTBallotFact) isaac.ACCEPTVoteproof {
	return w.ACCEPTVoteproofAt(fact, -1)
}

func (w *World) ACCEPTVoteproofAt(fact isaac.ACCEPTBallotFact, pos int) isaac.ACCEPTVoteproof {
	vp := isaac.NewACCEPTVoteproof(fact.Point().Point)
	vp.SetMajority(fact).SetSignFacts(w.mixedACCEPT(fact, w.Locals, pos)).SetThreshold(w.mixedThreshold(len(w.Locals))).Finish()
	return vp
}

func (w *World) ACCEPTVoteproofDraw(point base.Point) isaac.ACCEPTVoteproof {
	h := len(w.Locals) / 2
	f1 := isaac.NewACCEPTBallotFact(point, w.Hash(), w.Hash(), nil)
	f2 := isaac.NewACCEPTBallotFact(point, w.Hash(), w.Hash(), nil)
	sfs := append(w.acceptSignFacts(f1, w.Locals[:h]), w.acceptSignFacts(f2, w.Locals[h:])...)
	vp := isaac.NewACCEPTVoteproof(point)
	vp.SetSignFacts(sfs).SetThreshold(w.threshold()).Finish()
	return vp
}

func (w *World) INITExpelVoteproof(point base.Point, k int) (isaac.INITExpelVoteproof, isaac.INITBallotFact, []base.SuffrageExpelOperation) {
	facts, ops, voters := w.Expels(point.Height(), k)
	fact := isaac.NewINITBallotFact(point, w.Hash(), w.Hash(), facts)
	vp := isaac.NewINITExpelVoteproof(point)
	vp.SetMajority(fact).SetSignFacts(w.mixedINIT(fact, voters, -1)).SetThreshold(w.threshold())
	vp.SetExpels(ops)
	vp.Finish()
	return vp, fact, ops
}

func (w *World) ACCEPTExpelVoteproof(point base.Point, k int) isaac.ACCEPTExpelVoteproof {
	facts, ops, voters := w.Expels(point.Height(), k)
	fact := isaac.NewACCEPTBallotFact(point, w.Hash(), w.Hash(), facts)
	vp := isaac.NewACCEPTExpelVoteproof(point)
	vp.SetMajority(fact).SetSignFacts(w.mixedACCEPT(fact, voters, -1)).SetThreshold(w.threshold())
	vp.SetExpels(ops)
	vp.Finish()
	return vp
}

func (w *World) INITStuckVoteproof(point base.Point, k int) isaac.INITStuckVoteproof {
	facts, ops, voters := w.Expels(point.Height(), k)
	fact := isaac.NewINITBallotFact(point, w.Hash(), w.Hash(), facts)
	vp := isaac.NewINITStuckVoteproof(point)
	vp.SetSignFacts(w.mixedINIT(fact, voters, -1)).SetMajority(fact)
	vp.SetExpels(ops)
	vp.Finish()
	return vp
}

func (w *World) ACCEPTStuckVoteproof(point base.Point, k int) isaac.ACCEPTStuckVoteproof {
	facts, ops, voters := w.Expels(point.Height(), k)
	fact := isaac.NewACCEPTBallotFact(point, w.Hash(), w.Hash(), facts)
	vp := isaac.NewACCEPTStuckVoteproof(point)
	vp.SetSignFacts(w.mixedACCEPT(fact, voters, -1)).SetMajority(fact)
	vp.SetExpels(ops)
	vp.Finish()
	return vp
}

// ------------------------------------------------------------------ ballots

func (w *World) signINIT(fact base.INITBallotFact) isaac.INITBallotSignFact {
	n := w.Locals[w.R.Intn(len(w.Locals))]
	sf := isaac.NewINITBallotSignFact(fact)
	must(sf.NodeSign(n.Privatekey(), w.NetworkID, n.Address()))
	return sf
}

func (w *World) signACCEPT(fact base.ACCEPTBallotFact) isaac.ACCEPTBallotSignFact {
	n := w.Locals[w.R.Intn(len(w.Locals))]
	sf := isaac.NewACCEPTBallotSignFact(fact)
	must(sf.NodeSign(n.Privatekey(), w.NetworkID, n.Address()))
	return sf
}

// INITBallotOnAccept: INIT ballot of the next height carrying the majority ACCEPT voteproof of the previous one.
func (w *World) INITBallotOnAccept(empty bool, withExpels bool) isaac.INITBallot {
	prev := w.Point()
	newblock := w.Hash()
	avp := w.ACCEPTVoteproof(isaac.NewACCEPTBallotFact(prev, w.Hash(), newblock, nil))
	point := base.NewPoint(prev.Height()+1, 0)
	var fact base.INITBallotFact
	var expels []base.SuffrageExpelOperation
	switch {
	case empty:
		fact = isaac.NewEmptyProposalINITBallotFact(point, newblock, w.Hash())
	case withExpels:
		var facts []util.Hash
		facts, expels, _ = w.Expels(point.Height(), 1+w.R.Intn(2))
		fact = isaac.NewINITBallotFact(point, newblock, w.Hash(), facts)
	default:
		fact = isaac.NewINITBallotFact(point, newblock, w.Hash(), nil)
	}
	return isaac.NewINITBallot(avp, w.signINIT(fact), expels)
}

// INITBallotNextRound: INIT ballot of round r+1 carrying a draw INIT (or draw ACCEPT) voteproof of round r.
func (w *World) INITBallotNextRound(acceptDraw bool) isaac.INITBallot {
	prev := w.PointPos()
	var vp base.Voteproof
	if acceptDraw {
		vp = w.ACCEPTVoteproofDraw(prev)
	} else {
		vp = w.INITVoteproofDraw(prev)
	}
	fact := isaac.NewINITBallotFact(prev.NextRound(), w.Hash(), w.Hash(), nil)
	return isaac.NewINITBallot(vp, w.signINIT(fact), nil)
}

// SuffrageConfirmBallot: INIT ballot with a suffrage-confirm fact over a majority INIT expel voteproof.
func (w *World) SuffrageConfirmBallot() isaac.INITBallot {
	point := w.PointPos()
	vp, ifact, _ := w.INITExpelVoteproof(point, 1+w.R.Intn(2))
	fact := isaac.NewSuffrageConfirmBallotFact(point, ifact.PreviousBlock(), ifact.Proposal(), ifact.ExpelFacts())
	n := w.Locals[0]
	sf := isaac.NewINITBallotSignFact(fact)
	must(sf.NodeSign(n.Privatekey(), w.NetworkID, n.Address()))
	return isaac.NewINITBallot(vp, sf, nil)
}

// ACCEPTBallot kinds: 0 plain, 1 empty-operations, 2 not-processed, 3 with expels (over an INIT expel voteproof)
func (w *World) ACCEPTBallot(kind int) isaac.ACCEPTBallot {
	point := w.Point()
	if kind == 3 {
		point = w.PointPos()
	}
	switch kind {
	case 3:
		ivp, ifact, ops := w.INITExpelVoteproof(point, 1+w.R.Intn(2))
		fact := isaac.NewACCEPTBallotFact(point, ifact.Proposal(), w.Hash(), ifact.ExpelFacts())
		n := w.Locals[0]
		sf := isaac.NewACCEPTBallotSignFact(fact)
		must(sf.NodeSign(n.Privatekey(), w.NetworkID, n.Address()))
		return isaac.NewACCEPTBallot(ivp, sf, ops)
	default:
		ifact := isaac.NewINITBallotFact(point, w.Hash(), w.Hash(), nil)
		ivp := w.INITVoteproof(ifact)
		var fact base.ACCEPTBallotFact
		switch kind {
		case 1:
			fact = isaac.NewEmptyOperationsACCEPTBallotFact(point, ifact.Proposal())
		case 2:
			fact = isaac.NewNotProcessedACCEPTBallotFact(point, ifact.Proposal())
		default:
			fact = isaac.NewACCEPTBallotFact(point, ifact.Proposal(), w.Hash(), nil)
		}
		return isaac.NewACCEPTBallot(ivp, w.signACCEPT(fact), nil)
	}
}

// ------------------------------------------------------------------ proposals

func (w *World) ProposalFact() isaac.ProposalFact {
	n := w.R.Intn(4)
	ops := make([][2]util.Hash, n)
	for i := range ops {
		ops[i] = [2]util.Hash{w.Hash(), w.Hash()}
	}
	point := w.Point()
	var prev util.Hash
	if point.Height() != base.GenesisHeight { // IsValidProposalFact: the genesis proposal has no previous block
		prev = w.Hash()
	}
	return isaac.NewProposalFact(point, w.Locals[0].Address(), prev, ops)
}

func (w *World) ProposalSignFact() isaac.ProposalSignFact {
	sf := isaac.NewProposalSignFact(w.ProposalFact())
	must(sf.Sign(w.Locals[0].Privatekey(), w.NetworkID))
	return sf
}

// ------------------------------------------------------------------ operations

func (w *World) Token() base.Token { return base.Token(w.R.Bytes(1 + w.R.Intn(20))) }

func (w *World) SuffrageCandidate() isaacoperation.SuffrageCandidate {
	n := w.NewLocal()
	fact := isaacoperation.NewSuffrageCandidateFact(w.Token(), n.Address(), n.Publickey())
	op := isaacoperation.NewSuffrageCandidate(fact)
	must(op.NodeSign(n.Privatekey(), w.NetworkID, n.Address()))
	if w.R.Bool() {
		o := w.Locals[0]
		must(op.NodeSign(o.Privatekey(), w.NetworkID, o.Address()))
	}
	return op
}

func (w *World) SuffrageJoin() isaacoperation.SuffrageJoin {
	n := w.NewLocal()
	fact := isaacoperation.NewSuffrageJoinFact(w.Token(), n.Address(), w.Height())
	op := isaacoperation.NewSuffrageJoin(fact)
	must(op.NodeSign(n.Privatekey(), w.NetworkID, n.Address()))
	for _, o := range w.Locals[:w.R.Intn(3)] {
		must(op.NodeSign(o.Privatekey(), w.NetworkID, o.Address()))
	}
	return op
}

func (w *World) SuffrageDisjoin() isaacoperation.SuffrageDisjoin {
	n := w.Locals[w.R.Intn(len(w.Locals))]
	fact := isaacoperation.NewSuffrageDisjoinFact(w.Token(), n.Address(), w.Height())
	op := isaacoperation.NewSuffrageDisjoin(fact)
	must(op.NodeSign(n.Privatekey(), w.NetworkID, n.Address()))
	return op
}

func (w *World) Nodes() []base.Node {
	ns := make([]base.Node, len(w.Locals))
	for i := range ns {
		ns[i] = isaac.NewNode(w.Locals[i].Publickey(), w.Locals[i].Address())
	}
	return ns
}

func (w *World) SuffrageGenesisJoin() isaacoperation.SuffrageGenesisJoin {
	fact := isaacoperation.NewSuffrageGenesisJoinFact(w.Nodes()[:1+w.R.Intn(len(w.Locals))], w.NetworkID)
	op := isaacoperation.NewSuffrageGenesisJoin(fact)
	must(op.Sign(w.Locals[0].Privatekey(), w.NetworkID))
	return op
}

func (w *World) Policy() isaac.NetworkPolicy {
	p := isaac.DefaultNetworkPolicy()
	p.SetMaxOperationsInProposal(uint64(w.R.Range(1, 1000)))
	p.SetSuffrageCandidateLifespan(base.Height(w.R.Range(1, 1<<20)))
	p.SetSuffrageCandidateLimiterRule(isaac.NewFixedSuffrageCandidateLimiterRule(uint64(w.R.Range(1, 9))))
	p.SetMaxSuffrageSize(uint64(w.R.Range(1, 99)))
	p.SetSuffrageExpelLifespan(base.Height(w.R.Range(1, 999)))
	p.SetEmptyProposalNoBlock(w.R.Bool())
	return p
}

func (w *World) NetworkPolicyOp() isaacoperation.NetworkPolicy {
	fact := isaacoperation.NewNetworkPolicyFact(w.Token(), w.Policy())
	op := isaacoperation.NewNetworkPolicy(fact)
	for _, o := range w.Locals[:1+w.R.Intn(3)] {
		must(op.NodeSign(o.Privatekey(), w.NetworkID, o.Address()))
	}
	return op
}

// Same-key multi-sign objects: node operations carrying two (three) node signs made with ONE key for different
// node addresses (BaseNodeOperation only rejects duplicated node addresses): every sign must still be verified.
func (w *World) NetworkPolicyOpSameKey() isaacoperation.NetworkPolicy {
	op := isaacoperation.NewNetworkPolicy(isaacoperation.NewNetworkPolicyFact(w.Token(), w.Policy()))
	k := w.Locals[0]
	must(op.NodeSign(k.Privatekey(), w.NetworkID, k.Address()))
	for i := 0; i < 1+w.R.Intn(2); i++ {
		must(op.NodeSign(k.Privatekey(), w.NetworkID, w.Addr()))
	}
	return op
}

func (w *World) SuffrageExpelOperationSameKey() isaac.SuffrageExpelOperation {
	start := w.HeightPos()
	fact := isaac.NewSuffrageExpelFact(w.Locals[len(w.Locals)-1].Address(), start, start+base.Height(w.R.Range(0, 10)), w.Str("reason-"))
	op := isaac.NewSuffrageExpelOperation(fact)
	k := w.Locals[1]
	must(op.NodeSign(w.Locals[0].Privatekey(), w.NetworkID, w.Locals[0].Address()))
	must(op.NodeSign(k.Privatekey(), w.NetworkID, k.Address()))
	must(op.NodeSign(k.Privatekey(), w.NetworkID, w.Addr()))
	return op
}

func (w *World) SuffrageJoinSameKey() isaacoperation.SuffrageJoin {
	n := w.NewLocal()
	op := isaacoperation.NewSuffrageJoin(isaacoperation.NewSuffrageJoinFact(w.Token(), n.Address(), w.Height()))
	must(op.NodeSign(n.Privatekey(), w.NetworkID, n.Address()))
	must(op.NodeSign(n.Privatekey(), w.NetworkID, w.Addr()))
	return op
}

func (w *World) GenesisNetworkPolicyOp() isaacoperation.GenesisNetworkPolicy {
	fact := isaacoperation.NewGenesisNetworkPolicyFact(w.Policy())
	op := isaacoperation.NewGenesisNetworkPolicy(fact)
	must(op.Sign(w.Locals[0].Privatekey(), w.NetworkID))
	return op
}

// ------------------------------------------------------------------ states, manifests, block maps, suffrage proofs

func (w *World) SuffrageNodesValue(height base.Height) isaac.SuffrageNodesStateValue {
	nodes := w.Nodes()
	vs := make([]base.SuffrageNodeStateValue, len(nodes))
	for i := range nodes {
		vs[i] = isaac.NewSuffrageNodeStateValue(nodes[i], base.Height(w.R.Range(0, int(height))))
	}
	return isaac.NewSuffrageNodesStateValue(base.Height(w.R.Range(0, 50)), vs)
}

func (w *World) CandidatesValue() isaac.SuffrageCandidatesStateValue {
	n := w.R.Range(1, 3)
	vs := make([]base.SuffrageCandidateStateValue, n)
	for i := range vs {
		l := w.NewLocal()
		start := w.Height()
		vs[i] = isaac.NewSuffrageCandidateStateValue(isaac.NewNode(l.Publickey(), l.Address()), start, start+base.Height(w.R.Range(1, 100)))
	}
	return isaac.NewSuffrageCandidatesStateValue(vs)
}

func (w *World) State(kind int) base.BaseState {
	height := w.Height()
	var prev util.Hash
	if w.R.Chance(3, 4) {
		prev = w.Hash()
	}
	// NOTE a nil operations slice is encoded as null and decoded as an empty slice (re-encoded as []):
	// harmless, not producible by the block writer (states always carry their operations); not generated.
	ops := w.Hashes(0, 3)
	switch kind {
	case 0:
		return base.NewBaseState(height, isaac.SuffrageStateKey, w.SuffrageNodesValue(height), prev, ops)
	case 1:
		return base.NewBaseState(height, isaac.SuffrageCandidateStateKey, w.CandidatesValue(), prev, ops)
	default:
		return base.NewBaseState(height, isaac.NetworkPolicyStateKey, isaac.NewNetworkPolicyStateValue(w.Policy()), prev, ops)
	}
}

func (w *World) optHash() util.Hash {
	if w.R.Chance(1, 4) {
		return nil
	}
	return w.Hash()
}

func (w *World) Manifest(height base.Height, suffrage util.Hash) isaac.Manifest {
	return isaac.NewManifest(height, w.Hash(), w.Hash(), w.optHash(), w.optHash(), suffrage, w.Time())
}

// AllBlockItemTypes: every value BlockItemType.IsValid accepts (base/block.go), incl. "map".
var AllBlockItemTypes = []base.BlockItemType{
	base.BlockItemMap, base.BlockItemProposal, base.BlockItemOperations, base.BlockItemOperationsTree,
	base.BlockItemStates, base.BlockItemStatesTree, base.BlockItemVoteproofs,
}

func (w *World) BlockMap(m base.Manifest) isaacblock.BlockMap { return w.BlockMapWith(m, false) }

// BlockMapWith: all=true carries an item of every valid type; otherwise the optional ones (map, operations,
// states) are left out now and then.
func (w *World) BlockMapWith(m base.Manifest, all bool) isaacblock.BlockMap {
	bm := isaacblock.NewBlockMap()
	for _, t := range AllBlockItemTypes {
		if !all && ((t == base.BlockItemOperations || t == base.BlockItemStates) && w.R.Chance(1, 4) || t == base.BlockItemMap && w.R.Bool()) {
			continue
		}
		must(bm.SetItem(isaacblock.NewBlockMapItem(t, w.Str("checksum-"))))
	}
	bm.SetManifest(m)
	n := w.Locals[w.R.Intn(len(w.Locals))]
	must(bm.Sign(n.Address(), n.Privatekey(), w.NetworkID))
	return bm
}

func (w *World) SuffrageProof() isaacblock.SuffrageProof {
	height := w.Height()
	prev := w.Hash()
	st := base.NewBaseState(height, isaac.SuffrageStateKey, w.SuffrageNodesValue(height), prev, w.Hashes(1, 3))
	n := w.R.Range(1, 6)
	pos := w.R.Intn(n + 1)
	tw, err := fixedtree.NewWriter(base.StateFixedtreeHint, uint64(n+1))
	must(err)
	j := 0
	for i := 0; i <= n; i++ {
		if i == pos {
			must(tw.Add(uint64(i), fixedtree.NewBaseNode(st.Hash().String())))
			continue
		}
		must(tw.Add(uint64(i), fixedtree.NewBaseNode(w.Hash().String())))
		j++
	}
	must(tw.Write(func(uint64, fixedtree.Node) error { return nil }))
	tr, err := tw.Tree()
	must(err)
	proof, err := tr.Proof(st.Hash().String())
	must(err)
	m := isaac.NewManifest(height, w.Hash(), w.Hash(), w.Hash(), tr.Root(), prev, w.Time())
	return isaacblock.NewSuffrageProof(w.BlockMap(m), st, proof)
}

var _ = hint.Hint{}
