// c11: a block is saved only for the agreed manifest, once per height.
//
// Real isaac.ProposalProcessors driving real isaac.DefaultProposalProcessor objects (and guard-less stub
// processors) whose injected dependencies (getproposal, makenew, BlockWriter) are scripted and recorded.
//
//	mode A (forced):  one scripted sequence of Process/Save/Cancel per case; after every op the result class,
//	                  the processor held and the blocks written are compared with the Coq model (cases_NNN.v).
//	mode B (free):    several goroutines issue random ops on one shared object with runtime.Gosched noise in
//	                  every injected dependency; the property oracle is evaluated on the recorded log.
//	mode C:           the voteproof handler's own check (ACCEPT majority new block == manifest) through
//	                  isaacstates verif hook, when present (see c11_handler.go).
//
// The oracle (independent of the model) is the property's own statement on the recorded writer events.
package main

import (
	"context"
	"errors"
	"fmt"
	"runtime"
	"strings"
	"sync"
	"sync/atomic"
	"time"

	"github.com/spikeekips/mitum/base"
	"github.com/spikeekips/mitum/isaac"
	"github.com/spikeekips/mitum/util"
	"github.com/spikeekips/mitum/util/valuehash"
	"verifharness/vh"
)

const (
	nFacts     = 6
	nManifests = 4
)

// ---------------------------------------------------------------- universe of proposals / manifests

type universe struct {
	proposals []base.ProposalSignFact // id -> proposal
	heights   []int64                 // id -> height of the proposal
	factID    map[string]int          // fact hash -> id
	mhash     []util.Hash             // manifest id -> hash
	mID       map[string]int
	proposer  base.Address
}

func newUniverse(heights []int64) *universe {
	u := &universe{factID: map[string]int{}, mID: map[string]int{}, proposer: base.RandomAddress("c11-")}
	for i, h := range heights {
		point := base.NewPoint(base.Height(h), base.Round(uint64(i)))
		fact := isaac.NewProposalFact(point, u.proposer, valuehash.NewSHA256([]byte(fmt.Sprintf("prev-%d", i))), nil)
		pr := isaac.NewProposalSignFact(fact)
		u.proposals = append(u.proposals, pr)
		u.heights = append(u.heights, h)
		u.factID[pr.Fact().Hash().String()] = i
	}
	for i := 0; i < nManifests; i++ {
		h := valuehash.NewSHA256([]byte(fmt.Sprintf("manifest-%d", i)))
		u.mhash = append(u.mhash, h)
		u.mID[h.String()] = i
	}
	return u
}

func (u *universe) fid(h util.Hash) int {
	if h == nil {
		return -1
	}
	if i, ok := u.factID[h.String()]; ok {
		return i
	}
	return -1
}

func (u *universe) mid(h util.Hash) int {
	if h == nil {
		return -1
	}
	if i, ok := u.mID[h.String()]; ok {
		return i
	}
	return -1
}

// ---------------------------------------------------------------- scripts and recording

type script struct {
	GP  int  `json:"gp"`  // getproposal: -1 error, -2 (nil,nil), else id of the proposal returned
	MK  int  `json:"mk"`  // makenew: -1 error, 0 default processor, 1 stub processor
	COK bool `json:"cok"` // stub Cancel() succeeds
	PO  int  `json:"po"`  // 0 ok, 1 error, 2 ignore-error, 3 not-processed error
	PM  int  `json:"pm"`  // manifest id when PO == 0
	WO  int  `json:"wo"`  // writer Save: 0 ok, 1 error, 2 context.Canceled
}

type saveEv struct {
	Pid     int   `json:"pid"`
	Stub    bool  `json:"stub"`
	ReqFact int   `json:"reqfact"`
	PFact   int   `json:"pfact"`
	AvpH    int64 `json:"avph"`
	PH      int64 `json:"ph"`
	NB      int   `json:"nb"`
	PM      int   `json:"pm"` // -1 = none
}

type logEv struct {
	Save   *saveEv
	Cancel int // pid when Save == nil
}

type world struct {
	u       *universe
	mu      sync.Mutex
	log     []logEv
	nextPid int
	cur     script   // forced mode
	table   []script // free mode: per requested/proposal fact
	free    bool
	noise   atomic.Uint64 // free mode: yield noise
	pps     *isaac.ProposalProcessors
}

func (w *world) scriptFor(fid int) script {
	if w.free && fid >= 0 && fid < len(w.table) {
		return w.table[fid]
	}
	return w.cur
}

func (w *world) yield() {
	if !w.free {
		return
	}
	n := w.noise.Add(0x9E3779B97F4A7C15)
	for i := uint64(0); i < (n>>60)&3; i++ {
		runtime.Gosched()
	}
}

func (w *world) logSave(e saveEv) {
	w.mu.Lock()
	w.log = append(w.log, logEv{Save: &e})
	w.mu.Unlock()
}

func (w *world) logCancel(pid int) {
	w.mu.Lock()
	w.log = append(w.log, logEv{Cancel: pid})
	w.mu.Unlock()
}

func (w *world) newPid() int {
	w.mu.Lock()
	defer w.mu.Unlock()
	p := w.nextPid
	w.nextPid++
	return p
}

var errScripted = errors.New("scripted failure")

func processOutcome(u *universe, sc script, height base.Height) (base.Manifest, error) {
	switch sc.PO {
	case 0:
		return base.NewDummyManifest(height, u.mhash[sc.PM]), nil
	case 2:
		return nil, isaac.ErrIgnoreErrorProposalProcessor.Errorf("scripted")
	case 3:
		return nil, isaac.ErrNotProposalProcessorProcessed.Errorf("scripted")
	default:
		return nil, errScripted
	}
}

func saveOutcome(sc script, m base.Manifest) (base.BlockMap, error) {
	switch sc.WO {
	case 0:
		if m == nil {
			return nil, nil
		}
		return base.NewDummyBlockMap(m), nil
	case 2:
		return nil, context.Canceled
	default:
		return nil, errScripted
	}
}

// recording BlockWriter handed to the real DefaultProposalProcessor
type recWriter struct {
	w        *world
	pid      int
	proposal base.ProposalSignFact
	manifest base.Manifest
	avp      base.ACCEPTVoteproof
}

func (*recWriter) SetOperationsSize(uint64) {}
func (*recWriter) SetProcessResult(context.Context, uint64, util.Hash, util.Hash, bool, base.OperationProcessReasonError) error {
	return nil
}
func (*recWriter) SetStates(context.Context, uint64, []base.StateMergeValue, base.Operation) error {
	return nil
}
func (r *recWriter) Manifest(_ context.Context, _ base.Manifest) (base.Manifest, error) {
	r.w.yield()
	sc := r.w.scriptFor(r.w.u.fid(r.proposal.Fact().Hash()))
	m, err := processOutcome(r.w.u, sc, r.proposal.Point().Height())
	if err == nil {
		r.manifest = m
	}
	return m, err
}
func (*recWriter) SetINITVoteproof(context.Context, base.INITVoteproof) error { return nil }
func (r *recWriter) SetACCEPTVoteproof(_ context.Context, avp base.ACCEPTVoteproof) error {
	r.avp = avp
	return nil
}
func (r *recWriter) Save(context.Context) (base.BlockMap, error) {
	r.w.yield()
	u := r.w.u
	e := saveEv{Pid: r.pid, Stub: false, PFact: u.fid(r.proposal.Fact().Hash()), PH: int64(r.proposal.Point().Height()), PM: -1, ReqFact: -1, NB: -1, AvpH: -1}
	if r.manifest != nil {
		e.PM = u.mid(r.manifest.Hash())
	}
	if r.avp != nil {
		e.ReqFact = u.fid(r.avp.BallotMajority().Proposal())
		e.NB = u.mid(r.avp.BallotMajority().NewBlock())
		e.AvpH = int64(r.avp.Point().Height())
	}
	r.w.logSave(e)
	r.w.yield()
	return saveOutcome(r.w.scriptFor(e.PFact), r.manifest)
}
func (*recWriter) Cancel() error { return nil }

// the real default processor; only Cancel() is intercepted, to record that it was called
type defProc struct {
	*isaac.DefaultProposalProcessor
	w          *world
	pid        int
	cancelSeen atomic.Bool
}

func (p *defProc) Cancel() error {
	err := p.DefaultProposalProcessor.Cancel()
	if err == nil {
		p.cancelSeen.Store(true)
		p.w.logCancel(p.pid)
	}
	return err
}

// a foreign processor without any guard of its own
type stubProc struct {
	w          *world
	pid        int
	proposal   base.ProposalSignFact
	mu         sync.Mutex
	manifest   base.Manifest
	cancelSeen atomic.Bool
}

func (p *stubProc) Proposal() base.ProposalSignFact { return p.proposal }
func (p *stubProc) Process(context.Context, base.INITVoteproof) (base.Manifest, error) {
	p.w.yield()
	sc := p.w.scriptFor(p.w.u.fid(p.proposal.Fact().Hash()))
	m, err := processOutcome(p.w.u, sc, p.proposal.Point().Height())
	if err == nil {
		p.mu.Lock()
		p.manifest = m
		p.mu.Unlock()
	}
	return m, err
}
func (p *stubProc) Save(_ context.Context, avp base.ACCEPTVoteproof) (base.BlockMap, error) {
	p.w.yield()
	u := p.w.u
	p.mu.Lock()
	m := p.manifest
	p.mu.Unlock()
	e := saveEv{Pid: p.pid, Stub: true, PFact: u.fid(p.proposal.Fact().Hash()), PH: int64(p.proposal.Point().Height()), PM: -1,
		ReqFact: u.fid(avp.BallotMajority().Proposal()), NB: u.mid(avp.BallotMajority().NewBlock()), AvpH: int64(avp.Point().Height())}
	if m != nil {
		e.PM = u.mid(m.Hash())
	}
	p.w.logSave(e)
	p.w.yield()
	return saveOutcome(p.w.scriptFor(e.PFact), m)
}
func (p *stubProc) Cancel() error {
	if !p.w.scriptFor(p.w.u.fid(p.proposal.Fact().Hash())).COK {
		return errScripted
	}
	p.cancelSeen.Store(true)
	p.w.logCancel(p.pid)
	return nil
}

func newWorld(u *universe, free bool) *world {
	w := &world{u: u, free: free}
	makenew := func(proposal base.ProposalSignFact, previous base.Manifest) (isaac.ProposalProcessor, error) {
		w.yield()
		sc := w.scriptFor(u.fid(proposal.Fact().Hash()))
		switch sc.MK {
		case 0:
			pid := w.newPid()
			args := isaac.NewDefaultProposalProcessorArgs()
			args.NewWriterFunc = func(pr base.ProposalSignFact, _ base.GetStateFunc) (isaac.BlockWriter, error) {
				return &recWriter{w: w, pid: pid, proposal: pr}, nil
			}
			args.GetStateFunc = func(string) (base.State, bool, error) { return nil, false, nil }
			args.GetOperationFunc = func(context.Context, util.Hash, util.Hash) (base.Operation, error) { return nil, nil }
			dp, err := isaac.NewDefaultProposalProcessor(proposal, previous, args)
			if err != nil {
				return nil, err
			}
			return &defProc{DefaultProposalProcessor: dp, w: w, pid: pid}, nil
		case 1:
			return &stubProc{w: w, pid: w.newPid(), proposal: proposal}, nil
		default:
			return nil, errScripted
		}
	}
	getproposal := func(_ context.Context, _ base.Point, facthash util.Hash) (base.ProposalSignFact, error) {
		w.yield()
		sc := w.scriptFor(u.fid(facthash))
		switch {
		case sc.GP == -2:
			return nil, nil
		case sc.GP < 0 || sc.GP >= len(u.proposals):
			return nil, errScripted
		default:
			return u.proposals[sc.GP], nil
		}
	}
	w.pps = isaac.NewProposalProcessors(makenew, getproposal)
	w.pps.SetRetryLimit(1).SetRetryInterval(time.Nanosecond)
	return w
}

// ---------------------------------------------------------------- ops

type opT struct {
	Kind string `json:"op"` // process | save | cancel | h-accept | h-saveblock (the last two go through the voteproof handler)
	Fact int    `json:"fact"`
	H    int64  `json:"h"`             // save: height of the ACCEPT voteproof
	NB   int    `json:"nb"`            // save: new block (manifest id)
	Rd   int    `json:"round"`         // save: round of the ACCEPT voteproof (the model only knows heights: rounds must not matter)
	Maj  bool   `json:"maj,omitempty"` // h-accept: the ACCEPT voteproof has a majority
	M    int    `json:"m,omitempty"`   // h-accept: manifest (id) the handler got from processing
	S    script `json:"script"`
}

// the voteproof handler's entry points, as a refinement of the ProposalProcessors ops:
//
//	h-saveblock                         = Save
//	h-accept, majority and M == NB      = Save
//	h-accept otherwise                  = Cancel   (no block may be written)
func (o opT) modelKind() string {
	switch o.Kind {
	case "h-saveblock":
		return "save"
	case "h-accept":
		if o.Maj && o.M == o.NB {
			return "save"
		}
		return "cancel"
	default:
		return o.Kind
	}
}

type obsT struct {
	Res    string `json:"res"` // nil | err1..3 | manifest:<id> | ignored | ok
	Pid    int    `json:"pid"` // -1 none
	Cancel bool   `json:"canceled"`
}

func errClass(err error) string {
	switch {
	case errors.Is(err, isaac.ErrNotProposalProcessorProcessed):
		return "err1"
	case errors.Is(err, isaac.ErrProcessorAlreadySaved):
		return "err2"
	default:
		return "err3"
	}
}

func (w *world) acceptVoteproof(fact int, h int64, rd int, nb int) base.ACCEPTVoteproof {
	u := w.u
	point := base.NewPoint(base.Height(h), base.Round(uint64(rd)))
	afact := isaac.NewACCEPTBallotFact(point, u.proposals[fact].Fact().Hash(), u.mhash[nb], nil)
	vp := isaac.NewACCEPTVoteproof(point)
	vp.SetMajority(afact).Finish()
	return vp
}

func (w *world) initVoteproof(fact int) base.INITVoteproof {
	u := w.u
	point := u.proposals[fact].Point()
	ifact := isaac.NewINITBallotFact(point, valuehash.NewSHA256([]byte("prev")), u.proposals[fact].Fact().Hash(), nil)
	vp := isaac.NewINITVoteproof(point)
	vp.SetMajority(ifact).Finish()
	return vp
}

// do executes one op on the real object; returns the result class and (for a successful save) the block map
func (w *world) do(o opT) (string, base.BlockMap) {
	ctx := context.Background()
	u := w.u
	switch o.Kind {
	case "process":
		pr := u.proposals[o.Fact]
		f, err := w.pps.Process(ctx, pr.Point(), pr.Fact().Hash(), nil, w.initVoteproof(o.Fact))
		switch {
		case err != nil:
			return errClass(err), nil
		case f == nil:
			return "nil", nil
		}
		m, err := f(ctx)
		switch {
		case err != nil:
			return errClass(err), nil
		case m == nil:
			return "ignored", nil
		default:
			return fmt.Sprintf("manifest:%d", u.mid(m.Hash())), nil
		}
	case "save":
		avp := w.acceptVoteproof(o.Fact, o.H, o.Rd, o.NB)
		bm, err := w.pps.Save(ctx, avp.BallotMajority().Proposal(), avp)
		if err != nil {
			return errClass(err), nil
		}
		return "ok", bm
	case "h-accept", "h-saveblock":
		return w.doHandler(o), nil
	default:
		if err := w.pps.Cancel(); err != nil {
			return errClass(err), nil
		}
		return "ok", nil
	}
}

func (w *world) observe(res string) obsT {
	ob := obsT{Res: res, Pid: -1}
	switch p := w.pps.Processor().(type) {
	case *defProc:
		ob.Pid, ob.Cancel = p.pid, p.cancelSeen.Load()
	case *stubProc:
		ob.Pid, ob.Cancel = p.pid, p.cancelSeen.Load()
	}
	return ob
}

// ---------------------------------------------------------------- oracle: the property on the recorded log

type violation struct{ class, desc string }

func oracle(log []logEv) []violation {
	var vs []violation
	cancelled := map[int]bool{}
	last := int64(-1 << 62)
	for i, ev := range log {
		if ev.Save == nil {
			cancelled[ev.Cancel] = true
			continue
		}
		e := ev.Save
		if e.PFact != e.ReqFact {
			vs = append(vs, violation{"save-wrong-proposal", fmt.Sprintf("event %d: block written by the processor of proposal %d for an ACCEPT majority on proposal %d", i, e.PFact, e.ReqFact)})
		}
		if !e.Stub && (e.PM < 0 || e.PM != e.NB) {
			vs = append(vs, violation{"save-manifest-mismatch", fmt.Sprintf("event %d: block written with computed manifest %d but ACCEPT majority new block %d", i, e.PM, e.NB)})
		}
		if e.AvpH <= last {
			vs = append(vs, violation{"save-height-not-increasing", fmt.Sprintf("event %d: block written at height %d after height %d", i, e.AvpH, last)})
		}
		if e.AvpH > last {
			last = e.AvpH
		}
		if !e.Stub && cancelled[e.Pid] {
			vs = append(vs, violation{"save-after-cancel", fmt.Sprintf("event %d: processor %d wrote a block after its Cancel() returned", i, e.Pid)})
		}
	}
	return vs
}

// ---------------------------------------------------------------- rendering for Coq

func coqOptN(i int) string {
	if i < 0 {
		return "None"
	}
	return vh.Some(vh.N(uint64(i)))
}

func (u *universe) coqOp(o opT) string {
	switch o.modelKind() {
	case "process":
		gp := "None"
		if o.S.GP >= 0 {
			gp = vh.Some(vh.Tuple(vh.N(uint64(o.S.GP)), vh.Z(u.heights[o.S.GP])))
		}
		mk := "None"
		if o.S.MK >= 0 {
			mk = vh.Some(vh.Bool(o.S.MK == 1))
		}
		po := [...]string{"PoOk", "PoErr", "PoIgnore", "PoNotProc"}[o.S.PO]
		if o.S.PO == 0 {
			po = "(PoOk " + vh.N(uint64(o.S.PM)) + ")"
		}
		return fmt.Sprintf("OProcess %s %s %s %s %s", vh.N(uint64(o.Fact)), gp, mk, vh.Bool(o.S.COK), po)
	case "save":
		wo := [...]string{"WOk", "WErr", "WCtxCanceled"}[o.S.WO]
		return fmt.Sprintf("OSave %s %s %s %s %s", vh.N(uint64(o.Fact)), vh.Z(o.H), vh.N(uint64(o.NB)), wo, vh.Bool(o.S.COK))
	default:
		return fmt.Sprintf("OCancel %s", vh.Bool(o.S.COK))
	}
}

func coqObs(ob obsT) string {
	var r string
	switch {
	case ob.Res == "nil":
		r = "RNil"
	case ob.Res == "ignored":
		r = "RIgnored"
	case ob.Res == "ok":
		r = "ROk"
	case ob.Res == "err1":
		r = "RErr ENotProcessed"
	case ob.Res == "err2":
		r = "RErr EAlreadySaved"
	case ob.Res == "err3":
		r = "RErr EOther"
	case strings.HasPrefix(ob.Res, "manifest:"):
		var id int
		fmt.Sscanf(ob.Res, "manifest:%d", &id)
		if id < 0 {
			id = 999999
		}
		r = "RManifest " + vh.N(uint64(id))
	default:
		panic("unknown result " + ob.Res)
	}
	c := "None"
	if ob.Pid >= 0 {
		c = vh.Some(vh.Tuple(vh.N(uint64(ob.Pid)), vh.Bool(ob.Cancel)))
	}
	return vh.Tuple(r, c)
}

func coqSave(e saveEv) string {
	n := func(i int) string {
		if i < 0 {
			return vh.N(999999)
		}
		return vh.N(uint64(i))
	}
	return fmt.Sprintf("mkSave %s %s %s %s %s %s %s %s", n(e.Pid), vh.Bool(e.Stub), n(e.ReqFact), n(e.PFact), vh.Z(e.AvpH), vh.Z(e.PH), n(e.NB), coqOptN(e.PM))
}

// ---------------------------------------------------------------- generation

// genOps builds a scripted history biased towards the interesting paths: saving the processor that is
// held, with matching and mismatching new blocks, at heights around previousSaved.
func genOps(r *vh.Rand, heights []int64, n int) []opT {
	ops := make([]opT, 0, n)
	curFact, curM := -1, -1
	prev := int64(-1)
	for len(ops) < n {
		sc := script{GP: -1, MK: 0, COK: !r.Chance(1, 8), PO: 0, PM: r.Intn(nManifests), WO: 0}
		switch x := r.Intn(100); {
		case x < 45: // process
			f := r.Intn(nFacts)
			if curFact >= 0 && r.Chance(1, 6) {
				f = curFact
			}
			sc.GP = f
			switch y := r.Intn(20); {
			case y == 0:
				sc.GP = -1
			case y == 1:
				sc.GP = -2
			case y == 2:
				sc.GP = r.Intn(nFacts) // a proposal with another fact than asked
			}
			switch y := r.Intn(12); {
			case y == 0:
				sc.MK = -1
			case y < 4:
				sc.MK = 1
			}
			switch y := r.Intn(12); {
			case y == 0:
				sc.PO = 1
			case y == 1:
				sc.PO = 2
			case y == 2:
				sc.PO = 3
			}
			ops = append(ops, opT{Kind: "process", Fact: f, S: sc})
			if sc.GP >= 0 && sc.MK >= 0 {
				curFact = sc.GP
				curM = -1
				if sc.PO == 0 {
					curM = sc.PM
				}
			}
		case x < 90: // save
			f := r.Intn(nFacts)
			if curFact >= 0 && !r.Chance(1, 5) {
				f = curFact
			}
			h := heights[f]
			switch y := r.Intn(10); {
			case y == 0:
				h = prev
			case y == 1:
				h = prev + 1
			case y == 2:
				h = int64(r.Range(0, 9))
			}
			nb := r.Intn(nManifests)
			if curM >= 0 && !r.Chance(1, 4) {
				nb = curM
			}
			switch y := r.Intn(12); {
			case y == 0:
				sc.WO = 1
			case y == 1:
				sc.WO = 2
			}
			rd := f // the proposal's own round (universe: proposal i is for round i)
			if r.Chance(1, 8) {
				rd = r.Intn(nFacts + 2)
			}
			ops = append(ops, opT{Kind: "save", Fact: f, H: h, NB: nb, Rd: rd, S: sc})
			if h > prev && f == curFact {
				prev = h
			}
		default:
			ops = append(ops, opT{Kind: "cancel", S: sc})
		}
	}
	return ops
}

func randHeights(r *vh.Rand) []int64 {
	hs := make([]int64, nFacts)
	base0 := int64(r.Range(0, 3))
	for i := range hs {
		hs[i] = base0 + int64(r.Range(0, 3))
	}
	return hs
}

// corpus: hand-written histories that always run (witness shapes of the theorems' corner cases)
func corpus() ([]int64, [][]opT) {
	hs := []int64{3, 3, 4, 4, 5, 5}
	ok := script{GP: 0, MK: 0, COK: true, PO: 0, PM: 1}
	p := func(f int, mod func(*script)) opT {
		s := ok
		s.GP = f
		if mod != nil {
			mod(&s)
		}
		return opT{Kind: "process", Fact: f, S: s}
	}
	sv := func(f int, h int64, nb int) opT { return opT{Kind: "save", Fact: f, H: h, NB: nb, Rd: f, S: ok} }
	svr := func(f int, h int64, rd int, nb int) opT {
		return opT{Kind: "save", Fact: f, H: h, NB: nb, Rd: rd, S: ok}
	}
	cn := opT{Kind: "cancel", S: ok}
	return hs, [][]opT{
		{p(0, nil), sv(0, 3, 1)},                                                                           // plain save
		{p(0, nil), sv(0, 3, 2), p(0, nil), sv(0, 3, 1)},                                                   // mismatch burns the height
		{p(0, nil), sv(0, 3, 1), p(1, nil), sv(1, 3, 1)},                                                   // second proposal, same height
		{p(0, nil), sv(0, 3, 1), p(2, nil), sv(2, 4, 1), p(1, nil), sv(1, 3, 1)},                           // lower height later
		{p(0, nil), p(1, func(s *script) { s.GP = -1 }), sv(0, 3, 1)},                                      // cancelled processor stays reachable
		{p(0, func(s *script) { s.MK = 1 }), p(1, func(s *script) { s.GP = -1 }), sv(0, 3, 1)},             // ... stub: saves
		{p(0, nil), p(1, func(s *script) { s.MK = -1 }), sv(0, 3, 1)},                                      // makenew fails after cancel
		{p(0, nil), cn, sv(0, 3, 1)},                                                                       // cancel then save
		{p(0, func(s *script) { s.PO = 2 }), sv(0, 3, 1)},                                                  // ignored error: no manifest
		{p(0, func(s *script) { s.PO = 3 }), sv(0, 3, 1)},                                                  // not processed
		{p(0, nil), sv(1, 3, 1)},                                                                           // other fact
		{p(0, func(s *script) { s.GP = 1 }), sv(0, 3, 1), p(0, func(s *script) { s.GP = 1 }), sv(1, 3, 1)}, // getproposal answers with another proposal
		{p(0, nil), sv(0, 7, 1), p(2, nil), sv(2, 4, 1)},                                                   // voteproof height above the proposal's
		{p(0, func(s *script) { s.MK = 1; s.COK = false }), p(1, nil), cn, sv(0, 3, 1)},                    // stub whose Cancel fails
		{p(0, nil), sv(0, 3, 1), sv(0, 3, 1), sv(0, 4, 1)},                                                 // repeated saves
		// rounds: after a save at (3, round 0): the proposal of a LATER round of the same height (a late next-round
		// INIT voteproof), matching and mismatching manifests; then lower rounds; then the next height
		{p(0, nil), sv(0, 3, 1), p(1, nil), sv(1, 3, 1)},
		{p(0, nil), svr(0, 3, 0, 1), p(1, nil), svr(1, 3, 5, 1), p(1, nil), svr(1, 3, 5, 2)},
		{p(1, nil), sv(1, 3, 1), p(0, nil), sv(0, 3, 1), p(1, nil), sv(1, 3, 2), p(2, nil), sv(2, 4, 1), p(3, nil), sv(3, 4, 1)},
		{p(0, nil), svr(0, 3, 2, 2), p(0, nil), svr(0, 3, 3, 1), p(1, nil), svr(1, 3, 4, 1), p(1, nil), svr(1, 3, 0, 1)},
	}
}

// ---------------------------------------------------------------- modes

type replayT struct {
	Mode    string  `json:"mode"`
	Heights []int64 `json:"heights"`
	Ops     []opT   `json:"ops,omitempty"`
	Seed    uint64  `json:"seed,omitempty"`
}

func runForced(res *vh.Result, cases *vh.Cases, heights []int64, ops []opT, tag string) {
	u := newUniverse(heights)
	w := newWorld(u, false)
	rp := replayT{Mode: "forced", Heights: heights, Ops: ops}
	var obs []obsT
	coqOps := make([]string, len(ops))
	coqOb := make([]string, len(ops))
	func() {
		defer func() {
			if x := recover(); x != nil {
				res.Fail("panic", fmt.Sprintf("panic: %v", x), rp)
			}
		}()
		for i, o := range ops {
			w.cur = o.S
			before := len(w.log)
			r, bm := w.do(o)
			ob := w.observe(r)
			obs = append(obs, ob)
			coqOps[i], coqOb[i] = u.coqOp(o), coqObs(ob)
			if o.Kind == "save" && r == "ok" {
				// a reported save must be a block actually written, for this voteproof, and be the block agreed on
				var sv *saveEv
				for _, e := range w.log[before:] {
					if e.Save != nil {
						sv = e.Save
					}
				}
				switch {
				case sv == nil:
					res.Fail("save-reported-without-write", fmt.Sprintf("op %d: Save returned nil error but no block was written", i), rp)
				case bm != nil && u.mid(bm.Manifest().Hash()) != o.NB && !sv.Stub:
					res.Fail("save-manifest-mismatch", fmt.Sprintf("op %d: Save returned block map of manifest %d for new block %d", i, u.mid(bm.Manifest().Hash()), o.NB), rp)
				}
			}
		}
	}()
	if len(obs) != len(ops) {
		return
	}
	var saves []saveEv
	var coqSaves []string
	for _, e := range w.log {
		if e.Save != nil {
			saves = append(saves, *e.Save)
			coqSaves = append(coqSaves, coqSave(*e.Save))
		}
	}
	for _, v := range oracle(w.log) {
		res.Fail(v.class, v.desc, rp)
	}
	rejected := false
	for _, ob := range obs {
		if strings.HasPrefix(ob.Res, "err") {
			rejected = true
		}
	}
	key := strings.Join(coqOps, ";")
	res.Count(key, len(saves) > 0 && rejected)
	res.Dist(fmt.Sprintf("%s_saves=%d", tag, min(len(saves), 3)))
	cases.Add(vh.Tuple(vh.List(coqOps), vh.List(coqOb), vh.List(coqSaves)),
		map[string]any{"heights": heights, "ops": ops, "obs": obs, "saves": saves})
	if tag == "random" {
		res.Sample(map[string]any{"ops": len(ops), "saves": saves})
	}
}

func runFree(res *vh.Result, r *vh.Rand, seed uint64, goroutines, opsEach int) {
	heights := randHeights(r)
	u := newUniverse(heights)
	w := newWorld(u, true)
	w.table = make([]script, nFacts)
	for f := range w.table {
		sc := script{GP: f, MK: 0, COK: !r.Chance(1, 10), PO: 0, PM: r.Intn(nManifests), WO: 0}
		if r.Chance(1, 10) {
			sc.GP = -1
		}
		switch y := r.Intn(10); {
		case y == 0:
			sc.MK = -1
		case y < 5:
			sc.MK = 1
		}
		switch y := r.Intn(10); {
		case y == 0:
			sc.PO = 1
		case y == 1:
			sc.PO = 3
		}
		if r.Chance(1, 10) {
			sc.WO = 1 + r.Intn(2)
		}
		w.table[f] = sc
	}
	rp := replayT{Mode: "free", Heights: heights, Seed: seed}
	var wg sync.WaitGroup
	var fmu sync.Mutex
	for g := 0; g < goroutines; g++ {
		gr := vh.NewRand(r.U64())
		wg.Add(1)
		go func() {
			defer wg.Done()
			defer func() {
				if x := recover(); x != nil {
					fmu.Lock()
					res.Fail("panic", fmt.Sprintf("panic: %v", x), rp)
					fmu.Unlock()
				}
			}()
			for i := 0; i < opsEach; i++ {
				o := opT{Kind: "cancel"}
				switch x := gr.Intn(100); {
				case x < 45:
					o = opT{Kind: "process", Fact: gr.Intn(nFacts)}
				case x < 93:
					f := gr.Intn(nFacts)
					h := heights[f]
					if gr.Chance(1, 6) {
						h = int64(gr.Range(0, 7))
					}
					nb := w.table[f].PM
					if gr.Chance(1, 5) {
						nb = gr.Intn(nManifests)
					}
					o = opT{Kind: "save", Fact: f, H: h, NB: nb, Rd: f}
					if gr.Chance(1, 6) {
						o.Rd = gr.Intn(nFacts + 2)
					}
				}
				rs, bm := w.do(o)
				if o.Kind == "save" && rs == "ok" && bm != nil && w.table[o.Fact].MK == 0 && u.mid(bm.Manifest().Hash()) != o.NB {
					fmu.Lock()
					res.Fail("save-manifest-mismatch", fmt.Sprintf("Save returned block map of manifest %d for new block %d", u.mid(bm.Manifest().Hash()), o.NB), rp)
					fmu.Unlock()
				}
				if gr.Chance(1, 3) {
					runtime.Gosched()
				}
			}
		}()
	}
	wg.Wait()
	nsaves := 0
	for _, e := range w.log {
		if e.Save != nil {
			nsaves++
		}
	}
	for _, v := range oracle(w.log) {
		res.Fail(v.class, "free-running: "+v.desc, rp)
	}
	res.Count(fmt.Sprintf("free-%d", seed), nsaves > 0)
	res.Dist(fmt.Sprintf("free_saves=%d", min(nsaves, 4)))
}

func main() {
	o := vh.ParseFlags()
	res := vh.NewResult("forced: scripted histories of Process/Save/Cancel on the real ProposalProcessors with real DefaultProposalProcessor / stub processors, compared op by op with the model; free: 4 goroutines x random ops with yield noise, oracle on the writer log; non-trivial = at least one block written and at least one call refused")
	cases := &vh.Cases{Import: "From MV Require Import C11.Model.", Type: "case", CheckFn: "check", Shard: 400}
	if o.Replay != "" {
		var rp replayT
		if err := vh.ReadReplay(o.Replay, &rp); err == nil && rp.Mode == "forced" && len(rp.Ops) > 0 {
			runForced(res, cases, rp.Heights, rp.Ops, "replay")
			fmt.Printf("replayed %d ops; failures so far: %d\n", len(rp.Ops), len(res.Failures))
		}
	}
	hs, cs := corpus()
	for _, ops := range cs {
		runForced(res, cases, hs, ops, "corpus")
	}
	r := vh.NewRand(o.Seed)
	n := o.Pick(2500, 40000)
	for i := 0; i < n; i++ {
		hs := randHeights(r)
		runForced(res, cases, hs, genOps(r, hs, r.Range(2, 14)), "random")
	}
	nfree := 300
	if o.Thorough() {
		nfree = 4000
	}
	for i := 0; i < nfree; i++ {
		runFree(res, r, o.Seed*1000003+uint64(i), 4, 25)
	}
	runHandler(res, cases, r, o)
	res.ModelCases = cases.Len()
	if err := cases.Write(o.Out); err != nil {
		panic(err)
	}
	res.Write(o.Out)
}
