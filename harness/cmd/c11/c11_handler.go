package main

import (
	"fmt"

	"github.com/spikeekips/mitum/base"
	"github.com/spikeekips/mitum/isaac"
	isaacstates "github.com/spikeekips/mitum/isaac/states"
	"verifharness/vh"
)

var (
	hLocal     = base.RandomLocalNode()
	hNetworkID = base.RandomNetworkID()
)

// handlerSaved records, per world, handler calls that reported a saved block although the ACCEPT majority's
// new block is not the manifest the handler was given (the statement of C11 at the handler level).
type handlerViolation struct{ desc string }

var handlerViolations []handlerViolation

// doHandler runs the real voteproofHandler entry (verif hook in isaac/states/voteproof_handler_verif.go) and
// maps its answer onto the result classes of the ProposalProcessors op it refines.
func (w *world) doHandler(o opT) string {
	u := w.u
	var avp base.ACCEPTVoteproof
	if o.Kind == "h-saveblock" || o.Maj {
		avp = w.acceptVoteproof(o.Fact, o.H, o.Rd, o.NB)
	} else {
		vp := isaac.NewACCEPTVoteproof(base.NewPoint(base.Height(o.H), base.Round(uint64(o.Rd))))
		vp.Finish() // no majority: DRAW
		avp = vp
	}
	var saved bool
	var next isaacstates.StateType
	var err error
	if o.Kind == "h-saveblock" {
		saved, next, err = isaacstates.VerifSaveBlock(w.pps, hLocal, hNetworkID, avp)
	} else {
		saved, next, err = isaacstates.VerifACCEPTAfterProcessingProposal(w.pps, hLocal, hNetworkID,
			base.NewDummyManifest(base.Height(o.H), u.mhash[o.M]), avp)
		if saved && !(o.Maj && o.M == o.NB) {
			w.mu.Lock()
			handlerViolations = append(handlerViolations, handlerViolation{fmt.Sprintf(
				"handleACCEPTVoteproofAfterProcessingProposal reported a saved block for manifest %d, ACCEPT majority=%v new block %d", o.M, o.Maj, o.NB)})
			w.mu.Unlock()
		}
	}
	if o.modelKind() == "cancel" {
		switch {
		case err != nil, next == isaacstates.StateBroken:
			return "err3"
		default:
			return "ok"
		}
	}
	switch {
	case saved:
		return "ok"
	case err != nil, next == isaacstates.StateBroken:
		return "err3"
	case next == isaacstates.StateSyncing:
		return "err1"
	default:
		return "err2" // already saved: (false, nil)
	}
}

// runHandler: mode C. Histories in which the saves go through the voteproof handler.
func runHandler(res *vh.Result, cases *vh.Cases, r *vh.Rand, o *vh.Opts) {
	n := 400
	if o.Thorough() {
		n = 6000
	}
	hs0, _ := corpus()
	ok := script{GP: 0, MK: 0, COK: true, PO: 0, PM: 1}
	pr := opT{Kind: "process", Fact: 0, S: ok}
	fixed := [][]opT{
		{pr, {Kind: "h-accept", Fact: 0, H: 3, NB: 1, Maj: true, M: 1, S: ok}},
		{pr, {Kind: "h-accept", Fact: 0, H: 3, NB: 2, Maj: true, M: 1, S: ok}, {Kind: "save", Fact: 0, H: 3, NB: 1, S: ok}},
		{pr, {Kind: "h-accept", Fact: 0, H: 3, NB: 2, Maj: true, M: 2, S: ok}}, // handler given a manifest the processor did not compute
		{pr, {Kind: "h-accept", Fact: 0, H: 3, NB: 1, Maj: false, M: 1, S: ok}},
		{pr, {Kind: "h-saveblock", Fact: 0, H: 3, NB: 1, S: ok}, {Kind: "h-saveblock", Fact: 0, H: 3, NB: 1, S: ok}},
		{pr, {Kind: "h-saveblock", Fact: 0, H: 3, NB: 2, S: ok}},
		{pr, {Kind: "h-saveblock", Fact: 1, H: 3, NB: 1, S: ok}},
	}
	for _, ops := range fixed {
		runForced(res, cases, hs0, ops, "handler-corpus")
	}
	for i := 0; i < n; i++ {
		hs := randHeights(r)
		ops := genOps(r, hs, r.Range(2, 10))
		cm := -1
		for j := range ops {
			switch ops[j].Kind {
			case "process":
				cm = -1
				if ops[j].S.GP >= 0 && ops[j].S.MK >= 0 && ops[j].S.PO == 0 {
					cm = ops[j].S.PM
				}
			case "save":
				switch x := r.Intn(10); {
				case x < 5:
					ops[j].Kind = "h-accept"
					ops[j].Maj = !r.Chance(1, 8)
					ops[j].M = r.Intn(nManifests)
					if cm >= 0 && !r.Chance(1, 5) {
						ops[j].M = cm
					}
				case x < 8:
					ops[j].Kind = "h-saveblock"
				}
			}
		}
		runForced(res, cases, hs, ops, "handler")
	}
	for _, v := range handlerViolations {
		res.Fail("handler-saved-mismatch", v.desc, nil)
	}
}
