// c25: PrefixStorage isolation. Real leveldbstorage.PrefixStorage handles with overlapping-looking prefixes
// on one mem-leveldb; random operation sequences; every observable is (a) checked against the property's own
// statement by an oracle over full dumps of the raw storage taken before/after every operation and
// (b) written as a case for the Coq model (coq/C25/Model.v, `check`).
package main

import (
	"bytes"
	"context"
	"encoding/hex"
	"fmt"
	"os"
	"sort"
	"strings"
	"time"

	leveldbstorage "github.com/spikeekips/mitum/storage/leveldb"
	"github.com/syndtr/goleveldb/leveldb"
	leveldbStorage "github.com/syndtr/goleveldb/leveldb/storage"
	leveldbutil "github.com/syndtr/goleveldb/leveldb/util"
	"verifharness/vh"
)

type kv struct{ K, V []byte }

// ------------------------------------------------------------------ operations (JSON = replay format)

type brec struct {
	Put bool   `json:"put"`
	K   string `json:"k"` // hex
	V   string `json:"v,omitempty"`
}

type op struct {
	Kind  string  `json:"kind"` // get exists put delete batch batchfunc iter remove close rawput rawremoveprefix rawbatchremove dump wopen wadd wdone
	H     int     `json:"h,omitempty"`
	K     string  `json:"k,omitempty"` // hex user key / raw key / prefix
	V     string  `json:"v,omitempty"`
	B     []brec  `json:"b,omitempty"`
	HasR  bool    `json:"has_r,omitempty"` // a non-nil *util.Range is passed
	Start *string `json:"start,omitempty"` // nil = nil slice; "" = empty non-nil
	Limit *string `json:"limit,omitempty"`
	Asc   bool    `json:"asc,omitempty"`
	Stop  int     `json:"stop,omitempty"` // callback returns keep=false at its Stop-th call (0 = never)
	N     int     `json:"n,omitempty"`    // BatchRemove limit / BatchFunc batch size
	W     int     `json:"w,omitempty"`    // writer index (wadd, wdone): the W-th wopen of the history
}

type replay struct {
	Prefixes []string `json:"prefixes"`
	Ops      []op     `json:"ops"`
	At       int      `json:"at"`
}

func unhex(s string) []byte {
	b, err := hex.DecodeString(s)
	if err != nil {
		panic(err)
	}
	if b == nil {
		b = []byte{}
	}
	return b
}
func hx(b []byte) string { return hex.EncodeToString(b) }

// ------------------------------------------------------------------ Coq rendering

func ck(b []byte) string { return "(K " + vh.Hex(b) + ")" }
func cv(b []byte) string { return "\"" + hx(b) + "\"" }
func cokey(s *string) string {
	if s == nil {
		return "None"
	}
	return "(Some " + ck(unhex(*s)) + ")"
}
func ckvs(l []kv) string {
	it := make([]string, len(l))
	for i := range l {
		it[i] = "(" + ck(l[i].K) + ", " + cv(l[i].V) + ")"
	}
	return "(RKVs " + vh.List(it) + ")"
}

func (o op) coq() string {
	switch o.Kind {
	case "get":
		return fmt.Sprintf("(OGet %d %s)", o.H, ck(unhex(o.K)))
	case "exists":
		return fmt.Sprintf("(OExists %d %s)", o.H, ck(unhex(o.K)))
	case "put":
		return fmt.Sprintf("(OPut %d %s %s)", o.H, ck(unhex(o.K)), cv(unhex(o.V)))
	case "delete":
		return fmt.Sprintf("(ODelete %d %s)", o.H, ck(unhex(o.K)))
	case "batch", "batchfunc":
		it := make([]string, len(o.B))
		for i, r := range o.B {
			if r.Put {
				it[i] = fmt.Sprintf("(BPut %s %s)", ck(unhex(r.K)), cv(unhex(r.V)))
			} else {
				it[i] = fmt.Sprintf("(BDel %s)", ck(unhex(r.K)))
			}
		}
		return fmt.Sprintf("(OBatch %d %s)", o.H, vh.List(it))
	case "iter":
		r := "None"
		if o.HasR {
			r = fmt.Sprintf("(Some (mkRange %s %s))", cokey(o.Start), cokey(o.Limit))
		}
		stop := "None"
		if o.Stop > 0 {
			stop = fmt.Sprintf("(Some %d)", o.Stop)
		}
		return fmt.Sprintf("(OIter %d %s %s %s)", o.H, r, vh.Bool(o.Asc), stop)
	case "remove":
		return fmt.Sprintf("(ORemove %d)", o.H)
	case "close":
		return fmt.Sprintf("(OClose %d)", o.H)
	case "rawput":
		return fmt.Sprintf("(ORawPut %s %s)", ck(unhex(o.K)), cv(unhex(o.V)))
	case "rawremoveprefix":
		return fmt.Sprintf("(ORawRemoveByPrefix %s)", ck(unhex(o.K)))
	case "rawbatchremove":
		r := "None"
		if o.HasR {
			r = fmt.Sprintf("(Some (mkRange %s %s))", cokey(o.Start), cokey(o.Limit))
		}
		return fmt.Sprintf("(ORawBatchRemove %s %s)", r, vh.Z(int64(o.N)))
	case "dump":
		return "ODump"
	case "wopen":
		return fmt.Sprintf("(OWOpen %d %d)", o.H, o.N)
	case "wadd":
		r := o.B[0]
		if r.Put {
			return fmt.Sprintf("(OWAdd %d (BPut %s %s))", o.W, ck(unhex(r.K)), cv(unhex(r.V)))
		}
		return fmt.Sprintf("(OWAdd %d (BDel %s))", o.W, ck(unhex(r.K)))
	case "wdone":
		return fmt.Sprintf("(OWDone %d)", o.W)
	}
	panic("unknown op " + o.Kind)
}

// ------------------------------------------------------------------ observed outputs

type out struct {
	kind string // err ok val bool kvs num
	val  []byte
	has  bool
	b    bool
	kvs  []kv
	n    int
}

func (o out) coq() string {
	switch o.kind {
	case "err":
		return "RErr"
	case "ok":
		return "ROk"
	case "val":
		if !o.has {
			return "(RVal None)"
		}
		return "(RVal (Some " + cv(o.val) + "))"
	case "bool":
		return "(RBool " + vh.Bool(o.b) + ")"
	case "kvs":
		return ckvs(o.kvs)
	case "num":
		return "(RNum " + vh.Z(int64(o.n)) + ")"
	}
	panic("out")
}

func (o out) String() string {
	switch o.kind {
	case "val":
		return fmt.Sprintf("val(%v,%x)", o.has, o.val)
	case "bool":
		return fmt.Sprintf("bool(%v)", o.b)
	case "kvs":
		s := make([]string, len(o.kvs))
		for i := range o.kvs {
			s[i] = fmt.Sprintf("%x=%x", o.kvs[i].K, o.kvs[i].V)
		}
		return "kvs[" + strings.Join(s, " ") + "]"
	case "num":
		return fmt.Sprintf("num(%d)", o.n)
	}
	return o.kind
}

// ------------------------------------------------------------------ running the real code

// a writer obtained from PrefixStorage.BatchFunc, with a mirror of what a prefix-respecting writer flushes
type writerT struct {
	h       int
	n       int
	add     func(func(leveldbstorage.LeveldbBatch), func(func() error) error) error
	done    func(func(func() error) error) error
	dead    bool   // made on a closed handle, or done
	pending []brec // mirror
	// set by exec for the oracle: state of the mirror at the last operation
	wasDead   bool
	lastFlush []brec
}

type world struct {
	ws       []*writerT
	st       *leveldbstorage.Storage
	hs       []*leveldbstorage.PrefixStorage
	prefixes [][]byte // as given at creation
	closed   []bool
}

func newWorld(prefixes [][]byte) *world {
	st, err := leveldbstorage.NewStorage(leveldbStorage.NewMemStorage(), nil)
	if err != nil {
		panic(err)
	}
	w := &world{st: st, prefixes: prefixes, closed: make([]bool, len(prefixes))}
	for _, p := range prefixes {
		w.hs = append(w.hs, leveldbstorage.NewPrefixStorage(st, bytes.Clone(p)))
	}
	return w
}

func (w *world) dump() []kv {
	var l []kv
	if err := w.st.Iter(nil, func(k, v []byte) (bool, error) {
		l = append(l, kv{k, v})
		return true, nil
	}, true); err != nil {
		panic(err)
	}
	return l
}

func mkrange(o op) *leveldbutil.Range {
	if !o.HasR {
		return nil
	}
	r := &leveldbutil.Range{}
	if o.Start != nil {
		r.Start = unhex(*o.Start)
	}
	if o.Limit != nil {
		r.Limit = unhex(*o.Limit)
	}
	return r
}

func iterOut(iter func(*leveldbutil.Range, func([]byte, []byte) (bool, error), bool) error, o op) out {
	var l []kv
	n := 0
	err := iter(mkrange(o), func(k, v []byte) (bool, error) {
		l = append(l, kv{bytes.Clone(k), bytes.Clone(v)})
		n++
		return !(o.Stop > 0 && n >= o.Stop), nil
	}, o.Asc)
	if err != nil {
		return out{kind: "err"}
	}
	return out{kind: "kvs", kvs: l}
}

func errOut(err error) out {
	if err != nil {
		return out{kind: "err"}
	}
	return out{kind: "ok"}
}

const hangTimeout = 20 * time.Second

var outDir = "."

func (w *world) execGuarded(o op) (out, bool) {
	ch := make(chan out, 1)
	go func() { ch <- w.exec(o) }()
	select {
	case r := <-ch:
		return r, false
	case <-time.After(hangTimeout):
		return out{}, true
	}
}

func (w *world) exec(o op) out {
	switch o.Kind {
	case "get":
		v, found, err := w.hs[o.H].Get(unhex(o.K))
		if err != nil {
			return out{kind: "err"}
		}
		return out{kind: "val", has: found, val: v}
	case "exists":
		found, err := w.hs[o.H].Exists(unhex(o.K))
		if err != nil {
			return out{kind: "err"}
		}
		return out{kind: "bool", b: found}
	case "put":
		return errOut(w.hs[o.H].Put(unhex(o.K), unhex(o.V), nil))
	case "delete":
		return errOut(w.hs[o.H].Delete(unhex(o.K), nil))
	case "batch":
		b := w.hs[o.H].NewBatch()
		for _, r := range o.B {
			if r.Put {
				b.Put(unhex(r.K), unhex(r.V))
			} else {
				b.Delete(unhex(r.K))
			}
		}
		return errOut(w.hs[o.H].Batch(b, nil))
	case "batchfunc":
		add, done, cancel := w.hs[o.H].BatchFunc(context.Background(), uint64(o.N), nil)
		defer cancel()
		direct := func(f func() error) error { return f() }
		for _, r := range o.B {
			r := r
			if err := add(func(b leveldbstorage.LeveldbBatch) {
				if r.Put {
					b.Put(unhex(r.K), unhex(r.V))
				} else {
					b.Delete(unhex(r.K))
				}
			}, direct); err != nil {
				return out{kind: "err"}
			}
		}
		return errOut(done(direct))
	case "iter":
		return iterOut(w.hs[o.H].Iter, o)
	case "remove":
		return errOut(w.hs[o.H].Remove())
	case "close":
		w.closed[o.H] = true
		return errOut(w.hs[o.H].Close())
	case "rawput":
		return errOut(w.st.Put(unhex(o.K), unhex(o.V), nil))
	case "rawremoveprefix":
		return errOut(leveldbstorage.RemoveByPrefix(w.st, unhex(o.K)))
	case "rawbatchremove":
		n, err := leveldbstorage.BatchRemove(w.st, mkrange(o), o.N)
		if err != nil {
			return out{kind: "err"}
		}
		return out{kind: "num", n: n}
	case "dump":
		return out{kind: "kvs", kvs: w.dump()}
	case "wopen":
		add, done, _ := w.hs[o.H].BatchFunc(context.Background(), uint64(o.N), nil)
		w.ws = append(w.ws, &writerT{h: o.H, n: o.N, add: add, done: done, dead: w.closed[o.H]})
		return out{kind: "ok"}
	case "wadd":
		wr := w.ws[o.W]
		wr.wasDead, wr.lastFlush = wr.dead, nil
		if !wr.dead {
			wr.pending = append(wr.pending, o.B[0])
			if len(wr.pending) >= wr.n {
				wr.lastFlush, wr.pending = wr.pending, nil
			}
		}
		r := o.B[0]
		return errOut(wr.add(func(b leveldbstorage.LeveldbBatch) {
			if r.Put {
				b.Put(unhex(r.K), unhex(r.V))
			} else {
				b.Delete(unhex(r.K))
			}
		}, func(f func() error) error { return f() }))
	case "wdone":
		wr := w.ws[o.W]
		wr.wasDead, wr.lastFlush = wr.dead, nil
		if !wr.dead {
			wr.lastFlush, wr.pending = wr.pending, nil
			wr.dead = true
		}
		return errOut(wr.done(func(f func() error) error { return f() }))
	}
	panic("exec " + o.Kind)
}

// ------------------------------------------------------------------ the property oracle (independent of the Coq model)

func asMap(l []kv) map[string][]byte {
	m := map[string][]byte{}
	for _, e := range l {
		m[string(e.K)] = e.V
	}
	return m
}

func sameMap(a, b map[string][]byte) bool {
	if len(a) != len(b) {
		return false
	}
	for k, v := range a {
		w, ok := b[k]
		if !ok || !bytes.Equal(v, w) {
			return false
		}
	}
	return true
}

func sortedKVs(m map[string][]byte) []kv {
	l := make([]kv, 0, len(m))
	for k, v := range m {
		l = append(l, kv{[]byte(k), v})
	}
	sort.Slice(l, func(i, j int) bool { return bytes.Compare(l[i].K, l[j].K) < 0 })
	return l
}

func sameKVs(a, b []kv) bool {
	if len(a) != len(b) {
		return false
	}
	for i := range a {
		if !bytes.Equal(a[i].K, b[i].K) || !bytes.Equal(a[i].V, b[i].V) {
			return false
		}
	}
	return true
}

func inUserRange(o op, k []byte) bool {
	if !o.HasR {
		return true
	}
	if o.Start != nil && bytes.Compare(k, unhex(*o.Start)) < 0 {
		return false
	}
	if o.Limit != nil && bytes.Compare(k, unhex(*o.Limit)) >= 0 {
		return false
	}
	return true
}

// oracle returns "" or (class, description)
func oracle(w *world, o op, got out, before, after []kv) (string, string) {
	bm, am := asMap(before), asMap(after)
	if !sort.SliceIsSorted(after, func(i, j int) bool { return bytes.Compare(after[i].K, after[j].K) < 0 }) {
		return "dump-unsorted", "raw dump not ascending"
	}
	through := -1
	viaWriter := false
	switch o.Kind {
	case "get", "exists", "put", "delete", "batch", "batchfunc", "iter", "remove", "close", "wopen":
		through = o.H
	case "wadd", "wdone":
		through = w.ws[o.W].h
		viaWriter = true
	}
	var p []byte
	if through >= 0 {
		p = w.prefixes[through]
		// isolation: nothing outside the prefix changes, whatever the operation
		for k, v := range bm {
			if !bytes.HasPrefix([]byte(k), p) {
				if x, ok := am[k]; !ok || !bytes.Equal(x, v) {
					return "prefix-isolation", fmt.Sprintf("%s through prefix %x changed outside key %x", o.Kind, p, k)
				}
			}
		}
		for k := range am {
			if !bytes.HasPrefix([]byte(k), p) {
				if _, ok := bm[k]; !ok {
					return "prefix-isolation", fmt.Sprintf("%s through prefix %x created outside key %x", o.Kind, p, k)
				}
			}
		}
		wasClosed := w.closed[through] && o.Kind != "close" && o.Kind != "wopen" && !viaWriter
		if o.Kind == "close" {
			// closed flag is set by exec; closing never changes content
			if !sameMap(bm, am) {
				return "close-changes-content", "Close changed the storage"
			}
			return "", ""
		}
		if wasClosed {
			if got.kind != "err" {
				return "closed-handle-acts", fmt.Sprintf("%s on a closed prefix storage (%x) did not fail: %s", o.Kind, p, got)
			}
			if !sameMap(bm, am) {
				return "closed-handle-acts", fmt.Sprintf("%s on a closed prefix storage (%x) changed the storage", o.Kind, p)
			}
			return "", ""
		}
	}
	want := map[string][]byte{}
	for k, v := range bm {
		want[k] = v
	}
	switch o.Kind {
	case "get", "exists":
		k := unhex(o.K)
		if len(k) == 0 {
			if got.kind != "err" {
				return "empty-key-accepted", "empty key accepted by " + o.Kind
			}
			break
		}
		v, ok := bm[string(p)+string(k)]
		if o.Kind == "get" && (got.kind != "val" || got.has != ok || (ok && !bytes.Equal(got.val, v))) {
			return "prefix-read-wrong", fmt.Sprintf("Get(%x) through %x = %s, raw has (%v,%x)", k, p, got, ok, v)
		}
		if o.Kind == "exists" && (got.kind != "bool" || got.b != ok) {
			return "prefix-read-wrong", fmt.Sprintf("Exists(%x) through %x = %s, raw has %v", k, p, got, ok)
		}
	case "put", "delete":
		k := unhex(o.K)
		if len(k) == 0 {
			if got.kind != "err" {
				return "empty-key-accepted", "empty key accepted by " + o.Kind
			}
			break
		}
		if got.kind != "ok" {
			return "write-failed", o.Kind + " failed"
		}
		if o.Kind == "put" {
			want[string(p)+string(k)] = unhex(o.V)
		} else {
			delete(want, string(p)+string(k))
		}
	case "batch", "batchfunc":
		if got.kind != "ok" {
			return "write-failed", o.Kind + " failed"
		}
		for _, r := range o.B {
			if r.Put {
				want[string(p)+string(unhex(r.K))] = unhex(r.V)
			} else {
				delete(want, string(p)+string(unhex(r.K)))
			}
		}
	case "iter":
		if (o.Start != nil && *o.Start == "") || (o.Limit != nil && *o.Limit == "") {
			if o.HasR {
				if got.kind != "err" {
					return "empty-key-accepted", "empty range bound accepted by Iter"
				}
				break
			}
		}
		if got.kind != "kvs" {
			return "iter-failed", "Iter failed"
		}
		var exp []kv
		for _, e := range before {
			if bytes.HasPrefix(e.K, p) && inUserRange(o, e.K[len(p):]) {
				exp = append(exp, kv{e.K[len(p):], e.V})
			}
		}
		if !o.Asc {
			for i, j := 0, len(exp)-1; i < j; i, j = i+1, j-1 {
				exp[i], exp[j] = exp[j], exp[i]
			}
		}
		if o.Stop > 0 && len(exp) > o.Stop {
			exp = exp[:o.Stop]
		}
		if !sameKVs(exp, got.kvs) {
			return "iter-not-exact", fmt.Sprintf("Iter through %x: got %s want %s", p, got, out{kind: "kvs", kvs: exp})
		}
	case "remove":
		if got.kind != "ok" {
			return "write-failed", "Remove failed"
		}
		for k := range bm {
			if bytes.HasPrefix([]byte(k), p) {
				delete(want, k)
			}
		}
	case "wopen":
		if got.kind != "ok" {
			return "write-failed", "BatchFunc failed"
		}
	case "wadd", "wdone":
		// a writer made before Close may keep writing or may refuse: what it writes must be exactly its own
		// records under the prefix it was made with
		wr := w.ws[o.W]
		if wr.wasDead {
			if got.kind != "err" {
				return "closed-handle-acts", fmt.Sprintf("%s through a writer that was made on a closed prefix storage / already done did not fail", o.Kind)
			}
			break
		}
		if got.kind == "err" && w.closed[wr.h] && sameMap(bm, am) {
			return "", "" // refused after Close: fine
		}
		if got.kind != "ok" {
			return "write-failed", o.Kind + " failed"
		}
		for _, r := range wr.lastFlush {
			if r.Put {
				want[string(p)+string(unhex(r.K))] = unhex(r.V)
			} else {
				delete(want, string(p)+string(unhex(r.K)))
			}
		}
	case "rawput":
		want[string(unhex(o.K))] = unhex(o.V)
	case "rawremoveprefix":
		if got.kind != "ok" {
			return "write-failed", "RemoveByPrefix failed"
		}
		for k := range bm {
			if bytes.HasPrefix([]byte(k), unhex(o.K)) {
				delete(want, k)
			}
		}
	case "rawbatchremove":
		if got.kind != "num" {
			return "write-failed", "BatchRemove failed"
		}
		n := 0
		if o.N != 0 {
			for k := range bm {
				if inUserRange(o, []byte(k)) {
					delete(want, k)
					n++
				}
			}
		}
		if got.n != n {
			return "batch-remove-not-exact", fmt.Sprintf("BatchRemove returned %d, %d keys in range", got.n, n)
		}
	case "dump":
		if !sameKVs(got.kvs, before) {
			return "dump-unstable", "two consecutive dumps differ"
		}
	}
	if !sameMap(want, am) {
		cls := "write-not-exact"
		switch o.Kind {
		case "remove", "rawremoveprefix":
			cls = "remove-by-prefix-not-exact"
		case "rawbatchremove":
			cls = "batch-remove-not-exact"
		}
		return cls, fmt.Sprintf("%s: storage after = %s, want %s", o.Kind, out{kind: "kvs", kvs: after}, out{kind: "kvs", kvs: sortedKVs(want)})
	}
	return "", ""
}

// ------------------------------------------------------------------ generator

var prefixPool = [][]byte{
	[]byte("ab"), []byte("ab\x00"), []byte("ab\xff"), []byte("a"), []byte("\xff\xff"),
	[]byte("\xff"), []byte("ac"), []byte("ab\xff\xff"), []byte("b"), {0x01, 0x02}, {0x01, 0x02, 0x00, 0x00, 0x01},
}

var alphabet = []byte{0x00, 0x01, 'a', 'b', 'c', 0xfe, 0xff}

func rbytes(r *vh.Rand, lo, hi int) []byte {
	n := r.Range(lo, hi)
	b := make([]byte, n)
	for i := range b {
		b[i] = alphabet[r.Intn(len(alphabet))]
	}
	return b
}

func userKey(r *vh.Rand) []byte {
	if r.Chance(1, 40) {
		return []byte{}
	}
	return rbytes(r, 1, 3)
}

func rawKey(r *vh.Rand, prefixes [][]byte) []byte {
	switch r.Intn(4) {
	case 0: // exactly a prefix, or a prefix cut / extended by one byte
		p := prefixPool[r.Intn(len(prefixPool))]
		switch r.Intn(3) {
		case 0:
			return bytes.Clone(p)
		case 1:
			if len(p) > 1 {
				return bytes.Clone(p[:len(p)-1])
			}
			return bytes.Clone(p)
		default:
			return append(bytes.Clone(p), alphabet[r.Intn(len(alphabet))])
		}
	case 1: // prefix limit itself (last byte + 1)
		p := bytes.Clone(prefixes[r.Intn(len(prefixes))])
		p[len(p)-1]++
		return p
	case 2:
		return append(bytes.Clone(prefixes[r.Intn(len(prefixes))]), rbytes(r, 0, 2)...)
	default:
		return rbytes(r, 1, 4)
	}
}

func optBound(r *vh.Rand, gen func() []byte) *string {
	switch {
	case r.Chance(1, 3):
		return nil
	case r.Chance(1, 30):
		s := ""
		return &s
	default:
		s := hx(gen())
		return &s
	}
}

func genOp(r *vh.Rand, prefixes [][]byte, nkeys int) op {
	h := r.Intn(len(prefixes))
	val := func() string { return hx(r.Bytes(r.Range(0, 3))) }
	recs := func() []brec {
		n := r.Range(0, 6)
		l := make([]brec, n)
		for i := range l {
			k := userKey(r)
			if r.Chance(2, 3) {
				l[i] = brec{Put: true, K: hx(k), V: val()}
			} else {
				l[i] = brec{K: hx(k)}
			}
		}
		return l
	}
	x := r.Intn(100)
	switch {
	case x < 10:
		return op{Kind: "get", H: h, K: hx(userKey(r))}
	case x < 16:
		return op{Kind: "exists", H: h, K: hx(userKey(r))}
	case x < 34:
		return op{Kind: "put", H: h, K: hx(userKey(r)), V: val()}
	case x < 40:
		return op{Kind: "delete", H: h, K: hx(userKey(r))}
	case x < 47:
		return op{Kind: "batch", H: h, B: recs()}
	case x < 51:
		return op{Kind: "batchfunc", H: h, B: recs(), N: r.Range(1, 4)}
	case x < 67:
		o := op{Kind: "iter", H: h, Asc: r.Bool()}
		if r.Chance(2, 3) {
			o.HasR = true
			o.Start = optBound(r, func() []byte { return rbytes(r, 1, 3) })
			o.Limit = optBound(r, func() []byte { return rbytes(r, 1, 3) })
		}
		if r.Chance(1, 3) {
			o.Stop = r.Range(1, 4)
		}
		return o
	case x < 70:
		return op{Kind: "remove", H: h}
	case x < 71:
		return op{Kind: "close", H: h}
	case x < 86:
		return op{Kind: "rawput", K: hx(rawKey(r, prefixes)), V: val()}
	case x < 90:
		var p []byte
		if r.Bool() {
			p = prefixPool[r.Intn(len(prefixPool))]
		} else {
			p = rbytes(r, 0, 2)
		}
		return op{Kind: "rawremoveprefix", K: hx(p)}
	case x < 96:
		o := op{Kind: "rawbatchremove"}
		if r.Chance(4, 5) {
			o.HasR = true
			o.Start = optBound(r, func() []byte { return rawKey(r, prefixes) })
			o.Limit = optBound(r, func() []byte { return rawKey(r, prefixes) })
			if r.Chance(1, 3) { // the range of a prefix
				br := leveldbutil.BytesPrefix(prefixPool[r.Intn(len(prefixPool))])
				s := hx(br.Start)
				o.Start = &s
				o.Limit = nil
				if br.Limit != nil {
					l := hx(br.Limit)
					o.Limit = &l
				}
			}
		}
		switch r.Intn(8) {
		case 0:
			o.N = 0
		case 1:
			o.N = -1
		case 2: // exactly the number of keys / a divisor of it
			o.N = nkeys
		case 3:
			o.N = 333
		default:
			o.N = r.Range(1, 5)
		}
		return o
	default:
		return op{Kind: "dump"}
	}
}

func genCase(r *vh.Rand, nops int) replay {
	n := r.Range(3, 5)
	perm := r.Perm(len(prefixPool))
	var prefixes [][]byte
	for i := 0; i < n; i++ {
		if i < 3 && r.Chance(3, 4) {
			prefixes = append(prefixes, prefixPool[perm[i]%5]) // favour the five of the design
		} else {
			prefixes = append(prefixes, prefixPool[perm[i]])
		}
	}
	rp := replay{}
	for _, p := range prefixes {
		rp.Prefixes = append(rp.Prefixes, hx(p))
	}
	// seed: a few raw keys and a few keys per handle so that iterations and removals are not trivial
	for i := 0; i < 6; i++ {
		rp.Ops = append(rp.Ops, op{Kind: "rawput", K: hx(rawKey(r, prefixes)), V: hx(r.Bytes(1))})
	}
	for h := range prefixes {
		rp.Ops = append(rp.Ops, op{Kind: "batch", H: h, B: []brec{
			{Put: true, K: hx(rbytes(r, 1, 2)), V: hx(r.Bytes(1))}, {Put: true, K: hx(rbytes(r, 1, 2)), V: hx(r.Bytes(1))},
		}})
	}
	nk := 6 + 2*len(prefixes)
	for len(rp.Ops) < nops {
		rp.Ops = append(rp.Ops, genOp(r, prefixes, nk-r.Intn(4)))
	}
	// writers (BatchFunc): one or two per case; adds spread over the history, sometimes with a Close of the handle
	// between the adds so that batches are renewed after the Close
	nw := 0
	if r.Chance(2, 3) {
		nw = r.Range(1, 2)
	}
	for wi := 0; wi < nw; wi++ {
		h := r.Intn(len(prefixes))
		story := []op{{Kind: "wopen", H: h, N: r.Range(1, 3)}}
		nadd := r.Range(2, 7)
		closeAt := -1
		if r.Chance(1, 2) {
			closeAt = r.Range(0, nadd-1)
		}
		for i := 0; i < nadd; i++ {
			if i == closeAt {
				story = append(story, op{Kind: "close", H: h})
			}
			k := userKey(r)
			if len(k) == 0 || r.Chance(1, 4) { // keys that are raw keys of other prefixes / of the raw seed
				k = rawKey(r, prefixes)
			}
			rec := brec{K: hx(k)}
			if r.Chance(4, 5) {
				rec.Put, rec.V = true, hx(r.Bytes(r.Range(0, 2)))
			}
			story = append(story, op{Kind: "wadd", W: wi, B: []brec{rec}})
		}
		if r.Chance(4, 5) {
			story = append(story, op{Kind: "wdone", W: wi})
		}
		if r.Chance(1, 4) {
			story = append(story, op{Kind: "wadd", W: wi, B: []brec{{Put: true, K: hx(rbytes(r, 1, 2)), V: "77"}}})
		}
		// merge the story into the history keeping both orders (writer indices follow the order of the wopen ops)
		pos := r.Range(6+len(prefixes), len(rp.Ops))
		if wi > 0 {
			for j, o := range rp.Ops {
				if o.Kind == "wopen" && j >= pos {
					pos = j + 1
				}
			}
			// after the previous writer's wopen
			for j, o := range rp.Ops {
				if o.Kind == "wopen" && pos <= j {
					pos = j + 1
				}
			}
		}
		var merged []op
		merged = append(merged, rp.Ops[:pos]...)
		rest := rp.Ops[pos:]
		for len(story) > 0 || len(rest) > 0 {
			if len(story) > 0 && (len(rest) == 0 || r.Chance(1, 2)) {
				merged = append(merged, story[0])
				story = story[1:]
			} else {
				merged = append(merged, rest[0])
				rest = rest[1:]
			}
		}
		rp.Ops = merged
	}
	rp.Ops = append(rp.Ops, op{Kind: "dump"})
	return rp
}

func sp(s string) *string { return &s }

// hand-written cases that always run first
func corpus() []replay {
	return []replay{
		{ // Close, then Remove / Iter(nil) / BatchFunc through the closed handle (once: wiped or leaked the whole storage)
			Prefixes: []string{hx([]byte("ab")), hx([]byte("a"))},
			Ops: []op{
				{Kind: "rawput", K: hx([]byte("zz")), V: "01"}, {Kind: "put", H: 0, K: "63", V: "02"}, {Kind: "put", H: 1, K: "63", V: "03"},
				{Kind: "close", H: 0}, {Kind: "iter", H: 0, Asc: true}, {Kind: "remove", H: 0},
				{Kind: "batchfunc", H: 0, B: []brec{{Put: true, K: "7a7a", V: "09"}}, N: 1},
				{Kind: "batch", H: 0, B: []brec{{Put: true, K: "7a7a", V: "09"}}},
				{Kind: "get", H: 0, K: "63"}, {Kind: "put", H: 0, K: "63", V: "05"}, {Kind: "delete", H: 0, K: "63"},
				{Kind: "iter", H: 0, HasR: true, Start: sp("63"), Asc: true}, {Kind: "dump"},
			},
		},
		{ // a writer (BatchFunc, batch size 2) obtained BEFORE Close and used after it: roll-overs after the Close
			Prefixes: []string{hx([]byte("ab")), hx([]byte("a")), "ffff"},
			Ops: []op{
				{Kind: "rawput", K: hx([]byte("zz")), V: "01"}, {Kind: "put", H: 1, K: "63", V: "03"},
				{Kind: "wopen", H: 0, N: 2}, {Kind: "wadd", W: 0, B: []brec{{Put: true, K: "6b31", V: "11"}}},
				{Kind: "close", H: 0},
				{Kind: "wadd", W: 0, B: []brec{{Put: true, K: "6b32", V: "12"}}}, {Kind: "wadd", W: 0, B: []brec{{Put: true, K: "63", V: "13"}}},
				{Kind: "wadd", W: 0, B: []brec{{Put: true, K: "7a7a", V: "14"}}}, {Kind: "wadd", W: 0, B: []brec{{K: "6b31"}}},
				{Kind: "wadd", W: 0, B: []brec{{Put: true, K: "ffff", V: "15"}}}, {Kind: "wdone", W: 0}, {Kind: "dump"},
				{Kind: "wadd", W: 0, B: []brec{{Put: true, K: "6b39", V: "19"}}}, {Kind: "wdone", W: 0},
				{Kind: "wopen", H: 0, N: 1}, {Kind: "wadd", W: 1, B: []brec{{Put: true, K: "6b38", V: "18"}}}, {Kind: "wdone", W: 1}, {Kind: "dump"},
			},
		},
		{ // all-0xff prefix and its neighbours
			Prefixes: []string{"ffff", "ff", "61"},
			Ops: []op{
				{Kind: "rawput", K: "ff", V: "01"}, {Kind: "rawput", K: "fffe", V: "02"}, {Kind: "rawput", K: "ffff", V: "03"},
				{Kind: "rawput", K: "ffffff", V: "04"}, {Kind: "rawput", K: "ffff00", V: "05"}, {Kind: "rawput", K: "fe", V: "06"},
				{Kind: "iter", H: 0, Asc: true}, {Kind: "iter", H: 0, Asc: false}, {Kind: "iter", H: 1, Asc: true},
				{Kind: "iter", H: 0, HasR: true, Start: sp("00"), Limit: sp("ff"), Asc: true},
				{Kind: "remove", H: 0}, {Kind: "dump"}, {Kind: "remove", H: 1}, {Kind: "dump"},
			},
		},
		{ // ab / ab\x00 / ab\xff and keys equal to the prefix limit ("ac"), batch removal with limits around the key count
			Prefixes: []string{hx([]byte("ab")), hx([]byte("ab\x00")), hx([]byte("ab\xff")), hx([]byte("a"))},
			Ops: []op{
				{Kind: "rawput", K: hx([]byte("ac")), V: "01"}, {Kind: "rawput", K: hx([]byte("ab")), V: "02"}, {Kind: "rawput", K: hx([]byte("aa\xff")), V: "03"},
				{Kind: "put", H: 0, K: "00", V: "04"}, {Kind: "put", H: 1, K: "61", V: "05"}, {Kind: "put", H: 2, K: "ff", V: "06"}, {Kind: "put", H: 0, K: "ff", V: "07"},
				{Kind: "batch", H: 0, B: []brec{{Put: true, K: "", V: "08"}}},
				{Kind: "iter", H: 0, Asc: true}, {Kind: "iter", H: 1, Asc: true}, {Kind: "iter", H: 2, Asc: false}, {Kind: "iter", H: 3, Asc: true, Stop: 2},
				{Kind: "iter", H: 0, HasR: true, Limit: sp("ff"), Asc: false}, {Kind: "iter", H: 0, HasR: true, Start: sp("00"), Asc: true},
				{Kind: "rawbatchremove", HasR: true, Start: sp(hx([]byte("ab"))), Limit: sp(hx([]byte("ac"))), N: 2}, {Kind: "dump"},
				{Kind: "rawbatchremove", N: 0}, {Kind: "rawbatchremove", N: 3}, {Kind: "dump"},
			},
		},
	}
}

// ------------------------------------------------------------------ main

func runCase(rp replay, res *vh.Result, cases *vh.Cases, verbose bool) {
	var prefixes [][]byte
	for _, p := range rp.Prefixes {
		prefixes = append(prefixes, unhex(p))
	}
	w := newWorld(prefixes)
	defer w.st.Close()
	items := make([]string, 0, len(rp.Ops))
	before := w.dump()
	nontrivial := false
	for i, o := range rp.Ops {
		got, hung := w.execGuarded(o)
		if hung {
			// the loops of the code under test must terminate (BatchRemove's restart loop): report and stop,
			// the stuck goroutine keeps the storage busy
			r2 := rp
			r2.Ops = rp.Ops[:i+1]
			r2.At = i
			res.Fail("op-does-not-terminate", fmt.Sprintf("op %d %s did not return within %s", i, o.Kind, hangTimeout), r2)
			res.Note("run aborted after a non-terminating operation")
			if cases != nil {
				res.ModelCases = cases.Len()
				_ = cases.Write(outDir)
			}
			res.Write(outDir)
			os.Exit(0)
		}
		after := w.dump()
		if verbose {
			fmt.Printf("%3d %-60s -> %s\n", i, o.coq(), got)
		}
		if cls, desc := oracle(w, o, got, before, after); cls != "" {
			r2 := rp
			r2.Ops = rp.Ops[:i+1]
			r2.At = i
			res.Fail(cls, fmt.Sprintf("op %d %s: %s", i, o.Kind, desc), r2)
		}
		res.Dist("op:" + o.Kind)
		if got.kind == "err" {
			res.Dist("out:err")
		}
		if (o.Kind == "iter" && len(got.kvs) > 0) || ((o.Kind == "remove" || o.Kind == "rawbatchremove" || o.Kind == "rawremoveprefix") && len(after) < len(before) && len(after) > 0) {
			nontrivial = true
		}
		items = append(items, "("+o.coq()+", "+got.coq()+")")
		before = after
	}
	pf := make([]string, len(prefixes))
	for i := range prefixes {
		pf[i] = ck(prefixes[i])
	}
	key := strings.Join(items, ";")
	res.Count(key, nontrivial)
	res.Dist(fmt.Sprintf("final_keys:%d", (len(before)+4)/5*5))
	if cases != nil {
		cases.Add("("+vh.List(pf)+",\n   "+vh.List(items)+")", rp)
	}
}

func main() {
	o := vh.ParseFlags()
	outDir = o.Out
	res := vh.NewResult("a case = 3-5 PrefixStorage handles (prefixes ab, ab\\x00, ab\\xff, a, \\xff\\xff, ...) on one mem-leveldb, ~40 random operations (get/exists/put/delete/batch/BatchFunc/iter asc+desc with ranges and early stop/Remove/Close/raw put/RemoveByPrefix/BatchRemove); after every operation the whole raw storage is dumped and the property's statement is checked on before/after; non-trivial = some iteration returned entries or some removal removed part of the storage")
	if o.Replay != "" {
		var rp replay
		if err := vh.ReadReplay(o.Replay, &rp); err != nil {
			panic(err)
		}
		runCase(rp, res, nil, true)
		for _, f := range res.Failures {
			fmt.Printf("FAIL %s: %s\n", f.Class, f.Desc)
		}
		res.Failures = []vh.Failure{}
	}
	cases := &vh.Cases{Import: "From MV Require Import C25.Model.", Type: "case", CheckFn: "check", Shard: 100}
	for _, rp := range corpus() {
		runCase(rp, res, cases, false)
	}
	r := vh.NewRand(o.Seed)
	n := o.Pick(300, 6000)
	for i := 0; i < n; i++ {
		runCase(genCase(r, 40), res, cases, false)
	}
	_ = leveldb.ErrNotFound
	res.ModelCases = cases.Len()
	if err := cases.Write(o.Out); err != nil {
		panic(err)
	}
	res.Write(o.Out)
}
