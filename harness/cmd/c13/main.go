// c13: isaac/block SuffrageProof -- an accepted suffrage proof binds its suffrage state to the states tree of the
// block map it carries and, except at genesis, directly follows the previous suffrage state.
//
// Real objects throughout: isaac.Manifest, isaacblock.BlockMap signed by a local node, base.BaseState with
// isaac.SuffrageNodesStateValue, fixedtree Writer/Tree/Proof over the state hashes, isaacblock.SuffrageProof.
// Genuine chains of blocks plus forgeries (foreign tree, re-rooted path, swapped state, renamed sibling, wrong /
// older / non-suffrage / nil previous, wrong suffrage height, height mismatches, nil states tree, mutated proof).
// The oracle is the property's statement over what the harness knows about the genuine blocks; the same inputs
// and observed results are written as Coq cases for coq/C13/Model.v (hash function given as recorded table).
package main

import (
	"bytes"
	"fmt"
	"sort"
	"time"

	"github.com/spikeekips/mitum/base"
	"github.com/spikeekips/mitum/isaac"
	isaacblock "github.com/spikeekips/mitum/isaac/block"
	"github.com/spikeekips/mitum/util"
	"github.com/spikeekips/mitum/util/fixedtree"
	"github.com/spikeekips/mitum/util/valuehash"
	"verifharness/vh"
)

var networkID = base.NetworkID([]byte("c13-network"))

// ---------------------------------------------------------------- plain fixedtree nodes and the recorded hash function (as in c12)

type rnode struct {
	Key   []byte `json:"key"`
	Hash  []byte `json:"hash"`
	Empty bool   `json:"empty"`
}

func fromNodes(ns []fixedtree.Node) []rnode {
	out := make([]rnode, len(ns))
	for i, n := range ns {
		switch {
		case n.IsEmpty():
			out[i] = rnode{Empty: true}
		default:
			var h []byte
			if n.Hash() != nil {
				h = append([]byte{}, n.Hash().Bytes()...)
			}
			out[i] = rnode{Key: []byte(n.Key()), Hash: h}
		}
	}
	return out
}

func toNodes(rs []rnode) []fixedtree.Node {
	out := make([]fixedtree.Node, len(rs))
	for i, r := range rs {
		if r.Empty {
			out[i] = fixedtree.EmptyBaseNode()
		} else {
			out[i] = fixedtree.NewBaseNode(string(r.Key)).SetHash(valuehash.NewBytes(append([]byte{}, r.Hash...)))
		}
	}
	return out
}

func (r rnode) hash() []byte {
	if r.Empty {
		return nil
	}
	return r.Hash
}

func (r rnode) coq() string {
	return "(" + vh.BInts(r.Key) + ", " + vh.BInts(r.Hash) + ", " + vh.Bool(r.Empty) + ")"
}

func coqNodes(rs []rnode) string {
	ss := make([]string, len(rs))
	for i := range rs {
		ss[i] = rs[i].coq()
	}
	return vh.List(ss)
}

type htab struct {
	m     map[string][]byte
	order []string
}

func newTab() *htab { return &htab{m: map[string][]byte{}} }

func (t *htab) H(in []byte) []byte {
	k := string(in)
	if o, ok := t.m[k]; ok {
		return o
	}
	o := valuehash.NewSHA256(in).Bytes()
	t.m[k] = o
	t.order = append(t.order, k)
	return o
}

func (t *htab) coq() string {
	ss := make([]string, len(t.order))
	for i, k := range t.order {
		ss[i] = "(" + vh.BInts([]byte(k)) + ", " + vh.BInts(t.m[k]) + ")"
	}
	return vh.List(ss)
}

func concat(a, b, c []byte) []byte {
	o := make([]byte, 0, len(a)+len(b)+len(c))
	o = append(o, a...)
	o = append(o, b...)
	return append(o, c...)
}

// every hash application fixedtree.Proof.Prove may perform on (p, key): all levels, all candidates
func refProveQueries(p []rnode, key []byte, tab *htab) {
	i := -1
	for j := range p {
		if bytes.Equal(p[j].Key, key) {
			i = j
			break
		}
	}
	if i < 0 {
		return
	}
	var lh, rh []byte
	var rest []rnode
	switch {
	case i%2 == 0:
		if i > 1 {
			lh, rh = p[i-2].hash(), p[i-1].hash()
		}
		rest = p[i:]
	case i+1 == len(p):
		if i > 1 {
			lh, rh = p[i-2].hash(), p[i-1].hash()
		}
		rest = p[i : i+1]
	default:
		if i > 1 {
			lh, rh = p[i-3].hash(), p[i-2].hash()
		}
		rest = p[i-1:]
	}
	lvl0 := true
	for len(rest) > 0 {
		cs := rest[:1]
		if len(rest) > 2 {
			cs = rest[:2]
		}
		for _, c := range cs {
			if c.Empty || len(c.Key) == 0 || (lvl0 && !bytes.Equal(c.Key, key)) {
				continue
			}
			tab.H(concat(c.Key, lh, rh))
		}
		if len(rest) <= 2 {
			break
		}
		lh, rh = rest[0].hash(), rest[1].hash()
		rest = rest[2:]
		lvl0 = false
	}
}

// ---------------------------------------------------------------- real objects

type world struct {
	r      *vh.Rand
	locals []base.LocalNode
	// what the harness knows about the blocks it made: manifest hash -> keys of the states tree committed by it
	committed map[string]map[string]bool
}

func (w *world) hash() util.Hash { return valuehash.NewSHA256(w.r.Bytes(32)) }

func (w *world) sufValue(sufheight int64, n int, start int64) base.StateValue {
	vs := make([]base.SuffrageNodeStateValue, n)
	for i := range vs {
		vs[i] = isaac.NewSuffrageNodeStateValue(w.locals[i%len(w.locals)], base.Height(start))
	}
	return isaac.NewSuffrageNodesStateValue(base.Height(sufheight), vs)
}

func (w *world) sufState(height, sufheight int64, nnodes int, prev util.Hash) base.State {
	return base.NewBaseState(base.Height(height), isaac.SuffrageStateKey, w.sufValue(sufheight, nnodes, height), prev, []util.Hash{w.hash()})
}

func (w *world) otherState(height int64, prev util.Hash) base.State {
	return base.NewBaseState(base.Height(height), "other-"+fmt.Sprint(w.r.Intn(1000)), base.NewDummyStateValue(fmt.Sprint(w.r.Intn(1000))), prev, []util.Hash{w.hash()})
}

// a states tree over the given state hash strings plus some more
func (w *world) tree(keys []string) fixedtree.Tree {
	ks := append([]string{}, keys...)
	for i := w.r.Range(0, 9); i > 0; i-- {
		ks = append(ks, w.hash().String())
	}
	pm := w.r.Perm(len(ks))
	tw, err := fixedtree.NewWriter(base.StateFixedtreeHint, uint64(len(ks)))
	if err != nil {
		panic(err)
	}
	for i, j := range pm {
		if err := tw.Add(uint64(i), fixedtree.NewBaseNode(ks[j])); err != nil {
			panic(err)
		}
	}
	tr, err := tw.Tree()
	if err != nil {
		panic(err)
	}
	return tr
}

var fixedTime = time.Unix(1700000000, 0).UTC()

// a block map signed by a local node whose manifest carries the given states tree root (nil = no states tree)
func (w *world) blockMap(height int64, statesTree util.Hash, keys map[string]bool) isaacblock.BlockMap {
	var previous, suffrage util.Hash
	if height != 0 {
		previous, suffrage = w.hash(), w.hash()
	}
	manifest := isaac.NewManifest(base.Height(height), previous, w.hash(), nil, statesTree, suffrage, fixedTime)
	m := isaacblock.NewBlockMap()
	for i, ty := range []base.BlockItemType{base.BlockItemProposal, base.BlockItemOperations, base.BlockItemOperationsTree,
		base.BlockItemStates, base.BlockItemStatesTree, base.BlockItemVoteproofs} {
		if err := m.SetItem(isaacblock.NewBlockMapItem(ty, fmt.Sprintf("checksum-%d-%d", height, i))); err != nil {
			panic(err)
		}
	}
	m.SetManifest(manifest)
	l := w.locals[w.r.Intn(len(w.locals))]
	if err := m.Sign(l.Address(), l.Privatekey(), networkID); err != nil {
		panic(err)
	}
	w.committed[manifest.Hash().String()] = keys
	return m
}

type block struct {
	M     isaacblock.BlockMap
	St    base.State
	Tree  fixedtree.Tree
	Proof fixedtree.Proof
}

func treeKeys(tr fixedtree.Tree) map[string]bool {
	ks := map[string]bool{}
	for _, n := range tr.Nodes() {
		ks[n.Key()] = true
	}
	return ks
}

// a self-consistent block: the state is in the tree, the manifest carries the root of the tree
func (w *world) block(height int64, st base.State) block {
	tr := w.tree([]string{st.Hash().String()})
	pf, err := tr.Proof(st.Hash().String())
	if err != nil {
		panic(err)
	}
	return block{M: w.blockMap(height, tr.Root(), treeKeys(tr)), St: st, Tree: tr, Proof: pf}
}

// ---------------------------------------------------------------- observation

type obs struct {
	Valid  bool
	Proves []int // 0 nil, 1 error, 2 panic
	Errs   []string
}

func observe(sp isaacblock.SuffrageProof, prevs []base.State) (o obs) {
	o.Valid = sp.IsValid(networkID) == nil
	for _, pv := range prevs {
		code, msg := func() (code int, msg string) {
			defer func() {
				if r := recover(); r != nil {
					code, msg = 2, fmt.Sprint(r)
				}
			}()
			if err := sp.Prove(pv); err != nil {
				return 1, err.Error()
			}
			return 0, ""
		}()
		o.Proves = append(o.Proves, code)
		o.Errs = append(o.Errs, msg)
	}
	return o
}

func sufHeight(st base.State) (int64, bool) {
	v, err := base.LoadSuffrageNodesStateValue(st)
	if err != nil {
		return 0, false
	}
	return v.Height().Int64(), true
}

func optB(b []byte, ok bool) string {
	if !ok {
		return "None"
	}
	return vh.Some(vh.BInts(b))
}

func optZ(z int64, ok bool) string {
	if !ok {
		return "None"
	}
	return vh.Some(vh.Z(z))
}

type run struct {
	o     *vh.Opts
	w     *world
	res   *vh.Result
	terms []string
	descs []any
}

type replay struct {
	Kind    string  `json:"kind"`
	Height  int64   `json:"manifest_height"`
	Proof   []rnode `json:"proof"`
	StKey   string  `json:"state_hash"`
	PrevIdx int     `json:"previous_index"`
	Note    string  `json:"note"`
}

// one suffrage proof (any combination of map, state, proof nodes), tried against the given previous states.
// genuinePrev: index in prevs of the state the proof's state directly follows (-1: none of them / genesis expects nil)
func (x *run) try(kind string, m isaacblock.BlockMap, st base.State, pnodes []rnode, prevs []base.State, expectAccept int) {
	res := x.res
	sp := isaacblock.NewSuffrageProof(m, st, fixedtree.NewProof(toNodes(pnodes)))
	o := observe(sp, prevs)
	mh := m.Manifest().Height().Int64()
	var mroot []byte
	hasRoot := m.Manifest().StatesTree() != nil
	if hasRoot {
		mroot = m.Manifest().StatesTree().Bytes()
	}
	stkey := []byte(st.Hash().String())
	var stprev []byte
	if st.Previous() != nil {
		stprev = st.Previous().Bytes()
	}
	stsuf, sufok := sufHeight(st)
	_, serr := isaac.NewSuffrageFromState(st)
	tab := newTab()
	refProveQueries(pnodes, stkey, tab)
	var proves []string
	for i, pv := range prevs {
		ps := "None"
		if pv != nil {
			psuf, psufok := sufHeight(pv)
			_, perr := isaac.NewSuffrageFromState(pv)
			ps = vh.Some(vh.Tuple(vh.Z(pv.Height().Int64()), vh.BInts(pv.Hash().Bytes()), optZ(psuf, psufok), vh.Bool(perr == nil)))
		}
		proves = append(proves, vh.Tuple(ps, vh.N(uint64(o.Proves[i]))))
	}
	x.terms = append(x.terms, fmt.Sprintf("SCase %s %s %s %s %s %s %s %s %s %s %s %s %s",
		tab.coq(), vh.Z(mh), optB(mroot, hasRoot), vh.Bool(m.IsValid(networkID) == nil), vh.Bool(st.IsValid(networkID) == nil),
		vh.Z(st.Height().Int64()), vh.BInts(stkey), optB(stprev, st.Previous() != nil), optZ(stsuf, sufok), vh.Bool(serr == nil),
		coqNodes(pnodes), vh.Bool(o.Valid), vh.List(proves)))
	x.descs = append(x.descs, map[string]any{"kind": kind, "manifest_height": mh, "state_height": st.Height().Int64(), "valid": o.Valid, "proves": o.Proves, "errors": o.Errs, "proof_len": len(pnodes)})
	res.Dist("kind:" + kind)

	// ---- the property, on what the harness knows
	committed := x.w.committed[m.Manifest().Hash().String()]
	for i, pv := range prevs {
		res.Count(fmt.Sprintf("%s/%d/%s/%d", kind, mh, st.Hash().String(), i), true)
		switch o.Proves[i] {
		case 2:
			res.Dist("panic-in-Prove:" + kind)
		case 1:
			res.Dist("rejected")
		default:
			res.Dist("prove-ok")
		}
		accepted := o.Valid && o.Proves[i] == 0
		rp := replay{Kind: kind, Height: mh, Proof: pnodes, StKey: st.Hash().String(), PrevIdx: i, Note: o.Errs[i]}
		if accepted {
			if !committed[st.Hash().String()] {
				res.Fail("suffrage-proof-foreign-tree", fmt.Sprintf("%s: accepted, but the state is not in the states tree committed by the manifest of the carried block map", kind), rp)
			}
			follows := false
			if mh == 0 {
				follows = pv == nil && st.Height() == 0
			} else if pv != nil && st.Previous() != nil {
				ps, pok := sufHeight(pv)
				follows = st.Previous().Equal(pv.Hash()) && pok && sufok && stsuf == ps+1 && st.Height() > pv.Height()
			}
			if !follows {
				res.Fail("suffrage-proof-wrong-previous", fmt.Sprintf("%s: accepted against a previous state it does not directly follow", kind), rp)
			}
		}
		if expectAccept == i && !accepted {
			res.Fail("valid-proof-rejected", fmt.Sprintf("%s: genuine suffrage proof rejected: IsValid=%v Prove=%d %s", kind, o.Valid, o.Proves[i], o.Errs[i]), rp)
		}
	}
}

func flip(b []byte, r *vh.Rand) []byte {
	o := append([]byte{}, b...)
	o[r.Intn(len(o))] ^= byte(1 << uint(r.Intn(8)))
	return o
}

// a chain of genuine blocks with suffrage states, and the forgeries around each of them
func (x *run) chain(length int) {
	w, r := x.w, x.w.r
	var blocks []block
	height := int64(0)
	for i := 0; i < length; i++ {
		var prevhash util.Hash
		if i > 0 {
			prevhash = blocks[i-1].St.Hash()
		}
		st := w.sufState(height, int64(i), r.Range(1, len(w.locals)), prevhash)
		blocks = append(blocks, w.block(height, st))
		height += int64(r.Range(1, 5))
	}
	for i, b := range blocks {
		var prev, older base.State
		if i > 0 {
			prev = blocks[i-1].St
		}
		if i > 1 {
			older = blocks[i-2].St
		}
		pn := fromNodes(b.Proof.Nodes())
		h := b.M.Manifest().Height().Int64()
		alien := w.sufState(h-1, int64(i)-1, 2, w.hash()) // a suffrage state of some other history
		if h == 0 {
			alien = w.sufState(0, 0, 2, nil)
		}
		prevs := []base.State{prev, nil, older, alien, b.St}
		want := 0
		if i == 0 {
			want = 1 // genesis: previous must be nil (prevs[0] is nil too)
		}
		x.try("genuine", b.M, b.St, pn, prevs, want)

		// forged state of the same height: other nodes, linked to the genuine previous state
		var prevhash util.Hash
		if prev != nil {
			prevhash = prev.Hash()
		}
		forged := w.sufState(h, int64(i), 1, prevhash)
		fkey := forged.Hash().String()

		// 1. foreign tree: a tree that contains the forged state, under the genuine block map
		ftr := w.tree([]string{fkey})
		fpf, _ := ftr.Proof(fkey)
		x.try("foreign-tree", b.M, forged, fromNodes(fpf.Nodes()), prevs[:2], -1)
		// 2. the genuine state, but proved in another tree
		gtr := w.tree([]string{b.St.Hash().String()})
		gpf, _ := gtr.Proof(b.St.Hash().String())
		if !gtr.Root().Equal(b.Tree.Root()) {
			x.try("genuine-state-other-tree", b.M, b.St, fromNodes(gpf.Nodes()), prevs[:2], -1)
		}
		// 3. re-rooted path: the forged state put in place of the genuine one, hashes recomputed up to a new root
		{
			rr := append([]rnode{}, pn...)
			pos := -1
			for j := range rr {
				if string(rr[j].Key) == b.St.Hash().String() {
					pos = j
				}
			}
			if pos >= 2 {
				// the forged node over the genuine children hashes, then every hash on the path recomputed
				rr[pos] = rnode{Key: []byte(fkey), Hash: valuehash.NewSHA256(concat([]byte(fkey), rr[0].hash(), rr[1].hash())).Bytes()}
				for k := 2; k+2 < len(rr); k += 2 {
					// parent of pair k is in pair k+2 (or the last node)
					for _, c := range []int{k + 2, k + 3} {
						if c >= len(rr) || rr[c].Empty {
							continue
						}
						// the genuine parent is the one whose old hash matched the old children
						oldh := valuehash.NewSHA256(concat(pn[c].Key, pn[k].hash(), pn[k+1].hash())).Bytes()
						if bytes.Equal(oldh, pn[c].Hash) {
							rr[c].Hash = valuehash.NewSHA256(concat(rr[c].Key, rr[k].hash(), rr[k+1].hash())).Bytes()
						}
					}
				}
				x.try("re-rooted-path", b.M, forged, rr, prevs[:2], -1)
			}
		}
		// 4. swapped state: genuine map and proof, another state
		x.try("swapped-state", b.M, forged, pn, prevs[:2], -1)
		// 5. swapped state and a proof node renamed to it (sibling, child, the path node itself)
		for j := range pn {
			if pn[j].Empty {
				continue
			}
			rn := append([]rnode{}, pn...)
			rn[j] = rnode{Key: []byte(fkey), Hash: pn[j].Hash}
			x.try("renamed-node", b.M, forged, rn, prevs[:2], -1)
		}
		// 6. one hash of the proof changed
		{
			j := r.Intn(len(pn))
			if !pn[j].Empty {
				mp := append([]rnode{}, pn...)
				mp[j] = rnode{Key: pn[j].Key, Hash: flip(pn[j].Hash, r)}
				x.try("proof-hash-changed", b.M, b.St, mp, prevs[:2], -1)
			}
		}
		// 7. truncated / empty proof
		x.try("proof-truncated", b.M, b.St, pn[:len(pn)-1], prevs[:2], -1)
		x.try("proof-empty", b.M, b.St, nil, prevs[:2], -1)
		// 8. the manifest carries no states tree / the root of another tree
		x.try("manifest-nil-statestree", w.blockMap(h, nil, map[string]bool{}), b.St, pn, prevs[:2], -1)
		x.try("manifest-other-root", w.blockMap(h, ftr.Root(), treeKeys(ftr)), b.St, pn, prevs[:2], -1)
		// 9. state height differs from the manifest height
		x.try("height-mismatch", w.blockMap(h+1, b.Tree.Root(), treeKeys(b.Tree)), b.St, pn, prevs[:2], -1)
		// 10. a state that is not a suffrage state, in its own consistent block
		{
			os := w.otherState(h, prevhash)
			ob := w.block(h, os)
			x.try("not-suffrage-state", ob.M, os, fromNodes(ob.Proof.Nodes()), prevs[:2], -1)
		}
		if i == 0 {
			// genesis manifest with a state of another height
			s2 := w.sufState(3, 0, 2, nil)
			b2 := w.block(0, s2)
			x.try("genesis-state-not-genesis-height", b2.M, s2, fromNodes(b2.Proof.Nodes()), []base.State{nil, alien}, -1)
			continue
		}
		// 11. consistent blocks whose state does not directly follow the previous state
		{
			s2 := w.sufState(h, int64(i)+1, 2, prev.Hash()) // suffrage height +2
			b2 := w.block(h, s2)
			x.try("suffrage-height-not-plus-one", b2.M, s2, fromNodes(b2.Proof.Nodes()), []base.State{prev}, -1)
			s3 := w.sufState(h, int64(i), 2, w.hash()) // previous hash of another history
			b3 := w.block(h, s3)
			x.try("previous-hash-other", b3.M, s3, fromNodes(b3.Proof.Nodes()), []base.State{prev, alien}, -1)
			s4 := w.sufState(h, int64(i), 2, nil) // no previous hash at all
			b4 := w.block(h, s4)
			x.try("previous-hash-nil", b4.M, s4, fromNodes(b4.Proof.Nodes()), []base.State{prev}, -1)
			ph := prev.Height().Int64()
			s5 := w.sufState(ph, int64(i), 2, prev.Hash()) // not higher than the previous state
			b5 := w.block(ph, s5)
			x.try("height-not-higher", b5.M, s5, fromNodes(b5.Proof.Nodes()), []base.State{prev}, -1)
			op := w.otherState(h-1, nil) // the previous state is not a suffrage state
			s6 := w.sufState(h, int64(i), 2, op.Hash())
			b6 := w.block(h, s6)
			x.try("previous-not-suffrage-state", b6.M, s6, fromNodes(b6.Proof.Nodes()), []base.State{op}, -1)
		}
	}
}

func (x *run) flush(nb int) *vh.Cases {
	cases := &vh.Cases{Import: "From MV Require Import C13.Model.", Type: "case", CheckFn: "check"}
	idx := make([]int, len(x.terms))
	for i := range idx {
		idx[i] = i
	}
	sort.SliceStable(idx, func(a, b int) bool { return len(x.terms[idx[a]]) > len(x.terms[idx[b]]) })
	bins := make([][]int, nb)
	for k, i := range idx {
		bins[k%nb] = append(bins[k%nb], i)
	}
	per := (len(idx) + nb - 1) / nb
	cases.Shard = per
	for _, b := range bins {
		for _, i := range b {
			cases.Add(x.terms[i], x.descs[i])
		}
		for k := len(b); k < per; k++ {
			cases.Add("SCase [] 0%Z None false false 0%Z (0, [])%uint63 None None false [] false []", map[string]any{"kind": "padding"})
		}
	}
	return cases
}

func main() {
	o := vh.ParseFlags()
	res := vh.NewResult("chains of real signed block maps with real suffrage states and states trees; per block the genuine proof against {previous, nil, older, alien, itself} and forgeries: foreign tree, other tree, re-rooted path, swapped state, every proof node renamed to the forged state, changed hash, truncated/empty proof, manifest without/with other states tree, height mismatches, non-suffrage state, wrong suffrage height / previous hash / previous kind; every case is non-trivial")
	w := &world{r: vh.NewRand(o.Seed), committed: map[string]map[string]bool{}}
	for i := 0; i < 4; i++ {
		w.locals = append(w.locals, base.RandomLocalNode())
	}
	x := &run{o: o, w: w, res: res}
	if o.Replay != "" {
		var rp replay
		if err := vh.ReadReplay(o.Replay, &rp); err == nil {
			fmt.Printf("replay of kind %q: the case is regenerated by the run below (same seed)\n", rp.Kind)
		}
	}
	nblocks := o.Pick(60, 800)
	for made := 0; made < nblocks; {
		l := w.r.Range(1, 6)
		x.chain(l)
		made += l
	}
	res.Distribution["blocks"] = nblocks
	res.ModelCases = len(x.terms)
	res.Sample(map[string]any{"first_case": x.descs[0]})
	res.Note("node keys are generated by base.RandomLocalNode (crypto/rand); every structural choice derives from the seed")
	if err := x.flush(o.Pick(8, 16)).Write(o.Out); err != nil {
		panic(err)
	}
	res.Write(o.Out)
}
