// c35: ACL precedence (launch/acl.go).
//
// Exhaustive small permission tables and random larger ones are installed into the real launch.ACL
// twice -- through the exported YAML import (launch.NewYAMLACL(...).Import) and through the verif
// export of ACL.setUser -- and every (user, scope, required) query is answered by the real ACL.Allow.
//   - property oracle (independent of the Coq model): the documented precedence chain, "prohibit
//     denies", "superuser is allowed", permission text round trip, evaluated on those answers;
//   - correspondence: the same tables and queries with the observed (assigned, allow) are written
//     as cases for the Gallina model (coq/C35/Model.v: check).
package main

import (
	"fmt"
	"strings"

	"github.com/spikeekips/mitum/base"
	"github.com/spikeekips/mitum/launch"
	"github.com/spikeekips/mitum/util/encoder"
	jsonenc "github.com/spikeekips/mitum/util/encoder/json"
	"verifharness/vh"
)

type table map[string]map[string]uint8 // user -> scope -> perm

type replay struct {
	Kind     string `json:"kind"` // allow | history | perm | parse
	Via      string `json:"via,omitempty"`
	Super    string `json:"super,omitempty"`
	Table    table  `json:"table,omitempty"`
	User     string `json:"user,omitempty"`
	Scope    string `json:"scope,omitempty"`
	Required uint8  `json:"required,omitempty"`
	Perm     uint8  `json:"perm,omitempty"`
	Text     string `json:"text,omitempty"`
	History  []table `json:"history,omitempty"` // kind "history": tables installed one after the other on ONE ACL
}

const (
	defUser  = "_default"
	defScope = "_default"
	prohibit = 1
	super    = 79
)

var enc *jsonenc.Encoder

var ntAllow int // non-trivial Allow evaluations

func mkKey(seed string) string {
	k, err := base.NewMPrivatekeyFromSeed(seed + strings.Repeat("-", 40))
	if err != nil {
		panic(err)
	}
	return k.Publickey().String()
}

func yamlOf(t table) string {
	var sb strings.Builder
	for _, u := range vh.SortedKeys(t) {
		if len(t[u]) < 1 {
			continue
		}
		fmt.Fprintf(&sb, "%q:\n", u)
		for _, s := range vh.SortedKeys(t[u]) {
			fmt.Fprintf(&sb, "  %q: %q\n", s, launch.ACLPerm(t[u][s]).String())
		}
	}
	return sb.String()
}

// build installs t into a fresh real ACL. via = "yaml" | "set".
func build(t table, superuser string, mapsize uint64, via string) (*launch.ACL, error) {
	acl, err := launch.NewACL(mapsize, superuser)
	if err != nil {
		return nil, err
	}
	switch via {
	case "yaml":
		y := yamlOf(t)
		if len(y) < 1 {
			return acl, nil
		}
		if _, err := launch.NewYAMLACL(acl).Import([]byte(y), enc); err != nil {
			return nil, err
		}
	default:
		for _, u := range vh.SortedKeys(t) {
			if len(t[u]) < 1 {
				continue
			}
			m := map[launch.ACLScope]launch.ACLPerm{}
			for s, p := range t[u] {
				m[launch.ACLScope(s)] = launch.ACLPerm(p)
			}
			if _, _, err := launch.VerifACLSetUser(acl, u, m); err != nil {
				return nil, err
			}
		}
	}
	return acl, nil
}

func cellOf(t table, u, s string) (uint8, bool) {
	m, ok := t[u]
	if !ok || len(m) < 1 {
		return 0, false
	}
	p, ok := m[s]
	return p, ok
}

// decidedBy is the documented chain: user.scope, user._default, _default.scope, _default._default.
func decidedBy(t table, u, s string) (uint8, bool) {
	for _, c := range [][2]string{{u, s}, {u, defScope}, {defUser, s}, {defUser, defScope}} {
		if p, ok := cellOf(t, c[0], c[1]); ok {
			return p, true
		}
	}
	return 0, false
}

func tableValid(t table) bool {
	for _, m := range t {
		for _, p := range m {
			if p < 1 || p > super {
				return false
			}
		}
	}
	return true
}

type query struct {
	u, s string
	r    uint8
}

type gridSpec struct{ us, ss, rs string } // Coq lists of the query grid (users by alias)

// alias renders a user for the Coq side: public-key strings are replaced by short injective aliases
// ("_default" and "" are kept): the code only compares user strings for equality.
var aliases = map[string]string{defUser: defUser, "": ""}

func alias(u string) string {
	if a, ok := aliases[u]; ok {
		return a
	}
	a := fmt.Sprintf("k%d", len(aliases))
	aliases[u] = a
	return a
}

func qq(s string) string { // Coq string literal, string_scope is open in the cases files
	for _, c := range []byte(s) {
		if c < 32 || c > 126 || c == '"' {
			panic("unsupported char")
		}
	}
	return "\"" + s + "\""
}

func coqTable(t table) string {
	var us []string
	for _, u := range vh.SortedKeys(t) {
		if len(t[u]) < 1 {
			continue
		}
		var cs []string
		for _, s := range vh.SortedKeys(t[u]) {
			cs = append(cs, fmt.Sprintf("(%s,%d)", qq(s), t[u][s]))
		}
		us = append(us, fmt.Sprintf("(%s,[%s])", qq(alias(u)), strings.Join(cs, ";")))
	}
	return "[" + strings.Join(us, ";") + "]"
}

func code(p uint8, allow bool) int {
	c := 2 * int(p)
	if allow {
		c++
	}
	return c
}

// runTable answers all queries on the real ACL (both installation paths when the table is valid),
// evaluates the oracle, and returns the Coq case.
func runTable(res *vh.Result, t table, superuser string, mapsize uint64, qs []query, nameOf map[string]string, grid *gridSpec) (string, any) {
	valid := tableValid(t)
	vias := []string{"set"}
	if valid {
		vias = []string{"yaml", "set"}
	}
	type ans struct {
		p  uint8
		ok bool
	}
	var first []ans
	var coqqs []string
	for vi, via := range vias {
		acl, err := build(t, superuser, mapsize, via)
		if err != nil {
			res.Fail("table-not-installed", fmt.Sprintf("via %s: %v", via, err), replay{Kind: "allow", Via: via, Super: superuser, Table: t})
			continue
		}
		for qi, q := range qs {
			ap, allow := acl.Allow(q.u, launch.ACLScope(q.s), launch.ACLPerm(q.r))
			a := ans{uint8(ap), allow}
			rp := replay{Kind: "allow", Via: via, Super: superuser, Table: t, User: q.u, Scope: q.s, Required: q.r}
			d, defined := decidedBy(t, q.u, q.s)
			nontrivial := q.u != superuser && q.r >= 2 && defined
			res.Evaluations++
			if nontrivial {
				ntAllow++
			}
			// ---- property oracle (required ranges over the allow permissions 2..79; valid tables)
			if valid && q.r >= 2 && q.r <= super {
				switch {
				case q.u == superuser:
					if !allow {
						res.Fail("superuser-denied", fmt.Sprintf("Allow(super,%s,%d) = (%d,%v)", q.s, q.r, ap, allow), rp)
					}
				case !defined:
					if allow {
						res.Fail("allowed-without-entry", fmt.Sprintf("Allow(%s,%s,%d) = (%d,%v) but no entry in the chain", nameOf[q.u], q.s, q.r, ap, allow), rp)
					}
				case d == prohibit:
					if allow {
						res.Fail("prohibit-allows", fmt.Sprintf("Allow(%s,%s,%d) = (%d,%v) but deciding entry is prohibit", nameOf[q.u], q.s, q.r, ap, allow), rp)
					}
				default:
					if allow != (d >= q.r) {
						res.Fail("precedence", fmt.Sprintf("Allow(%s,%s,%d) = (%d,%v) but first defined entry of [u.s, u._default, _default.s, _default._default] is %d", nameOf[q.u], q.s, q.r, ap, allow, d), rp)
					}
				}
			}
			if vi == 0 {
				first = append(first, a)
				if grid != nil {
					coqqs = append(coqqs, fmt.Sprint(code(a.p, a.ok)))
				} else {
					coqqs = append(coqqs, fmt.Sprintf("(%s,%s,%d,%d)", qq(alias(q.u)), qq(q.s), q.r, code(a.p, a.ok)))
				}
			} else if qi < len(first) && first[qi] != a {
				res.Fail("yaml-vs-setuser", fmt.Sprintf("Allow(%s,%s,%d): via yaml (%d,%v), via setUser (%d,%v)", nameOf[q.u], q.s, q.r, first[qi].p, first[qi].ok, a.p, a.ok), rp)
			}
		}
	}
	var term string
	if grid != nil {
		term = fmt.Sprintf("(CGrid %s %s %s %s %s [%s])%%Z", qq(alias(superuser)), coqTable(t), grid.us, grid.ss, grid.rs, strings.Join(coqqs, ";"))
	} else {
		term = fmt.Sprintf("(CAllow %s %s [%s])%%Z", qq(alias(superuser)), coqTable(t), strings.Join(coqqs, ";"))
	}
	return term, map[string]any{"kind": "allow", "super": superuser, "table": t, "queries": len(qs)}
}

// installer applies successive tables to ONE real ACL, through YAMLACL.Import or through ACL.setUser.
type installer struct {
	via  string
	acl  *launch.ACL
	yacl *launch.YAMLACL
	prev table
}

func newInstaller(via, superuser string, mapsize uint64) *installer {
	acl, err := launch.NewACL(mapsize, superuser)
	if err != nil {
		panic(err)
	}
	return &installer{via: via, acl: acl, yacl: launch.NewYAMLACL(acl), prev: table{}}
}

// install returns the Coq list of installs performed.
func (in *installer) install(t table) (string, error) {
	var coq []string
	switch in.via {
	case "yaml":
		if _, err := in.yacl.Import([]byte(yamlOf(t)), enc); err != nil {
			return "", err
		}
		coq = append(coq, "IImport "+coqTable(t))
	default:
		keys := map[string]bool{}
		for u := range in.prev {
			keys[u] = true
		}
		for u := range t {
			keys[u] = true
		}
		for _, u := range vh.SortedKeys(keys) {
			m := map[launch.ACLScope]launch.ACLPerm{}
			var cs []string
			for _, sc := range vh.SortedKeys(t[u]) {
				m[launch.ACLScope(sc)] = launch.ACLPerm(t[u][sc])
				cs = append(cs, fmt.Sprintf("(%s,%d)", qq(sc), t[u][sc]))
			}
			if _, _, err := launch.VerifACLSetUser(in.acl, u, m); err != nil {
				return "", err
			}
			coq = append(coq, fmt.Sprintf("ISet %s [%s]", qq(alias(u)), strings.Join(cs, ";")))
		}
	}
	in.prev = t
	return "[" + strings.Join(coq, ";") + "]", nil
}

// runHistory installs the tables one after the other on the same ACL (both paths) and, after every install, judges every
// Allow decision against the LAST installed table (property oracle) and records it for the model.
func runHistory(res *vh.Result, cases *vh.Cases, superuser string, hist []table, qs []query, grid *gridSpec, nameOf map[string]string, model bool) {
	var firstCodes [][]int
	for vi, via := range []string{"yaml", "set"} {
		in := newInstaller(via, superuser, 7)
		var steps []string
		for si, t := range hist {
			coqInst, err := in.install(t)
			if err != nil {
				res.Fail("table-not-installed", fmt.Sprintf("history step %d via %s: %v", si, via, err), replay{Kind: "history", Via: via, Super: superuser, History: hist[:si+1]})
				break
			}
			var codes []string
			var icodes []int
			for _, q := range qs {
				ap, allow := in.acl.Allow(q.u, launch.ACLScope(q.s), launch.ACLPerm(q.r))
				res.Evaluations++
				rp := replay{Kind: "history", Via: via, Super: superuser, History: hist[:si+1], User: q.u, Scope: q.s, Required: q.r}
				d, defined := decidedBy(t, q.u, q.s)
				if si > 0 && q.u != superuser && q.r >= 2 {
					if pd, pdef := decidedBy(hist[si-1], q.u, q.s); pd != d || pdef != defined {
						ntAllow++ // the answer depends on the last install having taken effect
					}
				}
				if q.r >= 2 && q.r <= super {
					want := q.u == superuser || (defined && d != prohibit && d >= q.r)
					if allow != want {
						res.Fail("stale-table-after-install", fmt.Sprintf("after install #%d (via %s) Allow(%s,%s,%d) = (%d,%v); by the last installed table the deciding entry is %d (defined=%v)", si+1, via, nameOf[q.u], q.s, q.r, ap, allow, d, defined), rp)
					}
				}
				codes = append(codes, fmt.Sprint(code(uint8(ap), allow)))
				icodes = append(icodes, code(uint8(ap), allow))
			}
			if vi == 0 {
				firstCodes = append(firstCodes, icodes)
			} else if si < len(firstCodes) && fmt.Sprint(firstCodes[si]) != fmt.Sprint(icodes) {
				res.Fail("yaml-vs-setuser", fmt.Sprintf("after install #%d the answers via yaml and via setUser differ", si+1), replay{Kind: "history", Via: via, Super: superuser, History: hist[:si+1]})
			}
			steps = append(steps, fmt.Sprintf("(%s,[%s])", coqInst, strings.Join(codes, ";")))
		}
		if model {
			cases.Add(fmt.Sprintf("(CHist %s %s %s %s [%s])%%Z", qq(alias(superuser)), grid.us, grid.ss, grid.rs, strings.Join(steps, ";")), map[string]any{"kind": "history", "via": via, "super": superuser, "history": hist})
		}
	}
}

func replayOne(rp replay) {
	switch rp.Kind {
	case "history":
		for _, via := range []string{"yaml", "set"} {
			in := newInstaller(via, rp.Super, 7)
			for si, t := range rp.History {
				if _, err := in.install(t); err != nil {
					fmt.Printf("replay: via %s step %d: %v\n", via, si, err)
					break
				}
			}
			last := rp.History[len(rp.History)-1]
			p, ok := in.acl.Allow(rp.User, launch.ACLScope(rp.Scope), launch.ACLPerm(rp.Required))
			d, def := decidedBy(last, rp.User, rp.Scope)
			fmt.Printf("replay: via %s: after %d installs Allow(%q,%q,%d) = (%d,%v); deciding entry of the last table = %d (defined=%v)\n", via, len(rp.History), rp.User, rp.Scope, rp.Required, p, ok, d, def)
		}
	case "allow":
		for _, via := range []string{"yaml", "set"} {
			if via == "yaml" && !tableValid(rp.Table) {
				continue
			}
			acl, err := build(rp.Table, rp.Super, 9, via)
			if err != nil {
				fmt.Printf("replay: via %s: %v\n", via, err)
				continue
			}
			p, ok := acl.Allow(rp.User, launch.ACLScope(rp.Scope), launch.ACLPerm(rp.Required))
			d, def := decidedBy(rp.Table, rp.User, rp.Scope)
			fmt.Printf("replay: via %s: Allow(%q,%q,%d) = (%d,%v); deciding entry = %d (defined=%v), superuser=%v\n", via, rp.User, rp.Scope, rp.Required, p, ok, d, def, rp.User == rp.Super)
		}
	case "perm":
		b, _ := launch.ACLPerm(rp.Perm).MarshalText()
		var q launch.ACLPerm
		err := q.UnmarshalText(b)
		fmt.Printf("replay: perm %d prints %q parses (%d, err=%v)\n", rp.Perm, string(b), q, err)
	case "parse":
		var q launch.ACLPerm
		err := q.UnmarshalText([]byte(rp.Text))
		fmt.Printf("replay: text %q parses (%d, err=%v), prints %q\n", rp.Text, q, err, q.String())
	}
}

func main() {
	o := vh.ParseFlags()
	enc = jsonenc.NewEncoder()
	if err := enc.Add(encoder.DecodeDetail{Hint: base.MPublickeyHint, Instance: &base.MPublickey{}}); err != nil {
		panic(err)
	}
	res := vh.NewResult("every (table, user, scope, required) answered by the real launch.ACL.Allow, tables installed through YAMLACL.Import and through ACL.setUser; exhaustive: cells u.s1,u._default,_default.s1,_default._default each in {absent,x,o,oo,s} x (u.s2, _default.s2 present or not) x 4 users (super,u,absent user,_default) x 4 scopes x 8 required; random larger tables; histories of 2-4 successive installs on ONE ACL (renamed/moved scopes with equal cardinality, moved users, changed perms; through Import and through setUser) judged after every install against the last installed table; all 256 perm values through MarshalText/UnmarshalText; non-trivial = non-super user, required an allow permission and some entry of the chain defined")
	if o.Replay != "" {
		var rp replay
		if err := vh.ReadReplay(o.Replay, &rp); err == nil && rp.Kind != "" {
			replayOne(rp)
		}
	}
	r := vh.NewRand(o.Seed)
	cases := &vh.Cases{Import: "From MV Require Import C35.Model.", Type: "case", CheckFn: "check", Shard: 300}

	su, u, w := mkKey("c35-super"), mkKey("c35-user-u"), mkKey("c35-user-w")
	nameOf := map[string]string{su: "super", u: "u", w: "w(absent)", defUser: "_default"}

	// ---------------------------------------------------------------- exhaustive small tables
	cellVals := []int{-1, 1, 2, 3, 79} // -1 = absent
	users := []string{su, u, w, defUser}
	scopes := []string{"s1", "s2", defScope, "zz"}
	reqs := []uint8{0, 1, 2, 3, 4, 79, 80, 255}
	var allq []query
	for _, qu := range users {
		for _, qs := range scopes {
			for _, qr := range reqs {
				allq = append(allq, query{qu, qs, qr})
			}
		}
	}
	grid := &gridSpec{}
	{
		var a, b, c []string
		for _, x := range users {
			a = append(a, qq(alias(x)))
		}
		for _, x := range scopes {
			b = append(b, qq(x))
		}
		for _, x := range reqs {
			c = append(c, fmt.Sprint(x))
		}
		grid.us, grid.ss, grid.rs = "["+strings.Join(a, ";")+"]", "["+strings.Join(b, ";")+"]", "["+strings.Join(c, ";")+"]"
	}
	modelEvery := o.Pick(4, 1) // every table is checked by the oracle; every n-th also goes to the model
	ti := 0
	for _, a := range cellVals {
		for _, b := range cellVals {
			for _, c := range cellVals {
				for _, d := range cellVals {
					for extra := 0; extra < 4; extra++ {
						t := table{u: {}, defUser: {}}
						set := func(us, sc string, v int) {
							if v >= 0 {
								t[us][sc] = uint8(v)
							}
						}
						set(u, "s1", a)
						set(u, defScope, b)
						set(defUser, "s1", c)
						set(defUser, defScope, d)
						if extra&1 != 0 {
							t[u]["s2"] = 2
						}
						if extra&2 != 0 {
							t[defUser]["s2"] = 3
						}
						for k := range t {
							if len(t[k]) < 1 {
								delete(t, k)
							}
						}
						term, desc := runTable(res, t, su, uint64(1+ti%9), allq, nameOf, grid)
						if ti%modelEvery == 0 {
							cases.Add(term, desc)
						}
						if ti == 777 {
							res.Sample(map[string]any{"table": t, "yaml": yamlOf(t)})
						}
						res.Dist("exhaustive_tables")
						ti++
					}
				}
			}
		}
	}
	res.Exhaustive = true

	// ---------------------------------------------------------------- corpus: awkward tables (always run)
	corpus := []struct {
		t  table
		su string
	}{
		{table{u: {"s1": 0, defScope: 3}, defUser: {"s1": 1}}, su},      // stored 0 shadows user's default
		{table{u: {"s1": 200}, defUser: {defScope: 255}}, su},          // out-of-range stored perms
		{table{defUser: {defScope: 1}}, su},                            // deny everybody
		{table{defUser: {defScope: 79}}, su},                           // allow everybody
		{table{u: {defScope: 1}, defUser: {"s1": 79, defScope: 79}}, su}, // user default prohibit beats default user's scope
		{table{u: {"s1": 2}, defUser: {"s1": 1}}, ""},                  // no superuser configured
		{table{u: {"s1": 2}, w: {defScope: 1}}, defUser},               // superuser named _default
	}
	for _, c := range corpus {
		term, desc := runTable(res, c.t, c.su, 9, allq, nameOf, nil)
		cases.Add(term, desc)
		res.Dist("corpus_tables")
	}

	// ---------------------------------------------------------------- random larger tables
	nrand := o.Pick(200, 3000)
	pool := []string{u, w, mkKey("c35-a"), mkKey("c35-b"), mkKey("c35-c"), defUser}
	spool := []string{"s1", "s2", "design", "acl", "handover", defScope}
	for i := 0; i < nrand; i++ {
		t := table{}
		invalid := r.Chance(1, 6)
		for _, us := range pool {
			if r.Chance(1, 3) {
				continue
			}
			m := map[string]uint8{}
			for _, sc := range spool {
				if r.Chance(1, 2) {
					continue
				}
				var p uint8
				switch r.Intn(6) {
				case 0:
					p = 1
				case 1:
					p = 79
				case 2:
					p = uint8(r.Range(2, 4))
				default:
					p = uint8(r.Range(1, 79))
				}
				if invalid && r.Chance(1, 4) {
					p = []uint8{0, 80, 255, 128}[r.Intn(4)]
				}
				m[sc] = p
			}
			if len(m) > 0 {
				t[us] = m
			}
		}
		var qs []query
		for j := 0; j < 24; j++ {
			qu := append([]string{su, mkKey("c35-unknown")}, pool...)[r.Intn(len(pool)+2)]
			qs = append(qs, query{qu, append([]string{"zz"}, spool...)[r.Intn(len(spool)+1)], []uint8{0, 1, 2, 2, 3, 3, 4, 40, 78, 79, 80, 255}[r.Intn(12)]})
		}
		term, desc := runTable(res, t, su, uint64(r.Range(1, 64)), qs, nameOf, nil)
		cases.Add(term, desc)
		if invalid {
			res.Dist("random_tables_with_invalid_perms")
		} else {
			res.Dist("random_tables_valid")
		}
		if i < 2 {
			res.Sample(map[string]any{"table": t})
		}
	}

	// ---------------------------------------------------------------- install histories on ONE ACL
	// the decisions must follow the LAST installed table: renamed / moved scopes with equal cardinality, moved users,
	// changed perms, through Import and through setUser; the grid is asked after every install.
	hgrid := &gridSpec{}
	var hq []query
	{
		hreqs := []uint8{1, 2, 3, 79}
		var a, b, c []string
		for _, x := range users {
			a = append(a, qq(alias(x)))
		}
		for _, x := range scopes {
			b = append(b, qq(x))
		}
		for _, x := range hreqs {
			c = append(c, fmt.Sprint(x))
		}
		hgrid.us, hgrid.ss, hgrid.rs = "["+strings.Join(a, ";")+"]", "["+strings.Join(b, ";")+"]", "["+strings.Join(c, ";")+"]"
		for _, qu := range users {
			for _, qs := range scopes {
				for _, qr := range hreqs {
					hq = append(hq, query{qu, qs, qr})
				}
			}
		}
	}
	cp := func(t table) table {
		n := table{}
		for k, m := range t {
			n[k] = map[string]uint8{}
			for s, p := range m {
				n[k][s] = p
			}
		}
		return n
	}
	nhist := 0
	// systematic: one scope of one user renamed (same perm, same cardinality), then renamed again
	for _, who := range []string{u, defUser} {
		for _, p1 := range []uint8{1, 2, 3, 79} {
			for _, other := range []int{-1, 1, 2, 79} { // the other party's entry for s1 and s2
				for _, keep := range []int{-1, 2} { // an unchanged second entry (_default) of the renamed user
					t1 := table{who: {"s1": p1}}
					party := u
					if who == u {
						party = defUser
					}
					if other >= 0 {
						t1[party] = map[string]uint8{"s1": uint8(other), "s2": uint8(other)}
					}
					if keep >= 0 {
						t1[who][defScope] = uint8(keep)
					}
					t2 := cp(t1)
					delete(t2[who], "s1")
					t2[who]["s2"] = p1
					t3 := cp(t2)
					delete(t3[who], "s2")
					t3[who]["zz"] = p1
					runHistory(res, cases, su, []table{t1, t2, t3, t1}, hq, hgrid, nameOf, nhist%o.Pick(2, 1) == 0)
					nhist++
				}
			}
		}
	}
	// a user's whole table moved to another user (same number of users)
	for _, p1 := range []uint8{1, 3} {
		t1 := table{u: {"s1": p1, defScope: 2}, defUser: {"s1": 2}}
		t2 := table{w: {"s1": p1, defScope: 2}, defUser: {"s1": 2}}
		runHistory(res, cases, su, []table{t1, t2, t1}, hq, hgrid, nameOf, true)
		nhist++
	}
	// random: each table is a small mutation of the previous one
	hs := []string{"s1", "s2", defScope}
	for i := 0; i < o.Pick(150, 3000); i++ {
		t := table{}
		for _, us := range []string{u, w, defUser} {
			if r.Chance(2, 3) {
				t[us] = map[string]uint8{hs[r.Intn(3)]: []uint8{1, 2, 3, 79}[r.Intn(4)]}
				if r.Bool() {
					t[us][hs[r.Intn(3)]] = []uint8{1, 2, 3, 79}[r.Intn(4)]
				}
			}
		}
		if len(t) == 0 {
			t[defUser] = map[string]uint8{defScope: 1}
		}
		hist := []table{t}
		for k := 0; k < r.Range(1, 3); k++ {
			n := cp(hist[len(hist)-1])
			us := vh.SortedKeys(n)[r.Intn(len(n))]
			scs := vh.SortedKeys(n[us])
			sc := scs[r.Intn(len(scs))]
			switch r.Intn(5) {
			case 0, 1: // rename a scope (equal cardinality when the target is free)
				p := n[us][sc]
				delete(n[us], sc)
				n[us][append(hs, "zz")[r.Intn(4)]] = p
			case 2: // change a perm
				n[us][sc] = []uint8{1, 2, 3, 79}[r.Intn(4)]
			case 3: // move the table to another user
				to := []string{u, w, defUser}[r.Intn(3)]
				if _, taken := n[to]; !taken {
					n[to] = n[us]
					delete(n, us)
				}
			default: // add an entry
				n[us][hs[r.Intn(3)]] = []uint8{1, 2, 3, 79}[r.Intn(4)]
			}
			hist = append(hist, n)
		}
		runHistory(res, cases, su, hist, hq, hgrid, nameOf, true)
		nhist++
	}
	res.Distribution["install_histories"] = nhist

	// ---------------------------------------------------------------- permission text: all 256 values
	for p := 0; p <= 255; p++ {
		pp := launch.ACLPerm(p)
		b, err := pp.MarshalText()
		if err != nil {
			res.Fail("perm-marshal-error", err.Error(), replay{Kind: "perm", Perm: uint8(p)})
			continue
		}
		valid := pp.IsValid(nil) == nil
		if valid != (p >= 1 && p <= super) {
			res.Fail("perm-valid-range", fmt.Sprintf("IsValid(%d) = %v", p, valid), replay{Kind: "perm", Perm: uint8(p)})
		}
		res.Count(fmt.Sprintf("perm%d", p), valid)
		if string(b) != pp.String() {
			res.Fail("perm-roundtrip", fmt.Sprintf("MarshalText(%d)=%q String()=%q", p, b, pp.String()), replay{Kind: "perm", Perm: uint8(p)})
		}
		cases.Add(fmt.Sprintf("(CPrint %d %s)%%Z", p, qq(string(b))), map[string]any{"kind": "print", "perm": p, "text": string(b)})
		var q launch.ACLPerm
		err = q.UnmarshalText(b)
		if valid && (err != nil || q != pp) {
			res.Fail("perm-roundtrip", fmt.Sprintf("perm %d prints %q which parses to (%d, err=%v)", p, b, q, err), replay{Kind: "perm", Perm: uint8(p)})
		}
		res.Dist("perm_values")
	}

	// ---------------------------------------------------------------- texts through UnmarshalText
	texts := []string{"", "x", "s", "o", "oo", "xo", "ox", "oox", "xoo", "so", "os", "ss", "xx", "O", "oO", " o", "o ", "o o", "0", "oo0", "<empty perm>", "o+", "^o+$", "oo-", "x ", " s", "sx", "ooooooooox"}
	for k := 3; k <= o.Pick(300, 1200); k++ {
		texts = append(texts, strings.Repeat("o", k))
	}
	texts = append(texts, strings.Repeat("o", 256+1), strings.Repeat("o", 512), strings.Repeat("o", 256+78), strings.Repeat("o", 77)+"x", strings.Repeat("o", 78)+"s")
	for i := 0; i < o.Pick(300, 5000); i++ {
		n := r.Range(1, 8)
		b := make([]byte, n)
		for j := range b {
			b[j] = "oooooxsOX0 -"[r.Intn(12)]
		}
		texts = append(texts, string(b))
	}
	rawOnly := []string{"o\n", "\no", "oo\n", "o\x00", "x\n", "s\n", "o\to", "\xc3\xb6", "o\r\n"} // not renderable as Coq literals by vh.Str: oracle only
	seen := map[string]bool{}
	parse := func(t string, model bool) {
		if seen[t] {
			return
		}
		seen[t] = true
		var q launch.ACLPerm
		err := q.UnmarshalText([]byte(t))
		allO := len(t) > 0 && strings.Count(t, "o") == len(t)
		obs := "None"
		if err == nil {
			obs = fmt.Sprintf("(Some %d)", q)
			// oracle: text -> perm -> text unchanged (one alias: 78 o's denote 79 = "s"; uint8 wrap for 256+ chars)
			if q.IsValid(nil) == nil && q.String() != t && t != strings.Repeat("o", 78) && len(t) < 256 {
				res.Fail("parse-accepts-noncanonical", fmt.Sprintf("text %q parses to %d which prints %q", t, q, q.String()), replay{Kind: "parse", Text: t})
			}
		}
		res.Count("text:"+t, err == nil)
		res.Dist("texts_parsed")
		if model {
			if allO {
				cases.Add(fmt.Sprintf("(CParseO %d %s)%%Z", len(t), obs), map[string]any{"kind": "parse", "text_o_repeated": len(t), "impl": obs})
			} else {
				cases.Add(fmt.Sprintf("(CParse %s %s)%%Z", qq(t), obs), map[string]any{"kind": "parse", "text": t, "impl": obs})
			}
		}
		// the same text through the YAML import (convertACLPerm = UnmarshalText + IsValid), observed with Allow
		if model && !strings.ContainsAny(t, "\"\\") {
			acl, _ := launch.NewACL(3, su)
			y := fmt.Sprintf("%q:\n  %q: %q\n", defUser, "s1", t)
			_, ierr := launch.NewYAMLACL(acl).Import([]byte(y), enc)
			cobs := "None"
			if ierr == nil {
				p, _ := acl.Allow(w, "s1", 2)
				cobs = fmt.Sprintf("(Some %d)", p)
				if p < 1 || p > super {
					res.Fail("import-stores-invalid-perm", fmt.Sprintf("YAML perm %q stored as %d", t, p), replay{Kind: "parse", Text: t})
				}
			}
			if allO {
				cases.Add(fmt.Sprintf("(CConvertO %d %s)%%Z", len(t), cobs), map[string]any{"kind": "convert", "text_o_repeated": len(t), "impl": cobs})
			} else {
				cases.Add(fmt.Sprintf("(CConvert %s %s)%%Z", qq(t), cobs), map[string]any{"kind": "convert", "text": t, "impl": cobs})
			}
		}
	}
	for _, t := range texts {
		parse(t, true)
	}
	for _, t := range rawOnly {
		parse(t, false)
	}
	res.DistinctNontrivial += ntAllow
	res.ModelCases = cases.Len()
	if err := cases.Write(o.Out); err != nil {
		panic(err)
	}
	res.Write(o.Out)
}
