// c36: rate limiting picks the highest-precedence rule and enforces it (launch/ratelimit.go).
//   (1) random rule sets (client ids, nets in order, nodes, suffrage, default map) and request streams with
//       rule-set updates through the real RateLimitHandler (Func and the verif hook); the limiter chosen
//       (type / rule / desc / checksum / identity of the embedded rate.Limiter) is compared with the Coq
//       model, and the property oracle (the precedence chain evaluated independently on the current rules)
//       is evaluated on every request.
//   (2) the token bucket of limiters obtained from the handler is driven with a controlled clock
//       (rate.Limiter.AllowN(t, 1)): allow/deny sequences compared with the exact model, the window bound
//       checked on every window; a short real-time run through Func checks the bound with coarse windows.
package main

import (
	"context"
	"fmt"
	"math"
	"net"
	"strconv"
	"strings"
	"time"

	"github.com/spikeekips/mitum/base"
	isaacnetwork "github.com/spikeekips/mitum/isaac/network"
	"github.com/spikeekips/mitum/launch"
	"github.com/spikeekips/mitum/util"
	"github.com/spikeekips/mitum/util/valuehash"
	"golang.org/x/time/rate"
	"verifharness/vh"
)

// ---------------------------------------------------------------- universe

var (
	addrs    []*net.UDPAddr
	ipnets   []*net.IPNet
	handlers = []string{"h0", "h1", isaacnetwork.HandlerNameBlockMap.String()}
	cids     = []string{"", "c1", "c2", "c3"}
	nodes    []base.Address
	hashes   []util.Hash
	rulesTbl []launch.RateLimiterRule // by rule id
	types    = []string{"clientid", "net", "node", "suffrage", "defaultmap", "default"}
)

const (
	ruleNoLimit = 13
	ruleZero    = 14
)

type consState struct {
	Err     bool  `json:"err"`
	St      int   `json:"st"` // 1..3
	Members []int `json:"members"`
}

func setup() {
	for _, s := range []string{"10.0.0.1:4000", "10.0.0.2:4000", "10.0.1.1:4000", "192.168.1.5:4000", "172.16.0.9:4000", "[fd00::1]:4000", "10.0.0.1:4001"} {
		a, err := net.ResolveUDPAddr("udp", s)
		if err != nil {
			panic(err)
		}
		addrs = append(addrs, a)
	}
	for _, s := range []string{"10.0.0.0/24", "10.0.0.0/16", "10.0.0.0/8", "192.168.0.0/16", "0.0.0.0/0", "fd00::/8", "10.0.1.0/24"} {
		_, n, err := net.ParseCIDR(s)
		if err != nil {
			panic(err)
		}
		ipnets = append(ipnets, n)
	}
	for i := 0; i < 3; i++ {
		nodes = append(nodes, base.SimpleAddress(fmt.Sprintf("node%d", i)))
	}
	hashes = []util.Hash{nil, valuehash.NewSHA256([]byte("st1")), valuehash.NewSHA256([]byte("st2")), valuehash.NewSHA256([]byte("st3"))}

	// rule ids: 0 built-in default (probed), 1..12 distinct bursts 1..12, 13 nolimit, 14 limit-all,
	// 15/16 the built-in suffrage rules (probed)
	rulesTbl = make([]launch.RateLimiterRule, 17)
	for i := 1; i <= 12; i++ {
		rulesTbl[i] = launch.NewRateLimiterRule(time.Second*time.Duration(1+i%4), i)
	}
	rulesTbl[ruleNoLimit] = launch.NoLimitRateLimiterRule()
	rulesTbl[ruleZero] = launch.LimitRateLimiterRule()
	// probe the built-in rules from a pristine rule set
	pr := launch.NewRateLimiterRules()
	_ = pr.SetDefaultRuleMap(launch.NewRateLimiterRuleMap(nil, nil))
	h := newHandler(pr, &consState{})
	l := h.VerifRateLimiter(addrs[0], "x", launch.RateLimitRuleHint{})
	if l.Type() != "default" {
		panic("probe: expected the built-in default, got " + l.Type())
	}
	rulesTbl[0] = launch.RateLimiterRule{Limit: l.Limit(), Burst: l.Burst()}
	pr2 := launch.NewRateLimiterRules()
	cs := &consState{St: 1, Members: []int{0}}
	pr2.SetIsInConsensusNodesFunc(consFunc(cs))
	srs := pr2.SuffrageRuleSet()
	_, r15, _, f15 := srs.Rule(addrs[0], handlers[0], launch.RateLimitRuleHint{Node: nodes[0]})
	_, r16, _, f16 := srs.Rule(addrs[0], handlers[2], launch.RateLimitRuleHint{Node: nodes[0]})
	if !f15 || !f16 {
		panic("probe: built-in suffrage rule set has no rules")
	}
	rulesTbl[15], rulesTbl[16] = r15, r16
	seen := map[string]int{}
	for i, r := range rulesTbl {
		k := fmt.Sprintf("%v/%d", r.Limit, r.Burst)
		if j, ok := seen[k]; ok {
			panic(fmt.Sprintf("rule table: ids %d and %d coincide (%s)", j, i, k))
		}
		seen[k] = i
	}
}

func consFunc(cs *consState) func() (util.Hash, func(base.Address) bool, error) {
	return func() (util.Hash, func(base.Address) bool, error) {
		if cs.Err {
			return nil, nil, fmt.Errorf("consensus nodes not available")
		}
		return hashes[cs.St], func(a base.Address) bool {
			for _, m := range cs.Members {
				if nodes[m].Equal(a) {
					return true
				}
			}
			return false
		}, nil
	}
}

func newHandler(rules *launch.RateLimiterRules, cs *consState) *launch.RateLimitHandler {
	rules.SetIsInConsensusNodesFunc(consFunc(cs))
	args := launch.NewRateLimitHandlerArgs()
	args.ExpireAddr = time.Hour // only the MaxAddrs path of shrink evicts within a run
	args.Rules = rules
	h, err := launch.NewRateLimitHandler(args)
	if err != nil {
		panic(err)
	}
	return h
}

// ---------------------------------------------------------------- descriptions of rule sets (harness side)

type RuleMap struct {
	D int         `json:"d"` // -1 = no default
	M map[int]int `json:"m"` // handler -> rule
}

type NetAdd struct {
	Net int     `json:"net"`
	RM  RuleMap `json:"rm"`
}

type Op struct {
	Kind string `json:"k"` // req | reqfunc | addnode | removeaddr | clientid | nets | nodes | suffrage | defaultmap | consensus
	Addr int    `json:"a,omitempty"`
	H    int    `json:"h,omitempty"`
	Cid  int    `json:"c,omitempty"`
	Node int    `json:"n,omitempty"`
	Nil  bool   `json:"nil,omitempty"`
	Max  int    `json:"max,omitempty"` // shrink: MaxAddrs
	// rule sets
	Keyed map[int]RuleMap `json:"keyed,omitempty"` // clientid / nodes
	Nets  []NetAdd        `json:"nets,omitempty"`
	RM    *RuleMap        `json:"rm,omitempty"`
	Cons  *consState      `json:"cons,omitempty"`
}

type replay struct {
	Ops []Op `json:"ops"`
}

func (m RuleMap) real() launch.RateLimiterRuleMap {
	var d *launch.RateLimiterRule
	if m.D >= 0 {
		r := rulesTbl[m.D]
		d = &r
	}
	var mm map[string]launch.RateLimiterRule
	if m.M != nil {
		mm = map[string]launch.RateLimiterRule{}
		for h, r := range m.M {
			mm[handlers[h]] = rulesTbl[r]
		}
	}
	return launch.NewRateLimiterRuleMap(d, mm)
}

func (m RuleMap) rule(h int) (int, bool) {
	if r, ok := m.M[h]; ok {
		return r, true
	}
	if m.D >= 0 {
		return m.D, true
	}
	return 0, false
}

func (m RuleMap) empty() bool { return m.D < 0 && len(m.M) == 0 }

func (m RuleMap) coq() string {
	d := "None"
	if m.D >= 0 {
		d = vh.Some(vh.N(uint64(m.D)))
	}
	var items []string
	for h := 0; h < len(handlers); h++ {
		if r, ok := m.M[h]; ok {
			items = append(items, vh.Tuple(vh.N(uint64(h)), vh.N(uint64(r))))
		}
	}
	return "(mkRM " + d + " " + vh.List(items) + ")"
}

func keyedCoq(k map[int]RuleMap) string {
	var items []string
	for i := 0; i < 8; i++ {
		if m, ok := k[i]; ok {
			items = append(items, vh.Tuple(vh.N(uint64(i)), m.coq()))
		}
	}
	return vh.List(items)
}

// ---------------------------------------------------------------- the reference (property statement)

type refRules struct {
	clientid map[int]RuleMap // nil = not set
	nets     []NetAdd
	netsSet  bool
	nodes    map[int]RuleMap
	suffrage RuleMap
	dmap     RuleMap
	cons     consState
}

type decision struct {
	Type, Rule, DescKind, DescArg, Checksum int
}

func contains(netid, addr int) bool { return ipnets[netid].Contains(addrs[addr].IP) }

// expected evaluates the property's precedence chain on the current rules: client id, first matching net,
// node, suffrage, default map, built-in default.
func (r *refRules) expected(addr, h, cid int, node int) decision {
	if r.clientid != nil && cid != 0 {
		if m, ok := r.clientid[cid]; ok {
			if rule, ok := m.rule(h); ok {
				return decision{0, rule, 1, cid, 0}
			}
		}
	}
	if r.netsSet {
		// the first net (in order) containing the address; a later Add of the same net replaces its rules
		for _, na := range r.nets {
			if !contains(na.Net, addr) {
				continue
			}
			rm := na.RM
			for _, nb := range r.nets {
				if nb.Net == na.Net {
					rm = nb.RM
				}
			}
			if rule, ok := rm.rule(h); ok {
				return decision{1, rule, 2, na.Net, 0}
			}
			break
		}
	}
	if node >= 0 && r.nodes != nil {
		if m, ok := r.nodes[node]; ok {
			if rule, ok := m.rule(h); ok {
				return decision{2, rule, 0, 0, 0}
			}
		}
	}
	if node >= 0 && !r.suffrage.empty() && !r.cons.Err {
		in := false
		for _, m := range r.cons.Members {
			in = in || m == node
		}
		if in {
			if rule, ok := r.suffrage.rule(h); ok {
				return decision{3, rule, 0, 0, r.cons.St}
			}
		}
	}
	if rule, ok := r.dmap.rule(h); ok {
		return decision{4, rule, 0, 0, 0}
	}
	return decision{5, 0, 0, 0, 0}
}

// ---------------------------------------------------------------- observation of a limiter

func indexOf(ss []string, s string) int {
	for i := range ss {
		if ss[i] == s {
			return i
		}
	}
	return 99
}

func ruleID(limit rate.Limit, burst int) int {
	for i, r := range rulesTbl {
		switch {
		case i == ruleNoLimit:
			if limit == rate.Inf {
				return i
			}
		case i == ruleZero:
			if limit == 0 && burst == 0 {
				return i
			}
		case r.Limit == limit && r.Burst == burst:
			return i
		}
	}
	return 99
}

func descOf(desc string) (int, int) {
	if desc == "" {
		return 0, 0
	}
	for i, c := range cids {
		if i > 0 && desc == fmt.Sprintf(`{"client_id":%q}`, c) {
			return 1, i
		}
	}
	for i, n := range ipnets {
		if desc == fmt.Sprintf(`{"net":%q}`, n) {
			return 2, i
		}
	}
	return 9, 9
}

func checksumOf(s string) int {
	if s == "" {
		return 0
	}
	for i := 1; i < len(hashes); i++ {
		if hashes[i].String() == s {
			return i
		}
	}
	return 9
}

type world struct {
	h     *launch.RateLimitHandler
	rules *launch.RateLimiterRules
	cs    *consState
	ref   refRules
	node  map[int]int            // addr -> node (as the pool records it)
	gens  map[*rate.Limiter]int  // identity of the embedded limiter
	keep  []*rate.Limiter        // keep them alive: no pointer reuse
	known map[int]bool           // addr has limiters
	queue []int                  // addresses with limiters, oldest first (MaxAddrs eviction order)
	// per (addr, handler): what the last correct decision depended on
	decidedCid map[[2]int]int
	decidedAt  map[[2]int]int
	lastSetAt  int // op index of the last clientid / nets / nodes (re)installation
}

func newWorld() *world {
	w := &world{cs: &consState{}, node: map[int]int{}, gens: map[*rate.Limiter]int{}, known: map[int]bool{},
		decidedCid: map[[2]int]int{}, decidedAt: map[[2]int]int{}, lastSetAt: -1}
	w.rules = launch.NewRateLimiterRules()
	w.h = newHandler(w.rules, w.cs)
	w.ref = refRules{suffrage: RuleMap{D: 15, M: map[int]int{2: 16}}, dmap: RuleMap{D: 0}}
	return w
}

// forget: the address was removed from the pool; its limiters and its node identity are gone.
func (w *world) forget(addr int) {
	delete(w.known, addr)
	delete(w.node, addr)
	for k := range w.decidedAt {
		if k[0] == addr {
			delete(w.decidedAt, k)
			delete(w.decidedCid, k)
		}
	}
	q := w.queue[:0]
	for _, a := range w.queue {
		if a != addr {
			q = append(q, a)
		}
	}
	w.queue = q
}

func (w *world) gen(l *rate.Limiter) int {
	if l == nil {
		return 0
	}
	if g, ok := w.gens[l]; ok {
		return g
	}
	g := len(w.gens) + 1
	w.gens[l] = g
	w.keep = append(w.keep, l)
	return g
}

func nlist(xs ...int) string {
	ss := make([]string, len(xs))
	for i, x := range xs {
		ss[i] = vh.N(uint64(x))
	}
	return vh.List(ss)
}

// runStream drives one stream; returns the Coq case term.
func runStream(res *vh.Result, rp replay, verbose bool) string {
	w := newWorld()
	var steps []string
	nontrivial := false
	for i, op := range rp.Ops {
		at := fmt.Sprintf("op#%d %s: ", i, op.Kind)
		var term, obs string
		if op.Kind != "req" && op.Kind != "reqfunc" {
			// UpdatedAt() is a wall clock in nanoseconds: keep the order of events strict
			time.Sleep(2 * time.Microsecond)
		}
		switch op.Kind {
		case "req", "reqfunc":
			hint := launch.RateLimitRuleHint{ClientID: cids[op.Cid]}
			node, hasnode := w.node[op.Addr]
			if !hasnode {
				node = -1
			}
			want := w.ref.expected(op.Addr, op.H, op.Cid, node)
			key := [2]int{op.Addr, op.H}
			_, cached := w.decidedAt[key]
			var got decision
			if op.Kind == "req" {
				l := w.h.VerifRateLimiter(addrs[op.Addr], handlers[op.H], hint)
				dk, da := descOf(l.Desc())
				got = decision{indexOf(types, l.Type()), ruleID(l.Limit(), l.Burst()), dk, da, checksumOf(l.Checksum())}
				obs = nlist(got.Type, got.Rule, got.DescKind, got.DescArg, got.Checksum, w.gen(l.Limiter))
			} else {
				ctx := context.WithValue(context.Background(), launch.RateLimiterLimiterNameContextKey, handlers[op.H])
				if op.Cid != 0 || op.Nil {
					ctx = context.WithValue(ctx, launch.RateLimiterClientIDContextKey, cids[op.Cid])
				}
				called := false
				rctx, err := w.h.Func(ctx, addrs[op.Addr], func(c context.Context) (context.Context, error) {
					called = true
					return c, nil
				})
				rf, ok := rctx.Value(launch.RateLimiterResultContextKey).(func() launch.RateLimiterResult)
				if !ok {
					failc(res, "func-no-result", at+"Func did not put a RateLimiterResult into the context", rp)
					return "CH " + vh.List(steps)
				}
				rr := rf()
				if rr.Allowed != called || (err == nil) != called {
					failc(res, "func-allowed-inconsistent", at+fmt.Sprintf("allowed=%v handler called=%v err=%v", rr.Allowed, called, err), rp)
				}
				l := w.h.VerifCachedRateLimiter(addrs[op.Addr], handlers[op.H])
				if l == nil {
					failc(res, "func-no-limiter", at+"no limiter cached after Func", rp)
					return "CH " + vh.List(steps)
				}
				dk, da := descOf(l.Desc())
				got = decision{indexOf(types, l.Type()), ruleID(l.Limit(), l.Burst()), dk, da, checksumOf(l.Checksum())}
				obs = nlist(got.Type, got.Rule, got.DescKind, got.DescArg, got.Checksum, w.gen(l.Limiter))
				// enforcement of the two rules without a bucket
				if got.Rule == ruleZero && rr.Allowed {
					failc(res, "limit-all-allowed", at+"a request decided by the limit-all rule (0) was allowed", rp)
				}
				if got.Rule == ruleNoLimit && !rr.Allowed {
					failc(res, "nolimit-denied", at+"a request decided by the nolimit rule was denied", rp)
				}
				// what Func reports must be the limiter it used
				rk, ra := descOf(rr.RulesetDesc)
				if indexOf(types, rr.RulesetType) != got.Type || ruleFromHuman(rr.Limiter) != got.Rule || rk != dk || ra != da {
					failc(res, "func-result-inconsistent", at+fmt.Sprintf("Func reports type %q desc %q limiter %q, the cached limiter is %+v", rr.RulesetType, rr.RulesetDesc, rr.Limiter, got), rp)
				}
			}
			if !w.known[op.Addr] {
				w.queue = append(w.queue, op.Addr)
			}
			w.known[op.Addr] = true
			if got != want {
				class := "precedence-mismatch"
				switch {
				case cached && w.decidedCid[key] != op.Cid:
					class = "cached-limiter-ignores-clientid"
				case cached && w.lastSetAt > w.decidedAt[key]:
					class = "cached-limiter-ignores-ruleset-update"
				}
				failc(res, class, at+fmt.Sprintf("addr %d handler %d client id %q node %d: limiter used %+v, the precedence chain gives %+v (cached limiter decided for client id %q at op %d; last rule set installed at op %d)",
					op.Addr, op.H, cids[op.Cid], node, got, want, cids[w.decidedCid[key]], w.decidedAt[key], w.lastSetAt), rp)
			} else {
				w.decidedCid[key] = op.Cid
				w.decidedAt[key] = i
			}
			if !cached {
				w.decidedCid[key] = op.Cid
				w.decidedAt[key] = i
			}
			if want.Type <= 3 {
				nontrivial = true
			}
			res.Dist("decision_" + types[want.Type])
			term = fmt.Sprintf("OReq %s %s %s", vh.N(uint64(op.Addr)), vh.N(uint64(op.H)), vh.N(uint64(op.Cid)))
		case "addnode":
			ok := w.h.AddNode(addrs[op.Addr], nodes[op.Node])
			_, has := w.node[op.Addr]
			wantok := w.known[op.Addr] && !has
			if ok != wantok {
				failc(res, "addnode-result", at+fmt.Sprintf("AddNode(addr %d)=%v want %v", op.Addr, ok, wantok), rp)
			}
			if ok {
				w.node[op.Addr] = op.Node
			}
			obs = nlist(b2i(ok))
			term = fmt.Sprintf("OAddNode %s %s", vh.N(uint64(op.Addr)), vh.N(uint64(op.Node)))
		case "removeaddr":
			ok := w.h.VerifRemoveAddr(addrs[op.Addr])
			if ok != w.known[op.Addr] {
				failc(res, "removeaddr-result", at+fmt.Sprintf("remove(addr %d)=%v want %v", op.Addr, ok, w.known[op.Addr]), rp)
			}
			w.forget(op.Addr)
			obs = nlist(b2i(ok))
			term = fmt.Sprintf("ORemoveAddr %s", vh.N(uint64(op.Addr)))
		case "shrink":
			// the pool holds more than MaxAddrs addresses: the oldest are evicted, with everything known about them
			n := w.h.VerifShrink(context.Background(), uint64(op.Max))
			want := 0
			for len(w.queue) > op.Max {
				w.forget(w.queue[0])
				want++
			}
			if int(n) != want {
				failc(res, "shrink-count", at+fmt.Sprintf("shrink with MaxAddrs %d removed %d addresses, expected %d", op.Max, n, want), rp)
			}
			obs = nlist(int(n))
			term = fmt.Sprintf("OShrink %s", vh.N(uint64(op.Max)))
		case "clientid":
			if op.Nil {
				_ = w.rules.SetClientIDRuleSet(nil)
				w.ref.clientid = nil
				term = "OSetClientID None"
			} else {
				m := map[string]launch.RateLimiterRuleMap{}
				for c, rm := range op.Keyed {
					m[cids[c]] = rm.real()
				}
				_ = w.rules.SetClientIDRuleSet(launch.NewClientIDRateLimiterRuleSet(m))
				w.ref.clientid = op.Keyed
				if w.ref.clientid == nil {
					w.ref.clientid = map[int]RuleMap{}
				}
				term = "OSetClientID " + vh.Some(keyedCoq(op.Keyed))
			}
			w.lastSetAt = i
			obs = "[]"
		case "nodes":
			if op.Nil {
				_ = w.rules.SetNodeRuleSet(nil)
				w.ref.nodes = nil
				term = "OSetNodes None"
			} else {
				m := map[string]launch.RateLimiterRuleMap{}
				for n, rm := range op.Keyed {
					m[nodes[n].String()] = rm.real()
				}
				_ = w.rules.SetNodeRuleSet(launch.NewNodeRateLimiterRuleSet(m))
				w.ref.nodes = op.Keyed
				if w.ref.nodes == nil {
					w.ref.nodes = map[int]RuleMap{}
				}
				term = "OSetNodes " + vh.Some(keyedCoq(op.Keyed))
			}
			w.lastSetAt = i
			obs = "[]"
		case "nets":
			if op.Nil {
				_ = w.rules.SetNetRuleSet(nil)
				w.ref.nets, w.ref.netsSet = nil, false
				term = "OSetNets None"
			} else {
				rs := launch.NewNetRateLimiterRuleSet()
				var items []string
				for _, na := range op.Nets {
					rs.Add(ipnets[na.Net], na.RM.real())
					var cont []int
					for a := range addrs {
						if contains(na.Net, a) {
							cont = append(cont, a)
						}
					}
					items = append(items, vh.Tuple(vh.N(uint64(na.Net)), nlist(cont...), na.RM.coq()))
				}
				if err := rs.IsValid(nil); err != nil && !hasDupNet(op.Nets) {
					failc(res, "nets-invalid", at+err.Error(), rp)
				}
				_ = w.rules.SetNetRuleSet(rs)
				w.ref.nets, w.ref.netsSet = op.Nets, true
				term = "OSetNets " + vh.Some(vh.List(items))
			}
			w.lastSetAt = i
			obs = "[]"
		case "suffrage":
			_ = w.rules.SetSuffrageRuleSet(launch.NewSuffrageRateLimiterRuleSet(op.RM.real()))
			w.ref.suffrage = *op.RM
			term = "OSetSuffrage " + op.RM.coq()
			obs = "[]"
		case "defaultmap":
			_ = w.rules.SetDefaultRuleMap(op.RM.real())
			w.ref.dmap = *op.RM
			term = "OSetDefaultMap " + op.RM.coq()
			obs = "[]"
		case "consensus":
			*w.cs = *op.Cons
			w.ref.cons = *op.Cons
			term = fmt.Sprintf("OSetConsensus (%s, %s, %s)", vh.Bool(op.Cons.Err), vh.N(uint64(op.Cons.St)), nlist(op.Cons.Members...))
			obs = "[]"
		default:
			panic("unknown op " + op.Kind)
		}
		if op.Kind != "req" && op.Kind != "reqfunc" {
			// UpdatedAt() is a wall clock in nanoseconds: keep the order of events strict
			time.Sleep(2 * time.Microsecond)
		}
		steps = append(steps, "("+term+", "+obs+")")
		if verbose {
			fmt.Printf("%s%+v -> %s\n", at, op, obs)
		}
	}
	res.Count(fmt.Sprint(rp), nontrivial)
	return "CH " + vh.List(steps)
}

// failc records at most 25 failures per class (vh.Result keeps 200 in total): the open known findings
// must not crowd out a failure of another class.
var failCount = map[string]int{}

func failc(res *vh.Result, class, desc string, replay any) {
	failCount[class]++
	if failCount[class] <= 25 {
		res.Fail(class, desc, replay)
	} else {
		res.Distribution["oracle_fail:"+class]++
	}
}

func hasDupNet(ns []NetAdd) bool {
	seen := map[int]bool{}
	for _, n := range ns {
		if seen[n.Net] {
			return true
		}
		seen[n.Net] = true
	}
	return false
}

func b2i(b bool) int {
	if b {
		return 1
	}
	return 0
}

// ruleFromHuman maps RateLimiterResult.Limiter ("burst/duration", "nolimit", "0") to the rule id (bursts are
// distinct in the rule table).
func ruleFromHuman(s string) int {
	switch s {
	case "nolimit":
		return ruleNoLimit
	case "0":
		return ruleZero
	}
	i := strings.Index(s, "/")
	if i < 0 {
		return 99
	}
	b, err := strconv.Atoi(s[:i])
	if err != nil {
		return 99
	}
	for id, r := range rulesTbl {
		if id != ruleNoLimit && id != ruleZero && r.Burst == b {
			return id
		}
	}
	return 99
}

// ---------------------------------------------------------------- generator

func genRuleMap(r *vh.Rand) RuleMap {
	m := RuleMap{D: -1}
	if r.Chance(1, 2) {
		m.D = genRule(r)
	}
	k := r.Intn(3)
	for i := 0; i < k; i++ {
		if m.M == nil {
			m.M = map[int]int{}
		}
		m.M[r.Intn(len(handlers))] = genRule(r)
	}
	return m
}

func genRule(r *vh.Rand) int {
	if r.Chance(1, 10) {
		return []int{ruleNoLimit, ruleZero}[r.Intn(2)]
	}
	return r.Range(1, 12)
}

func genKeyed(r *vh.Rand, n int) map[int]RuleMap {
	m := map[int]RuleMap{}
	k := r.Intn(3)
	for i := 0; i <= k; i++ {
		m[r.Intn(n)] = genRuleMap(r)
	}
	if r.Chance(1, 12) {
		return map[int]RuleMap{}
	}
	return m
}

func genStream(r *vh.Rand) replay {
	var rp replay
	n := r.Range(4, 40)
	// a few addresses / handlers per stream so that cached limiters are hit
	na, nh := r.Range(1, 3), r.Range(1, 2)
	as, hs := r.Perm(len(addrs))[:na], r.Perm(len(handlers))[:nh]
	for i := 0; i < n; i++ {
		c := r.Intn(100)
		var op Op
		switch {
		case c < 52:
			op = Op{Kind: "req", Addr: as[r.Intn(na)], H: hs[r.Intn(nh)], Cid: r.Intn(len(cids))}
			if r.Chance(1, 3) {
				op.Cid = 0
			}
			if r.Chance(1, 4) {
				op.Kind = "reqfunc"
				op.Nil = r.Bool() // empty client id present in the context
			}
		case c < 60:
			op = Op{Kind: "addnode", Addr: as[r.Intn(na)], Node: r.Intn(len(nodes))}
		case c < 62:
			op = Op{Kind: "removeaddr", Addr: as[r.Intn(na)]}
		case c < 65:
			op = Op{Kind: "shrink", Max: r.Intn(na + 1)}
		case c < 72:
			op = Op{Kind: "clientid", Nil: r.Chance(1, 6)}
			if !op.Nil {
				op.Keyed = map[int]RuleMap{}
				for k, v := range genKeyed(r, 3) {
					op.Keyed[k+1] = v
				}
			}
		case c < 80:
			op = Op{Kind: "nets", Nil: r.Chance(1, 6)}
			if !op.Nil {
				k := r.Intn(4)
				for j := 0; j < k; j++ {
					op.Nets = append(op.Nets, NetAdd{Net: r.Intn(len(ipnets)), RM: genRuleMap(r)})
				}
			}
		case c < 87:
			op = Op{Kind: "nodes", Nil: r.Chance(1, 6)}
			if !op.Nil {
				op.Keyed = genKeyed(r, len(nodes))
			}
		case c < 91:
			rm := genRuleMap(r)
			op = Op{Kind: "suffrage", RM: &rm}
		case c < 95:
			rm := genRuleMap(r)
			op = Op{Kind: "defaultmap", RM: &rm}
		default:
			cs := consState{Err: r.Chance(1, 8), St: r.Range(1, 3)}
			for m := range nodes {
				if r.Bool() {
					cs.Members = append(cs.Members, m)
				}
			}
			op = Op{Kind: "consensus", Cons: &cs}
		}
		rp.Ops = append(rp.Ops, op)
	}
	return rp
}

func corpus() []replay {
	rm := func(d int, m map[int]int) RuleMap { return RuleMap{D: d, M: m} }
	req := func(a, h, c int) Op { return Op{Kind: "req", Addr: a, H: h, Cid: c} }
	cid := func(k map[int]RuleMap) Op { return Op{Kind: "clientid", Keyed: k} }
	nets := func(ns ...NetAdd) Op { return Op{Kind: "nets", Nets: ns} }
	nds := func(k map[int]RuleMap) Op { return Op{Kind: "nodes", Keyed: k} }
	cons := func(st int, ms ...int) Op { return Op{Kind: "consensus", Cons: &consState{St: st, Members: ms}} }
	return []replay{
		// precedence on fresh limiters: clientid > net (first in order) > node > suffrage > default map > built-in
		{[]Op{cid(map[int]RuleMap{1: rm(1, nil)}), nets(NetAdd{1, rm(2, nil)}, NetAdd{0, rm(3, nil)}), nds(map[int]RuleMap{0: rm(4, nil)}),
			cons(1, 0), req(0, 0, 1), req(0, 1, 0), req(3, 0, 0), {Kind: "addnode", Addr: 3, Node: 0}, req(3, 1, 0), req(4, 0, 2),
			{Kind: "addnode", Addr: 4, Node: 1}, req(4, 1, 0), cons(2, 0, 1), req(4, 1, 0), req(4, 2, 0),
			{Kind: "defaultmap", RM: &RuleMap{D: -1}}, req(5, 0, 0)}},
		// known finding: a cached clientid limiter serves another client id
		{[]Op{cid(map[int]RuleMap{1: rm(1, nil), 2: rm(2, nil)}), req(0, 0, 1), req(0, 0, 2), req(0, 0, 3), req(0, 0, 0), req(0, 0, 2)}},
		// known finding: a cached net limiter serves a request with a client id that has a rule
		{[]Op{cid(map[int]RuleMap{1: rm(1, nil)}), nets(NetAdd{2, rm(5, nil)}), req(0, 0, 0), req(0, 0, 1)}},
		// known finding: a cached node limiter survives the installation of a matching net rule
		{[]Op{nds(map[int]RuleMap{0: rm(4, nil)}), req(0, 0, 0), {Kind: "addnode", Addr: 0, Node: 0}, req(0, 0, 0),
			nets(NetAdd{2, rm(5, nil)}), req(0, 0, 0)}},
		// first containing net without a rule for the handler: no net rule at all
		{[]Op{nets(NetAdd{0, rm(-1, map[int]int{1: 6})}, NetAdd{2, rm(7, nil)}), req(0, 0, 0), req(0, 1, 0), req(2, 0, 0)}},
		// same net added twice
		{[]Op{nets(NetAdd{2, rm(7, nil)}, NetAdd{2, rm(8, nil)}), req(0, 0, 0)}},
		// suffrage: state hash changes, node leaves, error
		{[]Op{req(1, 2, 0), {Kind: "addnode", Addr: 1, Node: 2}, cons(1, 2), req(1, 2, 0), req(1, 0, 0), cons(2, 2), req(1, 2, 0),
			cons(2), req(1, 2, 0), {Kind: "consensus", Cons: &consState{Err: true, St: 3, Members: []int{2}}}, req(1, 0, 0), cons(3, 2), req(1, 0, 0)}},
		// removal of the address forgets node and limiters
		{[]Op{req(1, 0, 0), {Kind: "addnode", Addr: 1, Node: 2}, {Kind: "addnode", Addr: 1, Node: 1}, {Kind: "removeaddr", Addr: 1},
			{Kind: "addnode", Addr: 1, Node: 1}, req(1, 0, 0), {Kind: "addnode", Addr: 1, Node: 1}, cons(1, 1), req(1, 0, 0)}},
		// MaxAddrs eviction forgets the node identity of the evicted (oldest) address, keeps the newest
		{[]Op{nds(map[int]RuleMap{0: rm(4, nil), 1: rm(6, nil)}), req(0, 0, 0), {Kind: "addnode", Addr: 0, Node: 0}, req(0, 0, 0),
			req(1, 0, 0), {Kind: "addnode", Addr: 1, Node: 1}, req(2, 0, 0), {Kind: "shrink", Max: 2}, req(0, 0, 0), req(1, 0, 0),
			{Kind: "shrink", Max: 5}, {Kind: "shrink", Max: 0}, req(1, 0, 0), {Kind: "addnode", Addr: 1, Node: 0}, req(1, 0, 0)}},
		// nolimit / limit-all rules and switching between rules
		{[]Op{cid(map[int]RuleMap{1: rm(13, nil), 2: rm(14, nil), 3: rm(3, nil)}), req(0, 0, 1), req(0, 0, 0), req(0, 0, 3), req(0, 0, 0), req(0, 0, 3),
			{Kind: "reqfunc", Addr: 0, H: 0, Cid: 0}, {Kind: "reqfunc", Addr: 0, H: 0, Cid: 3}}},
	}
}

// ---------------------------------------------------------------- token bucket with a controlled clock

type bucketReplay struct {
	Rule     int     `json:"rule_burst"`
	Interval int64   `json:"interval_ns"`
	Times    []int64 `json:"times_ns"`
}

// a limiter for (d, burst) chosen by the real handler (default map rule)
func limiterFor(d time.Duration, burst int) *launch.RateLimiter {
	rules := launch.NewRateLimiterRules()
	r := launch.NewRateLimiterRule(d, burst)
	_ = rules.SetDefaultRuleMap(launch.NewRateLimiterRuleMap(&r, nil))
	h := newHandler(rules, &consState{})
	return h.VerifRateLimiter(addrs[0], "bucket", launch.RateLimitRuleHint{})
}

func bucketCase(res *vh.Result, r *vh.Rand, cases *vh.Cases) {
	burst := r.Range(1, 12)
	d := time.Duration(r.Range(1, 4000)) * time.Millisecond
	if r.Chance(1, 5) {
		d = time.Duration(r.Range(burst, 100000)) * time.Nanosecond * time.Duration(burst)
	}
	l := limiterFor(d, burst)
	if l.Limiter == nil {
		return
	}
	interval := int64(d / time.Duration(burst)) // makeLimit: rate.Every(d / burst)
	if interval <= 0 {
		return
	}
	if got := float64(l.Limit()); math.Abs(got*float64(interval)/1e9-1) > 1e-9 {
		failc(res, "limit-not-burst-per-duration", fmt.Sprintf("rule %d/%s: limiter limit %v tokens/s, expected one token per %dns", burst, d, got, interval), nil)
	}
	n := r.Range(5, 60)
	base := time.Unix(1700000000, 0)
	var ts []int64
	var oks []bool
	t := int64(0)
	// exact replica of the documented bucket (scaled by interval) to steer the times to the boundaries
	tok, last := int64(burst)*interval, int64(0)
	fragile := false
	for i := 0; i < n; i++ {
		switch r.Intn(6) {
		case 0: // same instant
		case 1:
			t += int64(r.Intn(int(min64(interval, 1<<30)))) / 8
		case 2: // exactly when the next token is complete, or a little around it
			need := interval - min64(int64(burst)*interval, tok+(t-last))
			if need > 0 {
				t += need + int64(r.Range(-2, 2))
				if t < last {
					t = last
				}
			}
		case 3:
			t += interval * int64(r.Range(1, 2*burst))
		case 4:
			t += int64(r.Intn(int(min64(3*interval, 1<<30))))
		default:
			t += int64(r.Intn(1000))
		}
		if len(ts) > 0 && t < ts[len(ts)-1] {
			t = ts[len(ts)-1]
		}
		avail := min64(int64(burst)*interval, tok+(t-last))
		deficit := interval - avail
		ok := l.Limiter.AllowN(base.Add(time.Duration(t)), 1)
		if deficit == 1 {
			fragile = true // float64 rounding decides inside the limiter: one nanosecond early is possible
			if ok {
				res.Dist("bucket_allowed_1ns_early")
			}
		}
		if ok {
			tok, last = avail-interval, t
			if tok < -1 {
				tok = -1
			}
		}
		ts = append(ts, t)
		oks = append(oks, ok)
	}
	rp := bucketReplay{burst, interval, ts}
	// oracle: in every window the number of allowed requests is at most burst + (W + 1ns) / interval
	for i := range ts {
		k := int64(0)
		for j := i; j < len(ts); j++ {
			if oks[j] {
				k++
			}
			if k*interval > int64(burst)*interval+(ts[j]-ts[i])+1 {
				failc(res, "bucket-bound", fmt.Sprintf("burst %d, one token per %dns: %d requests allowed in the window [%d,%d]ns", burst, interval, k, ts[i], ts[j]), rp)
				i = len(ts)
				break
			}
		}
	}
	res.Evaluations++
	res.Dist("bucket_streams")
	if !fragile {
		tsz := make([]string, len(ts))
		okz := make([]string, len(ts))
		for i := range ts {
			tsz[i] = vh.Z(ts[i])
			okz[i] = vh.Bool(oks[i])
		}
		cases.Add("CB "+vh.Tuple(vh.Z(interval), vh.Z(int64(burst)), vh.List(tsz), vh.List(okz)), rp)
		res.Dist("bucket_model_cases")
	}
}

func min64(a, b int64) int64 {
	if a < b {
		return a
	}
	return b
}

// realTime: requests through Func in a tight loop for a short real time; coarse window = the whole run.
func realTime(res *vh.Result) {
	burst, d := 3, 300*time.Millisecond
	rules := launch.NewRateLimiterRules()
	r := launch.NewRateLimiterRule(d, burst)
	_ = rules.SetDefaultRuleMap(launch.NewRateLimiterRuleMap(&r, nil))
	h := newHandler(rules, &consState{})
	ctx := context.WithValue(context.Background(), launch.RateLimiterLimiterNameContextKey, "rt")
	start := time.Now()
	allowed, total := 0, 0
	for time.Since(start) < 250*time.Millisecond {
		_, err := h.Func(ctx, addrs[0], func(c context.Context) (context.Context, error) { return c, nil })
		if err == nil {
			allowed++
		}
		total++
		time.Sleep(200 * time.Microsecond)
	}
	el := time.Since(start)
	bound := float64(burst) + float64(el)/float64(d/time.Duration(burst)) + 1
	if float64(allowed) > bound {
		failc(res, "bucket-bound-realtime", fmt.Sprintf("rule %d/%s: %d of %d requests allowed within %s", burst, d, allowed, total, el), nil)
	}
	res.Evaluations++
	res.Distribution["realtime_requests"] = total
	res.Distribution["realtime_allowed"] = allowed
}

// switching: the same (addr, handler) alternates between two client ids with different rules; the requests
// served under the client-id rule must respect that rule's bucket.
func switching(res *vh.Result) {
	rules := launch.NewRateLimiterRules()
	r := launch.NewRateLimiterRule(10*time.Second, 2)
	_ = rules.SetClientIDRuleSet(launch.NewClientIDRateLimiterRuleSet(map[string]launch.RateLimiterRuleMap{
		"c1": launch.NewRateLimiterRuleMap(&r, nil),
	}))
	h := newHandler(rules, &consState{})
	start := time.Now()
	allowed := 0
	ptrs := map[*rate.Limiter]bool{}
	for i := 0; i < 40; i++ {
		hint := launch.RateLimitRuleHint{}
		if i%2 == 0 {
			hint.ClientID = "c1"
		}
		l, ok := h.VerifAllow(addrs[0], "sw", hint)
		if i%2 == 0 && l.Type() == "clientid" {
			if ok {
				allowed++
			}
			ptrs[l.Limiter] = true
		}
	}
	el := time.Since(start)
	bound := 2 + float64(el)/float64(5*time.Second) + 1
	res.Evaluations++
	if float64(allowed) > bound {
		failc(res, "bucket-reset-on-rule-switch", fmt.Sprintf("rule 2/10s for client id c1: alternating requests with client ids c1 / none from one address: %d of 20 c1-requests allowed within %s (%d distinct buckets used)", allowed, el, len(ptrs)),
			map[string]any{"switching": true})
	}
}

func main() {
	o := vh.ParseFlags()
	setup()
	res := vh.NewResult("random streams (4..40 ops) of requests (3 addresses x 2 handlers x 4 client ids per stream, through the verif hook or RateLimitHandler.Func), AddNode, address removal, rule-set installations (client ids, nets in order incl. duplicates, nodes, suffrage, default map) and consensus changes on the real RateLimitHandler; oracle = precedence chain evaluated on the current rules; token bucket streams with a controlled clock (boundaries steered); non-trivial = a request decided by a client-id/net/node/suffrage rule")
	cases := &vh.Cases{Import: "From MV Require Import C36.Model.", Type: "vcase", CheckFn: "check_any", Shard: 100}
	if o.Replay != "" {
		var rp replay
		if err := vh.ReadReplay(o.Replay, &rp); err == nil && len(rp.Ops) > 0 {
			runStream(res, rp, true)
		}
	}
	for _, rp := range corpus() {
		cases.Add(runStream(res, rp, false), rp)
		res.Dist("corpus")
	}
	r := vh.NewRand(o.Seed)
	n := o.Pick(500, 15000)
	for i := 0; i < n; i++ {
		rp := genStream(r)
		cases.Add(runStream(res, rp, false), rp)
		for _, op := range rp.Ops {
			res.Dist("op_" + op.Kind)
		}
		if i < 2 {
			res.Sample(rp)
		}
	}
	nb := o.Pick(300, 6000)
	for i := 0; i < nb; i++ {
		bucketCase(res, r, cases)
	}
	realTime(res)
	switching(res)
	res.ModelCases = cases.Len()
	if err := cases.Write(o.Out); err != nil {
		panic(err)
	}
	res.Write(o.Out)
}
