// c26: the Redis-backed permanent database answers every read as the leveldb-backed one.
//
// Random chains (block maps, states rewritten across heights, suffrage states with real SuffrageProofs,
// network policy states, known / in-state operations) are written block by block into a real
// LeveldbBlockWrite; its TempDatabase is merged into a real RedisPermanent (miniredis in-process) and a real
// LeveldbPermanent (mem storage). After every merge, and again after reopening both, EVERY
// PermanentDatabase read is issued for every height / suffrage height / state key / operation hash in range
// (and just outside). Oracle = the property: the two answer lists are equal. Both lists also go to the Coq
// model (per backend) and to the chain specification.
package main

import (
	"bytes"
	"context"
	"crypto/sha256"
	"encoding/hex"
	"fmt"
	"os"
	"path/filepath"
	"regexp"
	"strconv"

	"github.com/alicebob/miniredis/v2"
	"github.com/redis/go-redis/v9"
	"github.com/spikeekips/mitum/base"
	"github.com/spikeekips/mitum/isaac"
	isaacblock "github.com/spikeekips/mitum/isaac/block"
	isaacdatabase "github.com/spikeekips/mitum/isaac/database"
	leveldbstorage "github.com/spikeekips/mitum/storage/leveldb"
	redisstorage "github.com/spikeekips/mitum/storage/redis"
	"github.com/spikeekips/mitum/util"
	"github.com/spikeekips/mitum/util/fixedtree"
	"github.com/spikeekips/mitum/util/valuehash"
	"verifharness/vh"
)

// ---------------------------------------------------------------- chain description (replayable)

type stateSpec struct {
	Key int `json:"key"` // index in the key pool
}

type blockSpec struct {
	Height   int64 `json:"height"`
	States   []int `json:"states"`   // state key indices written by this block (distinct)
	Known    int   `json:"known"`    // number of known operations
	Suffrage bool  `json:"suffrage"` // carries a new suffrage state + proof
	Policy   bool  `json:"policy"`   // carries a new network policy state
	StCache  int   `json:"st_cache"` // size of the block write database's state cache (0 = none)
	Reopen   bool  `json:"reopen"`   // reopen both databases after this merge (reads before and after)
	// a big block: BigStates more states (own keys) with BigOps in-state operations each; with Known this makes the
	// block's temp database larger than one write batch of the leveldb merge (LeveldbPermanent.batchlimit)
	BigStates int `json:"big_states,omitempty"`
	BigOps    int `json:"big_ops,omitempty"`
}

type chainSpec struct {
	Start     int64       `json:"start"`
	CacheSize int         `json:"perm_cache"` // stcachesize of both permanent databases
	Keys      int         `json:"keys"`
	Blocks    []blockSpec `json:"blocks"`
}

// ---------------------------------------------------------------- ids

type interner struct {
	m map[string]uint64
}

func (in *interner) id(s string) uint64 {
	if v, ok := in.m[s]; ok {
		return v
	}
	v := uint64(len(in.m) + 1)
	in.m[s] = v

	return v
}

func frameID(enchint string, meta, body []byte) string {
	h := sha256.New()
	h.Write([]byte(enchint))
	h.Write([]byte{0})
	h.Write(meta)
	h.Write([]byte{0})
	h.Write(body)

	return hex.EncodeToString(h.Sum(nil))
}

// ---------------------------------------------------------------- what was written (for rendering the model's chain and for resolving bytes)

type writtenBlock struct {
	height  int64
	mapID   uint64
	states  [][3]int64 // key id, height, state id
	known   []uint64
	instate []uint64
	proof   *[2]int64 // suffrage height, proof id
	policy  *uint64
}

type world struct {
	e          *env
	in         *interner
	frames     map[string]uint64 // frame digest -> object id (recorded from the temp database at write time)
	written    []writtenBlock
	keys       []string
	sufh       int64
	allKnown   []util.Hash
	allInState []util.Hash
	sufHeights []int64
}

func (w *world) objMap(m base.BlockMap) uint64 { return w.in.id("map:" + m.Manifest().Hash().String()) }
func (w *world) objState(st base.State) uint64 { return w.in.id("state:" + st.Hash().String()) }
func (w *world) objProof(p base.SuffrageProof) uint64 {
	return w.in.id("proof:" + p.State().Hash().String())
}
func (w *world) objPolicy(p base.NetworkPolicy) uint64 {
	b, err := w.e.enc.Marshal(p)
	must(err)

	return w.in.id("policy:" + string(b))
}

// ---------------------------------------------------------------- reads

type answer struct {
	Kind string `json:"k"` // read kind
	Arg  int64  `json:"a"`
	Ans  string `json:"r"` // Coq term of the answer
	read string
}

func aNone() string         { return "ANone" }
func aVal(v uint64) string  { return fmt.Sprintf("(AVal %s)", vh.N(v)) }
func aBool(b bool) string   { return fmt.Sprintf("(ABool %s)", vh.Bool(b)) }
func aErr(err error) string { return fmt.Sprintf("(AVal %s)", vh.N(999999)) } // an answer no model gives

func (w *world) bytesAns(enchint string, meta, body []byte, found bool, err error) string {
	switch {
	case err != nil:
		return aErr(err)
	case !found:
		return aNone()
	}
	if id, ok := w.frames[frameID(enchint, meta, body)]; ok {
		return aVal(id)
	}

	return aVal(0) // bytes that are not the stored frame of any object
}

func (w *world) readAll(db isaac.PermanentDatabase, lo, hi int64) []answer {
	var out []answer
	add := func(kind string, arg int64, coqread, ans string) {
		out = append(out, answer{Kind: kind, Arg: arg, Ans: ans, read: coqread})
	}
	// last block map
	switch m, found, err := db.LastBlockMap(); {
	case err != nil:
		add("LastBlockMap", 0, "RLastMap", aErr(err))
	case !found:
		add("LastBlockMap", 0, "RLastMap", aNone())
	default:
		add("LastBlockMap", 0, "RLastMap", aVal(w.objMap(m)))
	}
	{
		eh, meta, body, found, err := db.LastBlockMapBytes()
		add("LastBlockMapBytes", 0, "RLastMap", w.bytesAns(eh, meta, body, found, err))
	}
	switch p, found, err := db.LastSuffrageProof(); {
	case err != nil:
		add("LastSuffrageProof", 0, "RLastProof", aErr(err))
	case !found:
		add("LastSuffrageProof", 0, "RLastProof", aNone())
	default:
		add("LastSuffrageProof", 0, "RLastProof", aVal(w.objProof(p)))
	}
	{
		eh, meta, body, found, err := db.LastSuffrageProofBytes()
		add("LastSuffrageProofBytes", 0, "RLastProof", w.bytesAns(eh, meta, body, found, err))
	}
	if p := db.LastNetworkPolicy(); p == nil {
		add("LastNetworkPolicy", 0, "RLastPolicy", aNone())
	} else {
		add("LastNetworkPolicy", 0, "RLastPolicy", aVal(w.objPolicy(p)))
	}
	for h := lo; h <= hi; h++ {
		rd := fmt.Sprintf("(RMap %s)", vh.Z(h))
		switch m, found, err := db.BlockMap(base.Height(h)); {
		case err != nil:
			add("BlockMap", h, rd, aErr(err))
		case !found:
			add("BlockMap", h, rd, aNone())
		default:
			add("BlockMap", h, rd, aVal(w.objMap(m)))
		}
		eh, meta, body, found, err := db.BlockMapBytes(base.Height(h))
		add("BlockMapBytes", h, rd, w.bytesAns(eh, meta, body, found, err))

		rd = fmt.Sprintf("(RProofByBlock %s)", vh.Z(h))
		switch p, found, err := db.SuffrageProofByBlockHeight(base.Height(h)); {
		case err != nil:
			add("SuffrageProofByBlockHeight", h, rd, aErr(err))
		case !found:
			add("SuffrageProofByBlockHeight", h, rd, aNone())
		default:
			add("SuffrageProofByBlockHeight", h, rd, aVal(w.objProof(p)))
		}
	}
	for sh := int64(-1); sh <= w.sufh+1; sh++ {
		rd := fmt.Sprintf("(RProof %s)", vh.Z(sh))
		switch p, found, err := db.SuffrageProof(base.Height(sh)); {
		case err != nil:
			add("SuffrageProof", sh, rd, aErr(err))
		case !found:
			add("SuffrageProof", sh, rd, aNone())
		default:
			add("SuffrageProof", sh, rd, aVal(w.objProof(p)))
		}
		eh, meta, body, found, err := db.SuffrageProofBytes(base.Height(sh))
		add("SuffrageProofBytes", sh, rd, w.bytesAns(eh, meta, body, found, err))
	}
	keys := append(append([]string{}, w.keys...), isaac.SuffrageStateKey, isaac.NetworkPolicyStateKey, "never-written")
	for i, k := range keys {
		rd := fmt.Sprintf("(RState %s)", vh.N(w.in.id("key:"+k)))
		switch st, found, err := db.State(k); {
		case err != nil:
			add("State", int64(i), rd, aErr(err))
		case !found:
			add("State", int64(i), rd, aNone())
		default:
			add("State", int64(i), rd, aVal(w.objState(st)))
		}
		eh, meta, body, found, err := db.StateBytes(k)
		add("StateBytes", int64(i), rd, w.bytesAns(eh, meta, body, found, err))
	}
	ops := append(append(append([]util.Hash{}, w.allKnown...), w.allInState...), valuehash.NewSHA256([]byte("never-written")))
	for i, o := range ops {
		id := w.in.id("op:" + o.String())
		switch found, err := db.ExistsKnownOperation(o); {
		case err != nil:
			add("ExistsKnownOperation", int64(i), fmt.Sprintf("(RKnown %s)", vh.N(id)), aErr(err))
		default:
			add("ExistsKnownOperation", int64(i), fmt.Sprintf("(RKnown %s)", vh.N(id)), aBool(found))
		}
		switch found, err := db.ExistsInStateOperation(o); {
		case err != nil:
			add("ExistsInStateOperation", int64(i), fmt.Sprintf("(RInState %s)", vh.N(id)), aErr(err))
		default:
			add("ExistsInStateOperation", int64(i), fmt.Sprintf("(RInState %s)", vh.N(id)), aBool(found))
		}
	}

	return out
}

// ---------------------------------------------------------------- Coq rendering of the chain

func (w *world) coqChain() string {
	bs := make([]string, len(w.written))
	for i, b := range w.written {
		sts := make([]string, len(b.states))
		for j, s := range b.states {
			sts[j] = vh.Tuple(vh.N(uint64(s[0])), vh.Z(s[1]), vh.N(uint64(s[2])))
		}
		ns := func(xs []uint64) string {
			ss := make([]string, len(xs))
			for j := range xs {
				ss[j] = vh.N(xs[j])
			}

			return vh.List(ss)
		}
		proof, policy := "None", "None"
		if b.proof != nil {
			proof = vh.Some(vh.Tuple(vh.Z(b.proof[0]), vh.N(uint64(b.proof[1]))))
		}
		if b.policy != nil {
			policy = vh.Some(vh.N(*b.policy))
		}
		bs[i] = fmt.Sprintf("(mkBlock %s %s %s %s %s %s %s)", vh.Z(b.height), vh.N(b.mapID), vh.List(sts), ns(b.known), ns(b.instate), proof, policy)
	}

	return vh.List(bs)
}

// ---------------------------------------------------------------- writing one block into a temp database

func (w *world) writeBlock(h int64, bs blockSpec, r *vh.Rand) isaac.TempDatabase {
	e := w.e
	height := base.Height(h)
	manifest := base.NewDummyManifest(height, valuehash.RandomSHA256())
	wb := writtenBlock{height: h}

	var sts []base.State
	for _, ki := range bs.States {
		key := w.keys[ki]
		nops := 1 + r.Intn(2)
		ops := make([]util.Hash, nops)
		for i := range ops {
			ops[i] = valuehash.RandomSHA256()
		}
		sts = append(sts, base.NewBaseState(height, key, base.NewDummyStateValue(util.UUID().String()), valuehash.RandomSHA256(), ops))
	}
	for i := 0; i < bs.BigStates; i++ {
		key := fmt.Sprintf("big-%d-%04d", h, i)
		w.keys = append(w.keys, key)
		ops := make([]util.Hash, bs.BigOps)
		for j := range ops {
			ops[j] = valuehash.RandomSHA256()
		}
		sts = append(sts, base.NewBaseState(height, key, base.NewDummyStateValue(util.UUID().String()), valuehash.RandomSHA256(), ops))
	}
	var sufst base.State
	if bs.Suffrage {
		w.sufh++
		node := base.RandomNode()
		sv := isaac.NewSuffrageNodesStateValue(base.Height(w.sufh), []base.SuffrageNodeStateValue{isaac.NewSuffrageNodeStateValue(node, height)})
		sufst = base.NewBaseState(height, isaac.SuffrageStateKey, sv, valuehash.RandomSHA256(), []util.Hash{valuehash.RandomSHA256()})
		sts = append(sts, sufst)
		manifest.SetSuffrage(sufst.Hash())
	}
	if bs.Policy {
		policy := isaac.DefaultNetworkPolicy()
		policy.SetMaxOperationsInProposal(uint64(100 + r.Intn(1000000)))
		st := base.NewBaseState(height, isaac.NetworkPolicyStateKey, isaac.NewNetworkPolicyStateValue(policy), valuehash.RandomSHA256(), []util.Hash{valuehash.RandomSHA256()})
		sts = append(sts, st)
		pid := w.objPolicy(policy)
		wb.policy = &pid
	}
	m := base.NewDummyBlockMap(manifest)

	st := leveldbstorage.NewMemStorage()
	bw := isaacdatabase.NewLeveldbBlockWrite(height, st, e.encs, e.enc)
	if bs.StCache > 0 {
		bw.SetStateCache(util.NewLFUGCache[string, [2]interface{}](bs.StCache))
	}
	must(bw.SetBlockMap(m))
	must(bw.SetStates(sts))
	known := make([]util.Hash, bs.Known)
	for i := range known {
		known[i] = valuehash.RandomSHA256()
	}
	must(bw.SetOperations(known))
	var proof base.SuffrageProof
	if sufst != nil {
		// a real SuffrageProof over the block's states tree
		tw, err := fixedtree.NewWriter(base.StateFixedtreeHint, uint64(len(sts)))
		must(err)
		for i := range sts {
			must(tw.Add(uint64(i), fixedtree.NewBaseNode(sts[i].Hash().String())))
		}
		tr, err := tw.Tree()
		must(err)
		tp, err := tr.Proof(sufst.Hash().String())
		must(err)
		proof = isaacblock.NewSuffrageProof(m, sufst, tp)
		must(bw.SetSuffrageProof(proof))
	}
	must(bw.Write())
	temp, err := bw.TempDatabase()
	must(err)

	// record: ids and the frames the temp database holds for each object
	wb.mapID = w.objMap(m)
	{
		eh, meta, body, err := temp.BlockMapBytes()
		must(err)
		w.frames[frameID(eh, meta, body)] = wb.mapID
	}
	for _, s := range sts {
		id := w.objState(s)
		wb.states = append(wb.states, [3]int64{int64(w.in.id("key:" + s.Key())), h, int64(id)})
		eh, meta, body, found, err := temp.StateBytes(s.Key())
		must(err)
		if !found {
			panic("state not in temp")
		}
		w.frames[frameID(eh, meta, body)] = id
		for _, o := range s.Operations() {
			wb.instate = append(wb.instate, w.in.id("op:"+o.String()))
			w.allInState = append(w.allInState, o)
		}
	}
	for _, o := range known {
		wb.known = append(wb.known, w.in.id("op:"+o.String()))
		w.allKnown = append(w.allKnown, o)
	}
	if proof != nil {
		id := w.objProof(proof)
		wb.proof = &[2]int64{w.sufh, int64(id)}
		eh, meta, body, found, err := temp.LastSuffrageProofBytes()
		must(err)
		if !found {
			panic("proof not in temp")
		}
		w.frames[frameID(eh, meta, body)] = id
	}
	w.written = append(w.written, wb)

	return temp
}

// ---------------------------------------------------------------- one chain

type failure struct {
	class, desc string
}

func runChain(e *env, mr *miniredis.Miniredis, cs chainSpec, seed uint64, cases *vh.Cases, res *vh.Result, tag string) {
	r := vh.NewRand(seed)
	ctx := context.Background()
	w := &world{e: e, in: &interner{m: map[string]uint64{}}, frames: map[string]uint64{}, sufh: -1}
	for i := 0; i < cs.Keys; i++ {
		w.keys = append(w.keys, fmt.Sprintf("key-%d-%s", i, util.UUID().String()))
	}
	opts := &redis.Options{Network: "tcp", Addr: mr.Addr()}
	prefix := util.UUID().String()
	newRedis := func() *isaacdatabase.RedisPermanent {
		st, err := redisstorage.NewStorage(ctx, opts, prefix)
		must(err)
		db, err := isaacdatabase.NewRedisPermanent(st, e.encs, e.enc, cs.CacheSize)
		must(err)

		return db
	}
	lst := leveldbstorage.NewMemStorage()
	newLeveldb := func() *isaacdatabase.LeveldbPermanent {
		db, err := isaacdatabase.NewLeveldbPermanent(lst, e.encs, e.enc, cs.CacheSize)
		must(err)

		return db
	}
	rdb, ldb := newRedis(), newLeveldb()
	defer func() { _ = rdb.Close() }()

	step := func(i int, reopened bool) {
		lo, hi := cs.Start-1-extraBelow, cs.Start+int64(len(w.written))
		ra, la := w.readAll(rdb, lo, hi), w.readAll(ldb, lo, hi)
		if len(ra) != len(la) {
			panic("read lists differ in length")
		}
		obs := make([]string, len(ra))
		for j := range ra {
			if ra[j].read != la[j].read {
				panic("read lists differ")
			}
			obs[j] = vh.Tuple(ra[j].read, ra[j].Ans, la[j].Ans)
			if ra[j].Ans != la[j].Ans {
				res.Fail("backends-disagree:"+ra[j].Kind, fmt.Sprintf("%s(%d) after block %d (reopened=%v): redis=%s leveldb=%s [%s]", ra[j].Kind, ra[j].Arg, i, reopened, ra[j].Ans, la[j].Ans, tag),
					map[string]any{"chain": cs, "seed": seed})
			}
		}
		res.Count(fmt.Sprintf("%s/%d/%v", tag, i, reopened), len(w.written) > 0)
		res.Evaluations += len(ra) - 1
		res.Dist(fmt.Sprintf("step:reopened=%v", reopened))
		cases.Add(vh.Tuple(w.coqChain(), vh.Bool(reopened), vh.List(obs)),
			map[string]any{"chain": cs, "seed": seed, "after_block": i, "reopened": reopened, "redis": ra, "leveldb": la})
	}

	step(-1, false)
	for i, bs := range cs.Blocks {
		temp := w.writeBlock(cs.Start+int64(i), bs, r)
		must(rdb.MergeTempDatabase(ctx, temp))
		must(ldb.MergeTempDatabase(ctx, temp))
		step(i, false)
		if bs.Reopen {
			_ = rdb.Close()
			rdb, ldb = newRedis(), newLeveldb()
			step(i, true)
		}
		if bs.Suffrage {
			res.Dist("block:suffrage")
		}
		if bs.Policy {
			res.Dist("block:policy")
		}
	}
	res.Dist(fmt.Sprintf("chain:perm_cache=%d", cs.CacheSize))
	res.Sample(map[string]any{"chain": cs, "seed": seed})
}

func genChain(r *vh.Rand, maxlen int) chainSpec {
	cs := chainSpec{Keys: 2 + r.Intn(4)}
	switch r.Intn(5) {
	case 0:
		cs.Start = 0
	case 1:
		cs.Start = int64(r.Range(1, 9))
	case 2:
		cs.Start = int64(r.Range(92, 99)) // crosses 100
	case 3:
		cs.Start = int64(r.Range(990, 999))
	default:
		cs.Start = int64(r.U64() >> uint(2+r.Intn(40))) // up to 2^62
	}
	cs.CacheSize = []int{0, 1, 2, 100}[r.Intn(4)]
	n := r.Range(3, maxlen)
	next := r.Range(0, 2)
	for i := 0; i < n; i++ {
		bs := blockSpec{Height: cs.Start + int64(i), Known: r.Intn(3)}
		for _, k := range r.Perm(cs.Keys)[:r.Intn(cs.Keys+1)] {
			bs.States = append(bs.States, k)
		}
		if i == next {
			bs.Suffrage = true
			next = i + r.Range(1, 5)
		}
		bs.Policy = r.Chance(1, 5)
		bs.StCache = []int{0, 0, 1, 100}[r.Intn(4)]
		bs.Reopen = r.Chance(1, 3)
		if r.Chance(1, 400) {
			limit := batchLimit()
			bs.BigStates, bs.BigOps, bs.Known, bs.Reopen = r.Range(limit/3, limit+9), r.Intn(3), r.Intn(limit+9), true
		}
		cs.Blocks = append(cs.Blocks, bs)
	}

	return cs
}

// C26_EXTRA_BELOW=n (experiments only): also read n heights below start-1, i.e. below base.NilHeight when start = 0
var extraBelow = func() int64 {
	n, _ := strconv.ParseInt(os.Getenv("C26_EXTRA_BELOW"), 10, 64)

	return n
}()

// LeveldbPermanent.batchlimit as regenerated from the Go source into coq/Gen/C26.v (fallback: the value in the tree today)
func batchLimit() int {
	dir := os.Getenv("VERIF_DIR")
	if dir == "" {
		dir = "/verif"
	}
	if b, err := os.ReadFile(filepath.Join(dir, "coq", "Gen", "C26.v")); err == nil {
		if m := regexp.MustCompile(`leveldb_perm_batchlimit : Z := (\d+)`).FindSubmatch(b); m != nil {
			n, _ := strconv.Atoi(string(m[1]))
			if n > 0 {
				return n
			}
		}
	}

	return 333
}

type replay struct {
	Chain chainSpec `json:"chain"`
	Seed  uint64    `json:"seed"`
}

func main() {
	o := vh.ParseFlags()
	res := vh.NewResult("random chains merged block by block into a real RedisPermanent (miniredis) and a real LeveldbPermanent; after every merge and after reopening both, every PermanentDatabase read over all heights / suffrage heights / state keys / operation hashes in range and just outside; an evaluation = one read on both; non-trivial = at least one block merged")
	e := newEnv()
	mr, err := miniredis.Run()
	must(err)
	defer mr.Close()
	cases := &vh.Cases{Import: "From MV Require Import C26.Model.", Type: "list block * bool * list (read * ans * ans)", CheckFn: "check", Shard: 24}
	r := vh.NewRand(o.Seed)

	if o.Replay != "" {
		var rp replay
		must(vh.ReadReplay(o.Replay, &rp))
		runChain(e, mr, rp.Chain, rp.Seed, cases, res, "replay")
	}

	// corpus: the shapes that matter
	corpus := []chainSpec{
		// a state is read (cached), then rewritten by a block whose write database has no state cache
		{Start: 0, CacheSize: 100, Keys: 1, Blocks: []blockSpec{{States: []int{0}, Suffrage: true}, {States: []int{0}}, {States: []int{0}, Reopen: true}}},
		// heights across 9 -> 10 -> 11 and 99 -> 100 (decimal width), suffrage proofs at both sides
		{Start: 8, CacheSize: 0, Keys: 2, Blocks: []blockSpec{{Suffrage: true, States: []int{0}}, {States: []int{1}}, {Suffrage: true, Reopen: true}, {States: []int{0}}, {Reopen: true}}},
		{Start: 98, CacheSize: 1, Keys: 2, Blocks: []blockSpec{{Suffrage: true}, {Suffrage: true, Reopen: true}, {Policy: true}, {Suffrage: true, Reopen: true}, {Reopen: true}}},
		// no suffrage proof at all; policy only
		{Start: 0, CacheSize: 2, Keys: 2, Blocks: []blockSpec{{Policy: true, States: []int{0, 1}, Reopen: true}, {States: []int{1}, Known: 2, Reopen: true}}},
		// suffrage proof only in the first block, long tail
		{Start: 5, CacheSize: 0, Keys: 1, Blocks: []blockSpec{{Suffrage: true}, {}, {}, {}, {}, {}, {Reopen: true}, {}}},
	}
	// big blocks: more entries than one write batch of the leveldb merge (limit+7, and more than two batches), placed so
	// that the entry at a batch boundary is a state / an in-state operation / a known operation; read live, reopened and later
	limit := batchLimit()
	res.Distribution["leveldb_perm_batchlimit"] = limit
	for _, big := range []blockSpec{
		{BigStates: limit + 7, BigOps: 0, Reopen: true},                                   // boundary inside the states
		{BigStates: (limit + 7) / 3, BigOps: 2, Reopen: true},                             // boundary inside the in-state operations
		{BigStates: 5, BigOps: 1, Known: limit + 7, Reopen: true},                         // boundary inside the known operations
		{BigStates: limit/2 + 3, BigOps: 2, Known: limit + 9, Reopen: true, StCache: 100}, // several batches
	} {
		corpus = append(corpus, chainSpec{Start: 3, CacheSize: 2, Keys: 1, Blocks: []blockSpec{{States: []int{0}, Suffrage: true}, big, {States: []int{0}, Known: 1}}})
	}
	for i, cs := range corpus {
		for j := range cs.Blocks {
			cs.Blocks[j].Height = cs.Start + int64(j)
		}
		runChain(e, mr, cs, uint64(1000+i), cases, res, fmt.Sprintf("corpus%d", i))
	}

	chains := o.Pick(15, 400)
	for c := 0; c < chains; c++ {
		cs := genChain(r, o.Pick(10, 16))
		runChain(e, mr, cs, r.U64(), cases, res, fmt.Sprintf("chain%d", c))
	}

	res.ModelCases = cases.Len()
	must(cases.Write(o.Out))
	res.Write(o.Out)
	_ = bytes.Compare
}
