// c05: Ballotbox keeps stage points isolated and releases finished ones (isaac/states/ballotbox.go).
// Shares the harness of C04 (harness/cmd/c04/bb); the Coq check compares the inspector data.
package main

import "verifharness/cmd/c04/bb"

func main() { bb.Main("C05") }
