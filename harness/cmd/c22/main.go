// c22: operation pool hand-out of the real isaacdatabase.TempPool (SetOperation / OperationHashes) against
// (a) the property's own statement evaluated on real observables and (b) the Coq model (cases_NNN.v).
// The pool calls run in a child process (poolh.Child) so that a panic is an observable.
package main

import (
	"context"
	"encoding/json"
	"fmt"
	"sort"
	"time"

	"github.com/spikeekips/mitum/base"
	"github.com/spikeekips/mitum/isaac"
	isaacdatabase "github.com/spikeekips/mitum/isaac/database"
	"github.com/spikeekips/mitum/util"
	"verifharness/poolh"
	"verifharness/vh"
)

// ---------------------------------------------------------------- protocol parent <-> child

type step struct {
	Kind     string `json:"kind"` // new | set | hashes
	Op       int    `json:"op"`
	Fact     int    `json:"fact"`
	Signer   int    `json:"signer"`
	Limit    uint64 `json:"limit"`
	RejOps   []int  `json:"rejops,omitempty"`
	RejFacts []int  `json:"rejfacts,omitempty"`
	ErrOp    int    `json:"errop"` // -1: none
	NilFlt   bool   `json:"nilflt,omitempty"`
	Seed     uint64 `json:"seed,omitempty"`
}

type reply struct {
	Added    bool     `json:"added"`
	Err      string   `json:"err,omitempty"`
	Panic    string   `json:"panic,omitempty"`
	Res      [][2]int `json:"res"`      // returned (op,fact) in returned order; -1 = unknown hash
	Rejected []int    `json:"rejected"` // operations for which the filter callback returned false
	Before   [][2]int `json:"before"`   // ordered pool before the call
	After    [][2]int `json:"after"`    // ordered pool after the call
	NoBody   []int    `json:"nobody"`   // returned operations whose body is not retrievable
}

// ---------------------------------------------------------------- child

type childState struct {
	pool    *isaacdatabase.TempPool
	seed    uint64
	ops     map[int]base.Operation
	opidx   map[string]int
	factidx map[string]int
	lastns  int64
}

func (c *childState) fact(i int) isaac.DummyOperationFact {
	tok := []byte(fmt.Sprintf("verif-c22-fact-%06d", i))
	fact := isaac.NewDummyOperationFact(tok, util.BytesToByter(tok))
	c.factidx[fact.Hash().String()] = i
	return fact
}

func (c *childState) listing() [][2]int {
	out := [][2]int{}
	_ = c.pool.TraverseOperationsBytes(context.Background(), nil,
		func(_ string, meta isaacdatabase.FrameHeaderPoolOperation, _, _ []byte) (bool, error) {
			out = append(out, [2]int{c.idx(c.opidx, meta.Operation()), c.idx(c.factidx, meta.Fact())})
			return true, nil
		})
	return out
}

func (c *childState) idx(m map[string]int, h util.Hash) int {
	if h == nil {
		return -1
	}
	if i, ok := m[h.String()]; ok {
		return i
	}
	return -1
}

func (c *childState) handle(req []byte) []byte {
	var s step
	if err := json.Unmarshal(req, &s); err != nil {
		panic(err)
	}
	var r reply
	func() {
		defer func() {
			if x := recover(); x != nil {
				r.Panic = fmt.Sprint(x)
			}
		}()
		switch s.Kind {
		case "new":
			if c.pool != nil {
				_ = c.pool.Close()
			}
			c.pool, _ = poolh.NewPool()
			c.seed = s.Seed
			c.ops, c.opidx, c.factidx = map[int]base.Operation{}, map[string]int{}, map[string]int{}
		case "set":
			op, ok := c.ops[s.Op]
			if !ok {
				o, err := isaac.NewDummyOperation(c.fact(s.Fact), poolh.Key(c.seed, s.Signer), base.NetworkID("verif-c22"))
				if err != nil {
					panic(err)
				}
				op = o
				c.ops[s.Op] = op
				c.opidx[op.Hash().String()] = s.Op
			}
			for time.Now().UnixNano() <= c.lastns { // ordered keys are time-stamped: keep insertion order strict
			}
			added, err := c.pool.SetOperation(context.Background(), op)
			c.lastns = time.Now().UnixNano()
			r.Added = added
			if err != nil {
				r.Err = err.Error()
			}
			r.After = c.listing()
		case "hashes":
			r.Before = c.listing()
			rejops, rejfacts := map[int]bool{}, map[int]bool{}
			for _, i := range s.RejOps {
				rejops[i] = true
			}
			for _, i := range s.RejFacts {
				rejfacts[i] = true
			}
			r.Rejected = []int{}
			var flt func(isaac.PoolOperationRecordMeta) (bool, error)
			if !s.NilFlt {
				flt = func(meta isaac.PoolOperationRecordMeta) (bool, error) {
					o, f := c.idx(c.opidx, meta.Operation()), c.idx(c.factidx, meta.Fact())
					if s.ErrOp >= 0 && o == s.ErrOp {
						return false, fmt.Errorf("verif filter error")
					}
					if rejops[o] || rejfacts[f] {
						r.Rejected = append(r.Rejected, o)
						return false, nil
					}
					return true, nil
				}
			}
			hs, err := c.pool.OperationHashes(context.Background(), base.Height(33), s.Limit, flt)
			if err != nil {
				r.Err = err.Error()
			}
			r.Res = [][2]int{}
			r.NoBody = []int{}
			for i := range hs {
				o := c.idx(c.opidx, hs[i][0])
				r.Res = append(r.Res, [2]int{o, c.idx(c.factidx, hs[i][1])})
				if hs[i][0] != nil {
					if _, found, err := c.pool.Operation(context.Background(), hs[i][0]); err != nil || !found {
						r.NoBody = append(r.NoBody, o)
					}
				}
			}
			r.After = c.listing()
		}
	}()
	b, _ := json.Marshal(r)
	return b
}

// ---------------------------------------------------------------- parent

type driver struct {
	child *poolh.Child
	res   *vh.Result
	seed  uint64
}

func coqEntries(l [][2]int) string {
	s := make([][2]int, len(l))
	copy(s, l)
	sort.Slice(s, func(i, j int) bool {
		if s[i][0] != s[j][0] {
			return s[i][0] < s[j][0]
		}
		return s[i][1] < s[j][1]
	})
	items := make([]string, len(s))
	for i, e := range s {
		items[i] = vh.Tuple(vh.N(uint64(e[0])), vh.N(uint64(e[1])))
	}
	return vh.List(items)
}

func coqNs(l []int) string {
	items := make([]string, len(l))
	for i, x := range l {
		items[i] = vh.N(uint64(x))
	}
	return vh.List(items)
}

func has(l [][2]int, o int) int {
	for i := range l {
		if l[i][0] == o {
			return i
		}
	}
	return -1
}

// runHistory replays one history on the real pool (in the child), evaluates the oracle, renders the model case.
func (d *driver) runHistory(hist []step, label string, cases *vh.Cases) (nontrivial bool) {
	failed := false
	fail := func(class, desc string) {
		if !failed {
			failed = true
			d.res.Fail(class, desc, hist)
		}
	}
	call := func(s step) (reply, bool) {
		b, _ := json.Marshal(s)
		rep, crashed, tail := d.child.Call(b)
		var r reply
		if crashed {
			r.Panic = "process died: " + tail
			return r, true
		}
		if err := json.Unmarshal(rep, &r); err != nil {
			panic(err)
		}
		return r, false
	}
	call(step{Kind: "new", Seed: d.seed})
	var terms []string
	everRejected := map[int]bool{}
	factOf := map[int]int{}
	for si, s := range hist {
		r, crashed := call(s)
		switch s.Kind {
		case "set":
			factOf[s.Op] = s.Fact
			if r.Panic != "" {
				fail("set-panic", r.Panic)
			}
			if r.Err != "" {
				fail("set-error", r.Err)
			}
			terms = append(terms, fmt.Sprintf("ISet %s %s %s %s", vh.N(uint64(s.Op)), vh.N(uint64(s.Fact)), vh.Bool(r.Added), coqEntries(r.After)))
		case "hashes":
			d.res.Count("", false)
			flt := fmt.Sprintf("(mkFilter %s %s %s)", coqNs(s.RejOps), coqNs(s.RejFacts), func() string {
				if s.ErrOp >= 0 {
					return vh.Some(vh.N(uint64(s.ErrOp)))
				}
				return "None"
			}())
			switch {
			case r.Panic != "":
				fail("handout-panic", fmt.Sprintf("step %d OperationHashes(limit=%d): %s", si, s.Limit, r.Panic))
				terms = append(terms, fmt.Sprintf("IHashes %s %s RPanic []", vh.N(s.Limit), flt))
			case r.Err != "":
				if s.ErrOp < 0 {
					fail("handout-error", r.Err)
				}
				terms = append(terms, fmt.Sprintf("IHashes %s %s RErr %s", vh.N(s.Limit), flt, coqEntries(r.After)))
			default:
				d.oracle(si, s, r, everRejected, fail)
				if len(r.Res) > 0 && len(r.Res) < len(r.Before) {
					nontrivial = true
				}
				terms = append(terms, fmt.Sprintf("IHashes %s %s (ROk %s) %s", vh.N(s.Limit), flt, coqEntries(r.Res), coqEntries(r.After)))
			}
		}
		if crashed || r.Panic != "" {
			break // the child lost its pool: the history ends here
		}
	}
	cases.Add(vh.List(terms), map[string]any{"label": label, "history": hist})
	return nontrivial
}

// the property's own statement, on real observables only (pool listing before/after, returned pairs, what the
// filter callback was asked and answered)
func (d *driver) oracle(si int, s step, r reply, everRejected map[int]bool, fail func(string, string)) {
	pre := fmt.Sprintf("step %d OperationHashes(limit=%d, rejops=%v, rejfacts=%v) on pool %v returned %v: ", si, s.Limit, s.RejOps, s.RejFacts, r.Before, r.Res)
	if uint64(len(r.Res)) > s.Limit {
		fail("handout-over-limit", pre+"more than limit entries")
	}
	rejops, rejfacts := map[int]bool{}, map[int]bool{}
	if !s.NilFlt {
		for _, i := range s.RejOps {
			rejops[i] = true
		}
		for _, i := range s.RejFacts {
			rejfacts[i] = true
		}
	}
	passes := func(e [2]int) bool { return !rejops[e[0]] && !rejfacts[e[1]] }
	seenOp, seenFact := map[int]bool{}, map[int]bool{}
	maxpos := -1
	for _, e := range r.Res {
		if e[0] < 0 || e[1] < 0 {
			fail("handout-unknown-hash", pre+"an entry that was never submitted")
			continue
		}
		if seenOp[e[0]] {
			fail("handout-duplicate-operation", pre+fmt.Sprintf("operation %d twice", e[0]))
		}
		if seenFact[e[1]] {
			fail("handout-duplicate-fact", pre+fmt.Sprintf("fact %d twice", e[1]))
		}
		seenOp[e[0]], seenFact[e[1]] = true, true
		p := has(r.Before, e[0])
		if p < 0 || r.Before[p][1] != e[1] {
			fail("handout-not-in-pool", pre+fmt.Sprintf("entry %v is not stored in the pool", e))
		}
		if p > maxpos {
			maxpos = p
		}
		if !passes(e) {
			fail("handout-ignores-filter", pre+fmt.Sprintf("entry %v does not pass the filter", e))
		}
		if everRejected[e[0]] {
			fail("handout-returns-filtered-again", pre+fmt.Sprintf("operation %d was filtered out by an earlier call", e[0]))
		}
		if has(r.After, e[0]) < 0 {
			fail("handout-removes-returned", pre+fmt.Sprintf("returned operation %d is no longer in the pool %v", e[0], r.After))
		}
	}
	for _, o := range r.NoBody {
		fail("handout-not-in-pool", pre+fmt.Sprintf("body of returned operation %d not retrievable", o))
	}
	// most recently added operation of a fact: none of the pool records up to the last returned one (all of
	// them when the answer is shorter than the limit: then the whole pool was looked at) is a newer passing
	// operation of a returned fact
	window := maxpos
	if uint64(len(r.Res)) < s.Limit {
		window = len(r.Before) - 1
	}
	for _, e := range r.Res {
		p := has(r.Before, e[0])
		for q := p + 1; q <= window && p >= 0; q++ {
			if b := r.Before[q]; b[1] == e[1] && passes(b) {
				fail("handout-not-latest", pre+fmt.Sprintf("fact %d: operation %d returned but %d was added later", e[1], e[0], b[0]))
			}
		}
	}
	// nothing that passes is withheld while there is room: shorter than the limit => every passing fact of the pool is present
	if uint64(len(r.Res)) < s.Limit {
		for _, b := range r.Before {
			if passes(b) && !seenFact[b[1]] {
				fail("handout-withholds", pre+fmt.Sprintf("fact %d passes the filter and there is room, but it is not returned", b[1]))
			}
		}
	}
	for _, o := range r.Rejected {
		everRejected[o] = true
	}
}

// ---------------------------------------------------------------- generators

func genHistory(rd *vh.Rand, res *vh.Result) []step {
	n := rd.Range(2, 30)
	nfacts := rd.Range(1, 8)
	var hist []step
	nextOp := 0
	var opsSoFar []int
	for i := 0; i < n; i++ {
		if rd.Chance(3, 4) || nextOp == 0 {
			if nextOp > 0 && rd.Chance(1, 8) { // the very same operation again
				hist = append(hist, step{Kind: "set", Op: opsSoFar[rd.Intn(len(opsSoFar))], Fact: -1, ErrOp: -1})
				res.Dist("set_same_operation_again")
				continue
			}
			hist = append(hist, step{Kind: "set", Op: nextOp, Fact: rd.Intn(nfacts), Signer: rd.Intn(5), ErrOp: -1})
			opsSoFar = append(opsSoFar, nextOp)
			nextOp++
			res.Dist("set")
			continue
		}
		hist = append(hist, genHashes(rd, res, nextOp, nfacts))
	}
	hist = append(hist, genHashes(rd, res, nextOp, nfacts))
	if rd.Chance(1, 2) {
		hist = append(hist, step{Kind: "hashes", Limit: 1000, ErrOp: -1, NilFlt: true})
	}
	// fix up "same operation again": fact of the first submission
	f := map[int]int{}
	for i := range hist {
		if hist[i].Kind == "set" {
			if hist[i].Fact < 0 {
				hist[i].Fact = f[hist[i].Op]
			} else {
				f[hist[i].Op] = hist[i].Fact
			}
		}
	}
	return hist
}

func genHashes(rd *vh.Rand, res *vh.Result, nops, nfacts int) step {
	s := step{Kind: "hashes", ErrOp: -1}
	switch rd.Intn(6) {
	case 0:
		s.Limit = 0
	case 1:
		s.Limit = 1
	case 2:
		s.Limit = 1000
	default:
		s.Limit = uint64(rd.Range(1, 8))
	}
	res.Dist(fmt.Sprintf("hashes_limit_%s", map[bool]string{true: "le8", false: "1000"}[s.Limit <= 8]))
	switch rd.Intn(4) {
	case 0:
		s.NilFlt = true
	case 1:
	default:
		for i := 0; i < nops; i++ {
			if rd.Chance(1, 4) {
				s.RejOps = append(s.RejOps, i)
			}
		}
		if rd.Chance(1, 3) {
			s.RejFacts = append(s.RejFacts, rd.Intn(nfacts))
		}
	}
	if rd.Chance(1, 25) && nops > 0 {
		s.ErrOp = rd.Intn(nops)
		s.NilFlt = false
		res.Dist("hashes_filter_error")
	}
	return s
}

func set(op, fact int) step { return step{Kind: "set", Op: op, Fact: fact, Signer: op % 5, ErrOp: -1} }
func hashes(limit uint64, rejops ...int) step {
	return step{Kind: "hashes", Limit: limit, RejOps: rejops, ErrOp: -1}
}

func corpus() map[string][]step {
	return map[string][]step{
		// DESIGN 5.4: fact order [f0,f1,f0,f2,f1,f0] -> the unfixed code returned fact 1 twice and lost fact 2
		"corpus: facts f0 f1 f0 f2 f1 f0": {set(0, 0), set(1, 1), set(2, 0), set(3, 2), set(4, 1), set(5, 0), hashes(10), hashes(10)},
		// limit 1 with two filtered-out operations first: removeops[1] out of range in the unfixed code
		"corpus: limit 1, two filtered out": {set(0, 0), set(1, 1), set(2, 2), hashes(1, 0, 1), hashes(10)},
		// duplicate fact: the older operation is superseded, the returned one must stay in the pool
		"corpus: duplicate fact, returned op stays": {set(0, 0), set(1, 1), set(2, 0), hashes(3), hashes(3)},
		// limit reached exactly at the duplicate
		"corpus: limit at duplicate": {set(0, 0), set(1, 0), set(2, 1), hashes(1), hashes(2), hashes(2)},
		// limit 0
		"corpus: limit 0": {set(0, 0), hashes(0), hashes(1)},
		// idempotent set, also after the operation was filtered out (body still stored)
		"corpus: set twice, set after filtered": {set(0, 0), set(0, 0), hashes(5, 0), set(0, 0), hashes(5)},
		// many duplicates of one fact with a small limit
		"corpus: one fact five times": {set(0, 0), set(1, 0), set(2, 0), set(3, 0), set(4, 0), set(5, 1), hashes(2), hashes(2)},
	}
}

func main() {
	o := vh.ParseFlags()
	if poolh.IsChild() {
		c := &childState{}
		poolh.Serve(c.handle)
		return
	}
	res := vh.NewResult("one evaluation = one OperationHashes call on the real TempPool checked against the property's statement (limit, distinct operations and facts, stored and passing the filter, latest per fact within the records looked at, returned operations stay, filtered-out never again, nothing withheld while there is room); distinct_nontrivial counts distinct histories with a hand-out that returned some but not all pool records")
	cases := &vh.Cases{Import: "From MV Require Import C22.Model.", Type: "list item", CheckFn: "check", Shard: 250}
	d := &driver{child: &poolh.Child{}, res: res, seed: o.Seed}
	defer d.child.Close()
	if o.Replay != "" {
		var h []step
		if err := vh.ReadReplay(o.Replay, &h); err == nil && len(h) > 0 {
			d.runHistory(h, "replay", cases)
		}
	}
	cp := corpus()
	for _, k := range vh.SortedKeys(cp) {
		nt := d.runHistory(cp[k], k, cases)
		res.Count(k, nt)
	}
	rd := vh.NewRand(o.Seed)
	n := o.Pick(500, 10000)
	for i := 0; i < n; i++ {
		h := genHistory(rd, res)
		nt := d.runHistory(h, "generated", cases)
		if i < 2 {
			res.Sample(map[string]any{"history": h})
		}
		b, _ := json.Marshal(h)
		res.Count(string(b), nt)
	}
	res.Distribution["child_process_crashes"] = d.child.Crashes
	res.ModelCases = cases.Len()
	if err := cases.Write(o.Out); err != nil {
		panic(err)
	}
	res.Write(o.Out)
}
