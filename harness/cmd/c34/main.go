// c34: SimpleTimers (util/timers.go) -- stopped timers stay stopped, removal never hits a successor under the
// same id, no callback before its interval.
//
// Part A (forced schedules, correspondence with coq/C34/Model.v + oracle): the real SimpleTimers runs on a
// timers map supplied through the verif hook util.NewSimpleTimersWithMapVerif; the map is the real
// ShardedMap/SingleLockedMap wrapped so that the timer loop's Traverse is gated (one pass per "iter" op) and
// the end-of-run removals of the callback jobs are parked; callbacks park until released.  A controller
// executes randomly chosen operations (new / stop / stopothers / stopall / iter with operations injected in
// the middle of the traverse / release / jobremove); after each operation the registry (id -> timer object),
// the set of objects whose whenRemoved ran and the callbacks that started are observed and written next to the
// model steps of that operation.
//
// Part B (free running, oracle only): the real NewSimpleTimers / NewSimpleTimersFixedIDs at 1 ms resolution,
// goroutines and callbacks doing New (id reuse inside the callback) / StopTimers / StopOthers concurrently;
// wall-clock lower bounds (a start earlier than registration / previous end + interval is a failure, later is
// fine), unjustified removals, lost successors.
package main

import (
	"bytes"
	"context"
	"fmt"
	"runtime"
	"sort"
	"strconv"
	"sync"
	"sync/atomic"
	"time"

	"github.com/pkg/errors"
	"github.com/spikeekips/mitum/util"
	"verifharness/vh"
)

func goid() int64 {
	var buf [64]byte
	b := buf[:runtime.Stack(buf[:], false)]
	b = bytes.TrimPrefix(b, []byte("goroutine "))
	i := bytes.IndexByte(b, ' ')
	n, _ := strconv.ParseInt(string(b[:i]), 10, 64)
	return n
}

const (
	nids    = 6
	tickNS  = 10_000_000 // model clock advance per iter (10 ms)
	waitJob = time.Second
)

func tid(id int) util.TimerID { return util.TimerID(fmt.Sprintf("%d-timer", id)) }

// ------------------------------------------------------------------ operations

type Op struct {
	Kind string `json:"k"` // new stop stopothers stopall iter release jobremove
	ID   int    `json:"id,omitempty"`
	Iv   int    `json:"iv,omitempty"`  // ms
	Lim  int    `json:"lim,omitempty"` // intervalFunc(c) = Iv for c < Lim, else 0
	Ivs  []int  `json:"ivs,omitempty"`  // (when given) intervalFunc(c) = Ivs[c] ms for c < len, else Tail ms; hourMS = one hour
	Tail int    `json:"tail,omitempty"`
	IDs  []int  `json:"ids,omitempty"`
	Trig int    `json:"trig,omitempty"` // iter: id whose prepare triggers Mid (-1 none)
	Mid  []Op   `json:"mid,omitempty"`
	G    int    `json:"g,omitempty"`
	Keep bool   `json:"keep,omitempty"`
	Err  bool   `json:"err,omitempty"`
}

const hourMS = 3_600_000

// fn: the interval function of a "new" op as (list, tail) in ms
func (o Op) fn() ([]int, int) {
	if o.Ivs != nil || o.Tail != 0 {
		return o.Ivs, o.Tail
	}
	if o.Lim >= 1000 {
		return nil, o.Iv
	}
	l := make([]int, o.Lim)
	for i := range l {
		l[i] = o.Iv
	}
	return l, 0
}

type Script struct {
	Shards int   `json:"shards"`
	Seed   int64 `json:"seed"` // >0: ops generated online from this seed; 0: Ops given
	NOps   int   `json:"nops"`
	Ops    []Op  `json:"ops,omitempty"`
}

type genT struct {
	n, id   int
	ivs     []int // ms
	tail    int   // ms
	timer   *util.SimpleTimer
	release chan [2]bool // keep, err
	added   bool
	regAt   time.Time
	// observed (under forced.mu)
	cancelled  bool
	cancelCtrl bool
	endedStop  bool
	ends       []time.Time // time just before the callback number i returned
	starts     int
	replaced   bool
	queued     int   // prepare calls not yet followed by a callback start
	jobGoid    int64 // goroutine of the last started callback (= its job)
}

// f: the interval function
func (g *genT) f(c uint64) time.Duration {
	if c < uint64(len(g.ivs)) {
		return time.Duration(g.ivs[c]) * time.Millisecond
	}
	return time.Duration(g.tail) * time.Millisecond
}

type parkedRemove struct {
	id        util.TimerID
	goid      int64
	owner     int // timer object whose job this is (-1 unknown), set by the controller
	rel, done chan struct{}
}

type announce struct {
	started *genT
	c       uint64
	remove  *parkedRemove
}

type forced struct {
	mu       sync.Mutex
	shards   int
	inner    util.LockedMap[util.TimerID, *util.SimpleTimer]
	ts       *util.SimpleTimers
	ctrl     int64
	midGoid  atomic.Int64
	daemon   atomic.Int64 // goroutine currently inside the gated traverse
	gate     chan struct{}
	iterDone chan struct{}
	quit     chan struct{}
	ann      chan announce
	gens     []*genT
	byPtr    map[*util.SimpleTimer]*genT
	// per-op observation
	startedNow [][2]int
	prepared   []*genT // prepare calls (interval >= 1) seen in the current traverse
	trig       int
	mid        []Op
	midRan     bool
	midSteps   []string
	inNew      atomic.Bool
	passAfterSet atomic.Bool // gmap.Set: let the timer loop do one pass right after the inner Set returned
	curTargets map[int]bool // ids targeted by the stop op currently executed by the controller / mid
	fails      []vh.Failure
	parkedCB   map[int]*genT
	parkedRM   []*parkedRemove
	script     *Script
	stuck      bool
}

func (f *forced) isCtrl() bool {
	g := goid()
	return g == f.ctrl || g == f.midGoid.Load()
}

func (f *forced) fail(class, desc string) {
	f.fails = append(f.fails, vh.Failure{Class: class, Desc: desc, Replay: f.script})
}

// gmap: the timers map handed to SimpleTimers; delegates to the real map.
type gmap struct {
	f *forced
}

func (m *gmap) in() util.LockedMap[util.TimerID, *util.SimpleTimer] { return m.f.inner }
func (m *gmap) Exists(k util.TimerID) bool                          { return m.in().Exists(k) }
func (m *gmap) Value(k util.TimerID) (*util.SimpleTimer, bool)      { return m.in().Value(k) }
func (m *gmap) SetValue(k util.TimerID, v *util.SimpleTimer) bool   { return m.in().SetValue(k, v) }
func (m *gmap) Get(k util.TimerID, f func(*util.SimpleTimer, bool) error) error {
	return m.in().Get(k, f)
}
func (m *gmap) GetOrCreate(k util.TimerID, f func(*util.SimpleTimer, bool) error, c func() (*util.SimpleTimer, error)) error {
	return m.in().GetOrCreate(k, f, c)
}
func (m *gmap) Set(k util.TimerID, f func(*util.SimpleTimer, bool) (*util.SimpleTimer, error)) (*util.SimpleTimer, bool, error) {
	v, created, err := m.in().Set(k, f)
	if m.f.passAfterSet.Load() && goid() == m.f.ctrl {
		m.f.passAfterSet.Store(false)
		select {
		case m.f.gate <- struct{}{}:
			select {
			case <-m.f.iterDone:
			case <-time.After(2 * time.Second):
				m.f.fail("timer-loop-blocked", "the timer loop's traverse (injected after Set) did not finish within 2s")
				m.f.stuck = true
			}
		case <-time.After(2 * time.Second):
			m.f.fail("timer-loop-blocked", "timer loop did not reach Traverse within 2s")
			m.f.stuck = true
		}
	}
	return v, created, err
}
func (m *gmap) Len() int                                 { return m.in().Len() }
func (m *gmap) Empty()                                   { m.in().Empty() }
func (m *gmap) Close()                                   { m.in().Close() }
func (m *gmap) Map() map[util.TimerID]*util.SimpleTimer { return m.in().Map() }

// park a removal coming from a callback job until the controller releases it
func (m *gmap) park(k util.TimerID) func() {
	if m.f.isCtrl() {
		return func() {}
	}
	select {
	case <-m.f.quit:
		return func() {}
	default:
	}
	p := &parkedRemove{id: k, goid: goid(), rel: make(chan struct{}), done: make(chan struct{})}
	m.f.ann <- announce{remove: p}
	select {
	case <-p.rel:
	case <-m.f.quit:
	}
	return func() { close(p.done) }
}

func (m *gmap) Remove(k util.TimerID, f func(*util.SimpleTimer, bool) error) (bool, error) {
	defer m.park(k)()
	return m.in().Remove(k, f)
}

func (m *gmap) RemoveValue(k util.TimerID) bool {
	defer m.park(k)()
	return m.in().RemoveValue(k)
}

func (m *gmap) SetOrRemove(k util.TimerID, f func(*util.SimpleTimer, bool) (*util.SimpleTimer, bool, error)) (*util.SimpleTimer, bool, bool, error) {
	defer m.park(k)()
	return m.in().SetOrRemove(k, f)
}

func (m *gmap) Traverse(f func(util.TimerID, *util.SimpleTimer) bool) bool {
	if m.f.isCtrl() {
		return m.in().Traverse(f)
	}
	select {
	case <-m.f.gate:
	case <-m.f.quit:
		return true
	}
	m.f.daemon.Store(goid())
	r := m.in().Traverse(f)
	m.f.daemon.Store(0)
	select {
	case m.f.iterDone <- struct{}{}:
	case <-m.f.quit:
	}
	return r
}

func newForced(sc *Script) *forced {
	f := &forced{shards: sc.Shards, script: sc, ctrl: goid(), gate: make(chan struct{}), iterDone: make(chan struct{}),
		quit: make(chan struct{}), ann: make(chan announce, 256), byPtr: map[*util.SimpleTimer]*genT{},
		parkedCB: map[int]*genT{}, trig: -1}
	if sc.Shards <= 1 {
		f.inner = util.NewSingleLockedMap[util.TimerID, *util.SimpleTimer]()
	} else {
		m, err := util.NewShardedMapWithSeed[util.TimerID, *util.SimpleTimer](7, uint64(sc.Shards),
			func(k interface{}, size uint64) (uint64, interface{}) {
				s := k.(util.TimerID).String()
				return uint64(s[0]-'0') % size, k
			}, nil)
		if err != nil {
			panic(err)
		}
		f.inner = m
	}
	ts, err := util.NewSimpleTimersWithMapVerif(&gmap{f: f}, time.Millisecond)
	if err != nil {
		panic(err)
	}
	f.ts = ts
	if err := ts.Start(context.Background()); err != nil {
		panic(err)
	}
	return f
}

func (f *forced) newGen(id int, ivs []int, tail int) *genT {
	g := &genT{n: len(f.gens), id: id, ivs: ivs, tail: tail, release: make(chan [2]bool, 1)}
	ivf := func(c uint64) time.Duration {
		r := g.f(c)
		if d := f.daemon.Load(); d != 0 && d == goid() && f.midGoid.Load() == 0 {
			// prepare() inside the gated traverse
			f.mu.Lock()
			if r >= 1 {
				f.prepared = append(f.prepared, g)
				g.queued++
			}
			run := f.trig == g.id && !f.midRan
			if run {
				f.midRan = true
			}
			f.mu.Unlock()
			if run {
				f.midGoid.Store(goid())
				for _, o := range f.mid {
					f.midSteps = append(f.midSteps, f.exec(o)...)
				}
				f.midGoid.Store(0)
			}
		}
		return r
	}
	cb := func(ctx context.Context, c uint64) (bool, error) {
		now := time.Now()
		f.mu.Lock()
		f.startedNow = append(f.startedNow, [2]int{g.n, int(c)})
		if g.cancelled {
			f.fail("started-after-stop", fmt.Sprintf("callback %d of timer object %d (id %d) started after its whenRemoved ran", c, g.n, g.id))
		}
		base := g.regAt
		if c > 0 && int(c) <= len(g.ends) {
			base = g.ends[c-1]
		}
		if now.Before(base.Add(g.f(c))) {
			f.fail("before-interval", fmt.Sprintf("callback %d of timer object %d (id %d) started %v after its base time (registration / end of callback %d), its interval(%d) is %v", c, g.n, g.id, now.Sub(base), int(c)-1, c, g.f(c)))
		}
		g.starts++
		g.queued--
		g.jobGoid = goid()
		f.mu.Unlock()
		select {
		case f.ann <- announce{started: g, c: c}:
		case <-f.quit:
			return false, nil
		}
		select {
		case r := <-g.release:
			f.mu.Lock()
			g.ends = append(g.ends, time.Now())
			f.mu.Unlock()
			if r[1] {
				return r[0], errors.Errorf("scripted error")
			}
			return r[0], nil
		case <-f.quit:
			return false, nil
		}
	}
	removed := func() {
		ctrl := f.isCtrl()
		f.mu.Lock()
		defer f.mu.Unlock()
		g.cancelled = true
		g.cancelCtrl = ctrl
		select {
		case <-f.quit:
			return
		default:
		}
		if ctrl {
			if !f.curTargets[g.id] {
				f.fail("stop-removed-wrong-timer", fmt.Sprintf("timer object %d (id %d) removed by a stop that did not name its id", g.n, g.id))
			}
		} else if !g.endedStop {
			f.fail("removed-other-timer", fmt.Sprintf("timer object %d (id %d) was removed by a callback job although its own callback never asked for removal", g.n, g.id))
		}
	}
	g.timer = util.NewSimpleTimer(tid(id), ivf, cb, removed)
	f.gens = append(f.gens, g)
	f.byPtr[g.timer] = g
	return g
}

func cN(n int) string { return fmt.Sprintf("%d%%N", n) }

// exec runs one controller-level operation (not iter) and returns its model steps
func (f *forced) exec(o Op) []string {
	switch o.Kind {
	case "new", "newt":
		ivs, tail := o.fn()
		g := f.newGen(o.ID, ivs, tail)
		f.mu.Lock()
		g.regAt = time.Now()
		f.mu.Unlock()
		added, _ := f.ts.NewTimer(g.timer)
		f.mu.Lock()
		g.added = added
		if added {
			for _, h := range f.gens {
				if h != g && h.id == g.id {
					h.replaced = true
				}
			}
		}
		f.mu.Unlock()
		l := make([]string, len(ivs))
		for i, x := range ivs {
			l[i] = cN(x * 1_000_000)
		}
		return []string{fmt.Sprintf("CNewL %s %s %s", cN(o.ID), vh.List(l), cN(tail*1_000_000))}
	case "stop", "stopothers", "stopall":
		targets := map[int]bool{}
		var steps []string
		for id := 0; id < nids; id++ {
			in := false
			for _, x := range o.IDs {
				if x == id {
					in = true
				}
			}
			if (o.Kind == "stop" && in) || (o.Kind == "stopothers" && !in) || o.Kind == "stopall" {
				targets[id] = true
				steps = append(steps, "CStop "+cN(id))
			}
		}
		f.mu.Lock()
		f.curTargets = targets
		f.mu.Unlock()
		ids := make([]util.TimerID, len(o.IDs))
		for i := range o.IDs {
			ids[i] = tid(o.IDs[i])
		}
		switch o.Kind {
		case "stop":
			_ = f.ts.StopTimers(ids)
		case "stopothers":
			_ = f.ts.StopOthers(ids)
		default:
			_ = f.ts.StopAllTimers()
		}
		f.mu.Lock()
		f.curTargets = nil
		f.mu.Unlock()
		return steps
	}
	panic("bad op " + o.Kind)
}

func (f *forced) drain(wait time.Duration, want int) {
	deadline := time.After(wait)
	got := 0
	for {
		if want > 0 && got >= want {
			// take whatever else is already there
			select {
			case a := <-f.ann:
				f.take(a)
				continue
			default:
				return
			}
		}
		if want == 0 {
			select {
			case a := <-f.ann:
				f.take(a)
				continue
			default:
				return
			}
		}
		select {
		case a := <-f.ann:
			f.take(a)
			got++
		case <-deadline:
			return
		}
	}
}

func (f *forced) take(a announce) {
	if a.started != nil {
		f.parkedCB[a.started.n] = a.started
	} else {
		f.parkedRM = append(f.parkedRM, a.remove)
	}
}

func (f *forced) shardOf(id int) int {
	if f.shards <= 1 {
		return 0
	}
	return id % f.shards
}

// step executes one top-level op, returns model steps
func (f *forced) step(o Op) []string {
	switch o.Kind {
	case "iter":
		time.Sleep(5 * time.Millisecond) // every interval used is <= 3 ms (expired now) or one hour (never)
		f.drain(0, 0)
		f.mu.Lock()
		f.prepared = nil
		f.trig, f.mid, f.midRan, f.midSteps = o.Trig, o.Mid, false, nil
		f.mu.Unlock()
		select {
		case f.gate <- struct{}{}:
		case <-time.After(2 * time.Second):
			f.fail("timer-loop-blocked", "timer loop did not reach Traverse within 2s")
			f.stuck = true
			return nil
		}
		select {
		case <-f.iterDone:
		case <-time.After(2 * time.Second):
			f.fail("timer-loop-blocked", "the timer loop's traverse did not finish within 2s (blocked on a timer whose callback is running?)")
			f.stuck = true
			return nil
		}
		f.mu.Lock()
		n := len(f.prepared)
		ran, msteps := f.midRan, f.midSteps
		f.trig = -1
		f.mu.Unlock()
		f.drain(waitJob, n)
		steps := []string{"CTick " + cN(tickNS)}
		ts := -1
		if ran {
			ts = f.shardOf(o.Trig)
		}
		for sh := 0; sh < max(f.shards, 1); sh++ {
			for id := 0; id < nids; id++ {
				if f.shardOf(id) == sh {
					steps = append(steps, "CCollect "+cN(id))
				}
			}
			if sh == ts {
				steps = append(steps, msteps...)
			}
		}
		for g := range f.gens {
			steps = append(steps, "CRunStart "+cN(g))
		}
		return steps
	case "newt":
		// New with a pass of the timer loop injected right after the map's Set returned inside NewTimer (gmap.Set):
		// the freshly stored timer must not be collected (its expiry must already be set).  Its first interval is one
		// hour, everything else idle is expired (sleep): deterministic.
		time.Sleep(5 * time.Millisecond)
		f.drain(0, 0)
		f.mu.Lock()
		f.prepared = nil
		f.trig, f.mid, f.midRan, f.midSteps = -1, nil, false, nil
		f.mu.Unlock()
		f.passAfterSet.Store(true)
		steps := []string{"CTick " + cN(tickNS)}
		steps = append(steps, f.exec(o)...)
		f.passAfterSet.Store(false)
		if f.stuck {
			return nil
		}
		f.mu.Lock()
		n := len(f.prepared)
		f.mu.Unlock()
		f.drain(waitJob, n)
		for sh := 0; sh < max(f.shards, 1); sh++ {
			for id := 0; id < nids; id++ {
				if f.shardOf(id) == sh {
					steps = append(steps, "CCollect "+cN(id))
				}
			}
		}
		for g := range f.gens {
			steps = append(steps, "CRunStart "+cN(g))
		}
		return steps
	case "release":
		g := f.gens[o.G]
		delete(f.parkedCB, o.G)
		f.mu.Lock()
		called := uint64(g.starts) // callbacks started so far = called+1
		stop := !o.Keep || o.Err || g.f(called) < 1
		if stop {
			g.endedStop = true
		}
		f.mu.Unlock()
		g.release <- [2]bool{o.Keep, o.Err}
		if stop {
			before := len(f.parkedRM)
			f.drain(waitJob, 1)
			if len(f.parkedRM) == before {
				f.fail("end-of-run-removal-missing", fmt.Sprintf("callback %d of timer object %d (id %d) ended with keep=%v err=%v next interval %v: the job did not remove the timer", called-1, g.n, g.id, o.Keep, o.Err, g.f(called)))
			}
		} else {
			time.Sleep(200 * time.Microsecond)
		}
		return []string{fmt.Sprintf("CRunEnd %s %s", cN(o.G), vh.Bool(o.Keep && !o.Err))}
	case "jobremove":
		// o.G = object whose job's removal is released: the first parked removal with its id
		g := f.gens[o.G]
		for i, p := range f.parkedRM {
			if p.id == tid(g.id) && p.owner == o.G {
				f.parkedRM = append(f.parkedRM[:i:i], f.parkedRM[i+1:]...)
				close(p.rel)
				select {
				case <-p.done:
				case <-time.After(waitJob):
				}
				break
			}
		}
		return []string{"CJobRemove " + cN(o.G)}
	default:
		return f.exec(o)
	}
}

type obsT struct {
	Reg       [][2]int `json:"reg"`
	Cancelled []int    `json:"cancelled"`
	Started   [][2]int `json:"started"`
}

func (f *forced) observe() obsT {
	var o obsT
	m := f.inner.Map()
	f.mu.Lock()
	defer f.mu.Unlock()
	for id := 0; id < nids; id++ {
		if t, ok := m[tid(id)]; ok {
			n := -1
			if g := f.byPtr[t]; g != nil {
				n = g.n
			}
			o.Reg = append(o.Reg, [2]int{id, n})
		}
	}
	for _, g := range f.gens {
		if g.cancelled {
			o.Cancelled = append(o.Cancelled, g.n)
		}
	}
	o.Started = append(o.Started, f.startedNow...)
	f.startedNow = nil
	sort.Slice(o.Started, func(i, j int) bool { return o.Started[i][0] < o.Started[j][0] })
	return o
}

func pairs(l [][2]int) string {
	s := make([]string, len(l))
	for i, p := range l {
		s[i] = fmt.Sprintf("(%s, %s)", cN(p[0]), cN(p[1]))
	}
	return vh.List(s)
}

func (o obsT) coq() string {
	c := make([]string, len(o.Cancelled))
	for i, x := range o.Cancelled {
		c[i] = cN(x)
	}
	return fmt.Sprintf("(%s, %s, %s)", pairs(o.Reg), vh.List(c), pairs(o.Started))
}

// which object has a job waiting in a parked removal: objects with that id that ended with stop / were cancelled
// while queued, oldest first
func (f *forced) removalOwner(p *parkedRemove, taken map[int]bool) int {
	f.mu.Lock()
	defer f.mu.Unlock()
	for _, g := range f.gens {
		if tid(g.id) == p.id && g.endedStop && g.jobGoid == p.goid && !taken[g.n] {
			return g.n
		}
	}
	for _, g := range f.gens {
		if tid(g.id) == p.id && g.cancelled && g.queued > 0 {
			g.queued--
			return g.n
		}
	}
	return -1
}

type caseOut struct {
	term     string
	ops      []Op
	fails    []vh.Failure
	nontriv  bool
	dist     []string
	groups   int
	sawReuse bool
}

func (f *forced) genOp(r *vh.Rand, removedOwners map[*parkedRemove]int) Op {
	iv := func() int { return r.Range(1, 3) }
	lim := func() int {
		if r.Chance(1, 3) {
			return r.Range(1, 2)
		}
		return 1000
	}
	// interval functions: constant / cut off (self-stopping) as before, and index dependent ones: short then an hour,
	// an hour first, growing, shrinking, self-stopping after k calls
	pattern := func(o Op) Op {
		switch r.Intn(10) {
		case 0, 1:
			o.Iv, o.Lim, o.Ivs, o.Tail = 0, 0, []int{iv()}, hourMS
		case 2:
			o.Iv, o.Lim, o.Ivs, o.Tail = 0, 0, []int{iv(), iv()}, hourMS
		case 3:
			o.Iv, o.Lim, o.Ivs, o.Tail = 0, 0, []int{hourMS}, iv()
		case 4:
			o.Iv, o.Lim, o.Ivs, o.Tail = 0, 0, []int{1, 3}, 2
		case 5:
			o.Iv, o.Lim, o.Ivs, o.Tail = 0, 0, []int{3, 1, 2}, 0
		}
		return o
	}
	newOp := func(ids []int) Op { return pattern(Op{Kind: "new", ID: ids[r.Intn(len(ids))], Iv: iv(), Lim: lim()}) }
	all := []int{0, 1, 2, 3, 4, 5}
	var cb []int
	for n := range f.parkedCB {
		cb = append(cb, n)
	}
	sort.Ints(cb)
	for {
		switch x := r.Intn(100); {
		case x < 26:
			// prefer re-using an id that has a parked callback / parked removal: the interesting case
			if len(cb) > 0 && r.Chance(2, 3) {
				return pattern(Op{Kind: "new", ID: f.gens[cb[r.Intn(len(cb))]].id, Iv: iv(), Lim: lim()})
			}
			if r.Chance(1, 5) {
				return Op{Kind: "newt", ID: r.Intn(nids), Ivs: []int{hourMS}, Tail: iv()}
			}
			return newOp(all)
		case x < 36:
			k := r.Range(1, 2)
			var ids []int
			for i := 0; i < k; i++ {
				ids = append(ids, r.Intn(nids))
			}
			return Op{Kind: "stop", IDs: ids}
		case x < 40:
			var ids []int
			for i := 0; i < r.Range(0, 3); i++ {
				ids = append(ids, r.Intn(nids))
			}
			return Op{Kind: "stopothers", IDs: ids}
		case x < 42:
			return Op{Kind: "stopall"}
		case x < 66:
			o := Op{Kind: "iter", Trig: -1}
			if f.shards >= 2 && r.Chance(3, 5) {
				o.Trig = r.Intn(nids)
				// new only under ids of shards already traversed (a fresh timer in a shard still to be traversed could
				// expire before the traverse gets there when the machine is loaded: not deterministic)
				var others, earlier []int
				for _, id := range all {
					if f.shardOf(id) != f.shardOf(o.Trig) {
						others = append(others, id)
					}
					if f.shardOf(id) < f.shardOf(o.Trig) {
						earlier = append(earlier, id)
					}
				}
				for i := 0; i < r.Range(1, 3); i++ {
					if len(earlier) > 0 && r.Bool() {
						o.Mid = append(o.Mid, newOp(earlier))
					} else {
						o.Mid = append(o.Mid, Op{Kind: "stop", IDs: []int{others[r.Intn(len(others))]}})
					}
				}
			}
			return o
		case x < 88:
			if len(cb) == 0 {
				continue
			}
			return Op{Kind: "release", G: cb[r.Intn(len(cb))], Keep: r.Chance(3, 5), Err: r.Chance(1, 6)}
		default:
			if len(f.parkedRM) == 0 {
				continue
			}
			p := f.parkedRM[r.Intn(len(f.parkedRM))]
			own, ok := removedOwners[p]
			if !ok || own < 0 {
				continue
			}
			return Op{Kind: "jobremove", G: own}
		}
	}
}

func runForced(sc *Script) caseOut {
	f := newForced(sc)
	var out caseOut
	var groups []string
	owners := map[*parkedRemove]int{}
	taken := map[int]bool{}
	assign := func() {
		for _, p := range f.parkedRM {
			if _, ok := owners[p]; !ok {
				o := f.removalOwner(p, taken)
				owners[p] = o
				p.owner = o
				if o >= 0 && f.gens[o].endedStop {
					taken[o] = true
				}
			}
		}
	}
	var r *vh.Rand
	if sc.Seed > 0 {
		r = vh.NewRand(uint64(sc.Seed))
	}
	n := sc.NOps
	if sc.Seed == 0 {
		n = len(sc.Ops)
	}
	for i := 0; i <= n; i++ {
		var o Op
		switch {
		case i == n:
			o = Op{Kind: "iter", Trig: -1} // final pass: every live idle timer must run
		case sc.Seed > 0:
			o = f.genOp(r, owners)
		default:
			o = sc.Ops[i]
		}
		if o.Kind == "new" || o.Kind == "newt" {
			for n := range f.parkedCB {
				if f.gens[n].id == o.ID {
					out.sawReuse = true
				}
			}
		}
		steps := f.step(o)
		if f.stuck {
			break
		}
		f.drain(0, 0)
		assign()
		ob := f.observe()
		out.ops = append(out.ops, o)
		out.dist = append(out.dist, "op:"+o.Kind)
		if o.Kind == "iter" && len(o.Mid) > 0 {
			out.dist = append(out.dist, "iter-with-mid")
		}
		groups = append(groups, fmt.Sprintf("(%s, %s)", vh.List(steps), ob.coq()))
		if len(ob.Started) > 0 {
			out.nontriv = true
		}
		if i == n {
			// liveness oracle on the final pass
			f.mu.Lock()
			for _, g := range f.gens {
				nx := g.f(uint64(g.starts))
				live := g.added && !g.cancelled && !g.replaced && !g.endedStop && nx >= 1 && nx <= 3*time.Millisecond
				if _, parked := f.parkedCB[g.n]; live && !parked {
					f.fail("live-timer-not-run", fmt.Sprintf("timer object %d (id %d): registered, never stopped, never replaced, callback never asked for removal, yet it did not run in the final pass", g.n, g.id))
				}
			}
			f.mu.Unlock()
		}
	}
	close(f.quit)
	_ = f.ts.Stop()
	out.term = fmt.Sprintf("(@nil N, %d%%nat, %s)", nids, vh.List(groups))
	out.fails = f.fails
	out.groups = len(groups)
	return out
}

// ------------------------------------------------------------------ corpus (forced, fixed ops)

func corpus() []*Script {
	nw := func(id, iv, lim int) Op { return Op{Kind: "new", ID: id, Iv: iv, Lim: lim} }
	it := Op{Kind: "iter", Trig: -1}
	return []*Script{
		// the reproduced defect: B registered under A's id during A's callback; A ends with keep=false
		{Shards: 1, Ops: []Op{nw(1, 2, 1000), it, nw(1, 2, 1000), {Kind: "release", G: 0, Keep: false}, {Kind: "jobremove", G: 0}, it}},
		{Shards: 3, Ops: []Op{nw(4, 1, 1000), it, nw(4, 3, 1000), {Kind: "release", G: 0, Keep: true, Err: true}, {Kind: "jobremove", G: 0}, it}},
		// A's interval function ends the timer (next < 1) while B took the id
		{Shards: 2, Ops: []Op{nw(2, 1, 1), it, nw(2, 1, 1000), {Kind: "release", G: 0, Keep: true}, {Kind: "jobremove", G: 0}, it}},
		// stop while the job is queued (in the middle of the traverse), successor registered at once: the skipped
		// job's removal must not hit the successor, and the stopped timer must not start
		{Shards: 2, Ops: []Op{nw(0, 1, 1000), nw(1, 1, 1000), {Kind: "iter", Trig: 1, Mid: []Op{{Kind: "stop", IDs: []int{0}}, nw(0, 2, 1000)}}, {Kind: "jobremove", G: 0}, it}},
		// stop during the callback, keep=true: stays stopped
		{Shards: 1, Ops: []Op{nw(3, 2, 1000), it, {Kind: "stop", IDs: []int{3}}, {Kind: "release", G: 0, Keep: true}, it, it}},
		// stopothers / stopall
		{Shards: 3, Ops: []Op{nw(0, 1, 1000), nw(1, 1, 1000), nw(2, 1, 1000), {Kind: "stopothers", IDs: []int{1}}, it, {Kind: "stopall"}, {Kind: "release", G: 1, Keep: true}, it}},
		// replaced (not stopped) while queued
		{Shards: 2, Ops: []Op{nw(0, 1, 1000), nw(1, 1, 1000), {Kind: "iter", Trig: 1, Mid: []Op{nw(0, 1, 1000)}}, {Kind: "release", G: 0, Keep: false}, {Kind: "jobremove", G: 0}, it}},
		// interval function short then long: callback 1 must not start after the SHORT interval again
		{Shards: 1, Ops: []Op{{Kind: "new", ID: 2, Ivs: []int{1}, Tail: hourMS}, it, {Kind: "release", G: 0, Keep: true}, it, it}},
		// self-stopping interval function: interval(2) < 1 -> removed after callback 1
		{Shards: 2, Ops: []Op{{Kind: "new", ID: 3, Ivs: []int{2, 1}, Tail: 0}, it, {Kind: "release", G: 0, Keep: true}, it, {Kind: "release", G: 0, Keep: true}, {Kind: "jobremove", G: 0}, it}},
		// a pass of the timer loop right after the map's Set inside NewTimer: the new timer is not collected
		{Shards: 2, Ops: []Op{nw(0, 1, 1000), {Kind: "newt", ID: 1, Ivs: []int{hourMS}, Tail: 1}, {Kind: "release", G: 0, Keep: true}, it}},
		// interval < 1 at registration: ignored
		{Shards: 1, Ops: []Op{nw(5, 1, 0), it}},
	}
}

// ------------------------------------------------------------------ part B: free running

type freeGen struct {
	n, id   int
	ivs     []time.Duration // interval function: ivs[c] for c < len, else tail
	tail    time.Duration
	regAt   time.Time
	added   bool
	starts  []time.Time
	ends    []time.Time
	stopRes bool // a callback returned "do not keep" (or interval ran out)
	removed time.Time
	hasRem  bool
	seq     int // order of the registration inside the map's critical section (intervalFunc(0) is called there)
	reging  bool
}

func (g *freeGen) f(c uint64) time.Duration {
	if c < uint64(len(g.ivs)) {
		return g.ivs[c]
	}
	return g.tail
}

// freePattern: constant, cut off after k calls (self-stopping), short then long, long then short, growing
func freePattern(r *vh.Rand) ([]time.Duration, time.Duration) {
	ms := time.Millisecond
	switch r.Intn(8) {
	case 0, 1:
		return nil, time.Duration(r.Range(2, 6)) * ms
	case 2:
		return []time.Duration{2 * ms}, time.Duration(r.Range(10, 14)) * ms
	case 3:
		return []time.Duration{time.Duration(r.Range(8, 12)) * ms}, 2 * ms
	case 4:
		return []time.Duration{2 * ms, 5 * ms, 9 * ms}, 12 * ms
	case 5:
		return []time.Duration{3 * ms, 2 * ms, 2 * ms}, 0
	case 6:
		return []time.Duration{2 * ms, 8 * ms}, 0
	default:
		k := r.Range(0, 3)
		l := make([]time.Duration, k)
		for i := range l {
			l[i] = time.Duration(r.Range(2, 6)) * ms
		}
		return l, 0
	}
}

type stopSpan struct {
	from, to time.Time
	targets  func(id int) bool
}

type FreeReplay struct {
	Free  bool   `json:"free"`
	Seed  uint64 `json:"seed"`
	Size  int    `json:"size"`
	Fixed bool   `json:"fixed_ids"`
}

func runFree(seed uint64, size int, fixed bool, dur time.Duration) (fails []vh.Failure, starts int, reuse int) {
	rp := FreeReplay{true, seed, size, fixed}
	var mu sync.Mutex
	fail := func(class, desc string) {
		fails = append(fails, vh.Failure{Class: class, Desc: desc, Replay: rp})
	}
	var ts *util.SimpleTimers
	var err error
	const fnids = 8
	if fixed {
		ids := make([]util.TimerID, fnids)
		for i := range ids {
			ids[i] = tid(i)
		}
		ts, err = util.NewSimpleTimersFixedIDs(uint64(size), time.Millisecond, ids)
	} else {
		ts, err = util.NewSimpleTimers(uint64(size), time.Millisecond)
	}
	if err != nil {
		panic(err)
	}
	if err := ts.Start(context.Background()); err != nil {
		panic(err)
	}
	var gens []*freeGen
	var spans []*stopSpan
	var nseq int
	var stopping atomic.Bool
	var quiet atomic.Bool // no more New / Stop: only let things run

	var register func(r *vh.Rand, id int, ivs []time.Duration, tail time.Duration, reuseDepth int) *freeGen
	register = func(r *vh.Rand, id int, ivs []time.Duration, tail time.Duration, reuseDepth int) *freeGen {
		mu.Lock()
		g := &freeGen{n: len(gens), id: id, ivs: ivs, tail: tail}
		gens = append(gens, g)
		sub := vh.NewRand(r.U64())
		mu.Unlock()
		ivf := func(c uint64) time.Duration {
			if c == 0 {
				mu.Lock()
				if g.reging && g.seq == 0 {
					nseq++
					g.seq = nseq
				}
				mu.Unlock()
			}
			return g.f(c)
		}
		cb := func(ctx context.Context, c uint64) (bool, error) {
			now := time.Now()
			iv := g.f(c)
			mu.Lock()
			g.starts = append(g.starts, now)
			base := g.regAt
			if c > 0 && int(c) <= len(g.ends) {
				base = g.ends[c-1]
			}
			if now.Before(base.Add(iv)) {
				fail("before-interval", fmt.Sprintf("callback %d of timer object %d (id %d) started %v after its base time (registration / end of callback %d), its interval(%d) is %v", c, g.n, id, now.Sub(base), int(c)-1, c, iv))
			}
			if g.hasRem && now.Sub(g.removed) > 250*time.Millisecond {
				fail("started-after-stop", fmt.Sprintf("callback %d of timer object %d (id %d) started %v after its whenRemoved ran", c, g.n, id, now.Sub(g.removed)))
			}
			keep := true
			var x, y int
			if !quiet.Load() {
				x, y = sub.Intn(100), sub.Intn(3)
			} else {
				x = 100
			}
			mu.Unlock()
			switch {
			case x < 25 && reuseDepth < 6:
				// id reuse from inside the callback, then (mostly) ask for own removal
				ng := register(sub, id, nil, time.Duration(2+y)*time.Millisecond, reuseDepth+1)
				_ = ng
				mu.Lock()
				reuse++
				mu.Unlock()
				keep = y == 0
			case x < 32:
				keep = false
			case x < 40:
				time.Sleep(time.Duration(y) * time.Millisecond)
			}
			mu.Lock()
			if !keep || g.f(c+1) < 1 {
				g.stopRes = true
			}
			g.ends = append(g.ends, time.Now())
			mu.Unlock()
			return keep, nil
		}
		removed := func() {
			now := time.Now()
			mu.Lock()
			defer mu.Unlock()
			g.removed, g.hasRem = now, true
			if stopping.Load() {
				return
			}
			if g.stopRes {
				return
			}
			// must be inside a stop call that names the id (whenRemoved runs inside that call)
			for _, sp := range spans {
				if sp.targets(id) && !now.Before(sp.from) && (sp.to.IsZero() || !now.After(sp.to)) {
					return
				}
			}
			fail("removed-other-timer", fmt.Sprintf("timer object %d (id %d) was removed although no StopTimers/StopOthers naming its id was running and its own callback never asked for removal", g.n, id))
		}
		t := util.NewSimpleTimer(tid(id), ivf, cb, removed)
		mu.Lock()
		g.regAt = time.Now()
		g.reging = true
		mu.Unlock()
		added, _ := ts.NewTimer(t)
		mu.Lock()
		g.added = added
		g.reging = false
		mu.Unlock()
		return g
	}
	// superseded: a later accepted registration under the same id exists (call with mu held)
	super := func(g *freeGen) bool {
		for _, h := range gens {
			if h != g && h.id == g.id && h.added && h.seq > g.seq {
				return true
			}
		}
		return false
	}

	r0 := vh.NewRand(seed)
	// ids 0..3: owned by worker w = id%2 (only that worker registers under them); ids 4..7: registered once here, afterwards
	// re-registered only from inside the callback of the timer that holds the id
	for id := 4; id < fnids; id++ {
		ivs, tail := freePattern(r0)
		if len(ivs) == 0 && tail == 0 {
			tail = 3 * time.Millisecond
		}
		register(r0, id, ivs, tail, 0)
	}
	if fixed {
		// unknown id is refused
		t := util.NewSimpleTimer(util.TimerID("unknown"), func(uint64) time.Duration { return time.Millisecond },
			func(context.Context, uint64) (bool, error) {
				mu.Lock()
				fail("fixed-ids-unknown-ran", "timer with an id outside the fixed ids ran")
				mu.Unlock()
				return true, nil
			}, nil)
		if added, err := ts.NewTimer(t); added || err == nil {
			fail("fixed-ids-unknown-accepted", "NewTimer accepted an id outside the fixed ids")
		}
	}
	var wg sync.WaitGroup
	end := time.Now().Add(dur)
	for w := 0; w < 2; w++ {
		wg.Add(1)
		rw := vh.NewRand(r0.U64())
		go func(w int) {
			defer wg.Done()
			for time.Now().Before(end) {
				switch x := rw.Intn(100); {
				case x < 45:
					id := 2*rw.Intn(2) + w
					ivs, tail := freePattern(rw)
					register(rw, id, ivs, tail, 0)
				case x < 75:
					k := rw.Range(1, 2)
					set := map[int]bool{}
					var ids []util.TimerID
					for i := 0; i < k; i++ {
						id := rw.Intn(fnids)
						set[id] = true
						ids = append(ids, tid(id))
					}
					sp := &stopSpan{from: time.Now(), targets: func(id int) bool { return set[id] }}
					mu.Lock()
					spans = append(spans, sp)
					mu.Unlock()
					_ = ts.StopTimers(ids)
					mu.Lock()
					sp.to = time.Now()
					mu.Unlock()
				case x < 82:
					set := map[int]bool{}
					var ids []util.TimerID
					for i := 0; i < rw.Range(4, 7); i++ {
						id := rw.Intn(fnids)
						set[id] = true
						ids = append(ids, tid(id))
					}
					sp := &stopSpan{from: time.Now(), targets: func(id int) bool { return !set[id] }}
					mu.Lock()
					spans = append(spans, sp)
					mu.Unlock()
					_ = ts.StopOthers(ids)
					mu.Lock()
					sp.to = time.Now()
					mu.Unlock()
				}
				time.Sleep(time.Duration(rw.Range(200, 1500)) * time.Microsecond)
			}
		}(w)
	}
	wg.Wait()
	quiet.Store(true)
	// liveness: every object that is the latest accepted one under its id, was never removed and never asked for
	// removal must run again
	time.Sleep(3 * time.Millisecond)
	mu.Lock()
	mark := map[*freeGen]int{}
	for _, g := range gens {
		if g.added && !g.hasRem && !super(g) && !g.stopRes {
			mark[g] = len(g.starts)
		}
	}
	mu.Unlock()
	deadline := time.Now().Add(3 * time.Second)
	for {
		pending := 0
		mu.Lock()
		for g, n := range mark {
			if g.hasRem || g.stopRes || super(g) {
				delete(mark, g) // removed / replaced after the mark (callbacks still running at the mark): not owed
				continue
			}
			if len(g.starts) <= n {
				pending++
			}
		}
		mu.Unlock()
		mu.Lock()
		for _, g := range gens {
			if g.added && g.stopRes && !g.hasRem && !super(g) {
				pending++ // its job still owes the end-of-run removal
			}
		}
		mu.Unlock()
		if pending == 0 || time.Now().After(deadline) {
			break
		}
		time.Sleep(time.Millisecond)
	}
	mu.Lock()
	for g, n := range mark {
		if len(g.starts) <= n && !g.hasRem && !g.stopRes && !super(g) {
			fail("live-timer-not-run", fmt.Sprintf("timer object %d (id %d, intervals %v then %v): latest registered under its id, never removed, never asked for removal, did not run within 3 s", g.n, g.id, g.ivs, g.tail))
		}
	}
	for _, g := range gens {
		starts += len(g.starts)
		if g.added && g.stopRes && !g.hasRem && !super(g) {
			fail("end-of-run-removal-missing", fmt.Sprintf("timer object %d (id %d, intervals %v then %v): a callback returned keep=false or its next interval is < 1 after %d calls, it is the latest registered under its id, yet it was never removed", g.n, g.id, g.ivs, g.tail, len(g.ends)))
		}
	}
	mu.Unlock()
	stopping.Store(true)
	_ = ts.Stop()
	return fails, starts, reuse
}

// ------------------------------------------------------------------ main

func main() {
	o := vh.ParseFlags()
	res := vh.NewResult("A: forced schedules on the real SimpleTimers (gated traverse, parked callbacks and job removals), random operations new/stop/stopothers/stopall/iter(+operations inside the traverse)/release/jobremove over 6 ids, 1..3 shards; after every operation registry, removed objects and started callbacks are compared with the Coq model; non-trivial = at least one callback started. B: free-running SimpleTimers (real constructors, sizes 1/2/8, fixed ids) with concurrent New/StopTimers/StopOthers and id reuse from inside callbacks; oracle = wall-clock lower bound, unjustified removals, lost successors")
	if o.Replay != "" {
		var fr FreeReplay
		var sc Script
		if err := vh.ReadReplay(o.Replay, &fr); err == nil && fr.Free {
			fl, st, _ := runFree(fr.Seed, fr.Size, fr.Fixed, 80*time.Millisecond)
			fmt.Printf("replay free run: starts=%d failures=%v\n", st, fl)
		} else if err := vh.ReadReplay(o.Replay, &sc); err == nil {
			out := runForced(&sc)
			fmt.Printf("replay forced: failures=%v\n%s\n", out.fails, out.term)
		}
	}
	cases := &vh.Cases{Import: "From MV Require Import C34.Model.", Type: "case", CheckFn: "check", Shard: 60}
	var scripts []*Script
	scripts = append(scripts, corpus()...)
	nrand := o.Pick(330, 6000)
	r := vh.NewRand(o.Seed)
	for i := 0; i < nrand; i++ {
		scripts = append(scripts, &Script{Shards: 1 + r.Intn(3), Seed: int64(r.U64()>>2) + 1, NOps: r.Range(6, 16)})
	}
	outs := make([]caseOut, len(scripts))
	// a case mostly sleeps (5 ms per iter): run several at a time, each on its own goroutine (= its controller)
	par := 12
	sem := make(chan struct{}, par)
	var wg sync.WaitGroup
	for i := range scripts {
		wg.Add(1)
		sem <- struct{}{}
		go func(i int) {
			defer wg.Done()
			defer func() { <-sem }()
			outs[i] = runForced(scripts[i])
		}(i)
	}
	wg.Wait()
	reuse := 0
	for i, out := range outs {
		cases.Add(out.term, scripts[i])
		res.Count(fmt.Sprintf("forced-%d", i), out.nontriv)
		for _, d := range out.dist {
			res.Dist(d)
		}
		res.Dist(fmt.Sprintf("shards:%d", scripts[i].Shards))
		if out.sawReuse {
			reuse++
		}
		for _, fl := range out.fails {
			res.Fail(fl.Class, fl.Desc, fl.Replay)
		}
		if i < 2 {
			res.Sample(map[string]any{"script": scripts[i], "ops": out.ops})
		}
	}
	res.Distribution["forced-cases-with-id-reuse-during-callback"] = reuse
	res.ModelCases = cases.Len()

	// part B
	nfree := o.Pick(36, 600)
	type fr struct {
		fails         []vh.Failure
		starts, reuse int
	}
	frs := make([]fr, nfree)
	sem2 := make(chan struct{}, 6)
	for i := 0; i < nfree; i++ {
		wg.Add(1)
		sem2 <- struct{}{}
		seed := r.U64()
		size := []int{1, 2, 8}[i%3]
		go func(i int) {
			defer wg.Done()
			defer func() { <-sem2 }()
			f, s, ru := runFree(seed, size, i%5 == 4, 60*time.Millisecond)
			frs[i] = fr{f, s, ru}
		}(i)
	}
	wg.Wait()
	for i, x := range frs {
		res.Count(fmt.Sprintf("free-%d", i), x.starts > 0)
		res.Distribution["free-callback-starts"] += x.starts
		res.Distribution["free-id-reuse-in-callback"] += x.reuse
		for _, fl := range x.fails {
			res.Fail(fl.Class, fl.Desc, fl.Replay)
		}
	}
	if err := cases.Write(o.Out); err != nil {
		panic(err)
	}
	res.Write(o.Out)
}
