package sim

import (
	"fmt"
	"sort"
	"strings"
	"time"

	"github.com/spikeekips/mitum/base"
	"github.com/spikeekips/mitum/isaac"
	isaacoperation "github.com/spikeekips/mitum/isaac/operation"
	"verifharness/vh"
)

// ---------------------------------------------------------------- identities (deterministic from the seed)

type Gen struct {
	R    *vh.Rand
	pool []Ident
	used int
}

func NewGen(r *vh.Rand) *Gen { return &Gen{R: r} }

func (g *Gen) newIdent() Ident {
	g.used++
	seed := fmt.Sprintf("verif-c17-seed-%016x-%016x-%016x-%06d", g.R.U64(), g.R.U64(), g.R.U64(), g.used)
	priv, err := base.NewMPrivatekeyFromSeed(seed)
	if err != nil {
		panic(err)
	}
	// address strings in random order relative to creation order (the mergers sort by address string)
	name := fmt.Sprintf("n%05x%03d", g.R.Intn(1<<20), g.used%1000)
	return Ident{Addr: base.NewStringAddress(name), Priv: priv}
}

func (g *Gen) token() base.Token { return base.Token(g.R.Bytes(16)) }

// ---------------------------------------------------------------- operations

type signer struct {
	addr base.Address
	priv base.Privatekey
}

func (g *Gen) nodeSign(op interface {
	NodeSign(base.Privatekey, base.NetworkID, base.Address) error
}, ss []signer) {
	for _, s := range ss {
		if err := op.NodeSign(s.priv, NetworkID, s.addr); err != nil {
			panic(err)
		}
	}
}

func (g *Gen) Join(x base.Address, start base.Height, ss []signer) Op {
	op := isaacoperation.NewSuffrageJoin(isaacoperation.NewSuffrageJoinFact(g.token(), x, start))
	g.nodeSign(&op, ss)
	return Op{Kind: "join", Op: op, Get: GetOK}
}

func (g *Gen) Candidate(x base.Address, pub base.Publickey, ss []signer) Op {
	op := isaacoperation.NewSuffrageCandidate(isaacoperation.NewSuffrageCandidateFact(g.token(), x, pub))
	g.nodeSign(&op, ss)
	return Op{Kind: "candidate", Op: op, Get: GetOK}
}

func (g *Gen) Disjoin(x base.Address, start base.Height, s signer) Op {
	op := isaacoperation.NewSuffrageDisjoin(isaacoperation.NewSuffrageDisjoinFact(g.token(), x, start))
	g.nodeSign(&op, []signer{s})
	return Op{Kind: "disjoin", Op: op, Get: GetOK}
}

func (g *Gen) Expel(x base.Address, start, end base.Height, ss []signer) Op {
	op := isaac.NewSuffrageExpelOperation(isaac.NewSuffrageExpelFact(x, start, end, "verif"))
	g.nodeSign(&op, ss)
	return Op{Kind: "expel", Op: op, Get: GetOK}
}

func (g *Gen) PolicyOp(p isaac.NetworkPolicy, ss []signer) Op {
	op := isaacoperation.NewNetworkPolicy(isaacoperation.NewNetworkPolicyFact(g.token(), p))
	g.nodeSign(&op, ss)
	return Op{Kind: "policy", Op: op, Get: GetOK}
}

func policyVariant(i int) isaac.NetworkPolicy {
	p := isaac.DefaultNetworkPolicy()
	if i > 0 {
		p.SetMaxOperationsInProposal(uint64(100 + i))
	}
	return p
}

// ---------------------------------------------------------------- random case

// thresholds (tenths) the generator favours: boundaries of the code's range and values whose
// n*t/100 is or is not an integer for small n
var favK = []int{670, 670, 670, 510, 1000, 600, 667, 500 + 70, 750, 800, 666, 999, 501 + 9, 900, 550}

func (g *Gen) subset(ms []Member, n int) []Member {
	p := g.R.Perm(len(ms))
	out := make([]Member, 0, n)
	for i := 0; i < n && i < len(p); i++ {
		out = append(out, ms[p[i]])
	}
	return out
}

// need returns the least m with m*1000 >= k*n
func need(k, n int) int { return (k*n + 999) / 1000 }

// memberSigns builds a sign list with `good` correct member signs plus noise signs that must not count:
// members signing with a foreign key, outsiders, and (when given) the candidate itself.
func (g *Gen) memberSigns(c *Case, good int, outsiders []Ident, res *vh.Result, exclude base.Address) []signer {
	var ss []signer
	ms := g.subset(c.Members, len(c.Members))
	if exclude != nil {
		// one sign per node in an operation: the joining address signs with the candidate key, so the member of
		// that address cannot also sign
		var keep []Member
		for _, m := range ms {
			if !m.Addr.Equal(exclude) {
				keep = append(keep, m)
			}
		}
		ms = keep
	}
	if good > len(ms) {
		good = len(ms)
	}
	for i := 0; i < good; i++ {
		ss = append(ss, signer{ms[i].Addr, ms[i].Priv})
	}
	// members "signed" by somebody else's key (must not count)
	for i := good; i < len(ms); i++ {
		if g.R.Chance(1, 4) {
			ss = append(ss, signer{ms[i].Addr, outsiders[g.R.Intn(len(outsiders))].Priv})
			res.Dist("sign:member-foreign-key")
		}
	}
	if g.R.Chance(1, 3) {
		o := outsiders[g.R.Intn(len(outsiders))]
		ss = append(ss, signer{o.Addr, o.Priv})
		res.Dist("sign:outsider")
	}
	// shuffle
	p := g.R.Perm(len(ss))
	out := make([]signer, len(ss))
	for i, j := range p {
		out[i] = ss[j]
	}
	return out
}

// signCountChoice picks how many good member signs an operation gets, concentrated at the threshold
func (g *Gen) signCountChoice(k, n int, res *vh.Result) int {
	q := need(k, n)
	switch g.R.Intn(10) {
	case 0, 1, 2, 3:
		res.Dist("signs:exactly-threshold")
		return q
	case 4, 5:
		res.Dist("signs:threshold-minus-1")
		return q - 1
	case 6:
		res.Dist("signs:all")
		return n
	case 7:
		res.Dist("signs:threshold-plus-1")
		return q + 1
	case 8:
		res.Dist("signs:none")
		return 0
	default:
		return g.R.Intn(n + 1)
	}
}

func (g *Gen) RandomCase(res *vh.Result, c10 bool) *Case {
	r := g.R
	c := &Case{}
	c.Height = base.Height(r.Range(5, 60))
	c.K = favK[r.Intn(len(favK))]
	if r.Chance(1, 4) {
		c.K = r.Range(510, 1000)
	}
	c.Lifespan = base.Height(r.Range(1, 9))
	c.SufHeight = base.Height(r.Range(0, int(c.Height)-1))
	nm := 1 + r.Intn(7)
	if r.Chance(1, 8) {
		nm = 8 + r.Intn(6)
	}
	for i := 0; i < nm; i++ {
		c.Members = append(c.Members, Member{g.newIdent(), base.Height(r.Range(0, int(c.Height)-1))})
	}
	outsiders := []Ident{g.newIdent(), g.newIdent(), g.newIdent()}
	c.HasCands = !r.Chance(1, 8)
	var live, expired []Ident
	if c.HasCands {
		nc := r.Intn(5)
		if c10 {
			nc = r.Intn(9) // several joins in one block: the joined nodes reach the merger in completion order
		}
		for i := 0; i < nc; i++ {
			id := g.newIdent()
			x := Cand{Addr: id.Addr, Pub: id.Pub()}
			switch r.Intn(6) {
			case 0: // expired
				x.Deadline = c.Height - base.Height(1+r.Intn(3))
				x.Start = x.Deadline - base.Height(1+r.Intn(3))
				expired = append(expired, id)
				res.Dist("cand:expired")
			case 1: // deadline == height (last valid block)
				x.Deadline = c.Height
				x.Start = x.Deadline - base.Height(1+r.Intn(3))
				live = append(live, id)
				res.Dist("cand:deadline=height")
			default:
				x.Start = c.Height - base.Height(r.Intn(3))
				x.Deadline = c.Height + base.Height(r.Intn(4))
				if x.Deadline <= x.Start {
					x.Deadline = x.Start + 1
				}
				live = append(live, id)
				res.Dist("cand:live")
			}
			c.Cands = append(c.Cands, x)
		}
		if r.Chance(1, 4) {
			// a candidate record whose ADDRESS is a current member's (the candidate processor never registers one,
			// but the join processor must not rely on that): with another key, or with the member's own key.
			// Joins for it are well formed (self-signed with the candidate key, enough other members).
			nk := 1 + r.Intn(2)
			for i := 0; i < nk; i++ {
				m := c.Members[r.Intn(len(c.Members))]
				id := Ident{Addr: m.Addr, Priv: m.Priv}
				if r.Chance(2, 3) {
					id.Priv = g.newIdent().Priv
					res.Dist("cand:member-address-other-key")
				} else {
					res.Dist("cand:member-address-same-key")
				}
				x := Cand{Addr: id.Addr, Pub: id.Pub(), Start: c.Height - base.Height(r.Intn(3)), Deadline: c.Height + base.Height(1+r.Intn(3))}
				c.Cands = append(c.Cands, x)
				live = append(live, id)
				if r.Chance(1, 2) {
					live = append(live, id) // more likely to be picked for a join
				}
			}
		}
		if len(c.Cands) > 0 && r.Chance(1, 12) {
			// the same address registered twice with different keys (never produced by the merger, which
			// replaces; exercises the last-wins candidates map)
			d := c.Cands[r.Intn(len(c.Cands))]
			id := g.newIdent()
			d.Pub = id.Pub()
			c.Cands = append(c.Cands, d)
			res.Dist("cand:duplicate-address-in-state")
		}
	}
	c.Policy = policyVariant(0)
	candOf := func(a base.Address) *Cand {
		var f *Cand
		for i := range c.Cands {
			if c.Cands[i].Addr.Equal(a) {
				f = &c.Cands[i]
			}
		}
		return f
	}

	n := len(c.Members)
	nops := r.Range(1, 9)
	if r.Chance(1, 10) {
		nops = r.Range(10, 16)
	}
	if c10 && r.Chance(1, 3) {
		nops = r.Range(10, 40)
	}
	polCount := 0
	for len(c.Ops) < nops {
		switch r.Intn(12) {
		case 0, 1, 2, 3: // join
			var id Ident
			note := "join:"
			switch {
			case len(live) > 0 && r.Chance(7, 10):
				id = live[r.Intn(len(live))]
				note += "live-candidate"
			case len(expired) > 0 && r.Chance(1, 2):
				id = expired[r.Intn(len(expired))]
				note += "expired-candidate"
			case r.Chance(1, 2):
				id = c.Members[r.Intn(n)].Ident
				note += "member"
			default:
				id = outsiders[r.Intn(len(outsiders))]
				note += "unregistered"
			}
			start := c.Height
			if cd := candOf(id.Addr); cd != nil {
				start = cd.Start
			}
			if r.Chance(1, 10) {
				start += base.Height(1 + r.Intn(2))
				note += ",wrong-start"
			}
			ss := g.memberSigns(c, g.signCountChoice(c.K, n, res), outsiders, res, id.Addr)
			self := signer{id.Addr, id.Priv}
			switch r.Intn(10) {
			case 0:
				self.priv = outsiders[r.Intn(len(outsiders))].Priv
				note += ",self-sign-foreign-key"
			case 1:
				// no sign of the candidate at all (SuffrageJoin.IsValid refuses it; the processor must too)
				self.addr = nil
				note += ",no-self-sign"
			}
			if self.addr != nil {
				pos := r.Intn(len(ss) + 1)
				ss = append(ss[:pos], append([]signer{self}, ss[pos:]...)...)
			}
			if len(ss) == 0 {
				ss = []signer{{outsiders[0].Addr, outsiders[0].Priv}}
			}
			op := g.Join(id.Addr, start, ss)
			op.Note = note
			c.Ops = append(c.Ops, op)
		case 4, 5: // candidate
			var id Ident
			note := "candidate:"
			switch {
			case r.Chance(5, 10):
				id = outsiders[r.Intn(len(outsiders))]
				note += "new"
			case len(expired) > 0 && r.Chance(1, 2):
				id = expired[r.Intn(len(expired))]
				note += "expired-again"
			case len(live) > 0 && r.Chance(1, 2):
				id = live[r.Intn(len(live))]
				note += "already-candidate"
			default:
				id = c.Members[r.Intn(n)].Ident
				note += "member"
			}
			pub := id.Pub()
			priv := id.Priv
			if r.Chance(1, 6) {
				// somebody else claims the address with his own key
				o := g.newIdent()
				pub, priv = o.Pub(), o.Priv
				note += ",other-key"
			}
			op := g.Candidate(id.Addr, pub, []signer{{id.Addr, priv}})
			op.Note = note
			c.Ops = append(c.Ops, op)
		case 6, 7: // disjoin
			var id Ident
			var start base.Height
			note := "disjoin:"
			if r.Chance(8, 10) {
				m := c.Members[r.Intn(n)]
				id, start = m.Ident, m.Start
				note += "member"
			} else if len(live) > 0 && r.Chance(1, 2) {
				id, start = live[r.Intn(len(live))], c.Height
				note += "candidate"
			} else {
				id, start = outsiders[r.Intn(len(outsiders))], c.Height
				note += "non-member"
			}
			if r.Chance(1, 8) {
				start++
				note += ",wrong-start"
			}
			s := signer{id.Addr, id.Priv}
			if r.Chance(1, 6) {
				s.priv = outsiders[r.Intn(len(outsiders))].Priv
				note += ",foreign-key"
			}
			op := g.Disjoin(id.Addr, start, s)
			op.Note = note
			c.Ops = append(c.Ops, op)
		case 8, 9: // expel: from the voteproof (sometimes wrongly placed inside the proposal: dropped there)
			var id Ident
			note := "expel:"
			if r.Chance(8, 10) {
				id = c.Members[r.Intn(n)].Ident
				note += "member"
			} else if len(live) > 0 && r.Chance(1, 2) {
				id = live[r.Intn(len(live))]
				note += "candidate"
			} else {
				id = outsiders[r.Intn(len(outsiders))]
				note += "non-member"
			}
			start, end := c.Height-base.Height(r.Intn(3)), c.Height+base.Height(r.Intn(3))
			switch r.Intn(10) {
			case 0:
				start, end = c.Height+1, c.Height+3
				note += ",not-started"
			case 1:
				start, end = c.Height-3, c.Height-1
				note += ",ended"
			case 2:
				start, end = c.Height, c.Height
				note += ",start=end=height"
			}
			if start <= base.GenesisHeight {
				start = base.GenesisHeight + 1
			}
			if end < start {
				end = start
			}
			var ss []signer
			for _, m := range g.subset(c.Members, 1+r.Intn(n)) {
				if !m.Addr.Equal(id.Addr) {
					ss = append(ss, signer{m.Addr, m.Priv})
				}
			}
			if len(ss) == 0 {
				ss = []signer{{outsiders[0].Addr, outsiders[0].Priv}}
			}
			op := g.Expel(id.Addr, start, end, ss)
			op.Note = note
			if r.Chance(1, 8) {
				op.Note += ",inside-proposal"
				c.Ops = append(c.Ops, op)
			} else {
				c.Expels = append(c.Expels, op)
			}
		case 10: // network policy
			if polCount >= 2 && !r.Chance(1, 3) {
				continue
			}
			polCount++
			v := r.Intn(3)
			note := "policy:"
			if v == 0 {
				note += "same-as-current"
			} else {
				note += "new"
			}
			ss := g.memberSigns(c, g.signCountChoice(c.K, n, res), outsiders, res, nil)
			if len(ss) == 0 {
				ss = []signer{{outsiders[0].Addr, outsiders[0].Priv}}
			}
			op := g.PolicyOp(policyVariant(v), ss)
			op.Note = note
			c.Ops = append(c.Ops, op)
		default: // repeat an earlier operation (same operation twice in one proposal) or answer modes
			if len(c.Ops) == 0 {
				continue
			}
			src := c.Ops[r.Intn(len(c.Ops))]
			if src.Get != GetOK {
				continue
			}
			if c10 && r.Chance(1, 2) {
				// a fresh operation the node cannot use
				o := g.Candidate(outsiders[0].Addr, outsiders[0].Pub(), []signer{{outsiders[0].Addr, outsiders[0].Priv}})
				o.Get = []string{GetNotFound, GetProcessed, GetInvalid}[r.Intn(3)]
				o.Note = "get:" + o.Get
				c.Ops = append(c.Ops, o)
				continue
			}
			src.Note = "repeat:" + src.Kind
			c.Ops = append(c.Ops, src)
		}
	}
	for _, o := range c.Ops {
		res.Dist("op:" + o.Note)
	}
	for _, o := range c.Expels {
		res.Dist("op:" + o.Note)
	}
	c.Prepare()
	return c
}

// ---------------------------------------------------------------- rendering for the Coq model

// Names maps address strings to their rank in string order and keys / policies to small ids.
type Names struct {
	addr map[string]int
	key  map[string]int
	pol  map[string]int
}

func (c *Case) allOps() []Op { return append(append([]Op{}, c.Ops...), c.Expels...) }

func (c *Case) Names() *Names {
	nm := &Names{addr: map[string]int{}, key: map[string]int{}, pol: map[string]int{}}
	set := map[string]struct{}{}
	addA := func(a base.Address) { set[a.String()] = struct{}{} }
	addK := func(k base.Publickey) {
		if _, ok := nm.key[k.String()]; !ok {
			nm.key[k.String()] = len(nm.key) + 1
		}
	}
	for _, m := range c.Members {
		addA(m.Addr)
		addK(m.Pub())
	}
	for _, x := range c.Cands {
		addA(x.Addr)
		addK(x.Pub)
	}
	nm.pol[string(c.Policy.HashBytes())] = 1
	for _, o := range c.allOps() {
		for _, s := range o.Op.Signs() {
			ns := s.(base.NodeSign)
			addA(ns.Node())
			addK(ns.Signer())
		}
		switch f := o.Op.Fact().(type) {
		case isaacoperation.SuffrageJoinFact:
			addA(f.Candidate())
		case isaacoperation.SuffrageCandidateFact:
			addA(f.Address())
			addK(f.Publickey())
		case isaacoperation.SuffrageDisjoinFact:
			addA(f.Node())
		case isaac.SuffrageExpelFact:
			addA(f.Node())
		case isaacoperation.NetworkPolicyFact:
			k := string(f.Policy().HashBytes())
			if _, ok := nm.pol[k]; !ok {
				nm.pol[k] = len(nm.pol) + 1
			}
		}
	}
	ss := make([]string, 0, len(set))
	for s := range set {
		ss = append(ss, s)
	}
	sort.Strings(ss)
	for i, s := range ss {
		nm.addr[s] = i + 1
	}
	return nm
}

func (nm *Names) A(a base.Address) string { return vh.N(uint64(nm.addr[a.String()])) }
func (nm *Names) AS(a string) string {
	i, ok := nm.addr[a]
	if !ok {
		return vh.N(999999) // an address the case never mentioned: cannot match the model
	}
	return vh.N(uint64(i))
}
func (nm *Names) K(k base.Publickey) string { return nm.KS(k.String()) }
func (nm *Names) KS(k string) string {
	i, ok := nm.key[k]
	if !ok {
		return vh.N(999999)
	}
	return vh.N(uint64(i))
}
func (nm *Names) P(hashbytes string) string {
	i, ok := nm.pol[hashbytes]
	if !ok {
		return vh.N(999999)
	}
	return vh.N(uint64(i))
}

func (nm *Names) signs(op base.Operation) string {
	var ss []string
	for _, s := range op.Signs() {
		ns := s.(base.NodeSign)
		ss = append(ss, vh.Tuple(nm.A(ns.Node()), nm.K(ns.Signer())))
	}
	return vh.List(ss)
}

// CoqOp renders one proposal entry as a model operation
func (nm *Names) CoqOp(o Op, insideProposal bool) string {
	switch o.Get {
	case GetNotFound, GetProcessed:
		return "ONil"
	case GetInvalid:
		return "OInvalid"
	}
	switch f := o.Op.Fact().(type) {
	case isaacoperation.SuffrageJoinFact:
		return fmt.Sprintf("(OJoin %s %s %s)", nm.A(f.Candidate()), vh.Z(int64(f.Start())), nm.signs(o.Op))
	case isaacoperation.SuffrageCandidateFact:
		return fmt.Sprintf("(OCandidate %s %s)", nm.A(f.Address()), nm.K(f.Publickey()))
	case isaacoperation.SuffrageDisjoinFact:
		return fmt.Sprintf("(ODisjoin %s %s %s)", nm.A(f.Node()), vh.Z(int64(f.Start())), nm.signs(o.Op))
	case isaac.SuffrageExpelFact:
		if insideProposal {
			return "ONil" // DefaultProposalProcessor.getOperation drops expel operations found in a proposal
		}
		return fmt.Sprintf("(OExpel %s %s %s)", nm.A(f.Node()), vh.Z(int64(f.ExpelStart())), vh.Z(int64(f.ExpelEnd())))
	case isaacoperation.NetworkPolicyFact:
		return fmt.Sprintf("(OPolicy %s %s)", nm.P(string(f.Policy().HashBytes())), nm.signs(o.Op))
	}
	panic(fmt.Sprintf("unknown fact %T", o.Op.Fact()))
}

func (c *Case) CoqEnv(nm *Names) string {
	var ns, cs []string
	for _, m := range c.Members {
		ns = append(ns, fmt.Sprintf("mkNode %s %s %s", nm.A(m.Addr), nm.K(m.Pub()), vh.Z(int64(m.Start))))
	}
	cands := "None"
	if c.HasCands {
		for _, x := range c.Cands {
			cs = append(cs, fmt.Sprintf("mkCand %s %s %s %s", nm.A(x.Addr), nm.K(x.Pub), vh.Z(int64(x.Start)), vh.Z(int64(x.Deadline))))
		}
		cands = "(Some " + vh.List(cs) + ")"
	}
	return fmt.Sprintf("(mkEnv %s %s %s (mkPrior %s %s %s %s))", vh.Z(int64(c.Height)), vh.Z(int64(c.K)), vh.Z(int64(c.Lifespan)),
		vh.Z(int64(c.SufHeight)), vh.List(ns), cands, vh.N(1))
}

// CoqOps renders the entries in processing order: proposal operations in `order`, then the expels in ExpelOrder
func (c *Case) CoqOps(nm *Names, order []int, expelOrder []int) string {
	var ss []string
	for _, j := range order {
		ss = append(ss, nm.CoqOp(c.Ops[j], true))
	}
	for _, j := range expelOrder {
		ss = append(ss, nm.CoqOp(c.Expels[j], false))
	}
	return vh.List(ss)
}

func natList(xs []int) string {
	ss := make([]string, len(xs))
	for i, x := range xs {
		ss[i] = fmt.Sprintf("%d", x)
	}
	return "[" + strings.Join(ss, "; ") + "]%nat"
}

// CoqOutcome renders the implementation's observation as the model's outcome
func (o *Obs) CoqOutcome(nm *Names) string {
	if o.Err != "" {
		return "None"
	}
	fl := make([]string, len(o.Slots))
	for i, s := range o.Slots {
		switch s {
		case 0:
			fl[i] = "None"
		case 1:
			fl[i] = "Some false"
		default:
			fl[i] = "Some true"
		}
	}
	suf := "None"
	if o.SufChanged {
		var ns []string
		for _, n := range o.SufNodes {
			ns = append(ns, fmt.Sprintf("mkNode %s %s %s", nm.AS(n.Addr), nm.KS(n.Pub), vh.Z(n.Start)))
		}
		suf = fmt.Sprintf("(Some (%s, %s))", vh.Z(o.SufHeight), vh.List(ns))
	}
	cands := "None"
	if o.CandChanged {
		var cs []string
		for _, x := range o.Cands {
			cs = append(cs, fmt.Sprintf("mkCand %s %s %s %s", nm.AS(x.Addr), nm.KS(x.Pub), vh.Z(x.Start), vh.Z(x.Deadline)))
		}
		cands = "(Some " + vh.List(cs) + ")"
	}
	pol := "None"
	if o.PolChanged {
		pol = "(Some " + nm.P(o.PolicyBytes) + ")"
	}
	return fmt.Sprintf("(Some (mkOutcome %s %s %s %s %s %s %s))", vh.List(fl), suf, cands, pol,
		natList(o.SufOps), natList(o.CandOps), natList(o.PolOps))
}

// Describe gives a replayable JSON descriptor of the case structure (keys are re-derived from the seed)
func (c *Case) Describe(nm *Names, order []int, obs *Obs) map[string]any {
	return map[string]any{
		"height": c.Height, "k": c.K, "lifespan": c.Lifespan, "members": len(c.Members), "cands": len(c.Cands),
		"env": c.CoqEnv(nm), "ops": c.CoqOps(nm, order, obs.ExpelOrder), "impl": obs.CoqOutcome(nm), "err": obs.Err,
	}
}

var _ = time.Now

// NewIdentForRatio exposes identity creation (deterministic from the generator's PRNG)
func (g *Gen) NewIdentForRatio() Ident { return g.newIdent() }

// AllSkipped: the proposal has operations but every one of them is skipped by
// DefaultProposalProcessor.getOperation (unknown / already processed / expel inside a proposal) and the
// voteproof carries no expels.
func (c *Case) AllSkipped() bool {
	if len(c.Ops) == 0 || len(c.Expels) > 0 {
		return false
	}
	for _, o := range c.Ops {
		_, isexpel := o.Op.Fact().(isaac.SuffrageExpelFact)
		if !(isexpel || o.Get == GetNotFound || o.Get == GetProcessed) {
			return false
		}
	}
	return true
}

// Corpus: hand-built cases that always run first (witnesses of the decisions recorded in notes/C17.md).
func (g *Gen) Corpus() []*Case {
	var out []*Case
	sg := func(m Member) signer { return signer{m.Addr, m.Priv} }
	// A: conflicting / repeated operations on one block
	{
		c := &Case{Height: 33, K: 670, Lifespan: 3, SufHeight: 7, HasCands: true, Policy: policyVariant(0)}
		for i := 0; i < 3; i++ {
			c.Members = append(c.Members, Member{g.newIdent(), base.Height(i)})
		}
		c1, c2 := g.newIdent(), g.newIdent()
		c.Cands = []Cand{{c1.Addr, c1.Pub(), 31, 35}, {c2.Addr, c2.Pub(), 32, 33}}
		all := []signer{sg(c.Members[0]), sg(c.Members[1]), sg(c.Members[2])}
		j2 := g.Join(c2.Addr, 32, append([]signer{{c2.Addr, c2.Priv}}, all...))
		j1low := g.Join(c1.Addr, 31, append([]signer{{c1.Addr, c1.Priv}}, all[:2]...)) // 2 of 3 < 67%
		j1 := g.Join(c1.Addr, 31, append(append([]signer{}, all...), signer{c1.Addr, c1.Priv}))
		dj := g.Disjoin(c.Members[1].Addr, c.Members[1].Start, sg(c.Members[1]))
		ex := g.Expel(c.Members[1].Addr, 30, 40, []signer{all[0], all[2]})
		p1 := g.PolicyOp(policyVariant(1), all)
		p2 := g.PolicyOp(policyVariant(2), all)
		c.Ops = []Op{j2, j1low, j1, j1, dj, p1, p2, j2}
		c.Expels = []Op{ex}
		c.Prepare()
		out = append(out, c)
	}
	// B: 100 members at 57.0%: 57 signs are exactly the threshold but the float test rejects them (false
	// rejection, allowed by the only-if statement); 58 signs pass
	{
		c := &Case{Height: 12, K: 570, Lifespan: 3, SufHeight: 3, HasCands: true, Policy: policyVariant(0)}
		for i := 0; i < 100; i++ {
			c.Members = append(c.Members, Member{g.newIdent(), 1})
		}
		c1, c2 := g.newIdent(), g.newIdent()
		c.Cands = []Cand{{c1.Addr, c1.Pub(), 10, 14}, {c2.Addr, c2.Pub(), 10, 14}}
		var s57, s58 []signer
		for i := 0; i < 58; i++ {
			if i < 57 {
				s57 = append(s57, sg(c.Members[i]))
			}
			s58 = append(s58, sg(c.Members[i]))
		}
		c.Ops = []Op{
			g.Join(c1.Addr, 10, append([]signer{{c1.Addr, c1.Priv}}, s57...)),
			g.Join(c2.Addr, 10, append([]signer{{c2.Addr, c2.Priv}}, s58...)),
		}
		c.Prepare()
		out = append(out, c)
	}
	// D (seeded/C17-C): 4 members, a candidate record with member 0's ADDRESS and another key; a well-formed join for
	// it, self-signed with the candidate key and signed by the 3 other members (75% >= 67%), must be refused
	{
		c := &Case{Height: 20, K: 670, Lifespan: 3, SufHeight: 5, HasCands: true, Policy: policyVariant(0)}
		for i := 0; i < 4; i++ {
			c.Members = append(c.Members, Member{g.newIdent(), 2})
		}
		other := g.newIdent()
		fresh := g.newIdent()
		c.Cands = []Cand{{c.Members[0].Addr, other.Pub(), 18, 22}, {fresh.Addr, fresh.Pub(), 18, 22}}
		three := []signer{sg(c.Members[1]), sg(c.Members[2]), sg(c.Members[3])}
		c.Ops = []Op{
			g.Join(c.Members[0].Addr, 18, append([]signer{{c.Members[0].Addr, other.Priv}}, three...)),
			g.Join(fresh.Addr, 18, append([]signer{{fresh.Addr, fresh.Priv}}, three...)),
		}
		c.Prepare()
		out = append(out, c)
	}
	// C: every operation skipped: Writer.Manifest fails ("empty nodes"), no block
	{
		c := &Case{Height: 9, K: 670, Lifespan: 3, SufHeight: 2, HasCands: false, Policy: policyVariant(0)}
		for i := 0; i < 2; i++ {
			c.Members = append(c.Members, Member{g.newIdent(), 0})
		}
		o := g.Candidate(c.Members[0].Addr, c.Members[0].Pub(), []signer{sg(c.Members[0])})
		o.Get = GetNotFound
		ex := g.Expel(c.Members[1].Addr, 5, 12, []signer{sg(c.Members[0])})
		c.Ops = []Op{o, ex}
		c.Prepare()
		out = append(out, c)
	}
	return out
}
