// Package sim: shared engine of the C17 and C10 harnesses.  It drives the REAL
// isaac.DefaultProposalProcessor with the REAL isaacblock.Writer (and its DefaultStatesMerger) and the
// five REAL operation processors of isaac/operation, wired as launch.POperationProcessorsMap does
// (constraint funcs nil).  Only the two storage back ends behind the writer (FSWriter,
// BlockWriteDatabase) are recording stubs.
package sim

import (
	"context"
	"fmt"
	"runtime"
	"sort"
	"sync"
	"time"

	"github.com/pkg/errors"
	"github.com/spikeekips/mitum/base"
	"github.com/spikeekips/mitum/isaac"
	isaacblock "github.com/spikeekips/mitum/isaac/block"
	isaacoperation "github.com/spikeekips/mitum/isaac/operation"
	"github.com/spikeekips/mitum/util"
	"github.com/spikeekips/mitum/util/fixedtree"
	"github.com/spikeekips/mitum/util/hint"
	"github.com/spikeekips/mitum/util/valuehash"
)

var NetworkID = base.NetworkID([]byte("verif-c17-c10"))

// ---------------------------------------------------------------- case

type Ident struct {
	Addr base.Address
	Priv base.Privatekey
}

func (i Ident) Pub() base.Publickey { return i.Priv.Publickey() }

type Member struct {
	Ident
	Start base.Height
}

type Cand struct {
	Addr     base.Address
	Pub      base.Publickey
	Start    base.Height
	Deadline base.Height
}

// how the GetOperationFunc answers for a proposal entry
const (
	GetOK        = "ok"
	GetNotFound  = "notfound"  // ErrOperationNotFoundInProcessor -> ignored
	GetProcessed = "processed" // ErrOperationAlreadyProcessedInProcessor -> ignored
	GetInvalid   = "invalid"   // ErrInvalidOperationInProcessor -> not-in-state node with reason
)

type Op struct {
	Kind string // join candidate disjoin expel policy
	Op   base.Operation
	Get  string
	Note string // generator's label (distribution only)
}

type Case struct {
	Height    base.Height
	K         int // threshold in tenths
	Lifespan  base.Height
	SufHeight base.Height
	Members   []Member
	HasCands  bool
	Cands     []Cand
	Policy    isaac.NetworkPolicy
	Ops       []Op // the proposal's operations, proposal order
	Expels    []Op // operations of the INIT expel voteproof (given order; the voteproof sorts them)

	// built by Prepare
	sufst, candst, polst base.State
	prevManifest         base.Manifest
}

func ThresholdOf(k int) base.Threshold {
	var t base.Threshold
	if err := t.UnmarshalText([]byte(fmt.Sprintf("%d.%d", k/10, k%10))); err != nil {
		panic(err)
	}
	return t
}

func fixedHash(s string) util.Hash { return valuehash.NewSHA256([]byte(s)) }

// Prepare builds the prior states (fixed hashes: nothing random, nothing time dependent).
func (c *Case) Prepare() {
	nodes := make([]base.SuffrageNodeStateValue, len(c.Members))
	for i, m := range c.Members {
		nodes[i] = isaac.NewSuffrageNodeStateValue(isaac.NewNode(m.Pub(), m.Addr), m.Start)
	}
	c.sufst = base.NewBaseState(c.Height-1, isaac.SuffrageStateKey,
		isaac.NewSuffrageNodesStateValue(c.SufHeight, nodes), fixedHash("prev-suf"), []util.Hash{fixedHash("op-suf")})
	if c.HasCands {
		cs := make([]base.SuffrageCandidateStateValue, len(c.Cands))
		for i, x := range c.Cands {
			cs[i] = isaac.NewSuffrageCandidateStateValue(isaac.NewNode(x.Pub, x.Addr), x.Start, x.Deadline)
		}
		c.candst = base.NewBaseState(c.Height-1, isaac.SuffrageCandidateStateKey,
			isaac.NewSuffrageCandidatesStateValue(cs), fixedHash("prev-cand"), []util.Hash{fixedHash("op-cand")})
	}
	c.polst = base.NewBaseState(c.Height-1, isaac.NetworkPolicyStateKey,
		isaac.NewNetworkPolicyStateValue(c.Policy), fixedHash("prev-pol"), []util.Hash{fixedHash("op-pol")})
	c.prevManifest = isaac.NewManifest(c.Height-1, fixedHash("prev-prev"), fixedHash("prev-proposal"), nil, nil,
		c.sufst.Hash(), time.Unix(1700000000, 0).UTC())
}

func (c *Case) PriorState(key string) (base.State, bool) {
	switch key {
	case isaac.SuffrageStateKey:
		return c.sufst, true
	case isaac.SuffrageCandidateStateKey:
		if c.candst == nil {
			return nil, false
		}
		return c.candst, true
	case isaac.NetworkPolicyStateKey:
		return c.polst, true
	}
	return nil, false
}

// ---------------------------------------------------------------- recording back ends

type recFS struct {
	mu       sync.Mutex
	opstree  *fixedtree.Tree
	ststree  *fixedtree.Tree
	states   map[uint64]base.State
	opsInFS  map[uint64]base.Operation
	manifest base.Manifest
	noise    func(string)
}

func (f *recFS) SetProposal(context.Context, base.ProposalSignFact) error { return nil }
func (f *recFS) SetOperation(_ context.Context, _, index uint64, op base.Operation) error {
	f.noise("fs-op")
	f.mu.Lock()
	defer f.mu.Unlock()
	f.opsInFS[index] = op
	return nil
}
func (f *recFS) SetOperationsTree(_ context.Context, tr fixedtree.Tree) error {
	f.opstree = &tr
	return nil
}
func (f *recFS) SetState(_ context.Context, _, index uint64, st base.State) error {
	f.noise("fs-st")
	f.mu.Lock()
	defer f.mu.Unlock()
	f.states[index] = st
	return nil
}
func (f *recFS) SetStatesTree(_ context.Context, tr fixedtree.Tree) error {
	f.ststree = &tr
	return nil
}
func (f *recFS) SetManifest(_ context.Context, m base.Manifest) error {
	f.mu.Lock()
	defer f.mu.Unlock()
	f.manifest = m
	return nil
}
func (f *recFS) SetINITVoteproof(context.Context, base.INITVoteproof) error     { return nil }
func (f *recFS) SetACCEPTVoteproof(context.Context, base.ACCEPTVoteproof) error { return nil }
func (f *recFS) Save(context.Context) (base.BlockMap, error)                    { return nil, nil }
func (f *recFS) Cancel() error                                                  { return nil }

type recDB struct {
	mu     sync.Mutex
	ops    []util.Hash
	states []base.State
}

func (d *recDB) Close() error                     { return nil }
func (d *recDB) Cancel() error                    { return nil }
func (d *recDB) BlockMap() (base.BlockMap, error) { return nil, nil }
func (d *recDB) SetBlockMap(base.BlockMap) error  { return nil }
func (d *recDB) SetStates(sts []base.State) error {
	d.mu.Lock()
	defer d.mu.Unlock()
	d.states = append(d.states, sts...)
	return nil
}
func (d *recDB) SetOperations(ops []util.Hash) error {
	d.mu.Lock()
	defer d.mu.Unlock()
	d.ops = append(d.ops, ops...)
	return nil
}
func (d *recDB) SetSuffrageProof(base.SuffrageProof) error { return nil }
func (d *recDB) SuffrageState() base.State                 { return nil }
func (d *recDB) NetworkPolicy() base.NetworkPolicy         { return nil }
func (d *recDB) Write() error                              { return nil }
func (d *recDB) TempDatabase() (isaac.TempDatabase, error) {
	return nil, errors.Errorf("not supported")
}

// noisyProcessor delays Process (never PreProcess): perturbs the completion order of the worker jobs
type noisyProcessor struct {
	base.OperationProcessor
	noise func(string)
	done  func(string)
}

func (p noisyProcessor) Process(ctx context.Context, op base.Operation, gs base.GetStateFunc) (
	[]base.StateMergeValue, base.OperationProcessReasonError, error,
) {
	p.noise("process-" + op.Fact().Hash().String())
	r, re, err := p.OperationProcessor.Process(ctx, op, gs)
	p.done(op.Fact().Hash().String())
	p.noise("processed-" + op.Fact().Hash().String())
	return r, re, err
}

// ---------------------------------------------------------------- run

type Sched struct {
	Workers int64
	Noise   uint64 // 0 = none; else seed of the delay pattern
}

type NodeObs struct {
	Addr, Pub string
	Start     int64
}
type CandObs struct {
	Addr, Pub       string
	Start, Deadline int64
}

type Obs struct {
	Err          string
	ManifestHash string
	OpsRoot      string
	StatesRoot   string
	SuffrageHash string
	// per proposal entry (proposal operations, then the voteproof's expels in Expels() order):
	// 0 = no slot in the operations tree, 1 = not in state, 2 = in state
	Slots     []int
	LeafEntry []int // the proposal entry each leaf of the operations tree belongs to
	// the order in which the Process calls of the worker jobs finished (schedule dependent)
	ProcessOrder []string
	OpsLeafs     []string // leaves of the operations tree in index order: key + "|" + reason
	StLeafs      []string // leaves of the states tree in index order
	StKeys       []string // state key at each index of the states tree
	// resulting values
	SufChanged   bool
	SufHeight    int64
	SufNodes     []NodeObs
	SufOps       []int
	CandChanged  bool
	Cands        []CandObs
	CandOps      []int
	PolChanged   bool
	PolicyBytes  string
	PolOps       []int
	ExpelOrder   []int // Expels()[i] = c.Expels[ExpelOrder[i]]
	SufStateHash string
	SufErr       string // error of SuffrageNodesStateValue.Suffrage() (isaac.NewSuffrage) on the new value
}

// NewProposal builds (and signs) the proposal carrying the case's operations in the given order.  Its
// ProposedAt is the wall clock: runs that must produce the same manifest share one proposal.
func (c *Case) NewProposal(order []int) base.ProposalSignFact {
	ophs := make([][2]util.Hash, len(order))
	for i, j := range order {
		ophs[i] = [2]util.Hash{c.Ops[j].Op.Hash(), c.Ops[j].Op.Fact().Hash()}
	}
	point := base.RawPoint(int64(c.Height), 0)
	fact := isaac.NewProposalFact(point, c.Members[0].Addr, c.prevManifest.Hash(), ophs)
	pr := isaac.NewProposalSignFact(fact)
	if err := pr.Sign(c.Members[0].Priv, NetworkID); err != nil {
		panic(err)
	}
	return pr
}

// Run processes the case once with the given proposal-operation order.
func (c *Case) Run(order []int, sc Sched) Obs { return c.RunProposal(c.NewProposal(order), order, sc) }

// RunProposal processes the given proposal (made by NewProposal(order)) once under the schedule sc.
func (c *Case) RunProposal(pr base.ProposalSignFact, order []int, sc Sched) (obs Obs) {
	defer func() {
		if r := recover(); r != nil {
			obs.Err = fmt.Sprintf("panic: %v", r)
		}
	}()

	noise := func(string) {}
	if sc.Noise != 0 {
		noise = func(tag string) {
			h := sc.Noise
			for _, b := range []byte(tag) {
				h = (h ^ uint64(b)) * 0x100000001b3
			}
			h ^= h >> 29
			switch h % 5 {
			case 0:
			case 1:
				runtime.Gosched()
			case 2:
				time.Sleep(time.Duration(h%97) * time.Microsecond)
			case 3:
				time.Sleep(time.Duration(h%397) * time.Microsecond)
			default:
				for i := uint64(0); i < h%4; i++ {
					runtime.Gosched()
				}
			}
		}
	}

	ops := make([]Op, len(order))
	for i, j := range order {
		ops[i] = c.Ops[j]
	}
	byhash := map[string]Op{}
	for _, o := range ops {
		byhash[o.Op.Hash().String()] = o
	}

	point := base.RawPoint(int64(c.Height), 0)

	var ivp base.INITVoteproof
	var expelops []base.SuffrageExpelOperation
	if len(c.Expels) > 0 {
		es := make([]base.SuffrageExpelOperation, len(c.Expels))
		for i := range c.Expels {
			es[i] = c.Expels[i].Op.(base.SuffrageExpelOperation)
		}
		evp := isaac.NewINITExpelVoteproof(point)
		evp.SetExpels(es)
		expelops = evp.Expels()
		for _, e := range expelops {
			for j := range c.Expels {
				if c.Expels[j].Op.Hash().Equal(e.Hash()) {
					obs.ExpelOrder = append(obs.ExpelOrder, j)
					break
				}
			}
		}
		ivp = evp
	} else {
		ivp = isaac.NewINITVoteproof(point)
	}

	getState := func(key string) (base.State, bool, error) {
		noise("state-" + key)
		st, found := c.PriorState(key)
		return st, found, nil
	}

	var domu sync.Mutex
	done := func(h string) {
		domu.Lock()
		obs.ProcessOrder = append(obs.ProcessOrder, h[:6])
		domu.Unlock()
	}
	fs := &recFS{states: map[uint64]base.State{}, opsInFS: map[uint64]base.Operation{}, noise: noise}
	db := &recDB{}
	var writer *isaacblock.Writer

	args := isaac.NewDefaultProposalProcessorArgs()
	args.MaxWorkerSize = sc.Workers
	args.GetStateFunc = getState
	args.GetOperationFunc = func(_ context.Context, oph, _ util.Hash) (base.Operation, error) {
		noise("getop-" + oph.String())
		o, ok := byhash[oph.String()]
		if !ok {
			return nil, isaac.ErrOperationNotFoundInProcessor.Errorf("unknown")
		}
		switch o.Get {
		case GetNotFound:
			return nil, isaac.ErrOperationNotFoundInProcessor.Errorf("not found")
		case GetProcessed:
			return nil, isaac.ErrOperationAlreadyProcessedInProcessor.Errorf("known")
		case GetInvalid:
			return nil, isaac.ErrInvalidOperationInProcessor.Errorf("invalid operation")
		}
		return o.Op, nil
	}
	threshold := ThresholdOf(c.K)
	args.NewOperationProcessorFunc = func(height base.Height, ht hint.Hint, gs base.GetStateFunc) (base.OperationProcessor, error) {
		var p base.OperationProcessor
		var err error
		switch ht.Type() {
		case isaacoperation.SuffrageCandidateHint.Type():
			p, err = isaacoperation.NewSuffrageCandidateProcessor(height, gs, nil, nil, c.Lifespan)
		case isaacoperation.SuffrageJoinHint.Type():
			p, err = isaacoperation.NewSuffrageJoinProcessor(height, threshold, gs, nil, nil)
		case isaac.SuffrageExpelOperationHint.Type():
			p, err = isaacoperation.NewSuffrageExpelProcessor(height, gs, nil, nil)
		case isaacoperation.SuffrageDisjoinHint.Type():
			p, err = isaacoperation.NewSuffrageDisjoinProcessor(height, gs, nil, nil)
		case isaacoperation.NetworkPolicyHint.Type():
			p, err = isaacoperation.NewNetworkPolicyProcessor(height, threshold, gs, nil, nil)
		default:
			return nil, nil
		}
		if err != nil {
			return nil, err
		}
		return noisyProcessor{OperationProcessor: p, noise: noise, done: done}, nil
	}
	args.NewWriterFunc = func(proposal base.ProposalSignFact, gs base.GetStateFunc) (isaac.BlockWriter, error) {
		writer = isaacblock.NewWriter(proposal, gs, db, func(isaac.BlockWriteDatabase) error { return nil }, fs, sc.Workers)
		return writer, nil
	}

	pp, err := isaac.NewDefaultProposalProcessor(pr, c.prevManifest, args)
	if err != nil {
		obs.Err = "new: " + err.Error()
		return obs
	}
	defer func() { _ = pp.Cancel() }()

	ctx, cancel := context.WithTimeout(context.Background(), 120*time.Second)
	defer cancel()

	manifest, err := pp.Process(ctx, ivp)
	if err != nil {
		obs.Err = "process: " + err.Error()
		if writer != nil {
			_ = writer.Cancel()
		}
		return obs
	}
	obs.ManifestHash = manifest.Hash().String()
	obs.OpsRoot = hs(manifest.OperationsTree())
	obs.StatesRoot = hs(manifest.StatesTree())
	obs.SuffrageHash = hs(manifest.Suffrage())

	avp := isaac.NewACCEPTVoteproof(point)
	avp.SetMajority(isaac.NewACCEPTBallotFact(point, pr.Fact().Hash(), manifest.Hash(), nil))
	if _, err := pp.Save(ctx, avp); err != nil {
		obs.Err = "save: " + err.Error()
		return obs
	}

	// ---- operations tree
	nops := len(ops) + len(expelops)
	entryFact := make([]string, nops)
	for i := range ops {
		entryFact[i] = ops[i].Op.Fact().Hash().String()
	}
	for i := range expelops {
		entryFact[len(ops)+i] = expelops[i].Fact().Hash().String()
	}
	obs.Slots = make([]int, nops)
	// entries DefaultProposalProcessor.getOperation drops by contract (no result, no slot): not candidates when the
	// leaves are matched to entries by fact hash (an expel wrongly placed in the proposal can carry the same fact
	// as an expel of the voteproof: the token of an expel fact is node+start+end)
	skipped := make([]bool, nops)
	for i := range ops {
		_, isexpel := ops[i].Op.Fact().(isaac.SuffrageExpelFact)
		skipped[i] = isexpel || ops[i].Get == GetNotFound || ops[i].Get == GetProcessed
	}
	if fs.opstree != nil {
		// the tree is the compaction of the per-entry slots: leaf j belongs to the j-th entry that has a slot.
		// match leaves to entries greedily in order by fact hash (entries without a slot are skipped).
		leaves := fs.opstree.Nodes()
		e := 0
		for _, n := range leaves {
			on, ok := n.(base.OperationFixedtreeNode)
			if !ok {
				obs.Err = fmt.Sprintf("unexpected operations tree node %T", n)
				return obs
			}
			reason := ""
			if on.Reason() != nil {
				reason = on.Reason().Msg()
			}
			obs.OpsLeafs = append(obs.OpsLeafs, on.Key()+"|"+reason)
			fh := on.Operation().String()
			for e < nops && (entryFact[e] != fh || skipped[e]) {
				e++
			}
			if e >= nops {
				obs.Err = "operations tree leaf does not follow the proposal order: " + on.Key()
				return obs
			}
			obs.LeafEntry = append(obs.LeafEntry, e)
			if on.InState() {
				obs.Slots[e] = 2
			} else {
				obs.Slots[e] = 1
			}
			e++
		}
	}

	// ---- states
	if fs.ststree != nil {
		for _, n := range fs.ststree.Nodes() {
			obs.StLeafs = append(obs.StLeafs, n.Key())
		}
	}
	idxs := make([]int, 0, len(fs.states))
	for i := range fs.states {
		idxs = append(idxs, int(i))
	}
	sort.Ints(idxs)
	factIndex := func(hashes []util.Hash) []int {
		var out []int
		for _, h := range hashes {
			for e := 0; e < nops; e++ {
				if entryFact[e] == h.String() && obs.Slots[e] == 2 {
					out = append(out, e)
				}
			}
		}
		sort.Ints(out)
		return out
	}
	for _, i := range idxs {
		st := fs.states[uint64(i)]
		obs.StKeys = append(obs.StKeys, st.Key())
		switch st.Key() {
		case isaac.SuffrageStateKey:
			v := st.Value().(base.SuffrageNodesStateValue)
			obs.SufChanged = true
			obs.SufHeight = int64(v.Height())
			for _, n := range v.Nodes() {
				obs.SufNodes = append(obs.SufNodes, NodeObs{n.Address().String(), n.Publickey().String(), int64(n.Start())})
			}
			obs.SufOps = factIndex(st.Operations())
			obs.SufStateHash = st.Hash().String()
			if len(v.Nodes()) > 0 {
				if _, err := v.Suffrage(); err != nil {
					obs.SufErr = err.Error()
				}
			}
		case isaac.SuffrageCandidateStateKey:
			v := st.Value().(base.SuffrageCandidatesStateValue)
			obs.CandChanged = true
			for _, n := range v.Nodes() {
				obs.Cands = append(obs.Cands, CandObs{n.Address().String(), n.Publickey().String(), int64(n.Start()), int64(n.Deadline())})
			}
			obs.CandOps = factIndex(st.Operations())
		case isaac.NetworkPolicyStateKey:
			v := st.Value().(base.NetworkPolicyStateValue)
			obs.PolChanged = true
			obs.PolicyBytes = string(v.Policy().HashBytes())
			obs.PolOps = factIndex(st.Operations())
		}
	}
	return obs
}

func hs(h util.Hash) string {
	if h == nil {
		return ""
	}
	return h.String()
}

// Identity returns the identity permutation of the proposal operations.
func (c *Case) Identity() []int {
	p := make([]int, len(c.Ops))
	for i := range p {
		p[i] = i
	}
	return p
}
