// c17: suffrage changes preserve suffrage well-formedness.
//
// Every case is a random prior suffrage / candidates / policy state and a random block of join,
// candidate, disjoin, expel and network-policy operations (real keys, real signatures), processed by the
// real isaac.DefaultProposalProcessor + isaacblock.Writer + the real processors of isaac/operation (see
// sim/).  The property's statement is evaluated on the result (oracle, independent of the Coq model), the
// same block is re-processed in random operation orders (order independence), and the case with the
// observed outcome is written for the Coq model (correspondence).  base.CheckFactSignsBySuffrage is also
// exercised directly on suffrages of up to 300 nodes around the threshold boundary.
package main

import (
	"fmt"
	"sort"
	"time"

	"github.com/spikeekips/mitum/base"
	"github.com/spikeekips/mitum/isaac"
	isaacoperation "github.com/spikeekips/mitum/isaac/operation"
	"verifharness/cmd/c17/sim"
	"verifharness/vh"
)

type replay struct {
	Seed  uint64 `json:"seed"`
	Tier  string `json:"tier"`
	Case  int    `json:"case"`
	Order []int  `json:"order,omitempty"`
	What  string `json:"what,omitempty"`
}

type failure struct{ class, desc string }

func verifies(s base.Sign, fact base.Fact) bool {
	ns, ok := s.(base.NodeSign)
	if !ok {
		return false
	}
	return ns.Verify(sim.NetworkID, fact.Hash().Bytes()) == nil
}

// oracle: the statement of C17 on the implementation's observables.
func oracle(c *sim.Case, order []int, obs *sim.Obs) (fs []failure) {
	if obs.Err != "" {
		if c.AllSkipped() {
			return nil // Writer.Manifest refuses a proposal none of whose operations got a slot ("empty nodes"): no block, no suffrage change
		}
		return []failure{{"process-error", obs.Err}}
	}
	entries := make([]sim.Op, 0, len(order)+len(obs.ExpelOrder))
	for _, j := range order {
		entries = append(entries, c.Ops[j])
	}
	for _, j := range obs.ExpelOrder {
		entries = append(entries, c.Expels[j])
	}
	prior := map[string]sim.Member{}
	for _, m := range c.Members {
		prior[m.Addr.String()] = m
	}
	// which in-state entries touch the suffrage
	sufops := 0
	for e, o := range entries {
		if obs.Slots[e] != 2 {
			continue
		}
		switch f := o.Op.Fact().(type) {
		case isaacoperation.SuffrageJoinFact:
			sufops++
			if _, in := prior[f.Candidate().String()]; in {
				fs = append(fs, failure{"join-of-member-accepted", f.Candidate().String()})
			}
		case isaacoperation.SuffrageDisjoinFact:
			sufops++
			if _, in := prior[f.Node().String()]; !in {
				fs = append(fs, failure{"disjoin-of-non-member-accepted", f.Node().String()})
			}
		case isaac.SuffrageExpelFact:
			sufops++
			if _, in := prior[f.Node().String()]; !in {
				fs = append(fs, failure{"expel-of-non-member-accepted", f.Node().String()})
			}
		}
	}
	// height + 1, exactly when a suffrage operation went into the state
	switch {
	case sufops > 0 && !obs.SufChanged:
		fs = append(fs, failure{"suffrage-not-updated", fmt.Sprintf("%d suffrage operations in state but no new suffrage state", sufops)})
	case sufops == 0 && obs.SufChanged:
		fs = append(fs, failure{"suffrage-updated-without-operation", "new suffrage state without an accepted suffrage operation"})
	case obs.SufChanged && obs.SufHeight != int64(c.SufHeight)+1:
		fs = append(fs, failure{"suffrage-height-not-plus-one", fmt.Sprintf("%d -> %d", c.SufHeight, obs.SufHeight)})
	}
	if !obs.SufChanged {
		return fs
	}
	// the real constructor accepts the new value (it refuses duplicated addresses)
	if obs.SufErr != "" {
		fs = append(fs, failure{"new-suffrage-refused-by-NewSuffrage", obs.SufErr})
	}
	// unique members
	seen := map[string]bool{}
	for _, n := range obs.SufNodes {
		if seen[n.Addr] {
			fs = append(fs, failure{"duplicate-member", n.Addr})
		}
		seen[n.Addr] = true
	}
	// joined only if ...
	n := len(c.Members)
	for _, nn := range obs.SufNodes {
		if m, in := prior[nn.Addr]; in {
			if m.Pub().String() != nn.Pub || int64(m.Start) != nn.Start {
				fs = append(fs, failure{"member-changed", nn.Addr})
			}
			continue
		}
		ok := false
		why := "no accepted join operation"
		for e, o := range entries {
			f, isjoin := o.Op.Fact().(isaacoperation.SuffrageJoinFact)
			if !isjoin || obs.Slots[e] != 2 || f.Candidate().String() != nn.Addr {
				continue
			}
			// an unexpired registered candidate with the joined key
			registered := false
			for _, cd := range c.Cands {
				if c.HasCands && cd.Addr.String() == nn.Addr && cd.Deadline >= c.Height && cd.Pub.String() == nn.Pub {
					registered = true
				}
			}
			if !registered {
				why = "not an unexpired registered candidate (with that key)"
				continue
			}
			self := false
			members := map[string]bool{}
			for _, s := range o.Op.Signs() {
				ns := s.(base.NodeSign)
				if ns.Node().String() == nn.Addr && ns.Signer().String() == nn.Pub && verifies(s, o.Op.Fact()) {
					self = true
				}
				if m, in := prior[ns.Node().String()]; in && m.Pub().Equal(ns.Signer()) && verifies(s, o.Op.Fact()) {
					members[ns.Node().String()] = true
				}
			}
			switch {
			case !self:
				why = "not signed by the candidate's registered key"
			case len(members)*1000 < c.K*n:
				why = fmt.Sprintf("signed by %d distinct members of %d, threshold %d.%d%%", len(members), n, c.K/10, c.K%10)
			default:
				ok = true
			}
			if ok {
				break
			}
		}
		if !ok {
			fs = append(fs, failure{"joined-without-requirements", nn.Addr + ": " + why})
		}
	}
	// left only by an accepted disjoin (signed with the node's key) or expel of that member
	for a, m := range prior {
		if seen[a] {
			continue
		}
		ok := false
		for e, o := range entries {
			if obs.Slots[e] != 2 {
				continue
			}
			switch f := o.Op.Fact().(type) {
			case isaacoperation.SuffrageDisjoinFact:
				if f.Node().String() == a {
					for _, s := range o.Op.Signs() {
						if s.Signer().Equal(m.Pub()) && verifies(s, o.Op.Fact()) {
							ok = true
						}
					}
				}
			case isaac.SuffrageExpelFact:
				if f.Node().String() == a && f.ExpelStart() <= c.Height && c.Height <= f.ExpelEnd() {
					ok = true
				}
			}
		}
		if !ok {
			fs = append(fs, failure{"member-removed-without-operation", a})
		}
	}
	return fs
}

func sufKey(o *sim.Obs) string {
	if o.Err != "" {
		return "err:" + o.Err
	}
	if !o.SufChanged {
		return "unchanged"
	}
	s := fmt.Sprintf("h=%d", o.SufHeight)
	for _, n := range o.SufNodes {
		s += fmt.Sprintf(";%s/%s/%d", n.Addr, n.Pub, n.Start)
	}
	return s
}

func main() {
	o := vh.ParseFlags()
	res := vh.NewResult("random prior suffrage (1..13 members) / candidates (live, deadline=height, expired, absent) / policy and blocks of 1..16 join/candidate/disjoin/expel/policy operations with member-sign counts at threshold-1/threshold/threshold+1, foreign keys, outsiders, wrong starts, repeats and conflicting operations on one node, each re-run in random operation orders; non-trivial = at least one operation went into the state")
	var rp *replay
	if o.Replay != "" {
		rp = &replay{}
		if err := vh.ReadReplay(o.Replay, rp); err != nil {
			panic(err)
		}
		if rp.Seed != 0 {
			o.Seed = rp.Seed
		}
		if rp.Tier != "" {
			o.Tier = rp.Tier
		}
	}
	r := vh.NewRand(o.Seed)
	g := sim.NewGen(r)
	cases := &vh.Cases{Import: "From MV Require Import C17.Model.", Type: "tcase", CheckFn: "check", Shard: o.Pick(250, 500)}

	// ---------------------------------------------------------------- base.CheckFactSignsBySuffrage alone
	if rp != nil && rp.Case < 0 && len(rp.Order) == 3 {
		replayRatio(rp.Order[0], rp.Order[1], rp.Order[2])
	}
	ratioCases(o, r, res, cases)

	// ---------------------------------------------------------------- API: duplicate node signs cannot be built
	apiChecks(g, res)

	// ---------------------------------------------------------------- blocks
	// phase 1 (sequential, all randomness): cases, orders, worker sizes; phase 2 (parallel): the runs;
	// phase 3 (sequential): oracle, order comparison, model cases.
	nblocks := o.Pick(350, 5000)
	t0 := time.Now()
	type job struct {
		c      *sim.Case
		orders [][]int
		sched  []sim.Sched
		obs    []sim.Obs
	}
	corpus := g.Corpus()
	nblocks += len(corpus)
	jobs := make([]*job, nblocks)
	for ci := range jobs {
		var c *sim.Case
		if ci < len(corpus) {
			c = corpus[ci]
		} else {
			c = g.RandomCase(res, false)
		}
		j := &job{c: c, orders: [][]int{c.Identity()}}
		if len(c.Ops) > 1 {
			j.orders = append(j.orders, r.Perm(len(c.Ops)))
			rev := make([]int, len(c.Ops)) // reversal: the order most likely to flip "first wins" decisions
			for i := range rev {
				rev[i] = len(c.Ops) - 1 - i
			}
			j.orders = append(j.orders, rev)
		}
		for range j.orders {
			j.sched = append(j.sched, sim.Sched{Workers: int64(1 + r.Intn(8))})
		}
		j.obs = make([]sim.Obs, len(j.orders))
		jobs[ci] = j
	}
	tgen := time.Since(t0)
	vh.Parallel(len(jobs), 6, func(ci int) {
		j := jobs[ci]
		for k := range j.orders {
			j.obs[k] = j.c.Run(j.orders[k], j.sched[k])
		}
	})
	for ci, j := range jobs {
		c, order, obs := j.c, j.orders[0], &j.obs[0]
		nm := c.Names()
		verbose := rp != nil && rp.Case == ci
		if verbose {
			fmt.Printf("case %d\n env  = %s\n ops  = %s\n impl = %s\n err=%q\n", ci, c.CoqEnv(nm), c.CoqOps(nm, order, obs.ExpelOrder), obs.CoqOutcome(nm), obs.Err)
		}
		instate := 0
		for _, s := range obs.Slots {
			if s == 2 {
				instate++
			}
		}
		res.Count(fmt.Sprintf("b%d", ci), instate > 0)
		if obs.SufChanged {
			res.Dist("suffrage-changed")
		} else {
			res.Dist("suffrage-unchanged")
		}
		for _, f := range oracle(c, order, obs) {
			res.Fail(f.class, fmt.Sprintf("case %d: %s", ci, f.desc), replay{o.Seed, o.Tier, ci, nil, f.desc})
			if verbose {
				fmt.Printf(" ORACLE FAIL %s: %s\n", f.class, f.desc)
			}
		}
		cases.Add(fmt.Sprintf("CBlock %s %s %s", c.CoqEnv(nm), c.CoqOps(nm, order, obs.ExpelOrder), obs.CoqOutcome(nm)), c.Describe(nm, order, obs))
		if ci < 3 {
			res.Sample(c.Describe(nm, order, obs))
		}
		// order independence: the same operations in other orders give the same suffrage
		for k := 1; k < len(j.orders); k++ {
			perm, obs2 := j.orders[k], &j.obs[k]
			res.Evaluations++
			for _, f := range oracle(c, perm, obs2) {
				res.Fail(f.class, fmt.Sprintf("case %d (permuted): %s", ci, f.desc), replay{o.Seed, o.Tier, ci, perm, f.desc})
			}
			if a, b := sufKey(obs), sufKey(obs2); a != b {
				res.Fail("suffrage-depends-on-operation-order", fmt.Sprintf("case %d: order %v gives %s, proposal order gives %s", ci, perm, b, a), replay{o.Seed, o.Tier, ci, perm, "order"})
				if verbose {
					fmt.Printf(" ORDER DEPENDENT: %v\n  %s\n  %s\n", perm, a, b)
				}
			}
			if k == 1 && ci%3 == 0 {
				cases.Add(fmt.Sprintf("CBlock %s %s %s", c.CoqEnv(nm), c.CoqOps(nm, perm, obs2.ExpelOrder), obs2.CoqOutcome(nm)), c.Describe(nm, perm, obs2))
			}
		}
	}
	res.Note(fmt.Sprintf("blocks: %d in %.1fs (generate+sign %.1fs)", nblocks, time.Since(t0).Seconds(), tgen.Seconds()))
	res.ModelCases = cases.Len()
	if err := cases.Write(o.Out); err != nil {
		panic(err)
	}
	res.Write(o.Out)
}

// replayRatio prints CheckFactSignsBySuffrage for s counted signs of n nodes at threshold k/10
func replayRatio(s, n, k int) {
	g := sim.NewGen(vh.NewRand(7))
	ids := make([]base.Node, n)
	for i := range ids {
		id := g.NewIdentForRatio()
		ids[i] = isaac.NewNode(id.Pub(), id.Addr)
	}
	suf, err := isaac.NewSuffrage(ids)
	if err != nil {
		panic(err)
	}
	signs := make([]base.NodeSign, s)
	for i := range signs {
		signs[i] = base.NewBaseNodeSign(ids[i].Address(), ids[i].Publickey(), base.Signature("x"), time.Unix(1700000000, 0))
	}
	err = base.CheckFactSignsBySuffrage(suf, sim.ThresholdOf(k), signs)
	fmt.Printf("CheckFactSignsBySuffrage(%d member signs of %d nodes, threshold %d.%d) = %v ; exact: %d*1000 >= %d*%d is %v\n", s, n, k/10, k%10, err, s, k, n, s*1000 >= k*n)
}

// ratioCases: CheckFactSignsBySuffrage(suf, t, signs) on real suffrages of n nodes with s counted signs.
func ratioCases(o *vh.Opts, r *vh.Rand, res *vh.Result, cases *vh.Cases) {
	const maxN = 300
	g := sim.NewGen(vh.NewRand(o.Seed ^ 0x5151))
	ids := make([]base.Node, maxN)
	for i := range ids {
		id := g.NewIdentForRatio()
		ids[i] = isaac.NewNode(id.Pub(), id.Addr)
	}
	other := g.NewIdentForRatio()
	now := time.Unix(1700000000, 0)
	one := func(n, s, k int, extra bool) {
		suf, err := isaac.NewSuffrage(ids[:n])
		if err != nil {
			panic(err)
		}
		signs := make([]base.NodeSign, 0, s+2)
		for i := 0; i < s; i++ {
			signs = append(signs, base.NewBaseNodeSign(ids[i].Address(), ids[i].Publickey(), base.Signature("x"), now))
		}
		if extra {
			// signs that must not count: a member's address with a foreign key, a non-member
			if s < n {
				signs = append(signs, base.NewBaseNodeSign(ids[s].Address(), other.Pub(), base.Signature("x"), now))
			}
			signs = append(signs, base.NewBaseNodeSign(other.Addr, other.Pub(), base.Signature("x"), now))
		}
		rejected := base.CheckFactSignsBySuffrage(suf, sim.ThresholdOf(k), signs) != nil
		res.Evaluations++
		// oracle (only-if direction of the property): accepted => s*1000 >= k*n, exactly
		if !rejected && s*1000 < k*n {
			res.Fail("signs-below-threshold-accepted", fmt.Sprintf("CheckFactSignsBySuffrage accepts %d of %d at threshold %d.%d", s, n, k/10, k%10), replay{o.Seed, o.Tier, -1, []int{s, n, k}, "ratio"})
		}
		if rejected && s*1000 >= k*n {
			res.Dist("ratio:false-rejection(float)") // e.g. 57 of 100 at 57.0: allowed by the property (only-if), noted
		}
		cases.Add(fmt.Sprintf("CRatio %s %s %s %s", vh.Z(int64(s)), vh.Z(int64(n)), vh.Z(int64(k)), vh.Bool(rejected)),
			map[string]any{"ratio": []int{s, n, k}, "rejected": rejected})
	}
	// corpus: the float false rejection, exact boundaries
	for _, c := range [][3]int{{57, 100, 570}, {58, 100, 570}, {56, 100, 570}, {2, 3, 667}, {2, 3, 666}, {67, 100, 670}, {66, 100, 670},
		{1, 1, 1000}, {0, 1, 510}, {51, 100, 510}, {50, 100, 510}, {300, 300, 1000}, {299, 300, 1000}, {7, 12, 583}, {7, 12, 584}} {
		one(c[1], c[0], c[2], false)
	}
	nr := o.Pick(900, 15000)
	for i := 0; i < nr; i++ {
		n := 1 + r.Intn(maxN)
		if r.Chance(1, 2) {
			n = 1 + r.Intn(30)
		}
		k := r.Range(510, 1000)
		q := (k*n + 999) / 1000
		s := q
		switch r.Intn(6) {
		case 0:
			s = q - 1
		case 1:
			s = q + 1
		case 2:
			s = r.Intn(n + 1)
		case 3:
			// make s/n*100 hit the threshold exactly when possible
			if (k*n)%1000 != 0 {
				k = (s * 1000) / n
				if k < 510 {
					k = 510
				}
				if k > 1000 {
					k = 1000
				}
			}
		}
		if s < 0 {
			s = 0
		}
		if s > n {
			s = n
		}
		if s*1000 == k*n {
			res.Dist("ratio:exactly-at-threshold")
		} else if s == q || s == q-1 {
			res.Dist("ratio:adjacent-to-threshold")
		} else {
			res.Dist("ratio:other")
		}
		one(n, s, k, r.Chance(1, 3))
	}
}

// apiChecks: the "distinct members" part of the statement rests on BaseNodeOperation never holding two
// signs of one node: every exported way to add signs must keep them distinct, and IsValid must refuse
// the rest.  (The processors count signs, not distinct signers.)
func apiChecks(g *sim.Gen, res *vh.Result) {
	a, b := g.NewIdentForRatio(), g.NewIdentForRatio()
	fact := isaacoperation.NewSuffrageJoinFact(base.Token("verif-api"), a.Addr, 3)
	op := isaacoperation.NewSuffrageJoin(fact)
	must := func(err error) {
		if err != nil {
			panic(err)
		}
	}
	must(op.NodeSign(a.Priv, sim.NetworkID, a.Addr))
	must(op.NodeSign(b.Priv, sim.NetworkID, b.Addr))
	must(op.NodeSign(b.Priv, sim.NetworkID, b.Addr)) // signing twice replaces
	res.Evaluations++
	if len(op.NodeSigns()) != 2 {
		res.Fail("duplicate-node-sign-constructible", fmt.Sprintf("NodeSign twice gives %d signs", len(op.NodeSigns())), replay{What: "api-nodesign"})
	}
	s2 := op.NodeSigns()
	added, err := op.AddNodeSigns([]base.NodeSign{s2[1]})
	res.Evaluations++
	if err != nil || added || len(op.NodeSigns()) != 2 {
		res.Fail("duplicate-node-sign-constructible", "AddNodeSigns added a sign of a node that already signed", replay{What: "api-addnodesigns"})
	}
	res.Evaluations++
	if err := op.SetNodeSigns([]base.NodeSign{s2[0], s2[1], s2[1]}); err == nil {
		res.Fail("duplicate-node-sign-constructible", "SetNodeSigns accepted duplicate signs", replay{What: "api-setnodesigns"})
	}
	res.Evaluations++
	if err := op.IsValid(sim.NetworkID); err != nil {
		res.Fail("valid-operation-refused", err.Error(), replay{What: "api-isvalid"})
	}
	sort.Ints(nil)
}
