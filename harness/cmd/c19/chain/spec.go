package chain

// Spec is the independent oracle: "a model that simply keeps all committed blocks".
// It is a plain slice of block descriptions (oldest first) plus the number of blocks already merged
// into the permanent store (needed only to know which heights RemoveBlocks may drop: the real
// RemoveBlocks only drops temp databases).
type Spec struct {
	Blocks []*Blk
	NPerm  int
}

func (s *Spec) top() *Blk {
	if len(s.Blocks) == 0 {
		return nil
	}
	return s.Blocks[len(s.Blocks)-1]
}

// Write: accepted iff the chain is empty or b.H = last+1.
func (s *Spec) Write(b *Blk) bool {
	if t := s.top(); t != nil && b.H != t.H+1 {
		return false
	}
	s.Blocks = append(s.Blocks, b)
	return true
}

// MergePerm: the oldest temp moves to the permanent store when at least two temps exist.
func (s *Spec) MergePerm() bool {
	if len(s.Blocks)-s.NPerm < 2 {
		return false
	}
	s.NPerm++
	return true
}

// Remove drops every block with height >= h when h is the height of a block not yet merged.
func (s *Spec) Remove(h int64) bool {
	for i := s.NPerm; i < len(s.Blocks); i++ {
		if s.Blocks[i].H == h {
			s.Blocks = s.Blocks[:i]
			return true
		}
	}
	return false
}

func (s *Spec) NTemps() int { return len(s.Blocks) - s.NPerm }

func (s *Spec) MaxSufHeight() int64 {
	m := int64(-1)
	for _, b := range s.Blocks {
		if b.Suf != nil && b.Suf.SH > m {
			m = b.Suf.SH
		}
	}
	return m
}

// ---- reads (every one is a scan over the committed blocks, newest first)

type SpecReader struct{ S *Spec }

func (r SpecReader) each(f func(b *Blk) bool) {
	for i := len(r.S.Blocks) - 1; i >= 0; i-- {
		if f(r.S.Blocks[i]) {
			return
		}
	}
}

func (r SpecReader) stateID(k int) int64 {
	res := ResNotFound
	r.each(func(b *Blk) bool {
		switch {
		case k == 0 && b.Suf != nil:
			res = int64(b.Suf.StateID)
		case k == 1 && b.Pol != nil:
			res = int64(b.Pol.StateID)
		default:
			for _, s := range b.States {
				if s.Key == k {
					res = int64(s.ID)
				}
			}
		}
		return res != ResNotFound
	})
	return res
}

func full(id int64) int64 {
	if id < 0 {
		return id
	}
	return id*4 + 3
}

func (r SpecReader) State(k int) int64      { return r.stateID(k) }
func (r SpecReader) StateBytes(k int) int64 { return full(r.stateID(k)) }

func (r SpecReader) Map(h int64) int64 {
	res := ResNotFound
	r.each(func(b *Blk) bool {
		if b.H == h {
			res = int64(b.MapID)
		}
		return res != ResNotFound
	})
	return res
}
func (r SpecReader) MapBytes(h int64) int64 { return full(r.Map(h)) }

func (r SpecReader) LastMap() int64 {
	if t := r.S.top(); t != nil {
		return int64(t.MapID)
	}
	return ResNotFound
}
func (r SpecReader) LastMapBytes() int64 { return full(r.LastMap()) }

func (r SpecReader) Suf(sh int64) int64 {
	res := ResNotFound
	r.each(func(b *Blk) bool {
		if b.Suf != nil && b.Suf.SH == sh {
			res = int64(b.Suf.ProofID)
		}
		return res != ResNotFound
	})
	return res
}
func (r SpecReader) SufBytes(sh int64) int64 { return full(r.Suf(sh)) }

// SufBH: the suffrage proof in force at block height h = the newest proof of a block with height <= h;
// nothing for heights above the last block; an error for negative heights.
func (r SpecReader) SufBH(h int64) int64 {
	if h < 0 {
		return ResErr
	}
	if t := r.S.top(); t == nil || h > t.H {
		return ResNotFound
	}
	res := ResNotFound
	r.each(func(b *Blk) bool {
		if b.H <= h && b.Suf != nil {
			res = int64(b.Suf.ProofID)
		}
		return res != ResNotFound
	})
	return res
}

func (r SpecReader) LastSuf() int64 {
	res := ResNotFound
	r.each(func(b *Blk) bool {
		if b.Suf != nil {
			res = int64(b.Suf.ProofID)
		}
		return res != ResNotFound
	})
	return res
}
func (r SpecReader) LastSufBytes() int64 { return full(r.LastSuf()) }

func (r SpecReader) Policy() int64 {
	res := ResNotFound
	r.each(func(b *Blk) bool {
		if b.Pol != nil {
			res = int64(b.Pol.PolID)
		}
		return res != ResNotFound
	})
	return res
}

func (r SpecReader) InState(o int) int64 {
	var res int64
	r.each(func(b *Blk) bool {
		for _, x := range b.InState {
			if x == o {
				res = 1
			}
		}
		return res == 1
	})
	return res
}

func (r SpecReader) Known(o int) int64 {
	var res int64
	r.each(func(b *Blk) bool {
		for _, x := range b.Known {
			if x == o {
				res = 1
			}
		}
		return res == 1
	})
	return res
}
