package chain

import (
	"bytes"
	"fmt"
	"io"
	"os"
	"os/exec"
	"strings"

	"verifharness/vh"
)

// goleveldbCloseSignature: the one crash that is NOT a verdict about the code under test -- a leftover reader
// job of Center.dig (C33: BaseJobWorker.Wait returns on cancel without waiting for running jobs) still inside
// goleveldb while the harness closes the storage. Quiesce() prevents it; should it still happen the whole run
// is retried in a fresh child. Every other crash of the child is reported as a failure of the property run.
func goleveldbCloseSignature(stderr string) bool {
	return strings.Contains(stderr, "cache.Value is nil, not *table.Reader") &&
		strings.Contains(stderr, "goleveldb/leveldb")
}

// Supervise re-executes the harness as a child process (so that a panic in a worker goroutine of the code under
// test is an observable, not a lost run). It returns in the child; in the parent it never returns.
func Supervise(o *vh.Opts, rule string) {
	if os.Getenv("VERIF_CHAIN_CHILD") == "1" {
		// test switch for the supervisor itself: the first child pretends to die of the goleveldb-close hazard
		if os.Getenv("VERIF_CHAIN_FAKE_HAZARD") == "1" && os.Getenv("VERIF_CHAIN_ATTEMPT") == "1" {
			fmt.Fprintln(os.Stderr, "panic: interface conversion: cache.Value is nil, not *table.Reader\n\tgithub.com/syndtr/goleveldb/leveldb/table.go:460 (faked)")
			os.Exit(2)
		}
		return
	}
	var tail string
	for attempt := 1; attempt <= 3; attempt++ {
		cmd := exec.Command(os.Args[0], os.Args[1:]...)
		cmd.Env = append(os.Environ(), "VERIF_CHAIN_CHILD=1", fmt.Sprintf("VERIF_CHAIN_ATTEMPT=%d", attempt))
		cmd.Stdout = os.Stdout
		var eb bytes.Buffer
		cmd.Stderr = io.MultiWriter(&limited{w: &eb, n: 1 << 20}, os.Stderr)
		err := cmd.Run()
		if err == nil {
			os.Exit(0)
		}
		tail = eb.String()
		if len(tail) > 6000 {
			tail = tail[:6000]
		}
		if goleveldbCloseSignature(tail) {
			fmt.Fprintf(os.Stderr, "chain.Supervise: attempt %d hit the goleveldb-close hazard (leftover dig job, see notes/C20.md); retrying in a fresh child\n", attempt)
			continue
		}
		break
	}
	// a genuine crash of the code under test (or three hazards in a row): report it as a failing run
	res := vh.NewResult(rule)
	class := "implementation-panic"
	if goleveldbCloseSignature(tail) {
		class = "goleveldb-close-hazard-persisted"
	}
	res.Fail(class, "the harness child process crashed while driving the implementation: "+firstLines(tail, 12), map[string]any{"seed": o.Seed, "tier": o.Tier, "stderr": tail})
	cases := &vh.Cases{Import: "From MV Require Import C19.Model.", Type: "case", CheckFn: "check"}
	_ = cases.Write(o.Out)
	res.Write(o.Out)
	os.Exit(0)
}

type limited struct {
	w io.Writer
	n int
}

func (l *limited) Write(p []byte) (int, error) {
	if l.n > 0 {
		q := p
		if len(q) > l.n {
			q = q[:l.n]
		}
		l.n -= len(q)
		_, _ = l.w.Write(q)
	}
	return len(p), nil
}

func firstLines(s string, n int) string {
	ls := strings.Split(s, "\n")
	if len(ls) > n {
		ls = ls[:n]
	}
	return strings.Join(ls, " | ")
}
