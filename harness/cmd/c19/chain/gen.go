package chain

import (
	"fmt"
	"os"
	"path/filepath"
	"regexp"
	"strconv"
	"strings"

	"verifharness/vh"
)

// Op is one step of a history.  T: "W" write block, "M" merge the oldest temp into the permanent store,
// "R" RemoveBlocks(H), "C" cleanRemoved(N), "O" close + reopen the storage (C20 only).
type Op struct {
	T     string `json:"t"`
	B     *Blk   `json:"b,omitempty"`
	H     int64  `json:"h,omitempty"`
	N     int    `json:"n,omitempty"`
	Cache int    `json:"cache,omitempty"` // size of the state cache given to the block write database (0 = none)
}

func (o Op) Coq() string {
	switch o.T {
	case "W":
		return "(Write " + o.B.Coq() + ")"
	case "M":
		return "MergePerm"
	case "R":
		return "(RemoveBlocks " + zz(o.H) + ")"
	case "C":
		return fmt.Sprintf("(CleanRemoved %d%%nat)", o.N)
	case "O":
		return "Reopen"
	}
	panic("unknown op " + o.T)
}

// Coq20 renders the op as a C20.Model.op20.
func (o Op) Coq20() string {
	if o.T == "O" {
		return "Reopen"
	}
	return "(Base " + o.Coq() + ")"
}

type Params struct {
	Blocks       int   // number of successful writes to aim at
	Base         int64 // height of the first block
	NKeys        int
	NIn          int
	NKn          int
	Reopen       bool // generate "O" steps
	StartSuf     bool // first block carries a suffrage change and a policy (like a genesis block)
	BadWrites    bool // sometimes try a write at a wrong height
	ReopenAlways bool // close + reopen after every block and after every merge
	Big          bool // NKeys/NKn exceed the permanent merge's batch limit; the first block (and some later) is BIG
}

func RandomParams(r *vh.Rand, reopen bool) Params {
	p := Params{Blocks: r.Range(3, 30), NKeys: r.Range(3, 9), NIn: r.Range(2, 8), NKn: r.Range(2, 8), Reopen: reopen,
		StartSuf: r.Chance(4, 5), BadWrites: true}
	if !reopen && r.Chance(1, 4) {
		p.Base = int64(r.Range(1, 40))
	}
	if r.Chance(1, 3) {
		p.Blocks = r.Range(3, 10)
	}
	if r.Chance(1, 40) { // a short history with BIG blocks (their merge spans several batches)
		limit := BatchLimit()
		p.Big, p.Blocks, p.NKeys, p.NIn, p.NKn = true, r.Range(3, 5), limit+2+r.Range(2, 12), limit/2, limit+r.Range(2, 12)
	}
	return p
}

// WriteCacheSize: the configuration of the write-side state cache (LeveldbBlockWrite.SetStateCache, handed
// to the temp and read by the permanent merge): none, smaller than a block's number of states (entries get
// evicted, so the cache does NOT hold every state of its block), or large.
func WriteCacheSize(r *vh.Rand) int {
	switch c := r.Intn(10); {
	case c < 4:
		return 0
	case c < 6:
		return 1
	case c < 7:
		return 2
	case c < 8:
		return 3
	default:
		return 64
	}
}

// BatchLimit is LeveldbPermanent's batchlimit (the permanent merge writes the temp's keys in batches of this
// size), as regenerated from the Go source by the translator into coq/Gen/C19.v (perm_new_ints); a BIG block
// carries more state / operation keys than that, so that its merge spans several batches.
func BatchLimit() int {
	dir := os.Getenv("VERIF_DIR")
	if dir == "" {
		dir = "/verif"
	}
	limit := 0
	if b, err := os.ReadFile(filepath.Join(dir, "coq", "Gen", "C19.v")); err == nil {
		if m := regexp.MustCompile(`perm_new_ints : list Z := \[([^\]]*)\]`).FindSubmatch(b); m != nil {
			for _, x := range regexp.MustCompile(`-?\d+`).FindAll(m[1], -1) {
				if v, err := strconv.Atoi(string(x)); err == nil && v > limit {
					limit = v
				}
			}
		}
	}
	if limit < 8 || limit > 5000 {
		limit = 333
	}
	return limit
}

// BigShape: a block with nstates ordinary states (keys 2..nstates+1; the first nin of them list one in-state
// operation each) and nkn known operations.
func BigShape(h int64, nstates, nin, nkn int) BlockShape {
	sh := BlockShape{H: h}
	for i := 0; i < nstates; i++ {
		sh.Keys = append(sh.Keys, i+2)
		if i < nin {
			sh.KeyOps = append(sh.KeyOps, []int{i})
		} else {
			sh.KeyOps = append(sh.KeyOps, nil)
		}
	}
	for i := 0; i < nkn; i++ {
		sh.Known = append(sh.Known, i)
	}
	return sh
}

// BigHistory: a corpus history around one BIG block (more keys than the permanent merge's batch limit, both
// as states and as known operations) that is merged into the permanent store, rewritten in part by a later
// block, with reopen steps when reopen is set.  Every key is read after every step.
func BigHistory(r *vh.Rand, reopen bool) (*World, []Op, Cfg) {
	limit := BatchLimit()
	nstates, nkn, nin := limit+7, limit+9, limit/2+3
	w := NewWorld(r, nstates+2, nin, nkn)
	b0s := BigShape(0, nstates, nin, nkn)
	b0s.Suf, b0s.Pol = true, true
	b0 := w.NewBlock(b0s)
	b1 := w.NewBlock(BlockShape{H: 1, Keys: []int{2, 5}, KeyOps: [][]int{nil, {1}}, Known: []int{0}})
	b2s := BigShape(2, nstates/2, 0, 3)
	b2s.Suf, b2s.SH = true, 1
	b2 := w.NewBlock(b2s)
	b3 := w.NewBlock(BlockShape{H: 3})
	ops := []Op{{T: "W", B: b0}, {T: "W", B: b1, Cache: 2}, {T: "M"}}
	if reopen {
		ops = append(ops, Op{T: "O"})
	}
	ops = append(ops, Op{T: "W", B: b2, Cache: 64}, Op{T: "W", B: b3}, Op{T: "M"}, Op{T: "M"}, Op{T: "C", N: 0})
	if reopen {
		ops = append(ops, Op{T: "O"})
	}
	return w, ops, Cfg{NKeys: nstates + 2, HLo: -1, HHi: 5, SHHi: 3, NIn: nin, NKn: nkn}
}

func subset(r *vh.Rand, n, max int) []int {
	if max > n {
		max = n
	}
	k := r.Intn(max + 1)
	p := r.Perm(n)
	return append([]int{}, p[:k]...)
}

// Generate builds a history using only the oracle (so that it is independent of the implementation).
func Generate(r *vh.Rand, w *World, p Params) ([]Op, Cfg) {
	spec := &Spec{}
	var ops []Op
	writes := 0
	nextSuf := int64(-1 << 62)
	maxH := p.Base
	maxSH := int64(0)
	for steps := 0; writes < p.Blocks && steps < 40*p.Blocks+50; steps++ {
		c := r.Intn(100)
		switch {
		case c < 50 || len(spec.Blocks) == 0:
			h := p.Base
			if t := spec.top(); t != nil {
				h = t.H + 1
				if p.BadWrites && r.Chance(1, 12) {
					h = t.H + int64(r.Range(-2, 3))
					if h < 0 {
						h = 0
					}
				}
			}
			sh := BlockShape{H: h}
			good := spec.top() == nil || h == spec.top().H+1
			nk := p.NKeys - 2
			big := p.Big && (len(spec.Blocks) == 0 || r.Chance(1, 4))
			if big {
				sh = BigShape(h, nk, p.NIn, p.NKn)
			} else {
				for _, k := range subset(r, nk, 4) {
					sh.Keys = append(sh.Keys, k+2)
					sh.KeyOps = append(sh.KeyOps, subset(r, p.NIn, 2))
				}
			}
			if nextSuf == -1<<62 {
				if p.StartSuf {
					nextSuf = h
				} else {
					nextSuf = h + int64(r.Range(1, 4))
				}
			}
			if h >= nextSuf || r.Chance(1, 15) {
				sh.Suf = true
				sh.SH = spec.MaxSufHeight() + 1
				sh.SufOps = subset(r, p.NIn, 2)
			}
			if (len(spec.Blocks) == 0 && p.StartSuf) || r.Chance(1, 5) {
				sh.Pol = true
				sh.PolOps = subset(r, p.NIn, 1)
			}
			if !big {
				sh.Known = subset(r, p.NKn, 3)
			}
			b := w.NewBlock(sh)
			ops = append(ops, Op{T: "W", B: b, Cache: WriteCacheSize(r)})
			if good {
				if !spec.Write(b) {
					panic("generator: good write refused by the oracle")
				}
				writes++
				if sh.Suf {
					nextSuf = h + int64(r.Range(2, 5))
					if sh.SH > maxSH {
						maxSH = sh.SH
					}
				}
				if h > maxH {
					maxH = h
				}
			}
		case c < 72:
			n := 1
			if r.Chance(1, 4) {
				n = r.Range(2, 6)
			}
			for i := 0; i < n; i++ {
				ops = append(ops, Op{T: "M"})
				spec.MergePerm()
			}
		case c < 82:
			ops = append(ops, Op{T: "C", N: r.Intn(4)})
		case c < 90:
			t := spec.top()
			lo := t.H - int64(spec.NTemps()) - 1
			h := lo + int64(r.Intn(spec.NTemps()+4))
			if r.Chance(1, 2) && spec.NTemps() > 0 {
				h = t.H - int64(r.Intn(spec.NTemps())) // certainly a temp height
				if r.Chance(2, 3) {
					h = t.H - int64(r.Intn(min(2, spec.NTemps()))) // mostly near the top
				}
			}
			ops = append(ops, Op{T: "R", H: h})
			spec.Remove(h)
		default:
			if p.Reopen {
				ops = append(ops, Op{T: "O"})
			} else {
				ops = append(ops, Op{T: "M"})
				spec.MergePerm()
			}
		}
	}
	if p.ReopenAlways {
		var ops2 []Op
		for _, op := range ops {
			ops2 = append(ops2, op)
			if op.T != "O" {
				ops2 = append(ops2, Op{T: "O"})
			}
		}
		ops = ops2
	}
	lo := p.Base - 2
	if lo < -1 {
		lo = -1
	}
	return ops, Cfg{NKeys: p.NKeys, HLo: lo, HHi: maxH + 2, SHHi: maxSH + 2, NIn: p.NIn, NKn: p.NKn}
}

// GenerateWrites builds a history of p.Blocks good writes only (heights Base, Base+1, ...).
func GenerateWrites(r *vh.Rand, w *World, p Params) ([]Op, Cfg) {
	var ops []Op
	spec := &Spec{}
	nextSuf := p.Base
	for i := 0; i < p.Blocks; i++ {
		h := p.Base + int64(i)
		sh := BlockShape{H: h}
		for _, k := range subset(r, p.NKeys-2, 3) {
			sh.Keys = append(sh.Keys, k+2)
			sh.KeyOps = append(sh.KeyOps, subset(r, p.NIn, 2))
		}
		if h >= nextSuf {
			sh.Suf = true
			sh.SH = spec.MaxSufHeight() + 1
			nextSuf = h + int64(r.Range(2, 5))
		}
		if i == 0 || r.Chance(1, 5) {
			sh.Pol = true
		}
		sh.Known = subset(r, p.NKn, 2)
		b := w.NewBlock(sh)
		spec.Write(b)
		ops = append(ops, Op{T: "W", B: b})
	}
	return ops, Cfg{NKeys: p.NKeys, HLo: -1, HHi: p.Base + int64(p.Blocks) + 1, SHHi: spec.MaxSufHeight() + 2, NIn: p.NIn, NKn: p.NKn}
}

// StepResult: what the implementation did at one step.
type StepResult struct {
	Ok    bool
	Reads []int64
}

// Coq renders (op, ok, [(index, new value) of the reads that changed since prev]).
func (s StepResult) Coq(op Op, prev []int64, c20 bool) string {
	var sb strings.Builder
	sb.WriteString("(")
	if c20 {
		sb.WriteString(op.Coq20())
	} else {
		sb.WriteString(op.Coq())
	}
	sb.WriteString(", ")
	sb.WriteString(vh.Bool(s.Ok))
	sb.WriteString(", [")
	first := true
	for i, v := range s.Reads {
		if v == prev[i] {
			continue
		}
		if !first {
			sb.WriteString(";")
		}
		first = false
		fmt.Fprintf(&sb, "(%d,%d)", i, v)
	}
	sb.WriteString("]%Z)")
	return sb.String()
}

// CoqCase renders one history as a C19.Model.case / C20.Model.case term.
func CoqCase(cfg Cfg, init []int64, ops []Op, steps []StepResult, c20 bool) string {
	var sb strings.Builder
	sb.WriteString("(mkCase " + cfg.Coq() + " [")
	for i, v := range init {
		if i > 0 {
			sb.WriteString(";")
		}
		fmt.Fprintf(&sb, "%d", v)
	}
	sb.WriteString("]%Z [")
	prev := init
	for i := range steps {
		if i > 0 {
			sb.WriteString("; ")
		}
		sb.WriteString(steps[i].Coq(ops[i], prev, c20))
		prev = steps[i].Reads
	}
	sb.WriteString("])")
	return sb.String()
}

// Apply runs one op on the real database; Ok is the op's own boolean outcome (write accepted, merged,
// removed); harness-level errors are returned.
func (d *DB) Apply(op Op) (bool, error) {
	switch op.T {
	case "W":
		return d.Write(op.B, op.Cache)
	case "M":
		return d.MergePerm()
	case "R":
		return d.Remove(op.H)
	case "C":
		return true, d.Clean(op.N)
	case "O":
		return true, d.Reopen()
	}
	panic("unknown op")
}

// ApplySpec runs one op on the oracle.
func (s *Spec) Apply(op Op) bool {
	switch op.T {
	case "W":
		return s.Write(op.B)
	case "M":
		return s.MergePerm()
	case "R":
		return s.Remove(op.H)
	default:
		return true
	}
}

// Mismatch describes one read on which implementation and oracle disagree.
type Mismatch struct {
	Step int    `json:"step"`
	Read string `json:"read"`
	Impl int64  `json:"impl"`
	Want int64  `json:"want"`
}

// Run executes a history on the real database and on the oracle, reading everything after every step.
func Run(w *World, ops []Op, cfg Cfg, cache int, onStep func(i int, d *DB, s *Spec)) (init []int64, steps []StepResult, mism []Mismatch, err error) {
	d := NewDB(w, cache)
	defer d.Close()
	spec := &Spec{}
	var names []string
	init = ReadAll(ImplReader{D: d}, cfg, &names)
	for j, want := range ReadAll(SpecReader{S: spec}, cfg, nil) {
		if init[j] != want {
			mism = append(mism, Mismatch{Step: -1, Read: names[j], Impl: init[j], Want: want})
		}
	}
	for i, op := range ops {
		var rawNames, rawBefore []string
		var before []int64
		if op.T == "O" {
			rawNames, rawBefore = ImplReader{D: d}.RawAll(cfg)
			before = ReadAll(ImplReader{D: d}, cfg, nil)
		}
		ok, e := d.Apply(op)
		if op.T == "O" && e != nil {
			mism = append(mism, Mismatch{Step: i, Read: "reopen-error: " + e.Error(), Impl: ResErr, Want: 0})
			return init, steps, mism, nil
		}
		if op.T == "O" {
			// the property's own statement: every read, and every raw byte, is the same after the reopen
			_, rawAfter := ImplReader{D: d}.RawAll(cfg)
			for j := range rawBefore {
				if rawBefore[j] != rawAfter[j] {
					mism = append(mism, Mismatch{Step: i, Read: "reopen-bytes:" + rawNames[j], Impl: int64(len(rawAfter[j])), Want: int64(len(rawBefore[j]))})
				}
			}
			after := ReadAll(ImplReader{D: d}, cfg, nil)
			for j := range before {
				if before[j] != after[j] {
					mism = append(mism, Mismatch{Step: i, Read: "reopen-read:" + names[j], Impl: after[j], Want: before[j]})
				}
			}
		}
		if e != nil {
			return init, steps, mism, fmt.Errorf("step %d (%s): %w", i, op.T, e)
		}
		sok := spec.Apply(op)
		if ok != sok {
			mism = append(mism, Mismatch{Step: i, Read: "outcome:" + op.T, Impl: b2i(ok), Want: b2i(sok)})
		}
		got := ReadAll(ImplReader{D: d}, cfg, nil)
		want := ReadAll(SpecReader{S: spec}, cfg, nil)
		for j := range got {
			if got[j] != want[j] {
				mism = append(mism, Mismatch{Step: i, Read: names[j], Impl: got[j], Want: want[j]})
			}
		}
		steps = append(steps, StepResult{Ok: ok, Reads: got})
		if onStep != nil {
			onStep(i, d, spec)
		}
	}
	return init, steps, mism, nil
}

func b2i(b bool) int64 {
	if b {
		return 1
	}
	return 0
}

// Rebuild re-creates real objects for the ops of a replay file (descriptors only). Ids are re-assigned
// (the structure -- heights, keys, suffrage heights, operations -- is what matters).
func Rebuild(w *World, ops []Op) []Op {
	out := make([]Op, len(ops))
	for i, op := range ops {
		out[i] = op
		if op.T != "W" || op.B == nil {
			continue
		}
		b := op.B
		sh := BlockShape{H: b.H, Known: b.Known}
		for _, s := range b.States {
			sh.Keys = append(sh.Keys, s.Key)
			sh.KeyOps = append(sh.KeyOps, nil)
		}
		if b.Suf != nil {
			sh.Suf, sh.SH = true, b.Suf.SH
		}
		sh.Pol = b.Pol != nil
		switch {
		case len(sh.Keys) > 0:
			sh.KeyOps[0] = b.InState
		case sh.Suf:
			sh.SufOps = b.InState
		case sh.Pol:
			sh.PolOps = b.InState
		}
		out[i].B = w.NewBlock(sh)
	}
	return out
}
