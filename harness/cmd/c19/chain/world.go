// Package chain: shared machinery of the C19 / C20 harnesses.
//
//   - World: builds *real* objects (isaacblock.BlockMap signed by a local key over a real isaac.Manifest,
//     base.BaseState values, real suffrage-nodes / network-policy state values, real
//     isaacblock.SuffrageProof with a fixedtree proof) for abstract block descriptions, and keeps the
//     registry object -> small integer id (+ the bytes each object is expected to be stored as).
//   - DB: the real Center over a real LeveldbPermanent over mem-leveldb (goleveldb MemStorage that
//     survives Close, for reopen), driven through exported API + the verif hooks in center_verif.go.
//   - Spec: the independent oracle ("keep all committed blocks": a Go slice of block descriptions).
//   - ReadAll: the canonical enumeration of every read kind over every key / height in range.
package chain

import (
	"bytes"
	"fmt"
	"sync"
	"sync/atomic"
	"time"

	"github.com/spikeekips/mitum/base"
	"github.com/spikeekips/mitum/isaac"
	isaacblock "github.com/spikeekips/mitum/isaac/block"
	"github.com/spikeekips/mitum/launch"
	"github.com/spikeekips/mitum/util"
	"github.com/spikeekips/mitum/util/encoder"
	jsonenc "github.com/spikeekips/mitum/util/encoder/json"
	"github.com/spikeekips/mitum/util/fixedtree"
	"github.com/spikeekips/mitum/util/hint"
	"github.com/spikeekips/mitum/util/valuehash"
	"verifharness/vh"
)

// ---------------------------------------------------------------- abstract block description

type StateEnt struct {
	Key int `json:"k"` // >= 2 (0 = suffrage state key, 1 = network policy state key)
	ID  int `json:"id"`
}

type SufEnt struct {
	SH      int64 `json:"sh"`
	StateID int   `json:"st"`
	ProofID int   `json:"pf"`
}

type PolEnt struct {
	StateID int `json:"st"`
	PolID   int `json:"pol"`
}

// Blk is one block as the model / oracle see it (ids only) plus the real objects.
type Blk struct {
	H       int64      `json:"h"`
	MapID   int        `json:"map"`
	States  []StateEnt `json:"states"`
	Suf     *SufEnt    `json:"suf,omitempty"`
	Pol     *PolEnt    `json:"pol,omitempty"`
	InState []int      `json:"instate"`
	Known   []int      `json:"known"`

	mp     base.BlockMap
	states []base.State
	proof  base.SuffrageProof
	known  []util.Hash
}

func (b *Blk) Coq() string {
	sts := make([]string, len(b.States))
	for i, s := range b.States {
		sts[i] = vh.Tuple(vh.N(uint64(s.Key)), vh.N(uint64(s.ID)))
	}
	suf := "None"
	if b.Suf != nil {
		suf = vh.Some(vh.Tuple(vh.Z(b.Suf.SH), vh.N(uint64(b.Suf.StateID)), vh.N(uint64(b.Suf.ProofID))))
	}
	pol := "None"
	if b.Pol != nil {
		pol = vh.Some(vh.Tuple(vh.N(uint64(b.Pol.StateID)), vh.N(uint64(b.Pol.PolID))))
	}
	return fmt.Sprintf("(mkBlock %s %s %s %s %s %s %s)", vh.Z(b.H), vh.N(uint64(b.MapID)), vh.List(sts), suf, pol,
		nlist(b.InState), nlist(b.Known))
}

func nlist(xs []int) string {
	ss := make([]string, len(xs))
	for i, x := range xs {
		ss[i] = vh.N(uint64(x))
	}
	return vh.List(ss)
}

// ---------------------------------------------------------------- world: real objects and the id registry

type Obj struct {
	Kind string // map | state | proof | policy
	Meta []byte
	Body []byte
}

type World struct {
	Encs      *encoder.Encoders
	Enc       encoder.Encoder
	priv      base.Privatekey
	addr      base.Address
	networkID base.NetworkID
	nodes     []base.Node

	NKeys  int // ordinary + reserved state keys: indexes 0..NKeys-1 are used, NKeys is never written
	NIn    int
	NKn    int
	inPool []util.Hash // in-state operation (fact) hashes, index = id; inPool[NIn] is never written
	knPool []util.Hash // known operation hashes

	Objs   []Obj
	byHash map[string]int
	byBody map[string]int
	byMeta map[string]int
	pinned map[int]bool
	mu     sync.Mutex // BytesRes pins first-seen bodies: readers may run concurrently
	polSeq uint64
	r      *vh.Rand

	prevSufState base.State // last suffrage state generated (for manifest.Suffrage())
	prevMapHash  util.Hash
}

// HookStateValue is a state value whose decoding calls DecodeHook: an injectable yield point inside
// LeveldbPermanent.State, between the storage read and the update of the state cache.
var HookStateValueHint = hint.MustNewHint("verif-hook-state-value-v0.0.1")

type HookStateValue struct {
	hint.BaseHinter
	S string `json:"s"`
}

func NewHookStateValue(s string) HookStateValue {
	return HookStateValue{BaseHinter: hint.NewBaseHinter(HookStateValueHint), S: s}
}

func (v HookStateValue) HashBytes() []byte    { return []byte(v.S) }
func (v HookStateValue) IsValid([]byte) error { return nil }

// DecodeHook, when set, is called (once per decode) after a HookStateValue was decoded.
var DecodeHook atomic.Pointer[func()]

func (v *HookStateValue) DecodeJSON(b []byte, _ encoder.Encoder) error {
	var u struct {
		S string `json:"s"`
	}
	if err := util.UnmarshalJSON(b, &u); err != nil {
		return err
	}
	v.S = u.S
	if f := DecodeHook.Load(); f != nil {
		(*f)()
	}
	return nil
}

func NewEncoders() (*encoder.Encoders, encoder.Encoder) {
	enc := jsonenc.NewEncoder()
	encs := encoder.NewEncoders(enc, enc)
	if err := launch.LoadHinters(encs); err != nil {
		panic(err)
	}
	if err := encs.AddDetail(encoder.DecodeDetail{Hint: base.DummyStateValueHint, Instance: base.DummyStateValue{}}); err != nil {
		panic(err)
	}
	if err := encs.AddDetail(encoder.DecodeDetail{Hint: HookStateValueHint, Instance: HookStateValue{}}); err != nil {
		panic(err)
	}
	return encs, enc
}

var (
	sharedEncs *encoder.Encoders
	sharedEnc  encoder.Encoder
	sharedPriv base.Privatekey
	sharedNode []base.Node
)

func NewWorld(r *vh.Rand, nkeys, nin, nkn int) *World {
	if sharedEncs == nil {
		sharedEncs, sharedEnc = NewEncoders()
		sharedPriv = base.NewMPrivatekey()
		for i := 0; i < 2; i++ {
			sharedNode = append(sharedNode, isaac.NewNode(base.NewMPrivatekey().Publickey(), base.RandomAddress("n")))
		}
	}
	w := &World{
		Encs: sharedEncs, Enc: sharedEnc, priv: sharedPriv, addr: base.RandomAddress("local-"),
		networkID: base.NetworkID([]byte("verif-c19")), nodes: sharedNode,
		NKeys: nkeys, NIn: nin, NKn: nkn, byHash: map[string]int{}, byBody: map[string]int{}, byMeta: map[string]int{}, pinned: map[int]bool{}, r: r, polSeq: 100,
	}
	for i := 0; i <= nin; i++ {
		w.inPool = append(w.inPool, valuehash.NewSHA256(r.Bytes(32)))
	}
	for i := 0; i <= nkn; i++ {
		w.knPool = append(w.knPool, valuehash.NewSHA256(r.Bytes(32)))
	}
	return w
}

func (w *World) KeyName(k int) string {
	switch k {
	case 0:
		return isaac.SuffrageStateKey
	case 1:
		return isaac.NetworkPolicyStateKey
	default:
		return fmt.Sprintf("k%03d", k)
	}
}

func (w *World) InStateHash(o int) util.Hash { return w.inPool[o] }
func (w *World) KnownHash(o int) util.Hash   { return w.knPool[o] }

func (w *World) register(kind, hash string, meta, body []byte) int {
	id := len(w.Objs)
	w.Objs = append(w.Objs, Obj{Kind: kind, Meta: meta, Body: body})
	w.byHash[kind+":"+hash] = id
	if len(meta) > 0 {
		if _, dup := w.byMeta[kind+":"+string(meta)]; !dup {
			w.byMeta[kind+":"+string(meta)] = id
		}
	}
	return id
}

func (w *World) lookup(kind, hash string) int64 {
	if id, ok := w.byHash[kind+":"+hash]; ok {
		return int64(id)
	}
	return ResGarbage
}

func (w *World) hash() util.Hash { return valuehash.NewSHA256(w.r.Bytes(32)) }

func (w *World) newState(h int64, key string, v base.StateValue, previous util.Hash, inops []int) (base.State, int) {
	ops := make([]util.Hash, len(inops))
	for i, o := range inops {
		ops[i] = w.inPool[o]
	}
	st := base.NewBaseState(base.Height(h), key, v, previous, ops)
	id := w.register("state", st.Hash().String(), st.Hash().Bytes(), nil)
	return st, id
}

func proofKey(p base.SuffrageProof) string {
	return p.Map().Manifest().Hash().String() + "/" + p.State().Hash().String()
}

// BlockShape: what the generator decides about a block; NewBlock fills in ids and real objects.
type BlockShape struct {
	H      int64
	Keys   []int   // ordinary state keys (distinct, >= 2)
	KeyOps [][]int // in-state operation ids per ordinary state
	Suf    bool
	SH     int64 // suffrage height when Suf
	SufOps []int
	Pol    bool
	PolOps []int
	Known  []int
	// HookKey: ordinary key (>= 2) whose state value is a HookStateValue; 0 = none
	HookKey int
}

func (w *World) NewBlock(s BlockShape) *Blk {
	b := &Blk{H: s.H, States: []StateEnt{}, InState: []int{}, Known: append([]int{}, s.Known...)}
	seenIn := map[int]bool{}
	addIn := func(ops []int) {
		for _, o := range ops {
			if !seenIn[o] {
				seenIn[o] = true
				b.InState = append(b.InState, o)
			}
		}
	}
	// states
	var sufst base.State
	previousSuf := w.prevSufState
	if s.Suf {
		sufnodes := make([]base.SuffrageNodeStateValue, len(w.nodes))
		for i := range w.nodes {
			sufnodes[i] = isaac.NewSuffrageNodeStateValue(w.nodes[i], base.Height(s.H))
		}
		var prevh util.Hash
		if previousSuf != nil {
			prevh = previousSuf.Hash()
		}
		st, id := w.newState(s.H, isaac.SuffrageStateKey, isaac.NewSuffrageNodesStateValue(base.Height(s.SH), sufnodes), prevh, s.SufOps)
		sufst = st
		b.states = append(b.states, st)
		b.Suf = &SufEnt{SH: s.SH, StateID: id}
		addIn(s.SufOps)
	}
	if s.Pol {
		w.polSeq++
		pol := isaac.DefaultNetworkPolicy()
		pol.SetMaxOperationsInProposal(w.polSeq)
		st, id := w.newState(s.H, isaac.NetworkPolicyStateKey, isaac.NewNetworkPolicyStateValue(pol), w.hash(), s.PolOps)
		b.states = append(b.states, st)
		pid := w.register("policy", string(pol.HashBytes()), nil, nil)
		b.Pol = &PolEnt{StateID: id, PolID: pid}
		addIn(s.PolOps)
	}
	for i, k := range s.Keys {
		var v base.StateValue = base.NewDummyStateValue(fmt.Sprintf("v-%d-%d-%x", s.H, k, w.r.Bytes(6)))
		if s.HookKey == k && k >= 2 {
			v = NewHookStateValue(fmt.Sprintf("v-%d-%d-%x", s.H, k, w.r.Bytes(6)))
		}
		st, id := w.newState(s.H, w.KeyName(k), v, w.hash(), s.KeyOps[i])
		b.states = append(b.states, st)
		b.States = append(b.States, StateEnt{Key: k, ID: id})
		addIn(s.KeyOps[i])
	}
	// block map over a real manifest
	var sufhash util.Hash
	if previousSuf != nil {
		sufhash = previousSuf.Hash()
	}
	manifest := isaac.NewManifest(base.Height(s.H), w.prevMapHash, w.hash(), w.hash(), w.hash(), sufhash, time.Unix(1700000000+s.H, 0).UTC())
	m := isaacblock.NewBlockMap()
	for _, ty := range []base.BlockItemType{
		base.BlockItemProposal, base.BlockItemOperations, base.BlockItemOperationsTree,
		base.BlockItemStates, base.BlockItemStatesTree, base.BlockItemVoteproofs,
	} {
		if err := m.SetItem(isaacblock.NewBlockMapItem(ty, fmt.Sprintf("%x", w.r.Bytes(8)))); err != nil {
			panic(err)
		}
	}
	m.SetManifest(manifest)
	if err := m.Sign(w.addr, w.priv, w.networkID); err != nil {
		panic(err)
	}
	b.mp = m
	b.MapID = w.register("map", manifest.Hash().String(), manifest.Hash().Bytes(), nil)
	w.prevMapHash = manifest.Hash()
	// suffrage proof
	if s.Suf {
		tw, err := fixedtree.NewWriter(base.StateFixedtreeHint, uint64(len(b.states)))
		if err != nil {
			panic(err)
		}
		for i := range b.states {
			if err := tw.Add(uint64(i), fixedtree.NewBaseNode(b.states[i].Hash().String())); err != nil {
				panic(err)
			}
		}
		if err := tw.Write(func(uint64, fixedtree.Node) error { return nil }); err != nil {
			panic(err)
		}
		tr, err := tw.Tree()
		if err != nil {
			panic(err)
		}
		fp, err := tr.Proof(sufst.Hash().String())
		if err != nil {
			panic(err)
		}
		proof := isaacblock.NewSuffrageProof(m, sufst, fp)
		b.proof = proof
		var meta []byte
		if sufhash != nil {
			meta = sufhash.Bytes()
		}
		b.Suf.ProofID = w.register("proof", proofKey(proof), meta, nil)
		w.prevSufState = sufst
	}
	for _, o := range s.Known {
		b.known = append(b.known, w.knPool[o])
	}
	return b
}

// ---------------------------------------------------------------- result encoding (shared with the Coq model)

const (
	ResNotFound int64 = -1
	ResErr      int64 = -2
	ResGarbage  int64 = -3
)

func (w *World) ObjID(kind, hash string) int64 { return w.lookup(kind, hash) }

// BytesRes maps an (enchint, meta, body) triple to id*4 + 2*meta_ok + body_ok.
// JSON marshalling of block maps is not byte-deterministic (unsorted map keys), so the expected body is
// not re-marshalled: the body must decode (with the real encoder) to the object with that identity, and
// every later read of the same object must return byte-identical bytes (first-seen bytes are pinned).
// meta must equal the header the object was stored with.
func (w *World) BytesRes(kind string, enchint string, meta, body []byte) int64 {
	if enchint != w.Enc.Hint().String() {
		return ResGarbage
	}
	w.mu.Lock()
	defer w.mu.Unlock()
	id, bodyok := -1, false
	if len(body) > 0 {
		key := kind + ":" + string(body)
		if i, ok := w.byBody[key]; ok {
			id, bodyok = i, true
		} else if i := w.decodeID(kind, body); i >= 0 {
			id = int(i)
			if _, pinned := w.pinned[id]; !pinned {
				w.pinned[id] = true
				w.byBody[key] = id
				bodyok = true
			}
		}
	}
	if id < 0 {
		i, ok := w.byMeta[kind+":"+string(meta)]
		if !ok || len(meta) == 0 {
			return ResGarbage
		}
		id = i
	}
	var fl int64
	if bytes.Equal(w.Objs[id].Meta, meta) {
		fl += 2
	}
	if bodyok {
		fl++
	}
	return int64(id)*4 + fl
}

func (w *World) decodeID(kind string, body []byte) int64 {
	switch kind {
	case "map":
		var m base.BlockMap
		if err := encoder.Decode(w.Enc, body, &m); err != nil || m == nil {
			return ResGarbage
		}
		return w.lookup("map", m.Manifest().Hash().String())
	case "state":
		var st base.State
		if err := encoder.Decode(w.Enc, body, &st); err != nil || st == nil {
			return ResGarbage
		}
		return w.lookup("state", st.Hash().String())
	case "proof":
		var p base.SuffrageProof
		if err := encoder.Decode(w.Enc, body, &p); err != nil || p == nil {
			return ResGarbage
		}
		return w.lookup("proof", proofKey(p))
	}
	return ResGarbage
}
