package chain

import (
	"bytes"
	"context"
	"fmt"
	"os"
	"runtime"
	"time"

	"github.com/spikeekips/mitum/base"
	"github.com/spikeekips/mitum/isaac"
	isaacdatabase "github.com/spikeekips/mitum/isaac/database"
	leveldbstorage "github.com/spikeekips/mitum/storage/leveldb"
	"github.com/spikeekips/mitum/util"
	goleveldbstorage "github.com/syndtr/goleveldb/leveldb/storage"
)

// DB is the real thing: Center + LeveldbPermanent over one goleveldb MemStorage (which survives Close).
type DB struct {
	W      *World
	mem    goleveldbstorage.Storage
	St     *leveldbstorage.Storage
	Perm   *isaacdatabase.LeveldbPermanent
	Center *isaacdatabase.Center
	cache  int
}

func NewDB(w *World, stcachesize int) *DB {
	d := &DB{W: w, mem: goleveldbstorage.NewMemStorage(), cache: stcachesize}
	if err := d.open(); err != nil {
		panic(err)
	}
	return d
}

func (d *DB) open() error {
	st, err := leveldbstorage.NewStorage(d.mem, nil)
	if err != nil {
		return err
	}
	perm, err := isaacdatabase.NewLeveldbPermanent(st, d.W.Encs, d.W.Enc, d.cache)
	if err != nil {
		return err
	}
	center, err := isaacdatabase.NewCenter(st, d.W.Encs, d.W.Enc, perm, func(h base.Height) (isaac.BlockWriteDatabase, error) {
		return isaacdatabase.NewLeveldbBlockWrite(h, st, d.W.Encs, d.W.Enc), nil
	})
	if err != nil {
		return err
	}
	d.St, d.Perm, d.Center = st, perm, center
	return nil
}

// quiesce: Center.dig cancels its job worker as soon as one temp answers (ExistsInStateOperation,
// ExistsKnownOperation); jobs that are already running keep reading the storage after the read has
// returned (util.BaseJobWorker.Wait does not wait for them on cancel -- C33's finding). Closing the leveldb
// under them panics inside goleveldb ("cache.Value is nil, not *table.Reader"). A "quiescent point" therefore
// means: no OTHER goroutine has a frame of the code under test on its stack (the caller itself only has
// harness frames above this function). Counting goroutines is not enough (goleveldb's own background
// goroutines come and go), so the stacks are scanned.
func (d *DB) quiesce() {
	Quiesce()
}

// Quiesce waits (up to 60 s) until no other goroutine is inside github.com/spikeekips/mitum code.
func Quiesce() {
	deadline := time.Now().Add(60 * time.Second)
	buf := make([]byte, 1<<20)
	for wait := 50 * time.Microsecond; ; {
		if !othersInsideMitum(buf) {
			return
		}
		if time.Now().After(deadline) {
			fmt.Fprintln(os.Stderr, "chain.Quiesce: goroutines still inside mitum after 60s; closing anyway")
			return
		}
		time.Sleep(wait)
		if wait < 5*time.Millisecond {
			wait *= 2
		}
	}
}

func othersInsideMitum(buf []byte) bool {
	n := runtime.Stack(buf, true)
	for n == len(buf) && len(buf) < 64<<20 {
		buf = make([]byte, 2*len(buf))
		n = runtime.Stack(buf, true)
	}
	// the first record is the calling goroutine
	recs := bytes.Split(buf[:n], []byte("\n\n"))
	for i, rec := range recs {
		if i == 0 {
			continue
		}
		if bytes.Contains(rec, []byte("github.com/spikeekips/mitum/")) {
			return true
		}
	}
	return false
}

// Reopen closes the storage (everything in memory is dropped) and rebuilds permanent + center from it.
func (d *DB) Reopen() error {
	d.quiesce()
	if err := d.Center.Close(); err != nil {
		return err
	}
	if err := d.Perm.Close(); err != nil {
		return err
	}
	if err := d.St.Close(); err != nil {
		return err
	}
	return d.open()
}

func (d *DB) Close() {
	d.quiesce()
	_ = d.St.Close()
}

// Write stores one block through the block-write database and merges it as the newest temp.
// wcache > 0: give the write database a state cache of that size (it is handed to the temp and to the
// permanent merge; when it is smaller than the block's number of states it does not hold all of them).
func (d *DB) Write(b *Blk, wcache int) (ok bool, err error) {
	wst, err := d.Center.NewBlockWriteDatabase(base.Height(b.H))
	if err != nil {
		return false, err
	}
	defer func() { _ = wst.Close() }()
	if wcache > 0 {
		if lw, isl := wst.(*isaacdatabase.LeveldbBlockWrite); isl {
			lw.SetStateCache(util.NewLRUGCache[string, [2]interface{}](wcache))
		}
	}
	if err := wst.SetBlockMap(b.mp); err != nil {
		return false, err
	}
	if err := wst.SetStates(b.states); err != nil {
		return false, err
	}
	if err := wst.SetOperations(b.known); err != nil {
		return false, err
	}
	if b.proof != nil {
		if err := wst.SetSuffrageProof(b.proof); err != nil {
			return false, err
		}
	}
	if err := wst.Write(); err != nil {
		return false, err
	}
	if err := d.Center.MergeBlockWriteDatabase(wst); err != nil {
		_ = wst.Cancel()
		return false, nil // refused (wrong height): an observable of the property, not a harness failure
	}
	return true, nil
}

func (d *DB) MergePerm() (bool, error) { return d.Center.VerifMergePermanent(context.Background()) }
func (d *DB) Clean(limit int) error    { return d.Center.VerifCleanRemoved(limit) }
func (d *DB) Remove(h int64) (bool, error) {
	return d.Center.RemoveBlocks(base.Height(h))
}

func (d *DB) TempHeights() (temps, removed []int64) {
	t, r := d.Center.VerifTempHeights()
	for _, h := range t {
		temps = append(temps, h.Int64())
	}
	for _, h := range r {
		removed = append(removed, h.Int64())
	}
	return
}

// ---------------------------------------------------------------- reads on the real Center

type ImplReader struct {
	D *DB
}

func (r ImplReader) w() *World { return r.D.W }

func objRes(found bool, err error, id func() int64) int64 {
	switch {
	case err != nil:
		return ResErr
	case !found:
		return ResNotFound
	default:
		return id()
	}
}

func (r ImplReader) State(k int) int64 {
	st, found, err := r.D.Center.State(r.w().KeyName(k))
	return objRes(found, err, func() int64 { return r.w().ObjID("state", st.Hash().String()) })
}

func (r ImplReader) StateBytes(k int) int64 {
	ht, meta, body, found, err := r.D.Center.StateBytes(r.w().KeyName(k))
	return objRes(found, err, func() int64 { return r.w().BytesRes("state", ht, meta, body) })
}

func (r ImplReader) Map(h int64) int64 {
	m, found, err := r.D.Center.BlockMap(base.Height(h))
	return objRes(found, err, func() int64 { return r.w().ObjID("map", m.Manifest().Hash().String()) })
}

func (r ImplReader) MapBytes(h int64) int64 {
	ht, meta, body, found, err := r.D.Center.BlockMapBytes(base.Height(h))
	return objRes(found, err, func() int64 { return r.w().BytesRes("map", ht, meta, body) })
}

func (r ImplReader) LastMap() int64 {
	m, found, err := r.D.Center.LastBlockMap()
	return objRes(found, err, func() int64 { return r.w().ObjID("map", m.Manifest().Hash().String()) })
}

func (r ImplReader) LastMapBytes() int64 {
	ht, meta, body, found, err := r.D.Center.LastBlockMapBytes()
	return objRes(found, err, func() int64 { return r.w().BytesRes("map", ht, meta, body) })
}

func (r ImplReader) Suf(sh int64) int64 {
	p, found, err := r.D.Center.SuffrageProof(base.Height(sh))
	return objRes(found, err, func() int64 { return r.w().ObjID("proof", proofKey(p)) })
}

func (r ImplReader) SufBytes(sh int64) int64 {
	ht, meta, body, found, err := r.D.Center.SuffrageProofBytes(base.Height(sh))
	return objRes(found, err, func() int64 { return r.w().BytesRes("proof", ht, meta, body) })
}

func (r ImplReader) SufBH(h int64) int64 {
	p, found, err := r.D.Center.SuffrageProofByBlockHeight(base.Height(h))
	return objRes(found, err, func() int64 { return r.w().ObjID("proof", proofKey(p)) })
}

func (r ImplReader) LastSuf() int64 {
	p, found, err := r.D.Center.LastSuffrageProof()
	return objRes(found, err, func() int64 { return r.w().ObjID("proof", proofKey(p)) })
}

func (r ImplReader) LastSufBytes() int64 {
	// the extra "lastheight" result is not part of C19/C20's statement and is not observed
	ht, meta, body, found, _, err := r.D.Center.LastSuffrageProofBytes()
	return objRes(found, err, func() int64 { return r.w().BytesRes("proof", ht, meta, body) })
}

func (r ImplReader) Policy() int64 {
	p := r.D.Center.LastNetworkPolicy()
	if p == nil {
		return ResNotFound
	}
	return r.w().ObjID("policy", string(p.HashBytes()))
}

func boolRes(b bool, err error) int64 {
	switch {
	case err != nil:
		return ResErr
	case b:
		return 1
	default:
		return 0
	}
}

func (r ImplReader) InState(o int) int64 {
	return boolRes(r.D.Center.ExistsInStateOperation(r.w().InStateHash(o)))
}

func (r ImplReader) Known(o int) int64 {
	return boolRes(r.D.Center.ExistsKnownOperation(r.w().KnownHash(o)))
}

// ---------------------------------------------------------------- canonical read enumeration

type Cfg struct {
	NKeys int   `json:"nkeys"` // State k for k in 0..NKeys (NKeys itself is never written)
	HLo   int64 `json:"hlo"`   // block heights HLo..HHi
	HHi   int64 `json:"hhi"`
	SHHi  int64 `json:"shhi"` // suffrage heights -1..SHHi
	NIn   int   `json:"nin"`  // in-state operations 0..NIn
	NKn   int   `json:"nkn"`  // known operations 0..NKn
}

func (c Cfg) Coq() string {
	return fmt.Sprintf("(mkCfg %d%%N %s %s %s %d%%N %d%%N)", c.NKeys, zz(c.HLo), zz(c.HHi), zz(c.SHHi), c.NIn, c.NKn)
}

func zz(n int64) string {
	if n < 0 {
		return fmt.Sprintf("(%d)%%Z", n)
	}
	return fmt.Sprintf("%d%%Z", n)
}

type Reader interface {
	State(k int) int64
	StateBytes(k int) int64
	Map(h int64) int64
	MapBytes(h int64) int64
	LastMap() int64
	LastMapBytes() int64
	Suf(sh int64) int64
	SufBytes(sh int64) int64
	SufBH(h int64) int64
	LastSuf() int64
	LastSufBytes() int64
	Policy() int64
	InState(o int) int64
	Known(o int) int64
}

// ReadAll evaluates every read kind for every argument in range, in the order the Coq model
// (C19.Model.all_reads) uses. names (optional) receives the read names in the same order.
func ReadAll(r Reader, c Cfg, names *[]string) []int64 {
	out := make([]int64, 0, 256)
	add := func(name string, v int64) {
		out = append(out, v)
		if names != nil {
			*names = append(*names, name)
		}
	}
	for k := 0; k <= c.NKeys; k++ {
		add(fmt.Sprintf("State(%d)", k), r.State(k))
	}
	for k := 0; k <= c.NKeys; k++ {
		add(fmt.Sprintf("StateBytes(%d)", k), r.StateBytes(k))
	}
	for h := c.HLo; h <= c.HHi; h++ {
		add(fmt.Sprintf("BlockMap(%d)", h), r.Map(h))
	}
	for h := c.HLo; h <= c.HHi; h++ {
		add(fmt.Sprintf("BlockMapBytes(%d)", h), r.MapBytes(h))
	}
	add("LastBlockMap", r.LastMap())
	add("LastBlockMapBytes", r.LastMapBytes())
	for sh := int64(-1); sh <= c.SHHi; sh++ {
		add(fmt.Sprintf("SuffrageProof(%d)", sh), r.Suf(sh))
	}
	for sh := int64(-1); sh <= c.SHHi; sh++ {
		add(fmt.Sprintf("SuffrageProofBytes(%d)", sh), r.SufBytes(sh))
	}
	for h := c.HLo; h <= c.HHi; h++ {
		add(fmt.Sprintf("SuffrageProofByBlockHeight(%d)", h), r.SufBH(h))
	}
	add("LastSuffrageProof", r.LastSuf())
	add("LastSuffrageProofBytes", r.LastSufBytes())
	add("LastNetworkPolicy", r.Policy())
	for o := 0; o <= c.NIn; o++ {
		add(fmt.Sprintf("ExistsInStateOperation(%d)", o), r.InState(o))
	}
	for o := 0; o <= c.NKn; o++ {
		add(fmt.Sprintf("ExistsKnownOperation(%d)", o), r.Known(o))
	}
	return out
}

// Kind strips the argument from a read name ("BlockMap(3)" -> "BlockMap").
func Kind(name string) string {
	for i := 0; i < len(name); i++ {
		if name[i] == '(' {
			return name[:i]
		}
	}
	return name
}

// RawAll returns every *Bytes read as raw bytes (enchint | meta | body), for byte-for-byte comparison
// before / after a reopen.
func (r ImplReader) RawAll(c Cfg) (names []string, raws []string) {
	add := func(name string, ht string, meta, body []byte, found bool, err error) {
		names = append(names, name)
		if err != nil {
			raws = append(raws, "error")
			return
		}
		raws = append(raws, fmt.Sprintf("%v|%s|%x|%x", found, ht, meta, body))
	}
	for k := 0; k <= c.NKeys; k++ {
		ht, meta, body, found, err := r.D.Center.StateBytes(r.w().KeyName(k))
		add(fmt.Sprintf("StateBytes(%d)", k), ht, meta, body, found, err)
	}
	for h := c.HLo; h <= c.HHi; h++ {
		ht, meta, body, found, err := r.D.Center.BlockMapBytes(base.Height(h))
		add(fmt.Sprintf("BlockMapBytes(%d)", h), ht, meta, body, found, err)
	}
	{
		ht, meta, body, found, err := r.D.Center.LastBlockMapBytes()
		add("LastBlockMapBytes", ht, meta, body, found, err)
	}
	for sh := int64(-1); sh <= c.SHHi; sh++ {
		ht, meta, body, found, err := r.D.Center.SuffrageProofBytes(base.Height(sh))
		add(fmt.Sprintf("SuffrageProofBytes(%d)", sh), ht, meta, body, found, err)
	}
	{
		ht, meta, body, found, _, err := r.D.Center.LastSuffrageProofBytes()
		add("LastSuffrageProofBytes", ht, meta, body, found, err)
	}
	return names, raws
}
