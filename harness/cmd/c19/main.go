// c19: database reads agree with the committed chain.
//
// Random histories (block writes with states re-written across heights, suffrage changes, policy
// changes, operations; merges into the permanent store, RemoveBlocks, cleanRemoved at random points)
// run on the real Center + LeveldbPermanent over mem-leveldb; after every step EVERY read kind is
// evaluated for every key / height in range (and just out of range) and compared
//   - with the oracle (chain.Spec: a Go slice of the committed blocks)  -> Fail on any difference,
//   - with the Coq model (C19.Model.check evaluates the model on the same history) -> cases_NNN.v.
//
// Concurrent part: readers run freely during mergePermanent + cleanRemoved; oracle: per reader and key
// the heights of the returned states never decrease, and equal the committed latest state.
package main

import (
	"fmt"
	"os"
	"runtime"
	"sort"
	"sync"
	"sync/atomic"
	"time"

	"verifharness/cmd/c19/chain"
	"verifharness/vh"
)

type replay struct {
	Seed   uint64     `json:"seed"`
	Chain  int        `json:"chain"`
	Cache  int        `json:"cache"`
	Cfg    chain.Cfg  `json:"cfg"`
	Ops    []chain.Op `json:"ops"`
	Detail any        `json:"detail,omitempty"`
}

func main() {
	o := vh.ParseFlags()
	chain.Supervise(o, "harness supervisor")
	res := vh.NewResult("one evaluation = one read of the real Center compared with the oracle; a case = one history (3-30 blocks, random merge/remove/clean points) with every read kind after every step; non-trivial = history with at least one merge and one suffrage change")
	cases := &vh.Cases{Import: "From MV Require Import C19.Model.", Type: "case", CheckFn: "check", Shard: 25}
	t0 := time.Now()
	if o.Replay != "" {
		var rp replay
		if err := vh.ReadReplay(o.Replay, &rp); err != nil {
			panic(err)
		}
		w := chain.NewWorld(vh.NewRand(rp.Seed), rp.Cfg.NKeys, rp.Cfg.NIn, rp.Cfg.NKn)
		ops := chain.Rebuild(w, rp.Ops)
		_, _, mism, err := chain.Run(w, ops, rp.Cfg, rp.Cache, nil)
		fmt.Printf("replay: %d steps, err=%v, %d mismatching reads\n", len(ops), err, len(mism))
		for i, m := range mism {
			if i < 20 {
				fmt.Printf("  step %d %s: impl=%d oracle=%d\n", m.Step, m.Read, m.Impl, m.Want)
			}
			res.Fail("read-mismatch:"+chain.Kind(m.Read), fmt.Sprintf("replay step %d: %s = %d, want %d", m.Step, m.Read, m.Impl, m.Want), rp)
		}
	}

	// corpus: two cooperating caches -- the permanent state cache holds states read from the permanent
	// store; a later block rewrites them through a write database whose own state cache is smaller than the
	// block (so it does not hold every state of its block); after that block is merged the reads must give
	// the new states (write cache sizes 1, 2 and none; permanent cache 100 and 2)
	for i, wc := range []int{1, 2, 0, 1} {
		cr := vh.NewRand(uint64(900 + i))
		w := chain.NewWorld(cr, 6, 2, 2)
		keys := []int{2, 3, 4, 5}
		kops := [][]int{nil, nil, nil, nil}
		b0 := w.NewBlock(chain.BlockShape{H: 0, Keys: keys, KeyOps: kops, Suf: true, SH: 0, Pol: true})
		b1 := w.NewBlock(chain.BlockShape{H: 1})
		b2 := w.NewBlock(chain.BlockShape{H: 2, Keys: keys, KeyOps: kops, Suf: true, SH: 1, Pol: true})
		b3 := w.NewBlock(chain.BlockShape{H: 3})
		ops := []chain.Op{{T: "W", B: b0}, {T: "W", B: b1}, {T: "M"}, {T: "W", B: b2, Cache: wc}, {T: "W", B: b3}, {T: "M"}, {T: "M"}, {T: "C", N: 0}}
		cfg := chain.Cfg{NKeys: 6, HLo: -1, HHi: 5, SHHi: 3, NIn: 2, NKn: 2}
		runOps(o, res, cases, w, ops, cfg, []int{100, 100, 100, 2}[i], -1-i, 4)
	}

	// corpus: one BIG block (more state keys and more known operations than LeveldbPermanent.batchlimit, which
	// is regenerated from the source) merged into the permanent store; every key read back after every step
	for i, pc := range []int{0, 100} {
		w, ops, cfg := chain.BigHistory(vh.NewRand(uint64(950+i)), false)
		runOps(o, res, cases, w, ops, cfg, pc, -10-i, 4)
	}
	res.Distribution["perm_batchlimit"] = chain.BatchLimit()

	nchains := o.Pick(60, 1500)
	r := vh.NewRand(o.Seed)
	for ci := 0; ci < nchains; ci++ {
		cr := vh.NewRand(r.U64())
		p := chain.RandomParams(cr, false)
		runChain(o, res, cases, cr, p, ci)
	}
	cacheRace(o, res)
	concurrent(o, res, vh.NewRand(r.U64()))

	res.ModelCases = cases.Len()
	res.Note(fmt.Sprintf("harness wall %.1fs", time.Since(t0).Seconds()))
	if err := cases.Write(o.Out); err != nil {
		panic(err)
	}
	res.Write(o.Out)
}

func runChain(o *vh.Opts, res *vh.Result, cases *vh.Cases, cr *vh.Rand, p chain.Params, ci int) {
	w := chain.NewWorld(cr, p.NKeys, p.NIn, p.NKn)
	ops, cfg := chain.Generate(cr, w, p)
	cache := []int{0, 1, 2, 100, 100}[cr.Intn(5)]
	if p.Base > 0 {
		res.Dist("base>0")
	}
	runOps(o, res, cases, w, ops, cfg, cache, ci, p.Blocks)
}

func runOps(o *vh.Opts, res *vh.Result, cases *vh.Cases, w *chain.World, ops []chain.Op, cfg chain.Cfg, cache, ci, nblocks int) {
	init, steps, mism, err := chain.Run(w, ops, cfg, cache, nil)
	rp := replay{Seed: o.Seed, Chain: ci, Cache: cache, Cfg: cfg, Ops: ops}
	if err != nil {
		res.Fail("harness-error", err.Error(), rp)
		return
	}
	nm, ns, nr := 0, 0, 0
	for _, op := range ops {
		switch {
		case op.T == "M":
			nm++
		case op.T == "R":
			nr++
		case op.T == "W" && op.B.Suf != nil:
			ns++
		}
	}
	nreads := 0
	for _, s := range steps {
		nreads += len(s.Reads)
	}
	res.Evaluations += nreads - 1
	res.Count(fmt.Sprintf("chain-%d", ci), nm > 0 && ns > 0)
	res.Dist(fmt.Sprintf("blocks<=%d", ((nblocks+9)/10)*10))
	res.Dist(fmt.Sprintf("perm_cache=%d", cache))
	for _, op := range ops {
		if op.T == "W" {
			res.Dist(fmt.Sprintf("write_cache=%d", op.Cache))
		}
	}
	if nr > 0 {
		res.Dist("with_remove")
	}
	res.Distribution["steps"] += len(ops)
	res.Distribution["merges"] += nm
	res.Distribution["suffrage_changes"] += ns
	if ci < 3 {
		res.Sample(map[string]any{"chain": ci, "blocks": nblocks, "steps": len(ops), "cfg": cfg, "merges": nm, "removes": nr, "suffrage_changes": ns, "reads": nreads})
	}
	// oracle failures: one Fail per (read kind) per chain, with the first failing step
	seen := map[string]bool{}
	sort.SliceStable(mism, func(i, j int) bool { return mism[i].Step < mism[j].Step })
	for _, m := range mism {
		cl := "read-mismatch:" + chain.Kind(m.Read)
		if seen[cl] {
			continue
		}
		seen[cl] = true
		rp2 := rp
		rp2.Ops = ops[:max(m.Step, 0)+1]
		rp2.Detail = m
		res.Fail(cl, fmt.Sprintf("chain %d step %d: %s = %d, committed chain says %d", ci, m.Step, m.Read, m.Impl, m.Want), rp2)
	}
	// model case
	cases.Add(chain.CoqCase(cfg, init, ops, steps, false), map[string]any{"chain": ci, "cfg": cfg, "ops": ops})
}

// concurrent: free-running readers call Center.State / StateBytes while the main goroutine writes new
// blocks and runs the ticker steps of Center.start (mergePermanent + cleanRemoved(3)).  Oracle (the last
// sentence of the property): per reader and key the returned heights never decrease, and every answer
// lies between the latest committed state when the read began and the latest one when it ended.
// A read is never made to span more than 3 merges (the retention the code itself documents: the last 3
// removed temps are kept "for safe concurrency"): after every 3 merges the ticker waits for the reads in
// flight (theorem C19_concurrent_state has the same hypothesis).
func concurrent(o *vh.Opts, res *vh.Result, r *vh.Rand) {
	rounds := o.Pick(6, 60)
	for round := 0; round < rounds; round++ {
		cr := vh.NewRand(r.U64())
		nkeys := cr.Range(4, 7)
		w := chain.NewWorld(cr, nkeys, 3, 3)
		p := chain.Params{Blocks: cr.Range(25, 45), NKeys: nkeys, NIn: 3, NKn: 3, StartSuf: true}
		ops, _ := chain.GenerateWrites(cr, w, p)
		blocks := make([]*chain.Blk, 0, len(ops))
		for _, op := range ops {
			blocks = append(blocks, op.B)
		}
		// latest[k][h] = id of the latest state of key k among blocks 0..h (-1 none)
		latest := make([][]int64, nkeys)
		for k := range latest {
			latest[k] = make([]int64, len(blocks))
			cur := int64(-1)
			for h, b := range blocks {
				switch {
				case k == 0 && b.Suf != nil:
					cur = int64(b.Suf.StateID)
				case k == 1 && b.Pol != nil:
					cur = int64(b.Pol.StateID)
				}
				for _, s := range b.States {
					if s.Key == k {
						cur = int64(s.ID)
					}
				}
				latest[k][h] = cur
			}
		}
		heightOf := map[int64]int64{} // state id -> block height
		for h, b := range blocks {
			if b.Suf != nil {
				heightOf[int64(b.Suf.StateID)] = int64(h)
			}
			if b.Pol != nil {
				heightOf[int64(b.Pol.StateID)] = int64(h)
			}
			for _, s := range b.States {
				heightOf[int64(s.ID)] = int64(h)
			}
		}
		cache := []int{0, 1, 100}[cr.Intn(3)]
		if v := os.Getenv("C19_CONC_CACHE"); v != "" {
			fmt.Sscanf(v, "%d", &cache)
		}
		d := chain.NewDB(w, cache)
		var committed, started atomic.Int64
		committed.Store(-1)
		started.Store(-1)
		write := func(i int) bool {
			started.Store(int64(i))
			ok, err := d.Write(blocks[i], chain.WriteCacheSize(cr))
			if err != nil || !ok {
				res.Fail("concurrent-write-failed", fmt.Sprintf("round %d block %d: ok=%v err=%v", round, i, ok, err), map[string]any{"seed": o.Seed, "round": round})
				return false
			}
			committed.Store(int64(i))
			return true
		}
		next := 0
		for ; next < 8; next++ {
			if !write(next) {
				return
			}
		}
		var inflight sync.RWMutex
		var stop atomic.Bool
		var wg sync.WaitGroup
		var mu sync.Mutex
		nreads := 0
		fail := func(class, desc string) {
			mu.Lock()
			defer mu.Unlock()
			res.Fail(class, desc, map[string]any{"seed": o.Seed, "round": round})
		}
		for rd := 0; rd < 4; rd++ {
			wg.Add(1)
			go func(rd int) {
				defer wg.Done()
				rr := vh.NewRand(uint64(round*100 + rd + 1))
				last := make([]int64, nkeys) // last height seen per key
				for i := range last {
					last[i] = -1
				}
				n := 0
				for !stop.Load() {
					k := rr.Intn(nkeys)
					inflight.RLock()
					lo := committed.Load()
					var id int64
					if rr.Bool() {
						id = chain.ImplReader{D: d}.State(k)
					} else {
						id = chain.ImplReader{D: d}.StateBytes(k)
						if id >= 0 {
							if id%4 != 3 {
								fail("concurrent-state-bytes", fmt.Sprintf("round %d key %d: bytes triple %d", round, k, id))
							}
							id /= 4
						}
					}
					hi := started.Load()
					inflight.RUnlock()
					n++
					want0, want1 := latest[k][lo], latest[k][hi]
					switch {
					case id == chain.ResErr || id == chain.ResGarbage:
						fail("concurrent-state-error", fmt.Sprintf("round %d key %d: result %d", round, k, id))
					case id == chain.ResNotFound:
						if want0 >= 0 {
							fail("concurrent-state-stale", fmt.Sprintf("round %d key %d: not found, but state %d (height %d) was committed before the read began", round, k, want0, heightOf[want0]))
						}
					default:
						h := heightOf[id]
						if want0 >= 0 && h < heightOf[want0] {
							fail("concurrent-state-stale", fmt.Sprintf("round %d key %d: state of height %d returned, height %d was committed before the read began", round, k, h, heightOf[want0]))
						}
						if want1 < 0 || h > heightOf[want1] {
							fail("concurrent-state-future", fmt.Sprintf("round %d key %d: state of height %d returned, newest written is %d", round, k, h, want1))
						}
						if h < last[k] {
							fail("concurrent-state-nonmonotone", fmt.Sprintf("round %d key %d reader %d: height %d after height %d", round, k, rd, h, last[k]))
						}
						last[k] = h
					}
				}
				mu.Lock()
				nreads += n
				mu.Unlock()
			}(rd)
		}
		merges := 0
		for next < len(blocks) || merges%3 != 0 {
			switch c := cr.Intn(10); {
			case c < 4 && next < len(blocks):
				if !write(next) {
					stop.Store(true)
					wg.Wait()
					return
				}
				next++
			default:
				merged, err := d.MergePerm()
				if err != nil {
					fail("concurrent-merge-error", err.Error())
				}
				if err := d.Clean(3); err != nil {
					fail("concurrent-clean-error", err.Error())
				}
				if merged {
					merges++
				} else if next >= len(blocks) {
					merges = 0
				}
				if merges%3 == 0 {
					inflight.Lock()   // wait for the reads in flight: no read spans more than 3 merges
					inflight.Unlock() //nolint:staticcheck //...
				}
			}
			if cr.Chance(1, 3) {
				runtime.Gosched()
			}
		}
		time.Sleep(2 * time.Millisecond)
		stop.Store(true)
		wg.Wait()
		d.Close()
		res.Evaluations += nreads
		res.Distribution["concurrent_reads"] += nreads
		res.Distribution["concurrent_merges"] += merges
		res.Dist("concurrent_rounds")
	}
}

// cacheRace: forced schedule through an injectable dependency (the decoder of a state value).
// A reader is held inside LeveldbPermanent.State between the storage read and the update of the
// permanent state cache, while the same key is written by two newer blocks that are merged into the
// permanent store.  Oracle: once the key's newer state has been returned, no later read returns an older one,
// and the final (sequential) read returns the latest committed state.
// With a read that cannot interleave with MergeTempDatabase the merges simply wait for the reader; the
// scenario then releases the reader first (the verdict is the oracle on the final reads in both cases).
func cacheRace(o *vh.Opts, res *vh.Result) {
	for _, cache := range []int{1, 100} {
		r := vh.NewRand(uint64(4242 + cache))
		w := chain.NewWorld(r, 4, 2, 2)
		d := chain.NewDB(w, cache)
		mk := func(h int64, withKey, suf bool) *chain.Blk {
			sh := chain.BlockShape{H: h, Suf: suf, SH: 0, Pol: suf, HookKey: 2}
			if withKey {
				sh.Keys, sh.KeyOps = []int{2}, [][]int{nil}
			}
			return w.NewBlock(sh)
		}
		rp := map[string]any{"scenario": "cache-race", "cache": cache}
		step := func(what string, ok bool, err error) bool {
			if err != nil || !ok {
				res.Fail("harness-error", fmt.Sprintf("cache-race %s: ok=%v err=%v", what, ok, err), rp)
				return false
			}
			return true
		}
		b0, b1, b2, b3 := mk(0, true, true), mk(1, false, false), mk(2, true, false), mk(3, false, false)
		good := true
		for _, b := range []*chain.Blk{b0, b1} {
			ok, err := d.Write(b, 0)
			good = good && step("write", ok, err)
		}
		ok, err := d.MergePerm() // block 0 (with key 2) is in the permanent store now; its cache entry is purged
		if !(good && step("merge", ok, err)) {
			d.Close()
			continue
		}
		v0, v2 := int64(b0.States[0].ID), int64(b2.States[0].ID)
		inDecode, release := make(chan struct{}), make(chan struct{})
		var first atomic.Bool
		hook := func() { // only the first decode (reader 1, inside the permanent database) is held
			if first.CompareAndSwap(false, true) {
				close(inDecode)
				<-release
			}
		}
		chain.DecodeHook.Store(&hook)
		got1 := make(chan int64, 1)
		go func() { got1 <- chain.ImplReader{D: d}.State(2) }() // reader 1: held inside LeveldbPermanent.State
		select {
		case <-inDecode:
		case <-time.After(5 * time.Second):
			res.Fail("harness-error", "cache-race: reader never reached the decoder", rp)
			chain.DecodeHook.Store(nil)
			d.Close()
			continue
		}
		for _, b := range []*chain.Blk{b2, b3} {
			ok, err := d.Write(b, 0)
			good = good && step("write", ok, err)
		}
		seen := chain.ImplReader{D: d}.State(2) // the newer state is returned here (block 2 is a temp)
		merged := make(chan error, 1)
		go func() {
			for i := 0; i < 2; i++ {
				if _, err := d.MergePerm(); err != nil {
					merged <- err
					return
				}
			}
			merged <- nil
		}()
		interleaved := false
		select {
		case err := <-merged: // the merges ran while the reader sat between read and cache update
			interleaved = true
			close(release)
			if err != nil {
				res.Fail("harness-error", "cache-race merge: "+err.Error(), rp)
			}
		case <-time.After(300 * time.Millisecond): // the merge waits for the reader
			close(release)
			if err := <-merged; err != nil {
				res.Fail("harness-error", "cache-race merge: "+err.Error(), rp)
			}
		}
		r1 := <-got1
		chain.DecodeHook.Store(nil)
		after := chain.ImplReader{D: d}.State(2)
		again := chain.ImplReader{D: d}.State(2)
		res.Evaluations += 4
		res.Dist(fmt.Sprintf("cache_race_interleaved=%v", interleaved))
		rp["detail"] = map[string]any{"reader1": r1, "seen_before_merges": seen, "after": after, "again": again, "v0": v0, "v2": v2, "interleaved": interleaved}
		if seen != v2 {
			res.Fail("read-mismatch:State", fmt.Sprintf("cache-race: State(2) = %d with block 2 as a temp, committed chain says %d", seen, v2), rp)
		}
		if r1 != v0 && r1 != v2 {
			res.Fail("read-mismatch:State", fmt.Sprintf("cache-race: held reader got %d (neither the state at its start %d nor the latest %d)", r1, v0, v2), rp)
		}
		if after != v2 || again != v2 {
			res.Fail("state-older-than-returned", fmt.Sprintf("cache-race (cache size %d): State(2) returned state %d (height 2), then, after blocks 1 and 2 were merged while another reader was inside LeveldbPermanent.State, returns %d/%d (height 0): the permanent state cache holds the old state", cache, seen, after, again), rp)
		}
		d.Close()
	}
}
