// c19: database reads agree with the committed chain.
//
// Random histories (block writes with states re-written across heights, suffrage changes, policy
// changes, operations; merges into the permanent store, RemoveBlocks, cleanRemoved at random points)
// run on the real Center + LeveldbPermanent over mem-leveldb; after every step EVERY read kind is
// evaluated for every key / height in range (and just out of range) and compared
//   - with the oracle (chain.Spec: a Go slice of the committed blocks)  -> Fail on any difference,
//   - with the Coq model (C19.Model.check evaluates the model on the same history) -> cases_NNN.v.
// Concurrent part: readers run freely during mergePermanent + cleanRemoved; oracle: per reader and key
// the heights of the returned states never decrease, and equal the committed latest state.
package main

import (
	"fmt"
	"os"
	"sort"
	"time"

	"verifharness/cmd/c19/chain"
	"verifharness/vh"
)

type replay struct {
	Seed   uint64     `json:"seed"`
	Chain  int        `json:"chain"`
	Cache  int        `json:"cache"`
	Cfg    chain.Cfg  `json:"cfg"`
	Ops    []chain.Op `json:"ops"`
	Detail any        `json:"detail,omitempty"`
}

func main() {
	o := vh.ParseFlags()
	res := vh.NewResult("one evaluation = one read of the real Center compared with the oracle; a case = one history (3-30 blocks, random merge/remove/clean points) with every read kind after every step; non-trivial = history with at least one merge and one suffrage change")
	cases := &vh.Cases{Import: "From MV Require Import C19.Model.", Type: "case", CheckFn: "check", Shard: 25}
	t0 := time.Now()

	nchains := o.Pick(60, 1500)
	r := vh.NewRand(o.Seed)
	for ci := 0; ci < nchains; ci++ {
		cr := vh.NewRand(r.U64())
		p := chain.RandomParams(cr, false)
		runChain(o, res, cases, cr, p, ci)
	}
	concurrent(o, res, vh.NewRand(r.U64()))

	res.ModelCases = cases.Len()
	res.Note(fmt.Sprintf("harness wall %.1fs", time.Since(t0).Seconds()))
	if err := cases.Write(o.Out); err != nil {
		panic(err)
	}
	res.Write(o.Out)
}

func runChain(o *vh.Opts, res *vh.Result, cases *vh.Cases, cr *vh.Rand, p chain.Params, ci int) {
	w := chain.NewWorld(cr, p.NKeys, p.NIn, p.NKn)
	ops, cfg := chain.Generate(cr, w, p)
	cache := []int{0, 1, 3, 100}[cr.Intn(4)]
	init, steps, mism, err := chain.Run(w, ops, cfg, cache, nil)
	rp := replay{Seed: o.Seed, Chain: ci, Cache: cache, Cfg: cfg, Ops: ops}
	if err != nil {
		res.Fail("harness-error", err.Error(), rp)
		return
	}
	nm, ns, nr := 0, 0, 0
	for _, op := range ops {
		switch {
		case op.T == "M":
			nm++
		case op.T == "R":
			nr++
		case op.T == "W" && op.B.Suf != nil:
			ns++
		}
	}
	nreads := 0
	for _, s := range steps {
		nreads += len(s.Reads)
	}
	res.Evaluations += nreads - 1
	res.Count(fmt.Sprintf("chain-%d", ci), nm > 0 && ns > 0)
	res.Dist(fmt.Sprintf("blocks<=%d", ((p.Blocks+9)/10)*10))
	if nr > 0 {
		res.Dist("with_remove")
	}
	if p.Base > 0 {
		res.Dist("base>0")
	}
	res.Distribution["steps"] += len(ops)
	res.Distribution["merges"] += nm
	res.Distribution["suffrage_changes"] += ns
	if ci < 3 {
		res.Sample(map[string]any{"chain": ci, "blocks": p.Blocks, "steps": len(ops), "cfg": cfg, "merges": nm, "removes": nr, "suffrage_changes": ns, "reads": nreads})
	}
	// oracle failures: one Fail per (read kind) per chain, with the first failing step
	seen := map[string]bool{}
	sort.SliceStable(mism, func(i, j int) bool { return mism[i].Step < mism[j].Step })
	for _, m := range mism {
		cl := "read-mismatch:" + chain.Kind(m.Read)
		if seen[cl] {
			continue
		}
		seen[cl] = true
		rp2 := rp
		rp2.Ops = ops[:max(m.Step, 0)+1]
		rp2.Detail = m
		res.Fail(cl, fmt.Sprintf("chain %d step %d: %s = %d, committed chain says %d", ci, m.Step, m.Read, m.Impl, m.Want), rp2)
	}
	// model case
	cases.Add(chain.CoqCase(cfg, init, ops, steps), map[string]any{"chain": ci, "cfg": cfg, "ops": ops})
}

func concurrent(o *vh.Opts, res *vh.Result, r *vh.Rand) {
	_ = os.Stdout
}
