// c38: the real isaac.ProposalMaker over the real TempPool.
//  (1) sequential histories (stub getOperations, changing last block map, optional clean-up) against the Coq
//      model and the property's statement;
//  (2) 8 goroutines calling Make/PreferEmpty for a few positions while operations (with repeated facts) are added
//      to the real operation pool that feeds the maker: oracle on the results.
package main

import (
	"context"
	"fmt"
	"sort"
	"strings"
	"sync"
	"sync/atomic"
	"time"

	"github.com/spikeekips/mitum/base"
	"github.com/spikeekips/mitum/isaac"
	isaacdatabase "github.com/spikeekips/mitum/isaac/database"
	"github.com/spikeekips/mitum/util"
	"github.com/spikeekips/mitum/util/valuehash"
	"verifharness/poolh"
	"verifharness/vh"
)

var netID = base.NetworkID("verif-c38")

type pos struct {
	h     int64
	round uint64
	prev  int
}

func (p pos) rest() uint64 { return p.round*16 + uint64(p.prev) }
func (p pos) coq() string  { return vh.Tuple(vh.Z(p.h), vh.N(p.rest())) }

func hashOf(kind string, i int) util.Hash {
	return valuehash.NewSHA256([]byte(fmt.Sprintf("verif-c38-%s-%d", kind, i)))
}

type lastInfo struct {
	m  int64
	mh int
}

// faultPool is the maker's isaac.ProposalPool: the real TempPool, except that SetProposal fails (without writing)
// while failSet > 0 -- a leveldb write error / closed storage at the one point where the node's memory of what it
// proposed is written.
type faultPool struct {
	*isaacdatabase.TempPool
	failSet  atomic.Int32 // number of SetProposal calls still to fail
	setFails atomic.Int32 // SetProposal calls that failed
}

var errInjected = fmt.Errorf("verif injected pool write error")

func (f *faultPool) SetProposal(pr base.ProposalSignFact) (bool, error) {
	if f.failSet.Load() > 0 {
		f.failSet.Add(-1)
		f.setFails.Add(1)
		return false, errInjected
	}
	return f.TempPool.SetProposal(pr)
}

type env struct {
	fp     *faultPool
	pool   *isaacdatabase.TempPool
	maker  *isaac.ProposalMaker
	local  base.LocalNode
	last   atomic.Pointer[lastInfo]
	getops atomic.Pointer[func(context.Context, base.Height) ([][2]util.Hash, error)]
	opid   map[string]int
	factid map[string]int
}

func newEnv(seed uint64) *env {
	p, _ := poolh.NewPool()
	e := &env{pool: p, fp: &faultPool{TempPool: p}, opid: map[string]int{}, factid: map[string]int{}}
	e.local = base.NewBaseLocalNode(base.DummyNodeHint, poolh.Key(seed, 0), poolh.Addr(0))
	for i := 0; i < 64; i++ {
		e.opid[hashOf("op", i).String()] = i
		e.factid[hashOf("fact", i).String()] = i
	}
	e.maker = isaac.NewProposalMaker(e.local, netID,
		func(ctx context.Context, h base.Height) ([][2]util.Hash, error) {
			if f := e.getops.Load(); f != nil {
				return (*f)(ctx, h)
			}
			return nil, nil
		},
		e.fp,
		func() (base.BlockMap, bool, error) {
			l := e.last.Load()
			if l == nil {
				return nil, false, nil
			}
			return base.NewDummyBlockMap(base.NewDummyManifest(base.Height(l.m), hashOf("block", l.mh))), true, nil
		})
	return e
}

type made struct {
	id   string // fact hash + signature: identity of the signed proposal
	fact string
	ops  [][2]int
}

func (e *env) describe(pr base.ProposalSignFact) made {
	m := made{fact: pr.Fact().Hash().String()}
	m.id = m.fact + "/" + string(pr.Signs()[0].Signature())
	for _, o := range pr.ProposalFact().Operations() {
		a, b := -1, -1
		if o[0] != nil {
			if i, ok := e.opid[o[0].String()]; ok {
				a = i
			}
		}
		if o[1] != nil {
			if i, ok := e.factid[o[1].String()]; ok {
				b = i
			}
		}
		m.ops = append(m.ops, [2]int{a, b})
	}
	return m
}

// property, second sentence: distinct operation hashes and distinct facts (on the raw hashes)
func distinctOps(pr base.ProposalSignFact) string {
	so, sf := map[string]bool{}, map[string]bool{}
	for _, o := range pr.ProposalFact().Operations() {
		if o[0] == nil || o[1] == nil {
			return "nil hash listed"
		}
		if so[o[0].String()] {
			return "operation " + o[0].String() + " listed twice"
		}
		if sf[o[1].String()] {
			return "fact " + o[1].String() + " listed twice"
		}
		so[o[0].String()], sf[o[1].String()] = true, true
	}
	return ""
}

func coqOps(l [][2]int, sorted bool) string {
	s := make([][2]int, len(l))
	copy(s, l)
	if sorted {
		sort.Slice(s, func(i, j int) bool {
			if s[i][0] != s[j][0] {
				return s[i][0] < s[j][0]
			}
			return s[i][1] < s[j][1]
		})
	}
	items := make([]string, len(s))
	for i, x := range s {
		items[i] = vh.Tuple(vh.N(uint64(x[0])), vh.N(uint64(x[1])))
	}
	return vh.List(items)
}

// ---------------------------------------------------------------- sequential histories

type jstep map[string]any

type seq struct {
	e       *env
	res     *vh.Result
	terms   []string
	hist    []jstep
	failed  map[string]bool
	ids     map[string]int  // fact hash -> order of first appearance
	given   map[pos]string  // position -> identity of the signed proposal returned first
	cleaned map[pos]bool    // a clean-up ran since the position was first answered
}

func newSeq(seed uint64, res *vh.Result) *seq {
	return &seq{e: newEnv(seed), res: res, failed: map[string]bool{}, ids: map[string]int{}, given: map[pos]string{}, cleaned: map[pos]bool{}}
}

func (s *seq) fail(class, desc string) {
	if s.failed[class] {
		return
	}
	s.failed[class] = true
	h := make([]jstep, len(s.hist))
	copy(h, s.hist)
	s.res.Fail(class, desc, h)
}

func (s *seq) setLast(m int64, mh int) {
	s.e.last.Store(&lastInfo{m, mh})
	s.hist = append(s.hist, jstep{"op": "setlast", "m": m, "hash": mh})
	s.terms = append(s.terms, fmt.Sprintf("ISetLast %s %s", vh.Z(m), vh.N(uint64(mh))))
}

func (s *seq) clean() {
	_, _ = s.e.pool.VerifCleanProposals()
	// the fact hash covers the proposal time at millisecond precision: let the clock move on, as it has when the
	// periodic clean-up runs, so that a proposal made again for a forgotten position is a new fact (the model's
	// fresh identifier)
	time.Sleep(3 * time.Millisecond)
	s.hist = append(s.hist, jstep{"op": "cleanproposals"})
	s.terms = append(s.terms, "IClean")
	for p := range s.given {
		s.cleaned[p] = true
	}
}

func (s *seq) observe(p pos, what string, pr base.ProposalSignFact, err error) string {
	s.res.Count("", false)
	if err != nil {
		if strings.Contains(err.Error(), errInjected.Error()) {
			return "OPoolErr"
		}
		return "OTooOld" // the only other error of the maker in these histories; the model decides whether it is due
	}
	if pr == nil {
		s.fail("maker-nil", what+" returned neither a proposal nor an error")
		return "OTooOld"
	}
	m := s.e.describe(pr)
	if _, ok := s.ids[m.fact]; !ok {
		s.ids[m.fact] = len(s.ids)
	}
	if first, ok := s.given[p]; ok && first != m.id {
		if s.cleaned[p] {
			s.fail("proposal-forgotten-after-cleanup", fmt.Sprintf("%s at %+v returned a different signed proposal than before; a proposal clean-up ran in between", what, p))
		} else {
			s.fail("different-proposal-for-position", fmt.Sprintf("%s at %+v returned a different signed proposal than before", what, p))
		}
		s.given[p] = m.id
		s.cleaned[p] = false
	} else if !ok {
		s.given[p] = m.id
	}
	if d := distinctOps(pr); d != "" {
		s.fail("proposal-duplicate-operations", what+": "+d)
	}
	f := pr.ProposalFact()
	if f.Point().Height() != base.Height(p.h) || f.Point().Round() != base.Round(p.round) || !f.Proposer().Equal(s.e.local.Address()) || !f.PreviousBlock().Equal(hashOf("block", p.prev)) {
		s.fail("proposal-for-other-position", fmt.Sprintf("%s at %+v returned a proposal of %v", what, p, f.Point()))
	}
	if err := pr.IsValid(netID); err != nil {
		s.fail("proposal-invalid", what+": "+err.Error())
	}
	return fmt.Sprintf("(OProp %s %s)", vh.N(uint64(s.ids[m.fact])), coqOps(m.ops, true))
}

func (s *seq) make(p pos, ops [][2]int) {
	f := func(context.Context, base.Height) ([][2]util.Hash, error) {
		hs := make([][2]util.Hash, len(ops))
		for i, o := range ops {
			hs[i] = [2]util.Hash{hashOf("op", o[0]), hashOf("fact", o[1])}
		}
		return hs, nil
	}
	s.e.getops.Store(&f)
	pr, err := s.e.maker.Make(context.Background(), base.RawPoint(p.h, p.round), hashOf("block", p.prev))
	s.hist = append(s.hist, jstep{"op": "make", "h": p.h, "round": p.round, "prev": p.prev, "ops": ops})
	o := s.observe(p, "Make", pr, err)
	s.terms = append(s.terms, fmt.Sprintf("IMake %s %s %s %s", p.coq(), vh.N(uint64(p.prev)), coqOps(ops, false), o))
}

func (s *seq) preferEmpty(p pos) {
	pr, err := s.e.maker.PreferEmpty(context.Background(), base.RawPoint(p.h, p.round), hashOf("block", p.prev))
	s.hist = append(s.hist, jstep{"op": "preferempty", "h": p.h, "round": p.round, "prev": p.prev})
	o := s.observe(p, "PreferEmpty", pr, err)
	s.terms = append(s.terms, fmt.Sprintf("IPreferEmpty %s %s", p.coq(), o))
}

// callFail: a Make (or PreferEmpty) call during which the pool's SetProposal fails.  A call whose write failed must
// return an error, not a proposal: the pool is the node's only memory of what it proposed for the position.
func (s *seq) callFail(p pos, ops [][2]int, prefer bool) {
	f := func(context.Context, base.Height) ([][2]util.Hash, error) {
		hs := make([][2]util.Hash, len(ops))
		for i, o := range ops {
			hs[i] = [2]util.Hash{hashOf("op", o[0]), hashOf("fact", o[1])}
		}
		return hs, nil
	}
	s.e.getops.Store(&f)
	before := s.e.fp.setFails.Load()
	s.e.fp.failSet.Store(1)
	var pr base.ProposalSignFact
	var err error
	what := "Make (pool write fails)"
	if prefer {
		what = "PreferEmpty (pool write fails)"
		pr, err = s.e.maker.PreferEmpty(context.Background(), base.RawPoint(p.h, p.round), hashOf("block", p.prev))
	} else {
		pr, err = s.e.maker.Make(context.Background(), base.RawPoint(p.h, p.round), hashOf("block", p.prev))
	}
	s.e.fp.failSet.Store(0)
	s.hist = append(s.hist, jstep{"op": "callfail", "prefer": prefer, "h": p.h, "round": p.round, "prev": p.prev, "ops": ops})
	if s.e.fp.setFails.Load() != before && err == nil && pr != nil {
		s.fail("proposal-handed-out-not-stored", fmt.Sprintf("%s at %+v: SetProposal failed but the call returned a signed proposal: the node will not remember it", what, p))
	}
	o := s.observe(p, what, pr, err)
	s.terms = append(s.terms, fmt.Sprintf("ICallFail %s %s", p.coq(), o))
}

func (s *seq) finish(cases *vh.Cases, label string) {
	cases.Add(vh.List(s.terms), map[string]any{"label": label, "history": s.hist})
	_ = s.e.pool.Close()
}

func randOps(rd *vh.Rand) [][2]int {
	n := rd.Intn(5)
	po, pf := rd.Perm(12), rd.Perm(12)
	ops := make([][2]int, n)
	for i := 0; i < n; i++ {
		ops[i] = [2]int{po[i], pf[i]} // distinct operations and distinct facts: what a correct source returns
	}
	return ops
}

func generated(rd *vh.Rand, seed uint64, res *vh.Result, cases *vh.Cases, withClean bool) {
	s := newSeq(seed, res)
	m := int64(rd.Range(5, 40))
	mh := rd.Intn(3)
	if rd.Chance(4, 5) {
		s.setLast(m, mh)
	}
	n := rd.Range(6, 30)
	var used []pos
	repeat := false
	for i := 0; i < n; i++ {
		var p pos
		if len(used) > 0 && rd.Chance(1, 2) {
			p = used[rd.Intn(len(used))]
			repeat = true
		} else {
			p = pos{h: m + int64(rd.Range(-3, 3)), round: uint64(rd.Intn(2)), prev: rd.Intn(3)}
			if p.h < 1 {
				p.h = 1
			}
			if rd.Chance(1, 12) {
				p.h = m + int64(rd.Range(4, 30)) // unreachable height: empty proposal
			}
			used = append(used, p)
		}
		switch c := rd.Intn(12); {
		case c < 7:
			s.make(p, randOps(rd))
			res.Dist("seq_make")
		case c < 9:
			s.preferEmpty(p)
			res.Dist("seq_prefer_empty")
		case c < 10:
			s.callFail(p, randOps(rd), rd.Bool())
			res.Dist("seq_call_with_failing_pool_write")
			if rd.Bool() { // asked again for the same position right away
				s.make(p, randOps(rd))
			}
		case c < 11:
			if rd.Bool() {
				m++
				mh = rd.Intn(3)
			}
			s.setLast(m, mh)
			res.Dist("seq_set_last")
		default:
			if withClean {
				s.clean()
				res.Dist("seq_clean")
			}
		}
	}
	for _, p := range used {
		s.make(p, randOps(rd))
	}
	if len(res.Samples) < 2 {
		res.Sample(map[string]any{"history_prefix": s.hist[:min(len(s.hist), 5)]})
	}
	res.Count(fmt.Sprint(s.hist), repeat)
	s.finish(cases, "generated")
}

func corpus(seed uint64, res *vh.Result, cases *vh.Cases) {
	// all branches of Make for last block (10, hash 0)
	s := newSeq(seed, res)
	p := pos{h: 11, round: 0, prev: 0}
	s.make(p, [][2]int{{1, 1}, {2, 2}}) // no last block map yet: new proposal with operations
	s.setLast(10, 0)
	s.make(p, [][2]int{{3, 3}})                           // same position: the pooled one
	s.preferEmpty(p)                                      // also through PreferEmpty
	s.make(pos{h: 11, round: 1, prev: 1}, [][2]int{{3, 3}}) // next height but another previous block: empty
	s.make(pos{h: 13, round: 0, prev: 0}, [][2]int{{3, 3}}) // unreachable height: empty
	s.make(pos{h: 8, round: 0, prev: 0}, [][2]int{{3, 3}})  // too old
	s.preferEmpty(pos{h: 8, round: 0, prev: 0})
	s.make(pos{h: 9, round: 0, prev: 2}, [][2]int{{4, 4}}) // m-1: allowed
	s.make(pos{h: 10, round: 2, prev: 2}, nil)
	s.preferEmpty(pos{h: 12, round: 0, prev: 0})
	s.make(pos{h: 12, round: 0, prev: 0}, [][2]int{{5, 5}}) // PreferEmpty came first: stays empty
	s.setLast(11, 1)
	s.make(p, [][2]int{{6, 6}})
	res.Count("corpus-branches", true)
	s.finish(cases, "corpus: branches of Make / PreferEmpty")

	// the pool write fails for the first proposal of a position; the node is asked again
	s = newSeq(seed, res)
	s.setLast(10, 0)
	s.callFail(p, [][2]int{{1, 1}}, false)
	s.make(p, [][2]int{{2, 2}})
	s.callFail(p, [][2]int{{3, 3}}, false) // now pooled: found before any write
	s.preferEmpty(p)
	q := pos{h: 11, round: 1, prev: 0}
	s.callFail(q, nil, true)
	s.callFail(q, [][2]int{{4, 4}}, false)
	s.preferEmpty(q)
	s.make(q, [][2]int{{5, 5}})
	s.callFail(pos{h: 8, round: 0, prev: 0}, nil, false) // too old comes first
	res.Count("corpus-pool-write-fails", true)
	s.finish(cases, "corpus: pool write fails, asked again")

	// KNOWN FINDING witness: a request for a far-future point stores an empty proposal at a great height; the
	// periodic clean-up then removes the proposals of the current height; the next request for the current
	// position is answered with a different proposal
	s = newSeq(seed, res)
	s.setLast(10, 0)
	s.make(p, [][2]int{{1, 1}})
	s.make(pos{h: 40, round: 0, prev: 0}, nil)
	s.clean()
	s.make(p, [][2]int{{2, 2}})
	res.Count("corpus-forgotten", true)
	s.finish(cases, "corpus: far-future request + clean-up (known finding witness)")
}

// ---------------------------------------------------------------- concurrent

func concurrent(rd *vh.Rand, seed uint64, res *vh.Result, n int) {
	for c := 0; c < n; c++ {
		e := newEnv(seed + uint64(c))
		m := int64(20)
		e.last.Store(&lastInfo{m, 0})
		limit := uint64(rd.Range(1, 6))
		getops := func(ctx context.Context, h base.Height) ([][2]util.Hash, error) {
			return e.pool.OperationHashes(ctx, h, limit, nil)
		}
		e.getops.Store(&getops)
		positions := []pos{{h: 21, round: 0, prev: 0}, {h: 21, round: 1, prev: 0}, {h: 21, round: 0, prev: 1}, {h: 23, round: 0, prev: 0}, {h: 20, round: 3, prev: 2}}
		type answer struct {
			p   pos
			id  string
			dup string
		}
		var mu sync.Mutex
		var answers []answer
		stop := make(chan struct{})
		// the pool already holds several facts, each signed by 1-4 different keys, when the first proposals are made
		for f := 0; f < 7; f++ {
			for k, nk := 0, rd.Range(1, 4); k < nk; k++ {
				tok := []byte(fmt.Sprintf("verif-c38-fact-%d", f))
				if op, err := isaac.NewDummyOperation(isaac.NewDummyOperationFact(tok, util.BytesToByter(tok)), poolh.Key(seed, k), netID); err == nil {
					_, _ = e.pool.SetOperation(context.Background(), op)
				}
			}
		}
		var adder sync.WaitGroup
		adder.Add(1)
		go func() { // operations keep arriving, facts repeat (re-signed by other keys)
			defer adder.Done()
			for i := 0; ; i++ {
				select {
				case <-stop:
					return
				default:
				}
				tok := []byte(fmt.Sprintf("verif-c38-fact-%d", i%7))
				op, err := isaac.NewDummyOperation(isaac.NewDummyOperationFact(tok, util.BytesToByter(tok)), poolh.Key(seed, i%5), netID)
				if err == nil {
					_, _ = e.pool.SetOperation(context.Background(), op)
				}
			}
		}()
		var wg sync.WaitGroup
		calls := make([][]int, 8)
		for g := 0; g < 8; g++ {
			for k := 0; k < 12; k++ {
				calls[g] = append(calls[g], rd.Intn(len(positions))*2+rd.Intn(2))
			}
		}
		for g := 0; g < 8; g++ {
			g := g
			wg.Add(1)
			go func() {
				defer wg.Done()
				for _, cl := range calls[g] {
					p := positions[cl/2]
					var pr base.ProposalSignFact
					var err error
					if cl%2 == 0 {
						pr, err = e.maker.Make(context.Background(), base.RawPoint(p.h, p.round), hashOf("block", p.prev))
					} else {
						pr, err = e.maker.PreferEmpty(context.Background(), base.RawPoint(p.h, p.round), hashOf("block", p.prev))
					}
					if err != nil || pr == nil {
						mu.Lock()
						answers = append(answers, answer{p: p, id: "error: " + fmt.Sprint(err)})
						mu.Unlock()
						continue
					}
					a := answer{p: p, id: pr.Fact().Hash().String() + "/" + string(pr.Signs()[0].Signature()), dup: distinctOps(pr)}
					mu.Lock()
					answers = append(answers, a)
					mu.Unlock()
				}
			}()
		}
		wg.Wait()
		close(stop)
		adder.Wait()
		first := map[pos]string{}
		nonEmpty := 0
		rp := map[string]any{"kind": "concurrent", "limit": limit, "goroutines": 8}
		for _, a := range answers {
			res.Count("", false)
			if len(a.id) > 6 && a.id[:6] == "error:" {
				res.Fail("maker-error", a.id, rp)
				continue
			}
			if f, ok := first[a.p]; ok && f != a.id {
				res.Fail("different-proposal-for-position", fmt.Sprintf("concurrent Make/PreferEmpty at %+v returned two different signed proposals", a.p), rp)
			}
			first[a.p] = a.id
			if a.dup != "" {
				res.Fail("proposal-duplicate-operations", "concurrent: "+a.dup, rp)
			}
		}
		for _, p := range positions { // what did the proposals list?
			if pr, found, _ := e.pool.ProposalByPoint(base.RawPoint(p.h, p.round), e.local.Address(), hashOf("block", p.prev)); found && len(pr.ProposalFact().Operations()) > 0 {
				nonEmpty++
			}
		}
		res.Dist(fmt.Sprintf("concurrent_proposals_with_operations_%d", nonEmpty))
		res.Count(fmt.Sprintf("concurrent-%d", c), true)
		_ = e.pool.Close()
	}
}

// ---------------------------------------------------------------- the real operation pool as the maker's source

// pooled: one maker; between Make calls for fresh positions (next rounds / heights) operations arrive in the real
// operation pool: several facts, each submitted 1-4 times (re-signed by different keys, so different operations).
// Every proposal returned is checked: distinct operation hashes, distinct facts, only submitted operations, each
// listed under its own fact.
func pooled(rd *vh.Rand, seed uint64, res *vh.Result, fixed [][]int, label string) {
	e := newEnv(seed)
	defer e.pool.Close()
	e.last.Store(&lastInfo{20, 0})
	limit := uint64(rd.Range(2, 40))
	getops := func(ctx context.Context, h base.Height) ([][2]util.Hash, error) {
		return e.pool.OperationHashes(ctx, h, limit, nil)
	}
	e.getops.Store(&getops)
	factOf := map[string]string{} // operation hash -> fact hash, of everything submitted
	nfacts := 0
	var hist []jstep
	submit := func(f, signer int) {
		tok := []byte(fmt.Sprintf("verif-c38-pooled-fact-%d", f))
		op, err := isaac.NewDummyOperation(isaac.NewDummyOperationFact(tok, util.BytesToByter(tok)), poolh.Key(seed, signer), netID)
		if err != nil {
			panic(err)
		}
		factOf[op.Hash().String()] = op.Fact().Hash().String()
		time.Sleep(time.Microsecond) // the pool orders by a nanosecond time stamp
		_, _ = e.pool.SetOperation(context.Background(), op)
		hist = append(hist, jstep{"op": "submit", "fact": f, "signer": signer})
	}
	rounds := len(fixed)
	if fixed == nil {
		rounds = rd.Range(2, 6)
	}
	maxSigs := 0
	for r := 0; r < rounds; r++ {
		if fixed != nil {
			for f, n := range fixed[r] {
				for k := 0; k < n; k++ {
					submit(f, k)
				}
				if n > maxSigs {
					maxSigs = n
				}
			}
		} else {
			for i, n := 0, rd.Range(1, 4); i < n; i++ {
				f := nfacts
				if nfacts > 0 && rd.Chance(1, 3) {
					f = rd.Intn(nfacts) // more signatures for a fact already in the pool
				} else {
					nfacts++
				}
				sigs := rd.Range(1, 4)
				for k := 0; k < sigs; k++ {
					submit(f, rd.Intn(6))
				}
				if sigs > maxSigs {
					maxSigs = sigs
				}
			}
		}
		p := pos{h: 21, round: uint64(r), prev: 0}
		pr, err := e.maker.Make(context.Background(), base.RawPoint(p.h, p.round), hashOf("block", p.prev))
		hist = append(hist, jstep{"op": "make", "h": p.h, "round": p.round, "prev": p.prev, "limit": limit})
		res.Count("", false)
		rp := map[string]any{"kind": "pooled", "label": label, "history": append([]jstep{}, hist...)}
		if err != nil || pr == nil {
			res.Fail("maker-error", fmt.Sprintf("pooled source: Make at %+v: %v", p, err), rp)
			continue
		}
		if d := distinctOps(pr); d != "" {
			res.Fail("proposal-duplicate-operations", fmt.Sprintf("Make at %+v over the real operation pool (limit %d): %s", p, limit, d), rp)
		}
		for _, o := range pr.ProposalFact().Operations() {
			if o[0] == nil || o[1] == nil {
				continue
			}
			if f, ok := factOf[o[0].String()]; !ok || f != o[1].String() {
				res.Fail("proposal-lists-unknown-operation", fmt.Sprintf("Make at %+v lists operation %s under fact %s: never submitted like that", p, o[0], o[1]), rp)
			}
		}
		if err := pr.IsValid(netID); err != nil {
			res.Fail("proposal-invalid", fmt.Sprintf("Make at %+v over the real operation pool: %v", p, err), rp)
		}
		if again, err := e.maker.Make(context.Background(), base.RawPoint(p.h, p.round), hashOf("block", p.prev)); err != nil || again == nil || !again.Fact().Hash().Equal(pr.Fact().Hash()) {
			res.Fail("different-proposal-for-position", fmt.Sprintf("pooled source: second Make at %+v returned another proposal (err=%v)", p, err), rp)
		}
		res.Dist(fmt.Sprintf("pooled_proposal_operations_%02d", min(len(pr.ProposalFact().Operations()), 20)))
	}
	res.Dist(fmt.Sprintf("pooled_max_signatures_per_fact_%d", maxSigs))
	res.Count("pooled-"+label+fmt.Sprint(hist), maxSigs >= 3)
}

func main() {
	o := vh.ParseFlags()
	res := vh.NewResult("one evaluation = one Make/PreferEmpty answer checked against the statement (same signed proposal per (point, previous block); operations with distinct hashes and distinct facts; proposal is for the asked position and valid); distinct_nontrivial = histories that ask a position again, concurrent runs")
	cases := &vh.Cases{Import: "From MV Require Import C38.Model.", Type: "list item", CheckFn: "check", Shard: 200}
	corpus(o.Seed, res, cases)
	rd := vh.NewRand(o.Seed)
	// corpus: one fact signed three and four times (the third operation of a fact is where a stale fact index shows)
	pooled(rd, o.Seed, res, [][]int{{3, 1}}, "corpus: fact signed 3 times")
	pooled(rd, o.Seed, res, [][]int{{2, 1}, {1, 0}, {1, 2}}, "corpus: third signature arrives later")
	pooled(rd, o.Seed, res, [][]int{{4, 4, 1}, {0, 2, 3}}, "corpus: facts signed 4 times")
	for i, n := 0, o.Pick(150, 3000); i < n; i++ {
		pooled(rd, o.Seed+uint64(i), res, nil, "generated")
	}
	concurrent(rd, o.Seed, res, o.Pick(25, 400))
	n := o.Pick(400, 8000)
	for i := 0; i < n; i++ {
		generated(rd, o.Seed, res, cases, i%10 == 0)
	}
	res.ModelCases = cases.Len()
	if err := cases.Write(o.Out); err != nil {
		panic(err)
	}
	res.Write(o.Out)
}
