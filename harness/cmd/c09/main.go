// c09: the node state machine takes only allowed transitions.
//
// The real isaacstates.States with stub handlers (verif hook isaac/states/states_verif.go) whose exit / new /
// enter outcomes the harness scripts.
//
//	mode A (forced, sequential): random sequences of ensureSwitchState / switchState / AskMoveState (+ the loop
//	        step the daemon would do) / SetAllowConsensus / handover-y-broker changes; after every op the result
//	        class, Current(), AllowedConsensus(), broker mode, the WhenStateSwitched calls and the
//	        whenSetAllowConsensus notification are compared with the Coq model (cases_NNN.v).
//	mode B (forced schedules): a switch is paused at each of its scheduling points in turn (every handler
//	        callback, in particular every handler.state() call made by States) while another goroutine calls
//	        SetAllowConsensus; the oracle looks at what was entered with which allow-consensus value.
//	mode C (free): loop goroutine + requesters + togglers with runtime.Gosched noise; oracle on the enter log,
//	        watchdog for deadlock.
//
// The oracle is the property's own statement on the enter log recorded by the stub handlers and on the
// WhenStateSwitched callback log.
package main

import (
	"fmt"
	"runtime"
	"strings"
	"sync"
	"sync/atomic"
	"time"

	"github.com/spikeekips/mitum/base"
	isaacstates "github.com/spikeekips/mitum/isaac/states"
	"verifharness/vh"
)

type ST = isaacstates.StateType

const unknownState = ST("VERIF-UNKNOWN")

var allStates = []ST{isaacstates.StateStopped, isaacstates.StateBooting, isaacstates.StateJoining, isaacstates.StateConsensus,
	isaacstates.StateSyncing, isaacstates.StateHandover, isaacstates.StateBroken}

func coqState(s ST) string {
	switch s {
	case isaacstates.StateStopped:
		return "Stopped"
	case isaacstates.StateBooting:
		return "Booting"
	case isaacstates.StateJoining:
		return "Joining"
	case isaacstates.StateConsensus:
		return "Consensus"
	case isaacstates.StateSyncing:
		return "Syncing"
	case isaacstates.StateHandover:
		return "Handover"
	case isaacstates.StateBroken:
		return "Broken"
	default:
		return "Unknown"
	}
}

func consensusLike(s ST) bool {
	return s == isaacstates.StateConsensus || s == isaacstates.StateJoining
}

// ---------------------------------------------------------------- scripted outcomes

type outsT struct {
	X     int  `json:"x"`   // exit: 0 ok, 1 error, 2 ignore
	New   bool `json:"new"` // new() succeeds
	E     int  `json:"e"`   // enter: 0 ok, 1 error, 2 redirect
	RFrom ST   `json:"rfrom,omitempty"`
	RNext ST   `json:"rnext,omitempty"`
}

var defaultOuts = outsT{New: true}

func coqOuts(o outsT) string {
	x := [...]string{"XOk", "XErr", "XIgnore"}[o.X]
	e := [...]string{"EOk", "EErr", ""}[o.E]
	if o.E == 2 {
		e = fmt.Sprintf("(ERedirect (mkCtx %s %s))", coqState(o.RFrom), coqState(o.RNext))
	}
	return fmt.Sprintf("mkO %s %s %s", x, vh.Bool(o.New), e)
}

type enterRec struct {
	State   ST   `json:"state"`
	From    ST   `json:"from"`
	Allowed bool `json:"allowed"` // States.AllowedConsensus() at the moment of entering
	Outcome int  `json:"outcome"`
}

type notifyRec struct {
	State ST
	Allow bool
}

// ctl implements isaacstates.VerifStubControl
type ctl struct {
	mu       sync.Mutex
	queue    []outsT
	cur      outsT
	entered  []enterRec
	notified []notifyRec
	reports  []ST
	repBad   []string // report delivered while Current() was something else
	st       *isaacstates.States
	// scheduling
	points  atomic.Int64 // scheduling points passed since armed
	pauseAt int64        // pause at this point (0 = never)
	paused  chan struct{}
	release chan struct{}
	noise   bool
	nz      atomic.Uint64
	rnd     func() outsT // free mode: random outcomes
}

func (c *ctl) point() {
	k := c.points.Add(1)
	if c.pauseAt > 0 && k == c.pauseAt {
		c.paused <- struct{}{}
		<-c.release
	}
	if c.noise {
		n := c.nz.Add(0x9E3779B97F4A7C15)
		for i := uint64(0); i < (n>>61)&3; i++ {
			runtime.Gosched()
		}
	}
}

func (c *ctl) OnState(ST) { c.point() }

func (c *ctl) OnExit(_, _ ST) int {
	c.mu.Lock()
	switch {
	case c.rnd != nil:
		c.cur = c.rnd()
	case len(c.queue) > 0:
		c.cur = c.queue[0]
		c.queue = c.queue[1:]
	default:
		c.cur = defaultOuts
	}
	x := c.cur.X
	c.mu.Unlock()
	c.point()
	return x
}

func (c *ctl) OnNew(ST) bool {
	c.mu.Lock()
	ok := c.cur.New
	c.mu.Unlock()
	c.point()
	return ok
}

func (c *ctl) OnEnter(s, from ST, allowed bool) (int, ST, ST) {
	c.point()
	c.mu.Lock()
	defer c.mu.Unlock()
	o := c.cur
	c.entered = append(c.entered, enterRec{State: s, From: from, Allowed: allowed, Outcome: o.E})
	return o.E, o.RFrom, o.RNext
}

func (c *ctl) OnWhenSetAllowConsensus(s ST, allow bool) {
	c.mu.Lock()
	c.notified = append(c.notified, notifyRec{s, allow})
	c.mu.Unlock()
}

func (c *ctl) whenSwitched(s ST) {
	cur := c.st.Current()
	c.mu.Lock()
	c.reports = append(c.reports, s)
	if cur != s {
		c.repBad = append(c.repBad, fmt.Sprintf("WhenStateSwitched(%s) while Current()=%s", s, cur))
	}
	c.mu.Unlock()
}

func newMachine(allow bool) (*isaacstates.States, *ctl) {
	c := &ctl{paused: make(chan struct{}, 1), release: make(chan struct{}, 1), cur: defaultOuts}
	args := isaacstates.NewStatesArgs()
	args.AllowConsensus = allow
	args.WhenStateSwitchedFunc = c.whenSwitched
	st, err := isaacstates.NewStates(base.RandomNetworkID(), base.RandomLocalNode(), args)
	if err != nil {
		panic(err)
	}
	c.st = st
	for _, s := range allStates {
		st.SetHandler(s, isaacstates.VerifNewStubHandler(s, c))
	}
	if err := st.VerifInit(); err != nil {
		panic(err)
	}
	c.mu.Lock()
	c.entered = nil // the initial enter of the stopped handler
	c.mu.Unlock()
	return st, c
}

// ---------------------------------------------------------------- ops (mode A)

type opT struct {
	Kind  string  `json:"op"` // ensure | switch | ask | allow | ybroker
	From  ST      `json:"from,omitempty"`
	Next  ST      `json:"next,omitempty"`
	VP    bool    `json:"vp,omitempty"` // switch context carries a voteproof (voteproofSwitchContext)
	Outs  []outsT `json:"outs,omitempty"`
	Allow bool    `json:"allow,omitempty"`
	YB    int     `json:"yb,omitempty"`
}

type obsT struct {
	Res      string `json:"res"`
	Cur      ST     `json:"cur"`
	Allowed  bool   `json:"allowed"`
	YB       int    `json:"yb"`
	Reports  []ST   `json:"reports"`
	Notified string `json:"notified"`
	coqRes   string
	coqNote  string
}

func ensureClass(err error) string {
	if err == nil {
		return "REnsure EnsOk"
	}
	if _, next, ok := isaacstates.VerifSwitchContextOf(err); ok && next == isaacstates.StateStopped {
		return "REnsure EnsStopped"
	}
	return "REnsure EnsErr"
}

func execOp(st *isaacstates.States, c *ctl, o opT) obsT {
	c.mu.Lock()
	c.queue = append([]outsT(nil), o.Outs...)
	c.reports, c.notified = nil, nil
	c.mu.Unlock()
	var res string
	switch o.Kind {
	case "ensure":
		res = ensureClass(st.VerifEnsureSwitchState(isaacstates.VerifSwitchContext(o.From, o.Next, o.VP)))
	case "switch":
		err := st.VerifSwitchState(isaacstates.VerifSwitchContext(o.From, o.Next, o.VP))
		switch f, n, ok := isaacstates.VerifSwitchContextOf(err); {
		case err == nil:
			res = "RSwitch SNil"
		case ok:
			res = fmt.Sprintf("RSwitch (SRedirect (mkCtx %s %s))", coqState(f), coqState(n))
		default:
			res = "RSwitch SErr"
		}
	case "ask":
		before := runtime.NumGoroutine()
		if err := st.AskMoveState(isaacstates.VerifSwitchContext(o.From, o.Next, o.VP)); err != nil {
			res = "RAskErr"
			break
		}
		sctx, ok := st.VerifTakeAsked(askWait(before))
		if !ok {
			res = "RAskIgnored"
			break
		}
		res = ensureClass(st.VerifEnsureSwitchState(sctx)) // what the states loop does with it
	case "allow":
		res = "RSet " + vh.Bool(st.SetAllowConsensus(o.Allow))
	case "ybroker":
		st.VerifSetHandoverYBroker(o.YB)
		res = "RUnit"
	}
	c.mu.Lock()
	defer c.mu.Unlock()
	ob := obsT{Res: res, Cur: st.Current(), Allowed: st.AllowedConsensus(), YB: st.VerifHandoverYBrokerMode(), Reports: append([]ST(nil), c.reports...)}
	ob.coqRes = res
	ob.coqNote = "None"
	if len(c.notified) > 0 {
		n := c.notified[len(c.notified)-1]
		ob.Notified = fmt.Sprintf("%s:%v(x%d)", n.State, n.Allow, len(c.notified))
		ob.coqNote = vh.Some(vh.Tuple(coqState(n.State), vh.Bool(n.Allow)))
		if len(c.notified) > 1 {
			ob.coqNote = vh.Some(vh.Tuple("Unknown", vh.Bool(n.Allow))) // more than one notification: never matches
		}
	}
	return ob
}

func askWait(before int) time.Duration {
	if runtime.NumGoroutine() > before {
		return 3 * time.Second // a sender is pending
	}
	return 60 * time.Millisecond
}

func coqYB(i int) string { return [...]string{"YNone", "YNotAsked", "YAsked"}[i] }

func coqOp(o opT) string {
	outs := make([]string, len(o.Outs))
	for i := range o.Outs {
		outs[i] = coqOuts(o.Outs[i])
	}
	ctx := fmt.Sprintf("(mkCtx %s %s)", coqState(o.From), coqState(o.Next))
	switch o.Kind {
	case "ensure":
		return fmt.Sprintf("OEnsure %s %s", ctx, vh.List(outs))
	case "switch":
		oo := defaultOuts
		if len(o.Outs) > 0 {
			oo = o.Outs[0]
		}
		return fmt.Sprintf("OSwitch %s (%s)", ctx, coqOuts(oo))
	case "ask":
		return fmt.Sprintf("OAsk %s %s", ctx, vh.List(outs))
	case "allow":
		return "OSetAllow " + vh.Bool(o.Allow)
	default:
		return "OYBroker " + coqYB(o.YB)
	}
}

func coqObs(ob obsT) string {
	reps := make([]string, len(ob.Reports))
	for i := range ob.Reports {
		reps[i] = coqState(ob.Reports[i])
	}
	return fmt.Sprintf("mkObs (%s) %s %s %s %s %s", ob.coqRes, coqState(ob.Cur), vh.Bool(ob.Allowed), coqYB(ob.YB), vh.List(reps), ob.coqNote)
}

// ---------------------------------------------------------------- oracle on the enter log

type violation struct{ class, desc string }

func checkEnterLog(entered []enterRec, start ST, chain bool) []violation {
	var vs []violation
	cur := start
	for i, e := range entered {
		if chain && e.From != cur {
			vs = append(vs, violation{"enter-from-not-current", fmt.Sprintf("enter %d: %s entered from %s while the machine was in %s", i, e.State, e.From, cur)})
		}
		if e.Outcome != 1 { // a failed enter (plain error) leaves the current state alone
			switch {
			case e.State == e.From:
				vs = append(vs, violation{"edge-not-allowed", fmt.Sprintf("enter %d: %s -> %s", i, e.From, e.State)})
			case e.From == isaacstates.StateStopped && e.State != isaacstates.StateBooting && e.State != isaacstates.StateBroken:
				vs = append(vs, violation{"edge-not-allowed", fmt.Sprintf("enter %d: %s -> %s", i, e.From, e.State)})
			}
			if consensusLike(e.State) && !e.Allowed && e.From != isaacstates.StateHandover {
				vs = append(vs, violation{"entered-consensus-not-allowed", fmt.Sprintf("enter %d: %s -> %s while allow-consensus=false", i, e.From, e.State)})
			}
			cur = e.State
		}
	}
	return vs
}

// ---------------------------------------------------------------- generation (mode A)

func randState(r *vh.Rand, withUnknown bool) ST {
	if withUnknown && r.Chance(1, 25) {
		return unknownState
	}
	return allStates[r.Intn(len(allStates))]
}

func randOuts(r *vh.Rand, entered ST) outsT {
	o := defaultOuts
	switch x := r.Intn(16); {
	case x == 0:
		o.X = 1
	case x == 1:
		o.X = 2
	}
	if r.Chance(1, 16) {
		o.New = false
	}
	switch x := r.Intn(10); {
	case x == 0:
		o.E = 1
	case x < 3:
		o.E = 2
		o.RFrom = entered
		if r.Chance(1, 6) {
			o.RFrom = randState(r, false)
		}
		o.RNext = randState(r, true)
	}
	return o
}

func genOp(r *vh.Rand, cur ST) opT {
	switch x := r.Intn(100); {
	case x < 70:
		kind := "ensure"
		switch y := r.Intn(10); {
		case y < 2:
			kind = "switch"
		case y < 4:
			kind = "ask"
		}
		from := cur
		if r.Chance(1, 6) {
			from = randState(r, false)
		}
		next := randState(r, true)
		// bias towards the consensus states and the way out of stopped
		switch y := r.Intn(10); {
		case y < 3:
			next = isaacstates.StateConsensus
		case y == 3:
			next = isaacstates.StateJoining
		case y == 4 && cur == isaacstates.StateStopped:
			next = isaacstates.StateBooting
		}
		n := r.Intn(4)
		if kind == "switch" {
			n = r.Intn(2)
		}
		outs := make([]outsT, n)
		for i := range outs {
			outs[i] = randOuts(r, next)
		}
		return opT{Kind: kind, From: from, Next: next, VP: r.Chance(1, 3), Outs: outs}
	case x < 88:
		return opT{Kind: "allow", Allow: r.Bool()}
	default:
		return opT{Kind: "ybroker", YB: r.Intn(3)}
	}
}

type replayT struct {
	Mode   string `json:"mode"`
	Allow0 bool   `json:"allow0"`
	Ops    []opT  `json:"ops,omitempty"`
	Scen   string `json:"scenario,omitempty"`
	Seed   uint64 `json:"seed,omitempty"`
}

func runSequence(res *vh.Result, cases *vh.Cases, r *vh.Rand, allow0 bool, fixed []opT, n int, tag string) {
	st, c := newMachine(allow0)
	var ops []opT
	var obs []obsT
	coqOps, coqOb := []string{}, []string{}
	start := 0
	for i := 0; i < n; i++ {
		var o opT
		if fixed != nil {
			o = fixed[i]
		} else {
			o = genOp(r, st.Current())
			if i == 0 && r.Chance(3, 4) { // leave Stopped first, most of the time
				o = opT{Kind: "ensure", From: isaacstates.StateStopped, Next: isaacstates.StateBooting}
			}
		}
		before := st.Current()
		c.mu.Lock()
		start = len(c.entered)
		c.mu.Unlock()
		ob := execOp(st, c, o)
		ops, obs = append(ops, o), append(obs, ob)
		coqOps, coqOb = append(coqOps, coqOp(o)), append(coqOb, coqObs(ob))
		rp := replayT{Mode: "sequence", Allow0: allow0, Ops: ops}
		// oracle, per op
		c.mu.Lock()
		newEnters := append([]enterRec(nil), c.entered[start:]...)
		bad := append([]string(nil), c.repBad...)
		c.repBad = nil
		c.mu.Unlock()
		for _, v := range checkEnterLog(newEnters, before, true) {
			res.Fail(v.class, fmt.Sprintf("op %d (%s %s->%s): %s", i, o.Kind, o.From, o.Next, v.desc), rp)
		}
		for _, b := range bad {
			res.Fail("reported-not-current", fmt.Sprintf("op %d: %s", i, b), rp)
		}
		if (o.Kind == "ensure" || o.Kind == "switch" || o.Kind == "ask") && o.From != before {
			if ob.Cur != before || len(ob.Reports) > 0 || len(newEnters) > 0 {
				res.Fail("from-mismatch-had-effect", fmt.Sprintf("op %d: request %s->%s while in %s: now %s, reports %v, enters %v", i, o.From, o.Next, before, ob.Cur, ob.Reports, newEnters), rp)
			}
		}
		if len(ob.Reports) > 0 && ob.Reports[len(ob.Reports)-1] != ob.Cur && o.Kind != "ask" && o.Kind != "ensure" {
			res.Fail("reported-not-current", fmt.Sprintf("op %d: reported %v, Current()=%s", i, ob.Reports, ob.Cur), rp)
		}
	}
	// a context handed over by AskMoveState after the harness had given up waiting for it (scheduling delay):
	// the recorded classification of that op is unreliable, the case is not compared
	if _, late := st.VerifTakeAsked(5 * time.Millisecond); late {
		res.Dist("discarded_late_ask")
		return
	}
	moved := 0
	for i := range obs {
		if i > 0 && obs[i].Cur != obs[i-1].Cur {
			moved++
		}
	}
	res.Count(strings.Join(coqOps, ";"), moved >= 2)
	res.Dist(fmt.Sprintf("%s_moves=%d", tag, min(moved, 4)))
	cases.Add(vh.Tuple(fmt.Sprintf("mkM Stopped %s YNone", vh.Bool(allow0)), vh.List(coqOps), vh.List(coqOb)),
		map[string]any{"allow0": allow0, "ops": ops, "obs": obs})
	if tag == "random" {
		res.Sample(map[string]any{"ops": len(ops), "final": obs[len(obs)-1].Cur, "moves": moved})
	}
}

func corpus() [][]opT {
	S := isaacstates.StateStopped
	B := isaacstates.StateBooting
	J := isaacstates.StateJoining
	C := isaacstates.StateConsensus
	Y := isaacstates.StateSyncing
	H := isaacstates.StateHandover
	K := isaacstates.StateBroken
	en := func(f, n ST, outs ...outsT) opT { return opT{Kind: "ensure", From: f, Next: n, Outs: outs} }
	al := func(b bool) opT { return opT{Kind: "allow", Allow: b} }
	yb := func(m int) opT { return opT{Kind: "ybroker", YB: m} }
	red := func(f, n ST) outsT { return outsT{New: true, E: 2, RFrom: f, RNext: n} }
	return [][]opT{
		{en(S, C), en(S, Y), en(S, B), en(B, J), en(J, C), en(C, Y)},
		{en(S, B), al(false), en(B, J), en(Y, C), en(Y, J), al(true), en(Y, C)},
		{en(S, B), al(false), en(B, C), yb(1), en(Y, K), yb(2), en(K, C), en(H, C), en(C, Y)},
		{en(S, B), en(B, J, red(J, Y))},
		{en(S, B), en(B, J, red(J, C), red(C, Y), red(Y, J), red(J, C), red(C, Y))}, // loop > 3: broken
		{en(S, B), en(B, Y, outsT{X: 1, New: true}), en(K, S), en(S, K)},
		{en(S, B), en(B, unknownState), en(B, Y, outsT{New: false}), en(K, K)},
		{en(S, B), en(B, C), al(false), al(false), al(true), {Kind: "switch", From: C, Next: S}, en(S, C)},
		{en(S, B), {Kind: "ask", From: B, Next: Y}, {Kind: "ask", From: B, Next: C}, {Kind: "ask", From: Y, Next: unknownState}, {Kind: "ask", From: Y, Next: C, VP: true}},
		{en(S, B), en(B, S), en(S, B)},
		{en(S, B), al(false), yb(2), en(B, J), al(true), en(H, C)},
	}
}

// ---------------------------------------------------------------- mode B: forced schedules around SetAllowConsensus

type scenario struct {
	name   string
	pre    []opT // brings the machine to the start state
	allow0 bool
	req    opT  // the switch under test
	toggle bool // value given to SetAllowConsensus by the other goroutine
}

func runForcedSchedules(res *vh.Result, thorough bool) {
	S, B, J, C, Y, K := isaacstates.StateStopped, isaacstates.StateBooting, isaacstates.StateJoining, isaacstates.StateConsensus, isaacstates.StateSyncing, isaacstates.StateBroken
	en := func(f, n ST) opT { return opT{Kind: "ensure", From: f, Next: n} }
	scens := []scenario{
		{"syncing->consensus, toggle off", []opT{en(S, B), en(B, Y)}, true, opT{Kind: "switch", From: Y, Next: C}, false},
		{"booting->joining, toggle off", []opT{en(S, B)}, true, opT{Kind: "ensure", From: B, Next: J}, false},
		{"broken->consensus, toggle off", []opT{en(S, K)}, true, opT{Kind: "ensure", From: K, Next: C}, false},
		{"syncing->joining via ask, toggle off", []opT{en(S, B), en(B, Y)}, true, opT{Kind: "ask", From: Y, Next: J}, false},
		{"booting->consensus not allowed, toggle on", []opT{en(S, B)}, false, opT{Kind: "ensure", From: B, Next: C}, true},
	}
	maxPoint := int64(14)
	if thorough {
		maxPoint = 24
	}
	for _, sc := range scens {
		for k := int64(1); k <= maxPoint; k++ {
			st, c := newMachine(sc.allow0)
			for _, o := range sc.pre {
				execOp(st, c, o)
			}
			before := st.Current()
			c.mu.Lock()
			start := len(c.entered)
			c.mu.Unlock()
			c.points.Store(0)
			c.pauseAt = k
			done := make(chan struct{})
			go func() {
				defer close(done)
				execOp(st, c, sc.req)
			}()
			rp := replayT{Mode: "forced-schedule", Allow0: sc.allow0, Scen: fmt.Sprintf("%s; SetAllowConsensus(%v) at scheduling point %d", sc.name, sc.toggle, k)}
			how := "point not reached"
			select {
			case <-c.paused:
				tdone := make(chan struct{})
				go func() { st.SetAllowConsensus(sc.toggle); close(tdone) }()
				select {
				case <-tdone:
					how = "toggle ran between"
				case <-time.After(25 * time.Millisecond):
					how = "toggle waited for the lock"
				}
				c.pauseAt = 0
				c.release <- struct{}{}
				select {
				case <-done:
				case <-time.After(5 * time.Second):
					res.Fail("deadlock", "switch did not finish after the pause was released: "+rp.Scen, rp)
					continue
				}
				select {
				case <-tdone:
				case <-time.After(5 * time.Second):
					res.Fail("deadlock", "SetAllowConsensus did not finish: "+rp.Scen, rp)
					continue
				}
			case <-done:
				c.pauseAt = 0
			}
			c.mu.Lock()
			newEnters := append([]enterRec(nil), c.entered[start:]...)
			nnote := len(c.notified)
			c.mu.Unlock()
			for _, v := range checkEnterLog(newEnters, before, true) {
				res.Fail(v.class, rp.Scen+": "+v.desc, rp)
			}
			// afterwards: not allowed and sitting in a consensus state is fine only if the handler was told
			if cur := st.Current(); consensusLike(cur) && !st.AllowedConsensus() && nnote == 0 && how != "point not reached" {
				res.Fail("entered-consensus-not-allowed", fmt.Sprintf("%s: ended in %s with allow-consensus=false and the handler never notified (%s)", rp.Scen, cur, how), rp)
			}
			res.Count(rp.Scen, how != "point not reached")
			res.Dist("forced_schedule:" + how)
		}
	}
}

// ---------------------------------------------------------------- mode C: free running

func runFree(res *vh.Result, r *vh.Rand, seed uint64, requests int) {
	allow0 := r.Bool()
	st, c := newMachine(allow0)
	c.noise = true
	or := vh.NewRand(r.U64())
	var omu sync.Mutex
	c.rnd = func() outsT {
		omu.Lock()
		defer omu.Unlock()
		if or.Chance(3, 4) {
			return defaultOuts
		}
		return randOuts(or, randState(or, false))
	}
	rp := replayT{Mode: "free", Allow0: allow0, Seed: seed}
	stop := make(chan struct{})
	var wg sync.WaitGroup
	var loopWG sync.WaitGroup
	var stoppedDaemon atomic.Bool
	loopWG.Add(1)
	go func() { // the states loop: the only switching thread
		defer loopWG.Done()
		for {
			select {
			case <-stop:
				return
			default:
			}
			sctx, ok := st.VerifTakeAsked(2 * time.Millisecond)
			if !ok {
				continue
			}
			if err := st.VerifEnsureSwitchState(sctx); err != nil {
				stoppedDaemon.Store(true) // the real loop would stop the daemon; keep serving to drain senders
			}
		}
	}()
	for g := 0; g < 6; g++ {
		gr := vh.NewRand(r.U64())
		wg.Add(1)
		go func() {
			defer wg.Done()
			for i := 0; i < requests; i++ {
				cur := st.Current()
				from := cur
				if gr.Chance(1, 8) {
					from = randState(gr, false)
				}
				next := randState(gr, true)
				if gr.Chance(1, 3) {
					next = isaacstates.StateConsensus
				}
				_ = st.AskMoveState(isaacstates.VerifSwitchContext(from, next, gr.Bool()))
				if gr.Chance(1, 2) {
					runtime.Gosched()
				}
			}
		}()
	}
	for g := 0; g < 2; g++ {
		gr := vh.NewRand(r.U64())
		wg.Add(1)
		go func() {
			defer wg.Done()
			for i := 0; i < requests*2; i++ {
				st.SetAllowConsensus(gr.Bool())
				if gr.Chance(1, 10) {
					st.VerifSetHandoverYBroker(gr.Intn(3))
				}
				runtime.Gosched()
			}
		}()
	}
	finished := make(chan struct{})
	go func() {
		wg.Wait()
		time.Sleep(20 * time.Millisecond) // let the loop drain what was asked
		close(stop)
		loopWG.Wait()
		close(finished)
	}()
	select {
	case <-finished:
	case <-time.After(20 * time.Second):
		res.Fail("deadlock", "free-running requesters/togglers/loop did not finish within 20s", rp)
		return
	}
	c.mu.Lock()
	entered := append([]enterRec(nil), c.entered...)
	bad := append([]string(nil), c.repBad...)
	c.mu.Unlock()
	for _, v := range checkEnterLog(entered, isaacstates.StateStopped, true) {
		res.Fail(v.class, "free-running: "+v.desc, rp)
	}
	for _, b := range bad {
		res.Fail("reported-not-current", "free-running: "+b, rp)
	}
	res.Count(fmt.Sprintf("free-%d", seed), len(entered) >= 2)
	res.Dist(fmt.Sprintf("free_enters>=%d", min(len(entered)/10*10, 50)))
}

func main() {
	o := vh.ParseFlags()
	res := vh.NewResult("sequence: random ops on the real States with scripted stub handlers, compared op by op with the model; forced-schedule: SetAllowConsensus injected at every scheduling point of a switch into Joining/Consensus; free: loop + 6 requesters + 2 togglers with yield noise, oracle on the enter log, deadlock watchdog; non-trivial = the machine moved at least twice / the scheduling point was reached")
	cases := &vh.Cases{Import: "From MV Require Import C09.Model.", Type: "case", CheckFn: "check", Shard: 400}
	r := vh.NewRand(o.Seed)
	if o.Replay != "" {
		var rp replayT
		if err := vh.ReadReplay(o.Replay, &rp); err == nil && rp.Mode == "sequence" && len(rp.Ops) > 0 {
			runSequence(res, cases, r, rp.Allow0, rp.Ops, len(rp.Ops), "replay")
			fmt.Printf("replayed %d ops; failures so far: %d\n", len(rp.Ops), len(res.Failures))
		}
	}
	for _, ops := range corpus() {
		runSequence(res, cases, r, true, ops, len(ops), "corpus")
	}
	n := o.Pick(2000, 20000)
	for i := 0; i < n; i++ {
		runSequence(res, cases, r, r.Chance(2, 3), nil, r.Range(2, 12), "random")
	}
	runForcedSchedules(res, o.Thorough())
	nfree := 30
	if o.Thorough() {
		nfree = 600
	}
	for i := 0; i < nfree; i++ {
		runFree(res, r, o.Seed*1000003+uint64(i), 40)
	}
	res.ModelCases = cases.Len()
	if err := cases.Write(o.Out); err != nil {
		panic(err)
	}
	res.Write(o.Out)
}
