// c33: util.BaseJobWorker / ErrCallbackJobWorker / RunJobWorker / BatchWork.
// (1) forced schedules: jobs are parked on channels, the harness issues NewJob / job end / Done /
//
//	Cancel / Wait one at a time and observes what each call returns and when Wait returns; the
//	same schedule is replayed by the Coq model (coq/C33/Model.v).
//
// (2) free-running RunJobWorker / RunErrCallbackJobWorker / BatchWork with random sizes, failing
//
//	jobs and cancellations; the property's own statement is checked on the result.
package main

import (
	"context"
	"errors"
	"fmt"
	"sort"
	"strings"
	"sync"
	"sync/atomic"
	"time"

	"github.com/spikeekips/mitum/util"
	"verifharness/vh"
)

type opT struct {
	K    int  `json:"k"` // 0 NewJob, 1 JobEnd, 2 Done, 3 Cancel, 4 Wait
	ID   int  `json:"id"`
	Fail bool `json:"fail"`
}

type replay struct {
	Kind  string    `json:"kind"` // "schedule" | "free"
	Size  int       `json:"size"`
	ErrCb bool      `json:"errcb"`
	Ops   []opT     `json:"ops"`
	Free  *freeCase `json:"free,omitempty"`
}

type jobError struct{ id int }

func (e *jobError) Error() string { return fmt.Sprintf("verif: job %d failed", e.id) }

func errCode(err error) int {
	var je *jobError
	switch {
	case err == nil:
		return 0
	case errors.As(err, &je):
		return 10 + je.id
	case errors.Is(err, util.ErrJobWorkerDone):
		return 2
	case errors.Is(err, context.Canceled):
		return 1
	default:
		return 99
	}
}

// how long a positive observation is waited for; after a few timeouts (a broken worker) the waits are
// cut short so that the run still ends in time
var timeouts int32

func long() time.Duration {
	if atomic.LoadInt32(&timeouts) >= 3 {
		return 300 * time.Millisecond
	}
	return 8 * time.Second
}

// ---------------------------------------------------------------- forced schedules

type obs struct{ R1, R2, W int }

type schedResult struct {
	obs                 []obs
	inv                 []int
	errfs               []int
	runningAtWaitReturn []int
	waitErr             int // -1 not returned
	notes               []string
}

func runSchedule(size int, errcb bool, ops []opT) schedResult {
	var mu sync.Mutex
	inv := map[int]int{}
	release := map[int]chan error{}
	ctxs := map[int]context.Context{}
	startedCh := make(chan int, 1024)
	errfCh := make(chan int, 1024)
	var errfs []int

	var wk *util.BaseJobWorker
	if errcb {
		wk, _ = util.NewErrCallbackJobWorker(context.Background(), int64(size), func(err error) {
			var je *jobError
			id := -1
			if errors.As(err, &je) {
				id = je.id
			}
			mu.Lock()
			errfs = append(errfs, id)
			mu.Unlock()
			errfCh <- id
		})
	} else {
		wk, _ = util.NewBaseJobWorker(context.Background(), int64(size))
	}
	cb := func(ctx context.Context, jobid uint64) error {
		id := int(jobid)
		mu.Lock()
		inv[id]++
		ctxs[id] = ctx
		rel := make(chan error, 1)
		release[id] = rel
		mu.Unlock()
		startedCh <- id
		return <-rel
	}

	// bookkeeping used only to choose how long to wait for an observation (never the observation itself)
	var bRunning []int
	bCause, bNCause, bPending, bWaiting, bWReturned := false, false, false, false, false
	removeRunning := func(id int) {
		for i, x := range bRunning {
			if x == id {
				bRunning = append(bRunning[:i], bRunning[i+1:]...)
				return
			}
		}
	}
	njRes := make(chan error, 4)
	waitRes := make(chan error, 1)
	res := schedResult{waitErr: -1}

	waitStarted := func() {
		select {
		case id := <-startedCh:
			bRunning = append(bRunning, id)
		case <-time.After(long()):
			atomic.AddInt32(&timeouts, 1)
			res.notes = append(res.notes, "accepted job never started")
		}
	}
	njObserve := func(expectResult bool) int { // 0 nothing yet, 1 accepted, 3+code rejected
		var err error
		if expectResult {
			select {
			case err = <-njRes:
			case <-time.After(long()):
				atomic.AddInt32(&timeouts, 1)
				return 0
			}
		} else {
			select {
			case err = <-njRes:
			case <-time.After(3 * time.Millisecond):
				return 0
			}
		}
		bPending = false
		if err == nil {
			waitStarted()
			return 1
		}
		return 3 + errCode(err)
	}
	waitObserve := func() int {
		if !bWaiting {
			if bWReturned {
				if res.waitErr == 0 {
					return 2
				}
				return 3 + res.waitErr
			}
			return 0
		}
		expect := bNCause && (bCause || len(bRunning) == 0)
		var err error
		if expect {
			select {
			case err = <-waitRes:
			case <-time.After(long()):
				atomic.AddInt32(&timeouts, 1)
				return 1
			}
		} else {
			select {
			case err = <-waitRes:
			case <-time.After(500 * time.Microsecond):
				return 1
			}
		}
		bWaiting, bWReturned = false, true
		bCause, bNCause = true, true // the deferred Cancel of Wait
		res.waitErr = errCode(err)
		res.runningAtWaitReturn = append([]int{}, bRunning...) // parked callbacks: really still running
		if err == nil {
			return 2
		}
		return 3 + res.waitErr
	}
	pendingObserve := func() int {
		if !bPending {
			return 0
		}
		return njObserve(bNCause || len(bRunning) < size)
	}

	for _, o := range ops {
		var ob obs
		switch o.K {
		case 0:
			if bPending {
				break
			}
			go func() { njRes <- wk.NewJob(cb) }()
			expectBlock := !bNCause && len(bRunning) >= size
			r := njObserve(!expectBlock)
			if r == 0 {
				bPending = true
				ob.R1 = 2
			} else {
				ob.R1 = r
			}
		case 1:
			mu.Lock()
			rel, ok := release[o.ID]
			ctx := ctxs[o.ID]
			mu.Unlock()
			running := false
			for _, x := range bRunning {
				if x == o.ID {
					running = true
				}
			}
			if !ok || !running {
				break
			}
			if o.Fail {
				rel <- &jobError{o.ID}
				if errcb {
					select {
					case <-errfCh:
					case <-time.After(long()):
						atomic.AddInt32(&timeouts, 1)
						res.notes = append(res.notes, "errf not called")
					}
				} else {
					select {
					case <-ctx.Done():
					case <-time.After(long()):
						atomic.AddInt32(&timeouts, 1)
						res.notes = append(res.notes, "job error did not cancel the context")
					}
					bCause, bNCause = true, true
				}
			} else {
				rel <- nil
			}
			removeRunning(o.ID)
			ob.R2 = pendingObserve()
		case 2:
			wk.Done()
			bNCause = true
			ob.R2 = pendingObserve()
		case 3:
			wk.Cancel()
			bCause, bNCause = true, true
			ob.R2 = pendingObserve()
		case 4:
			if bWaiting || bWReturned {
				break
			}
			bWaiting = true
			go func() { waitRes <- wk.Wait() }()
			ob.R2 = pendingObserve()
		}
		ob.W = waitObserve()
		res.obs = append(res.obs, ob)
	}
	// cleanup: let everything end
	mu.Lock()
	for _, id := range bRunning {
		release[id] <- nil
	}
	mu.Unlock()
	wk.Close()
	if bPending {
		select {
		case err := <-njRes:
			if err == nil { // accepted during cleanup: let it end
				select {
				case id := <-startedCh:
					mu.Lock()
					release[id] <- nil
					mu.Unlock()
				case <-time.After(long()):
					atomic.AddInt32(&timeouts, 1)
				}
			}
		case <-time.After(long()):
			atomic.AddInt32(&timeouts, 1)
		}
	}
	mu.Lock()
	maxid := -1
	for id := range inv {
		if id > maxid {
			maxid = id
		}
	}
	// jobs accepted during the cleanup above (a NewJob call that was still blocked) are not part of the schedule
	accepted := 0
	for _, ob := range res.obs {
		if ob.R1 == 1 {
			accepted++
		}
		if ob.R2 == 1 {
			accepted++
		}
	}
	for id := 0; id <= maxid && id < accepted; id++ {
		res.inv = append(res.inv, inv[id])
	}
	res.errfs = append([]int{}, errfs...)
	mu.Unlock()
	return res
}

func genSchedule(r *vh.Rand) (int, bool, []opT) {
	size := r.Range(1, 4)
	errcb := r.Chance(1, 6)
	n := r.Range(3, 16)
	var ops []opT
	var running []int
	count := 0
	ncause, cause, pending, waited := false, false, false, false
	for len(ops) < n {
		k := r.Intn(10)
		switch {
		case k < 4: // NewJob
			if pending {
				continue
			}
			ops = append(ops, opT{K: 0})
			if !ncause {
				if len(running) < size {
					running = append(running, count)
					count++
				} else {
					pending = true
				}
			}
		case k < 7: // JobEnd
			if len(running) == 0 {
				continue
			}
			j := r.Intn(len(running))
			id := running[j]
			fail := r.Chance(1, 3)
			ops = append(ops, opT{K: 1, ID: id, Fail: fail})
			running = append(running[:j], running[j+1:]...)
			if fail && !errcb {
				cause, ncause = true, true
			}
			if pending {
				if ncause {
					pending = false
				} else if len(running) < size {
					running = append(running, count)
					count++
					pending = false
				}
			}
		case k < 8:
			ops = append(ops, opT{K: 2})
			ncause = true
			pending = false
		case k < 9:
			if r.Chance(1, 2) {
				continue
			}
			ops = append(ops, opT{K: 3})
			cause, ncause = true, true
			pending = false
		default:
			if waited {
				continue
			}
			waited = true
			ops = append(ops, opT{K: 4})
			if ncause && (cause || len(running) == 0) {
				cause, ncause = true, true
			}
		}
		// Wait may return after any op
		if waited && ncause && (cause || len(running) == 0) {
			cause = true
		}
	}
	return size, errcb, ops
}

func opsTerm(ops []opT) string {
	ss := make([]string, len(ops))
	for i, o := range ops {
		ss[i] = vh.Tuple(fmt.Sprintf("%d", o.K), fmt.Sprintf("%d", o.ID), vh.Bool(o.Fail))
	}
	return "[" + join(ss) + "]%nat"
}

func join(ss []string) string {
	out := ""
	for i, s := range ss {
		if i > 0 {
			out += "; "
		}
		out += s
	}
	return out
}

func natList(xs []int) string {
	ss := make([]string, len(xs))
	for i, x := range xs {
		ss[i] = fmt.Sprintf("%d", x)
	}
	return "[" + join(ss) + "]%nat"
}

// ---------------------------------------------------------------- free-running

type freeCase struct {
	Fn          string `json:"fn"` // "run" | "errcb" | "batch"
	Size        int    `json:"size"`
	Workers     int    `json:"workers"` // worker size (run/errcb) or batch limit
	FailAt      []int  `json:"fail_at"`
	PrefFailAt  int    `json:"pref_fail_at"` // batch: pref(last) fails for this last (-1 none)
	CancelAfter int    `json:"cancel_after"` // cancel the parent context after this many job starts (-1 never)
	Seed        uint64 `json:"seed"`
}

type fev struct {
	kind byte // 'p' pref, 's' job start, 'e' job end
	i    int
	last int
}

func has(l []int, x int) bool {
	for _, y := range l {
		if x == y {
			return true
		}
	}
	return false
}

// returns failure class ("" = property holds) and description
func runFree(fc freeCase) (string, string) {
	r := vh.NewRand(fc.Seed)
	delays := make([]time.Duration, fc.Size)
	for i := range delays {
		delays[i] = time.Duration(r.Intn(200)) * time.Microsecond
	}
	var mu sync.Mutex
	var evs []fev
	inv := make([]int32, fc.Size)
	var started int32
	var inflight int32
	ctx, cancel := context.WithCancel(context.Background())
	defer cancel()
	var errfCalls int32
	var outOfRange int32
	job := func(ctx context.Context, i, last uint64) error {
		atomic.AddInt32(&inflight, 1)
		defer atomic.AddInt32(&inflight, -1)
		if int(i) < len(inv) {
			atomic.AddInt32(&inv[i], 1)
		} else {
			atomic.AddInt32(&outOfRange, 1)
		}
		mu.Lock()
		evs = append(evs, fev{'s', int(i), int(last)})
		mu.Unlock()
		if n := atomic.AddInt32(&started, 1); fc.CancelAfter >= 0 && int(n) == fc.CancelAfter+1 {
			cancel()
		}
		if int(i) < len(delays) {
			time.Sleep(delays[i])
		}
		mu.Lock()
		evs = append(evs, fev{'e', int(i), int(last)})
		mu.Unlock()
		if has(fc.FailAt, int(i)) {
			return &jobError{int(i)}
		}
		return nil
	}
	var err error
	switch fc.Fn {
	case "run":
		err = util.RunJobWorker(ctx, int64(fc.Workers), int64(fc.Size), func(ctx context.Context, i, _ uint64) error { return job(ctx, i, 0) })
	case "errcb":
		err = util.RunErrCallbackJobWorker(ctx, int64(fc.Workers), int64(fc.Size), func(error) { atomic.AddInt32(&errfCalls, 1) },
			func(ctx context.Context, i, _ uint64) error { return job(ctx, i, 0) })
	case "batch":
		err = util.BatchWork(ctx, int64(fc.Size), int64(fc.Workers),
			func(_ context.Context, last uint64) error {
				mu.Lock()
				evs = append(evs, fev{'p', -1, int(last)})
				mu.Unlock()
				if int(last) == fc.PrefFailAt {
					return &jobError{1000000 + int(last)}
				}
				return nil
			}, job)
	}
	inflightAtReturn := atomic.LoadInt32(&inflight)
	code := errCode(err)
	mu.Lock()
	snapshot := append([]fev{}, evs...)
	mu.Unlock()
	time.Sleep(300 * time.Microsecond)

	if atomic.LoadInt32(&outOfRange) > 0 {
		return "index-out-of-range", "a job was called with an index >= size"
	}
	for i := range inv {
		if n := atomic.LoadInt32(&inv[i]); n > 1 {
			return "job-run-twice", fmt.Sprintf("index %d ran %d times", i, n)
		}
	}
	cancelled := fc.CancelAfter >= 0
	switch {
	case code == 0:
		// success: every index ran exactly once and ended before the return
		if fc.Fn != "errcb" && len(fc.FailAt) > 0 {
			// a failing job may be skipped only if ... it cannot: success means every job ran
			return "job-error-swallowed", fmt.Sprintf("nil returned although jobs %v fail", fc.FailAt)
		}
		if fc.Fn == "batch" && fc.PrefFailAt >= 0 {
			for _, e := range snapshot {
				if e.kind == 'p' && e.last == fc.PrefFailAt {
					return "pref-error-swallowed", "nil returned although pref failed"
				}
			}
		}
		for i := range inv {
			if atomic.LoadInt32(&inv[i]) != 1 {
				return "success-without-running-every-job", fmt.Sprintf("nil returned, index %d ran %d times", i, inv[i])
			}
		}
		if inflightAtReturn != 0 {
			return "success-before-jobs-end", fmt.Sprintf("nil returned with %d jobs in flight", inflightAtReturn)
		}
		if fc.Fn == "errcb" && int(atomic.LoadInt32(&errfCalls)) != len(fc.FailAt) {
			return "errf-count", fmt.Sprintf("errf called %d times for %d failing jobs", errfCalls, len(fc.FailAt))
		}
	case code >= 10:
		id := code - 10
		if fc.Fn == "errcb" {
			return "errcallback-worker-returned-job-error", fmt.Sprintf("returned error of job %d", id)
		}
		if id >= 1000000 {
			if id-1000000 != fc.PrefFailAt {
				return "foreign-error", "pref error of another batch"
			}
		} else if !has(fc.FailAt, id) || atomic.LoadInt32(&inv[id]) != 1 {
			return "foreign-error", fmt.Sprintf("returned the error of job %d which did not fail/run", id)
		}
	case code == 1:
		if !cancelled {
			return "cancelled-instead-of-job-error", fmt.Sprintf("context.Canceled returned without a cancellation (failing jobs %v)", fc.FailAt)
		}
	default:
		if !(fc.Size < 1 || fc.Workers < 1) {
			return "unexpected-error", fmt.Sprintf("%v", err)
		}
	}
	if fc.Fn == "batch" && fc.Size >= 1 && fc.Workers >= 1 {
		// batch structure on the events seen until the return: pref(last) first, then only jobs of that
		// batch; the next pref only after every job of the previous batch has ended
		curLast, open := -1, 0
		seenStart := map[int]bool{}
		expectNextStart := 0
		nprefs := 0
		for _, e := range snapshot {
			switch e.kind {
			case 'p':
				if open != 0 && code == 0 {
					return "batch-overlap", fmt.Sprintf("pref(%d) called while %d jobs of the previous batch had not ended", e.last, open)
				}
				if expectNextStart >= fc.Size {
					return "pref-for-empty-batch", fmt.Sprintf("pref(last=%d) called again after the last batch (size=%d limit=%d): a batch without jobs is prepared", e.last, fc.Size, fc.Workers)
				}
				if e.last <= curLast {
					return "pref-last-not-increasing", fmt.Sprintf("pref(last=%d) after pref(last=%d)", e.last, curLast)
				}
				nprefs++
				wantLast := expectNextStart + fc.Workers - 1
				if wantLast > fc.Size-1 {
					wantLast = fc.Size - 1
				}
				if e.last != wantLast {
					return "batch-boundary", fmt.Sprintf("pref(last=%d), want last=%d (size=%d limit=%d)", e.last, wantLast, fc.Size, fc.Workers)
				}
				curLast = e.last
				expectNextStart = e.last + 1
			case 's':
				if e.last != curLast {
					return "job-before-its-pref", fmt.Sprintf("job %d ran with last=%d but the current batch is %d", e.i, e.last, curLast)
				}
				if start := (curLast / fc.Workers) * fc.Workers; e.i > curLast || e.i < start {
					return "batch-boundary", fmt.Sprintf("job %d outside its batch (last=%d)", e.i, curLast)
				}
				if seenStart[e.i] {
					return "job-run-twice", fmt.Sprintf("index %d twice", e.i)
				}
				seenStart[e.i] = true
				open++
			case 'e':
				open--
			}
		}
		if code == 0 && nprefs != (fc.Size+fc.Workers-1)/fc.Workers {
			return "pref-count", fmt.Sprintf("%d pref calls for size=%d limit=%d, want %d", nprefs, fc.Size, fc.Workers, (fc.Size+fc.Workers-1)/fc.Workers)
		}
		if code == 0 && len(seenStart) != fc.Size {
			return "success-without-running-every-job", fmt.Sprintf("%d of %d indices", len(seenStart), fc.Size)
		}
	}
	return "", ""
}

func main() {
	o := vh.ParseFlags()
	res := vh.NewResult("(1) forced schedules on the real util.BaseJobWorker / ErrCallbackJobWorker: random sequences of NewJob / job end (ok or error) / Done / Cancel / Wait with parked jobs, semaphore sizes 1..4; every call's result and the moment Wait returns are compared with the Coq model; (2) free-running RunJobWorker / RunErrCallbackJobWorker / BatchWork, sizes 1..60, worker sizes / limits 1..12, failing jobs, failing pref, cancellation; non-trivial = schedule with at least one accepted job and a Wait, or free case with more jobs than workers or a failure")
	r := vh.NewRand(o.Seed)
	cases := &vh.Cases{Import: "From MV Require Import C33.Model.", Type: "xcase", CheckFn: "check_x", Shard: 400}
	var rmu sync.Mutex
	knownReported := 0

	type sched struct {
		size  int
		errcb bool
		ops   []opT
		out   schedResult
	}
	record := func(s *sched, bucket string) {
		rmu.Lock()
		defer rmu.Unlock()
		rp := replay{Kind: "schedule", Size: s.size, ErrCb: s.errcb, Ops: s.ops}
		key := fmt.Sprintf("%d/%v/%v", s.size, s.errcb, s.ops)
		hasWait := false
		for _, op := range s.ops {
			if op.K == 4 {
				hasWait = true
			}
		}
		res.Count(key, hasWait && len(s.out.inv) > 0)
		res.Dist(bucket)
		for _, n := range s.out.notes {
			class := "expected-effect-not-observed"
			if strings.Contains(n, "did not cancel") {
				class = "job-error-does-not-cancel"
			}
			res.Fail(class, n, rp)
		}
		for id, n := range s.out.inv {
			if n != 1 {
				res.Fail("accepted-job-not-run-once", fmt.Sprintf("job %d invoked %d times", id, n), rp)
			}
		}
		if s.out.waitErr >= 0 {
			res.Dist("wait_returned")
			if len(s.out.runningAtWaitReturn) > 0 {
				if s.out.waitErr == 0 {
					res.Fail("wait-nil-before-jobs-end", fmt.Sprintf("Wait returned nil while jobs %v were still running", s.out.runningAtWaitReturn), rp)
				} else {
					res.Dist("wait_returned_error_with_running_jobs")
					if knownReported < 3 {
						knownReported++
						res.Fail("wait-returns-before-running-jobs-end-on-error",
							fmt.Sprintf("Wait returned error code %d while jobs %v were still running", s.out.waitErr, s.out.runningAtWaitReturn), rp)
					}
				}
			}
		}
		ot := make([]string, len(s.out.obs))
		for i, ob := range s.out.obs {
			ot[i] = vh.Tuple(fmt.Sprintf("%d", ob.R1), fmt.Sprintf("%d", ob.R2), fmt.Sprintf("%d", ob.W))
		}
		cases.Add("XSched "+vh.Tuple(vh.Nat(s.size), vh.Bool(s.errcb), opsTerm(s.ops), "["+join(ot)+"]%nat", natList(s.out.inv), natList(s.out.errfs)),
			map[string]any{"input": rp, "obs": s.out.obs, "inv": s.out.inv, "errfs": s.out.errfs})
		if bucket == "schedule" {
			res.Sample(map[string]any{"size": s.size, "errcb": s.errcb, "ops": s.ops, "obs": s.out.obs})
		}
	}

	if o.Replay != "" {
		var rp replay
		if err := vh.ReadReplay(o.Replay, &rp); err != nil {
			panic(err)
		}
		if rp.Kind == "free" && rp.Free != nil {
			c, d := runFree(*rp.Free)
			fmt.Printf("replay free %+v => %s %s\n", *rp.Free, c, d)
		} else {
			s := &sched{size: rp.Size, errcb: rp.ErrCb, ops: rp.Ops}
			s.out = runSchedule(s.size, s.errcb, s.ops)
			fmt.Printf("replay schedule %+v => %+v\n", rp, s.out)
			record(s, "replay")
		}
	}

	// corpus: the known finding (job 0 parked, job 1 fails, Wait returns the error while job 0 runs);
	// the fixed defect (NewJob blocked, job fails: NewJob must return the job's error); plain cases
	corpus := [][]opT{
		{{K: 0}, {K: 0}, {K: 2}, {K: 4}, {K: 1, ID: 1, Fail: true}, {K: 1, ID: 0}},
		{{K: 0}, {K: 0}, {K: 1, ID: 0, Fail: true}, {K: 2}, {K: 4}},
		{{K: 0}, {K: 0}, {K: 2}, {K: 4}, {K: 1, ID: 0}, {K: 1, ID: 1}},
		{{K: 0}, {K: 2}, {K: 0}, {K: 4}, {K: 1, ID: 0}},
		{{K: 3}, {K: 4}, {K: 0}},
		{{K: 0}, {K: 4}, {K: 3}, {K: 1, ID: 0}},
	}
	for _, ops := range corpus {
		s := &sched{size: 2, ops: ops}
		s.out = runSchedule(2, false, ops)
		record(s, "corpus")
	}
	for _, ops := range [][]opT{
		{{K: 0}, {K: 0}, {K: 1, ID: 0, Fail: true}, {K: 2}, {K: 4}},
		{{K: 0}, {K: 0}, {K: 2}, {K: 4}, {K: 1, ID: 0}},
		{{K: 0}, {K: 0}, {K: 1, ID: 0}, {K: 1, ID: 1, Fail: true}, {K: 0}, {K: 2}, {K: 4}},
	} {
		s := &sched{size: 1, ops: ops}
		s.out = runSchedule(1, false, ops)
		record(s, "corpus")
	}

	ns := o.Pick(1500, 30000)
	scheds := make([]*sched, ns)
	for i := range scheds {
		sz, ecb, ops := genSchedule(r)
		scheds[i] = &sched{size: sz, errcb: ecb, ops: ops}
	}
	var wg sync.WaitGroup
	sem := make(chan struct{}, 12)
	for _, s := range scheds {
		wg.Add(1)
		sem <- struct{}{}
		go func(s *sched) {
			defer wg.Done()
			defer func() { <-sem }()
			s.out = runSchedule(s.size, s.errcb, s.ops)
		}(s)
	}
	wg.Wait()
	for _, s := range scheds {
		record(s, "schedule")
	}

	// free-running
	nf := o.Pick(1500, 30000)
	for k := 0; k < nf; k++ {
		fc := freeCase{Fn: []string{"run", "errcb", "batch", "batch"}[r.Intn(4)], Size: r.Range(1, 60), Workers: r.Range(1, 12), PrefFailAt: -1, CancelAfter: -1, Seed: r.U64()}
		if r.Chance(1, 4) {
			fc.Size = fc.Workers * r.Range(1, 5)
		}
		switch r.Intn(5) {
		case 0:
			fc.FailAt = []int{r.Intn(fc.Size)}
		case 1:
			fc.FailAt = []int{r.Intn(fc.Size), r.Intn(fc.Size), r.Intn(fc.Size)}
		case 2:
			if fc.Fn == "batch" {
				// pref is called with the last index of a batch
				b := r.Intn((fc.Size + fc.Workers - 1) / fc.Workers)
				l := (b+1)*fc.Workers - 1
				if l > fc.Size-1 {
					l = fc.Size - 1
				}
				fc.PrefFailAt = l
			}
		case 3:
			if r.Chance(1, 2) {
				fc.CancelAfter = r.Intn(fc.Size)
			}
		}
		sort.Ints(fc.FailAt)
		{
			var d []int
			for _, x := range fc.FailAt {
				if len(d) == 0 || d[len(d)-1] != x {
					d = append(d, x)
				}
			}
			fc.FailAt = d
		}
		class, desc := runFree(fc)
		key := fmt.Sprintf("%s/%d/%d/%v/%d/%d", fc.Fn, fc.Size, fc.Workers, fc.FailAt, fc.PrefFailAt, fc.CancelAfter)
		res.Count(key, fc.Size > fc.Workers || len(fc.FailAt) > 0 || fc.PrefFailAt >= 0 || fc.CancelAfter >= 0)
		res.Dist("free:" + fc.Fn)
		if class != "" {
			fcc := fc
			res.Fail(class, fmt.Sprintf("%s(size=%d, workers/limit=%d, fail=%v, pref_fail=%d, cancel_after=%d): %s", fc.Fn, fc.Size, fc.Workers, fc.FailAt, fc.PrefFailAt, fc.CancelAfter, desc), replay{Kind: "free", Free: &fcc})
		}
	}

	// exhaustive grid: the FULL trace of BatchWork (every pref call with its argument, every job with its
	// (i, last)) for all (size, limit), exact multiples and limit 1 included, against the model's batches
	grid := o.Pick(14, 40)
	for size := 0; size <= grid; size++ {
		for limit := 1; limit <= grid; limit++ {
			var tmu sync.Mutex
			type tev struct{ k, a, b int }
			var tr []tev
			err := util.BatchWork(context.Background(), int64(size), int64(limit),
				func(_ context.Context, last uint64) error {
					tmu.Lock()
					tr = append(tr, tev{0, int(last), 0})
					tmu.Unlock()
					return nil
				},
				func(_ context.Context, i, last uint64) error {
					tmu.Lock()
					tr = append(tr, tev{1, int(i), int(last)})
					tmu.Unlock()
					return nil
				})
			// sequential view: sort the job events between two pref calls by index
			for lo := 0; lo < len(tr); {
				hi := lo + 1
				for hi < len(tr) && tr[hi].k == 1 {
					hi++
				}
				sort.Slice(tr[lo+1:hi], func(x, y int) bool { return tr[lo+1+x].a < tr[lo+1+y].a })
				lo = hi
			}
			// the property's own reading
			want := 0
			if size >= 1 {
				want = (size + limit - 1) / limit
			}
			np, nj, bad := 0, 0, ""
			lastPref, jobsSincePref := -1, 0
			for k, e := range tr {
				if e.k == 0 {
					if k > 0 && jobsSincePref == 0 {
						bad = fmt.Sprintf("pref(%d) prepared a batch without jobs", lastPref)
					}
					if e.a <= lastPref {
						bad = fmt.Sprintf("pref(last=%d) after pref(last=%d): not once per batch", e.a, lastPref)
					}
					lastPref, jobsSincePref = e.a, 0
					np++
				} else {
					if e.b != lastPref {
						bad = fmt.Sprintf("job %d ran with last=%d under pref(%d)", e.a, e.b, lastPref)
					}
					jobsSincePref++
					nj++
				}
			}
			if len(tr) > 0 && jobsSincePref == 0 {
				bad = fmt.Sprintf("the last pref(%d) prepared a batch without jobs", lastPref)
			}
			if err == nil && (np != want || nj != size) {
				bad = fmt.Sprintf("%d pref calls and %d jobs, want %d and %d", np, nj, want, size)
			}
			res.Count(fmt.Sprintf("trace/%d/%d", size, limit), size > limit)
			res.Dist("trace_grid")
			if bad != "" {
				res.Fail("batch-trace", fmt.Sprintf("BatchWork(size=%d, limit=%d): %s", size, limit, bad), replay{Kind: "free", Free: &freeCase{Fn: "batch", Size: size, Workers: limit, PrefFailAt: -1, CancelAfter: -1}})
			}
			ts := make([]string, len(tr))
			for k, e := range tr {
				ts[k] = vh.Tuple(fmt.Sprintf("%d", e.k), fmt.Sprintf("%d", e.a), fmt.Sprintf("%d", e.b))
			}
			cases.Add(fmt.Sprintf("XTrace %d %d %s [%s]%%nat", size, limit, vh.Bool(err == nil), join(ts)),
				map[string]any{"trace": map[string]any{"size": size, "limit": limit, "ok": err == nil, "events": len(tr)}})
		}
	}

	res.ModelCases = cases.Len()
	if err := cases.Write(o.Out); err != nil {
		panic(err)
	}
	res.Write(o.Out)
}
