package main

import (
	"context"
	"errors"
	"fmt"
	"time"

	"github.com/spikeekips/mitum/util"
)

func main() {
	// (b) workersize 1: job 0 parks then fails while NewJob(1) is blocked in Acquire
	rel := make(chan struct{})
	e0 := errors.New("job0 failed")
	go func() { time.Sleep(50 * time.Millisecond); close(rel) }()
	err := util.RunJobWorker(context.Background(), 1, 2, func(ctx context.Context, i, _ uint64) error {
		if i == 0 {
			<-rel
			return e0
		}
		return nil
	})
	fmt.Printf("(b) RunJobWorker returned %v; is job0 error: %v; is context.Canceled: %v\n", err, errors.Is(err, e0), errors.Is(err, context.Canceled))

	// (a) job A parked, job B fails, Wait returns while A still running
	wk, _ := util.NewBaseJobWorker(context.Background(), 2)
	relA := make(chan struct{})
	endedA := make(chan struct{})
	_ = wk.NewJob(func(ctx context.Context, _ uint64) error { <-relA; close(endedA); return nil })
	_ = wk.NewJob(func(ctx context.Context, _ uint64) error { return e0 })
	wk.Done()
	werr := wk.Wait()
	select {
	case <-endedA:
		fmt.Println("(a) A ended before Wait returned")
	default:
		fmt.Printf("(a) Wait returned %v while job A is still running\n", werr)
	}
	close(relA)
}
