// c20: reopening storage returns exactly what was stored.
//
// Random histories as in c19 (starting at the genesis height) plus "close + reopen" steps at random
// quiescent points, and histories that reopen after EVERY block and EVERY merge.  The storage is a
// goleveldb MemStorage that survives Close; a reopen closes the leveldb and builds a new
// LeveldbPermanent + Center from it.  Oracles (on the real code):
//   - every read kind (objects and *Bytes) for every key / height gives the same answer after the reopen
//     as before, and every *Bytes read is byte-for-byte identical        -> class reopen-read:/reopen-bytes:
//   - every read agrees with the committed chain (chain.Spec)            -> class read-mismatch:
//   - pool: proposals and operations read back identically after reopening the TempPool -> class pool-reopen
//
// and the Coq model C20.Model (C19's model + transcribed load functions) is evaluated on the same
// histories (cases_NNN.v).
package main

import (
	"bytes"
	"context"
	"fmt"
	"sort"
	"strings"
	"time"

	"github.com/spikeekips/mitum/base"
	"github.com/spikeekips/mitum/isaac"
	isaacdatabase "github.com/spikeekips/mitum/isaac/database"
	leveldbstorage "github.com/spikeekips/mitum/storage/leveldb"
	"github.com/spikeekips/mitum/util"
	"github.com/spikeekips/mitum/util/encoder"
	"github.com/spikeekips/mitum/util/valuehash"
	goleveldbstorage "github.com/syndtr/goleveldb/leveldb/storage"
	"verifharness/cmd/c19/chain"
	"verifharness/vh"
)

type replay struct {
	Seed   uint64     `json:"seed"`
	Chain  int        `json:"chain"`
	Cache  int        `json:"cache"`
	Cfg    chain.Cfg  `json:"cfg"`
	Ops    []chain.Op `json:"ops"`
	Detail any        `json:"detail,omitempty"`
}

func main() {
	o := vh.ParseFlags()
	chain.Supervise(o, "harness supervisor")
	res := vh.NewResult("one evaluation = one read of the real Center compared with the oracle (and with itself across a reopen); a case = one history with close/reopen steps; non-trivial = history with at least one reopen after a merge that moved a suffrage proof into the permanent store")
	cases := &vh.Cases{Import: "From MV Require Import C19.Model C20.Model.", Type: "case", CheckFn: "check", Shard: 20}
	t0 := time.Now()
	if o.Replay != "" {
		var rp replay
		if err := vh.ReadReplay(o.Replay, &rp); err != nil {
			panic(err)
		}
		w := chain.NewWorld(vh.NewRand(rp.Seed), rp.Cfg.NKeys, rp.Cfg.NIn, rp.Cfg.NKn)
		ops := chain.Rebuild(w, rp.Ops)
		_, _, mism, err := chain.Run(w, ops, rp.Cfg, rp.Cache, nil)
		fmt.Printf("replay: %d steps, err=%v, %d mismatching reads\n", len(ops), err, len(mism))
		for i, m := range mism {
			if i < 20 {
				fmt.Printf("  step %d %s: impl=%d oracle=%d\n", m.Step, m.Read, m.Impl, m.Want)
			}
			res.Fail("read-mismatch:"+chain.Kind(m.Read), fmt.Sprintf("replay step %d: %s = %d, want %d", m.Step, m.Read, m.Impl, m.Want), rp)
		}
	}
	r := vh.NewRand(o.Seed)

	// corpus: the minimal history of the (fixed) defect -- the last suffrage proof lives in the
	// permanent store, then reopen: LastSuffrageProofBytes / SuffrageProofBytes(last) must keep the body
	{
		cr := vh.NewRand(7)
		p := chain.Params{Blocks: 3, NKeys: 4, NIn: 2, NKn: 2, StartSuf: true}
		w := chain.NewWorld(cr, p.NKeys, p.NIn, p.NKn)
		ws, cfg := chain.GenerateWrites(cr, w, p)
		ops := []chain.Op{ws[0], ws[1], {T: "M"}, {T: "O"}, ws[2], {T: "M"}, {T: "O"}, {T: "O"}}
		runHistory(o, res, cases, w, ops, cfg, 0, -1, "corpus")
	}

	// corpus: one BIG block (more keys than LeveldbPermanent.batchlimit) merged, reopen, every key read back
	for i, pc := range []int{0, 100} {
		w, ops, cfg := chain.BigHistory(vh.NewRand(uint64(960+i)), true)
		runHistory(o, res, cases, w, ops, cfg, pc, -10-i, "corpus-big")
	}
	res.Distribution["perm_batchlimit"] = chain.BatchLimit()

	nchains := o.Pick(40, 1000)
	for ci := 0; ci < nchains; ci++ {
		cr := vh.NewRand(r.U64())
		p := chain.RandomParams(cr, true)
		p.StartSuf = cr.Chance(9, 10)
		kind := "random"
		if ci%4 == 3 {
			p.ReopenAlways = true
			if p.Blocks > 12 {
				p.Blocks = cr.Range(3, 12)
			}
			kind = "reopen-always"
		}
		w := chain.NewWorld(cr, p.NKeys, p.NIn, p.NKn)
		ops, cfg := chain.Generate(cr, w, p)
		runHistory(o, res, cases, w, ops, cfg, []int{0, 1, 2, 100, 100}[cr.Intn(5)], ci, kind)
	}
	pool(o, res, vh.NewRand(r.U64()))

	res.ModelCases = cases.Len()
	res.Note(fmt.Sprintf("harness wall %.1fs", time.Since(t0).Seconds()))
	if err := cases.Write(o.Out); err != nil {
		panic(err)
	}
	res.Write(o.Out)
}

func runHistory(o *vh.Opts, res *vh.Result, cases *vh.Cases, w *chain.World, ops []chain.Op, cfg chain.Cfg, cache, ci int, kind string) {
	init, steps, mism, err := chain.Run(w, ops, cfg, cache, nil)
	rp := replay{Seed: o.Seed, Chain: ci, Cache: cache, Cfg: cfg, Ops: ops}
	if err != nil {
		res.Fail("harness-error", err.Error(), rp)
		return
	}
	nreopen, nm, ns := 0, 0, 0
	interesting := false
	sufInPerm := false
	pendingSuf := 0
	for _, op := range ops {
		switch {
		case op.T == "O":
			nreopen++
			if sufInPerm {
				interesting = true
			}
		case op.T == "M":
			nm++
			if pendingSuf > 0 {
				sufInPerm = true
			}
		case op.T == "W" && op.B.Suf != nil:
			ns++
			pendingSuf++
		}
	}
	nreads := 0
	for _, s := range steps {
		nreads += len(s.Reads)
	}
	res.Evaluations += nreads - 1
	res.Count(fmt.Sprintf("chain-%d", ci), interesting)
	res.Dist(kind)
	res.Distribution["steps"] += len(ops)
	res.Distribution["reopens"] += nreopen
	res.Distribution["merges"] += nm
	res.Distribution["suffrage_changes"] += ns
	if ci < 2 {
		res.Sample(map[string]any{"chain": ci, "kind": kind, "steps": len(ops), "reopens": nreopen, "merges": nm, "cfg": cfg, "reads": nreads})
	}
	seen := map[string]bool{}
	sort.SliceStable(mism, func(i, j int) bool { return mism[i].Step < mism[j].Step })
	for _, m := range mism {
		cl := "read-mismatch:" + chain.Kind(m.Read)
		desc := fmt.Sprintf("chain %d step %d: %s = %d, committed chain says %d", ci, m.Step, m.Read, m.Impl, m.Want)
		for _, pre := range []string{"reopen-bytes:", "reopen-read:", "reopen-error"} {
			if strings.HasPrefix(m.Read, pre) {
				cl = pre + chain.Kind(strings.TrimPrefix(m.Read, pre))
				desc = fmt.Sprintf("chain %d step %d (reopen): %s differs after the reopen (after=%d before=%d)", ci, m.Step, m.Read, m.Impl, m.Want)
			}
		}
		if seen[cl] {
			continue
		}
		seen[cl] = true
		rp2 := rp
		rp2.Ops = ops[:max(m.Step, 0)+1]
		rp2.Detail = m
		res.Fail(cl, desc, rp2)
	}
	cases.Add(chain.CoqCase(cfg, init, ops, steps, true), map[string]any{"chain": ci, "kind": kind, "cfg": cfg, "ops": ops})
}

// ---------------------------------------------------------------- pool contents across a reopen

func pool(o *vh.Opts, res *vh.Result, r *vh.Rand) {
	encs, enc := chain.NewEncoders()
	if err := encs.AddDetail(encoder.DecodeDetail{Hint: isaac.DummyOperationFactHint, Instance: isaac.DummyOperationFact{}}); err != nil {
		panic(err)
	}
	if err := encs.AddDetail(encoder.DecodeDetail{Hint: isaac.DummyOperationHint, Instance: isaac.DummyOperation{}}); err != nil {
		panic(err)
	}
	rounds := o.Pick(5, 50)
	for round := 0; round < rounds; round++ {
		mem := goleveldbstorage.NewMemStorage()
		open := func() (*leveldbstorage.Storage, *isaacdatabase.TempPool) {
			st, err := leveldbstorage.NewStorage(mem, nil)
			if err != nil {
				panic(err)
			}
			p, err := isaacdatabase.NewTempPool(st, encs, enc, []int{0, 10}[r.Intn(2)])
			if err != nil {
				panic(err)
			}
			return st, p
		}
		st, p := open()
		priv := base.NewMPrivatekey()
		networkID := base.NetworkID([]byte("verif-c20"))
		addr := base.RandomAddress("p")
		var prs []base.ProposalSignFact
		var ops []base.Operation
		type snap struct{ objs, raws []string }
		take := func(p *isaacdatabase.TempPool) snap {
			var s snap
			for _, pr := range prs {
				got, found, err := p.Proposal(pr.Fact().Hash())
				s.objs = append(s.objs, fmt.Sprintf("%v/%v/%v", found, err, found && got.Fact().Hash().Equal(pr.Fact().Hash())))
				ht, meta, body, found, err := p.ProposalBytes(pr.Fact().Hash())
				s.raws = append(s.raws, fmt.Sprintf("%v/%v/%s/%x/%x", found, err, ht, meta, body))
				bp, found, err := p.ProposalByPoint(pr.ProposalFact().Point(), pr.ProposalFact().Proposer(), pr.ProposalFact().PreviousBlock())
				s.objs = append(s.objs, fmt.Sprintf("bypoint %v/%v/%v", found, err, found && bp.Fact().Hash().Equal(pr.Fact().Hash())))
			}
			for _, op := range ops {
				got, found, err := p.Operation(context.Background(), op.Hash())
				s.objs = append(s.objs, fmt.Sprintf("%v/%v/%v", found, err, found && got.Hash().Equal(op.Hash())))
				ht, meta, body, found, err := p.OperationBytes(context.Background(), op.Hash())
				s.raws = append(s.raws, fmt.Sprintf("%v/%v/%s/%x/%x", found, err, ht, meta, body))
			}
			return s
		}
		n := r.Range(3, 12)
		for i := 0; i < n; i++ {
			switch r.Intn(3) {
			case 0, 1:
				fact := isaac.NewProposalFact(base.NewPoint(base.Height(r.Intn(6)), base.Round(r.Intn(3))), addr, valuehash.NewSHA256(r.Bytes(32)),
					[][2]util.Hash{{valuehash.NewSHA256(r.Bytes(32)), valuehash.NewSHA256(r.Bytes(32))}})
				sf := isaac.NewProposalSignFact(fact)
				if err := sf.Sign(priv, networkID); err != nil {
					panic(err)
				}
				if _, err := p.SetProposal(sf); err != nil {
					res.Fail("pool-set-error", err.Error(), map[string]any{"seed": o.Seed, "round": round})
				}
				prs = append(prs, sf)
			default:
				op, err := isaac.NewDummyOperation(isaac.NewDummyOperationFact(r.Bytes(16), valuehash.NewSHA256(r.Bytes(32))), priv, networkID)
				if err != nil {
					panic(err)
				}
				if _, err := p.SetOperation(context.Background(), op); err != nil {
					res.Fail("pool-set-error", err.Error(), map[string]any{"seed": o.Seed, "round": round})
				}
				ops = append(ops, op)
			}
			if r.Chance(1, 3) || i == n-1 {
				before := take(p)
				for _, s := range before.objs {
					if !strings.HasPrefix(s, "true/<nil>/true") && !strings.HasPrefix(s, "bypoint true/<nil>/true") {
						res.Fail("pool-read", "stored pool item not read back: "+s, map[string]any{"seed": o.Seed, "round": round})
					}
				}
				chain.Quiesce()
				_ = p.Close()
				_ = st.Close()
				st, p = open()
				after := take(p)
				res.Evaluations += len(after.objs) + len(after.raws)
				if strings.Join(before.objs, "\n") != strings.Join(after.objs, "\n") || !bytes.Equal([]byte(strings.Join(before.raws, "\n")), []byte(strings.Join(after.raws, "\n"))) {
					res.Fail("pool-reopen", fmt.Sprintf("round %d: pool reads differ after reopen", round), map[string]any{"seed": o.Seed, "round": round})
				}
				res.Distribution["pool_reopens"]++
			}
		}
		_ = p.Close()
		_ = st.Close()
	}
}
