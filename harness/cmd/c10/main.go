// c10: block production is deterministic.
//
// Every case (random prior suffrage / candidates / policy state, random proposal of join, candidate,
// disjoin, expel, network-policy operations, valid and invalid, plus operations the node cannot fetch /
// already knows / finds invalid) is ONE proposal processed several times by the real
// isaac.DefaultProposalProcessor + isaacblock.Writer (+ DefaultStatesMerger, fixedtree.Writer) + the real
// operation processors, with worker sizes 1, 2, 7, 64 and scheduling noise injected into GetOperationFunc,
// GetStateFunc, OperationProcessor.Process and the writer's back ends.  Oracle (the property's statement):
// all runs give the same manifest hash, operations-tree root, states-tree root and suffrage hash.  The
// first run's outcome, states-tree key order and operations-tree leaves are compared with the Coq model.
package main

import (
	"fmt"
	"strings"
	"time"

	"verifharness/cmd/c17/sim"
	"verifharness/vh"
)

type replay struct {
	Seed uint64 `json:"seed"`
	Tier string `json:"tier"`
	Case int    `json:"case"`
	What string `json:"what,omitempty"`
}

func strList(xs []string) string {
	ss := make([]string, len(xs))
	for i, x := range xs {
		ss[i] = vh.Str(x)
	}
	return vh.List(ss)
}

func leafList(o *sim.Obs) string {
	ss := make([]string, len(o.LeafEntry))
	for j, e := range o.LeafEntry {
		ss[j] = fmt.Sprintf("(%d%%nat, %s)", e, vh.Bool(o.Slots[e] == 2))
	}
	return vh.List(ss)
}

func fingerprint(o *sim.Obs) string {
	if o.Err != "" {
		// error texts of goroutine races may differ in wording: compare the fact that it failed
		return "error"
	}
	return strings.Join([]string{o.ManifestHash, o.OpsRoot, o.StatesRoot, o.SuffrageHash}, "|")
}

func detail(o *sim.Obs) string {
	if o.Err != "" {
		return "error: " + o.Err
	}
	return fmt.Sprintf("manifest=%s ops=%s states=%s suffrage=%s opsleaves=%v stleaves=%v", o.ManifestHash, o.OpsRoot, o.StatesRoot, o.SuffrageHash, o.OpsLeafs, o.StLeafs)
}

func main() {
	o := vh.ParseFlags()
	res := vh.NewResult("random prior states and proposals of 1..40 operations (join/candidate/disjoin/expel/policy, valid, duplicate, foreign-signed, expired, conflicting, unfetchable, known, invalid), each proposal processed with worker sizes 1,2,7,64 under injected scheduling noise; non-trivial = at least two operations went into the state (the mergers received values in a schedule-dependent order)")
	var rp *replay
	if o.Replay != "" {
		rp = &replay{}
		if err := vh.ReadReplay(o.Replay, rp); err != nil {
			panic(err)
		}
		if rp.Seed != 0 {
			o.Seed = rp.Seed
		}
		if rp.Tier != "" {
			o.Tier = rp.Tier
		}
	}
	r := vh.NewRand(o.Seed)
	g := sim.NewGen(r)
	cases := &vh.Cases{Import: "From MV Require Import C17.Model C10.Model.", Type: "env * list op * option outcome * list string * list (nat * bool)", CheckFn: "C10.Model.check", Shard: o.Pick(100, 250)}

	ncases := o.Pick(300, 4000)
	reps := 1
	if o.Thorough() {
		reps = 2
	}
	type job struct {
		c     *sim.Case
		sched []sim.Sched
		obs   []sim.Obs
	}
	t0 := time.Now()
	corpus := g.Corpus()
	ncases += len(corpus)
	jobs := make([]*job, ncases)
	for ci := range jobs {
		var c *sim.Case
		if ci < len(corpus) {
			c = corpus[ci]
		} else {
			c = g.RandomCase(res, true)
		}
		j := &job{c: c}
		j.sched = append(j.sched, sim.Sched{Workers: 1}) // baseline: one worker, no noise
		for k := 0; k < reps; k++ {
			for _, w := range []int64{1, 2, 7, 64} {
				j.sched = append(j.sched, sim.Sched{Workers: w, Noise: r.U64() | 1})
			}
		}
		j.obs = make([]sim.Obs, len(j.sched))
		jobs[ci] = j
	}
	tgen := time.Since(t0)
	vh.Parallel(len(jobs), 4, func(ci int) {
		j := jobs[ci]
		order := j.c.Identity()
		pr := j.c.NewProposal(order) // one proposal (one ProposedAt) for all the runs of the case
		for k := range j.sched {
			j.obs[k] = j.c.RunProposal(pr, order, j.sched[k])
		}
	})
	distinctOrders := 0
	for ci, j := range jobs {
		c := j.c
		nm := c.Names()
		order := c.Identity()
		base := &j.obs[0]
		verbose := rp != nil && rp.Case == ci
		instate := 0
		for _, s := range base.Slots {
			if s == 2 {
				instate++
			}
		}
		res.Count(fmt.Sprintf("c%d", ci), instate >= 2)
		res.Dist(fmt.Sprintf("in-state-ops:%s", bucket(instate)))
		res.Dist(fmt.Sprintf("entries:%s", bucket(len(c.Ops)+len(c.Expels))))
		if base.Err != "" && !c.AllSkipped() {
			res.Fail("process-error", fmt.Sprintf("case %d: %s", ci, base.Err), replay{o.Seed, o.Tier, ci, base.Err})
		}
		if verbose {
			fmt.Printf("case %d\n env  = %s\n ops  = %s\n impl = %s\n keys = %v\n", ci, c.CoqEnv(nm), c.CoqOps(nm, order, base.ExpelOrder), base.CoqOutcome(nm), base.StKeys)
			for k := range j.obs {
				fmt.Printf("  run %d %+v: %s\n", k, j.sched[k], detail(&j.obs[k]))
			}
		}
		// oracle: every schedule gives the same manifest / roots / suffrage hash
		f0 := fingerprint(base)
		for k := 1; k < len(j.obs); k++ {
			res.Evaluations++
			if fk := fingerprint(&j.obs[k]); fk != f0 {
				res.Fail("manifest-depends-on-schedule", fmt.Sprintf("case %d: workers=%d noise=%x gives %s ; workers=1 gives %s", ci, j.sched[k].Workers, j.sched[k].Noise, detail(&j.obs[k]), detail(base)),
					replay{o.Seed, o.Tier, ci, "schedule"})
				break
			}
		}
		// the leaves of the operations tree follow the proposal: checked inside sim.Run (Err otherwise);
		// the states tree lists the changed states in key order
		for k := 1; k < len(base.StKeys); k++ {
			if base.StKeys[k-1] >= base.StKeys[k] {
				res.Fail("states-tree-not-in-key-order", fmt.Sprintf("case %d: %v", ci, base.StKeys), replay{o.Seed, o.Tier, ci, "keys"})
			}
		}
		orders := map[string]struct{}{}
		for k := range j.obs {
			orders[strings.Join(j.obs[k].ProcessOrder, ",")] = struct{}{}
		}
		if instate >= 2 {
			res.Dist(fmt.Sprintf("distinct-completion-orders-per-case(>=2 in state):%s", bucket(len(orders))))
			if len(orders) > 1 {
				distinctOrders++
			}
		}
		cases.Add(vh.Tuple(c.CoqEnv(nm), c.CoqOps(nm, order, base.ExpelOrder), base.CoqOutcome(nm), strList(base.StKeys), leafList(base)),
			map[string]any{"case": ci, "env": c.CoqEnv(nm), "ops": c.CoqOps(nm, order, base.ExpelOrder), "impl": base.CoqOutcome(nm), "keys": base.StKeys, "err": base.Err})
		if ci < 3 {
			res.Sample(map[string]any{"case": ci, "entries": len(c.Ops) + len(c.Expels), "in_state": instate, "manifest": base.ManifestHash, "runs": len(j.obs), "state_keys": base.StKeys})
		}
	}
	res.Note(fmt.Sprintf("cases whose runs finished their Process jobs in at least two different orders: %d", distinctOrders))
	res.Note(fmt.Sprintf("cases: %d x %d schedules in %.1fs (generate+sign %.1fs)", ncases, 1+4*reps, time.Since(t0).Seconds(), tgen.Seconds()))
	res.ModelCases = cases.Len()
	if err := cases.Write(o.Out); err != nil {
		panic(err)
	}
	res.Write(o.Out)
}

func bucket(n int) string {
	switch {
	case n == 0:
		return "0"
	case n == 1:
		return "1"
	case n <= 4:
		return "2-4"
	case n <= 10:
		return "5-10"
	case n <= 20:
		return "11-20"
	default:
		return ">20"
	}
}
