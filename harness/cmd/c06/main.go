// c06: consensus progress is monotonic.
//
// Real code exercised:
//   - isaac.NewLastPoint, LastPoint.Before (through isaac.IsNewBallot), isaac.IsNewVoteproofbyPoint,
//     isaac.IsNewVoteproof / NewLastPointFromVoteproof with real voteproof objects
//   - isaacstates.Ballotbox.SetLastPoint / LastPoint on real Ballotbox objects
//   - isaac.LastVoteproofsHandler.Set / IsNew / ForceSetLast / Last / Voteproofs with real voteproofs
//
// Oracle = the property's sentences evaluated on the history of accepted updates:
//   S1 the position never moves to a lower height
//   S2 within a height it moves to an earlier (round, stage) only to a suffrage-confirm position while the
//      current position is not a majority
//   S3 ballots and voteproofs for lower heights are rejected
//   S4 the same position (height, round, stage, majority, suffrage-confirm) is never taken twice; the same
//      stage point is re-taken only as non-majority -> majority or plain -> suffrage-confirm
// exhaustively over h,r in 0..2, both stages, 4 flag combinations and all call sequences up to a bound.
package main

import (
	"fmt"
	"strings"

	"github.com/spikeekips/mitum/base"
	"github.com/spikeekips/mitum/isaac"
	isaacstates "github.com/spikeekips/mitum/isaac/states"
	"github.com/spikeekips/mitum/util/valuehash"
	"verifharness/vh"
)

// ---------------------------------------------------------------- the indexed domain (same tables in coq/C06/Model.v)

var domHeights = []int64{0, 1, 2, 33, 34, 9223372036854775806, 9223372036854775807}
var domRounds = []uint64{0, 1, 2, 18446744073709551615}
var stages = []base.Stage{base.StageINIT, base.StageACCEPT}

type P struct { // a position
	H   int64
	R   uint64
	S   int // 0 INIT, 1 ACCEPT
	Maj bool
	SC  bool
}

func b2i(b bool) int {
	if b {
		return 1
	}
	return 0
}

func hIdx(h int64) int {
	for i, x := range domHeights {
		if x == h {
			return i
		}
	}
	panic("height not in domain")
}
func rIdx(r uint64) int {
	for i, x := range domRounds {
		if x == r {
			return i
		}
	}
	panic("round not in domain")
}

func pointIdx(h int64, r uint64, s int) int { return (hIdx(h)*4+rIdx(r))*2 + s }
func (p P) idx() int                         { return (pointIdx(p.H, p.R, p.S)*2+b2i(p.Maj))*2 + b2i(p.SC) }
func (p P) sp() base.StagePoint {
	return base.NewStagePoint(base.RawPoint(p.H, p.R), stages[p.S])
}
func (p P) String() string {
	return fmt.Sprintf("(h=%d,r=%d,%s,maj=%v,sc=%v)", p.H, p.R, stages[p.S], p.Maj, p.SC)
}
func (p P) earlierThan(q P) bool { // (round, stage) of p before (round, stage) of q
	return p.R < q.R || (p.R == q.R && p.S < q.S)
}
func (p P) samePoint(q P) bool { return p.H == q.H && p.R == q.R && p.S == q.S }

func fromLP(l isaac.LastPoint) (P, bool) {
	if l.IsZero() {
		return P{}, false
	}
	s := 0
	if l.Stage() == base.StageACCEPT {
		s = 1
	}
	return P{H: l.Height().Int64(), R: l.Round().Uint64(), S: s, Maj: l.IsMajority(), SC: l.IsSuffrageConfirm()}, true
}

func stateIdx(l isaac.LastPoint) uint64 {
	p, ok := fromLP(l)
	if !ok {
		return 999
	}
	return uint64(p.idx())
}

func mkLP(p P) (isaac.LastPoint, bool) {
	l, err := isaac.NewLastPoint(p.sp(), p.Maj, p.SC)
	return l, err == nil
}

// all valid positions over the given heights / rounds, in the order of Model.small_positions
func positions(hs []int64, rs []uint64) (valid []P, invalid []P) {
	for _, h := range hs {
		for _, r := range rs {
			for s := 0; s < 2; s++ {
				for _, maj := range []bool{false, true} {
					for _, sc := range []bool{false, true} {
						p := P{h, r, s, maj, sc}
						if _, ok := mkLP(p); ok {
							valid = append(valid, p)
						} else {
							invalid = append(invalid, p)
						}
					}
				}
			}
		}
	}
	return
}

type point struct {
	H int64
	R uint64
	S int
}

func smallPoints() []point {
	var ps []point
	for _, h := range []int64{0, 1, 2} {
		for _, r := range []uint64{0, 1, 2} {
			for s := 0; s < 2; s++ {
				ps = append(ps, point{h, r, s})
			}
		}
	}
	return ps
}

func newBox() *isaacstates.Ballotbox {
	return isaacstates.NewBallotbox(
		base.NewStringAddress("c06-local"),
		func() base.Threshold { return base.Threshold(100) },
		func(base.Height) (base.Suffrage, bool, error) { return nil, false, nil },
	)
}

type mask struct {
	words []uint64
	n     int
}

func (m *mask) add(b bool) {
	if m.n%64 == 0 {
		m.words = append(m.words, 0)
	}
	if b {
		m.words[m.n/64] |= 1 << uint(m.n%64)
	}
	m.n++
}

func (m *mask) coq() string { // hex literal, most significant word first
	if len(m.words) == 0 {
		return "0%N"
	}
	var sb strings.Builder
	sb.WriteString("0x")
	for i := len(m.words) - 1; i >= 0; i-- {
		sb.WriteString(fmt.Sprintf("%016x", m.words[i]))
	}
	sb.WriteString("%N")
	return sb.String()
}

func nlist(xs []uint64) string {
	ss := make([]string, len(xs))
	for i, x := range xs {
		ss[i] = fmt.Sprintf("%d", x)
	}
	return "[" + strings.Join(ss, "; ") + "]%N"
}

// ---------------------------------------------------------------- the oracle on a history of SetLastPoint calls

type replaySeq struct {
	Kind string `json:"kind"` // "setlastpoint" | "handler"
	Seq  []P    `json:"seq,omitempty"`
	Ops  []hop  `json:"ops,omitempty"`
}

type oracle struct {
	res      *vh.Result
	small    []point
	override string // when set, failures of step() are filed under this class
	perClass map[string]int
}

func (o *oracle) fail(class, desc string, rp any) {
	if o.override != "" {
		class = o.override
	}
	o.report(class, desc, rp)
}

// vh.Result keeps the first 200 failures only: keep at most 12 per class so that the many cases of a known
// finding can never crowd out a failure of another class (the rest is counted in the distribution)
func (o *oracle) report(class, desc string, rp any) {
	if o.perClass == nil {
		o.perClass = map[string]int{}
	}
	o.perClass[class]++
	if o.perClass[class] <= 12 {
		o.res.Fail(class, desc, rp)
	} else {
		o.res.Distribution["oracle_fail:"+class]++
	}
}

// checks S1, S2, S4(step) for one accepted update cur -> p (hasCur=false: first update from the zero state)
func (o *oracle) step(what string, hasCur bool, cur, p P, rp any) {
	if !hasCur {
		return
	}
	if p.H < cur.H {
		o.fail("height-decreased", fmt.Sprintf("%s: position moved from %v to lower height %v", what, cur, p), rp)
	}
	if p.H == cur.H && p.earlierThan(cur) && !(p.SC && !cur.Maj) {
		o.fail("backward-not-sc", fmt.Sprintf("%s: position moved back from %v to %v (allowed only to a suffrage-confirm result from a non-majority)", what, cur, p), rp)
	}
	if p == cur {
		o.fail("retake-step", fmt.Sprintf("%s: accepted update %v equals the current position", what, p), rp)
	}
	if p.samePoint(cur) && p != cur && !((!cur.Maj && p.Maj) || (!cur.SC && p.SC)) {
		o.fail("same-stagepoint-retaken", fmt.Sprintf("%s: stage point re-taken %v -> %v (not non-majority->majority nor plain->suffrage-confirm)", what, cur, p), rp)
	}
}

// S4 over the whole history: acc = accepted updates in order
func (o *oracle) history(what string, acc []P, rp any, stale ...bool) {
	for j := 1; j < len(acc); j++ {
		for i := 0; i < j; i++ {
			if acc[i] != acc[j] {
				continue
			}
			viaStale := false
			for k := i + 1; k <= j && k < len(stale); k++ {
				viaStale = viaStale || stale[k]
			}
			if viaStale {
				o.report(classStale, fmt.Sprintf("%s: position %v taken at update %d and again at update %d, when an accepted suffrage-confirm INIT voteproof left an older ACCEPT voteproof as the cap; accepted updates %v", what, acc[j], i, j, acc), rp)
				return
			}
			// the documented finding: between the two takes the position moved backward for a suffrage-confirm result
			backward := false
			for k := i + 1; k <= j; k++ {
				if acc[k].H == acc[k-1].H && acc[k].earlierThan(acc[k-1]) && acc[k].SC && !acc[k-1].Maj {
					backward = true
				}
			}
			if backward {
				o.report("retake-after-sc-backward-move", fmt.Sprintf("%s: position %v taken at update %d and again at update %d, after a backward move to a suffrage-confirm result; accepted updates %v", what, acc[j], i, j, acc), rp)
			} else {
				o.report("retake-history", fmt.Sprintf("%s: position %v taken at update %d and again at update %d; accepted updates %v", what, acc[j], i, j, acc), rp)
			}
			return
		}
	}
}

// S3 at state l: every small-domain point of lower height is rejected as ballot and as voteproof
func (o *oracle) lowerRejected(l isaac.LastPoint, cur P) {
	for _, pt := range o.small {
		if pt.H >= cur.H {
			continue
		}
		sp := base.NewStagePoint(base.RawPoint(pt.H, pt.R), stages[pt.S])
		for _, sc := range []bool{false, true} {
			if isaac.IsNewBallot(l, sp, sc) {
				o.report("lower-height-ballot-accepted", fmt.Sprintf("IsNewBallot(%v, %v, sc=%v) = true", cur, sp, sc), replaySeq{Kind: "setlastpoint", Seq: []P{cur}})
			}
			for _, maj := range []bool{false, true} {
				if isaac.IsNewVoteproofbyPoint(l, sp, maj, sc) {
					o.report("lower-height-voteproof-accepted", fmt.Sprintf("IsNewVoteproofbyPoint(%v, %v, maj=%v, sc=%v) = true", cur, sp, maj, sc), replaySeq{Kind: "setlastpoint", Seq: []P{cur}})
				}
			}
		}
	}
}

// ---------------------------------------------------------------- voteproofs and the handler

// known finding of LastVoteproofsHandler.Set: a suffrage-confirm INIT voteproof is accepted (backward move) but
// Cap() then returns an ACCEPT voteproof stored earlier at the same or a later point
const classStale = "lvh-stale-accept-after-sc-backward"

type hop struct {
	Kind int `json:"kind"` // 0 Set, 1 IsNew, 2 ForceSetLast, 3 Voteproofs(point)
	H    int64
	R    uint64
	S    int
	VK   int // voteproof kind: 0 majority plain, 1 majority suffrage-confirm (INIT), 2 draw
}

func (o hop) vpIdx() int { return pointIdx(o.H, o.R, o.S)*4 + o.VK }

func mkVoteproof(o hop) base.Voteproof {
	pt := base.RawPoint(o.H, o.R)
	switch o.S {
	case 0:
		vp := isaac.NewINITVoteproof(pt)
		switch o.VK {
		case 0:
			vp.SetMajority(isaac.NewINITBallotFact(pt, valuehash.RandomSHA256(), valuehash.RandomSHA256(), nil))
		case 1:
			vp.SetMajority(isaac.NewSuffrageConfirmBallotFact(pt, valuehash.RandomSHA256(), valuehash.RandomSHA256(), nil))
		}
		vp.SetThreshold(base.Threshold(100)).Finish()
		return vp
	default:
		vp := isaac.NewACCEPTVoteproof(pt)
		if o.VK == 0 {
			vp.SetMajority(isaac.NewACCEPTBallotFact(pt, valuehash.RandomSHA256(), valuehash.RandomSHA256(), nil))
		}
		vp.SetThreshold(base.Threshold(100)).Finish()
		return vp
	}
}

func vpPos(vp base.Voteproof) (P, bool) {
	l, err := isaac.NewLastPointFromVoteproof(vp)
	if err != nil {
		return P{}, false
	}
	return fromLP(l)
}

type hrun struct {
	ids map[string]uint64 // voteproof ID -> op index + 1
}

func (hr *hrun) id(vp base.Voteproof) uint64 {
	if vp == nil {
		return 0
	}
	// typed nil interfaces do not occur: the handler stores what it was given
	return hr.ids[vp.ID()]
}

func (hr *hrun) obs(b bool, l isaac.LastVoteproofs) []uint64 {
	var i, a, m base.Voteproof
	if l.INIT() != nil {
		i = l.INIT()
	}
	if l.ACCEPT() != nil {
		a = l.ACCEPT()
	}
	m = l.Majority()
	return []uint64{uint64(b2i(b)), hr.id(i), hr.id(a), hr.id(m)}
}

// runs ops on a fresh handler; returns observations; applies the oracle to the Set calls
func runHandler(ops []hop, o *oracle, useOracle bool) [][]uint64 {
	h := isaac.NewLastVoteproofsHandler()
	hr := &hrun{ids: map[string]uint64{}}
	var out [][]uint64
	rp := replaySeq{Kind: "handler", Ops: ops}
	var acc []P
	var stale []bool
	for k, op := range ops {
		if op.Kind == 3 {
			l, found := h.Voteproofs(base.NewStagePoint(base.RawPoint(op.H, op.R), stages[op.S]))
			out = append(out, hr.obs(found, l))
			continue
		}
		vp := mkVoteproof(op)
		hr.ids[vp.ID()] = uint64(k + 1)
		var capBefore base.Voteproof = h.Last().Cap()
		var cur P
		hasCur := false
		if capBefore != nil {
			cur, hasCur = vpPos(capBefore)
		}
		switch op.Kind {
		case 0:
			isnew := h.IsNew(vp)
			b := h.Set(vp)
			out = append(out, hr.obs(b, h.Last()))
			if useOracle {
				np, _ := vpPos(vp)
				if hasCur && np.H < cur.H && isnew {
					o.report("lower-height-voteproof-accepted", fmt.Sprintf("LastVoteproofsHandler.IsNew(%v) = true against %v", np, cur), rp)
				}
				capAfter := h.Last().Cap()
				if capAfter != nil && (capBefore == nil || capAfter.ID() != capBefore.ID()) {
					ap, _ := vpPos(capAfter)
					isStale := b && op.S == 0 && op.VK == 1 && capAfter.ID() != vp.ID() && capAfter.Point().Stage() == base.StageACCEPT
					if isStale {
						o.override = classStale
					}
					o.step("LastVoteproofsHandler.Set", hasCur, cur, ap, rp)
					o.override = ""
					acc = append(acc, ap)
					stale = append(stale, isStale)
				}
				if capAfter == nil && capBefore != nil {
					o.report("height-decreased", "LastVoteproofsHandler.Set: last voteproofs emptied", rp)
				}
			}
		case 1:
			out = append(out, hr.obs(h.IsNew(vp), h.Last()))
		case 2:
			out = append(out, hr.obs(h.ForceSetLast(vp), h.Last()))
		}
	}
	if useOracle {
		o.history("LastVoteproofsHandler.Set", acc, rp, stale...)
	}
	return out
}

func coqHandlerCase(ops []hop, obs [][]uint64) string {
	os := make([]string, len(ops))
	for i, op := range ops {
		idx := op.vpIdx()
		if op.Kind == 3 {
			idx = pointIdx(op.H, op.R, op.S)
		}
		os[i] = fmt.Sprintf("(%d, %d)", op.Kind, idx)
	}
	bs := make([]string, len(obs))
	for i, ob := range obs {
		bs[i] = nlist(ob)
		bs[i] = strings.TrimSuffix(bs[i], "%N")
	}
	return "(KHandler [" + strings.Join(os, "; ") + "]%N [" + strings.Join(bs, "; ") + "]%N)"
}

// ---------------------------------------------------------------- main

func main() {
	o := vh.ParseFlags()
	res := vh.NewResult("positions over heights 0..2 x rounds 0..2 x {INIT,ACCEPT} x 4 flag combinations: every sequence of SetLastPoint calls up to the bound through isaac.LastPoint (exhaustive) and through real Ballotbox objects (all pairs, sampled longer sequences, random walks over an extended domain with heights near 2^63 and rounds near 2^64); IsNewBallot / IsNewVoteproofbyPoint tables at every state; LastVoteproofsHandler under exhaustive pairs and random sequences of Set/IsNew/ForceSetLast/Voteproofs with real voteproofs; non-trivial = a sequence with at least one rejected or backward update")
	r := vh.NewRand(o.Seed)
	cases := &vh.Cases{Import: "From MV Require Import C06.Model.", Type: "case", CheckFn: "check", Shard: 400}
	orc := &oracle{res: res, small: smallPoints()}

	small, invalid := positions([]int64{0, 1, 2}, []uint64{0, 1, 2})
	ext, _ := positions(domHeights, domRounds)
	res.Distribution["small_positions"] = len(small)
	res.Distribution["invalid_positions(NewLastPoint error)"] = len(invalid)
	for _, p := range invalid {
		cases.Add(fmt.Sprintf("(KInvalid %d)", p.idx()), map[string]any{"invalid": p})
	}

	if o.Replay != "" {
		var rp replaySeq
		if err := vh.ReadReplay(o.Replay, &rp); err != nil {
			panic(err)
		}
		switch rp.Kind {
		case "handler":
			obs := runHandler(rp.Ops, orc, true)
			fmt.Println("replay handler:", obs)
			cases.Add(coqHandlerCase(rp.Ops, obs), map[string]any{"replay": rp})
		default:
			runBoxSeq(rp.Seq, orc, cases, true)
		}
	}

	// ---- corpus: the documented witness and relatives, through a real Ballotbox
	A := P{33, 1, 0, false, false}
	B := P{33, 0, 0, true, true}
	for _, seq := range [][]P{
		{A, B, A}, {A, B, A, A}, {A, B, A, B, A},
		{{33, 0, 0, true, false}, {33, 0, 0, true, true}, {33, 0, 1, true, false}, {34, 0, 0, true, false}},
		{{33, 0, 1, false, false}, {33, 1, 0, false, false}, {33, 0, 0, true, true}, {33, 0, 1, true, false}},
		{{9223372036854775807, 18446744073709551615, 1, true, false}, {9223372036854775806, 0, 0, true, true}, {9223372036854775807, 0, 0, true, true}},
	} {
		runBoxSeq(seq, orc, cases, true)
	}

	// the handler witness: ACCEPT draw (2,1), INIT draw (2,2), suffrage-confirm INIT majority (2,1)
	{
		ops := []hop{{Kind: 0, H: 2, R: 1, S: 1, VK: 2}, {Kind: 0, H: 2, R: 2, S: 0, VK: 2}, {Kind: 0, H: 2, R: 1, S: 0, VK: 1}}
		obs := runHandler(ops, orc, true)
		cases.Add(coqHandlerCase(ops, obs), map[string]any{"handler_ops": ops})
	}

	// ---- tables: IsNewBallot / IsNewVoteproofbyPoint at every state (and S3)
	{
		var zero isaac.LastPoint
		addTable(zero, cases)
		for _, p := range small {
			l, _ := mkLP(p)
			addTable(l, cases)
			orc.lowerRejected(l, p)
			res.Evaluations += len(orc.small) * 6
		}
		for _, p := range ext {
			l, _ := mkLP(p)
			orc.lowerRejected(l, p)
		}
	}

	// ---- exhaustive sequences through isaac.LastPoint (the state update is SetLastPoint's closure:
	//      replace when last.Before(point, sc)); oracle on every history
	maxLen := o.Pick(3, 4)
	{
		lps := make([]isaac.LastPoint, len(small))
		for i, p := range small {
			lps[i], _ = mkLP(p)
		}
		seq := make([]int, 0, maxLen)
		var rec func(state isaac.LastPoint, hasCur bool, cur P, acc []P, nrej int)
		rec = func(state isaac.LastPoint, hasCur bool, cur P, acc []P, nrej int) {
			if len(seq) > 0 {
				res.Evaluations++
				if nrej > 0 || len(acc) < len(seq) {
					res.DistinctNontrivial++
				}
				if len(acc) >= 3 { // a re-take needs three accepted updates
					orc.history("LastPoint sequence", acc, replaySeq{Kind: "setlastpoint", Seq: idxSeq(small, seq)})
				}
			}
			if len(seq) == maxLen {
				return
			}
			for i, p := range small {
				seq = append(seq, i)
				if state.Before(p.sp(), p.SC) {
					orc.step("LastPoint sequence", hasCur, cur, p, replaySeq{Kind: "setlastpoint", Seq: idxSeq(small, seq)})
					rec(lps[i], true, p, append(acc, p), nrej)
				} else {
					rec(state, hasCur, cur, acc, nrej+1)
				}
				seq = seq[:len(seq)-1]
			}
		}
		var zero isaac.LastPoint
		rec(zero, false, P{}, nil, 0)
		res.Exhaustive = true
		res.Distribution["exhaustive_max_len"] = maxLen
	}

	// ---- real Ballotbox: all pairs (first, second)
	for _, f := range small {
		var m mask
		box := newBox()
		lf, _ := mkLP(f)
		m.add(box.SetLastPoint(lf))
		for _, s := range small {
			b2 := newBox()
			b2.SetLastPoint(lf)
			ls, _ := mkLP(s)
			got := b2.SetLastPoint(ls)
			m.add(got)
			want := lf.Before(s.sp(), s.SC)
			if got != want {
				orc.report("setlastpoint-not-before", fmt.Sprintf("Ballotbox.SetLastPoint(%v) after %v = %v, LastPoint.Before = %v", s, f, got, want), replaySeq{Kind: "setlastpoint", Seq: []P{f, s}})
			}
			st, ok := fromLP(b2.LastPoint())
			if !ok || (got && st != s) || (!got && st != f) {
				orc.report("setlastpoint-state", fmt.Sprintf("Ballotbox.LastPoint() = %v after SetLastPoint(%v), SetLastPoint(%v)=%v", st, f, s, got), replaySeq{Kind: "setlastpoint", Seq: []P{f, s}})
			}
			res.Evaluations++
		}
		cases.Add(fmt.Sprintf("(KPairs %d %s)", f.idx(), m.coq()), map[string]any{"pairs_first": f})
	}
	res.Distribution["ballotbox_pairs"] = len(small) * len(small)

	// ---- real Ballotbox: sampled sequences of length 3..5 over the small domain, walks over the extended one
	nsamp := o.Pick(600, 20000)
	for i := 0; i < nsamp; i++ {
		n := r.Range(3, 5)
		seq := make([]P, n)
		// biased towards one height so that backward moves and re-takes happen
		h := int64(r.Intn(3))
		for k := range seq {
			seq[k] = small[r.Intn(len(small))]
			if r.Chance(2, 3) {
				seq[k].H = h
			}
		}
		runBoxSeq(seq, orc, cases, i < o.Pick(300, 4000))
	}
	nwalk := o.Pick(40, 600)
	for i := 0; i < nwalk; i++ {
		n := r.Range(10, 30)
		seq := make([]P, n)
		for k := range seq {
			seq[k] = ext[r.Intn(len(ext))]
		}
		runBoxSeq(seq, orc, cases, true)
		res.Dist("ballotbox_walks")
	}

	// ---- LastVoteproofsHandler: exhaustive pairs of Set over the small domain, random op sequences
	var vps []hop
	for _, pt := range orc.small {
		for vk := 0; vk < 3; vk++ {
			if pt.S == 1 && vk == 1 {
				continue
			}
			vps = append(vps, hop{Kind: 0, H: pt.H, R: pt.R, S: pt.S, VK: vk})
		}
	}
	res.Distribution["handler_voteproof_kinds"] = len(vps)
	np := 0
	for _, a := range vps {
		for _, b := range vps {
			ops := []hop{a, b}
			obs := runHandler(ops, orc, true)
			res.Evaluations++
			if np%o.Pick(9, 2) == 0 {
				cases.Add(coqHandlerCase(ops, obs), map[string]any{"handler_ops": ops})
			}
			np++
		}
	}
	if o.Thorough() { // all triples, oracle only
		for _, a := range vps {
			for _, b := range vps {
				for _, c := range vps {
					runHandler([]hop{a, b, c}, orc, true)
					res.Evaluations++
				}
			}
		}
	}
	nh := o.Pick(500, 8000)
	for i := 0; i < nh; i++ {
		n := r.Range(3, 14)
		ops := make([]hop, n)
		h := int64(r.Intn(3))
		onlySet := r.Chance(1, 2)
		for k := range ops {
			v := vps[r.Intn(len(vps))]
			if r.Chance(2, 3) {
				v.H = h
				if r.Chance(1, 4) && h > 0 {
					v.H = h - 1
				}
			}
			if !onlySet {
				switch x := r.Intn(10); {
				case x < 5:
					v.Kind = 0
				case x < 7:
					v.Kind = 1
				case x < 8:
					v.Kind = 2
				default:
					v.Kind = 3
					v.VK = 0
				}
			}
			ops[k] = v
		}
		// the oracle speaks about Set-driven histories only (ForceSetLast overrides by design)
		obs := runHandler(ops, orc, onlySet)
		res.Evaluations++
		res.Dist(fmt.Sprintf("handler_seq_onlyset_%v", onlySet))
		if i < o.Pick(350, 4000) {
			cases.Add(coqHandlerCase(ops, obs), map[string]any{"handler_ops": ops})
		}
	}
	// a long sequence that overflows the 8-entry cache
	{
		var ops []hop
		for k := 0; k < 40; k++ {
			v := vps[r.Intn(len(vps))]
			v.H = int64(k / 6)
			if v.H > 2 {
				v.H = []int64{33, 34, 9223372036854775806, 9223372036854775807}[(k/6-3)%4]
			}
			ops = append(ops, v)
			if k%3 == 2 {
				ops = append(ops, hop{Kind: 3, H: ops[r.Intn(len(ops))].H, R: uint64(r.Intn(3)), S: r.Intn(2)})
			}
		}
		obs := runHandler(ops, orc, false)
		cases.Add(coqHandlerCase(ops, obs), map[string]any{"handler_ops": ops})
	}

	res.ModelCases = cases.Len()
	if err := cases.Write(o.Out); err != nil {
		panic(err)
	}
	res.Write(o.Out)
}

func idxSeq(small []P, seq []int) []P {
	out := make([]P, len(seq))
	for i, k := range seq {
		out[i] = small[k]
	}
	return out
}

func addTable(l isaac.LastPoint, cases *vh.Cases) {
	var tb, tv mask
	for _, pt := range smallPoints() {
		sp := base.NewStagePoint(base.RawPoint(pt.H, pt.R), stages[pt.S])
		for _, sc := range []bool{false, true} {
			tb.add(isaac.IsNewBallot(l, sp, sc))
		}
		for _, maj := range []bool{false, true} {
			for _, sc := range []bool{false, true} {
				tv.add(isaac.IsNewVoteproofbyPoint(l, sp, maj, sc))
			}
		}
	}
	cases.Add(fmt.Sprintf("(KTable %d %s %s)", stateIdx(l), tb.coq(), tv.coq()), map[string]any{"table_state": stateIdx(l)})
}

// one real Ballotbox, the calls in order; oracle on the accepted history; optional model case
func runBoxSeq(seq []P, o *oracle, cases *vh.Cases, addModel bool) {
	box := newBox()
	rp := replaySeq{Kind: "setlastpoint", Seq: seq}
	var m mask
	var args, states []uint64
	var acc []P
	var cur P
	hasCur := false
	nontrivial := false
	for _, p := range seq {
		l, ok := mkLP(p)
		if !ok {
			continue
		}
		before := box.LastPoint()
		got := box.SetLastPoint(l)
		m.add(got)
		args = append(args, uint64(p.idx()))
		after := box.LastPoint()
		states = append(states, stateIdx(after))
		st, _ := fromLP(after)
		switch {
		case got && st != p:
			o.report("setlastpoint-state", fmt.Sprintf("SetLastPoint(%v) = true but LastPoint() = %v", p, st), rp)
		case !got && stateIdx(after) != stateIdx(before):
			o.report("setlastpoint-state", fmt.Sprintf("SetLastPoint(%v) = false but LastPoint() changed to %v", p, st), rp)
		}
		if got {
			if hasCur && p.H == cur.H && p.earlierThan(cur) {
				nontrivial = true
			}
			o.step("Ballotbox.SetLastPoint", hasCur, cur, p, rp)
			acc = append(acc, p)
			cur, hasCur = p, true
		} else {
			nontrivial = true
		}
	}
	o.history("Ballotbox.SetLastPoint", acc, rp)
	o.res.Count(fmt.Sprint(args), nontrivial)
	o.res.Sample(map[string]any{"seq": fmt.Sprint(seq), "accepted": fmt.Sprint(acc)})
	if addModel {
		cases.Add(fmt.Sprintf("(KSeq %s %s %s)", nlist(args), m.coq(), nlist(states)), map[string]any{"seq": seq})
	}
}
