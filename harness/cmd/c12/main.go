// c12: util/fixedtree -- the fixed (heap-indexed) Merkle tree commits to every node, proofs are complete and sound.
//
// Runs the real Writer -> Tree -> ExtractProofMaterial -> Proof.IsValid/Prove on generated trees, every
// key's proof and single-node single-field mutations; evaluates the property's statement directly on the
// observed results (oracle) and writes the same inputs + observed outputs as Coq cases for the model
// (coq/C12/Model.v).  The hash function is abstract in the model: each case carries the table of
// (input, output) pairs of the real hash function the model is allowed to apply.
package main

import (
	"bytes"
	"encoding/hex"
	"fmt"
	"math/bits"
	"os"
	"sort"
	"strings"
	"sync"
	"time"

	"github.com/spikeekips/mitum/util/fixedtree"
	"github.com/spikeekips/mitum/util/hint"
	"github.com/spikeekips/mitum/util/valuehash"
	"verifharness/vh"
)

var treeHint = hint.MustNewHint("fixedtree-v0.0.1")

// ---------------------------------------------------------------- plain nodes

type rnode struct {
	Key   []byte `json:"key"`
	Hash  []byte `json:"hash"`
	Empty bool   `json:"empty"`
}

func fromNode(n fixedtree.Node) rnode {
	if n.IsEmpty() {
		return rnode{Empty: true}
	}
	var h []byte
	if n.Hash() != nil {
		h = append([]byte{}, n.Hash().Bytes()...)
	}
	return rnode{Key: []byte(n.Key()), Hash: h}
}

func fromNodes(ns []fixedtree.Node) []rnode {
	out := make([]rnode, len(ns))
	for i := range ns {
		out[i] = fromNode(ns[i])
	}
	return out
}

func (r rnode) node() fixedtree.Node {
	if r.Empty {
		return fixedtree.EmptyBaseNode()
	}
	return fixedtree.NewBaseNode(string(r.Key)).SetHash(valuehash.NewBytes(append([]byte{}, r.Hash...)))
}

func toNodes(rs []rnode) []fixedtree.Node {
	out := make([]fixedtree.Node, len(rs))
	for i := range rs {
		out[i] = rs[i].node()
	}
	return out
}

func (r rnode) hash() []byte {
	if r.Empty {
		return nil
	}
	return r.Hash
}

func (r rnode) coq() string {
	return "(" + vh.BInts(r.Key) + ", " + vh.BInts(r.Hash) + ", " + vh.Bool(r.Empty) + ")"
}

func coqNodes(rs []rnode) string {
	ss := make([]string, len(rs))
	for i := range rs {
		ss[i] = rs[i].coq()
	}
	return vh.List(ss)
}

func coqOptNodes(rs []rnode, ok bool) string {
	if !ok {
		return "None"
	}
	return vh.Some(coqNodes(rs))
}

func cloneNodes(rs []rnode) []rnode { return append([]rnode{}, rs...) }

func (r rnode) String() string {
	if r.Empty {
		return "<empty>"
	}
	return fmt.Sprintf("%q:%s", r.Key, hex.EncodeToString(r.Hash))
}

// ---------------------------------------------------------------- recorded hash function

type htab struct {
	m     map[string][]byte
	order []string
}

func newTab() *htab { return &htab{m: map[string][]byte{}} }

// the hash function of the tree, as the repository provides it
func realH(in []byte) []byte { return valuehash.NewSHA256(in).Bytes() }

func (t *htab) H(in []byte) []byte {
	k := string(in)
	if o, ok := t.m[k]; ok {
		return o
	}
	o := realH(in)
	t.m[k] = o
	t.order = append(t.order, k)
	return o
}

func (t *htab) coq() string {
	ss := make([]string, len(t.order))
	for i, k := range t.order {
		ss[i] = "(" + vh.BInts([]byte(k)) + ", " + vh.BInts(t.m[k]) + ")"
	}
	return vh.List(ss)
}

// all outputs seen in this run, to report an actual collision of the hash function if one ever shows up
var seenOut = map[string]string{}

func noteCollisions(t *htab, res *vh.Result) {
	for _, k := range t.order {
		o := string(t.m[k])
		if p, ok := seenOut[o]; ok && p != k {
			res.Fail("hash-collision", "two different inputs of the hash function with the same output", map[string]string{"a": hex.EncodeToString([]byte(p)), "b": hex.EncodeToString([]byte(k))})
		}
		seenOut[o] = k
	}
}

// ---------------------------------------------------------------- reference (mirror of the model; used to fill the table and as independent recomputation)

func concat(a, b, c []byte) []byte {
	o := make([]byte, 0, len(a)+len(b)+len(c))
	o = append(o, a...)
	o = append(o, b...)
	return append(o, c...)
}

func childHash(t []rnode, c int) []byte {
	if c < len(t) {
		return t[c].hash()
	}
	return nil
}

// every node's hash equals H(key ++ left hash ++ right hash), keys non-empty, nodes not empty
func refValid(t []rnode, tab *htab) bool {
	ok := true
	for i, n := range t {
		if len(n.Key) == 0 {
			ok = false
			continue
		}
		var lh, rh []byte
		if 2*i+1 < len(t) {
			lh, rh = childHash(t, 2*i+1), childHash(t, 2*i+2)
		}
		h := tab.H(concat(n.Key, lh, rh))
		if n.Empty || len(n.Hash) < 1 || len(n.Hash) > 100 || !bytes.Equal(n.hash(), h) {
			ok = false
		}
	}
	return ok
}

func refGen(keys [][]byte, tab *htab) ([]rnode, bool) {
	if len(keys) == 0 {
		return nil, false
	}
	t := make([]rnode, len(keys))
	for i := len(keys) - 1; i >= 0; i-- {
		if len(keys[i]) == 0 {
			return nil, false
		}
		var lh, rh []byte
		if 2*i+1 < len(t) {
			lh, rh = childHash(t, 2*i+1), childHash(t, 2*i+2)
		}
		t[i] = rnode{Key: keys[i], Hash: tab.H(concat(keys[i], lh, rh))}
	}
	return t, true
}

// alignment of Proof.filterNodes: (left hash, right hash, rest)
func refAlign(p []rnode, key []byte) (lh, rh []byte, rest []rnode, found bool) {
	i := -1
	for j := range p {
		if bytes.Equal(p[j].Key, key) {
			i = j
			break
		}
	}
	if i < 0 {
		return nil, nil, nil, false
	}
	switch {
	case i%2 == 0:
		if i > 1 {
			lh, rh = p[i-2].hash(), p[i-1].hash()
		}
		rest = p[i:]
	case i+1 == len(p):
		if i > 1 {
			lh, rh = p[i-2].hash(), p[i-1].hash()
		}
		rest = p[i : i+1]
	default:
		if i > 1 {
			lh, rh = p[i-3].hash(), p[i-2].hash()
		}
		rest = p[i-1:]
	}
	return lh, rh, rest, true
}

// records every hash application Prove may perform on (p, key), all levels, all candidates
func refProveQueries(p []rnode, key []byte, tab *htab) {
	lh, rh, rest, found := refAlign(p, key)
	if !found {
		return
	}
	lvl0 := true
	for len(rest) > 0 {
		cs := rest[:1]
		if len(rest) > 2 {
			cs = rest[:2]
		}
		for _, c := range cs {
			if c.Empty || len(c.Key) == 0 || (lvl0 && !bytes.Equal(c.Key, key)) {
				continue
			}
			tab.H(concat(c.Key, lh, rh))
		}
		if len(rest) <= 2 {
			break
		}
		lh, rh = rest[0].hash(), rest[1].hash()
		rest = rest[2:]
		lvl0 = false
	}
}

// ---------------------------------------------------------------- real code wrappers

func realTreeValid(t []rnode) bool {
	tr, err := fixedtree.NewTree(treeHint, toNodes(t))
	if err != nil {
		return false
	}
	return tr.IsValid(nil) == nil
}

func realGen(keys [][]byte) ([]rnode, bool) {
	w, err := fixedtree.NewWriter(treeHint, uint64(len(keys)))
	if err != nil {
		return nil, false
	}
	for i := range keys {
		if err := w.Add(uint64(i), fixedtree.NewBaseNode(string(keys[i]))); err != nil {
			return nil, false
		}
	}
	tr, err := w.Tree()
	if err != nil {
		return nil, false
	}
	return fromNodes(tr.Nodes()), true
}

func realExtract(t []rnode, key []byte) ([]rnode, bool) {
	ex, err := fixedtree.ExtractProofMaterial(toNodes(t), string(key))
	if err != nil {
		return nil, false
	}
	return fromNodes(ex), true
}

func realProve(p []rnode, key []byte) bool {
	return fixedtree.NewProof(toNodes(p)).Prove(string(key)) == nil
}

func realProofValid(p []rnode) bool {
	return fixedtree.NewProof(toNodes(p)).IsValid(nil) == nil
}

// ---------------------------------------------------------------- key generators

func hashLikeKey(r *vh.Rand) []byte { return []byte(valuehash.NewBytes(r.Bytes(32)).String()) }

func genKeys(r *vh.Rand, n, style int) [][]byte {
	keys := make([][]byte, n)
	for i := range keys {
		switch style {
		case 0: // like the keys mitum uses (hash strings)
			keys[i] = hashLikeKey(r)
		case 1: // short
			keys[i] = []byte(fmt.Sprintf("k%d", i))
		case 2: // arbitrary bytes, arbitrary length
			keys[i] = r.Bytes(r.Range(1, 70))
		default: // common prefixes, one is a prefix of another
			keys[i] = []byte(strings.Repeat("a", 1+i%37) + fmt.Sprintf("%d", i/37))
		}
	}
	return keys
}

// keys built from the keys and hashes of an existing tree: key ++ hash ++ hash looks like the hash input of an inner node
func adversarialKeys(r *vh.Rand, base []rnode) [][]byte {
	n := len(base)
	keys := make([][]byte, n)
	for i := range keys {
		j := r.Intn(n)
		switch r.Intn(5) {
		case 0:
			keys[i] = concat(base[j].Key, childHash(base, 2*j+1), childHash(base, 2*j+2))
		case 1:
			keys[i] = concat(base[j].Key, base[r.Intn(n)].Hash, nil)
		case 2:
			keys[i] = concat(base[j].Key, base[r.Intn(n)].Key, base[r.Intn(n)].Hash)
		case 3:
			keys[i] = append([]byte{}, base[j].Hash...)
		default:
			keys[i] = append([]byte{}, base[i].Key...)
		}
	}
	// keep them pairwise different
	seen := map[string]bool{}
	for i := range keys {
		for seen[string(keys[i])] {
			keys[i] = append(keys[i], byte('0'+r.Intn(10)))
		}
		seen[string(keys[i])] = true
	}
	return keys
}

func uniqueKeys(keys [][]byte) bool {
	seen := map[string]bool{}
	for _, k := range keys {
		if seen[string(k)] {
			return false
		}
		seen[string(k)] = true
	}
	return true
}

// ---------------------------------------------------------------- mutations

type mut struct {
	Pos  int    `json:"pos"`
	Kind string `json:"kind"`
	Node rnode  `json:"node"`
}

func flipByte(b []byte, r *vh.Rand) []byte {
	o := append([]byte{}, b...)
	if len(o) == 0 {
		return []byte{1}
	}
	o[r.Intn(len(o))] ^= byte(1 << uint(r.Intn(8)))
	return o
}

// single-node single-field changes of node at pos; pool = other nodes to borrow keys / hashes from
func mutationsOf(n rnode, pos int, pool []rnode, r *vh.Rand) []mut {
	var ms []mut
	if n.Empty {
		// an empty node has no key or hash to change
		return ms
	}
	ms = append(ms, mut{pos, "hash-flip", rnode{Key: n.Key, Hash: flipByte(n.Hash, r)}})
	ms = append(ms, mut{pos, "key-flip", rnode{Key: flipByte(n.Key, r), Hash: n.Hash}})
	ms = append(ms, mut{pos, "key-append", rnode{Key: append(append([]byte{}, n.Key...), byte(r.Intn(256))), Hash: n.Hash}})
	if len(pool) > 0 {
		o := pool[r.Intn(len(pool))]
		if !o.Empty && !bytes.Equal(o.Hash, n.Hash) {
			ms = append(ms, mut{pos, "hash-other", rnode{Key: n.Key, Hash: o.Hash}})
		}
		o = pool[r.Intn(len(pool))]
		if !o.Empty && !bytes.Equal(o.Key, n.Key) {
			ms = append(ms, mut{pos, "key-other", rnode{Key: o.Key, Hash: n.Hash}})
		}
	}
	ms = append(ms, mut{pos, "hash-truncate", rnode{Key: n.Key, Hash: n.Hash[:len(n.Hash)-1]}})
	return ms
}

func replaced(rs []rnode, pos int, n rnode) []rnode {
	o := cloneNodes(rs)
	o[pos] = n
	return o
}

// ---------------------------------------------------------------- the run

type run struct {
	o     *vh.Opts
	r     *vh.Rand
	res   *vh.Result
	cases *vh.Cases
	sibling int
	terms   []string
	descs   []any
}

func (x *run) add(term string, desc any) {
	x.terms = append(x.terms, term)
	x.descs = append(x.descs, desc)
}

// flush deals the cases into nb files of equal count and similar size (every coqc start costs seconds)
func (x *run) flush(nb int) {
	idx := make([]int, len(x.terms))
	for i := range idx {
		idx[i] = i
	}
	sort.SliceStable(idx, func(a, b int) bool { return len(x.terms[idx[a]]) > len(x.terms[idx[b]]) })
	bins := make([][]int, nb)
	for k, i := range idx {
		bins[k%nb] = append(bins[k%nb], i)
	}
	per := (len(idx) + nb - 1) / nb
	x.cases.Shard = per
	for _, b := range bins {
		for _, i := range b {
			x.cases.Add(x.terms[i], x.descs[i])
		}
		for k := len(b); k < per; k++ {
			x.cases.Add("CArith 0%N 1%N 0%N None None", map[string]any{"kind": "padding"})
		}
	}
}

type treeReplay struct {
	What string   `json:"what"`
	Keys []string `json:"keys_hex"`
	Key  string   `json:"key_hex,omitempty"`
	Mut  *mut     `json:"mutation,omitempty"`
	Pf   []rnode  `json:"proof,omitempty"`
}

func descKeys(keys [][]byte) any {
	if len(keys) > 64 {
		return fmt.Sprintf("(%d keys; rerun with the same seed)", len(keys))
	}
	return hexKeys(keys)
}

func hexKeys(keys [][]byte) []string {
	o := make([]string, len(keys))
	for i := range keys {
		o[i] = hex.EncodeToString(keys[i])
	}
	return o
}

func (x *run) arith() {
	res := x.res
	lim := uint64(1) << uint(x.o.Pick(22, 26))
	const workers = 8
	var mu sync.Mutex
	var wg sync.WaitGroup
	bad := 0
	fail := func(desc string, rp map[string]uint64) {
		mu.Lock()
		defer mu.Unlock()
		if bad < 5 {
			res.Fail("index-arith", desc, rp)
		}
		bad++
	}
	for w := uint64(0); w < workers; w++ {
		wg.Add(1)
		go func(w uint64) {
			defer wg.Done()
			for i := w; i < lim; i += workers {
				h := fixedtree.VerifIndexHeight(i)
				if want := uint64(bits.Len64(i+1) - 1); h != want {
					fail(fmt.Sprintf("indexHeight(%d)=%d want %d", i, h, want), map[string]uint64{"i": i})
				}
				sizes := []uint64{2*i + 2, 2*i + 3}
				if i%16 == 0 {
					sizes = append(sizes, 2*i+1, i+1)
				}
				for _, size := range sizes {
					c, ok := fixedtree.VerifChildren(int(size), i)
					wantok := 2*i+1 < size
					if ok != wantok || (ok && (c[0] != 2*i+1 || c[1] != 2*i+2)) {
						fail(fmt.Sprintf("children(%d,%d)=%v,%v", size, i, c, ok), map[string]uint64{"i": i, "size": size})
					}
				}
				p, ok := fixedtree.VerifParent(i)
				if ok != (i > 0) || (ok && p != (i-1)/2) {
					fail(fmt.Sprintf("parent(%d)=%d,%v", i, p, ok), map[string]uint64{"i": i})
				}
			}
		}(w)
	}
	wg.Wait()
	res.Evaluations += int(lim) * 5
	res.Distribution["arith_sweep_upto"] = int(lim)
	// model cases
	var is []uint64
	for i := uint64(0); i < 48; i++ {
		is = append(is, i)
	}
	for k := uint(6); k <= 32; k++ {
		for d := uint64(0); d < 4; d++ {
			is = append(is, (uint64(1)<<k)-2+d)
		}
	}
	for j := 0; j < 60; j++ {
		is = append(is, x.r.U64()>>uint(32+x.r.Intn(30)))
	}
	for _, i := range is {
		var size uint64
		switch x.r.Intn(4) {
		case 0:
			size = 2*i + 1
		case 1:
			size = 2*i + 2
		case 2:
			size = 2*i + 3
		default:
			size = i + 1 + uint64(x.r.Intn(int(i+2)))
		}
		h := fixedtree.VerifIndexHeight(i)
		c, cok := fixedtree.VerifChildren(int(size), i)
		p, pok := fixedtree.VerifParent(i)
		cs, ps := "None", "None"
		if cok {
			cs = vh.Some(vh.Tuple(vh.N(c[0]), vh.N(c[1])))
		}
		if pok {
			ps = vh.Some(vh.N(p))
		}
		x.add(fmt.Sprintf("CArith %s %s %s %s %s", vh.N(i), vh.N(size), vh.N(h), cs, ps),
			map[string]any{"kind": "arith", "i": i, "size": size, "height": h, "children": c, "children_ok": cok, "parent": p, "parent_ok": pok})
		x.res.Dist("model:arith")
	}
}

// positions of the extracted proof of the node at tree index a that lie on the chain target -> root
func chainPositions(a int) map[int]bool {
	on := map[int]bool{}
	// pairs: pair m (m>=1) holds the children of the (m)th ancestor ... the node itself sits in pair 1
	l := a
	m := 1
	for l > 0 {
		pos := 2 * m
		if l%2 == 0 { // right child
			pos++
		}
		on[pos] = true
		l = (l - 1) / 2
		m++
	}
	on[2*m] = true // the root, last
	return on
}

func (x *run) tree(keys [][]byte, style string, exhaustive bool, modelShare int) {
	res, r := x.res, x.r
	n := len(keys)
	uniq := uniqueKeys(keys)
	res.Dist("tree:" + style)
	switch {
	case n <= 8:
		res.Dist("size:1-8")
	case n <= 64:
		res.Dist("size:9-64")
	case n <= 512:
		res.Dist("size:65-512")
	default:
		res.Dist("size:513-2000")
	}
	rep := func(what string) treeReplay { return treeReplay{What: what, Keys: hexKeys(keys)} }

	// ---- generate
	t, ok := realGen(keys)
	gtab := newTab()
	rt, rok := refGen(keys, gtab)
	res.Count(fmt.Sprintf("gen/%s/%d/%x", style, n, keys[0]), n > 1)
	x.add(fmt.Sprintf("CGen %s %s %s", gtab.coq(), hexList(keys), coqOptNodes(t, ok)),
		map[string]any{"kind": "gen", "style": style, "size": n, "keys_hex": descKeys(keys)})
	res.Dist("model:gen")
	if !ok {
		res.Fail("generate-failed", "Writer.Tree() failed for non-empty keys", rep("generate"))
		return
	}
	if !rok || len(rt) != len(t) {
		res.Fail("generate-differs", "generated tree differs from recomputation", rep("generate"))
		return
	}
	for i := range t {
		if !bytes.Equal(t[i].Key, keys[i]) || !bytes.Equal(t[i].Hash, rt[i].Hash) {
			res.Fail("generate-differs", fmt.Sprintf("node %d of the generated tree is not H(key ++ children hashes)", i), rep("generate"))
			return
		}
	}
	noteCollisions(gtab, res)

	// ---- validity of the generated tree, then of every mutated tree
	if !realTreeValid(t) {
		res.Fail("generated-invalid", "generated tree fails IsValid", rep("isvalid"))
	}
	ttab := newTab()
	refValid(t, ttab)
	var tmuts []string
	var allm []mut
	idxs := r.Perm(n)
	if !exhaustive && len(idxs) > 6 {
		idxs = idxs[:6]
	}
	for _, i := range idxs {
		allm = append(allm, mutationsOf(t[i], i, t, r)...)
		allm = append(allm, mut{i, "empty", rnode{Empty: true}})
	}
	// one Tree object (and a value copy of it) lives through the whole history: validated first, then every
	// mutation is applied with Set, validated again, and undone; the oracle recomputes validity from scratch
	live, lerr := fixedtree.NewTree(treeHint, toNodes(t))
	if lerr != nil || live.IsValid(nil) != nil {
		res.Fail("generated-invalid", "NewTree over the generated nodes is not valid", rep("isvalid"))
		return
	}
	liveCopy := live
	for k, m := range allm {
		t2 := replaced(t, m.Pos, m.Node)
		vfresh := realTreeValid(t2)
		v := x.history(&live, liveCopy, t, m, vfresh, rep)
		res.Count(fmt.Sprintf("tmut/%d/%d/%s/%x", n, m.Pos, m.Kind, keys[0]), true)
		res.Dist("tree-mutation:" + m.Kind)
		if v {
			mm := m
			rp := rep("tree-mutation")
			rp.Mut = &mm
			res.Fail("tree-mutation-undetected", fmt.Sprintf("tree of %d nodes still valid after %s of node %d", n, m.Kind, m.Pos), rp)
		}
		// the root changes whenever a node's key changes
		if strings.HasPrefix(m.Kind, "key") && (exhaustive || k%3 == 0) {
			k2 := append([][]byte{}, keys...)
			k2[m.Pos] = m.Node.Key
			if t3, ok3 := realGen(k2); ok3 && bytes.Equal(t3[0].Hash, t[0].Hash) {
				mm := m
				rp := rep("root-after-key-change")
				rp.Mut = &mm
				res.Fail("root-unchanged-on-key-change", fmt.Sprintf("root unchanged after key of node %d changed", m.Pos), rp)
			}
			res.Evaluations++
		}
		if k%modelShare == 0 || n <= 8 {
			refValid(t2, ttab)
			tmuts = append(tmuts, vh.Tuple(vh.N(uint64(m.Pos)), m.Node.coq(), vh.Bool(v)))
		}
	}
	x.add(fmt.Sprintf("CTree %s %s %s %s", ttab.coq(), coqNodes(t), vh.Bool(true && realTreeValid(t)), vh.List(tmuts)),
		map[string]any{"kind": "tree", "style": style, "size": n, "keys_hex": descKeys(keys), "mutations": len(tmuts)})
	res.Dist("model:tree")
	noteCollisions(ttab, res)

	// ---- proofs
	absent := []byte("ABSENT-" + fmt.Sprint(r.Intn(1000)))
	kidx := r.Perm(n)
	if !exhaustive && len(kidx) > 8 {
		kidx = kidx[:8]
		// always include the last node, the first leaf, the last inner node
		kidx = append(kidx, n-1, n/2, (n-1)/2, 0)
	}
	inTree := map[string]bool{}
	for _, k := range keys {
		inTree[string(k)] = true
	}
	first := map[string]int{}
	for i := n - 1; i >= 0; i-- {
		first[string(keys[i])] = i
	}
	var extracts []string
	if ap, aok := realExtract(t, absent); true {
		extracts = append(extracts, vh.Tuple(vh.BInts(absent), coqOptNodes(ap, aok)))
		if aok {
			res.Fail("proof-forged-membership", "proof material extracted for a key that is not in the tree", rep("extract-absent"))
		}
	}
	defer func() {
		x.add(fmt.Sprintf("CExtract %s %s", coqNodes(t), vh.List(extracts)),
			map[string]any{"kind": "extract", "size": n, "queries": len(extracts), "keys_hex": descKeys(keys)})
		res.Dist("model:extract")
	}()
	for kk, a := range kidx {
		key := keys[a]
		p, pok := realExtract(t, key)
		toModel := n <= 8 || kk%modelShare == 0
		if toModel {
			extracts = append(extracts, vh.Tuple(vh.BInts(key), coqOptNodes(p, pok)))
		}
		res.Count(fmt.Sprintf("proof/%d/%d/%x", n, a, keys[0]), n > 1)
		rp := rep("proof")
		rp.Key = hex.EncodeToString(key)
		if !pok {
			res.Fail("proof-incomplete", fmt.Sprintf("no proof material for key of node %d of a valid tree of %d nodes", a, n), rp)
			continue
		}
		pv := realProofValid(p)
		pr := realProve(p, key)
		if uniq && (!pv || !pr) {
			res.Fail("proof-incomplete", fmt.Sprintf("extracted proof of node %d (tree of %d nodes) does not verify: IsValid=%v Prove=%v", a, n, pv, pr), rp)
		}
		if !bytes.Equal(p[len(p)-1].Hash, t[0].Hash) {
			res.Fail("proof-incomplete", "extracted proof does not end in the root", rp)
		}
		ptab := newTab()
		var proves, pmuts []string
		addProve := func(k []byte) {
			v := realProve(p, k)
			refProveQueries(p, k, ptab)
			proves = append(proves, vh.Tuple(vh.BInts(k), vh.Bool(v)))
			res.Evaluations++
			if v && !inTree[string(k)] {
				rp2 := rp
				rp2.Pf = p
				rp2.Key = hex.EncodeToString(k)
				res.Fail("proof-forged-membership", "Prove accepts a key that is not in the tree", rp2)
			}
		}
		addProve(key)
		addProve(absent)
		if toModel {
			for _, q := range p {
				if !q.Empty && !bytes.Equal(q.Key, key) && r.Chance(1, 2) {
					addProve(q.Key)
				}
			}
		}
		// single-field mutations of the proof; forged membership through each mutated key
		if !uniq || first[string(key)] != a {
			continue
		}
		chain := chainPositions(a)
		var pm []mut
		for j := range p {
			pm = append(pm, mutationsOf(p[j], j, t, r)...)
			if !p[j].Empty {
				pm = append(pm, mut{j, "key-forged", rnode{Key: []byte("FORGED"), Hash: p[j].Hash}})
				pm = append(pm, mut{j, "empty", rnode{Empty: true}})
			}
		}
		sel := map[int]bool{}
		if toModel {
			for c := 0; c < 14 && c < len(pm); c++ {
				sel[r.Intn(len(pm))] = true
			}
		}
		for mi, m := range pm {
			p2 := replaced(p, m.Pos, m.Node)
			pk := key
			if m.Kind == "key-forged" {
				pk = []byte("FORGED")
			}
			v := realProve(p2, pk)
			res.Count(fmt.Sprintf("pmut/%d/%d/%d/%s/%x", n, a, m.Pos, m.Kind, keys[0]), true)
			res.Dist("proof-mutation:" + m.Kind)
			if sel[mi] || n <= 4 {
				refProveQueries(p2, pk, ptab)
				pmuts = append(pmuts, vh.Tuple(vh.N(uint64(m.Pos)), m.Node.coq(), vh.BInts(pk), vh.Bool(v)))
			}
			if !v {
				continue
			}
			mm := m
			rp2 := rp
			rp2.Pf = p
			rp2.Mut = &mm
			switch {
			case m.Kind == "key-forged":
				res.Fail("proof-forged-membership", fmt.Sprintf("after renaming position %d of the proof to a key that is not in the tree, Prove of that key succeeds", m.Pos), rp2)
			case strings.HasPrefix(m.Kind, "key") && !chain[m.Pos]:
				// key of a node that is not on the path target -> root: only its hash enters the chain
				// (known finding; reported a few times only so that the failure list keeps room for anything else)
				if x.sibling < 3 {
					res.Fail("proof-sibling-key", fmt.Sprintf("Prove still succeeds after the key of the off-path node at position %d of the proof was changed", m.Pos), rp2)
				} else {
					res.Dist("known:proof-sibling-key(not listed)")
				}
				x.sibling++
			default:
				res.Fail("proof-mutation-undetected", fmt.Sprintf("Prove still succeeds after %s at position %d (on path: %v) of the proof of node %d, tree of %d nodes", m.Kind, m.Pos, chain[m.Pos], a, n), rp2)
			}
		}
		if toModel {
			x.add(fmt.Sprintf("CProof %s %s %s %s %s", ptab.coq(), coqNodes(p), vh.Bool(pv), vh.List(proves), vh.List(pmuts)),
				map[string]any{"kind": "proof", "size": n, "index": a, "key_hex": hex.EncodeToString(key), "keys_hex": descKeys(keys), "mutations": len(pmuts)})
			res.Dist("model:proof")
			noteCollisions(ptab, res)
		}
	}
}

// history: on the SAME Tree object that already validated: Set(pos, mutated); IsValid; Root; Traverse; Proof;
// the value copy sees the same nodes; then the node is put back and the tree validates again.
// Returns IsValid of the live object after the Set.
func (x *run) history(live *fixedtree.Tree, cp fixedtree.Tree, orig []rnode, m mut, vfresh bool, rep func(string) treeReplay) bool {
	res := x.res
	fail := func(desc string) {
		mm := m
		rp := rep("tree-history")
		rp.Mut = &mm
		res.Fail("tree-stale-after-set", desc, rp)
	}
	if err := live.Set(uint64(m.Pos), m.Node.node()); err != nil {
		fail("Set failed: " + err.Error())
		return vfresh
	}
	cur := fromNodes(live.Nodes())
	want := refValid(cur, newTab()) // from scratch on the current nodes
	v := live.IsValid(nil) == nil
	vcp := cp.IsValid(nil) == nil
	res.Evaluations += 2
	res.Dist("history:set-then-isvalid")
	if v != want || v != vfresh {
		fail(fmt.Sprintf("[IsValid; Set(%d, %s); IsValid] on one Tree object: IsValid=%v, recomputed from the current nodes=%v, fresh tree over the same nodes=%v", m.Pos, m.Kind, v, want, vfresh))
	}
	if cpn := fromNodes(cp.Nodes()); len(cpn) == len(cur) && cpn[m.Pos].String() == cur[m.Pos].String() && vcp != want {
		fail(fmt.Sprintf("value copy of the Tree (sharing the nodes) says IsValid=%v after Set(%d, %s); recomputed=%v", vcp, m.Pos, m.Kind, want))
	}
	if !cur[0].Empty && live.Root() != nil && !bytes.Equal(live.Root().Bytes(), cur[0].Hash) {
		fail("Root() is not the hash of the current node 0")
	}
	var seen []rnode
	_ = live.Traverse(func(_ uint64, n fixedtree.Node) (bool, error) {
		seen = append(seen, fromNode(n))
		return true, nil
	})
	if len(seen) != len(cur) || seen[m.Pos].String() != cur[m.Pos].String() {
		fail("Traverse does not visit the node put by Set")
	}
	if !m.Node.Empty && len(m.Node.Key) > 0 {
		p1, err := live.Proof(string(m.Node.Key))
		p2, ok := realExtract(cur, m.Node.Key)
		if (err == nil) != ok || (ok && fmt.Sprint(fromNodes(p1.Nodes())) != fmt.Sprint(p2)) {
			fail("Tree.Proof after Set differs from ExtractProofMaterial over the current nodes")
		}
	}
	// undo; the original tree validates again
	if err := live.Set(uint64(m.Pos), orig[m.Pos].node()); err != nil || live.IsValid(nil) != nil {
		fail("the tree does not validate after the original node was put back")
	}
	return v
}

func hexList(keys [][]byte) string {
	ss := make([]string, len(keys))
	for i := range keys {
		ss[i] = vh.BInts(keys[i])
	}
	return vh.List(ss)
}

// hand-made proofs and trees: shapes Prove / IsValid must handle that extraction never produces
func (x *run) corpus() {
	r := x.r
	keys := genKeys(r, 7, 1)
	t, _ := realGen(keys)
	p, _ := realExtract(t, keys[3])
	// the witness of the former defect: sibling renamed to a key that is not in the tree
	w := replaced(p, 3, rnode{Key: []byte("FORGED"), Hash: p[3].Hash})
	x.proofCase(w, [][]byte{[]byte("FORGED"), keys[3], keys[4]}, keys, "corpus:forged-sibling")
	// the witness of C12_sibling_key_refuted: keys [1] [2] [3], proof of [2], sibling renamed to [9]
	{
		wk := [][]byte{{1}, {2}, {3}}
		wt, _ := realGen(wk)
		wp, _ := realExtract(wt, wk[1])
		w2 := replaced(wp, 3, rnode{Key: []byte{9}, Hash: wp[3].Hash})
		if realProve(w2, wk[1]) {
			mm := mut{3, "key-other", w2[3]}
			x.res.Fail("proof-sibling-key", "witness of C12_sibling_key_refuted: Prove([2]) succeeds with the sibling renamed to [9]", treeReplay{What: "sibling-key-witness", Keys: hexKeys(wk), Key: "02", Mut: &mm, Pf: wp})
			x.sibling++
		}
		x.proofCase(w2, [][]byte{{2}, {9}, {3}}, wk, "corpus:sibling-key-witness")
	}
	// even lengths, key at position 0/1, key at the last position, truncated proofs, duplicated nodes
	var shapes [][]rnode
	shapes = append(shapes, p[:len(p)-1], p[1:], p[2:], p[:3], p[:1], p[len(p)-1:], append(cloneNodes(p), p[2]), append(cloneNodes(p[2:4]), p...))
	shapes = append(shapes, []rnode{}, []rnode{{Empty: true}}, []rnode{{Empty: true}, {Empty: true}, {Empty: true}})
	sw := cloneNodes(p)
	sw[2], sw[3] = sw[3], sw[2]
	shapes = append(shapes, sw)
	sw2 := cloneNodes(p)
	sw2[4], sw2[5] = sw2[5], sw2[4]
	shapes = append(shapes, sw2)
	for _, s := range shapes {
		ks := [][]byte{keys[3], keys[1], keys[0], keys[4], []byte("nope")}
		x.proofCase(s, ks, keys, "corpus:shape")
	}
	// a node with an empty key among the candidates (nodeHash error aborts Prove)
	ek := replaced(p, 4, rnode{Key: []byte{}, Hash: p[4].Hash})
	x.proofCase(ek, [][]byte{keys[3]}, keys, "corpus:empty-key")
	// trees: empty key, empty node, zero-length hash, too long hash
	for _, m := range []mut{{2, "", rnode{Key: []byte{}, Hash: t[2].Hash}}, {6, "", rnode{Empty: true}}, {5, "", rnode{Key: t[5].Key, Hash: []byte{}}},
		{5, "", rnode{Key: t[5].Key, Hash: bytes.Repeat([]byte{7}, 101)}}, {5, "", rnode{Key: t[5].Key, Hash: bytes.Repeat([]byte{7}, 100)}}} {
		t2 := replaced(t, m.Pos, m.Node)
		tab := newTab()
		refValid(t2, tab)
		v := realTreeValid(t2)
		if v {
			x.res.Fail("tree-mutation-undetected", "hand-made invalid tree is valid", treeReplay{What: "corpus-tree", Keys: hexKeys(keys), Mut: &m})
		}
		x.add(fmt.Sprintf("CTree %s %s %s []", tab.coq(), coqNodes(t2), vh.Bool(v)), map[string]any{"kind": "tree", "style": "corpus", "nodes": t2})
		x.res.Dist("model:tree")
		x.res.Evaluations++
	}
	// Writer with an empty key
	for _, ks := range [][][]byte{{[]byte("a"), {}, []byte("c")}, {{}}} {
		g, ok := realGen(ks)
		tab := newTab()
		refGen(ks, tab)
		x.add(fmt.Sprintf("CGen %s %s %s", tab.coq(), hexList(ks), coqOptNodes(g, ok)), map[string]any{"kind": "gen", "style": "corpus-empty-key"})
		x.res.Dist("model:gen")
		x.res.Evaluations++
	}
}

func (x *run) proofCase(p []rnode, ks [][]byte, treeKeys [][]byte, style string) {
	inTree := map[string]bool{}
	for _, k := range treeKeys {
		inTree[string(k)] = true
	}
	tab := newTab()
	var proves []string
	for _, k := range ks {
		v := realProve(p, k)
		refProveQueries(p, k, tab)
		proves = append(proves, vh.Tuple(vh.BInts(k), vh.Bool(v)))
		x.res.Count(style+"/"+string(k)+fmt.Sprint(len(p)), true)
		if v && !inTree[string(k)] {
			x.res.Fail("proof-forged-membership", "Prove accepts a key that is not in the tree ("+style+")", treeReplay{What: style, Keys: hexKeys(treeKeys), Key: hex.EncodeToString(k), Pf: p})
		}
	}
	pv := realProofValid(p)
	x.add(fmt.Sprintf("CProof %s %s %s %s []", tab.coq(), coqNodes(p), vh.Bool(pv), vh.List(proves)),
		map[string]any{"kind": "proof", "style": style, "proof": p})
	x.res.Dist("model:proof")
}

func main() {
	o := vh.ParseFlags()
	res := vh.NewResult("real fixedtree Writer->Tree->ExtractProofMaterial->Proof on trees of 1..2000 nodes (all sizes up to a bound, sampled above), key styles: hash strings, short, arbitrary bytes, common prefixes, concatenations of other keys and hashes; every key's proof (sampled for large trees); every single-node single-field mutation of tree and proof (exhaustive for small trees); non-trivial = tree with more than one node")
	x := &run{o: o, r: vh.NewRand(o.Seed), res: res, cases: &vh.Cases{Import: "From MV Require Import C12.Model.", Type: "case", CheckFn: "check", Shard: 12}}
	if o.Replay != "" {
		var rp treeReplay
		if err := vh.ReadReplay(o.Replay, &rp); err == nil && len(rp.Keys) > 0 {
			keys := make([][]byte, len(rp.Keys))
			for i := range keys {
				keys[i], _ = hex.DecodeString(rp.Keys[i])
			}
			fmt.Printf("replaying %s on a tree of %d keys\n", rp.What, len(keys))
			x.tree(keys, "replay", true, 1)
		}
	}
	t0 := time.Now()
	lap := func(what string) {
		fmt.Fprintf(os.Stderr, "c12: %s %.1fs\n", what, time.Since(t0).Seconds())
		t0 = time.Now()
	}
	x.corpus()
	x.arith()
	lap("corpus+arith")

	// sampled larger sizes up to 2000
	big := []int{63, 64, 65, 127, 128, 129, 255, 256, 257, 511, 512, 513, 1000, 1023, 1024, 1025, 1999, 2000}
	nb := o.Pick(5, 24)
	for k := 0; k < nb; k++ {
		var n int
		switch {
		case k == 0:
			n = 2000
		case k%2 == 1:
			n = big[x.r.Intn(len(big))]
		default:
			n = x.r.Range(41, 2000)
		}
		if !o.Thorough() && k > 0 && n > 400 {
			n = n/5 + 41
		}
		share := 4
		if n > 600 {
			share = 14
		}
		x.tree(genKeys(x.r, n, []int{0, 0, 1, 2}[x.r.Intn(4)]), "sampled", false, share)
	}
	lap("sampled")
	// all sizes up to a bound, exhaustive proofs and mutations
	exh := o.Pick(40, 100)
	for n := 1; n <= exh; n++ {
		style := n % 4
		x.tree(genKeys(x.r, n, style), fmt.Sprintf("style%d", style), n <= 64, 5)
	}
	lap("all sizes")
	// adversarial keys: concatenations of other keys and hashes
	for _, n := range []int{3, 7, 12, 31, 33, 64} {
		base, _ := realGen(genKeys(x.r, n, n%2))
		x.tree(adversarialKeys(x.r, base), "adversarial", true, 7)
	}
	// duplicated keys (model correspondence of first-occurrence rules; the oracle skips proof claims)
	for _, n := range []int{2, 5, 9, 16} {
		ks := genKeys(x.r, n, 1)
		for i := 0; i < 1+n/4; i++ {
			ks[x.r.Intn(n)] = ks[x.r.Intn(n)]
		}
		x.tree(ks, "duplicates", true, 3)
	}
	lap("adversarial+duplicates")
	if o.Thorough() {
		for k := 0; k < 30; k++ {
			n := x.r.Range(2, 200)
			base, _ := realGen(genKeys(x.r, n, k%2))
			x.tree(adversarialKeys(x.r, base), "adversarial", n <= 64, 9)
		}
	}
	lap("adversarial+duplicates")
	res.Exhaustive = false
	res.ModelCases = len(x.terms)
	x.flush(o.Pick(8, 16))
	res.Sample(map[string]any{"note": "see cases.jsonl of a --keep run for every case"})
	if err := x.cases.Write(o.Out); err != nil {
		panic(err)
	}
	res.Write(o.Out)
	lap("write")
}
