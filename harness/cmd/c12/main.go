package main

import (
	"fmt"

	"github.com/spikeekips/mitum/util/fixedtree"
	"github.com/spikeekips/mitum/util/hint"
	"github.com/spikeekips/mitum/util/valuehash"
)

func main() {
	ht := hint.MustNewHint("fixedtree-v0.0.1")
	w, _ := fixedtree.NewWriter(ht, 7)
	for i := 0; i < 7; i++ {
		_ = w.Add(uint64(i), fixedtree.NewBaseNode(fmt.Sprintf("k%d", i)))
	}
	tr, err := w.Tree()
	fmt.Println(err, tr.IsValid(nil))
	p, err := tr.Proof("k3")
	fmt.Println(err, p.IsValid(nil), p.Prove("k3"))
	ns := p.Nodes()
	for i, n := range ns {
		fmt.Println(i, n.Key(), n.Hash(), n.IsEmpty())
	}
	// sibling key change
	ms := make([]fixedtree.Node, len(ns))
	copy(ms, ns)
	ms[3] = fixedtree.NewBaseNode("FORGED").SetHash(valuehash.NewBytes(ns[3].Hash().Bytes()))
	q := fixedtree.NewProof(ms)
	fmt.Println("sibling key changed: IsValid", q.IsValid(nil), "Prove(k3)", q.Prove("k3"), "Prove(FORGED)", q.Prove("FORGED"))
}
