// c15: isaacblock.ImportBlocks stores every block of the range (any batch limit).
// Real ImportBlocks / saveImporters / util.BatchWork with recording importers; exhaustive
// (count, limit) grid + fault injection; observable history compared with the Coq model.
package main

import (
	"bufio"
	"context"
	"encoding/json"
	"flag"
	"fmt"
	"os"
	"os/exec"
	"sort"
	"strings"
	"sync"
	"time"

	"github.com/pkg/errors"
	"github.com/spikeekips/mitum/base"
	"github.com/spikeekips/mitum/isaac"
	isaacblock "github.com/spikeekips/mitum/isaac/block"
	"github.com/spikeekips/mitum/util"
	"github.com/spikeekips/mitum/util/valuehash"
	"verifharness/vh"
)

type replay struct {
	From     int64 `json:"from"`
	Count    int   `json:"count"`
	Limit    int   `json:"limit"`
	FImport  []int `json:"f_import"`
	FSave    []int `json:"f_save"`
	FDef     []int `json:"f_def"`
	FMerge   []int `json:"f_merge"`
	HasMerge bool  `json:"has_merge"`
	Jitter   bool  `json:"jitter"`
	RevOrder bool  `json:"rev_order"`
}

var (
	errImport = errors.New("verif: import fault")
	errSave   = errors.New("verif: save fault")
	errDef    = errors.New("verif: deferred fault")
	errMerge  = errors.New("verif: merge fault")
)

type event struct {
	kind byte // 's' save, 'd' deferred, 'm' merge, 'c' cancel
	i    int
}

type recorder struct {
	sync.Mutex
	evs []event
}

func (r *recorder) add(k byte, i int) {
	r.Lock()
	r.evs = append(r.evs, event{k, i})
	r.Unlock()
}

type recImporter struct {
	isaacblock.DummyBlockImporter
}

func has(l []int, x int) bool {
	for _, y := range l {
		if x == y {
			return true
		}
	}
	return false
}

type outcome struct {
	Code     int    `json:"code"`
	Saves    []int  `json:"saves"`
	Defs     []int  `json:"defs"`
	Mpoints  []int  `json:"mpoints"`
	Cancels  []int  `json:"cancels"`
	LastSave int    `json:"last_save"` // highest offset whose deferred ran, -1 if none
	Errtext  string `json:"errtext"`
	Panic    string `json:"panic,omitempty"`
}

func runCase(rp replay, r *vh.Rand) outcome {
	rec := &recorder{}
	from := base.Height(rp.From)
	to := from + base.Height(int64(rp.Count)) - 1
	var mergeCalls int
	jit := make([]time.Duration, rp.Count+1)
	if rp.Jitter {
		for i := range jit {
			jit[i] = time.Duration(r.Intn(300)) * time.Microsecond
		}
	}
	var mergef func(context.Context) error
	if rp.HasMerge {
		mergef = func(context.Context) error {
			if has(rp.FMerge, mergeCalls) {
				return errMerge
			}
			mergeCalls++
			rec.add('m', 0)
			return nil
		}
	}
	err := isaacblock.ImportBlocks(
		context.Background(), from, to, int64(rp.Limit), nil,
		func(_ context.Context, h base.Height) (base.BlockMap, bool, error) {
			i := int((h - from).Int64())
			if rp.Jitter && i >= 0 && i < len(jit) {
				time.Sleep(jit[i])
			}
			if has(rp.FImport, i) {
				switch i % 3 {
				case 0:
					return nil, false, errImport
				case 1:
					return nil, false, nil // not found
				}
			}
			return base.NewDummyBlockMap(base.NewDummyManifest(h, valuehash.RandomSHA256())), true, nil
		},
		nil,
		func(m base.BlockMap) (isaac.BlockImporter, error) {
			i := int((m.Manifest().Height() - from).Int64())
			if has(rp.FImport, i) {
				return nil, errImport
			}
			im := &recImporter{}
			im.Savef = func(context.Context) (func(context.Context) error, error) {
				if has(rp.FSave, i) {
					return nil, errSave
				}
				rec.add('s', i)
				return func(context.Context) error {
					if has(rp.FDef, i) {
						return errDef
					}
					rec.add('d', i)
					return nil
				}, nil
			}
			im.CancelImportf = func(context.Context) error {
				rec.add('c', i)
				return nil
			}
			return im, nil
		},
		nil,
		mergef,
	)
	o := outcome{LastSave: -1}
	switch {
	case err == nil:
		o.Code = 0
	case rp.Count < 1:
		o.Code = 1
	case errors.Is(err, errSave):
		o.Code = 3
	case errors.Is(err, errDef):
		o.Code = 4
	case errors.Is(err, errMerge):
		o.Code = 5
	case errors.Is(err, errImport), errors.Is(err, util.ErrNotFound):
		o.Code = 2
	default:
		o.Code = 99
	}
	if err != nil {
		o.Errtext = err.Error()
	}
	// a moment for jobs still running after an early Wait return (C33) -- they cannot add events here
	rec.Lock()
	defer rec.Unlock()
	nd := 0
	for _, e := range rec.evs {
		switch e.kind {
		case 's':
			o.Saves = append(o.Saves, e.i)
		case 'd':
			o.Defs = append(o.Defs, e.i)
			nd++
			if e.i > o.LastSave {
				o.LastSave = e.i
			}
		case 'm':
			o.Mpoints = append(o.Mpoints, nd)
		case 'c':
			o.Cancels = append(o.Cancels, e.i)
		}
	}
	sort.Ints(o.Saves)
	sort.Ints(o.Cancels)
	if o.Code == 3 {
		// which other Saves of the failing batch ran is not determined: drop the cancelled batch
		var s []int
		for _, x := range o.Saves {
			if !has(o.Cancels, x) {
				s = append(s, x)
			}
		}
		o.Saves = s
	}
	return o
}

func natList(xs []int) string {
	ss := make([]string, len(xs))
	for i, x := range xs {
		ss[i] = fmt.Sprintf("%d", x)
	}
	return "[" + join(ss) + "]%nat"
}

func join(ss []string) string {
	out := ""
	for i, s := range ss {
		if i > 0 {
			out += "; "
		}
		out += s
	}
	return out
}

func seqInts(n int) []int {
	s := make([]int, n)
	for i := range s {
		s[i] = i
	}
	return s
}

func eqInts(a, b []int) bool {
	if len(a) != len(b) {
		return false
	}
	for i := range a {
		if a[i] != b[i] {
			return false
		}
	}
	return true
}

type planned struct {
	rp     replay
	bucket string
}

func main() {
	isChild := flag.Bool("c15child", false, "")
	cfrom := flag.Int("c15from", 0, "")
	o := vh.ParseFlags()
	res := vh.NewResult("real isaacblock.ImportBlocks with recording importers: exhaustive (count,limit) grid without faults, plus random fault injection (job / Save / deferred / merge failures) and random job timing; non-trivial = count > 1 and (count is a multiple of limit, or a fault is injected, or count > limit)")
	r := vh.NewRand(o.Seed)
	cases := &vh.Cases{Import: "From MV Require Import C15.Model.", Type: "case", CheckFn: "check", Shard: 400}

	// the cases are planned first (deterministically from the seed), then run in a child process: a
	// panic inside a worker goroutine of ImportBlocks kills the process and must be an observable
	var plan []planned
	do := func(rp replay, bucket string) { plan = append(plan, planned{rp, bucket}) }
	process := func(rp replay, bucket string, oc outcome) {
		if oc.Panic != "" {
			res.Count(fmt.Sprintf("%d/%d/panic", rp.Count, rp.Limit), true)
			res.Dist(bucket)
			res.Fail("panic", fmt.Sprintf("ImportBlocks(count=%d, limit=%d) crashed the process: %s", rp.Count, rp.Limit, oc.Panic), rp)
			return
		}
		key := fmt.Sprintf("%d/%d/%v/%v/%v/%v/%v", rp.Count, rp.Limit, rp.FImport, rp.FSave, rp.FDef, rp.FMerge, rp.HasMerge)
		nofault := len(rp.FImport)+len(rp.FSave)+len(rp.FDef)+len(rp.FMerge) == 0
		res.Count(key, rp.Count > 1 && (rp.Count%rp.Limit == 0 || !nofault || rp.Count > rp.Limit))
		res.Dist(bucket)
		if rp.Count >= 1 && rp.Count%rp.Limit == 0 {
			res.Dist("count_multiple_of_limit")
		}
		// ---- property oracle (independent of the model): success => every block stored and merged
		if oc.Code == 0 {
			all := seqInts(rp.Count)
			switch {
			case !eqInts(oc.Saves, all) || !eqInts(oc.Defs, all):
				res.Fail("success-without-storing-every-block",
					fmt.Sprintf("ImportBlocks(count=%d, limit=%d) returned nil but saved offsets %v, merged (deferred) %v; last stored height offset %d, want %d",
						rp.Count, rp.Limit, oc.Saves, oc.Defs, oc.LastSave, rp.Count-1), rp)
			case rp.HasMerge && (len(oc.Mpoints) == 0 || oc.Mpoints[len(oc.Mpoints)-1] != rp.Count):
				res.Fail("success-without-final-merge",
					fmt.Sprintf("ImportBlocks(count=%d, limit=%d) returned nil but the merge callback did not run after the last block (merge points %v)",
						rp.Count, rp.Limit, oc.Mpoints), rp)
			}
		} else if nofault && rp.Count >= 1 {
			res.Fail("error-without-fault", fmt.Sprintf("ImportBlocks(count=%d, limit=%d) failed without an injected fault: %s", rp.Count, rp.Limit, oc.Errtext), rp)
		}
		if oc.Code == 99 {
			res.Fail("unclassified-error", oc.Errtext, rp)
		}
		term := vh.Tuple(
			vh.Tuple(vh.Nat(rp.Count), vh.Nat(rp.Limit), vh.Bool(rp.RevOrder)),
			vh.Tuple(natList(rp.FImport), natList(rp.FSave), natList(rp.FDef), natList(rp.FMerge), vh.Bool(rp.HasMerge)),
			vh.Tuple(vh.Nat(oc.Code), natList(oc.Saves), natList(oc.Defs), natList(oc.Mpoints), natList(oc.Cancels)),
		)
		cases.Add(term, map[string]any{"input": rp, "impl": map[string]any{"code": oc.Code, "saves": oc.Saves, "deferreds": oc.Defs, "merge_points": oc.Mpoints, "cancels": oc.Cancels, "err": oc.Errtext}})
		if bucket == "fault" {
			res.Sample(map[string]any{"input": rp, "code": oc.Code, "deferreds": oc.Defs, "merge_points": oc.Mpoints})
		}
	}

	if o.Replay != "" {
		var rp replay
		if err := vh.ReadReplay(o.Replay, &rp); err != nil {
			panic(err)
		}
		do(rp, "replay")
	}

	// corpus: the inputs that failed before the fix (final saveImporters skipped when the last
	// batch was full)
	for _, c := range [][2]int{{4, 2}, {3, 3}, {6, 3}, {1, 1}, {34, 3}, {2, 1}, {40, 40}, {40, 20}} {
		do(replay{From: 0, Count: c[0], Limit: c[1], HasMerge: true}, "corpus")
	}
	do(replay{From: 5, Count: 0, Limit: 3, HasMerge: true}, "corpus") // empty range: error

	// exhaustive grid, the property's own quantifier
	g := o.Pick(40, 100)
	for count := 1; count <= g; count++ {
		for limit := 1; limit <= g; limit++ {
			do(replay{From: int64(r.Intn(1000)), Count: count, Limit: limit, HasMerge: true,
				Jitter: (count+limit)%7 == 0 && count <= 40, RevOrder: (count+limit)%2 == 0}, "grid")
		}
	}
	res.Exhaustive = true
	res.Distribution["grid_max"] = g

	// fault injection
	nf := o.Pick(700, 8000)
	for k := 0; k < nf; k++ {
		count := r.Range(1, 40)
		limit := r.Range(1, 12)
		if r.Chance(1, 4) {
			limit = r.Range(1, 40)
		}
		if r.Chance(1, 3) { // force multiples
			count = limit * r.Range(1, 4)
			if count > 60 {
				count = limit
			}
		}
		rp := replay{From: int64(r.Intn(50)), Count: count, Limit: limit, HasMerge: !r.Chance(1, 8), Jitter: r.Chance(1, 10), RevOrder: r.Bool()}
		pick := func() []int { return []int{r.Intn(count)} }
		switch r.Intn(6) {
		case 0:
			rp.FImport = pick()
		case 1:
			rp.FSave = pick()
		case 2:
			rp.FDef = pick()
		case 3:
			nb := (count + limit - 1) / limit
			rp.FMerge = []int{r.Intn(nb)}
		case 4:
			rp.FDef = pick()
			rp.FSave = pick()
		default:
			rp.FImport = pick()
			rp.FMerge = []int{0}
		}
		// a job failure and a Save failure in the same run race only if in different batches: keep
		// the combination deterministic by never mixing import faults with save/deferred faults.
		do(rp, "fault")
	}

	if *isChild {
		out := bufio.NewWriter(os.Stdout)
		for idx, pl := range plan {
			if idx < *cfrom {
				continue
			}
			fmt.Fprintf(out, "START %d\n", idx)
			out.Flush()
			oc := runCase(pl.rp, vh.NewRand(o.Seed*1000003+uint64(idx)))
			b, _ := json.Marshal(oc)
			fmt.Fprintf(out, "RESULT %s\n", b)
			out.Flush()
		}
		fmt.Fprintln(out, "END")
		out.Flush()
		return
	}
	from, crashes := 0, 0
	for from < len(plan) && crashes < 100 {
		args := []string{"-c15child", "-c15from", fmt.Sprint(from), "-seed", fmt.Sprint(o.Seed), "-tier", o.Tier}
		if o.Replay != "" {
			args = append(args, "-replay", o.Replay)
		}
		if o.N > 0 {
			args = append(args, "-n", fmt.Sprint(o.N))
		}
		cmd := exec.Command(os.Args[0], args...)
		stdout, _ := cmd.StdoutPipe()
		var stderr strings.Builder
		cmd.Stderr = &stderr
		if err := cmd.Start(); err != nil {
			panic(err)
		}
		sc := bufio.NewScanner(stdout)
		sc.Buffer(make([]byte, 1<<20), 1<<24)
		cur, ended := -1, false
		for sc.Scan() {
			line := sc.Text()
			switch {
			case strings.HasPrefix(line, "START "):
				fmt.Sscanf(line[6:], "%d", &cur)
			case strings.HasPrefix(line, "RESULT "):
				var oc outcome
				if err := json.Unmarshal([]byte(line[7:]), &oc); err != nil {
					panic(err)
				}
				process(plan[cur].rp, plan[cur].bucket, oc)
				from, cur = cur+1, -1
			case line == "END":
				ended = true
			}
		}
		_ = cmd.Wait()
		if ended {
			break
		}
		crashes++
		msg := stderr.String()
		if i := strings.Index(msg, "panic:"); i >= 0 {
			msg = msg[i:]
		}
		if len(msg) > 400 {
			msg = msg[:400]
		}
		if cur >= 0 {
			process(plan[cur].rp, plan[cur].bucket, outcome{Panic: msg})
			from = cur + 1
		} else {
			res.Fail("panic", "the process crashed between two cases: "+msg, nil)
		}
	}
	res.Distribution["child_crashes"] = crashes
	if from < len(plan) {
		res.Fail("harness-incomplete", fmt.Sprintf("only %d of %d cases ran", from, len(plan)), nil)
	}
	res.ModelCases = cases.Len()
	if err := cases.Write(o.Out); err != nil {
		panic(err)
	}
	res.Write(o.Out)
}
