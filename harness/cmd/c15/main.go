// c15: isaacblock.ImportBlocks stores every block of the range (any batch limit).
// Real ImportBlocks / saveImporters / util.BatchWork with recording importers; exhaustive
// (count, limit) grid + fault injection; observable history compared with the Coq model.
package main

import (
	"context"
	"fmt"
	"sort"
	"sync"
	"time"

	"github.com/pkg/errors"
	"github.com/spikeekips/mitum/base"
	"github.com/spikeekips/mitum/isaac"
	isaacblock "github.com/spikeekips/mitum/isaac/block"
	"github.com/spikeekips/mitum/util"
	"github.com/spikeekips/mitum/util/valuehash"
	"verifharness/vh"
)

type replay struct {
	From     int64 `json:"from"`
	Count    int   `json:"count"`
	Limit    int   `json:"limit"`
	FImport  []int `json:"f_import"`
	FSave    []int `json:"f_save"`
	FDef     []int `json:"f_def"`
	FMerge   []int `json:"f_merge"`
	HasMerge bool  `json:"has_merge"`
	Jitter   bool  `json:"jitter"`
	RevOrder bool  `json:"rev_order"`
}

var (
	errImport = errors.New("verif: import fault")
	errSave   = errors.New("verif: save fault")
	errDef    = errors.New("verif: deferred fault")
	errMerge  = errors.New("verif: merge fault")
)

type event struct {
	kind byte // 's' save, 'd' deferred, 'm' merge, 'c' cancel
	i    int
}

type recorder struct {
	sync.Mutex
	evs []event
}

func (r *recorder) add(k byte, i int) {
	r.Lock()
	r.evs = append(r.evs, event{k, i})
	r.Unlock()
}

type recImporter struct {
	isaacblock.DummyBlockImporter
}

func has(l []int, x int) bool {
	for _, y := range l {
		if x == y {
			return true
		}
	}
	return false
}

type outcome struct {
	code     int
	saves    []int
	defs     []int
	mpoints  []int
	cancels  []int
	lastSave int // highest offset whose deferred ran, -1 if none
	errtext  string
}

func runCase(rp replay, r *vh.Rand) outcome {
	rec := &recorder{}
	from := base.Height(rp.From)
	to := from + base.Height(int64(rp.Count)) - 1
	var mergeCalls int
	jit := make([]time.Duration, rp.Count+1)
	if rp.Jitter {
		for i := range jit {
			jit[i] = time.Duration(r.Intn(300)) * time.Microsecond
		}
	}
	var mergef func(context.Context) error
	if rp.HasMerge {
		mergef = func(context.Context) error {
			if has(rp.FMerge, mergeCalls) {
				return errMerge
			}
			mergeCalls++
			rec.add('m', 0)
			return nil
		}
	}
	err := isaacblock.ImportBlocks(
		context.Background(), from, to, int64(rp.Limit), nil,
		func(_ context.Context, h base.Height) (base.BlockMap, bool, error) {
			i := int((h - from).Int64())
			if rp.Jitter && i >= 0 && i < len(jit) {
				time.Sleep(jit[i])
			}
			if has(rp.FImport, i) {
				switch i % 3 {
				case 0:
					return nil, false, errImport
				case 1:
					return nil, false, nil // not found
				}
			}
			return base.NewDummyBlockMap(base.NewDummyManifest(h, valuehash.RandomSHA256())), true, nil
		},
		nil,
		func(m base.BlockMap) (isaac.BlockImporter, error) {
			i := int((m.Manifest().Height() - from).Int64())
			if has(rp.FImport, i) {
				return nil, errImport
			}
			im := &recImporter{}
			im.Savef = func(context.Context) (func(context.Context) error, error) {
				if has(rp.FSave, i) {
					return nil, errSave
				}
				rec.add('s', i)
				return func(context.Context) error {
					if has(rp.FDef, i) {
						return errDef
					}
					rec.add('d', i)
					return nil
				}, nil
			}
			im.CancelImportf = func(context.Context) error {
				rec.add('c', i)
				return nil
			}
			return im, nil
		},
		nil,
		mergef,
	)
	o := outcome{lastSave: -1}
	switch {
	case err == nil:
		o.code = 0
	case rp.Count < 1:
		o.code = 1
	case errors.Is(err, errSave):
		o.code = 3
	case errors.Is(err, errDef):
		o.code = 4
	case errors.Is(err, errMerge):
		o.code = 5
	case errors.Is(err, errImport), errors.Is(err, util.ErrNotFound):
		o.code = 2
	default:
		o.code = 99
	}
	if err != nil {
		o.errtext = err.Error()
	}
	// a moment for jobs still running after an early Wait return (C33) -- they cannot add events here
	rec.Lock()
	defer rec.Unlock()
	nd := 0
	for _, e := range rec.evs {
		switch e.kind {
		case 's':
			o.saves = append(o.saves, e.i)
		case 'd':
			o.defs = append(o.defs, e.i)
			nd++
			if e.i > o.lastSave {
				o.lastSave = e.i
			}
		case 'm':
			o.mpoints = append(o.mpoints, nd)
		case 'c':
			o.cancels = append(o.cancels, e.i)
		}
	}
	sort.Ints(o.saves)
	sort.Ints(o.cancels)
	if o.code == 3 {
		// which other Saves of the failing batch ran is not determined: drop the cancelled batch
		var s []int
		for _, x := range o.saves {
			if !has(o.cancels, x) {
				s = append(s, x)
			}
		}
		o.saves = s
	}
	return o
}

func natList(xs []int) string {
	ss := make([]string, len(xs))
	for i, x := range xs {
		ss[i] = fmt.Sprintf("%d", x)
	}
	return "[" + join(ss) + "]%nat"
}

func join(ss []string) string {
	out := ""
	for i, s := range ss {
		if i > 0 {
			out += "; "
		}
		out += s
	}
	return out
}

func seqInts(n int) []int {
	s := make([]int, n)
	for i := range s {
		s[i] = i
	}
	return s
}

func eqInts(a, b []int) bool {
	if len(a) != len(b) {
		return false
	}
	for i := range a {
		if a[i] != b[i] {
			return false
		}
	}
	return true
}

func main() {
	o := vh.ParseFlags()
	res := vh.NewResult("real isaacblock.ImportBlocks with recording importers: exhaustive (count,limit) grid without faults, plus random fault injection (job / Save / deferred / merge failures) and random job timing; non-trivial = count > 1 and (count is a multiple of limit, or a fault is injected, or count > limit)")
	r := vh.NewRand(o.Seed)
	cases := &vh.Cases{Import: "From MV Require Import C15.Model.", Type: "case", CheckFn: "check", Shard: 400}

	do := func(rp replay, bucket string) {
		oc := runCase(rp, r)
		key := fmt.Sprintf("%d/%d/%v/%v/%v/%v/%v", rp.Count, rp.Limit, rp.FImport, rp.FSave, rp.FDef, rp.FMerge, rp.HasMerge)
		nofault := len(rp.FImport)+len(rp.FSave)+len(rp.FDef)+len(rp.FMerge) == 0
		res.Count(key, rp.Count > 1 && (rp.Count%rp.Limit == 0 || !nofault || rp.Count > rp.Limit))
		res.Dist(bucket)
		if rp.Count >= 1 && rp.Count%rp.Limit == 0 {
			res.Dist("count_multiple_of_limit")
		}
		// ---- property oracle (independent of the model): success => every block stored and merged
		if oc.code == 0 {
			all := seqInts(rp.Count)
			switch {
			case !eqInts(oc.saves, all) || !eqInts(oc.defs, all):
				res.Fail("success-without-storing-every-block",
					fmt.Sprintf("ImportBlocks(count=%d, limit=%d) returned nil but saved offsets %v, merged (deferred) %v; last stored height offset %d, want %d",
						rp.Count, rp.Limit, oc.saves, oc.defs, oc.lastSave, rp.Count-1), rp)
			case rp.HasMerge && (len(oc.mpoints) == 0 || oc.mpoints[len(oc.mpoints)-1] != rp.Count):
				res.Fail("success-without-final-merge",
					fmt.Sprintf("ImportBlocks(count=%d, limit=%d) returned nil but the merge callback did not run after the last block (merge points %v)",
						rp.Count, rp.Limit, oc.mpoints), rp)
			}
		} else if nofault && rp.Count >= 1 {
			res.Fail("error-without-fault", fmt.Sprintf("ImportBlocks(count=%d, limit=%d) failed without an injected fault: %s", rp.Count, rp.Limit, oc.errtext), rp)
		}
		if oc.code == 99 {
			res.Fail("unclassified-error", oc.errtext, rp)
		}
		term := vh.Tuple(
			vh.Tuple(vh.Nat(rp.Count), vh.Nat(rp.Limit), vh.Bool(rp.RevOrder)),
			vh.Tuple(natList(rp.FImport), natList(rp.FSave), natList(rp.FDef), natList(rp.FMerge), vh.Bool(rp.HasMerge)),
			vh.Tuple(vh.Nat(oc.code), natList(oc.saves), natList(oc.defs), natList(oc.mpoints), natList(oc.cancels)),
		)
		cases.Add(term, map[string]any{"input": rp, "impl": map[string]any{"code": oc.code, "saves": oc.saves, "deferreds": oc.defs, "merge_points": oc.mpoints, "cancels": oc.cancels, "err": oc.errtext}})
		if bucket == "fault" {
			res.Sample(map[string]any{"input": rp, "code": oc.code, "deferreds": oc.defs, "merge_points": oc.mpoints})
		}
	}

	if o.Replay != "" {
		var rp replay
		if err := vh.ReadReplay(o.Replay, &rp); err != nil {
			panic(err)
		}
		oc := runCase(rp, r)
		fmt.Printf("replay %+v => %+v\n", rp, oc)
		do(rp, "replay")
	}

	// corpus: the inputs that failed before the fix (final saveImporters skipped when the last
	// batch was full)
	for _, c := range [][2]int{{4, 2}, {3, 3}, {6, 3}, {1, 1}, {34, 3}, {2, 1}, {40, 40}, {40, 20}} {
		do(replay{From: 0, Count: c[0], Limit: c[1], HasMerge: true}, "corpus")
	}
	do(replay{From: 5, Count: 0, Limit: 3, HasMerge: true}, "corpus") // empty range: error

	// exhaustive grid, the property's own quantifier
	g := o.Pick(40, 100)
	for count := 1; count <= g; count++ {
		for limit := 1; limit <= g; limit++ {
			do(replay{From: int64(r.Intn(1000)), Count: count, Limit: limit, HasMerge: true,
				Jitter: (count+limit)%7 == 0 && count <= 40, RevOrder: (count+limit)%2 == 0}, "grid")
		}
	}
	res.Exhaustive = true
	res.Distribution["grid_max"] = g

	// fault injection
	nf := o.Pick(700, 8000)
	for k := 0; k < nf; k++ {
		count := r.Range(1, 40)
		limit := r.Range(1, 12)
		if r.Chance(1, 4) {
			limit = r.Range(1, 40)
		}
		if r.Chance(1, 3) { // force multiples
			count = limit * r.Range(1, 4)
			if count > 60 {
				count = limit
			}
		}
		rp := replay{From: int64(r.Intn(50)), Count: count, Limit: limit, HasMerge: !r.Chance(1, 8), Jitter: r.Chance(1, 10), RevOrder: r.Bool()}
		pick := func() []int { return []int{r.Intn(count)} }
		switch r.Intn(6) {
		case 0:
			rp.FImport = pick()
		case 1:
			rp.FSave = pick()
		case 2:
			rp.FDef = pick()
		case 3:
			nb := (count + limit - 1) / limit
			rp.FMerge = []int{r.Intn(nb)}
		case 4:
			rp.FDef = pick()
			rp.FSave = pick()
		default:
			rp.FImport = pick()
			rp.FMerge = []int{0}
		}
		// a job failure and a Save failure in the same run race only if in different batches: keep
		// the combination deterministic by never mixing import faults with save/deferred faults.
		do(rp, "fault")
	}

	res.ModelCases = cases.Len()
	if err := cases.Write(o.Out); err != nil {
		panic(err)
	}
	res.Write(o.Out)
}
