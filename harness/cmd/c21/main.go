// c21: block commit is atomic across crashes.
//
// A scenario (write blocks through LeveldbBlockWrite -> TempLeveldb.Merge, merge temps into LeveldbPermanent,
// remove merged temps) runs ONCE on the real Center/LeveldbPermanent over a goleveldb MemStorage wrapped by a
// storage that keeps a copy of every journal write (write merge disabled: one journal record = one leveldb
// Put/Delete/Batch = one atomic storage write).  The crash state "the process stopped after the k-th storage
// write" is rebuilt for EVERY k from the first k journal records on a fresh storage, then the real startup
// (NewLeveldbPermanent + NewCenter: loadLastBlockMap, loadTemps, removeHigherHeights, ...) runs on it and every
// read of the Center is taken.  Oracle (the property's own statement): for a crash inside an operation
// the reads equal the reads after a crash just before the operation or just after it -- the block is fully
// visible or not visible at all; and at the operation boundaries the reads agree with the committed chain.
// The same crash states (plus subsets of the concurrent writes of a permanent merge) go to the Coq model.
package main

import (
	"bytes"
	"context"
	"encoding/binary"
	"fmt"
	"os"
	"regexp"
	"runtime/pprof"
	"sort"
	"strings"
	"time"

	"github.com/spikeekips/mitum/base"
	"github.com/spikeekips/mitum/isaac"
	isaacdatabase "github.com/spikeekips/mitum/isaac/database"
	leveldbstorage "github.com/spikeekips/mitum/storage/leveldb"
	"github.com/spikeekips/mitum/util/encoder"
	"github.com/syndtr/goleveldb/leveldb"
	"github.com/syndtr/goleveldb/leveldb/opt"
	"github.com/syndtr/goleveldb/leveldb/storage"
	"verifharness/vh"
)

// ------------------------------------------------------------------ scenario

type sop struct {
	T string `json:"t"` // W (write block B) | M (merge oldest temp into permanent) | C (clean removed temps, keep N) | R (RemoveBlocks(N): roll back the temps of height >= N)
	B int    `json:"b,omitempty"`
	N int    `json:"n,omitempty"`
}

type scenario struct {
	Name     string      `json:"name"`
	Seed     uint64      `json:"seed"`
	Blocks   []blockSpec `json:"blocks"`
	Ops      []sop       `json:"ops"`
	MapFirst bool        `json:"map_first"` // SetBlockMap before the states (importer order) instead of after (writer order)
}

type replay struct {
	Scenario scenario `json:"scenario"`
	K        int      `json:"k"`
	Drop     []int    `json:"drop,omitempty"`
}

type span struct {
	op        sop
	a, b      int // records [a, b) were written by the operation
	last      int // last height of the chain before / after
	lastAfter int
}

type run struct {
	sc    scenario
	w     *world
	recs  [][]byte
	spans []span
}

type db struct {
	st     *leveldbstorage.Storage
	perm   *isaacdatabase.LeveldbPermanent
	center *isaacdatabase.Center
}

func openDB(w *world, str storage.Storage, o *opt.Options) (*db, error) {
	st, err := leveldbstorage.NewStorage(str, o)
	if err != nil {
		return nil, err
	}
	perm, err := isaacdatabase.NewLeveldbPermanent(st, w.encs, w.enc, 0)
	if err != nil {
		_ = st.Close()
		return nil, err
	}
	center, err := isaacdatabase.NewCenter(st, w.encs, w.enc, perm, func(h base.Height) (isaac.BlockWriteDatabase, error) {
		return isaacdatabase.NewLeveldbBlockWrite(h, st, w.encs, w.enc), nil
	})
	if err != nil {
		_ = st.Close()
		return nil, err
	}
	return &db{st: st, perm: perm, center: center}, nil
}

func (d *db) writeBlock(b *block, mapFirst bool) error {
	wst, err := d.center.NewBlockWriteDatabase(base.Height(b.spec.H))
	if err != nil {
		return err
	}
	if mapFirst {
		if err := wst.SetBlockMap(b.mp); err != nil {
			return err
		}
	}
	if err := wst.SetStates(b.states); err != nil {
		return err
	}
	if err := wst.SetOperations(b.known); err != nil {
		return err
	}
	if !mapFirst {
		if err := wst.SetBlockMap(b.mp); err != nil {
			return err
		}
	}
	if b.proof != nil {
		if err := wst.SetSuffrageProof(b.proof); err != nil {
			return err
		}
	}
	if err := wst.Write(); err != nil {
		return err
	}
	return d.center.MergeBlockWriteDatabase(wst)
}

func execScenario(sc scenario) (*run, error) {
	w := newWorld(vh.NewRand(sc.Seed))
	for _, bs := range sc.Blocks {
		w.newBlock(bs)
	}
	tee := newTeeStorage()
	d, err := openDB(w, tee, &opt.Options{WriteBuffer: 24 << 20, NoWriteMerge: true, NoSync: true})
	if err != nil {
		return nil, err
	}
	r := &run{sc: sc, w: w}
	last := -1
	for _, o := range sc.Ops {
		a := len(tee.records())
		before := last
		switch o.T {
		case "W":
			if err := d.writeBlock(w.blocks[o.B], sc.MapFirst); err != nil {
				return nil, fmt.Errorf("write block %d: %w", o.B, err)
			}
			last = int(w.blocks[o.B].spec.H)
		case "M":
			if _, err := d.center.VerifMergePermanent(context.Background()); err != nil {
				return nil, fmt.Errorf("merge permanent: %w", err)
			}
		case "C":
			if err := d.center.VerifCleanRemoved(o.N); err != nil {
				return nil, fmt.Errorf("clean removed: %w", err)
			}
		case "R":
			if removed, err := d.center.RemoveBlocks(base.Height(o.N)); err != nil || !removed {
				return nil, fmt.Errorf("remove blocks %d: removed=%v %w", o.N, removed, err)
			}
			last = o.N - 1
		}
		r.spans = append(r.spans, span{op: o, a: a, b: len(tee.records()), last: before, lastAfter: last})
	}
	r.recs = tee.records()
	_ = d.st.Close()
	return r, nil
}

// crash state: a fresh storage holding exactly the selected records (in order)
func buildState(recs [][]byte, k int, drop map[int]bool) storage.Storage {
	mem := storage.NewMemStorage()
	raw, err := leveldb.Open(mem, &opt.Options{WriteBuffer: 24 << 20, NoSync: true})
	if err != nil {
		panic(err)
	}
	for i := 0; i < k; i++ {
		if drop[i] {
			continue
		}
		b := new(leveldb.Batch)
		if err := b.Load(recs[i]); err != nil {
			panic(err)
		}
		if err := raw.Write(b, nil); err != nil {
			panic(err)
		}
	}
	if err := raw.Close(); err != nil {
		panic(err)
	}
	return mem
}

// ------------------------------------------------------------------ reads of the recovered Center

type reads struct {
	names []string
	vals  []int64 // -1 not found, -2 error, otherwise an object id
	err   string  // startup error
}

const (
	notFound int64 = -1
	readErr  int64 = -2
	unknown  int64 = -3
)

func (w *world) allReads(d *db) *reads {
	r := &reads{}
	add := func(name string, v int64) { r.names = append(r.names, name); r.vals = append(r.vals, v) }
	obj := func(found bool, err error, id func() int64) int64 {
		switch {
		case err != nil:
			return readErr
		case !found:
			return notFound
		default:
			return id()
		}
	}
	mid := func(m base.BlockMap) int64 {
		if id, ok := w.mapID[m.Manifest().Hash().String()]; ok {
			return int64(id)
		}
		return unknown
	}
	pid := func(p base.SuffrageProof) int64 {
		if id, ok := w.proofID[p.Map().Manifest().Hash().String()]; ok {
			return int64(id)
		}
		return unknown
	}
	c := d.center
	m, found, err := c.LastBlockMap()
	add("lastmap", obj(found, err, func() int64 { return mid(m) }))
	maxH := int64(len(w.blocks))
	for g := int64(0); g <= maxH; g++ {
		m, found, err := c.BlockMap(base.Height(g))
		add(fmt.Sprintf("map:%d", g), obj(found, err, func() int64 { return mid(m) }))
	}
	for k := 0; k <= w.maxKey+1; k++ {
		// StateBytes + one decode per distinct body (State decodes JSON on every read); the object read
		// State() is taken for the reserved keys and a sample
		_, _, body, found, err := c.StateBytes(keyName(k))
		v := obj(found, err, func() int64 { return w.stateIDOfBody(body) })
		if k < 16 || k%37 == 0 {
			st, found2, err2 := c.State(keyName(k))
			v2 := obj(found2, err2, func() int64 {
				if id, ok := w.stateID[st.Hash().String()]; ok {
					return int64(id)
				}
				return unknown
			})
			if v2 != v {
				v = -4 // State and StateBytes disagree
			}
		}
		add(fmt.Sprintf("state:%d", k), v)
	}
	for i, op := range w.inops {
		found, err := c.ExistsInStateOperation(op)
		add(fmt.Sprintf("inop:%d", i), obj(true, err, func() int64 { return b2i(found) }))
	}
	for i, op := range w.knowns {
		found, err := c.ExistsKnownOperation(op)
		add(fmt.Sprintf("known:%d", i), obj(true, err, func() int64 { return b2i(found) }))
	}
	for sh := int64(0); sh <= w.nextSH; sh++ {
		p, found, err := c.SuffrageProof(base.Height(sh))
		add(fmt.Sprintf("proof:%d", sh), obj(found, err, func() int64 { return pid(p) }))
	}
	for g := int64(0); g <= maxH; g++ {
		p, found, err := c.SuffrageProofByBlockHeight(base.Height(g))
		add(fmt.Sprintf("proofbh:%d", g), obj(found, err, func() int64 { return pid(p) }))
	}
	p, found, err := c.LastSuffrageProof()
	add("lastproof", obj(found, err, func() int64 { return pid(p) }))
	if pol := c.LastNetworkPolicy(); pol == nil {
		add("policy", notFound)
	} else {
		add("policy", w.policyStateID(int64(pol.MaxOperationsInProposal())-100)) // the policy state of the block that set it
	}
	return r
}

func (w *world) stateIDOfBody(body []byte) int64 {
	if id, ok := w.bodyID[string(body)]; ok {
		return id
	}
	var st base.State
	id := unknown
	if err := encoderDecode(w, body, &st); err == nil && st != nil {
		if i, ok := w.stateID[st.Hash().String()]; ok {
			id = int64(i)
		}
	}
	w.bodyID[string(body)] = id
	return id
}

func (w *world) policyStateID(h int64) int64 {
	for _, b := range w.blocks {
		if b.spec.H != h {
			continue
		}
		for i, st := range b.states {
			if b.keyids[i] == 1 {
				return int64(w.stateID[st.Hash().String()])
			}
		}
	}
	return unknown
}

func b2i(b bool) int64 {
	if b {
		return 1
	}
	return 0
}

func (w *world) recoverAndRead(str storage.Storage) *reads {
	d, err := openDB(w, str, nil)
	if err != nil {
		return &reads{err: err.Error()}
	}
	defer d.st.Close()
	return w.allReads(d)
}

func sameReads(a, b *reads) (bool, string) {
	if a.err != "" || b.err != "" {
		return a.err == b.err, "startup error: " + a.err
	}
	for i := range a.vals {
		if a.vals[i] != b.vals[i] {
			return false, fmt.Sprintf("%s = %d (there %d)", a.names[i], a.vals[i], b.vals[i])
		}
	}
	return true, ""
}

// expected reads of the committed chain with last height `last` (independent of the code under test);
// only the read kinds whose meaning is not disputed (C19 owns the rest): maps, states, operations
func (w *world) specCheck(r *reads, last int) string {
	if r.err != "" {
		return "startup error: " + r.err
	}
	want := map[string]int64{}
	want["lastmap"] = notFound
	stateOf := map[int]int64{}
	for _, b := range w.blocks {
		vis := int(b.spec.H) <= last
		id := int64(w.mapID[b.mp.Manifest().Hash().String()])
		if vis {
			want[fmt.Sprintf("map:%d", b.spec.H)] = id
			want["lastmap"] = id
			for i, st := range b.states {
				stateOf[b.keyids[i]] = int64(w.stateID[st.Hash().String()])
			}
		} else {
			want[fmt.Sprintf("map:%d", b.spec.H)] = notFound
		}
		for _, op := range b.inops {
			want[fmt.Sprintf("inop:%d", w.inopID[op.String()])] = b2i(vis)
		}
		for _, op := range b.known {
			want[fmt.Sprintf("known:%d", w.knownID[op.String()])] = b2i(vis)
		}
	}
	for k := 0; k <= w.maxKey+1; k++ {
		if id, ok := stateOf[k]; ok {
			want[fmt.Sprintf("state:%d", k)] = id
		} else {
			want[fmt.Sprintf("state:%d", k)] = notFound
		}
	}
	for i, n := range r.names {
		if v, ok := want[n]; ok && v != r.vals[i] {
			return fmt.Sprintf("%s = %d, committed chain (last height %d) says %d", n, r.vals[i], last, v)
		}
	}
	return ""
}

// ------------------------------------------------------------------ abstract form of the records for the Coq model

type absCtx struct {
	live     map[string]map[string]bool // area term -> live raw keys
	w        *world
	pids     map[string]int
	pidH     []int64
	valCache map[string]string
}

func encoderDecode(w *world, body []byte, st *base.State) error {
	return encoder.Decode(w.enc, body, st)
}

func be64(b []byte) int64 { return int64(binary.BigEndian.Uint64(b)) }

var (
	labelBlockWrite = []byte{0x01, 0x01}
	labelPermanent  = []byte{0x01, 0x02}
)

const tempPrefixLen = 2 + 8 + 26

// returns area term, inner key, ok
func (c *absCtx) area(k []byte) (string, []byte, bool) {
	switch {
	case bytes.HasPrefix(k, labelPermanent):
		return "APerm", k[2:], true
	case bytes.HasPrefix(k, labelBlockWrite) && len(k) >= tempPrefixLen:
		p := string(k[:tempPrefixLen])
		id, ok := c.pids[p]
		if !ok {
			id = len(c.pids)
			c.pids[p] = id
			c.pidH = append(c.pidH, be64(k[2:10]))
		}
		return fmt.Sprintf("(ATemp %d %s)", id, vh.Z(c.pidH[id])), k[tempPrefixLen:], true
	}
	return "", nil, false
}

func (c *absCtx) key(k []byte) (string, string, bool) { // coq key, kind
	if len(k) < 2 || k[0] != 0x02 {
		return "", "", false
	}
	rest := k[2:]
	switch k[1] {
	case 0x01:
		name := string(rest)
		switch {
		case name == isaac.SuffrageStateKey:
			return "(KState 0)", "state", true
		case name == isaac.NetworkPolicyStateKey:
			return "(KState 1)", "state", true
		default:
			var n int
			if _, err := fmt.Sscanf(name, "k%05d", &n); err != nil {
				return "", "", false
			}
			return fmt.Sprintf("(KState %d)", n), "state", true
		}
	case 0x02:
		return "", "inop", true
	case 0x03:
		return "", "known", true
	case 0x06:
		return fmt.Sprintf("(KMap %s)", vh.Z(be64(rest))), "map", true
	case 0x0d:
		return fmt.Sprintf("(KProof %s)", vh.Z(be64(rest))), "proof", true
	case 0x0e:
		return fmt.Sprintf("(KProofBH %s)", vh.Z(be64(rest))), "proofbh", true
	case 0x10:
		return fmt.Sprintf("(KMerged %s)", vh.Z(be64(rest))), "merged", true
	}
	return "", "", false
}

func (c *absCtx) absOp(o kvop) (area string, term string, ok bool) {
	area, inner, ok := c.area(o.k)
	if !ok {
		return "", "", false
	}
	key, kind, ok := c.key(inner)
	if !ok {
		return "", "", false
	}
	switch kind {
	case "inop":
		id, found := c.w.inopByBytes[string(inner[2:])]
		if !found {
			return "", "", false
		}
		key = fmt.Sprintf("(KInOp %d)", id)
	case "known":
		id, found := c.w.knownByBytes[string(inner[2:])]
		if !found {
			return "", "", false
		}
		key = fmt.Sprintf("(KKnown %d)", id)
	}
	if o.del {
		return area, "(Del " + key + ")", true
	}
	val := "(V 0 None)"
	switch kind {
	case "state", "map", "proof", "proofbh":
		ck := kind + string(o.v)
		if v, found := c.valCache[ck]; found {
			val = v
		} else {
			val = c.absVal(kind, o.v)
			c.valCache[ck] = val
		}
	}
	return area, fmt.Sprintf("(Put %s %s)", key, val), true
}

func (c *absCtx) absVal(kind string, b []byte) string {
	switch kind {
	case "state":
		var st base.State
		if err := isaacdatabase.ReadDecodeFrame(c.w.encs, b, &st); err != nil {
			return "(V 999999 None)"
		}
		id := c.w.stateID[st.Hash().String()]
		if base.IsSuffrageNodesState(st) {
			sv := st.Value().(base.SuffrageNodesStateValue) //nolint:forcetypeassert //...
			return fmt.Sprintf("(V %d (Some %s))", id, vh.Z(sv.Height().Int64()))
		}
		return fmt.Sprintf("(V %d None)", id)
	case "map":
		var m base.BlockMap
		if err := isaacdatabase.ReadDecodeFrame(c.w.encs, b, &m); err != nil {
			return "(V 999999 None)"
		}
		return fmt.Sprintf("(V %d None)", c.w.mapID[m.Manifest().Hash().String()])
	default:
		var p base.SuffrageProof
		if err := isaacdatabase.ReadDecodeFrame(c.w.encs, b, &p); err != nil {
			return "(V 999999 None)"
		}
		sv := p.State().Value().(base.SuffrageNodesStateValue) //nolint:forcetypeassert //...
		return fmt.Sprintf("(V %d (Some %s))", c.w.proofID[p.Map().Manifest().Hash().String()], vh.Z(sv.Height().Int64()))
	}
}

// one record -> "(area, [ops])"; a record is always inside one area (one prefix storage)
func (c *absCtx) absRecord(rec []byte) (string, bool) {
	ops := decodeRecord(rec)
	var area string
	items := make([]string, 0, len(ops))
	if c.live == nil {
		c.live = map[string]map[string]bool{}
	}
	// a record that deletes every live key of its prefix storage (RemoveByPrefix) is rendered as [Clear]
	if len(ops) > 0 && ops[0].del {
		if a, _, ok := c.area(ops[0].k); ok {
			alldel, same := true, true
			dels := map[string]bool{}
			for _, o := range ops {
				a2, _, ok2 := c.area(o.k)
				if !o.del {
					alldel = false
				}
				if !ok2 || a2 != a {
					same = false
				}
				dels[string(o.k)] = true
			}
			if alldel && same && len(dels) == len(c.live[a]) {
				covers := true
				for k := range c.live[a] {
					if !dels[k] {
						covers = false
					}
				}
				if covers {
					c.live[a] = map[string]bool{}
					return "(" + a + ", [Clear])", true
				}
			}
		}
	}
	for _, o := range ops {
		if a, _, ok := c.area(o.k); ok {
			if c.live[a] == nil {
				c.live[a] = map[string]bool{}
			}
			if o.del {
				delete(c.live[a], string(o.k))
			} else {
				c.live[a][string(o.k)] = true
			}
		}
		a, t, ok := c.absOp(o)
		if !ok {
			return "", false
		}
		if area != "" && a != area {
			return "", false
		}
		area = a
		items = append(items, t)
	}
	if area == "" {
		return "", false
	}
	return "(" + area + ", " + vh.List(items) + ")", true
}

// queries handed to the model for one crash state (a sample: the model evaluation is the expensive side)
func (w *world) coqQueries(rd *reads, r *vh.Rand, full bool) string {
	var items []string
	for i, n := range rd.names {
		var q string
		var a, b int64
		kind := n
		if j := strings.IndexByte(n, ':'); j >= 0 {
			kind = n[:j]
			fmt.Sscanf(n[j+1:], "%d", &a)
		}
		_ = b
		switch kind {
		case "lastmap":
			q = "QLastMap"
		case "map":
			q = "(QMap " + vh.Z(a) + ")"
		case "state":
			if !full && a > 12 && !r.Chance(1, 25) {
				continue
			}
			q = fmt.Sprintf("(QState %d)", a)
		case "inop":
			if !full && a > 12 && !r.Chance(1, 40) {
				continue
			}
			q = fmt.Sprintf("(QInOp %d)", a)
		case "known":
			q = fmt.Sprintf("(QKnown %d)", a)
		case "proof":
			q = "(QProof " + vh.Z(a) + ")"
		case "lastproof":
			q = "QLastProof"
		case "policy":
			q = "QPolicy"
		default:
			continue // proofbh: not modelled (C19's read)
		}
		items = append(items, "("+q+", "+vh.Z(rd.vals[i])+")")
	}
	return vh.List(items)
}

// ------------------------------------------------------------------ scenarios

func stdScenario(name string, seed uint64, big int, mapFirst bool, cleanKeep int) scenario {
	return scenario{
		Name: name, Seed: seed, MapFirst: mapFirst,
		Blocks: []blockSpec{
			{H: 0, N: 5, First: 2, Suf: true, Pol: true, NKnown: 2},
			{H: 1, N: 5, First: 4, NKnown: 1},
			{H: 2, N: big, First: 2, Suf: true, Pol: true, NKnown: 7},
			{H: 3, N: 5, First: 5, NKnown: 2},
			{H: 4, N: 6, First: 9, Suf: true, NKnown: 0},
			{H: 5, N: 3, First: 2, NKnown: 1},
		},
		Ops: []sop{
			{T: "W", B: 0}, {T: "W", B: 1}, {T: "M"}, {T: "W", B: 2}, {T: "M"}, {T: "W", B: 3}, {T: "M"},
			{T: "C", N: cleanKeep}, {T: "W", B: 4}, {T: "M"}, {T: "W", B: 5}, {T: "M"}, {T: "C", N: 0},
		},
	}
}

// rollback of big temps (RemoveBlocks) and removal of big merged temps (cleanRemoved)
func rollbackScenario(name string, seed uint64, big1, big2 int) scenario {
	return scenario{
		Name: name, Seed: seed, MapFirst: true,
		Blocks: []blockSpec{
			{H: 0, N: 5, First: 2, Suf: true, Pol: true, NKnown: 2},
			{H: 1, N: 4, First: 4, NKnown: 1},
			{H: 2, N: big1, First: 2, Suf: true, Pol: true, NKnown: 3},
			{H: 3, N: big2, First: 5, NKnown: 2},
			{H: 4, N: 4, First: 3, Suf: true, NKnown: 1},
		},
		Ops: []sop{
			{T: "W", B: 0}, {T: "W", B: 1}, {T: "M"}, {T: "W", B: 2}, {T: "W", B: 3}, {T: "W", B: 4},
			{T: "R", N: 3}, {T: "M"}, {T: "C", N: 0}, {T: "R", N: 2},
		},
	}
}

// batchLimit: the key-count limit of one batch of the permanent merge, as regenerated from the Go source by the
// translator (coq/Gen/C21.v, perm_batchlimit_ints); 333 when it cannot be read.  The "big" blocks of the
// scenarios are sized from it so that they always span several batches.
func batchLimit() int {
	limit := 333
	dir := os.Getenv("VERIF_DIR")
	if dir == "" {
		dir = "/verif"
	}
	b, err := os.ReadFile(dir + "/coq/Gen/C21.v")
	if err != nil {
		return limit
	}
	m := regexp.MustCompile(`perm_batchlimit_ints[^\[]*\[([^\]]*)\]`).FindSubmatch(b)
	if m == nil {
		return limit
	}
	for _, x := range regexp.MustCompile(`\d+`).FindAll(m[1], -1) {
		var n int
		fmt.Sscanf(string(x), "%d", &n)
		if n > limit && n < 100000 {
			limit = n
		}
	}
	return limit
}

func phase(o sop) string {
	switch o.T {
	case "W":
		return "block-write"
	case "M":
		return "perm-merge"
	case "R":
		return "remove-blocks"
	default:
		return "remove-temp"
	}
}

// ------------------------------------------------------------------ main

func runScenario(o *vh.Opts, sc scenario, res *vh.Result, cases *vh.Cases, coqPoints int, verbose bool) {
	t0 := time.Now()
	r, err := execScenario(sc)
	tExec := time.Since(t0)
	defer func() {
		res.Note(fmt.Sprintf("%s: scenario run %.1fs, crash states + recovery + reads %.1fs", sc.Name, tExec.Seconds(), time.Since(t0).Seconds()-tExec.Seconds()))
	}()
	if err != nil {
		res.Fail("harness-error", err.Error(), replay{Scenario: sc})
		return
	}
	w := r.w
	W := len(r.recs)
	rd := make([]*reads, W+1)
	for k := 0; k <= W; k++ {
		rd[k] = w.recoverAndRead(buildState(r.recs, k, nil))
	}
	res.Dist(fmt.Sprintf("scenario:%s records=%d", sc.Name, W))
	type point struct {
		k    int
		drop []int
		rd   *reads
	}
	var points []point
	for _, sp := range r.spans {
		ph := phase(sp.op)
		res.Distribution["records:"+ph] += sp.b - sp.a
		// boundaries agree with the committed chain
		if d := w.specCheck(rd[sp.a], sp.last); d != "" {
			res.Fail("boundary-incomplete", fmt.Sprintf("%s: before %s %+v: %s", sc.Name, ph, sp.op, d), replay{Scenario: sc, K: sp.a})
		}
		if d := w.specCheck(rd[sp.b], sp.lastAfter); d != "" {
			res.Fail("boundary-incomplete", fmt.Sprintf("%s: after %s %+v: %s", sc.Name, ph, sp.op, d), replay{Scenario: sc, K: sp.b})
		}
		for k := sp.a; k <= sp.b; k++ {
			inside := k > sp.a && k < sp.b
			res.Count(fmt.Sprintf("%s/%d", sc.Name, k), inside)
			res.Dist("crash:" + ph)
			if rd[k].err != "" {
				res.Fail("crash-recovery-error", fmt.Sprintf("%s: crash after write %d (%s %+v): startup fails: %s", sc.Name, k, ph, sp.op, rd[k].err), replay{Scenario: sc, K: k})
				continue
			}
			if sp.op.T == "R" {
				// a rollback removes the temps newest first, one after the other: after a stop the chain must end at
				// some height between the target and the old last height, every block up to it complete
				ok, first := false, ""
				for L := sp.lastAfter; L <= sp.last && !ok; L++ {
					d := w.specCheck(rd[k], L)
					if d == "" {
						ok = true
					} else if first == "" || strings.HasPrefix(d, "state") || strings.HasPrefix(d, "inop") || strings.HasPrefix(d, "known") {
						first = d
					}
				}
				if verbose {
					fmt.Printf("k=%d %s %+v consistent=%v %s\n", k, ph, sp.op, ok, first)
				}
				if !ok {
					res.Fail(ph+"-partial-visible", fmt.Sprintf("%s: crash after write %d of [%d,%d) (%s %+v): the reads match no chain ending at a height in [%d,%d], e.g. %s",
						sc.Name, k, sp.a, sp.b, ph, sp.op, sp.lastAfter, sp.last, first), replay{Scenario: sc, K: k})
				}
				points = append(points, point{k: k, rd: rd[k]})
				continue
			}
			okA, dA := sameReads(rd[k], rd[sp.a])
			okB, dB := sameReads(rd[k], rd[sp.b])
			if verbose {
				fmt.Printf("k=%d %s %+v  sameBefore=%v sameAfter=%v %s | %s\n", k, ph, sp.op, okA, okB, dA, dB)
			}
			if !okA && !okB {
				cls := ph + "-partial-visible"
				res.Fail(cls, fmt.Sprintf("%s: crash after write %d of [%d,%d) (%s %+v, block %d records): neither the state before (%s) nor after (%s)",
					sc.Name, k, sp.a, sp.b, ph, sp.op, sp.b-sp.a, dA, dB), replay{Scenario: sc, K: k})
			}
			points = append(points, point{k: k, rd: rd[k]})
		}
		// subsets of the writes of a permanent merge / block write (model correspondence only: whether a subset
		// is reachable depends on the order the code enforces, which the journal does not show)
		if sp.b-sp.a >= 3 {
			for j := sp.a; j < sp.b-1 && j < sp.a+3; j++ {
				drop := map[int]bool{j: true}
				points = append(points, point{k: sp.b - 1, drop: []int{j}, rd: w.recoverAndRead(buildState(r.recs, sp.b-1, drop))})
				res.Dist("subset-state:" + ph)
			}
		}
	}
	if cases == nil {
		return
	}
	// Coq case: the abstract records once, then the sampled crash states
	ctx := &absCtx{w: w, pids: map[string]int{}, valCache: map[string]string{}}
	recs := make([]string, W)
	for i := range r.recs {
		t, ok := ctx.absRecord(r.recs[i])
		if !ok {
			res.Fail("harness-error", fmt.Sprintf("%s: record %d cannot be abstracted", sc.Name, i), replay{Scenario: sc, K: i})
			return
		}
		recs[i] = t
	}
	qr := vh.NewRand(sc.Seed + 99)
	sort.SliceStable(points, func(i, j int) bool { return points[i].k < points[j].k })
	step := 1
	if len(points) > coqPoints {
		step = (len(points) + coqPoints - 1) / coqPoints
	}
	var pts []string
	for i, p := range points {
		if i%step != 0 && len(p.drop) == 0 && i != len(points)-1 {
			continue
		}
		if p.rd.err != "" {
			continue
		}
		ds := make([]string, len(p.drop))
		for j, d := range p.drop {
			ds[j] = fmt.Sprintf("%d", d)
		}
		pts = append(pts, fmt.Sprintf("(%d, %s, %s)", p.k, vh.List(ds), w.coqQueries(p.rd, qr, false)))
	}
	var sps []string
	for _, sp := range r.spans {
		kind := map[string]string{"W": "SBlockWrite", "M": "SPermMerge", "C": "SRemoveTemp", "R": "SRemoveTemp"}[sp.op.T]
		sps = append(sps, fmt.Sprintf("(%s, %d, %d)", kind, sp.a, sp.b))
	}
	cases.Add("("+vh.List(recs)+",\n "+vh.List(sps)+",\n "+vh.List(pts)+")", map[string]any{"scenario": sc, "points": len(pts)})
	res.Distribution["model_crash_states"] += len(pts)
}

func main() {
	o := vh.ParseFlags()
	if pf := os.Getenv("C21_CPUPROFILE"); pf != "" {
		f, _ := os.Create(pf)
		_ = pprof.StartCPUProfile(f)
		defer pprof.StopCPUProfile()
	}
	res := vh.NewResult("one evaluation = one crash state (the first k storage writes of a real run, rebuilt on a fresh storage) recovered by the real startup code and read completely through the Center; non-trivial = k strictly inside an operation (block write + temp merge, permanent merge, temp removal)")
	if o.Replay != "" {
		var rp replay
		if err := vh.ReadReplay(o.Replay, &rp); err != nil {
			panic(err)
		}
		runScenario(o, rp.Scenario, res, nil, 0, true)
		for _, f := range res.Failures {
			fmt.Printf("FAIL %s: %s\n", f.Class, f.Desc)
		}
		res.Failures = []vh.Failure{}
	}
	cases := &vh.Cases{Import: "From MV Require Import C21.Model.", Type: "case", CheckFn: "check", Shard: 1}
	// the big blocks have more keys than one batch of the permanent merge / of BatchRemove (333, see Gen/C21.v)
	bl := batchLimit()
	res.Distribution["batch_limit"] = bl
	scs := []scenario{
		stdScenario("big800-writer-order", 11, 2*bl+134, false, 0),
		rollbackScenario("rollback-big400-340", 13, bl+67, bl+7),
	}
	if o.Thorough() {
		scs = append(scs, stdScenario("big340-map-first", 12, 340, true, 1), rollbackScenario("rollback-big170-600", 14, 170, 600))
		r := vh.NewRand(o.Seed)
		for i := 0; i < 10; i++ {
			// total keys of the big block around multiples of the batch sizes (333 permanent, 128 block write)
			big := []int{166, 167, 165, 333, 332, 64, 63, 500, 999, 1200}[i]
			scs = append(scs, stdScenario(fmt.Sprintf("big%d-%d", big, i), r.U64()%100000, big, i%2 == 1, i%3))
		}
	}
	for _, sc := range scs {
		runScenario(o, sc, res, cases, o.Pick(24, 60), false)
	}
	res.ModelCases = res.Distribution["model_crash_states"] // crash states compared with the model (grouped in one Coq case per scenario)
	if err := cases.Write(o.Out); err != nil {
		panic(err)
	}
	res.Write(o.Out)
}
