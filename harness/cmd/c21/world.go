package main

import (
	"bytes"
	"fmt"
	"sync"
	"time"

	"github.com/spikeekips/mitum/base"
	"github.com/spikeekips/mitum/isaac"
	isaacblock "github.com/spikeekips/mitum/isaac/block"
	"github.com/spikeekips/mitum/launch"
	"github.com/spikeekips/mitum/util"
	"github.com/spikeekips/mitum/util/encoder"
	jsonenc "github.com/spikeekips/mitum/util/encoder/json"
	"github.com/spikeekips/mitum/util/fixedtree"
	"github.com/spikeekips/mitum/util/valuehash"
	"github.com/syndtr/goleveldb/leveldb"
	"github.com/syndtr/goleveldb/leveldb/journal"
	"github.com/syndtr/goleveldb/leveldb/storage"
	"verifharness/vh"
)

// ------------------------------------------------------------------ real objects of a chain

type blockSpec struct {
	H      int64 `json:"h"`
	N      int   `json:"n"`      // ordinary states
	First  int   `json:"first"`  // ordinary state keys First .. First+N-1 (key ids)
	Suf    bool  `json:"suf"`    // writes the suffrage state + proof
	Pol    bool  `json:"pol"`    // writes the network policy state
	NKnown int   `json:"nknown"` // known operations
}

type block struct {
	spec   blockSpec
	mp     base.BlockMap
	states []base.State
	keyids []int // key id per state (0 = suffrage, 1 = policy, >= 2 ordinary)
	inops  []util.Hash
	known  []util.Hash
	proof  base.SuffrageProof
	sh     int64 // suffrage height when spec.Suf
}

type world struct {
	encs      *encoder.Encoders
	enc       encoder.Encoder
	priv      base.Privatekey
	addr      base.Address
	networkID base.NetworkID
	nodes     []base.Node
	r         *vh.Rand

	blocks []*block
	// registries: object -> small id used in the Coq cases
	stateID      map[string]int // state hash -> id
	mapID        map[string]int // manifest hash -> id
	proofID      map[string]int // manifest hash of the proof's map -> id
	inopID       map[string]int
	knownID      map[string]int
	bodyID       map[string]int64
	inopByBytes  map[string]int
	knownByBytes map[string]int
	inops        []util.Hash
	knowns       []util.Hash
	maxKey       int
	nextSH       int64

	prevSuf  base.State
	prevHash util.Hash
}

var (
	encOnce    sync.Once
	sharedEncs *encoder.Encoders
	sharedEnc  encoder.Encoder
)

func newWorld(r *vh.Rand) *world {
	encOnce.Do(func() {
		enc := jsonenc.NewEncoder()
		encs := encoder.NewEncoders(enc, enc)
		if err := launch.LoadHinters(encs); err != nil {
			panic(err)
		}
		if err := encs.AddDetail(encoder.DecodeDetail{Hint: base.DummyStateValueHint, Instance: base.DummyStateValue{}}); err != nil {
			panic(err)
		}
		sharedEncs, sharedEnc = encs, enc
	})
	w := &world{
		encs: sharedEncs, enc: sharedEnc, priv: base.NewMPrivatekey(), addr: base.RandomAddress("local-"),
		networkID: base.NetworkID([]byte("verif-c21")), r: r,
		stateID: map[string]int{}, mapID: map[string]int{}, proofID: map[string]int{}, inopID: map[string]int{}, knownID: map[string]int{}, bodyID: map[string]int64{}, inopByBytes: map[string]int{}, knownByBytes: map[string]int{},
		maxKey: 2,
	}
	for i := 0; i < 2; i++ {
		w.nodes = append(w.nodes, isaac.NewNode(base.NewMPrivatekey().Publickey(), base.RandomAddress("n")))
	}
	return w
}

func keyName(k int) string {
	switch k {
	case 0:
		return isaac.SuffrageStateKey
	case 1:
		return isaac.NetworkPolicyStateKey
	default:
		return fmt.Sprintf("k%05d", k)
	}
}

func (w *world) hash() util.Hash { return valuehash.NewSHA256(w.r.Bytes(32)) }

func (w *world) newState(b *block, h int64, kid int, v base.StateValue, prev util.Hash) base.State {
	op := w.hash()
	w.inopID[op.String()] = len(w.inops)
	w.inopByBytes[string(op.Bytes())] = len(w.inops)
	w.inops = append(w.inops, op)
	b.inops = append(b.inops, op)
	st := base.NewBaseState(base.Height(h), keyName(kid), v, prev, []util.Hash{op})
	w.stateID[st.Hash().String()] = len(w.stateID) + 1
	b.states = append(b.states, st)
	b.keyids = append(b.keyids, kid)
	if kid > w.maxKey {
		w.maxKey = kid
	}
	return st
}

func (w *world) newBlock(s blockSpec) *block {
	b := &block{spec: s}
	var sufst base.State
	prevSuf := w.prevSuf
	if s.Suf {
		sufnodes := make([]base.SuffrageNodeStateValue, len(w.nodes))
		for i := range w.nodes {
			sufnodes[i] = isaac.NewSuffrageNodeStateValue(w.nodes[i], base.Height(s.H))
		}
		var prevh util.Hash
		if prevSuf != nil {
			prevh = prevSuf.Hash()
		}
		b.sh = w.nextSH
		w.nextSH++
		sufst = w.newState(b, s.H, 0, isaac.NewSuffrageNodesStateValue(base.Height(b.sh), sufnodes), prevh)
	}
	if s.Pol {
		pol := isaac.DefaultNetworkPolicy()
		pol.SetMaxOperationsInProposal(uint64(100 + s.H))
		w.newState(b, s.H, 1, isaac.NewNetworkPolicyStateValue(pol), w.hash())
	}
	for i := 0; i < s.N; i++ {
		v := base.NewDummyStateValue(fmt.Sprintf("v-%d-%d-%x", s.H, s.First+i, w.r.Bytes(6)))
		w.newState(b, s.H, s.First+i, v, w.hash())
	}
	for i := 0; i < s.NKnown; i++ {
		op := w.hash()
		w.knownID[op.String()] = len(w.knowns)
		w.knownByBytes[string(op.Bytes())] = len(w.knowns)
		w.knowns = append(w.knowns, op)
		b.known = append(b.known, op)
	}
	var sufhash util.Hash
	if prevSuf != nil {
		sufhash = prevSuf.Hash()
	}
	manifest := isaac.NewManifest(base.Height(s.H), w.prevHash, w.hash(), w.hash(), w.hash(), sufhash, time.Unix(1700000000+s.H, 0).UTC())
	m := isaacblock.NewBlockMap()
	for _, ty := range []base.BlockItemType{
		base.BlockItemProposal, base.BlockItemOperations, base.BlockItemOperationsTree,
		base.BlockItemStates, base.BlockItemStatesTree, base.BlockItemVoteproofs,
	} {
		if err := m.SetItem(isaacblock.NewBlockMapItem(ty, fmt.Sprintf("%x", w.r.Bytes(8)))); err != nil {
			panic(err)
		}
	}
	m.SetManifest(manifest)
	if err := m.Sign(w.addr, w.priv, w.networkID); err != nil {
		panic(err)
	}
	b.mp = m
	w.mapID[manifest.Hash().String()] = len(w.mapID) + 1
	w.prevHash = manifest.Hash()
	if s.Suf {
		tw, err := fixedtree.NewWriter(base.StateFixedtreeHint, uint64(len(b.states)))
		if err != nil {
			panic(err)
		}
		for i := range b.states {
			if err := tw.Add(uint64(i), fixedtree.NewBaseNode(b.states[i].Hash().String())); err != nil {
				panic(err)
			}
		}
		if err := tw.Write(func(uint64, fixedtree.Node) error { return nil }); err != nil {
			panic(err)
		}
		tr, err := tw.Tree()
		if err != nil {
			panic(err)
		}
		fp, err := tr.Proof(sufst.Hash().String())
		if err != nil {
			panic(err)
		}
		b.proof = isaacblock.NewSuffrageProof(m, sufst, fp)
		w.proofID[manifest.Hash().String()] = len(w.proofID) + 1
		w.prevSuf = sufst
	}
	w.blocks = append(w.blocks, b)
	return b
}

// ------------------------------------------------------------------ storage that keeps a copy of every journal write

type teeStorage struct {
	storage.Storage
	mu   sync.Mutex
	bufs map[int64]*bytes.Buffer
	nums []int64
}

func newTeeStorage() *teeStorage {
	return &teeStorage{Storage: storage.NewMemStorage(), bufs: map[int64]*bytes.Buffer{}}
}

type teeWriter struct {
	storage.Writer
	t   *teeStorage
	buf *bytes.Buffer
}

func (w *teeWriter) Write(p []byte) (int, error) {
	n, err := w.Writer.Write(p)
	if n > 0 {
		w.t.mu.Lock()
		w.buf.Write(p[:n])
		w.t.mu.Unlock()
	}
	return n, err
}

func (t *teeStorage) Create(fd storage.FileDesc) (storage.Writer, error) {
	w, err := t.Storage.Create(fd)
	if err != nil || fd.Type != storage.TypeJournal {
		return w, err
	}
	t.mu.Lock()
	defer t.mu.Unlock()
	buf := &bytes.Buffer{}
	t.bufs[fd.Num] = buf
	t.nums = append(t.nums, fd.Num)
	return &teeWriter{Writer: w, t: t, buf: buf}, nil
}

// records returns every complete journal record written so far (one per leveldb write: NoWriteMerge).
func (t *teeStorage) records() [][]byte {
	t.mu.Lock()
	defer t.mu.Unlock()
	var recs [][]byte
	for _, num := range t.nums {
		jr := journal.NewReader(bytes.NewReader(bytes.Clone(t.bufs[num].Bytes())), nil, false, true)
		for {
			r, err := jr.Next()
			if err != nil {
				break
			}
			var b bytes.Buffer
			if _, err := b.ReadFrom(r); err != nil {
				break
			}
			if b.Len() < 12 {
				break
			}
			recs = append(recs, b.Bytes()[12:]) // strip the batch header (sequence number, count)
		}
	}
	return recs
}

// one atomic write, decoded
type kvop struct {
	del bool
	k   []byte
	v   []byte
}

type recReplay struct{ ops []kvop }

func (r *recReplay) Put(k, v []byte) {
	r.ops = append(r.ops, kvop{k: bytes.Clone(k), v: bytes.Clone(v)})
}
func (r *recReplay) Delete(k []byte) { r.ops = append(r.ops, kvop{del: true, k: bytes.Clone(k)}) }

func decodeRecord(rec []byte) []kvop {
	b := new(leveldb.Batch)
	if err := b.Load(rec); err != nil {
		panic(err)
	}
	rr := &recReplay{}
	if err := b.Replay(rr); err != nil {
		panic(err)
	}
	return rr.ops
}
