// c24: ballot and proposal pools of the real isaacdatabase.TempPool: sequential random histories, forced
// schedules at the Exists/Put boundary (blocking encoder), free-running goroutines, clean-up through the verif
// export; against the property's statement (oracle) and the Coq model (cases_NNN.v).
package main

import (
	"fmt"
	"runtime"
	"sync"
	"time"

	"github.com/spikeekips/mitum/base"
	"github.com/spikeekips/mitum/isaac"
	isaacdatabase "github.com/spikeekips/mitum/isaac/database"
	"github.com/spikeekips/mitum/util"
	"github.com/spikeekips/mitum/util/valuehash"
	"verifharness/poolh"
	"verifharness/vh"
)

var netID = base.NetworkID("verif-c24")

// ---------------------------------------------------------------- objects

type bkey struct {
	h     int64
	round uint64
	stage int // 0 INIT, 1 ACCEPT
	sc    bool
}

func (k bkey) rest() uint64 {
	r := k.round*4 + uint64(k.stage)*2
	if k.sc {
		r++
	}
	return r
}
func (k bkey) coq() string { return vh.Tuple(vh.Z(k.h), vh.N(k.rest())) }
func (k bkey) point() base.Point {
	return base.RawPoint(k.h, k.round)
}
func (k bkey) stg() base.Stage {
	if k.stage == 1 {
		return base.StageACCEPT
	}
	return base.StageINIT
}

type pkey struct {
	h        int64
	round    uint64
	proposer int
	prev     int
}

func (k pkey) rest() uint64 { return k.round*16 + uint64(k.proposer)*4 + uint64(k.prev) }
func (k pkey) coq() string  { return vh.Tuple(vh.Z(k.h), vh.N(k.rest())) }

type world struct {
	pool    *isaacdatabase.TempPool
	gate    *poolh.GateEncoder
	seed    uint64
	prevs   []util.Hash
	nval    int
	ballots map[string]int // identity of a stored ballot (sign fact hash + signature) -> value id
	blkey   map[int]bkey
	props   map[string]int // signature -> value id
	facts   []isaac.ProposalFact
	factpk  []pkey
	factid  map[string]int // fact hash -> fact index
	signed  map[int]int    // fact index -> number of signed proposals made for it
}

func newWorld(seed uint64) *world {
	p, g := poolh.NewGatedPool()
	w := &world{pool: p, gate: g, seed: seed, ballots: map[string]int{}, blkey: map[int]bkey{}, props: map[string]int{}, factid: map[string]int{}, signed: map[int]int{}}
	for i := 0; i < 4; i++ {
		w.prevs = append(w.prevs, valuehash.NewSHA256([]byte(fmt.Sprintf("verif-c24-prev-%d", i))))
	}
	return w
}

func blid(bl base.Ballot) string {
	return bl.SignFact().Fact().Hash().String() + "/" + string(bl.SignFact().Signs()[0].Signature())
}

// newBallot: every third ballot proposes expels (an ordinary INIT / ACCEPT ballot with expel facts is not a
// suffrage-confirm ballot: its key carries the "-" flag)
func (w *world) newBallot(k bkey, signer int) (base.Ballot, int) {
	return w.newBallotX(k, signer, w.nval%3 == 1)
}

func (w *world) newBallotX(k bkey, signer int, expels bool) (base.Ballot, int) {
	id := w.nval
	w.nval++
	rh := valuehash.NewSHA256([]byte(fmt.Sprintf("verif-c24-ballot-%d-%d", w.seed, id)))
	var ex []util.Hash
	if expels {
		ex = []util.Hash{valuehash.NewSHA256([]byte(fmt.Sprintf("verif-c24-expel-%d-%d", w.seed, id)))}
	}
	var bl base.Ballot
	switch {
	case k.stage == 1:
		fact := isaac.NewACCEPTBallotFact(k.point(), rh, rh, ex)
		sf := isaac.NewACCEPTBallotSignFact(fact)
		if err := sf.NodeSign(poolh.Key(w.seed, signer), netID, poolh.Addr(signer)); err != nil {
			panic(err)
		}
		bl = isaac.NewACCEPTBallot(nil, sf, nil)
	case k.sc:
		fact := isaac.NewSuffrageConfirmBallotFact(k.point(), rh, rh, []util.Hash{rh})
		sf := isaac.NewINITBallotSignFact(fact)
		if err := sf.NodeSign(poolh.Key(w.seed, signer), netID, poolh.Addr(signer)); err != nil {
			panic(err)
		}
		bl = isaac.NewINITBallot(nil, sf, nil)
	default:
		fact := isaac.NewINITBallotFact(k.point(), rh, rh, ex)
		sf := isaac.NewINITBallotSignFact(fact)
		if err := sf.NodeSign(poolh.Key(w.seed, signer), netID, poolh.Addr(signer)); err != nil {
			panic(err)
		}
		bl = isaac.NewINITBallot(nil, sf, nil)
	}
	w.ballots[blid(bl)] = id
	w.blkey[id] = k
	return bl, id
}

func (w *world) newFact(k pkey) int {
	ops := [][2]util.Hash{{valuehash.NewSHA256([]byte(fmt.Sprintf("op-%d-%d", w.seed, len(w.facts)))), valuehash.NewSHA256([]byte(fmt.Sprintf("fact-%d-%d", w.seed, len(w.facts))))}}
	f := isaac.NewProposalFact(base.RawPoint(k.h, k.round), poolh.Addr(k.proposer), w.prevs[k.prev], ops)
	w.facts = append(w.facts, f)
	w.factpk = append(w.factpk, k)
	w.factid[f.Hash().String()] = len(w.facts) - 1
	return len(w.facts) - 1
}

func (w *world) factCoq(i int) string { return vh.Tuple(w.factpk[i].coq(), vh.N(uint64(i))) }

func (w *world) newProposal(fi int, _ int) (base.ProposalSignFact, int) {
	// every signed proposal of one fact gets its own signer: signatures are deterministic, the same signer would
	// produce an indistinguishable object
	signer := w.signed[fi]
	w.signed[fi]++
	sf := isaac.NewProposalSignFact(w.facts[fi])
	if err := sf.Sign(poolh.Key(w.seed, signer), netID); err != nil {
		panic(err)
	}
	id := w.nval
	w.nval++
	w.props[string(sf.Signs()[0].Signature())] = id
	return sf, id
}

func (w *world) ballotVal(bl base.Ballot) int {
	if id, ok := w.ballots[blid(bl)]; ok {
		return id
	}
	return -1
}

func (w *world) propVal(pr base.ProposalSignFact) (val, fact int) {
	val, fact = -1, -1
	if id, ok := w.props[string(pr.Signs()[0].Signature())]; ok {
		val = id
	}
	if id, ok := w.factid[pr.Fact().Hash().String()]; ok {
		fact = id
	}
	return
}

func optN(v int) string {
	if v < 0 {
		return "None"
	}
	return vh.Some(vh.N(uint64(v)))
}

// ---------------------------------------------------------------- sequential histories

type jstep map[string]any

type seq struct {
	w      *world
	res    *vh.Result
	terms  []string
	hist   []jstep
	failed map[string]bool
	// the property's own bookkeeping (independent of the Coq model)
	firstBallot map[bkey]int
	firstProp   map[int]int      // fact -> first value
	pkFacts     map[pkey][]int   // point key -> facts stored, in order
	liveB       map[bkey]bool
	liveP       map[int]bool
}

func newSeq(seed uint64, res *vh.Result) *seq {
	return &seq{w: newWorld(seed), res: res, failed: map[string]bool{}, firstBallot: map[bkey]int{}, firstProp: map[int]int{},
		pkFacts: map[pkey][]int{}, liveB: map[bkey]bool{}, liveP: map[int]bool{}}
}

func (s *seq) fail(class, desc string) {
	if s.failed[class] {
		return
	}
	s.failed[class] = true
	h := make([]jstep, len(s.hist))
	copy(h, s.hist)
	s.res.Fail(class, desc, h)
}

func (s *seq) setBallot(k bkey, signer int) {
	s.setBallotX(k, signer, s.w.nval%3 == 1)
}

func (s *seq) setBallotX(k bkey, signer int, expels bool) {
	bl, id := s.w.newBallotX(k, signer, expels)
	if expels {
		s.res.Dist("seq_ballot_with_expels")
	}
	added, err := s.w.pool.SetBallot(bl)
	s.hist = append(s.hist, jstep{"op": "setballot", "h": k.h, "round": k.round, "stage": k.stage, "sc": k.sc, "expels": expels, "val": id})
	if err != nil {
		s.fail("ballot-error", err.Error())
	}
	if s.liveB[k] == added {
		s.fail("ballot-not-first-writer-wins", fmt.Sprintf("SetBallot(%+v) returned %v although a ballot was stored=%v", k, added, s.liveB[k]))
	}
	if added {
		s.firstBallot[k] = id
		s.liveB[k] = true
	}
	s.terms = append(s.terms, fmt.Sprintf("ISetBallot %s %s %s", k.coq(), vh.N(uint64(id)), vh.Bool(added)))
	s.res.Count("", false)
}

func (s *seq) getBallot(k bkey) {
	bl, found, err := s.w.pool.Ballot(k.point(), k.stg(), k.sc)
	s.hist = append(s.hist, jstep{"op": "ballot", "h": k.h, "round": k.round, "stage": k.stage, "sc": k.sc})
	if err != nil {
		s.fail("ballot-error", err.Error())
	}
	v := -1
	if found {
		v = s.w.ballotVal(bl)
	}
	switch {
	case s.liveB[k] && (!found || v != s.firstBallot[k]):
		s.fail("ballot-not-first-writer-wins", fmt.Sprintf("Ballot(%+v) = (found=%v, value %d), the first ballot stored is %d", k, found, v, s.firstBallot[k]))
	case !s.liveB[k] && found:
		s.fail("ballot-phantom", fmt.Sprintf("Ballot(%+v) found value %d, nothing stored", k, v))
	}
	s.terms = append(s.terms, fmt.Sprintf("IGetBallot %s %s", k.coq(), optN(v)))
	s.res.Count("", false)
}

func (s *seq) setProposal(fi int, signer int) {
	pr, id := s.w.newProposal(fi, signer)
	added, err := s.w.pool.SetProposal(pr)
	s.hist = append(s.hist, jstep{"op": "setproposal", "fact": fi, "pk": fmt.Sprint(s.w.factpk[fi]), "val": id})
	if err != nil {
		s.fail("proposal-error", err.Error())
	}
	if s.liveP[fi] == added {
		s.fail("proposal-not-first-writer-wins", fmt.Sprintf("SetProposal(fact %d) returned %v although stored=%v", fi, added, s.liveP[fi]))
	}
	if added {
		s.firstProp[fi] = id
		s.liveP[fi] = true
		s.pkFacts[s.w.factpk[fi]] = append(s.pkFacts[s.w.factpk[fi]], fi)
	}
	s.terms = append(s.terms, fmt.Sprintf("ISetProposal %s %s %s", s.w.factCoq(fi), vh.N(uint64(id)), vh.Bool(added)))
	s.res.Count("", false)
}

func (s *seq) getProposal(fi int) {
	pr, found, err := s.w.pool.Proposal(s.w.facts[fi].Hash())
	s.hist = append(s.hist, jstep{"op": "proposal", "fact": fi})
	if err != nil {
		s.fail("proposal-error", err.Error())
	}
	v := -1
	if found {
		v, _ = s.w.propVal(pr)
	}
	switch {
	case s.liveP[fi] && (!found || v != s.firstProp[fi]):
		s.fail("proposal-not-first-writer-wins", fmt.Sprintf("Proposal(fact %d) = (found=%v, value %d), first stored %d", fi, found, v, s.firstProp[fi]))
	case !s.liveP[fi] && found:
		s.fail("proposal-phantom", fmt.Sprintf("Proposal(fact %d) found value %d, nothing stored", fi, v))
	}
	s.terms = append(s.terms, fmt.Sprintf("IGetProposal %s %s", s.w.factCoq(fi), optN(v)))
	s.res.Count("", false)
}

func (s *seq) liveFacts(k pkey) []int {
	var l []int
	for _, f := range s.pkFacts[k] {
		if s.liveP[f] {
			l = append(l, f)
		}
	}
	return l
}

func (s *seq) byPoint(k pkey) {
	pr, found, err := s.w.pool.ProposalByPoint(base.RawPoint(k.h, k.round), poolh.Addr(k.proposer), s.w.prevs[k.prev])
	s.hist = append(s.hist, jstep{"op": "bypoint", "pk": fmt.Sprint(k)})
	if err != nil {
		s.fail("proposal-error", err.Error())
	}
	v, f := -1, -1
	if found {
		v, f = s.w.propVal(pr)
	}
	live := s.liveFacts(k)
	ever := s.pkFacts[k]
	// the statement: for each stored fact, the lookup by its (point, proposer, previous block) returns the
	// proposal kept for that fact
	isLive := func(x int) bool {
		for _, lf := range live {
			if lf == x {
				return true
			}
		}
		return false
	}
	switch {
	case len(ever) <= 1 && len(live) == 0:
		if found {
			s.fail("proposal-phantom", fmt.Sprintf("ProposalByPoint(%v) found fact %d, nothing stored", k, f))
		}
	case len(ever) <= 1:
		if !found || f != live[0] || v != s.firstProp[live[0]] {
			s.fail("proposal-by-point-wrong", fmt.Sprintf("ProposalByPoint(%v) = (found=%v, fact %d, value %d); stored: fact %d with first proposal %d", k, found, f, v, live[0], s.firstProp[live[0]]))
		}
	default:
		// two different facts were stored for one point key: the lookup cannot return both (and after a clean-up
		// the first one is kept by hash but no longer reachable by point).  Known finding class; an answer that is
		// not a kept proposal of a stored fact of this key is a different violation
		deviates := false
		for _, lf := range live {
			if !(found && f == lf && v == s.firstProp[lf]) {
				deviates = true
			}
		}
		switch {
		case found && (!isLive(f) || v != s.firstProp[f]):
			s.fail("proposal-by-point-wrong", fmt.Sprintf("ProposalByPoint(%v) = (fact %d, value %d) is not a kept proposal of the stored facts %v", k, f, v, live))
		case deviates:
			s.fail("proposal-point-key-overwritten", fmt.Sprintf("facts %v were stored for one (point, proposer, previous block) %v (still kept: %v): ProposalByPoint = (found=%v, fact %d); for the other kept fact(s) the lookup does not return the proposal kept for them", ever, k, live, found, f))
		}
	}
	fv := "None"
	if found {
		fv = vh.Some(vh.Tuple(s.w.factCoq(f), vh.N(uint64(v))))
		if f < 0 || v < 0 {
			fv = vh.Some(vh.Tuple(vh.Tuple(vh.Tuple(vh.Z(-9), vh.N(0)), vh.N(0)), vh.N(0)))
		}
	}
	s.terms = append(s.terms, fmt.Sprintf("IByPoint %s %s", k.coq(), fv))
	s.res.Count("", false)
}

func (s *seq) cleanBallots() {
	_, deep := s.w.pool.VerifCleanDeeps()
	newest := int64(-1)
	for k, l := range s.liveB {
		if l && k.h > newest {
			newest = k.h
		}
	}
	removed, err := s.w.pool.VerifCleanBallots()
	s.hist = append(s.hist, jstep{"op": "cleanballots"})
	if err != nil {
		s.fail("clean-error", err.Error())
	}
	// what disappeared?
	for k, l := range s.liveB {
		if !l {
			continue
		}
		_, found, _ := s.w.pool.Ballot(k.point(), k.stg(), k.sc)
		if !found {
			s.liveB[k] = false
			if k.h > newest-int64(deep) {
				s.fail("clean-too-young", fmt.Sprintf("cleanBallots removed the ballot at height %d; newest height %d, configured depth %d", k.h, newest, deep))
			}
		}
	}
	s.terms = append(s.terms, fmt.Sprintf("ICleanBallots %s", vh.Z(int64(removed))))
	s.res.Count("", false)
}

func (s *seq) cleanProposals() {
	deep, _ := s.w.pool.VerifCleanDeeps()
	newest := int64(-1)
	for f, l := range s.liveP {
		if l && s.w.factpk[f].h > newest {
			newest = s.w.factpk[f].h
		}
	}
	removed, err := s.w.pool.VerifCleanProposals()
	s.hist = append(s.hist, jstep{"op": "cleanproposals"})
	if err != nil {
		s.fail("clean-error", err.Error())
	}
	for f, l := range s.liveP {
		if !l {
			continue
		}
		_, found, _ := s.w.pool.Proposal(s.w.facts[f].Hash())
		if !found {
			s.liveP[f] = false
			if s.w.factpk[f].h > newest-int64(deep) {
				s.fail("clean-too-young", fmt.Sprintf("cleanProposals removed the proposal at height %d; newest height %d, configured depth %d", s.w.factpk[f].h, newest, deep))
			}
		}
	}
	s.terms = append(s.terms, fmt.Sprintf("ICleanProposals %s", vh.Z(int64(removed))))
	s.res.Count("", false)
}

func (s *seq) finish(cases *vh.Cases, label string) {
	cases.Add(vh.List(s.terms), map[string]any{"label": label, "history": s.hist})
	_ = s.w.pool.Close()
}

func randBKey(rd *vh.Rand, base int64) bkey {
	return bkey{h: base + int64(rd.Intn(7)), round: uint64(rd.Intn(2)), stage: rd.Intn(2), sc: rd.Chance(1, 5)}
}
func fixBKey(k bkey) bkey {
	if k.stage == 1 {
		k.sc = false // suffrage confirm is an INIT-stage fact
	}
	if k.h == 0 {
		k.round = 0 // the genesis point has round 0 only (StagePoint.IsValid)
	}
	return k
}
func randPKey(rd *vh.Rand, base int64) pkey {
	return pkey{h: base + int64(rd.Intn(7)), round: uint64(rd.Intn(2)), proposer: rd.Intn(2), prev: rd.Intn(2)}
}

func generated(rd *vh.Rand, seed uint64, res *vh.Result, cases *vh.Cases, allowOverwrite bool) {
	s := newSeq(seed, res)
	base := int64(rd.Intn(3)) * int64(rd.Intn(20)) // 0 (clean guard territory) or up to 38
	n := rd.Range(5, 40)
	var bkeys []bkey
	nontrivial := false
	for i := 0; i < n; i++ {
		switch c := rd.Intn(20); {
		case c < 5:
			var k bkey
			if len(bkeys) > 0 && rd.Chance(1, 2) {
				k = bkeys[rd.Intn(len(bkeys))] // second writer
				nontrivial = true
			} else {
				k = fixBKey(randBKey(rd, base))
				bkeys = append(bkeys, k)
			}
			s.setBallot(k, rd.Intn(4))
			res.Dist("seq_setballot")
			if k.stage == 0 && rd.Bool() { // the same stage point under both suffrage-confirm flags
				flip := k
				flip.sc = !k.sc
				s.getBallot(k)
				s.getBallot(flip)
			}
		case c < 8:
			k := fixBKey(randBKey(rd, base))
			if len(bkeys) > 0 && rd.Chance(2, 3) {
				k = bkeys[rd.Intn(len(bkeys))]
			}
			s.getBallot(k)
		case c < 13:
			var fi int
			switch {
			case len(s.w.facts) > 0 && rd.Chance(1, 3): // same fact, signed again
				fi = rd.Intn(len(s.w.facts))
				nontrivial = true
			default:
				k := randPKey(rd, base)
				if len(s.pkFacts[k]) > 0 && !allowOverwrite {
					continue
				}
				if len(s.pkFacts[k]) > 0 {
					res.Dist("seq_second_fact_for_point_key")
				}
				fi = s.w.newFact(k)
			}
			s.setProposal(fi, rd.Intn(4))
			res.Dist("seq_setproposal")
		case c < 15:
			if len(s.w.facts) > 0 {
				s.getProposal(rd.Intn(len(s.w.facts)))
			}
		case c < 17:
			k := randPKey(rd, base)
			if len(s.w.facts) > 0 && rd.Chance(2, 3) {
				k = s.w.factpk[rd.Intn(len(s.w.facts))]
			}
			s.byPoint(k)
		case c < 18:
			s.cleanBallots()
			res.Dist("seq_clean")
		case c < 19:
			s.cleanProposals()
			res.Dist("seq_clean")
		default:
			for _, k := range bkeys {
				s.getBallot(k)
			}
			for f := range s.w.facts {
				s.getProposal(f)
				s.byPoint(s.w.factpk[f])
			}
		}
	}
	for _, k := range bkeys {
		s.getBallot(k)
	}
	for f := range s.w.facts {
		s.getProposal(f)
		s.byPoint(s.w.factpk[f])
	}
	if len(res.Samples) < 2 {
		res.Sample(map[string]any{"history_prefix": s.hist[:min(len(s.hist), 6)]})
	}
	res.Count(fmt.Sprint(s.hist), nontrivial)
	s.finish(cases, "generated")
}

func corpus(seed uint64, res *vh.Result, cases *vh.Cases) {
	// first writer wins, per (stage point, suffrage-confirm flag)
	s := newSeq(seed, res)
	k := bkey{h: 33, round: 1}
	s.setBallot(k, 0)
	s.setBallot(k, 1)
	s.getBallot(k)
	s.setBallot(bkey{h: 33, round: 1, sc: true}, 1)
	s.setBallot(bkey{h: 33, round: 1, stage: 1}, 1)
	s.getBallot(k)
	s.getBallot(bkey{h: 33, round: 1, sc: true})
	s.getBallot(bkey{h: 33, round: 1, stage: 1})
	// clean-up boundary: newest 33, depth 3: 30 goes, 31 stays
	s.setBallot(bkey{h: 30}, 0)
	s.setBallot(bkey{h: 31}, 0)
	s.cleanBallots()
	s.getBallot(bkey{h: 30})
	s.getBallot(bkey{h: 31})
	s.setBallot(bkey{h: 30}, 2) // after the clean-up the key is free again
	s.getBallot(bkey{h: 30})
	res.Count("corpus-ballot", true)
	s.finish(cases, "corpus: ballots")

	// ordinary INIT / ACCEPT ballots that propose expels are not suffrage-confirm ballots: they live under the
	// plain key, the suffrage-confirm ballot of the same stage point has its own slot (either order)
	s = newSeq(seed, res)
	ki, ksc, ka := bkey{h: 33, round: 2}, bkey{h: 33, round: 2, sc: true}, bkey{h: 33, round: 2, stage: 1}
	s.setBallotX(ki, 0, true)
	s.getBallot(ki)
	s.getBallot(ksc)
	s.setBallotX(ksc, 1, true)
	s.getBallot(ki)
	s.getBallot(ksc)
	s.setBallotX(ka, 2, true)
	s.getBallot(ka)
	s.setBallotX(ki, 3, false)
	s.getBallot(ki)
	ki2, ksc2 := bkey{h: 34, round: 0}, bkey{h: 34, round: 0, sc: true}
	s.setBallotX(ksc2, 0, true)
	s.setBallotX(ki2, 1, true)
	s.getBallot(ki2)
	s.getBallot(ksc2)
	res.Count("corpus-ballot-expels", true)
	s.finish(cases, "corpus: ballots with expel facts vs suffrage-confirm ballots")

	// clean-up guard: newest below 3 -> nothing removed
	s = newSeq(seed, res)
	s.setBallot(bkey{h: 0}, 0)
	s.setBallot(bkey{h: 2}, 0)
	s.cleanBallots()
	s.getBallot(bkey{h: 0})
	s.setBallot(bkey{h: 3}, 0)
	s.cleanBallots()
	s.getBallot(bkey{h: 0})
	s.getBallot(bkey{h: 2})
	res.Count("corpus-guard", true)
	s.finish(cases, "corpus: clean-up guard")

	// proposals: same fact signed twice; lookup by point; clean-up
	s = newSeq(seed, res)
	pk := pkey{h: 33, round: 0, proposer: 0, prev: 0}
	f0 := s.w.newFact(pk)
	s.setProposal(f0, 0)
	s.setProposal(f0, 1)
	s.getProposal(f0)
	s.byPoint(pk)
	f1 := s.w.newFact(pkey{h: 30})
	f2 := s.w.newFact(pkey{h: 31})
	s.setProposal(f1, 0)
	s.setProposal(f2, 0)
	s.cleanProposals()
	s.getProposal(f1)
	s.getProposal(f2)
	s.byPoint(pkey{h: 30})
	s.byPoint(pkey{h: 31})
	res.Count("corpus-proposal", true)
	s.finish(cases, "corpus: proposals")

	// KNOWN FINDING witness: two different facts with one (point, proposer, previous block)
	s = newSeq(seed, res)
	fa := s.w.newFact(pk)
	fb := s.w.newFact(pk)
	s.setProposal(fa, 0)
	s.byPoint(pk)
	s.setProposal(fb, 0)
	s.getProposal(fa)
	s.getProposal(fb)
	s.byPoint(pk)
	res.Count("corpus-point-key-overwritten", true)
	s.finish(cases, "corpus: two facts, one point key (known finding witness)")
}

// ---------------------------------------------------------------- concurrency

type racer struct {
	arrived, release, done chan struct{}
	ret                    bool
	err                    error
	state                  int // 0 running/blocked, 1 at gate, 2 done
}

// settle waits until racer i is at the gate or done, or the timeout passes (= blocked on a mutex, or slow)
func settle(r *racer, d time.Duration) {
	if r.state != 0 {
		return
	}
	select {
	case <-r.arrived:
		r.state = 1
	case <-r.done:
		r.state = 2
	case <-time.After(d):
	}
}

// forced runs k calls for one key: all are started (in start order) and run up to the yield point between
// Exists and Put (the blocking encoder); they are then released in the order `order`.
func forced(w *world, objs []interface{}, ids []string, call func(i int) (bool, error), order []int, res *vh.Result) (rets []bool, gates int) {
	n := len(objs)
	rs := make([]*racer, n)
	byid := map[string]int{}
	for i := range rs {
		rs[i] = &racer{arrived: make(chan struct{}, 1), release: make(chan struct{}, 1), done: make(chan struct{})}
		byid[ids[i]] = i
	}
	w.gate.Gate = func(v interface{}) {
		var id string
		switch t := v.(type) {
		case base.Ballot:
			id = blid(t)
		case base.ProposalSignFact:
			id = string(t.Signs()[0].Signature())
		}
		if i, ok := byid[id]; ok {
			rs[i].arrived <- struct{}{}
			<-rs[i].release
		}
	}
	defer func() { w.gate.Gate = nil }()
	for i := 0; i < n; i++ {
		i := i
		go func() {
			rs[i].ret, rs[i].err = call(i)
			close(rs[i].done)
		}()
		settle(rs[i], 300*time.Millisecond)
		if rs[i].state == 1 {
			gates++
		}
	}
	for _, i := range order {
		if rs[i].state == 0 {
			settle(rs[i], 50*time.Millisecond)
		}
		if rs[i].state == 1 {
			rs[i].release <- struct{}{}
			<-rs[i].done
			rs[i].state = 2
			for _, r := range rs { // a call blocked on the mutex may now proceed
				if r.state == 0 {
					settle(r, 300*time.Millisecond)
				}
			}
		}
	}
	for pending := true; pending; { // whatever is left (slow starters)
		pending = false
		for _, r := range rs {
			if r.state != 2 {
				pending = true
				settle(r, 300*time.Millisecond)
				if r.state == 1 {
					r.release <- struct{}{}
					<-r.done
					r.state = 2
				}
			}
		}
	}
	rets = make([]bool, n)
	for i, r := range rs {
		rets[i] = r.ret
		if r.err != nil {
			res.Fail("concurrent-error", r.err.Error(), nil)
		}
	}
	return rets, gates
}

func concTerm(kind, key string, vals []int, rets []bool, stored int) string {
	vs, rs := make([]string, len(vals)), make([]string, len(rets))
	for i := range vals {
		vs[i] = vh.N(uint64(vals[i]))
		rs[i] = vh.Bool(rets[i])
	}
	return fmt.Sprintf("%s %s %s %s %s", kind, key, vh.List(vs), vh.List(rs), optN(stored))
}

func concOracle(res *vh.Result, class, what string, preexisting int, vals []int, rets []bool, stored int, replay any) {
	wins := []int{}
	for i, r := range rets {
		if r {
			wins = append(wins, vals[i])
		}
	}
	switch {
	case preexisting >= 0 && (len(wins) != 0 || stored != preexisting):
		res.Fail(class, fmt.Sprintf("%s: %d already stored; concurrent calls with %v returned %v; stored afterwards %d", what, preexisting, vals, rets, stored), replay)
	case preexisting < 0 && (len(wins) != 1 || stored != wins[0]):
		res.Fail(class, fmt.Sprintf("%s: concurrent calls with values %v returned %v (must be exactly one true); stored afterwards %d (must be the value of the call that returned true)", what, vals, rets, stored), replay)
	}
}

func forcedCases(rd *vh.Rand, seed uint64, res *vh.Result, cases *vh.Cases, n int) {
	for c := 0; c < n; c++ {
		w := newWorld(seed + uint64(c))
		var terms []string
		k := rd.Range(2, 3)
		order := rd.Perm(k)
		pre := -1
		if c%2 == 0 { // ballots
			key := fixBKey(randBKey(rd, 30))
			if rd.Chance(1, 5) {
				bl, id := w.newBallot(key, 3)
				_, _ = w.pool.SetBallot(bl)
				pre = id
				terms = append(terms, fmt.Sprintf("ISetBallot %s %s true", key.coq(), vh.N(uint64(id))))
			}
			objs, ids, vals := make([]interface{}, k), make([]string, k), make([]int, k)
			bls := make([]base.Ballot, k)
			for i := 0; i < k; i++ {
				bls[i], vals[i] = w.newBallot(key, i)
				objs[i], ids[i] = bls[i], blid(bls[i])
			}
			rets, gates := forced(w, objs, ids, func(i int) (bool, error) { return w.pool.SetBallot(bls[i]) }, order, res)
			stored := -1
			if bl, found, _ := w.pool.Ballot(key.point(), key.stg(), key.sc); found {
				stored = w.ballotVal(bl)
			}
			res.Dist(fmt.Sprintf("forced_ballot_calls_at_gate_together_%d", gates))
			concOracle(res, "ballot-concurrent-not-first-writer-wins", fmt.Sprintf("SetBallot forced schedule (release order %v)", order), pre, vals, rets, stored,
				map[string]any{"kind": "forced-ballot", "threads": k, "order": order})
			terms = append(terms, concTerm("IConcBallot", key.coq(), vals, rets, stored))
		} else {
			pk := randPKey(rd, 30)
			fi := w.newFact(pk)
			if rd.Chance(1, 5) {
				pr, id := w.newProposal(fi, 3)
				_, _ = w.pool.SetProposal(pr)
				pre = id
				terms = append(terms, fmt.Sprintf("ISetProposal %s %s true", w.factCoq(fi), vh.N(uint64(id))))
			}
			objs, ids, vals := make([]interface{}, k), make([]string, k), make([]int, k)
			prs := make([]base.ProposalSignFact, k)
			for i := 0; i < k; i++ {
				prs[i], vals[i] = w.newProposal(fi, i)
				objs[i], ids[i] = prs[i], string(prs[i].Signs()[0].Signature())
			}
			rets, gates := forced(w, objs, ids, func(i int) (bool, error) { return w.pool.SetProposal(prs[i]) }, order, res)
			stored := -1
			if pr, found, _ := w.pool.Proposal(w.facts[fi].Hash()); found {
				stored, _ = w.propVal(pr)
			}
			res.Dist(fmt.Sprintf("forced_proposal_calls_at_gate_together_%d", gates))
			concOracle(res, "proposal-concurrent-not-first-writer-wins", fmt.Sprintf("SetProposal forced schedule (release order %v)", order), pre, vals, rets, stored,
				map[string]any{"kind": "forced-proposal", "threads": k, "order": order})
			terms = append(terms, concTerm("IConcProposal", w.factCoq(fi), vals, rets, stored))
		}
		res.Count(fmt.Sprintf("forced-%d", c), true)
		cases.Add(vh.List(terms), map[string]any{"label": "forced schedule", "order": order})
		_ = w.pool.Close()
	}
}

// free-running writers for one key plus readers; the encoder yields to widen the window
func freeCases(rd *vh.Rand, seed uint64, res *vh.Result, cases *vh.Cases, n int) {
	for c := 0; c < n; c++ {
		w := newWorld(seed + 1000 + uint64(c))
		key := fixBKey(randBKey(rd, 30))
		k := 8
		bls, vals := make([]base.Ballot, k), make([]int, k)
		for i := 0; i < k; i++ {
			bls[i], vals[i] = w.newBallot(key, i%4)
		}
		w.gate.Gate = func(interface{}) { runtime.Gosched(); time.Sleep(time.Microsecond * 50) }
		rets := make([]bool, k)
		var wg sync.WaitGroup
		stop := make(chan struct{})
		var rmu sync.Mutex
		changed := ""
		for r := 0; r < 2; r++ {
			wg.Add(1)
			go func() { // reader: once a ballot is seen it must stay the same
				defer wg.Done()
				seen := -1
				for {
					select {
					case <-stop:
						return
					default:
					}
					if bl, found, _ := w.pool.Ballot(key.point(), key.stg(), key.sc); found {
						v := w.ballotVal(bl)
						if seen >= 0 && v != seen {
							rmu.Lock()
							changed = fmt.Sprintf("a reader saw ballot %d and later ballot %d under the same key", seen, v)
							rmu.Unlock()
						}
						seen = v
					}
				}
			}()
		}
		var ww sync.WaitGroup
		for i := 0; i < k; i++ {
			i := i
			ww.Add(1)
			go func() {
				defer ww.Done()
				rets[i], _ = w.pool.SetBallot(bls[i])
			}()
		}
		ww.Wait()
		close(stop)
		wg.Wait()
		w.gate.Gate = nil
		stored := -1
		if bl, found, _ := w.pool.Ballot(key.point(), key.stg(), key.sc); found {
			stored = w.ballotVal(bl)
		}
		rp := map[string]any{"kind": "free-ballot", "threads": k}
		concOracle(res, "ballot-concurrent-not-first-writer-wins", "SetBallot from 8 goroutines", -1, vals, rets, stored, rp)
		if changed != "" {
			res.Fail("ballot-concurrent-not-first-writer-wins", changed, rp)
		}
		res.Count(fmt.Sprintf("free-%d", c), true)
		res.Dist("free_running_ballot")
		cases.Add(vh.List([]string{concTerm("IConcBallot", key.coq(), vals, rets, stored)}), map[string]any{"label": "free running"})
		_ = w.pool.Close()
	}
}

func main() {
	o := vh.ParseFlags()
	res := vh.NewResult("one evaluation = one pool call (or one group of concurrent calls for one key) checked against the statement: first writer wins per ballot key / proposal fact, lookup by point returns the kept proposal, clean-up removes only entries at least the configured depth below the newest height; distinct_nontrivial = histories with a second writer / a re-signed fact, forced schedules, free-running groups")
	cases := &vh.Cases{Import: "From MV Require Import C24.Model.", Type: "list item", CheckFn: "check", Shard: 200}
	corpus(o.Seed, res, cases)
	rd := vh.NewRand(o.Seed)
	forcedCases(rd, o.Seed, res, cases, o.Pick(12, 60))
	freeCases(rd, o.Seed, res, cases, o.Pick(20, 200))
	n := o.Pick(400, 8000)
	for i := 0; i < n; i++ {
		generated(rd, o.Seed, res, cases, i%8 == 0)
	}
	res.ModelCases = cases.Len()
	if err := cases.Write(o.Out); err != nil {
		panic(err)
	}
	res.Write(o.Out)
}
