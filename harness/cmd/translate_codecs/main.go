// translate_codecs: regenerates coq/Gen/Codecs.v from the Go source of the repository.
//
// For every hinted type registered in launch/hinters.go (Hinters and SupportedProposalOperationFactHinters)
// it extracts, with go/ast only (no type checker, no build):
//
//	hint string          <Name>Hint = hint.MustNewHint("...")
//	marshal keys         JSON keys MarshalJSON emits: struct tags of the (embedded) ...JSONMarshaler struct
//	                     literal handed to util.MarshalJSON (through jsonMarshaler()/JSONMarshaler() helpers),
//	                     or the keys of a map literal; with the receiver field each key is filled from
//	decode keys          JSON keys DecodeJSON/UnmarshalJSON consumes: struct tags of every `var u T` in the
//	                     method and in the decode methods it calls on the same bytes; with the receiver
//	                     field each key ends up in (small intra-procedural data flow)
//	hash inputs          the receiver fields fed, in order, to util.ConcatByters/ConcatBytesSlice (or the
//	                     bs[i] = ... idiom) by generateHash/hash/HashBytes/signedBytes, with their Go types
//	recompute            whether IsValid (through embedded IsValid calls) compares the stored hash with the
//	                     recomputed one (x.Equal(y.generateHash()) / hash())
//
// Deliberately dumb: anything it cannot resolve is emitted as "?" and the Coq side treats "?" as unknown
// (never as equal).  The harness cross-checks keys against real encoded JSON on every run.
package main

import (
	"encoding/json"
	"flag"
	"fmt"
	"go/ast"
	"go/parser"
	"go/printer"
	"go/token"
	"os"
	"path/filepath"
	"reflect"
	"sort"
	"strconv"
	"strings"
)

const modPath = "github.com/spikeekips/mitum/"

var pkgDirs = []string{
	"base", "isaac", "isaac/block", "isaac/network", "isaac/operation", "isaac/states", "launch",
	"network/quicmemberlist", "network/quicstream", "network/quicstream/header",
	"util", "util/fixedtree", "util/hint", "util/localtime", "util/valuehash",
}

type pkg struct {
	dir     string
	name    string
	structs map[string]*structInfo
	methods map[string]map[string]*funcInfo // type -> method -> decl
	vars    map[string]ast.Expr
}

type structInfo struct {
	pkg  *pkg
	name string
	st   *ast.StructType
	file *ast.File
}

type funcInfo struct {
	pkg  *pkg
	decl *ast.FuncDecl
	file *ast.File
	recv string // receiver type name
}

var (
	fset = token.NewFileSet()
	pkgs = map[string]*pkg{}
	warn []string
)

func warnf(f string, a ...any) { warn = append(warn, fmt.Sprintf(f, a...)) }

func fatal(err error) { fmt.Fprintln(os.Stderr, "translate_codecs:", err); os.Exit(1) }

func main() {
	repo := flag.String("repo", "/repo", "")
	outdir := flag.String("outdir", "", "directory for Codecs.v")
	overlay := flag.String("overlay", "", "")
	dump := flag.Bool("dump", false, "print a JSON dump of the descriptors to stdout")
	flag.Parse()
	repl := map[string]string{}
	if *overlay != "" {
		var ov struct{ Replace map[string]string }
		b, err := os.ReadFile(*overlay)
		if err != nil {
			fatal(err)
		}
		if err := json.Unmarshal(b, &ov); err != nil {
			fatal(err)
		}
		repl = ov.Replace
	}
	for _, d := range pkgDirs {
		if err := loadPkg(*repo, d, repl); err != nil {
			fatal(err)
		}
	}
	descs, err := extract()
	if err != nil {
		fatal(err)
	}
	sentinelTypes, sentinelFields = sentinels()
	if *dump {
		b, _ := json.MarshalIndent(descs, "", " ")
		fmt.Println(string(b))
	}
	if *outdir == "" {
		return
	}
	out := filepath.Join(*outdir, "Codecs.v")
	txt := render(descs)
	cur, _ := os.ReadFile(out)
	if string(cur) != txt {
		if err := os.MkdirAll(*outdir, 0o755); err != nil {
			fatal(err)
		}
		tmp := fmt.Sprintf("%s.tmp%d", out, os.Getpid())
		if err := os.WriteFile(tmp, []byte(txt), 0o644); err != nil {
			fatal(err)
		}
		if err := os.Rename(tmp, out); err != nil {
			fatal(err)
		}
		fmt.Println("translate_codecs: rewrote", out)
	}
}

// ---------------------------------------------------------------- loading

func buildTagged(src []byte) bool {
	// skip files guarded by a build constraint mentioning test or verif (fixtures and hooks)
	for _, line := range strings.SplitN(string(src), "\n", 12) {
		l := strings.TrimSpace(line)
		if strings.HasPrefix(l, "package ") {
			break
		}
		if strings.HasPrefix(l, "//go:build") || strings.HasPrefix(l, "// +build") {
			if strings.Contains(l, "test") || strings.Contains(l, "verif") {
				return true
			}
		}
	}
	return false
}

func loadPkg(repo, dir string, repl map[string]string) error {
	abs := filepath.Join(repo, dir)
	ents, err := os.ReadDir(abs)
	if err != nil {
		return err
	}
	files := map[string]string{} // logical path -> real path
	for _, e := range ents {
		n := e.Name()
		if e.IsDir() || !strings.HasSuffix(n, ".go") || strings.HasSuffix(n, "_test.go") {
			continue
		}
		files[filepath.Join(abs, n)] = filepath.Join(abs, n)
	}
	for lp, rp := range repl {
		if filepath.Dir(lp) == abs && strings.HasSuffix(lp, ".go") && !strings.HasSuffix(lp, "_test.go") {
			if rp == "" {
				delete(files, lp)
			} else {
				files[lp] = rp
			}
		}
	}
	p := &pkg{dir: dir, structs: map[string]*structInfo{}, methods: map[string]map[string]*funcInfo{}, vars: map[string]ast.Expr{}}
	paths := make([]string, 0, len(files))
	for lp := range files {
		paths = append(paths, lp)
	}
	sort.Strings(paths)
	for _, lp := range paths {
		src, err := os.ReadFile(files[lp])
		if err != nil {
			return err
		}
		if buildTagged(src) {
			continue
		}
		f, err := parser.ParseFile(fset, lp, src, 0)
		if err != nil {
			return fmt.Errorf("parse %s: %v", lp, err)
		}
		p.name = f.Name.Name
		for _, d := range f.Decls {
			switch x := d.(type) {
			case *ast.GenDecl:
				for _, sp := range x.Specs {
					switch s := sp.(type) {
					case *ast.TypeSpec:
						if st, ok := s.Type.(*ast.StructType); ok {
							p.structs[s.Name.Name] = &structInfo{pkg: p, name: s.Name.Name, st: st, file: f}
						}
					case *ast.ValueSpec:
						for i, n := range s.Names {
							if i < len(s.Values) {
								p.vars[n.Name] = s.Values[i]
							}
						}
					}
				}
			case *ast.FuncDecl:
				if x.Recv == nil || len(x.Recv.List) != 1 || x.Body == nil {
					continue
				}
				t := x.Recv.List[0].Type
				if st, ok := t.(*ast.StarExpr); ok {
					t = st.X
				}
				if ix, ok := t.(*ast.IndexExpr); ok {
					t = ix.X
				}
				id, ok := t.(*ast.Ident)
				if !ok {
					continue
				}
				if p.methods[id.Name] == nil {
					p.methods[id.Name] = map[string]*funcInfo{}
				}
				p.methods[id.Name][x.Name.Name] = &funcInfo{pkg: p, decl: x, file: f, recv: id.Name}
			}
		}
	}
	pkgs[dir] = p
	return nil
}

// imports of a file: alias -> package dir (only packages of this module that were loaded)
func importsOf(f *ast.File) map[string]string {
	m := map[string]string{}
	for _, im := range f.Imports {
		path, _ := strconv.Unquote(im.Path.Value)
		if !strings.HasPrefix(path, modPath) {
			continue
		}
		dir := strings.TrimPrefix(path, modPath)
		p, ok := pkgs[dir]
		if !ok {
			continue
		}
		alias := p.name
		if im.Name != nil {
			alias = im.Name.Name
		}
		m[alias] = dir
	}
	return m
}

// resolveStruct: type expression (as written in file f of package p) -> struct declaration, if it is a
// named struct type of a loaded package.
func resolveStruct(p *pkg, f *ast.File, t ast.Expr) *structInfo {
	switch x := t.(type) {
	case *ast.StarExpr:
		return resolveStruct(p, f, x.X)
	case *ast.ParenExpr:
		return resolveStruct(p, f, x.X)
	case *ast.Ident:
		return p.structs[x.Name]
	case *ast.SelectorExpr:
		if id, ok := x.X.(*ast.Ident); ok {
			if dir, ok := importsOf(f)[id.Name]; ok {
				return pkgs[dir].structs[x.Sel.Name]
			}
		}
	}
	return nil
}

func exprString(e ast.Expr) string {
	var sb strings.Builder
	_ = printer.Fprint(&sb, fset, e)
	return strings.Join(strings.Fields(sb.String()), " ")
}

// typeString renders a field type qualified with the package name when it is a bare identifier of p.
func typeString(p *pkg, t ast.Expr) string {
	switch x := t.(type) {
	case *ast.Ident:
		if _, ok := p.structs[x.Name]; ok || ast.IsExported(x.Name) {
			return p.name + "." + x.Name
		}
		return x.Name
	case *ast.StarExpr:
		return "*" + typeString(p, x.X)
	case *ast.ArrayType:
		l := ""
		if x.Len != nil {
			l = exprString(x.Len)
		}
		return "[" + l + "]" + typeString(p, x.Elt)
	}
	return exprString(t)
}

// ---------------------------------------------------------------- struct helpers

type fieldRef struct {
	name     string
	typ      ast.Expr
	embedded bool
	tag      string
	owner    *structInfo
}

func fieldsOf(si *structInfo) []fieldRef {
	var out []fieldRef
	for _, fl := range si.st.Fields.List {
		tag := ""
		if fl.Tag != nil {
			tag, _ = strconv.Unquote(fl.Tag.Value)
		}
		if len(fl.Names) == 0 {
			out = append(out, fieldRef{name: embeddedName(fl.Type), typ: fl.Type, embedded: true, tag: tag, owner: si})
			continue
		}
		for _, n := range fl.Names {
			out = append(out, fieldRef{name: n.Name, typ: fl.Type, tag: tag, owner: si})
		}
	}
	return out
}

func embeddedName(t ast.Expr) string {
	switch x := t.(type) {
	case *ast.StarExpr:
		return embeddedName(x.X)
	case *ast.Ident:
		return x.Name
	case *ast.SelectorExpr:
		return x.Sel.Name
	case *ast.IndexExpr:
		return embeddedName(x.X)
	}
	return "?"
}

// findField: breadth-first through embedded structs (Go's promotion rule, ignoring ambiguity).
func findField(si *structInfo, name string) *fieldRef {
	level := []*structInfo{si}
	seen := map[*structInfo]bool{}
	for len(level) > 0 {
		var next []*structInfo
		for _, s := range level {
			if seen[s] {
				continue
			}
			seen[s] = true
			fs := fieldsOf(s)
			for i := range fs {
				if fs[i].name == name {
					return &fs[i]
				}
			}
			for i := range fs {
				if fs[i].embedded {
					if e := resolveStruct(s.pkg, s.file, fs[i].typ); e != nil {
						next = append(next, e)
					}
				}
			}
		}
		level = next
	}
	return nil
}

// findMethod: method of si or promoted from an embedded struct (breadth-first).
func findMethod(si *structInfo, name string) *funcInfo {
	level := []*structInfo{si}
	seen := map[*structInfo]bool{}
	for len(level) > 0 {
		var next []*structInfo
		for _, s := range level {
			if seen[s] {
				continue
			}
			seen[s] = true
			if m := s.pkg.methods[s.name][name]; m != nil {
				return m
			}
			for _, f := range fieldsOf(s) {
				if f.embedded {
					if e := resolveStruct(s.pkg, s.file, f.typ); e != nil {
						next = append(next, e)
					}
				}
			}
		}
		level = next
	}
	return nil
}

func hasEmbedded(si *structInfo, typeName string) bool {
	seen := map[*structInfo]bool{}
	var rec func(s *structInfo) bool
	rec = func(s *structInfo) bool {
		if s == nil || seen[s] {
			return false
		}
		seen[s] = true
		for _, f := range fieldsOf(s) {
			if f.embedded {
				if f.name == typeName {
					return true
				}
				if rec(resolveStruct(s.pkg, s.file, f.typ)) {
					return true
				}
			}
		}
		return false
	}
	return rec(si)
}

// ---------------------------------------------------------------- json tags

type keyInfo struct {
	Key       string `json:"key"`
	Field     string `json:"field"` // receiver field ("?" unknown)
	OmitEmpty bool   `json:"omitempty,omitempty"`
	goField   string // field name in the (un)marshaler struct
	path      string // dotted path of the (un)marshaler struct field, embedded levels included
}

func parseTag(tag string) (key string, omit, skip, has bool) {
	v, ok := reflect.StructTag(tag).Lookup("json")
	if !ok {
		return "", false, false, false
	}
	parts := strings.Split(v, ",")
	if parts[0] == "-" {
		return "", false, true, true
	}
	for _, o := range parts[1:] {
		if o == "omitempty" {
			omit = true
		}
	}
	return parts[0], omit, false, true
}

// tagKeys lists the JSON keys of a (un)marshaler struct type, expanding embedded structs the way
// encoding/json does (an embedded struct without a tag contributes its fields).
func tagKeys(p *pkg, f *ast.File, st *ast.StructType, prefix string, depth int) []keyInfo {
	var out []keyInfo
	if depth > 6 {
		return out
	}
	for _, fl := range st.Fields.List {
		tag := ""
		if fl.Tag != nil {
			tag, _ = strconv.Unquote(fl.Tag.Value)
		}
		key, omit, skip, has := parseTag(tag)
		if skip {
			continue
		}
		if len(fl.Names) == 0 {
			n := embeddedName(fl.Type)
			if has && key != "" {
				out = append(out, keyInfo{Key: key, OmitEmpty: omit, goField: n, path: prefix + n, Field: "?"})
				continue
			}
			if e := resolveStruct(p, f, fl.Type); e != nil {
				out = append(out, tagKeys(e.pkg, e.file, e.st, prefix+n+".", depth+1)...)
			} else if t, ok := fl.Type.(*ast.StructType); ok {
				out = append(out, tagKeys(p, f, t, prefix+n+".", depth+1)...)
			}
			continue
		}
		for _, n := range fl.Names {
			if !ast.IsExported(n.Name) {
				continue
			}
			k := key
			if k == "" {
				k = n.Name
			}
			out = append(out, keyInfo{Key: k, OmitEmpty: omit, goField: n.Name, path: prefix + n.Name, Field: "?"})
		}
	}
	return out
}

// ---------------------------------------------------------------- receiver-rooted expressions

type ctx struct {
	fn   *funcInfo
	si   *structInfo // receiver struct
	recv string      // receiver identifier
}

func newCtx(fn *funcInfo) *ctx {
	c := &ctx{fn: fn, si: fn.pkg.structs[fn.recv]}
	if r := fn.decl.Recv.List[0]; len(r.Names) == 1 {
		c.recv = r.Names[0].Name
	}
	return c
}

// chain returns the selector chain x.a.b.c as ["x","a","b","c"] (index expressions and parens dropped,
// method-call results not followed); nil when the root is not an identifier.
func chain(e ast.Expr) []string {
	switch x := e.(type) {
	case *ast.Ident:
		return []string{x.Name}
	case *ast.SelectorExpr:
		c := chain(x.X)
		if c == nil {
			return nil
		}
		return append(c, x.Sel.Name)
	case *ast.IndexExpr:
		return chain(x.X)
	case *ast.ParenExpr:
		return chain(x.X)
	case *ast.StarExpr:
		return chain(x.X)
	case *ast.UnaryExpr:
		if x.Op == token.AND {
			return chain(x.X)
		}
	case *ast.SliceExpr:
		return chain(x.X)
	}
	return nil
}

// normField walks a receiver-rooted chain through the struct declarations, dropping embedded levels, and
// returns the promoted field path (e.g. fact.baseBallotFact.point -> "point", n.meta.address -> "meta.address")
// together with the struct the walk ended in and the last field.
func (c *ctx) normField(ch []string) (string, *structInfo, *fieldRef) {
	if c.si == nil || len(ch) < 2 || ch[0] != c.recv {
		return "", nil, nil
	}
	cur := c.si
	var parts []string
	var last *fieldRef
	for _, name := range ch[1:] {
		if cur == nil {
			// below an interface / slice / foreign type: a method or a sub-field we cannot see; stop here
			return strings.Join(parts, "."), cur, last
		}
		f := findField(cur, name)
		if f == nil {
			// a method or an unknown field: stop
			return strings.Join(parts, "."), cur, last
		}
		last = f
		if !f.embedded {
			parts = append(parts, name)
		}
		cur = resolveStruct(f.owner.pkg, f.owner.file, f.typ)
	}
	return strings.Join(parts, "."), cur, last
}

// structOfChain: struct type a receiver-rooted chain denotes (nil when unknown), and how many leading
// elements were fields.
func (c *ctx) structOfChain(ch []string) *structInfo {
	if c.si == nil || len(ch) < 1 || ch[0] != c.recv {
		return nil
	}
	cur := c.si
	for _, name := range ch[1:] {
		if cur == nil {
			return nil
		}
		f := findField(cur, name)
		if f == nil {
			return nil
		}
		cur = resolveStruct(f.owner.pkg, f.owner.file, f.typ)
	}
	return cur
}

// recvFields lists, in source order, the normalised receiver fields mentioned inside e. Accessor calls
// recv.M() whose body is `return recv.f` are resolved to f.  BaseHinter / Hint() become "BaseHinter".
func (c *ctx) recvFields(e ast.Node) []string {
	var out []string
	add := func(s string) {
		if s == "" {
			return
		}
		for _, o := range out {
			if o == s {
				return
			}
		}
		out = append(out, s)
	}
	var visit func(n ast.Node) bool
	visit = func(n ast.Node) bool {
		switch x := n.(type) {
		case *ast.CallExpr:
			if sel, ok := x.Fun.(*ast.SelectorExpr); ok {
				ch := chain(sel.X)
				if ch != nil && ch[0] == c.recv {
					if si := c.structOfChain(ch); si != nil {
						if sel.Sel.Name == "Hint" {
							add("BaseHinter")
							return false
						}
						if m := findMethod(si, sel.Sel.Name); m != nil && len(x.Args) == 0 {
							if f := accessorField(m); f != "" {
								prefix, _, _ := c.normField(ch)
								if prefix != "" {
									f = prefix + "." + f
								}
								add(f)
								return false
							}
						}
					}
					// unknown method on a receiver field: the field itself
					if f, _, last := c.normField(ch); f != "" {
						add(f)
					} else if last != nil && last.embedded {
						add(last.name)
					}
					// (a method of the receiver itself that is not a plain accessor: unresolved)
					for _, a := range x.Args {
						ast.Inspect(a, visit)
					}
					return false
				}
			}
		case *ast.SelectorExpr:
			ch := chain(x)
			if ch != nil && ch[0] == c.recv {
				f, _, last := c.normField(ch)
				if last != nil && last.embedded && f == "" {
					f = last.name
				}
				if f == "" && len(ch) > 1 {
					f = strings.Join(ch[1:], ".")
				}
				if f == "HT" {
					f = "BaseHinter"
				}
				add(f)
				return false
			}
		}
		return true
	}
	ast.Inspect(e, visit)
	return out
}

// accessorField: method whose body is a single `return recv.f` -> "f" (normalised in its own receiver).
func accessorField(m *funcInfo) string {
	if len(m.decl.Body.List) != 1 {
		return ""
	}
	rs, ok := m.decl.Body.List[0].(*ast.ReturnStmt)
	if !ok || len(rs.Results) != 1 {
		return ""
	}
	c := newCtx(m)
	ch := chain(rs.Results[0])
	if ch == nil || len(ch) < 2 || ch[0] != c.recv {
		return ""
	}
	if _, isSel := rs.Results[0].(*ast.SelectorExpr); !isSel {
		return ""
	}
	f, _, _ := c.normField(ch)
	if f == "HT" {
		return "BaseHinter"
	}
	return f
}

// ---------------------------------------------------------------- marshal side

var marshalHelpers = map[string]bool{"MarshalJSON": true}

// marshalKeysOfExpr: keys emitted when `e` (an expression inside method fn) is handed to the JSON library.
func (c *ctx) marshalKeysOfExpr(e ast.Expr, depth int) ([]keyInfo, bool) {
	if depth > 8 {
		return nil, false
	}
	switch x := e.(type) {
	case *ast.ParenExpr:
		return c.marshalKeysOfExpr(x.X, depth)
	case *ast.UnaryExpr:
		return c.marshalKeysOfExpr(x.X, depth)
	case *ast.CompositeLit:
		// map literal
		if mt, ok := x.Type.(*ast.MapType); ok {
			_ = mt
			var out []keyInfo
			for _, el := range x.Elts {
				kv, ok := el.(*ast.KeyValueExpr)
				if !ok {
					continue
				}
				bl, ok := kv.Key.(*ast.BasicLit)
				if !ok || bl.Kind != token.STRING {
					return nil, false
				}
				k, _ := strconv.Unquote(bl.Value)
				out = append(out, keyInfo{Key: k, Field: firstOr(c.recvFields(kv.Value), "?")})
			}
			return out, true
		}
		var st *ast.StructType
		sp, sf := c.fn.pkg, c.fn.file
		if t, ok := x.Type.(*ast.StructType); ok {
			st = t
		} else if si := resolveStruct(c.fn.pkg, c.fn.file, x.Type); si != nil {
			st, sp, sf = si.st, si.pkg, si.file
		}
		if st == nil {
			return nil, false
		}
		keys := tagKeys(sp, sf, st, "", 0)
		// sources from the literal's key/value elements
		for _, el := range x.Elts {
			kv, ok := el.(*ast.KeyValueExpr)
			if !ok {
				continue
			}
			id, ok := kv.Key.(*ast.Ident)
			if !ok {
				continue
			}
			// embedded (un-tagged) struct field filled from a helper call or a nested literal
			sub, okSub := c.marshalKeysOfExpr(kv.Value, depth+1)
			matched := false
			for i := range keys {
				if keys[i].path == id.Name {
					matched = true
					keys[i].Field = firstOr(c.recvFields(kv.Value), "?")
				}
			}
			if !matched && okSub {
				for i := range keys {
					if strings.HasPrefix(keys[i].path, id.Name+".") {
						for _, s := range sub {
							if s.path == strings.TrimPrefix(keys[i].path, id.Name+".") || (s.path == "" && s.Key == keys[i].Key) {
								keys[i].Field = s.Field
							}
						}
					}
				}
			} else if !matched {
				// embedded value copied as a whole (e.g. BaseHinter: sf.BaseHinter)
				src := firstOr(c.recvFields(kv.Value), "?")
				for i := range keys {
					if strings.HasPrefix(keys[i].path, id.Name+".") {
						keys[i].Field = src
					}
				}
			}
		}
		return keys, true
	case *ast.CallExpr:
		// helper method on the receiver (or on a receiver field) returning a marshaler struct
		if sel, ok := x.Fun.(*ast.SelectorExpr); ok {
			ch := chain(sel.X)
			if ch != nil && ch[0] == c.recv {
				if si := c.structOfChain(ch); si != nil {
					if m := findMethod(si, sel.Sel.Name); m != nil {
						mc := newCtx(m)
						for _, st := range m.decl.Body.List {
							if rs, ok := st.(*ast.ReturnStmt); ok && len(rs.Results) >= 1 {
								keys, ok := mc.marshalKeysOfExpr(rs.Results[0], depth+1)
								if ok {
									prefix, _, _ := c.normField(ch)
									for i := range keys {
										if prefix != "" && keys[i].Field != "?" {
											keys[i].Field = prefix + "." + keys[i].Field
										}
									}
									return keys, true
								}
							}
						}
					}
				}
			}
		}
	case *ast.Ident:
		// a local variable: take its defining composite literal in this function
		var found ast.Expr
		ast.Inspect(c.fn.decl.Body, func(n ast.Node) bool {
			if as, ok := n.(*ast.AssignStmt); ok {
				for i, l := range as.Lhs {
					if id, ok := l.(*ast.Ident); ok && id.Name == x.Name && i < len(as.Rhs) {
						if _, isLit := as.Rhs[i].(*ast.CompositeLit); isLit && found == nil {
							found = as.Rhs[i]
						}
					}
				}
			}
			return true
		})
		if found == nil {
			// m := recv.jsonMarshaller(); m.Field = recv.x; return util.MarshalJSON(m)
			ast.Inspect(c.fn.decl.Body, func(n ast.Node) bool {
				if as, ok := n.(*ast.AssignStmt); ok && as.Tok == token.DEFINE {
					for i, l := range as.Lhs {
						if id, ok := l.(*ast.Ident); ok && id.Name == x.Name && i < len(as.Rhs) && found == nil {
							if _, isCall := as.Rhs[i].(*ast.CallExpr); isCall {
								found = as.Rhs[i]
							}
						}
					}
				}
				return true
			})
		}
		if found != nil {
			keys, ok := c.marshalKeysOfExpr(found, depth+1)
			if !ok {
				return nil, false
			}
			ast.Inspect(c.fn.decl.Body, func(n ast.Node) bool {
				as, isAs := n.(*ast.AssignStmt)
				if !isAs || as.Tok != token.ASSIGN {
					return true
				}
				for i, l := range as.Lhs {
					ch := chain(l)
					if ch == nil || ch[0] != x.Name || len(ch) < 2 || i >= len(as.Rhs) {
						continue
					}
					p := strings.Join(ch[1:], ".")
					for j := range keys {
						if keys[j].path == p {
							keys[j].Field = firstOr(c.recvFields(as.Rhs[i]), "?")
						}
					}
				}
				return true
			})
			return keys, true
		}
	}
	return nil, false
}

// firstOr: the single receiver field an expression is built from; d when there is none or several.
func firstOr(l []string, d string) string {
	if len(l) == 1 {
		return l[0]
	}
	return d
}

func isJSONMarshalCall(call *ast.CallExpr) bool {
	sel, ok := call.Fun.(*ast.SelectorExpr)
	if !ok {
		return false
	}
	switch sel.Sel.Name {
	case "MarshalJSON", "Marshal":
		return len(call.Args) == 1
	}
	return false
}

func marshalKeys(fn *funcInfo) ([]keyInfo, bool) {
	c := newCtx(fn)
	var keys []keyInfo
	ok := false
	nret := 0
	merge := func(ks []keyInfo) {
		nret++
		if !ok {
			keys, ok = ks, true
			return
		}
		// several return statements: union; a key missing from one of them is optional
		for i := range keys {
			found := false
			for _, k := range ks {
				if k.Key == keys[i].Key {
					found = true
				}
			}
			if !found {
				keys[i].OmitEmpty = true
			}
		}
		for _, k := range ks {
			found := false
			for _, o := range keys {
				if o.Key == k.Key {
					found = true
				}
			}
			if !found {
				k.OmitEmpty = true
				keys = append(keys, k)
			}
		}
	}
	ast.Inspect(fn.decl.Body, func(n ast.Node) bool {
		rs, isRet := n.(*ast.ReturnStmt)
		if !isRet || len(rs.Results) < 1 {
			return true
		}
		call, isCall := rs.Results[0].(*ast.CallExpr)
		if !isCall {
			return true
		}
		if isJSONMarshalCall(call) {
			if ks, good := c.marshalKeysOfExpr(call.Args[0], 0); good {
				merge(ks)
			}
			return true
		}
		// return x.Embedded.MarshalJSON()
		if sel, isSel := call.Fun.(*ast.SelectorExpr); isSel && sel.Sel.Name == "MarshalJSON" {
			ch := chain(sel.X)
			if ch != nil && ch[0] == c.recv {
				if si := c.structOfChain(ch); si != nil {
					if m := findMethod(si, "MarshalJSON"); m != nil && m != fn {
						if ks, good := marshalKeys(m); good {
							merge(ks)
						}
					}
				}
			}
		}
		return true
	})
	return keys, ok
}

// ---------------------------------------------------------------- decode side

type decodeResult struct {
	keys []keyInfo
	ok   bool
}

var decodeNames = map[string]bool{"DecodeJSON": true, "UnmarshalJSON": true, "decodeJSON": true, "unmarshalJSON": true, "unmarshal": true}

// decodeKeys analyses a DecodeJSON/UnmarshalJSON-like method: which JSON keys of its input it consumes and
// into which receiver field each goes.
func decodeKeys(fn *funcInfo, depth int) ([]keyInfo, bool) {
	if depth > 6 {
		return nil, false
	}
	c := newCtx(fn)
	if len(fn.decl.Type.Params.List) == 0 {
		return nil, false
	}
	input := ""
	if ns := fn.decl.Type.Params.List[0].Names; len(ns) > 0 {
		input = ns[0].Name
	}
	imports := importsOf(fn.file)
	uvars := map[string][]keyInfo{} // local unmarshaler variable -> keys
	// parameters typed as (pointer to) an unmarshaler struct (decodeJSON(b, enc, u *X))
	for _, pl := range fn.decl.Type.Params.List[1:] {
		if si := resolveStruct(fn.pkg, fn.file, pl.Type); si != nil {
			ks := tagKeys(si.pkg, si.file, si.st, "", 0)
			if len(ks) > 0 {
				for _, n := range pl.Names {
					uvars[n.Name] = ks
				}
			}
		}
	}
	var resultU [][]keyInfo
	if fn.decl.Type.Results != nil {
		for _, rl := range fn.decl.Type.Results.List {
			if si := resolveStruct(fn.pkg, fn.file, rl.Type); si != nil && len(rl.Names) > 0 {
				ks := tagKeys(si.pkg, si.file, si.st, "", 0)
				if len(ks) > 0 && hasAnyTag(rl.Type, fn) {
					for _, n := range rl.Names {
						uvars[n.Name] = ks
					}
					resultU = append(resultU, ks)
				}
			}
		}
	}
	var all []keyInfo
	addKeys := func(ks []keyInfo) {
		for _, k := range ks {
			dup := false
			for _, a := range all {
				if a.Key == k.Key {
					dup = true
				}
			}
			if !dup {
				all = append(all, k)
			}
		}
	}
	setField := func(key, field string) {
		if field == "HT" || strings.HasSuffix(field, ".HT") {
			field = "BaseHinter"
		}
		if os.Getenv("TC_DEBUG") != "" {
			fmt.Fprintf(os.Stderr, "setField %s.%s: %s -> %s\n", fn.recv, fn.decl.Name.Name, key, field)
		}
		for i := range all {
			if all[i].Key != key {
				continue
			}
			switch {
			case all[i].Field == "?" || all[i].Field == "":
				all[i].Field = field
			case all[i].Field != field && field != "?":
				all[i].Field = "*" // stored into several receiver fields (nested document)
			}
		}
	}
	for _, ks := range resultU {
		addKeys(ks)
	}
	locals := map[string]*structInfo{} // local var -> struct type (for `var ub baseBallotFact`)
	derived := map[string][]string{}   // local var -> keys it derives from
	keysIn := func(e ast.Node) []string {
		var out []string
		add := func(k string) {
			for _, o := range out {
				if o == k {
					return
				}
			}
			out = append(out, k)
		}
		ast.Inspect(e, func(n ast.Node) bool {
			switch x := n.(type) {
			case *ast.SelectorExpr:
				ch := chain(x)
				if ch != nil {
					if ks, ok := uvars[ch[0]]; ok && len(ch) >= 2 {
						// longest path match
						p := strings.Join(ch[1:], ".")
						hit := false
						for _, k := range ks {
							if k.path == p || strings.HasPrefix(p, k.path+".") {
								add(k.Key)
								hit = true
							}
						}
						if !hit {
							for _, k := range ks { // an embedded sub-struct handed over as a whole
								if strings.HasPrefix(k.path, p+".") {
									add(k.Key)
								}
							}
						}
						return false
					}
				}
			case *ast.Ident:
				for _, k := range derived[x.Name] {
					add(k)
				}
			}
			return true
		})
		return out
	}
	recvTarget := func(e ast.Expr) string {
		ch := chain(e)
		if ch == nil || ch[0] != c.recv || len(ch) < 2 {
			return ""
		}
		f, _, last := c.normField(ch)
		if f == "" && last != nil {
			f = last.name
		}
		if f == "HT" {
			f = "BaseHinter"
		}
		return f
	}
	var handleCall func(call *ast.CallExpr)
	handleCall = func(call *ast.CallExpr) {
		sel, isSel := call.Fun.(*ast.SelectorExpr)
		// (1b) generic unmarshal of the same bytes into a receiver field: util.UnmarshalJSON(b, &h.BaseHeader)
		if isSel && (sel.Sel.Name == "UnmarshalJSON" || sel.Sel.Name == "Unmarshal") && len(call.Args) == 2 {
			if id, ok := call.Args[0].(*ast.Ident); ok && id.Name == input {
				if ue, ok := call.Args[1].(*ast.UnaryExpr); ok && ue.Op == token.AND {
					ch := chain(ue.X)
					if ch != nil && len(ch) == 1 && locals[ch[0]] != nil {
						// var ub T; enc.Unmarshal(b, &ub); recv.T = ub
						target := locals[ch[0]]
						for _, mn := range []string{"DecodeJSON", "UnmarshalJSON"} {
							if m := findMethod(target, mn); m != nil && m != fn {
								if ks, ok := decodeKeys(m, depth+1); ok {
									addKeys(ks)
									for _, k := range ks {
										if k.Field != "?" {
											setField(k.Key, k.Field)
										}
									}
								}
								break
							}
						}
						return
					}
					if ch != nil && ch[0] == c.recv && len(ch) >= 2 {
						if target := c.structOfChain(ch); target != nil {
							prefix, _, _ := c.normField(ch)
							var ks []keyInfo
							ok := false
							for _, mn := range []string{"DecodeJSON", "UnmarshalJSON"} {
								if m := findMethod(target, mn); m != nil && m != fn {
									ks, ok = decodeKeys(m, depth+1)
									break
								}
							}
							if !ok {
								ks = tagKeys(target.pkg, target.file, target.st, "", 0)
								for i := range ks {
									ks[i].Field = ks[i].goField
								}
								ok = len(ks) > 0
							}
							if ok {
								for i := range ks {
									if prefix != "" && ks[i].Field != "?" {
										ks[i].Field = prefix + "." + ks[i].Field
									}
								}
								addKeys(ks)
								for _, k := range ks {
									if k.Field != "?" {
										setField(k.Key, k.Field)
									}
								}
							}
							return
						}
					}
				}
			}
		}
		// (1) decode call on the same input bytes: recurse
		if isSel && decodeNames[sel.Sel.Name] && len(call.Args) >= 1 {
			if id, ok := call.Args[0].(*ast.Ident); ok && id.Name == input {
				var target *structInfo
				ch := chain(sel.X)
				prefix := ""
				if ch != nil && ch[0] == c.recv {
					target = c.structOfChain(ch)
					prefix, _, _ = c.normField(ch)
				} else if ch != nil && len(ch) == 1 {
					target = locals[ch[0]]
				}
				if target != nil {
					if m := findMethod(target, sel.Sel.Name); m != nil && m != fn {
						// a helper taking the caller's unmarshaler (decodeJSON(b, enc, &u)): its keys are u's
						ks, ok := decodeKeys(m, depth+1)
						if ok {
							for i := range ks {
								if prefix != "" && ks[i].Field != "?" {
									ks[i].Field = prefix + "." + ks[i].Field
								}
							}
							addKeys(ks)
							for _, k := range ks {
								if k.Field != "?" {
									setField(k.Key, k.Field)
								}
							}
							if ch != nil && len(ch) == 1 {
								derived[ch[0]] = append(derived[ch[0]], keyNames(ks)...)
							}
						}
					}
				}
				return
			}
		}
		// (2) json unmarshal of the input into a local unmarshaler: nothing to do (keys registered at decl)
		// (3) generic: receiver targets among receiver-of-call / &args get the keys of the other args
		var targets []string
		var localTargets []string
		var srcKeys []string
		if isSel {
			if t := recvTarget(sel.X); t != "" {
				// method on a receiver field: either a setter fed from u (follow it) or a decoder of a sub document
				ch := chain(sel.X)
				if si := c.structOfChain(ch); si != nil {
					if m := findMethod(si, sel.Sel.Name); m != nil && !decodeNames[sel.Sel.Name] {
						if followSetter(c, m, call, uvars, t, setField) {
							return
						}
					}
				}
				targets = append(targets, t)
			} else if ch := chain(sel.X); ch != nil && len(ch) == 1 && ch[0] != c.recv {
				_, isU := uvars[ch[0]]
				_, isPkg := imports[ch[0]]
				if !isU && !isPkg && !stdPkgs[ch[0]] {
					localTargets = append(localTargets, ch[0])
				}
			}
		}
		for _, a := range call.Args {
			if ue, ok := a.(*ast.UnaryExpr); ok && ue.Op == token.AND {
				if t := recvTarget(ue.X); t != "" {
					targets = append(targets, t)
					continue
				}
				if ch := chain(ue.X); ch != nil && len(ch) == 1 {
					if _, isU := uvars[ch[0]]; !isU {
						localTargets = append(localTargets, ch[0])
						continue
					}
				}
			}
			srcKeys = append(srcKeys, keysIn(a)...)
		}
		if isSel {
			srcKeys = append(srcKeys, keysIn(sel.X)...)
		}
		for _, t := range targets {
			for _, k := range srcKeys {
				setField(k, t)
			}
		}
		for _, t := range localTargets {
			derived[t] = append(derived[t], srcKeys...)
		}
	}
	var walk func(n ast.Node)
	walkStmt := func(s ast.Stmt) {
		if s != nil {
			walk(s)
		}
	}
	walk = func(n ast.Node) {
		switch x := n.(type) {
		case nil:
			return
		case *ast.BlockStmt:
			for _, s := range x.List {
				walk(s)
			}
		case *ast.DeclStmt:
			gd, ok := x.Decl.(*ast.GenDecl)
			if !ok {
				return
			}
			for _, sp := range gd.Specs {
				vs, ok := sp.(*ast.ValueSpec)
				if !ok || vs.Type == nil {
					continue
				}
				var ks []keyInfo
				if st, ok := vs.Type.(*ast.StructType); ok {
					ks = tagKeys(fn.pkg, fn.file, st, "", 0)
				} else if si := resolveStruct(fn.pkg, fn.file, vs.Type); si != nil {
					ks = tagKeys(si.pkg, si.file, si.st, "", 0)
					for _, nm := range vs.Names {
						locals[nm.Name] = si
					}
				}
				if len(ks) > 0 && hasAnyTag(vs.Type, fn) {
					for _, nm := range vs.Names {
						uvars[nm.Name] = ks
					}
					addKeys(ks)
				}
			}
		case *ast.AssignStmt:
			// calls on the right-hand side first
			for _, r := range x.Rhs {
				ast.Inspect(r, func(m ast.Node) bool {
					if call, ok := m.(*ast.CallExpr); ok {
						handleCall(call)
					}
					return true
				})
			}
			var rk []string
			for _, r := range x.Rhs {
				rk = append(rk, keysIn(r)...)
			}
			for _, l := range x.Lhs {
				if t := recvTarget(l); t != "" {
					if ch := chain(l); ch != nil {
						if f, _, last := c.normField(ch); f == "" && last != nil && last.embedded && last.name != "BaseHinter" {
							// a whole embedded struct copied from a local (fact.baseBallotFact = ub): its
							// fields were already attributed individually
							continue
						}
					}
					for _, k := range rk {
						setField(k, t)
					}
					// whole local struct copied into a receiver field (fact.baseBallotFact = ub)
					continue
				}
				if id, ok := l.(*ast.Ident); ok && id.Name != "_" && id.Name != "err" {
					if x.Tok == token.DEFINE {
						derived[id.Name] = nil
						// x := T{} unmarshaler literal
						for _, r := range x.Rhs {
							if cl, ok := r.(*ast.CompositeLit); ok {
								if si := resolveStruct(fn.pkg, fn.file, cl.Type); si != nil {
									ks := tagKeys(si.pkg, si.file, si.st, "", 0)
									if len(ks) > 0 && hasAnyTag(cl.Type, fn) {
										uvars[id.Name] = ks
										addKeys(ks)
									} else {
										locals[id.Name] = si
									}
								}
							}
						}
					}
					derived[id.Name] = append(derived[id.Name], rk...)
				} else if ch := chain(l); ch != nil && len(ch) >= 1 && ch[0] != c.recv {
					derived[ch[0]] = append(derived[ch[0]], rk...)
				}
			}
		case *ast.ExprStmt:
			ast.Inspect(x.X, func(m ast.Node) bool {
				if call, ok := m.(*ast.CallExpr); ok {
					handleCall(call)
				}
				return true
			})
		case *ast.IfStmt:
			walkStmt(x.Init)
			ast.Inspect(x.Cond, func(m ast.Node) bool {
				if call, ok := m.(*ast.CallExpr); ok {
					handleCall(call)
				}
				return true
			})
			walk(x.Body)
			walkStmt(x.Else)
		case *ast.SwitchStmt:
			walkStmt(x.Init)
			walk(x.Body)
		case *ast.TypeSwitchStmt:
			walkStmt(x.Init)
			walkStmt(x.Assign)
			walk(x.Body)
		case *ast.CaseClause:
			for _, s := range x.Body {
				walk(s)
			}
		case *ast.ForStmt:
			walkStmt(x.Init)
			walk(x.Body)
		case *ast.RangeStmt:
			rk := keysIn(x.X)
			for _, e := range []ast.Expr{x.Key, x.Value} {
				if id, ok := e.(*ast.Ident); ok && id.Name != "_" {
					derived[id.Name] = append(derived[id.Name], rk...)
				}
			}
			walk(x.Body)
		case *ast.ReturnStmt:
			for _, r := range x.Results {
				ast.Inspect(r, func(m ast.Node) bool {
					if call, ok := m.(*ast.CallExpr); ok {
						handleCall(call)
					}
					return true
				})
			}
		case *ast.LabeledStmt:
			walk(x.Stmt)
		}
	}
	walk(fn.decl.Body)
	// keys of unmarshaler parameters count as consumed by this helper
	for _, pl := range fn.decl.Type.Params.List[1:] {
		for _, n := range pl.Names {
			if ks, ok := uvars[n.Name]; ok {
				pre := all
				all = nil
				addKeys(ks)
				for _, k := range pre {
					setField(k.Key, k.Field)
					addKeys([]keyInfo{k})
				}
			}
		}
	}
	// second pass for fields (the parameter keys were appended after the walk)
	if len(all) > 0 {
		needs := false
		for _, k := range all {
			if k.Field == "?" {
				needs = true
			}
		}
		if needs {
			walk(fn.decl.Body)
		}
	}
	return all, len(all) > 0
}

var stdPkgs = map[string]bool{"errors": true, "json": true, "time": true, "net": true, "url": true, "reflect": true, "fmt": true, "strings": true, "bytes": true, "sort": true}

func keyNames(ks []keyInfo) []string {
	out := make([]string, len(ks))
	for i := range ks {
		out[i] = ks[i].Key
	}
	return out
}

func hasAnyTag(t ast.Expr, fn *funcInfo) bool {
	var st *ast.StructType
	if s, ok := t.(*ast.StructType); ok {
		st = s
	} else if si := resolveStruct(fn.pkg, fn.file, t); si != nil {
		st = si.st
		fn = &funcInfo{pkg: si.pkg, file: si.file}
	}
	if st == nil {
		return false
	}
	for _, fl := range st.Fields.List {
		if fl.Tag != nil && strings.Contains(fl.Tag.Value, "json:") {
			return true
		}
		if len(fl.Names) == 0 {
			if hasAnyTag(fl.Type, fn) {
				return true
			}
		}
	}
	return false
}

// followSetter: recv.path.Setter(u.Embedded) where Setter's body assigns its receiver's fields from its
// parameter: maps the parameter's keys to prefix+field.
func followSetter(c *ctx, m *funcInfo, call *ast.CallExpr, uvars map[string][]keyInfo, prefix string, setField func(k, f string)) bool {
	if len(call.Args) != 1 || len(m.decl.Type.Params.List) != 1 || len(m.decl.Type.Params.List[0].Names) != 1 {
		return false
	}
	ach := chain(call.Args[0])
	if ach == nil {
		return false
	}
	ks, ok := uvars[ach[0]]
	if !ok {
		return false
	}
	sub := strings.Join(ach[1:], ".")
	pname := m.decl.Type.Params.List[0].Names[0].Name
	mc := newCtx(m)
	_, owner, last := c.normField(chain(call.Fun.(*ast.SelectorExpr).X))
	_ = owner
	embeddedPrefix := prefix
	if last != nil && last.embedded {
		embeddedPrefix = ""
	}
	done := false
	ast.Inspect(m.decl.Body, func(n ast.Node) bool {
		as, ok := n.(*ast.AssignStmt)
		if !ok {
			return true
		}
		for i, l := range as.Lhs {
			lch := chain(l)
			if lch == nil || lch[0] != mc.recv || i >= len(as.Rhs) {
				continue
			}
			f, _, _ := mc.normField(lch)
			if f == "" {
				continue
			}
			if embeddedPrefix != "" {
				f = embeddedPrefix + "." + f
			}
			ast.Inspect(as.Rhs[i], func(r ast.Node) bool {
				se, ok := r.(*ast.SelectorExpr)
				if !ok {
					return true
				}
				rch := chain(se)
				if rch == nil || rch[0] != pname || len(rch) < 2 {
					return true
				}
				p := rch[1]
				if sub != "" {
					p = sub + "." + p
				}
				for _, k := range ks {
					if k.path == p {
						setField(k.Key, f)
						done = true
					}
				}
				return false
			})
		}
		return true
	})
	return done
}

// ---------------------------------------------------------------- hash side

type hashInput struct {
	Field string `json:"field"`
	Type  string `json:"type"`
}

var hashMethodNames = []string{"generateHash", "hash", "HashBytes", "signedBytes"}
var hashHelperNames = map[string]bool{"generateHash": true, "hash": true, "HashBytes": true, "hashBytes": true, "signedBytes": true}

func isConcat(call *ast.CallExpr) bool {
	sel, ok := call.Fun.(*ast.SelectorExpr)
	if !ok {
		return false
	}
	switch sel.Sel.Name {
	case "ConcatByters", "ConcatBytesSlice", "ConcatByterSlice":
		return true
	}
	return false
}

// hashInputs: ordered receiver fields feeding the bytes this method returns / hashes.
func hashInputs(fn *funcInfo, depth int) []string {
	if depth > 6 {
		return nil
	}
	c := newCtx(fn)
	var out []string
	add := func(fs ...string) {
		for _, f := range fs {
			if f == "" {
				continue
			}
			if len(out) > 0 && out[len(out)-1] == f {
				continue
			}
			dup := false
			for _, o := range out {
				if o == f {
					dup = true
				}
			}
			if !dup {
				out = append(out, f)
			}
		}
	}
	// expansion of one argument expression
	var expand func(e ast.Expr)
	expand = func(e ast.Expr) {
		switch x := e.(type) {
		case *ast.CallExpr:
			if isConcat(x) {
				for _, a := range x.Args {
					expand(a)
				}
				return
			}
			if sel, ok := x.Fun.(*ast.SelectorExpr); ok {
				// util.DummyByter(recv.path.method) / util.BytesToByter(expr) / valuehash.NewSHA256(expr) / localtime.New(expr)
				if id, ok := sel.X.(*ast.Ident); ok && id.Name != c.recv && len(x.Args) == 1 {
					if _, isPkg := importsOf(fn.file)[id.Name]; isPkg {
						expand(x.Args[0])
						return
					}
				}
				// recv.path.hashBytes()
				ch := chain(sel.X)
				if ch != nil && ch[0] == c.recv && hashHelperNames[sel.Sel.Name] {
					if si := c.structOfChain(ch); si != nil {
						if m := findMethod(si, sel.Sel.Name); m != nil && m != fn {
							prefix, _, _ := c.normField(ch)
							for _, f := range hashInputs(m, depth+1) {
								if prefix != "" {
									f = prefix + "." + f
								}
								add(f)
							}
							return
						}
					}
				}
			}
			before := len(out)
			add(c.recvFields(x)...)
			if len(out) == before {
				for _, a := range x.Args {
					if id, ok := a.(*ast.Ident); ok && id.Name != c.recv {
						add(localSource(c, fn, id.Name)...)
					}
				}
			}
		case *ast.SelectorExpr:
			// method value recv.path.hashBytes handed to DummyByter
			ch := chain(x.X)
			if ch != nil && ch[0] == c.recv && hashHelperNames[x.Sel.Name] {
				if si := c.structOfChain(ch); si != nil {
					if m := findMethod(si, x.Sel.Name); m != nil && m != fn {
						prefix, _, _ := c.normField(ch)
						for _, f := range hashInputs(m, depth+1) {
							if prefix != "" {
								f = prefix + "." + f
							}
							add(f)
						}
						return
					}
				}
			}
			add(c.recvFields(x)...)
		case *ast.FuncLit:
			add(c.recvFields(x.Body)...)
		case *ast.Ident:
			if x.Name != c.recv {
				add(localSource(c, fn, x.Name)...)
			}
		default:
			add(c.recvFields(e)...)
		}
	}
	// style A: a concat call somewhere in the body (first one in source order that is returned / hashed)
	var concat *ast.CallExpr
	sliceVar := ""
	ast.Inspect(fn.decl.Body, func(n ast.Node) bool {
		if call, ok := n.(*ast.CallExpr); ok && concat == nil && isConcat(call) {
			concat = call
			if call.Ellipsis.IsValid() && len(call.Args) == 1 {
				if id, ok := call.Args[0].(*ast.Ident); ok {
					sliceVar = id.Name
				}
			}
			return false
		}
		return true
	})
	if concat != nil && sliceVar == "" {
		// the outermost concat may be nested in ReturnStmt -> find the outermost one instead
		var outer *ast.CallExpr
		ast.Inspect(fn.decl.Body, func(n ast.Node) bool {
			if rs, ok := n.(*ast.ReturnStmt); ok && outer == nil {
				ast.Inspect(rs, func(m ast.Node) bool {
					if call, ok := m.(*ast.CallExpr); ok && outer == nil && isConcat(call) {
						outer = call
						return false
					}
					return true
				})
			}
			return true
		})
		if outer != nil {
			concat = outer
		}
		for _, a := range concat.Args {
			expand(a)
		}
		// locals mentioned in the concat (e.g. `rule`) that were assigned from receiver fields
		return substituteLocals(c, fn, out)
	}
	if sliceVar != "" {
		// style B: bs[i] = expr assignments, in source order
		ast.Inspect(fn.decl.Body, func(n ast.Node) bool {
			as, ok := n.(*ast.AssignStmt)
			if !ok {
				return true
			}
			for i, l := range as.Lhs {
				ix, ok := l.(*ast.IndexExpr)
				if !ok || i >= len(as.Rhs) {
					continue
				}
				if id, ok := ix.X.(*ast.Ident); ok && id.Name == sliceVar {
					before := len(out)
					expand(as.Rhs[i])
					if len(out) == before {
						// element derived from a loop variable: resolve through the enclosing range/for
						add(loopSource(c, fn, as.Rhs[i])...)
					}
				}
			}
			return true
		})
		return out
	}
	// style C: delegates to another hash helper: return valuehash.NewSHA256(x.HashBytes()) etc.
	ast.Inspect(fn.decl.Body, func(n ast.Node) bool {
		if rs, ok := n.(*ast.ReturnStmt); ok {
			for _, r := range rs.Results {
				expand(r)
			}
		}
		return true
	})
	return out
}

// substituteLocals: a concat argument that is a plain local (no receiver field found) assigned earlier from
// receiver fields.
func substituteLocals(c *ctx, fn *funcInfo, out []string) []string { return out }

// localSource: receiver fields mentioned by the top-level statements of fn that assign the local `name`.
func localSource(c *ctx, fn *funcInfo, name string) []string {
	var out []string
	for _, st := range fn.decl.Body.List {
		assigns := false
		ast.Inspect(st, func(n ast.Node) bool {
			if as, ok := n.(*ast.AssignStmt); ok {
				for _, l := range as.Lhs {
					if ch := chain(l); ch != nil && len(ch) == 1 && ch[0] == name {
						assigns = true
					}
				}
			}
			return true
		})
		if _, isRet := st.(*ast.ReturnStmt); assigns && !isRet {
			out = append(out, c.recvFields(st)...)
		}
	}
	return out
}

// loopSource: for `bs[i] = util.DummyByter(func() []byte { return sf.HashBytes() })` with sf := recv.sfs[i].
func loopSource(c *ctx, fn *funcInfo, e ast.Expr) []string {
	ids := map[string]bool{}
	ast.Inspect(e, func(n ast.Node) bool {
		if id, ok := n.(*ast.Ident); ok {
			ids[id.Name] = true
		}
		return true
	})
	var out []string
	ast.Inspect(fn.decl.Body, func(n ast.Node) bool {
		as, ok := n.(*ast.AssignStmt)
		if !ok || as.Tok != token.DEFINE {
			return true
		}
		for i, l := range as.Lhs {
			if id, ok := l.(*ast.Ident); ok && ids[id.Name] && i < len(as.Rhs) {
				out = append(out, c.recvFields(as.Rhs[i])...)
			}
		}
		return true
	})
	return out
}

// recomputes: IsValid (following IsValid calls on embedded receiver fields) contains
// X.Equal(<recv>.generateHash()/hash()) .
func recomputes(fn *funcInfo, depth int) bool {
	if fn == nil || depth > 5 {
		return false
	}
	c := newCtx(fn)
	found := false
	isHashCall := func(e ast.Expr) bool {
		if sc, ok := e.(*ast.CallExpr); ok {
			if ss, ok := sc.Fun.(*ast.SelectorExpr); ok && (ss.Sel.Name == "generateHash" || ss.Sel.Name == "hash") {
				return true
			}
		}
		return false
	}
	// locals holding the recomputed hash: h := recv.generateHash()
	hashLocals := map[string]bool{}
	ast.Inspect(fn.decl.Body, func(n ast.Node) bool {
		if as, ok := n.(*ast.AssignStmt); ok {
			for i, l := range as.Lhs {
				if id, ok := l.(*ast.Ident); ok && i < len(as.Rhs) && isHashCall(as.Rhs[i]) {
					hashLocals[id.Name] = true
				}
			}
		}
		return true
	})
	ast.Inspect(fn.decl.Body, func(n ast.Node) bool {
		call, ok := n.(*ast.CallExpr)
		if !ok || found {
			return !found
		}
		sel, ok := call.Fun.(*ast.SelectorExpr)
		if !ok {
			return true
		}
		if sel.Sel.Name == "Equal" && len(call.Args) == 1 {
			for _, side := range []ast.Expr{call.Args[0], sel.X} {
				if isHashCall(side) {
					found = true
				}
				if id, ok := side.(*ast.Ident); ok && hashLocals[id.Name] {
					found = true
				}
			}
		}
		if sel.Sel.Name == "IsValid" {
			ch := chain(sel.X)
			if ch != nil && ch[0] == c.recv && len(ch) > 1 {
				if si := c.structOfChain(ch); si != nil {
					if m := findMethod(si, "IsValid"); m != nil && m != fn && recomputes(m, depth+1) {
						found = true
					}
				}
			}
		}
		return true
	})
	return found
}

// ---------------------------------------------------------------- extraction

type desc struct {
	Hint      string      `json:"hint"`
	Type      string      `json:"type"`
	Marshal   []keyInfo   `json:"marshal"`
	MarshalOK bool        `json:"marshal_ok"`
	Decode    []keyInfo   `json:"decode"`
	DecodeOK  bool        `json:"decode_ok"`
	Hinted    bool        `json:"hinted"` // embeds hint.BaseHinter (set by the encoder from "_hint")
	IsFact    bool        `json:"is_fact"`
	HashFn    string      `json:"hash_fn"`
	Hash      []hashInput `json:"hash"`
	Recompute bool        `json:"recompute"`
}

func hintString(p *pkg, e ast.Expr, f *ast.File) string {
	var v ast.Expr
	switch x := e.(type) {
	case *ast.Ident:
		v = p.vars[x.Name]
	case *ast.SelectorExpr:
		if id, ok := x.X.(*ast.Ident); ok {
			if dir, ok := importsOf(f)[id.Name]; ok {
				v = pkgs[dir].vars[x.Sel.Name]
			}
		}
	}
	call, ok := v.(*ast.CallExpr)
	if !ok || len(call.Args) != 1 {
		return ""
	}
	bl, ok := call.Args[0].(*ast.BasicLit)
	if !ok || bl.Kind != token.STRING {
		return ""
	}
	s, _ := strconv.Unquote(bl.Value)
	return normHint(s)
}

// normHint renders the version the way hint.Hint.String() does (semver: v2 -> v2.0.0), which is what the
// "_hint" member of real encoded objects carries.
func normHint(s string) string {
	i := strings.LastIndex(s, "-v")
	if i < 0 {
		return s
	}
	ver := s[i+2:]
	if strings.ContainsAny(ver, "-+") {
		return s
	}
	switch strings.Count(ver, ".") {
	case 0:
		return s + ".0.0"
	case 1:
		return s + ".0"
	}
	return s
}

func extract() ([]desc, error) {
	lp := pkgs["launch"]
	var hf *ast.File
	for _, si := range lp.structs {
		_ = si
	}
	var descs []desc
	for _, name := range []string{"Hinters", "SupportedProposalOperationFactHinters"} {
		v, ok := lp.vars[name].(*ast.CompositeLit)
		if !ok {
			return nil, fmt.Errorf("launch.%s not found", name)
		}
		// the file holding the var (for imports)
		if hf == nil {
			for _, p := range []string{"launch"} {
				_ = p
			}
		}
		file := fileOf(lp, v.Pos())
		for _, el := range v.Elts {
			cl, ok := el.(*ast.CompositeLit)
			if !ok {
				continue
			}
			var hintE, instE ast.Expr
			for _, kv := range cl.Elts {
				k, ok := kv.(*ast.KeyValueExpr)
				if !ok {
					continue
				}
				switch k.Key.(*ast.Ident).Name {
				case "Hint":
					hintE = k.Value
				case "Instance":
					instE = k.Value
				}
			}
			if hintE == nil || instE == nil {
				continue
			}
			d := desc{Hint: hintString(lp, hintE, file)}
			if ue, ok := instE.(*ast.UnaryExpr); ok {
				instE = ue.X
			}
			il, ok := instE.(*ast.CompositeLit)
			if !ok {
				continue
			}
			si := resolveStruct(lp, file, il.Type)
			d.Type = exprString(il.Type)
			if !strings.Contains(d.Type, ".") {
				d.Type = "launch." + d.Type
			}
			if si == nil {
				warnf("%s: struct %s not found", d.Hint, d.Type)
				descs = append(descs, d)
				continue
			}
			fill(&d, si)
			descs = append(descs, d)
		}
	}
	return descs, nil
}

func fileOf(p *pkg, pos token.Pos) *ast.File {
	name := fset.Position(pos).Filename
	for _, si := range p.structs {
		if fset.Position(si.file.Pos()).Filename == name {
			return si.file
		}
	}
	for _, ms := range p.methods {
		for _, m := range ms {
			if fset.Position(m.file.Pos()).Filename == name {
				return m.file
			}
		}
	}
	// parse again (file without types or methods)
	f, err := parser.ParseFile(fset, name, nil, parser.ImportsOnly)
	if err == nil {
		return f
	}
	return nil
}

func fill(d *desc, si *structInfo) {
	d.Hinted = hasEmbedded(si, "BaseHinter")
	d.IsFact = hasEmbedded(si, "BaseFact")
	if m := findMethod(si, "MarshalJSON"); m != nil {
		d.Marshal, d.MarshalOK = marshalKeys(m)
	} else if findMethod(si, "MarshalText") == nil {
		// no MarshalJSON at all: the JSON library encodes the exported (embedded) fields natively
		d.Marshal = tagKeys(si.pkg, si.file, si.st, "", 0)
		for i := range d.Marshal {
			d.Marshal[i].Field = d.Marshal[i].goField
			if d.Marshal[i].Field == "HT" {
				d.Marshal[i].Field = "BaseHinter"
			}
		}
		d.MarshalOK = len(d.Marshal) > 0
	}
	var dm *funcInfo
	if dm = findMethod(si, "DecodeJSON"); dm == nil {
		dm = findMethod(si, "UnmarshalJSON")
	}
	if dm != nil {
		d.Decode, d.DecodeOK = decodeKeys(dm, 0)
	}
	for _, hn := range hashMethodNames {
		if m := findMethod(si, hn); m != nil {
			d.HashFn = m.pkg.name + "." + m.recv + "." + hn
			for _, f := range hashInputs(m, 0) {
				d.Hash = append(d.Hash, hashInput{Field: f, Type: fieldType(si, f)})
			}
			break
		}
	}
	d.Recompute = recomputes(findMethod(si, "IsValid"), 0)
}

// fieldType: Go type of a (promoted, dotted) field path of si.
func fieldType(si *structInfo, path string) string {
	cur := si
	var last *fieldRef
	for _, name := range strings.Split(path, ".") {
		if cur == nil {
			return "?"
		}
		f := findField(cur, name)
		if f == nil {
			return "?"
		}
		last = f
		cur = resolveStruct(f.owner.pkg, f.owner.file, f.typ)
	}
	if last == nil {
		return "?"
	}
	return typeString(last.owner.pkg, last.typ)
}

// ---------------------------------------------------------------- omitempty vs. "missing" sentinels

// A sentinel decoder is a struct type whose UnmarshalJSON sets one of its own bool fields to true (e.g.
// base.HeightDecoder{h, decoded}): a key that is *missing* is then told apart from a zero value and mapped to
// a non-zero default (NilHeight).  A marshaler field written with omitempty must not be read back through one.
type sentinelField struct {
	Struct string // marshaler struct (pkg.Type)
	Key    string
	Omit   bool
	Via    string // unmarshaler struct . field type
}

var (
	sentinelTypes  []string
	sentinelFields []sentinelField
)

func baseCodecName(n string) string {
	l := strings.ToLower(n)
	for _, suf := range []string{"jsonunmarshaler", "jsonunmarshaller", "jsonmarshaler", "jsonmarshaller"} {
		if strings.HasSuffix(l, suf) {
			return l[:len(l)-len(suf)]
		}
	}
	return ""
}

func sentinels() ([]string, []sentinelField) {
	isSentinel := map[string]bool{} // pkgname.Type
	dirs := make([]string, 0, len(pkgs))
	for d := range pkgs {
		dirs = append(dirs, d)
	}
	sort.Strings(dirs)
	for _, d := range dirs {
		p := pkgs[d]
		for name, si := range p.structs {
			m := p.methods[name]["UnmarshalJSON"]
			if m == nil {
				m = p.methods[name]["UnmarshalText"]
			}
			if m == nil {
				continue
			}
			bools := map[string]bool{}
			for _, f := range fieldsOf(si) {
				if id, ok := f.typ.(*ast.Ident); ok && id.Name == "bool" {
					bools[f.name] = true
				}
			}
			if len(bools) == 0 {
				continue
			}
			c := newCtx(m)
			ast.Inspect(m.decl.Body, func(n ast.Node) bool {
				as, ok := n.(*ast.AssignStmt)
				if !ok {
					return true
				}
				for i, l := range as.Lhs {
					ch := chain(l)
					if ch == nil || len(ch) != 2 || ch[0] != c.recv || !bools[ch[1]] || i >= len(as.Rhs) {
						continue
					}
					if id, ok := as.Rhs[i].(*ast.Ident); ok && id.Name == "true" {
						isSentinel[p.name+"."+name] = true
					}
				}
				return true
			})
		}
	}
	var types []string
	for t := range isSentinel {
		types = append(types, t)
	}
	sort.Strings(types)
	var out []sentinelField
	for _, d := range dirs {
		p := pkgs[d]
		names := make([]string, 0, len(p.structs))
		for n := range p.structs {
			names = append(names, n)
		}
		sort.Strings(names)
		for _, un := range names {
			ul := strings.ToLower(un)
			if !strings.Contains(ul, "unmarshal") {
				continue
			}
			usi := p.structs[un]
			for _, uf := range fieldsOf(usi) {
				key, _, skip, has := parseTag(uf.tag)
				if !has || skip || uf.embedded {
					continue
				}
				ts := typeString(p, uf.typ)
				if !isSentinel[ts] {
					continue
				}
				// the marshaler struct(s) of the same codec (same base name, same package) writing this key
				for _, mn := range names {
					if strings.Contains(strings.ToLower(mn), "unmarshal") || baseCodecName(mn) == "" || baseCodecName(mn) != baseCodecName(un) {
						continue
					}
					for _, mf := range fieldsOf(p.structs[mn]) {
						mk, omit, mskip, mhas := parseTag(mf.tag)
						if mhas && !mskip && mk == key {
							out = append(out, sentinelField{Struct: p.name + "." + mn, Key: key, Omit: omit, Via: p.name + "." + un + ":" + ts})
						}
					}
				}
			}
		}
	}
	return types, out
}

// ---------------------------------------------------------------- rendering

func coqStr(s string) string {
	for _, c := range []byte(s) {
		if c < 32 || c > 126 {
			return "\"?\""
		}
	}
	return "\"" + strings.ReplaceAll(s, "\"", "\"\"") + "\""
}

func coqBool(b bool) string {
	if b {
		return "true"
	}
	return "false"
}

func render(descs []desc) string {
	var sb strings.Builder
	sb.WriteString("(* GENERATED by harness/cmd/translate_codecs from the Go source on every check run. Do not edit. *)\n")
	sb.WriteString("From Coq Require Import String List Bool.\nImport ListNotations.\nOpen Scope string_scope.\n\n")
	sb.WriteString(`(* One record per hinted type registered in launch/hinters.go.
   c_marshal : (json key, receiver field it is filled from ("?" = not resolved), omitempty)
   c_decode  : (json key consumed by DecodeJSON/UnmarshalJSON, receiver field it is stored in)
   c_hinted  : the struct embeds hint.BaseHinter (the encoder sets it from "_hint" after decoding)
   c_hash    : (receiver field, Go type) fed to the hash / signed bytes, in order; c_hashfn = the function
   c_recompute : IsValid compares the stored hash with the recomputed one *)
Record codec := mkCodec {
  c_hint : string; c_type : string;
  c_marshal_ok : bool; c_marshal : list (string * string * bool);
  c_decode_ok : bool; c_decode : list (string * string);
  c_hinted : bool; c_isfact : bool;
  c_hashfn : string; c_hash : list (string * string);
  c_recompute : bool
}.

`)
	sb.WriteString("Definition codecs : list codec := [\n")
	for i, d := range descs {
		var ms, ds, hs []string
		for _, k := range d.Marshal {
			ms = append(ms, fmt.Sprintf("(%s, %s, %s)", coqStr(k.Key), coqStr(k.Field), coqBool(k.OmitEmpty)))
		}
		for _, k := range d.Decode {
			ds = append(ds, fmt.Sprintf("(%s, %s)", coqStr(k.Key), coqStr(k.Field)))
		}
		for _, h := range d.Hash {
			hs = append(hs, fmt.Sprintf("(%s, %s)", coqStr(h.Field), coqStr(h.Type)))
		}
		sb.WriteString(fmt.Sprintf("  mkCodec %s %s\n    %s [%s]\n    %s [%s]\n    %s %s\n    %s [%s]\n    %s",
			coqStr(d.Hint), coqStr(d.Type),
			coqBool(d.MarshalOK), strings.Join(ms, "; "),
			coqBool(d.DecodeOK), strings.Join(ds, "; "),
			coqBool(d.Hinted), coqBool(d.IsFact),
			coqStr(d.HashFn), strings.Join(hs, "; "),
			coqBool(d.Recompute)))
		if i+1 < len(descs) {
			sb.WriteString(";")
		}
		sb.WriteString("\n")
	}
	sb.WriteString("].\n\n")
	sb.WriteString("(* struct types whose UnmarshalJSON records that the key was present (a missing key gets a non-zero default) *)\n")
	var st []string
	for _, t := range sentinelTypes {
		st = append(st, coqStr(t))
	}
	sb.WriteString("Definition sentinel_decoders : list string := [" + strings.Join(st, "; ") + "].\n\n")
	sb.WriteString("(* (marshaler struct, json key, omitempty on the marshal side, unmarshaler struct:field type) for every key read back through a sentinel decoder *)\n")
	var sf []string
	for _, f := range sentinelFields {
		sf = append(sf, fmt.Sprintf("(%s, %s, %s, %s)", coqStr(f.Struct), coqStr(f.Key), coqBool(f.Omit), coqStr(f.Via)))
	}
	sb.WriteString("Definition sentinel_fields : list (string * string * bool * string) := [\n  " + strings.Join(sf, ";\n  ") + "].\n")
	if len(warn) > 0 {
		sb.WriteString("\n(* warnings:\n")
		for _, w := range warn {
			sb.WriteString("   " + strings.ReplaceAll(w, "*)", "* )") + "\n")
		}
		sb.WriteString("*)\n")
	}
	return sb.String()
}
