// c23: expel-operation pool lookups of the real isaacdatabase.TempPool against (a) the property's own statement
// (oracle over a plain Go map) and (b) the Coq model (cases_NNN.v).
package main

import (
	"context"
	"encoding/hex"
	"fmt"
	"sort"

	"github.com/spikeekips/mitum/base"
	"github.com/spikeekips/mitum/isaac"
	isaacdatabase "github.com/spikeekips/mitum/isaac/database"
	"verifharness/poolh"
	"verifharness/vh"
)

const nNodes = 5 // lookups also use node index nNodes (never stored)

type jop struct {
	Kind  string   `json:"kind"` // set | remfact | remheight | traverse | lookup
	Opid  int      `json:"opid,omitempty"`
	Node  int      `json:"node,omitempty"`
	Start int64    `json:"start,omitempty"`
	End   int64    `json:"end,omitempty"`
	H     int64    `json:"h,omitempty"`
	K     int      `json:"k,omitempty"`
	Facts [][3]int `json:"facts,omitempty"` // (node,start,end) for remfact
}

type factKey struct {
	node       int
	start, end int64
}

type probe struct {
	h    int64
	node int
}

type runner struct {
	probes []probe // (height, node) lookups repeated, identically, after every mutating operation
	pool   *isaacdatabase.TempPool
	seed   uint64
	netID  base.NetworkID
	nextOp int
	opids  map[string]int // operation hash -> opid
	spec   map[factKey]int
	terms  []string
	res    *vh.Result
	hist   []jop
	failed bool
}

func newRunner(seed uint64, res *vh.Result) *runner {
	p, _ := poolh.NewPool()
	return &runner{pool: p, seed: seed, netID: base.NetworkID("verif-c23"), opids: map[string]int{}, spec: map[factKey]int{}, res: res}
}

func (r *runner) fail(class, desc string) {
	if r.failed {
		return
	}
	r.failed = true
	h := make([]jop, len(r.hist))
	copy(h, r.hist)
	r.res.Fail(class, desc, h)
}

func covers(k factKey, h int64) bool { return k.start <= h && h <= k.end }

func (r *runner) fact(k factKey) isaac.SuffrageExpelFact {
	return isaac.NewSuffrageExpelFact(poolh.Addr(k.node), base.Height(k.start), base.Height(k.end), "verif")
}

func (r *runner) set(k factKey, signer int) {
	fact := r.fact(k)
	op := isaac.NewSuffrageExpelOperation(fact)
	if err := op.NodeSign(poolh.Key(r.seed, signer), r.netID, poolh.Addr(100+signer)); err != nil {
		panic(err)
	}
	id := r.nextOp
	r.nextOp++
	r.opids[op.Hash().String()] = id
	r.hist = append(r.hist, jop{Kind: "set", Opid: id, Node: k.node, Start: k.start, End: k.end})
	if err := r.pool.SetSuffrageExpelOperation(op); err != nil {
		r.fail("set-error", err.Error())
	}
	r.spec[k] = id
	r.terms = append(r.terms, fmt.Sprintf("Do (OSet (mkRec %s \"%s\" %s %s %s))",
		vh.Z(k.end), hex.EncodeToString(fact.Hash().Bytes()), vh.N(uint64(k.node)), vh.Z(k.start), vh.N(uint64(id))))
}

func (r *runner) remFact(ks []factKey) {
	facts := make([]base.SuffrageExpelFact, len(ks))
	items := make([]string, len(ks))
	j := jop{Kind: "remfact"}
	for i, k := range ks {
		f := r.fact(k)
		facts[i] = f
		items[i] = fmt.Sprintf("(%s, \"%s\")", vh.Z(k.end), hex.EncodeToString(f.Hash().Bytes()))
		j.Facts = append(j.Facts, [3]int{k.node, int(k.start), int(k.end)})
		delete(r.spec, k)
	}
	r.hist = append(r.hist, j)
	if err := r.pool.RemoveSuffrageExpelOperationsByFact(facts); err != nil {
		r.fail("remove-by-fact-error", err.Error())
	}
	r.terms = append(r.terms, "Do (ORemFact "+vh.List(items)+")")
}

func (r *runner) remHeight(h int64) {
	r.hist = append(r.hist, jop{Kind: "remheight", H: h})
	if err := r.pool.RemoveSuffrageExpelOperationsByHeight(base.Height(h)); err != nil {
		r.fail("remove-by-height-error", err.Error())
	}
	for k := range r.spec {
		if k.end <= h {
			delete(r.spec, k)
		}
	}
	r.terms = append(r.terms, "Do (ORemHeight "+vh.Z(h)+")")
}

// traverse with a callback that stops at its k-th call (k = 0: never)
func (r *runner) traverse(h int64, k int, class string) {
	var visited []int
	unknown := 0
	calls := 0
	err := r.pool.TraverseSuffrageExpelOperations(context.Background(), base.Height(h), func(op base.SuffrageExpelOperation) (bool, error) {
		calls++
		id, ok := r.opids[op.Hash().String()]
		if !ok {
			unknown++
		}
		visited = append(visited, id)
		return calls != k, nil
	})
	r.hist = append(r.hist, jop{Kind: "traverse", H: h, K: k})
	if err != nil {
		r.fail("traverse-error", err.Error())
	}
	sort.Ints(visited)
	var want []int
	for fk, id := range r.spec {
		if covers(fk, h) {
			want = append(want, id)
		}
	}
	sort.Ints(want)
	// oracle: exactly the covering operations (k = 0); k > 0: min(k, #covering) distinct covering operations
	ok := unknown == 0
	if k == 0 {
		ok = ok && fmt.Sprint(visited) == fmt.Sprint(want)
	} else {
		n := len(want)
		if k < n {
			n = k
		}
		ok = ok && len(visited) == n
		ws := map[int]bool{}
		for _, w := range want {
			ws[w] = true
		}
		for i, v := range visited {
			ok = ok && ws[v] && (i == 0 || visited[i-1] != v)
		}
	}
	if !ok {
		r.fail(class, fmt.Sprintf("traverse(height=%d, stop at call %d) visited ops %v, covering ops stored %v", h, k, visited, want))
	}
	vs := make([]string, len(visited))
	for i, v := range visited {
		vs[i] = vh.N(uint64(v))
	}
	r.terms = append(r.terms, fmt.Sprintf("AskTraverse %s %s %s", vh.Z(h), vh.Nat(k), vh.List(vs)))
	r.res.Count("", false)
}

func (r *runner) lookup(h int64, node int) {
	op, found, err := r.pool.SuffrageExpelOperation(base.Height(h), poolh.Addr(node))
	r.hist = append(r.hist, jop{Kind: "lookup", H: h, Node: node})
	if err != nil {
		r.fail("lookup-error", err.Error())
	}
	want := map[int]bool{}
	for fk, id := range r.spec {
		if fk.node == node && covers(fk, h) {
			want[id] = true
		}
	}
	got := "None"
	switch {
	case !found:
		if len(want) > 0 {
			r.fail("lookup-missed", fmt.Sprintf("lookup(height=%d, node=%d) found nothing, covering ops stored %v", h, node, want))
		}
	default:
		id, ok := r.opids[op.Hash().String()]
		if !ok || !want[id] {
			r.fail("lookup-wrong", fmt.Sprintf("lookup(height=%d, node=%d) returned op %d (known=%v), covering ops stored %v", h, node, id, ok, want))
		}
		got = vh.Some(vh.N(uint64(id)))
	}
	r.terms = append(r.terms, fmt.Sprintf("AskLookup %s %s %s", vh.Z(h), vh.N(uint64(node)), got))
	r.res.Count("", false)
}

// reprobe repeats the very same lookups (and the traversal at their heights) on the same pool object: an answer
// given before a mutation must not survive it (stale caches), and lookup and traversal must agree
func (r *runner) reprobe() {
	for _, p := range r.probes {
		r.lookup(p.h, p.node)
		r.lookup(p.h, p.node)
		r.traverse(p.h, 0, "traverse-not-exact")
	}
}

// survivors: the union of complete traversals over every height of the generated range
func (r *runner) sweep(lo, hi int64, class string) {
	for h := lo; h <= hi; h++ {
		r.traverse(h, 0, class)
	}
}

func (r *runner) finish(cases *vh.Cases, label string) {
	cases.Add(vh.List(r.terms), map[string]any{"label": label, "history": r.hist})
	_ = r.pool.Close()
}

const (
	minH = 0
	maxH = 30
)

func randKey(rd *vh.Rand) factKey {
	k := factKey{node: rd.Intn(nNodes)}
	switch rd.Intn(10) {
	case 0: // single height
		k.start = int64(rd.Range(1, maxH-1))
		k.end = k.start
	case 1: // empty range (start > end): covers nothing, still removable by height
		k.end = int64(rd.Range(1, maxH-2))
		k.start = k.end + int64(rd.Range(1, 3))
	case 2: // starts at / below genesis
		k.start = int64(rd.Range(-1, 1))
		k.end = int64(rd.Range(1, maxH-1))
	default:
		a, b := int64(rd.Range(1, maxH-1)), int64(rd.Range(1, maxH-1))
		if a > b {
			a, b = b, a
		}
		k.start, k.end = a, b
	}
	return k
}

func generated(rd *vh.Rand, seed uint64, res *vh.Result, cases *vh.Cases, full bool) {
	r := newRunner(seed, res)
	n := rd.Range(1, 12)
	var keys []factKey
	nontrivial := false
	for i := 0; i < n; i++ {
		switch c := rd.Intn(20); {
		case c < 14 || len(keys) == 0:
			var k factKey
			if len(keys) > 0 && rd.Chance(1, 6) { // same fact again, signed by another node: Put overwrites
				k = keys[rd.Intn(len(keys))]
				res.Dist("set_same_fact_again")
			} else {
				k = randKey(rd)
			}
			keys = append(keys, k)
			r.set(k, rd.Intn(4))
			res.Dist("op_set")
			if len(r.probes) < 4 && k.start <= k.end && rd.Chance(1, 2) { // a lookup that is answered positively now
				r.probes = append(r.probes, probe{h: k.start + int64(rd.Intn(int(k.end-k.start)+1)), node: k.node})
			}
		case c < 16:
			m := rd.Range(1, 3)
			var ks []factKey
			for j := 0; j < m; j++ {
				if rd.Chance(1, 4) {
					ks = append(ks, randKey(rd)) // mostly unknown
				} else {
					ks = append(ks, keys[rd.Intn(len(keys))])
				}
			}
			r.remFact(ks)
			res.Dist("op_remove_by_fact")
		default:
			h := int64(rd.Range(minH, maxH))
			before := len(r.spec)
			r.remHeight(h)
			res.Dist("op_remove_by_height")
			if full || rd.Chance(1, 3) {
				r.sweep(minH-1, maxH+1, "remove-by-height-not-exact")
			}
			if len(r.spec) != before && len(r.spec) > 0 {
				nontrivial = true
			}
		}
		r.reprobe()
		if rd.Chance(1, 8) { // checkpoint
			h := int64(rd.Range(minH, maxH))
			r.traverse(h, 0, "traverse-not-exact")
			r.lookup(h, rd.Intn(nNodes+1))
		}
	}
	// is there a height with a covering and a non-covering live record? (the case the in-tree tests never use)
	for h := int64(minH); h <= maxH; h++ {
		c, nc := 0, 0
		for k := range r.spec {
			if covers(k, h) {
				c++
			} else if k.start > h {
				nc++
			}
		}
		if c > 0 && nc > 0 {
			nontrivial = true
		}
	}
	r.sweep(minH-1, maxH+1, "traverse-not-exact")
	for i := 0; i < 4; i++ {
		r.traverse(int64(rd.Range(minH, maxH)), rd.Range(1, 4), "traverse-stop-not-honoured")
	}
	hs := []int64{}
	if full {
		for h := int64(minH - 1); h <= maxH+1; h++ {
			hs = append(hs, h)
		}
	} else {
		for i := 0; i < 8; i++ {
			hs = append(hs, int64(rd.Range(minH-1, maxH+1)))
		}
	}
	for _, h := range hs {
		for nd := 0; nd <= nNodes; nd++ {
			r.lookup(h, nd)
		}
	}
	res.Dist(fmt.Sprintf("live_records_at_end_%02d", len(r.spec)))
	if len(res.Samples) < 3 {
		res.Sample(map[string]any{"history_prefix": r.hist[:min(len(r.hist), 6)], "live_at_end": len(r.spec)})
	}
	res.Count(fmt.Sprint(r.hist), nontrivial)
	r.finish(cases, "generated")
}

func corpus(seed uint64, res *vh.Result, cases *vh.Cases) {
	// DESIGN 5.4 witness: two covering operations and one live record that starts above the query height and
	// sorts first (larger end): the unfixed code visited 0 of 2.
	r := newRunner(seed, res)
	r.set(factKey{0, 1, 10}, 0)
	r.set(factKey{1, 2, 10}, 1)
	r.set(factKey{2, 20, 30}, 2)
	r.traverse(5, 0, "traverse-not-exact")
	r.lookup(5, 0)
	r.lookup(5, 1)
	r.lookup(5, 2)
	r.lookup(25, 2)
	r.sweep(minH-1, 32, "traverse-not-exact")
	res.Count("corpus-traverse", true)
	r.finish(cases, "corpus: later-starting record sorts first")

	// lookup: the node's other (non-covering, later) operation sorts first
	r = newRunner(seed, res)
	r.set(factKey{0, 20, 30}, 0)
	r.set(factKey{0, 1, 10}, 1)
	r.set(factKey{0, 12, 12}, 1)
	for h := int64(0); h <= 31; h++ {
		r.lookup(h, 0)
	}
	res.Count("corpus-lookup", true)
	r.finish(cases, "corpus: same node, later operation sorts first")

	// remove by height: boundary end == height is removed, end == height+1 stays
	r = newRunner(seed, res)
	r.set(factKey{0, 3, 7}, 0)
	r.set(factKey{1, 3, 8}, 0)
	r.set(factKey{2, 3, 6}, 0)
	r.set(factKey{3, 9, 8}, 0) // empty range, end 8
	r.remHeight(7)
	r.sweep(minH-1, 12, "remove-by-height-not-exact")
	r.remHeight(7)
	r.remHeight(8)
	r.sweep(minH-1, 12, "remove-by-height-not-exact")
	res.Count("corpus-remove", true)
	r.finish(cases, "corpus: remove-by-height boundary")

	// one pool object: positive lookup, remove by height with nothing else in between, the same lookup again
	r = newRunner(seed, res)
	r.set(factKey{0, 3, 7}, 0)
	r.set(factKey{1, 3, 9}, 1)
	r.probes = []probe{{5, 0}, {5, 1}, {7, 0}}
	r.reprobe()
	r.remHeight(7)
	r.reprobe()
	r.remHeight(7)
	r.reprobe()
	r.remHeight(9)
	r.reprobe()
	r.set(factKey{0, 3, 7}, 2)
	r.reprobe()
	r.remFact([]factKey{{0, 3, 7}})
	r.reprobe()
	res.Count("corpus-repeat-lookup", true)
	r.finish(cases, "corpus: same lookup before and after remove-by-height on one pool")

	// same fact stored twice (re-signed): the later operation is the one stored; removal by fact
	r = newRunner(seed, res)
	r.set(factKey{0, 3, 7}, 0)
	r.set(factKey{0, 3, 7}, 1)
	r.set(factKey{1, 3, 7}, 1)
	r.traverse(4, 0, "traverse-not-exact")
	r.lookup(4, 0)
	r.remFact([]factKey{{0, 3, 7}, {4, 1, 2}})
	r.traverse(4, 0, "traverse-not-exact")
	r.lookup(4, 0)
	r.lookup(4, 1)
	res.Count("corpus-overwrite", true)
	r.finish(cases, "corpus: same fact re-signed, remove by fact")
}

func main() {
	o := vh.ParseFlags()
	res := vh.NewResult("one evaluation = one pool query (traverse at a height / lookup of (height,node)) checked against the plain-map statement of the property; distinct_nontrivial counts distinct generated histories in which some height has both a covering and a later-starting live record, or a remove-by-height removed some but not all records")
	cases := &vh.Cases{Import: "From MV Require Import C23.Model.", Type: "list item", CheckFn: "check", Shard: 60}
	corpus(o.Seed, res, cases)
	rd := vh.NewRand(o.Seed)
	n := o.Pick(300, 6000)
	for i := 0; i < n; i++ {
		generated(rd, o.Seed, res, cases, i%10 == 0)
	}
	res.ModelCases = cases.Len()
	if err := cases.Write(o.Out); err != nil {
		panic(err)
	}
	res.Write(o.Out)
}
