// c28 (dev)
package main

import (
	"fmt"
	"sort"

	"verifharness/cmd/c27/gen"
	"verifharness/vh"
)

func main() {
	o := vh.ParseFlags()
	r := vh.NewRand(o.Seed)
	w := gen.NewWorld(r)
	hints := gen.AllHints()
	und := map[string]int{}
	tot := map[string]int{}
	total, dec := 0, 0
	for round := 0; round < o.Pick(1, 5); round++ {
		objs := w.All()
		// donors by unit kind+hint
		donors := map[string][]any{}
		type doc struct {
			ob   gen.Obj
			root any
		}
		var docs []doc
		for _, ob := range objs {
			if !ob.Signed {
				continue
			}
			b, err := w.Enc.Marshal(ob.V)
			if err != nil {
				panic(err)
			}
			root, err := gen.ParseJSON(b)
			if err != nil {
				panic(err)
			}
			docs = append(docs, doc{ob, root})
			for _, u := range gen.FindUnits(root) {
				k := u.Kind + "|" + u.Hint
				if len(donors[k]) < 3 {
					donors[k] = append(donors[k], gen.Get(root, u.At))
				}
			}
		}
		for _, d := range docs {
			// sanity: unmutated re-rendered document is valid
			if v, err := w.Decode(d.ob.V, gen.RenderJSON(d.root)); err != nil {
				fmt.Println("BASE-DECODE", d.ob.Kind, err)
				continue
			} else if e, _ := gen.IsValid(v, w.NetworkID); e != nil {
				fmt.Println("BASE-INVALID", d.ob.Kind, e)
				continue
			}
			for _, u := range gen.FindUnits(d.root) {
				for _, m := range w.UnitMutations(d.root, u, hints, donors[u.Kind+"|"+u.Hint]) {
					total++
					key := fmt.Sprintf("%s %s %s %s", u.Kind, u.FHint+u.Hint[:0], m.Field(), m.Op)
					tot[key]++
					mb := gen.RenderJSON(m.Apply(d.root))
					v, err := w.Decode(d.ob.V, mb)
					if err != nil {
						dec++
						continue
					}
					if e, _ := gen.IsValid(v, w.NetworkID); e == nil {
						k := key
						if m.Op == "hint-swap" {
							k += " -> " + m.New.(string)
						}
						und[k]++
						if und[k] == 1 {
							fmt.Println("UNDETECTED", d.ob.Kind, u.At.String(), k)
						}
					}
				}
			}
		}
	}
	fmt.Println("total", total, "decode-fail", dec)
	var ks []string
	for k := range und {
		ks = append(ks, k)
	}
	sort.Strings(ks)
	for _, k := range ks {
		fmt.Println(und[k], k)
	}
}
