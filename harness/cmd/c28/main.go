// c28: signed objects detect any change to signed content.
//
// Oracle (the property's own statement on the real code): every signed unit ({fact, sign(s)} of ballot sign
// facts, proposal sign facts and operations; block maps) inside random valid objects is mutated at the
// decoded-JSON level, one field at a time (each leaf of the fact, list edits, the fact's _hint to every
// registered hint, each field of each sign, signs/signers/nodes/times/facts taken from another valid
// unit), re-encoded, decoded through the real encoder and validated with IsValid(networkID): the mutated
// object must fail to decode or fail IsValid.  Plus: validation under another network id must fail; facts
// of different kinds built from the same values must have different hashes.
// Correspondence: (fact kind, field, detected) and (kind, new kind, detected) are compared with the
// coverage tables extracted from the source (coq/Gen/Codecs.v) by the Coq model's `check`.
package main

import (
	"bytes"
	"encoding/base64"
	"fmt"
	"strings"

	"github.com/spikeekips/mitum/base"
	"github.com/spikeekips/mitum/isaac"
	isaacoperation "github.com/spikeekips/mitum/isaac/operation"
	"verifharness/cmd/c27/gen"
	"verifharness/vh"
)

type replay struct {
	Seed     uint64 `json:"seed"`
	Kind     string `json:"kind"`
	Unit     string `json:"unit,omitempty"`
	Field    string `json:"field,omitempty"`
	Op       string `json:"op,omitempty"`
	Original string `json:"original,omitempty"`
	Mutated  string `json:"mutated,omitempty"`
}

// kinds whose hash inputs coincide (must equal shared_groups in coq/C28/Model.v; tied by the cases)
var sharedGroups = [][]string{
	{"init-ballot-fact-v0.0.1", "suffrage-confirm-ballot-fact-v0.0.1"},
	{"accept-ballot-fact-v0.0.1", "empty-operations-accept-ballot-fact-v0.0.1", "not-processed-accept-ballot-fact-v0.0.1"},
	{"genesis-network-policy-fact-v0.0.1", "network-policy-fact-v0.0.1"},
	{"suffrage-disjoin-fact-v0.0.1", "suffrage-join-fact-v0.0.1"},
}

func shares(a, b string) bool {
	for _, g := range sharedGroups {
		ia, ib := false, false
		for _, h := range g {
			ia = ia || h == a
			ib = ib || h == b
		}
		if ia && ib {
			return true
		}
	}
	return false
}

type harness struct {
	o     *vh.Opts
	w     *gen.World
	res   *vh.Result
	cases *vh.Cases
	seen  map[string]bool
}

// fail records an oracle failure; failures of the known-finding classes are recorded at most 8 times each
// (vh.Result keeps 200 failures: they must not crowd out a new class), the rest is only counted.
var knownClasses = map[string]int{"blockmap-item-type-not-signed": 0, "kind-swap-same-hash-inputs": 0, "expel-reason-not-hashed": 0, "concat-ambiguity-token-expelfacts": 0}

func (h *harness) fail(class, desc string, rp any) {
	if n, ok := knownClasses[class]; ok {
		knownClasses[class] = n + 1
		if n >= 8 {
			h.res.Dist("oracle_fail:" + class)
			return
		}
	}
	h.res.Fail(class, desc, rp)
}

func (h *harness) addCase(kind int, a, b string, detected bool) {
	key := fmt.Sprintf("%d|%s|%s|%v", kind, a, b, detected)
	if h.seen[key] {
		return
	}
	h.seen[key] = true
	h.cases.Add(vh.Tuple(vh.Nat(kind), vh.Str(a), vh.Str(b), vh.Bool(detected)),
		map[string]any{"kind": kind, "a": a, "b": b, "detected": detected})
}

// validate: decode the document as the original's type would be decoded and call IsValid(networkID).
// returns ("decode", err) / ("invalid", err) / ("valid", nil)
func (h *harness) validate(orig any, doc []byte, nid []byte) (string, any, error) {
	v, err := h.w.Decode(orig, doc)
	if err != nil {
		return "decode", nil, err
	}
	if e, _ := gen.IsValid(v, nid); e != nil {
		return "invalid", v, e
	}
	return "valid", v, nil
}

func (h *harness) corpus() {
	w, res := h.w, h.res
	// (a) kinds sharing hash inputs: same values, different kind, same hash
	p := w.Point()
	prev, pr := w.Hash(), w.Hash()
	ex := w.Hashes(1, 2)
	fi := isaac.NewINITBallotFact(p, prev, pr, ex)
	fs := isaac.NewSuffrageConfirmBallotFact(p, prev, pr, ex)
	res.Count("corpus-init-sc", true)
	if fi.Hash().Equal(fs.Hash()) && fi.IsValid(nil) == nil && fs.IsValid(nil) == nil {
		h.fail("kind-swap-same-hash-inputs", "INITBallotFact and SuffrageConfirmBallotFact built from the same values are both valid and share the hash "+fi.Hash().String(),
			replay{Seed: h.o.Seed, Kind: "corpus/init-vs-suffrage-confirm"})
	}
	tok := w.Token()
	ad := w.Addr()
	ht := w.Height()
	fj := isaacoperation.NewSuffrageJoinFact(tok, ad, ht)
	fd := isaacoperation.NewSuffrageDisjoinFact(tok, ad, ht)
	res.Count("corpus-join-disjoin", true)
	if fj.Hash().Equal(fd.Hash()) && fj.IsValid(nil) == nil && fd.IsValid(nil) == nil {
		h.fail("kind-swap-same-hash-inputs", "SuffrageJoinFact and SuffrageDisjoinFact built from the same values are both valid and share the hash "+fj.Hash().String(),
			replay{Seed: h.o.Seed, Kind: "corpus/join-vs-disjoin"})
	}
	// (b) INIT-stage fact relabelled as ACCEPT-stage fact (keys renamed): must be rejected (stage is hashed and validated)
	{
		f0 := isaac.NewINITBallotFact(p, prev, pr, nil)
		b, _ := w.Enc.Marshal(f0)
		root, _ := gen.ParseJSON(b)
		m := root.(map[string]any)
		m2 := map[string]any{}
		for k, v := range m {
			switch k {
			case "previous_block":
				m2["proposal"] = v
			case "proposal":
				m2["new_block"] = v
			case "_hint":
				m2[k] = isaac.ACCEPTBallotFactHint.String()
			default:
				m2[k] = v
			}
		}
		res.Count("corpus-init-as-accept", true)
		if st, _, _ := h.validate(isaac.ACCEPTBallotFact{}, gen.RenderJSON(m2), nil); st == "valid" {
			res.Fail("stage-separation-broken", "an INIT ballot fact relabelled as ACCEPT ballot fact is valid with the same hash",
				replay{Seed: h.o.Seed, Kind: "corpus/init-as-accept", Original: string(b), Mutated: string(gen.RenderJSON(m2))})
		}
	}
	// (c) raw concatenation: token ++ expel fact == (token ++ expel fact bytes) ++ nothing
	{
		f0 := isaac.NewINITBallotFact(p, prev, pr, ex[:1])
		b, _ := w.Enc.Marshal(f0)
		root, _ := gen.ParseJSON(b)
		m := root.(map[string]any)
		tokb, err := base64.StdEncoding.DecodeString(m["token"].(string))
		if err == nil {
			m2 := map[string]any{}
			for k, v := range m {
				m2[k] = v
			}
			m2["token"] = base64.StdEncoding.EncodeToString(append(append([]byte{}, tokb...), ex[0].Bytes()...))
			delete(m2, "expel_facts")
			res.Count("corpus-concat", true)
			if st, v, _ := h.validate(f0, gen.RenderJSON(m2), nil); st == "valid" {
				if hv, ok := v.(isaac.INITBallotFact); ok && hv.Hash().Equal(f0.Hash()) && len(hv.ExpelFacts()) == 0 {
					h.fail("concat-ambiguity-token-expelfacts", "INIT ballot fact with the expel fact moved into the token is valid with the same hash (two fields changed)",
						replay{Seed: h.o.Seed, Kind: "corpus/concat-ambiguity", Original: string(b), Mutated: string(gen.RenderJSON(m2))})
				}
			}
		}
	}
}

func factKey(m gen.Mutation) (string, bool) {
	if len(m.Rel) >= 2 {
		if s, ok := m.Rel[0].(string); ok && s == "fact" {
			if k, ok := m.Rel[1].(string); ok {
				return k, true
			}
		}
	}
	return "", false
}

func main() {
	o := vh.ParseFlags()
	res := vh.NewResult("every signed unit (ballot/proposal sign facts, operations, block maps) inside random valid objects of every registered type, " +
		"x every single-field mutation at the decoded-JSON level (leaf values, list edits, _hint to every registered hint, sign fields, swaps with another valid unit), " +
		"decoded by the real encoder and validated by IsValid(networkID); plus network-id swap; non-trivial = the mutated document still decodes (validation, not parsing, has to catch it)")
	r := vh.NewRand(o.Seed)
	h := &harness{o: o, w: gen.NewWorld(r), res: res, seen: map[string]bool{},
		cases: &vh.Cases{Import: "From MV Require Import C28.Model.", Type: "case", CheckFn: "check", Shard: 400}}
	hints := gen.AllHints()
	h.corpus()

	rounds := o.Pick(2, 40)
	for round := 0; round < rounds; round++ {
		if round > 0 {
			h.w = gen.NewWorld(r)
		}
		w := h.w
		type doc struct {
			ob   gen.Obj
			root any
			raw  []byte
		}
		var docs []doc
		donors := map[string][]any{}
		for _, ob := range w.All() {
			if !ob.Signed {
				continue
			}
			b, err := w.Enc.Marshal(ob.V)
			if err != nil {
				panic(err)
			}
			// network id: valid under the right one, invalid under another one and under none
			e0, _ := gen.IsValid(ob.V, w.NetworkID)
			e1, _ := gen.IsValid(ob.V, w.OtherID)
			e2, _ := gen.IsValid(ob.V, nil)
			res.Count("nid|"+ob.Kind+fmt.Sprint(round), true)
			switch {
			case e0 != nil:
				res.Note(fmt.Sprintf("generator produced an invalid %s: %v", ob.Kind, e0))
				continue
			case e1 == nil || e2 == nil:
				res.Fail("network-id-not-bound", ob.Kind+": valid under a different / empty network id", replay{Seed: o.Seed, Kind: ob.Kind, Original: string(b)})
			}
			root, err := gen.ParseJSON(b)
			if err != nil {
				panic(err)
			}
			docs = append(docs, doc{ob, root, b})
			for _, u := range gen.FindUnits(root) {
				k := u.Kind + "|" + u.Hint
				if len(donors[k]) < 2 {
					donors[k] = append(donors[k], gen.Get(root, u.At))
				}
			}
		}
		for _, d := range docs {
			base0 := gen.RenderJSON(d.root)
			st, v0, err := h.validate(d.ob.V, base0, w.NetworkID)
			if st != "valid" {
				res.Note(fmt.Sprintf("re-rendered %s does not validate (%s: %v); skipped", d.ob.Kind, st, err))
				continue
			}
			ref0, _ := w.Enc.Marshal(v0)
			ref := gen.CanonicalContent(ref0)
			for _, u := range gen.FindUnits(d.root) {
				for _, m := range w.UnitMutations(d.root, u, hints, donors[u.Kind+"|"+u.Hint]) {
					mroot := m.Apply(d.root)
					if m.Rehash {
						nb, ok := w.RehashNodeOperation(gen.RenderJSON(gen.Get(mroot, u.At)))
						if !ok {
							continue // not a node operation / does not decode: the plain variant covers it
						}
						nu, err := gen.ParseJSON(nb)
						if err != nil {
							continue
						}
						mroot = gen.Set(mroot, u.At, nu)
					}
					mb := gen.RenderJSON(mroot)
					st, v, _ := h.validate(d.ob.V, mb, w.NetworkID)
					detected := st != "valid"
					if st == "valid" {
						// a mutation the decoder normalises away (extra array member of a fixed-size array, ...)
						// is not a change of content
						// (content = canonical JSON with times at the repository's millisecond precision)
						if bb, err := w.Enc.Marshal(v); err == nil && bytes.Equal(gen.CanonicalContent(bb), ref) {
							res.Dist("mutation-noop")
							continue
						}
					}
					bucket := u.Kind + ":" + m.Op
					if i := strings.Index(bucket, ":swap-other"); i >= 0 {
						bucket = u.Kind + ":swap-other"
					}
					res.Dist(bucket)
					res.Dist("outcome:" + st)
					res.Count(fmt.Sprintf("%d|%s|%s|%s|%s", round, d.ob.Kind, u.At.String(), m.Rel.String(), m.Op)+fmt.Sprint(m.New)[:min(12, len(fmt.Sprint(m.New)))], st != "decode")
					// correspondence cases
					if k, ok := factKey(m); ok {
						switch {
						case m.Op == "hint-swap":
							h.addCase(1, u.FHint, m.New.(string), detected)
						case strings.HasPrefix(m.Op, "swap-other"):
						default:
							h.addCase(0, u.FHint, k, detected)
						}
					}
					if u.Kind == "blockmap" && len(m.Rel) >= 2 && m.Rel[0] == "manifest" && !strings.HasPrefix(m.Op, "swap-other") {
						if k, ok := m.Rel[1].(string); ok {
							h.addCase(0, "manifest-v0.0.1", k, detected)
						}
					}
					if detected {
						continue
					}
					class := "undetected-mutation"
					switch {
					case m.Op == "hint-swap" && shares(u.FHint, m.New.(string)):
						class = "kind-swap-same-hash-inputs"
					case u.FHint == isaac.SuffrageExpelFactHint.String() && m.Field() == "/fact/reason" && m.Op == "value":
						class = "expel-reason-not-hashed"
					case u.Kind == "blockmap" && m.Op == "item-type":
						class = "blockmap-item-type-not-signed"
					}
					desc := fmt.Sprintf("%s: unit %s at %s, field %s, %s", d.ob.Kind, u.Kind+"("+u.FHint+")", u.At.String(), m.Field(), m.Op)
					if m.Op == "hint-swap" {
						desc += " -> " + m.New.(string)
					}
					h.fail(class, desc+": still valid", replay{Seed: o.Seed, Kind: d.ob.Kind, Unit: u.At.String(), Field: m.Rel.String(), Op: m.Op, Original: string(d.raw), Mutated: string(mb)})
				}
			}
		}
	}
	if o.Replay != "" {
		var rp replay
		if err := vh.ReadReplay(o.Replay, &rp); err == nil && rp.Mutated != "" {
			v, err := h.w.Enc.Decode([]byte(rp.Mutated))
			fmt.Printf("replay %s %s %s: decode err=%v\n", rp.Kind, rp.Field, rp.Op, err)
			if err == nil {
				e, _ := gen.IsValid(v, nil)
				fmt.Printf("IsValid(nil) = %v (signature checks need the run's network id)\n", e)
			}
		}
	}
	if len(res.Samples) == 0 {
		res.Sample(map[string]any{"registered_hints": len(hints)})
	}
	res.ModelCases = h.cases.Len()
	if err := h.cases.Write(o.Out); err != nil {
		panic(err)
	}
	res.Write(o.Out)
	_ = base.NilHeight
}
