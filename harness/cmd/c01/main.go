// c01: vote tally (base.FindMajority, base.FindVoteResult, Threshold.VoteResult) vs spec and Coq model.
package main

import (
	"fmt"
	"sort"
	"strings"

	"github.com/spikeekips/mitum/base"
	"verifharness/vh"
)

type replay struct {
	Kind  string  `json:"kind"` // "fvr" | "fm" | "tvr"
	Q     uint    `json:"q"`
	Th    uint    `json:"th"`
	T     string  `json:"t,omitempty"`
	Votes []int   `json:"votes,omitempty"`
	Set   []uint  `json:"set,omitempty"`
}

func facts(v []int) []string {
	s := make([]string, len(v))
	for i, x := range v {
		s[i] = fmt.Sprintf("f%d", x)
	}
	return s
}

// the property's own statement, evaluated independently of the implementation and of the Coq model
func oracle(q, th uint, votes []int) (code int, ok func(key string) bool) {
	if th > q {
		th = q
	}
	cnt := map[string]int{}
	for _, f := range facts(votes) {
		cnt[f]++
	}
	missing := int(q) - len(votes)
	if missing < 0 {
		missing = 0
	}
	reach := map[string]bool{}
	can := false
	for f, c := range cnt {
		if c >= int(th) {
			reach[f] = true
		}
		if c+missing >= int(th) {
			can = true
		}
	}
	if missing >= int(th) { // a fact nobody voted for yet could still reach it
		can = true
	}
	switch {
	case len(reach) > 0:
		return 2, func(k string) bool { return reach[k] }
	case !can:
		return 1, func(k string) bool { return k == "" }
	default:
		return 0, func(k string) bool { return k == "" }
	}
}

func code(r base.VoteResult) int {
	switch r {
	case base.VoteResultNotYet:
		return 0
	case base.VoteResultDraw:
		return 1
	case base.VoteResultMajority:
		return 2
	}
	return -1
}

func keyID(k string) int64 {
	if k == "" {
		return -1
	}
	var x int64
	fmt.Sscanf(k, "f%d", &x)
	return x
}

func zlist(v []int) string {
	ss := make([]string, len(v))
	for i, x := range v {
		ss[i] = fmt.Sprint(x)
	}
	return "[" + strings.Join(ss, ";") + "]%Z"
}
func ulist(v []uint) string {
	ss := make([]string, len(v))
	for i, x := range v {
		ss[i] = fmt.Sprint(x)
	}
	return "[" + strings.Join(ss, ";") + "]%Z"
}

var res *vh.Result
var cases *vh.Cases

func runFVR(q, th uint, votes []int, model bool) {
	r, key := base.FindVoteResult(q, th, facts(votes))
	want, ok := oracle(q, th, votes)
	k := fmt.Sprintf("fvr/%d/%d/%v", q, th, votes)
	res.Count(k, len(votes) > 0)
	switch {
	case len(votes) > int(q):
		res.Dist("fvr_overvote")
	case len(votes) == int(q):
		res.Dist("fvr_full")
	default:
		res.Dist("fvr_partial")
	}
	res.Dist(fmt.Sprintf("fvr_result_%d", code(r)))
	if code(r) != want || !ok(key) {
		res.Fail("tally-result", fmt.Sprintf("FindVoteResult(%d,%d,%v)=(%s,%q) want code %d", q, th, votes, r, key, want),
			replay{Kind: "fvr", Q: q, Th: th, Votes: votes})
	}
	if model {
		cases.Add("inl "+vh.Tuple(vh.ZU(uint64(q)), vh.ZU(uint64(th)), zlist(votes), vh.Z(int64(code(r))), vh.Z(keyID(key))),
			map[string]any{"kind": "fvr", "q": q, "th": th, "votes": votes, "impl": []any{string(r), key}})
	}
	res.Sample(map[string]any{"q": q, "th": th, "votes": votes, "impl": []any{string(r), key}})
}

func runFM(q, th uint, set []uint, model bool) {
	cp := append([]uint{}, set...)
	got := base.FindMajority(q, th, cp...)
	// oracle
	eth := th
	if eth > q {
		eth = q
	}
	want := -1
	var sum, max uint
	found := false
	for i, n := range set {
		if !found && n >= eth {
			want, found = i, true
		}
		sum += n
		if n > max {
			max = n
		}
	}
	if len(set) > 0 && !found {
		var remain uint
		if q > sum {
			remain = q - sum
		}
		if remain+max < eth {
			want = -2
		}
	}
	res.Count(fmt.Sprintf("fm/%d/%d/%v", q, th, set), len(set) > 0)
	res.Dist(fmt.Sprintf("fm_result_%d", func() int {
		if got >= 0 {
			return 0
		}
		return got
	}()))
	if got != want {
		res.Fail("find-majority", fmt.Sprintf("FindMajority(%d,%d,%v)=%d want %d", q, th, set, got, want), replay{Kind: "fm", Q: q, Th: th, Set: set})
	}
	if model {
		cases.Add("inr "+vh.Tuple(vh.ZU(uint64(q)), vh.ZU(uint64(th)), ulist(set), vh.Z(int64(got))),
			map[string]any{"kind": "fm", "q": q, "th": th, "set": set, "impl": got})
	}
}

// all multisets (as sorted sequences) of size k over nf facts, then a permutation chosen by r
func multisets(k, nf int, f func([]int)) {
	cur := make([]int, 0, k)
	var rec func(start int)
	rec = func(start int) {
		if len(cur) == k {
			f(append([]int{}, cur...))
			return
		}
		for x := start; x < nf; x++ {
			cur = append(cur, x)
			rec(x)
			cur = cur[:len(cur)-1]
		}
	}
	rec(0)
}

func main() {
	o := vh.ParseFlags()
	res = vh.NewResult("exhaustive: quorum q in 1..Q, required count th in 1..q+1, every multiset of <= q+3 votes over <= 4 facts (random vote order) through FindVoteResult; random: q <= 10^4, 1..60 facts skewed to the majority/draw boundaries and over-votes, through FindVoteResult, Threshold.VoteResult and FindMajority (unsorted argument lists too); non-trivial = non-empty vote list; distinct = distinct (q, th, vote sequence)")
	cases = &vh.Cases{Import: "From MV Require Import C01.Model.", Type: "(Z * Z * list Z * Z * Z) + (Z * Z * list Z * Z)", CheckFn: "check"}
	r := vh.NewRand(o.Seed)

	if o.Replay != "" {
		var rp replay
		if err := vh.ReadReplay(o.Replay, &rp); err == nil {
			switch rp.Kind {
			case "fm":
				fmt.Println("FindMajority =", base.FindMajority(rp.Q, rp.Th, append([]uint{}, rp.Set...)...))
			default:
				a, b := base.FindVoteResult(rp.Q, rp.Th, facts(rp.Votes))
				fmt.Println("FindVoteResult =", a, b)
			}
		}
	}

	// corpus: formerly failing / boundary inputs
	runFM(4, 3, []uint{1, 1, 1, 1, 1, 1}, true)
	runFVR(4, 3, []int{0, 1, 2, 3, 4, 5}, true)
	runFVR(4, 3, []int{}, true)
	runFVR(3, 5, []int{0, 0, 0}, true)
	runFVR(4, 3, []int{0, 0, 0, 1, 1, 1}, true) // two facts reach the count (over-vote): either key acceptable
	runFM(10, 7, []uint{}, true)
	runFM(10, 7, []uint{2, 7, 9}, true)

	maxQ := o.Pick(6, 8)
	modelEvery := o.Pick(37, 211)
	n := 0
	for q := 1; q <= maxQ; q++ {
		for th := 1; th <= q+1; th++ {
			for k := 0; k <= q+3; k++ {
				multisets(k, 4, func(v []int) {
					p := r.Perm(len(v))
					w := make([]int, len(v))
					for i, j := range p {
						w[i] = v[j]
					}
					n++
					runFVR(uint(q), uint(th), w, n%modelEvery == 0)
				})
			}
		}
	}
	res.Exhaustive = true
	res.Distribution["exhaustive_maxQ"] = maxQ

	nr := o.Pick(1500, 60000)
	for i := 0; i < nr; i++ {
		q := uint(r.Range(1, 40))
		if r.Chance(1, 5) {
			q = uint(r.Range(41, 10000))
		}
		tenths := r.Range(510, 1000)
		var t base.Threshold
		_ = t.UnmarshalText([]byte(fmt.Sprintf("%d.%d", tenths/10, tenths%10)))
		th := t.Threshold(q)
		nf := r.Range(1, 6)
		if r.Chance(1, 6) {
			nf = r.Range(7, 60)
		}
		// vote count skewed to the boundaries
		var nv int
		switch r.Intn(5) {
		case 0:
			nv = r.Range(0, int(q))
		case 1:
			nv = int(q)
		case 2:
			nv = int(q) + r.Range(1, 5) // over-vote
		case 3:
			nv = int(th) + r.Range(-1, 1)
		default:
			nv = int(q) - r.Range(0, 2)
		}
		if nv < 0 {
			nv = 0
		}
		if nv > 400 {
			nv = 400
		}
		votes := make([]int, nv)
		lead := r.Intn(nf)
		for j := range votes {
			if r.Chance(3, 5) {
				votes[j] = lead
			} else {
				votes[j] = r.Intn(nf)
			}
		}
		model := i%3 == 0 && nv <= 120
		if o.Thorough() {
			model = i%40 == 0 && nv <= 120
		}
		runFVR(q, th, votes, model)
		// the same through Threshold.VoteResult
		// (the required count is recomputed here exactly, independently of Threshold.Threshold)
		rr, key := t.VoteResult(q, facts(votes))
		exactTh := uint((uint64(q)*uint64(tenths) + 999) / 1000)
		want, ok := oracle(q, exactTh, votes)
		res.Count(fmt.Sprintf("tvr/%d/%d/%v", q, tenths, votes), nv > 0)
		if model {
			cases.Add("inl "+vh.Tuple(vh.ZU(uint64(q)), vh.ZU(uint64(exactTh)), zlist(votes), vh.Z(int64(code(rr))), vh.Z(keyID(key))),
				map[string]any{"kind": "tvr", "q": q, "t": t.String(), "votes": votes, "impl": []any{string(rr), key}})
		}
		if code(rr) != want || !ok(key) {
			res.Fail("tally-result", fmt.Sprintf("Threshold(%v).VoteResult(%d,%v)=(%s,%q) want code %d", t, q, votes, rr, key, want),
				replay{Kind: "tvr", Q: q, Th: th, T: t.String(), Votes: votes})
		}
		// FindMajority directly with the count multiset in random order
		cnt := map[int]uint{}
		for _, v := range votes {
			cnt[v]++
		}
		set := []uint{}
		ks := []int{}
		for k := range cnt {
			ks = append(ks, k)
		}
		sort.Ints(ks)
		for _, k := range ks {
			set = append(set, cnt[k])
		}
		p := r.Perm(len(set))
		sh := make([]uint, len(set))
		for a, b := range p {
			sh[a] = set[b]
		}
		runFM(q, th, sh, model)
		if r.Chance(1, 4) { // raw threshold argument, possibly above the quorum or 0
			runFM(q, uint(r.Range(0, int(q)+3)), sh, model)
		}
	}
	// Threshold.VoteResult at the exact boundary: required-1 and required votes for one fact, rest missing
	for q := 1; q <= o.Pick(160, 600); q++ {
		for tenths := 510; tenths <= 1000; tenths += 1 {
			if !o.Thorough() && (q*tenths)%7 != 0 && (q*tenths)%1000 != 0 {
				continue
			}
			var t base.Threshold
			_ = t.UnmarshalText([]byte(fmt.Sprintf("%d.%d", tenths/10, tenths%10)))
			exactTh := (q*tenths + 999) / 1000
			for _, nv := range []int{exactTh - 1, exactTh} {
				if nv < 0 {
					continue
				}
				votes := make([]int, nv)
				rr, key := t.VoteResult(uint(q), facts(votes))
				want, ok := oracle(uint(q), uint(exactTh), votes)
				res.Count(fmt.Sprintf("tvrb/%d/%d/%d", q, tenths, nv), nv > 0)
				res.Dist("tvr_boundary")
				if code(rr) != want || !ok(key) {
					res.Fail("tally-result", fmt.Sprintf("Threshold(%v).VoteResult(%d, %d votes for one fact)=(%s,%q) want code %d", t, q, nv, rr, key, want),
						replay{Kind: "tvr", Q: uint(q), Th: uint(exactTh), T: t.String(), Votes: votes})
				}
			}
		}
	}
	res.ModelCases = cases.Len()
	if err := cases.Write(o.Out); err != nil {
		panic(err)
	}
	res.Write(o.Out)
}
