// c14: base.BatchIsValidMaps accepts exactly linked chains (any batch limit, any arrival order).
// Real BatchIsValidMaps / IsValidMaps / util.BatchWork with signed dummy block maps (repo test
// helpers), blockMapf delaying to realise a chosen arrival order, single breaks.
package main

import (
	"context"
	"errors"
	"fmt"
	"sync"
	"sync/atomic"
	"time"

	"github.com/spikeekips/mitum/base"
	"github.com/spikeekips/mitum/util"
	"github.com/spikeekips/mitum/util/valuehash"
	"verifharness/vh"
)

// one served map: height, hash id, previous-hash id (0 = nil hash); Nil = blockMapf returns an error
type smap struct {
	Nil  bool  `json:"nil,omitempty"`
	H    int64 `json:"h"`
	Hash int   `json:"hash"`
	Prev int   `json:"prev"`
}

type replay struct {
	Prev    *smap  `json:"prev"`
	Size    int    `json:"size"`
	Limit   int    `json:"limit"`
	Served  []smap `json:"served"`
	Keys    []int  `json:"keys"`   // arrival rank inside the batch
	Delay   int    `json:"delay"`  // microseconds per rank (0 = free running)
	Forced  bool   `json:"forced"` // the arrival order given by Keys is enforced: an answer is held back until the callback of the offset with the previous rank in the batch ran (the callback follows the locked validation)
	CbFail  []int  `json:"cb_fail"`
	Break   string `json:"break"`
	BreakAt int    `json:"break_at"`
}

var (
	errFetch = errors.New("verif: fetch fault")
	errCb    = errors.New("verif: callback fault")
	signNode = base.RandomAddress("c14-")
	signKey  = base.NewMPrivatekey()
	hashes   = map[int]util.Hash{}
	hlock    sync.Mutex
)

func hashOf(id int) util.Hash {
	if id == 0 {
		return nil
	}
	hlock.Lock()
	defer hlock.Unlock()
	if h, ok := hashes[id]; ok {
		return h
	}
	h := valuehash.NewSHA256([]byte(fmt.Sprintf("c14-hash-%d", id)))
	hashes[id] = h
	return h
}

var signed int

func mkMap(s smap) base.BlockMap {
	m := base.NewDummyManifest(base.Height(s.H), hashOf(s.Hash))
	m.SetPrevious(hashOf(s.Prev))
	signed++
	if signed%16 == 0 { // a real signature now and then; validation does not read it
		return base.NewDummyBlockMapWithSign(m, signNode, signKey)
	}
	return base.NewDummyBlockMap(m)
}

func has(l []int, x int) bool {
	for _, y := range l {
		if x == y {
			return true
		}
	}
	return false
}

type outcome struct {
	ok        bool
	callbacks int64
	errtext   string
	panicked  bool
}

func runCase(rp replay) (oc outcome) {
	var prev base.BlockMap
	prevheight := int64(-1)
	if rp.Prev != nil {
		prev = mkMap(*rp.Prev)
		prevheight = rp.Prev.H
	}
	served := make([]base.BlockMap, len(rp.Served))
	for i, s := range rp.Served {
		if !s.Nil {
			served[i] = mkMap(s)
		}
	}
	var ncb int64
	// forced arrival order
	offsetOf := map[string]int{}
	for i, m := range served {
		if m != nil {
			offsetOf[fmt.Sprintf("%d/%s", m.Manifest().Height(), m.Manifest().Hash())] = i
		}
	}
	returned := make([]chan struct{}, len(served))
	validated := make([]chan struct{}, len(served))
	var vonce []sync.Once = make([]sync.Once, len(served))
	for i := range returned {
		returned[i] = make(chan struct{})
		validated[i] = make(chan struct{})
	}
	predOf := func(i int) int {
		if !rp.Forced || i < 0 || i >= len(rp.Keys) || rp.Keys[i] == 0 {
			return -1
		}
		lo := (i / rp.Limit) * rp.Limit
		for j := lo; j < lo+rp.Limit && j < len(rp.Keys); j++ {
			if rp.Keys[j] == rp.Keys[i]-1 {
				return j
			}
		}
		return -1
	}
	defer func() {
		if r := recover(); r != nil {
			oc.panicked = true
			oc.errtext = fmt.Sprint(r)
		}
	}()
	err := base.BatchIsValidMaps(context.Background(), prev, base.Height(prevheight+int64(rp.Size)), int64(rp.Limit),
		func(_ context.Context, h base.Height) (base.BlockMap, error) {
			i := int(h.Int64() - prevheight - 1)
			if rp.Delay > 0 && i >= 0 && i < len(rp.Keys) {
				time.Sleep(time.Duration(rp.Keys[i]*rp.Delay) * time.Microsecond)
			}
			if j := predOf(i); j >= 0 && j < len(returned) {
				select {
				case <-returned[j]:
					select {
					case <-validated[j]:
					case <-time.After(30 * time.Millisecond): // the predecessor failed
					}
				case <-time.After(2 * time.Second):
				}
			}
			if i >= 0 && i < len(returned) {
				defer close(returned[i])
			}
			if i < 0 || i >= len(served) || served[i] == nil {
				return nil, errFetch
			}
			return served[i], nil
		},
		func(m base.BlockMap) error {
			atomic.AddInt64(&ncb, 1)
			if i, ok := offsetOf[fmt.Sprintf("%d/%s", m.Manifest().Height(), m.Manifest().Hash())]; ok {
				vonce[i].Do(func() { close(validated[i]) })
			}
			// the callback gets the map that was served for some offset; fail by requested offset
			for _, i := range rp.CbFail {
				if i < len(served) && served[i] != nil && served[i].Manifest().Hash().Equal(m.Manifest().Hash()) &&
					served[i].Manifest().Height() == m.Manifest().Height() {
					return errCb
				}
			}
			return nil
		},
	)
	oc.ok = err == nil
	oc.callbacks = atomic.LoadInt64(&ncb)
	if err != nil {
		oc.errtext = err.Error()
	}
	return oc
}

// the property's own reading: prev, served[0], ..., served[size-1] is a linked chain of the right heights
func linked(rp replay) (bool, string) {
	prevheight := int64(-1)
	prevhash := 0
	if rp.Prev != nil {
		prevheight = rp.Prev.H
		prevhash = rp.Prev.Hash
	}
	for i := 0; i < rp.Size; i++ {
		if i >= len(rp.Served) || rp.Served[i].Nil {
			return false, fmt.Sprintf("offset %d not served", i)
		}
		s := rp.Served[i]
		if s.H != prevheight+1+int64(i) {
			return false, fmt.Sprintf("offset %d: height %d served for height %d", i, s.H, prevheight+1+int64(i))
		}
		if s.H != 0 && s.Prev != prevhash { // genesis has no previous
			return false, fmt.Sprintf("offset %d (height %d): previous does not match", i, s.H)
		}
		prevhash = s.Hash
	}
	return true, ""
}

var nextHash = 1

func newHash() int { nextHash++; return nextHash }

func honest(r *vh.Rand, size int, genesis bool) (*smap, []smap) {
	var prev *smap
	h := int64(0)
	ph := 0
	if !genesis {
		prev = &smap{H: int64(r.Range(0, 500)), Hash: newHash(), Prev: newHash()}
		h = prev.H + 1
		ph = prev.Hash
	}
	out := make([]smap, size)
	for i := range out {
		out[i] = smap{H: h + int64(i), Hash: newHash(), Prev: ph}
		ph = out[i].Hash
	}
	if genesis {
		out[0].Prev = 0
	}
	return prev, out
}

func smapTerm(s smap) string {
	if s.Nil {
		return "None"
	}
	return vh.Some(vh.Tuple(vh.Z(s.H), vh.N(uint64(s.Hash)), vh.N(uint64(s.Prev))))
}

func natList(xs []int) string {
	out := "["
	for i, x := range xs {
		if i > 0 {
			out += "; "
		}
		out += fmt.Sprintf("%d", x)
	}
	return out + "]%nat"
}

func main() {
	o := vh.ParseFlags()
	res := vh.NewResult("real base.BatchIsValidMaps on chains of dummy block maps (size 1..200, limit 1..50) served through a blockMapf that delays to realise a random arrival order per batch; honest chains and single breaks (wrong previous, wrong height, swapped, duplicated, missing, foreign map, callback error); non-trivial = size > 1 and (more than one batch or a break)")
	r := vh.NewRand(o.Seed)
	cases := &vh.Cases{Import: "From MV Require Import C14.Model.", Type: "case", CheckFn: "check", Shard: 100}

	do := func(rp replay, bucket string) {
		oc := runCase(rp)
		want, why := linked(rp)
		key := fmt.Sprintf("%d/%d/%s/%d/%v", rp.Size, rp.Limit, rp.Break, rp.BreakAt, rp.Prev == nil)
		res.Count(key, rp.Size > 1 && (rp.Size > rp.Limit || rp.Break != ""))
		res.Dist(bucket)
		if rp.Break != "" {
			res.Dist("break:" + rp.Break)
		}
		if rp.Size > 0 && rp.Size%rp.Limit == 0 {
			res.Dist("size_multiple_of_limit")
		}
		short := replay{Prev: rp.Prev, Size: rp.Size, Limit: rp.Limit, Served: rp.Served, Keys: rp.Keys, Delay: rp.Delay, Forced: rp.Forced, CbFail: rp.CbFail, Break: rp.Break, BreakAt: rp.BreakAt}
		if rp.Forced {
			res.Dist("forced_order")
		}
		switch {
		case oc.panicked:
			res.Fail("panic", oc.errtext, short)
		case oc.ok && !want:
			res.Fail("accepts-unlinked-chain", fmt.Sprintf("BatchIsValidMaps(size=%d, limit=%d, break=%s at %d) returned nil although %s (callbacks=%d)", rp.Size, rp.Limit, rp.Break, rp.BreakAt, why, oc.callbacks), short)
		case !oc.ok && want && len(rp.CbFail) == 0 && rp.Size >= 1:
			res.Fail("rejects-linked-chain", fmt.Sprintf("BatchIsValidMaps(size=%d, limit=%d) failed on a linked chain: %s", rp.Size, rp.Limit, oc.errtext), short)
		case oc.ok && int(oc.callbacks) != rp.Size:
			res.Fail("callback-count", fmt.Sprintf("success with %d callbacks for %d maps", oc.callbacks, rp.Size), short)
		case oc.ok && len(rp.CbFail) > 0:
			res.Fail("callback-error-swallowed", "success although the callback failed", short)
		}
		var prevTerm string
		if rp.Prev == nil {
			prevTerm = "None"
		} else {
			prevTerm = smapTerm(*rp.Prev)
		}
		st := make([]string, len(rp.Served))
		for i, s := range rp.Served {
			st[i] = smapTerm(s)
		}
		cases.Add(vh.Tuple(prevTerm, vh.Nat(rp.Size), vh.Nat(rp.Limit), vh.List(st), natList(rp.Keys), natList(rp.CbFail), vh.Bool(oc.ok)),
			map[string]any{"input": short, "impl_ok": oc.ok, "err": oc.errtext, "linked": want})
		if rp.Break != "" {
			res.Sample(map[string]any{"size": rp.Size, "limit": rp.Limit, "break": rp.Break, "at": rp.BreakAt, "impl_ok": oc.ok, "err": oc.errtext})
		}
	}

	mk := func(size, limit int, genesis bool, brk string, at int, delay int) replay {
		prev, served := honest(r, size, genesis)
		rp := replay{Prev: prev, Size: size, Limit: limit, Served: served, Delay: delay, Break: brk, BreakAt: at}
		rp.Keys = make([]int, size)
		for lo := 0; lo < size; lo += limit {
			hi := lo + limit
			if hi > size {
				hi = size
			}
			p := r.Perm(hi - lo)
			for j := lo; j < hi; j++ {
				rp.Keys[j] = p[j-lo]
			}
		}
		s := rp.Served
		switch brk {
		case "":
		case "wrong-previous":
			s[at].Prev = newHash()
		case "previous-of-grandparent":
			if at >= 2 {
				s[at].Prev = s[at-2].Hash
			} else {
				s[at].Prev = newHash()
			}
		case "height-minus-1": // the map of the previous height is served again (the reproduced defect)
			if at >= 1 {
				s[at] = s[at-1]
			} else if prev != nil {
				s[at] = *prev
			} else {
				s[at].H = 5
			}
		case "height-plus-1":
			if at+1 < size {
				s[at] = s[at+1]
			} else {
				s[at].H++
			}
		case "height-only": // right links, wrong height number
			s[at].H += int64(r.Range(1, 3))
		case "swapped":
			if at+1 < size {
				s[at], s[at+1] = s[at+1], s[at]
			} else {
				s[at].Prev = newHash()
			}
		case "missing":
			s[at] = smap{Nil: true}
		case "foreign": // a map of the right height from another chain
			s[at] = smap{H: s[at].H, Hash: newHash(), Prev: newHash()}
		case "foreign-tail": // from `at` on, a consistent foreign chain (breaks only at `at`)
			ph := newHash()
			for j := at; j < size; j++ {
				s[j] = smap{H: s[j].H, Hash: newHash(), Prev: ph}
				ph = s[j].Hash
			}
		case "callback":
			rp.CbFail = []int{at}
		case "wrong-prev-map": // the given previous map is not the parent of the first
			if rp.Prev != nil {
				rp.Prev.Hash = newHash()
			} else {
				s[0].H = 1
			}
		}
		// a manifest without previous hash is valid only at the genesis height (Manifest.IsValid);
		// the maps reach BatchIsValidMaps after IsValid
		for j := range s {
			if !s[j].Nil && s[j].H != 0 && s[j].Prev == 0 {
				s[j].Prev = newHash()
			}
		}
		return rp
	}

	if o.Replay != "" {
		var rp replay
		if err := vh.ReadReplay(o.Replay, &rp); err != nil {
			panic(err)
		}
		oc := runCase(rp)
		fmt.Printf("replay size=%d limit=%d break=%s at=%d => ok=%v err=%s\n", rp.Size, rp.Limit, rp.Break, rp.BreakAt, oc.ok, oc.errtext)
		do(rp, "replay")
	}

	// corpus: the reproduced defect (height h answered with the map of height h-1 in the last batch)
	for _, c := range [][3]int{{5, 3, 4}, {5, 5, 4}, {3, 1, 2}, {6, 3, 5}, {4, 2, 3}, {7, 3, 6}, {2, 2, 1}, {5, 3, 3}} {
		do(mk(c[0], c[1], false, "height-minus-1", c[2], 0), "corpus")
		do(mk(c[0], c[1], true, "height-minus-1", c[2], 100), "corpus")
	}
	do(mk(1, 1, true, "", 0, 0), "corpus")
	do(mk(1, 3, false, "wrong-prev-map", 0, 0), "corpus")

	// exhaustive: every (enforced) arrival order of a batch of 3 and of 4 x a single break at every
	// position (a splice to a consistent foreign chain: only the link at that position is wrong)
	var permsOf func(n int) [][]int
	permsOf = func(n int) [][]int {
		if n == 1 {
			return [][]int{{0}}
		}
		var out [][]int
		for _, p := range permsOf(n - 1) {
			for k := 0; k <= len(p); k++ {
				out = append(out, append(append(append([]int{}, p[:k]...), n-1), p[k:]...))
			}
		}
		return out
	}
	for _, n := range []int{3, 4} {
		for _, genesis := range []bool{false, true} {
			for _, perm := range permsOf(n) {
				for at := -1; at < n; at++ {
					for _, lim := range []int{n, n + 2} {
						brk := "foreign-tail"
						a := at
						if at < 0 {
							brk, a = "", 0
						}
						rp := mk(n, lim, genesis, brk, a, 0)
						rp.Keys = append([]int{}, perm...)
						rp.Forced = true
						do(rp, "forced-exhaustive")
					}
				}
			}
		}
	}
	for _, perm := range permsOf(3) { // two batches of 3, same order in both, splice at every position
		for at := -1; at < 6; at++ {
			brk, a := "foreign-tail", at
			if at < 0 {
				brk, a = "", 0
			}
			rp := mk(6, 3, false, brk, a, 0)
			rp.Keys = append(append([]int{}, perm...), perm...)
			rp.Forced = true
			do(rp, "forced-exhaustive")
		}
	}

	breaks := []string{"wrong-previous", "previous-of-grandparent", "height-minus-1", "height-plus-1", "height-only",
		"swapped", "missing", "foreign", "foreign-tail", "callback", "wrong-prev-map"}
	n := o.Pick(800, 16000)
	for k := 0; k < n; k++ {
		var size int
		switch r.Intn(4) {
		case 0:
			size = r.Range(1, 12)
		case 1:
			size = r.Range(1, 60)
		default:
			size = r.Range(1, 200)
		}
		limit := r.Range(1, 50)
		if r.Chance(1, 3) {
			limit = r.Range(1, 8)
		}
		if r.Chance(1, 4) && limit <= 200 { // sizes that are multiples of the limit
			size = limit * r.Range(1, 200/limit)
		}
		if o.Tier == "quick" && size > 120 && !r.Chance(1, 4) {
			size = r.Range(1, 120)
		}
		delay := 0
		if r.Chance(1, 3) {
			delay = r.Range(20, 120)
		}
		brk, at := "", 0
		if !r.Chance(1, 4) {
			brk = breaks[r.Intn(len(breaks))]
			at = r.Intn(size)
			switch r.Intn(4) { // boundaries of batches are the interesting positions
			case 0:
				at = size - 1
			case 1:
				at = (at / limit) * limit // first of a batch
			case 2:
				at = (at/limit)*limit + limit - 1 // last of a batch
				if at >= size {
					at = size - 1
				}
			}
		}
		rp := mk(size, limit, r.Chance(1, 3), brk, at, delay)
		if delay == 0 && size <= 60 && r.Chance(1, 2) {
			rp.Forced = true
		}
		do(rp, "random")
	}

	res.ModelCases = cases.Len()
	if err := cases.Write(o.Out); err != nil {
		panic(err)
	}
	res.Write(o.Out)
}
