// Package poolh: helpers shared by the TempPool harnesses (c22, c23, c24, c38).
package poolh

import (
	"fmt"

	"github.com/spikeekips/mitum/base"
	"github.com/spikeekips/mitum/isaac"
	isaacdatabase "github.com/spikeekips/mitum/isaac/database"
	leveldbstorage "github.com/spikeekips/mitum/storage/leveldb"
	"github.com/spikeekips/mitum/util/encoder"
	jsonenc "github.com/spikeekips/mitum/util/encoder/json"
)

func must(err error) {
	if err != nil {
		panic(err)
	}
}

// Encoders returns a JSON encoder set that knows every hinted type the pool harnesses store.
func Encoders() (*encoder.Encoders, encoder.Encoder) {
	enc := jsonenc.NewEncoder()
	encs := encoder.NewEncoders(enc, enc)
	for _, d := range []encoder.DecodeDetail{
		{Hint: base.MPublickeyHint, Instance: &base.MPublickey{}},
		{Hint: base.StringAddressHint, Instance: base.StringAddress{}},
		{Hint: isaac.SuffrageExpelOperationHint, Instance: isaac.SuffrageExpelOperation{}},
		{Hint: isaac.SuffrageExpelFactHint, Instance: isaac.SuffrageExpelFact{}},
		{Hint: isaac.ProposalFactHint, Instance: isaac.ProposalFact{}},
		{Hint: isaac.ProposalSignFactHint, Instance: isaac.ProposalSignFact{}},
		{Hint: isaac.INITBallotSignFactHint, Instance: isaac.INITBallotSignFact{}},
		{Hint: isaac.INITBallotFactHint, Instance: isaac.INITBallotFact{}},
		{Hint: isaac.INITBallotHint, Instance: isaac.INITBallot{}},
		{Hint: isaac.ACCEPTBallotSignFactHint, Instance: isaac.ACCEPTBallotSignFact{}},
		{Hint: isaac.ACCEPTBallotFactHint, Instance: isaac.ACCEPTBallotFact{}},
		{Hint: isaac.ACCEPTBallotHint, Instance: isaac.ACCEPTBallot{}},
		{Hint: isaac.SuffrageConfirmBallotFactHint, Instance: isaac.SuffrageConfirmBallotFact{}},
		{Hint: isaac.DummyOperationFactHint, Instance: isaac.DummyOperationFact{}},
		{Hint: isaac.DummyOperationHint, Instance: isaac.DummyOperation{}},
	} {
		must(encs.AddDetail(d))
	}
	return encs, enc
}

// NewPool returns a fresh TempPool on an in-memory leveldb, and that raw storage.
func NewPool() (*isaacdatabase.TempPool, *leveldbstorage.Storage) {
	encs, enc := Encoders()
	st := leveldbstorage.NewMemStorage()
	p, err := isaacdatabase.NewTempPool(st, encs, enc, 0)
	must(err)
	return p, st
}

// Key returns a private key derived deterministically from (seed, i).
func Key(seed uint64, i int) base.Privatekey {
	k, err := base.NewMPrivatekeyFromSeed(fmt.Sprintf("verif-poolh-key-seed-%020d-%06d-padding-padding", seed, i))
	must(err)
	return k
}

// Addr returns the i-th fixed node address.
func Addr(i int) base.Address { return base.NewStringAddress(fmt.Sprintf("node%03d", i)) }

// GateEncoder wraps an encoder; Gate (when set) is called at the start of every Marshal: an injectable yield
// point between the Exists and the Put/Batch of TempPool.SetBallot / SetProposal / SetOperation.
type GateEncoder struct {
	encoder.Encoder
	Gate func(v interface{})
}

func (g *GateEncoder) Marshal(v interface{}) ([]byte, error) {
	if f := g.Gate; f != nil {
		f(v)
	}
	return g.Encoder.Marshal(v)
}

// NewGatedPool returns a fresh TempPool whose write encoder is a GateEncoder.
func NewGatedPool() (*isaacdatabase.TempPool, *GateEncoder) {
	encs, enc := Encoders()
	g := &GateEncoder{Encoder: enc}
	p, err := isaacdatabase.NewTempPool(leveldbstorage.NewMemStorage(), encs, g, 0)
	must(err)
	return p, g
}
