package poolh

import (
	"bufio"
	"flag"
	"io"
	"os"
	"os/exec"
)

// Child-process isolation: code of /repo that may panic (also inside worker goroutines, which cannot be
// recovered by the caller) runs in a re-exec'ed copy of the harness.  Protocol: one request per line on stdin,
// one reply per line on stdout (JSON without raw newlines).

var childFlag = flag.Bool("poolh-child", false, "internal: serve requests on stdin")

// IsChild reports whether this process was started as a child (call after flag.Parse).
func IsChild() bool { return *childFlag }

// Serve runs the child loop.
func Serve(handle func(req []byte) []byte) {
	in := bufio.NewReaderSize(os.Stdin, 1<<20)
	out := bufio.NewWriter(os.Stdout)
	for {
		line, err := in.ReadBytes('\n')
		if len(line) > 0 {
			rep := handle(line)
			out.Write(rep)
			out.WriteByte('\n')
			out.Flush()
		}
		if err != nil {
			return
		}
	}
}

type Child struct {
	cmd     *exec.Cmd
	in      io.WriteCloser
	out     *bufio.Reader
	Crashes int
	LastErr string
	stderr  *tailBuf
}

type tailBuf struct{ b []byte }

func (t *tailBuf) Write(p []byte) (int, error) {
	t.b = append(t.b, p...)
	if len(t.b) > 1<<16 {
		t.b = t.b[len(t.b)-1<<15:]
	}
	return len(p), nil
}

func (c *Child) start() {
	c.cmd = exec.Command(os.Args[0], "-poolh-child")
	c.stderr = &tailBuf{}
	c.cmd.Stderr = c.stderr
	var err error
	if c.in, err = c.cmd.StdinPipe(); err != nil {
		panic(err)
	}
	so, err := c.cmd.StdoutPipe()
	if err != nil {
		panic(err)
	}
	c.out = bufio.NewReaderSize(so, 1<<20)
	if err := c.cmd.Start(); err != nil {
		panic(err)
	}
}

// Call sends one request; crashed = the child died before replying (it is restarted on the next Call).
// The tail of the child's stderr (panic message) is returned in that case.
func (c *Child) Call(req []byte) (rep []byte, crashed bool, stderrTail string) {
	if c.cmd == nil {
		c.start()
	}
	_, werr := c.in.Write(append(append([]byte{}, req...), '\n'))
	var line []byte
	var rerr error
	if werr == nil {
		line, rerr = c.out.ReadBytes('\n')
	}
	if werr != nil || rerr != nil {
		c.in.Close()
		_ = c.cmd.Wait()
		tail := string(c.stderr.b)
		if len(tail) > 600 {
			tail = tail[:600]
		}
		c.cmd = nil
		c.Crashes++
		return nil, true, tail
	}
	return line[:len(line)-1], false, ""
}

func (c *Child) Close() {
	if c.cmd != nil {
		c.in.Close()
		_ = c.cmd.Wait()
		c.cmd = nil
	}
}
