#!/bin/sh
# usage: selftest/run_selftest.sh Cxx   -- runs ./check Cxx --tier quick with every overlay under selftest/Cxx/
cd "$(dirname "$0")/.." || exit 2
for d in selftest/$1/*/; do
  [ -f "$d/overlay.json" ] || continue
  out=$(./check "$1" --tier quick --overlay "$d/overlay.json" 2>&1); rc=$?
  v=$(printf '%s\n' "$out" | grep -c '^VIOLATION')
  echo "$(basename "$d"): exit=$rc violation_lines=$v  [$(cat "$d/README" | tr -d '\n')]"
  printf '%s\n' "$out" | grep -E '^(FAILING-INPUT|BROKEN|ERROR)' | cut -c1-300 | head -3
done
