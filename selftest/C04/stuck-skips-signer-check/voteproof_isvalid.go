package isaac

import (
	"github.com/spikeekips/mitum/base"
	"github.com/spikeekips/mitum/util"
)

func IsValidVoteproofWithSuffrage(vp base.Voteproof, suf base.Suffrage) error {
	e := util.ErrInvalid.Errorf("invalid voteproof with suffrage")

	if vp == nil {
		return e.Errorf("nil voteproof")
	}

	var expels []base.SuffrageExpelOperation

	if w, ok := vp.(base.HasExpels); ok {
		expels = w.Expels()
	}

	th := vp.Threshold()
	rsuf := suf

	if len(expels) > 0 {
		for i := range expels {
			if err := IsValidExpelWithSuffrage(vp.Point().Height(), expels[i], suf); err != nil {
				return e.Wrap(err)
			}
		}

		switch i, err := NewSuffrageWithExpels(suf, vp.Threshold(), expels); {
		case err != nil:
			return e.Wrap(err)
		default:
			rsuf = i
			th = base.MaxThreshold
		}
	}

	if _, ok := vp.(base.StuckVoteproof); ok {
		if suf.Len() != len(vp.SignFacts())+len(expels) {
			return e.Errorf("not enough sign facts with expels")
		}

		return nil
	}

	if err := base.IsValidVoteproofWithSuffrage(vp, rsuf, th); err != nil {
		return e.Wrap(err)
	}

	return nil
}
