#!/bin/sh
# runs every self-test mutant of C04/C05 through the driver; prints one line per mutant
mkdir -p /tmp/c04-selftest; cd /verif
for p in C04 C05; do
  for d in selftest/$p/*/; do
    n=$(basename $d)
    ./check $p --tier quick --overlay $d/overlay.json > /tmp/c04-selftest/st-$p-$n.log 2>&1
    rc=$?
    echo "$p $n exit=$rc $(grep -c VIOLATION /tmp/c04-selftest/st-$p-$n.log) $(grep -o 'oracle_failures=[0-9]*' /tmp/c04-selftest/st-$p-$n.log) $(grep -o 'mismatches=[0-9]*' /tmp/c04-selftest/st-$p-$n.log) $(grep -o 'theorems=[0-9/]*' /tmp/c04-selftest/st-$p-$n.log)"
  done
done
# cross: the C05 prefix mutant must also break C04; the C04 harmless rewrite must keep C05 green
./check C04 --tier quick --overlay selftest/C05/clean-wrong-prefix/overlay.json > /tmp/c04-selftest/st-C04-x-prefix.log 2>&1; echo "C04 x clean-wrong-prefix exit=$?"
./check C05 --tier quick --overlay selftest/C04/harmless-rewrite/overlay.json > /tmp/c04-selftest/st-C05-x-harmless.log 2>&1; echo "C05 x harmless-rewrite exit=$?"
# restore generated files for the unchanged tree
./check C05 --tier quick > /tmp/c04-selftest/st-final05.log 2>&1; echo "C05 unchanged exit=$?"
./check C04 --tier quick > /tmp/c04-selftest/st-final04.log 2>&1; echo "C04 unchanged exit=$?"
