#!/usr/bin/env python3
"""Regenerates the replacement files of selftest/C19/* and selftest/C20/* from the CURRENT /repo sources
(the overlays replace whole files: run this after /repo changed, so that a mutant contains only its own edit).
usage: python3 selftest/regen_c19_c20.py"""
import json, os, sys
C = '/repo/isaac/database/center.go'
P = '/repo/isaac/database/perm_leveldb.go'
L = '/repo/isaac/database/leveldb.go'
PURGE = """	// NOTE purge old items from stcache
	if err := temp.iterStateKeys(func(stateKey string) (bool, error) {
		db.basePermanent.removeStateFromCache(stateKey)

		return true, nil
	}); err != nil {
		return e.Wrap(err)
	}
"""
M = {
 'C19/m1_blockmap_offbyone': (C, [("""func (db *Center) BlockMap(height base.Height) (base.BlockMap, bool, error) {
	switch temps := db.activeTemps(); {
	case len(temps) < 1:
	case temps[0].Height() < height:""", """func (db *Center) BlockMap(height base.Height) (base.BlockMap, bool, error) {
	switch temps := db.activeTemps(); {
	case len(temps) < 1:
	case temps[0].Height() <= height:""")]),
 'C19/m2_policy_oldest_first': (C, [("""	for i := range temps {
		if i := temps[i].NetworkPolicy(); i != nil {
			return i
		}
	}""", """	for j := range temps {
		if i := temps[len(temps)-1-j].NetworkPolicy(); i != nil {
			return i
		}
	}""")]),
 'C19/m3_stale_state_cache': (P, [(PURGE, "")]),
 'C19/m4_sufbh_limit_offbyone': (P, [("r.Limit = leveldbSuffrageProofByBlockHeightKey(height + 1)", "r.Limit = leveldbSuffrageProofByBlockHeightKey(height)")]),
 'C19/m5_revert_fix_suffrage_in_temps': (C, [("""		case sh != suffrageHeight:
			continue end""", """		case sh > suffrageHeight:
			continue end""")]),
 'C19/m6_state_perm_first': (C, [("""	l := util.EmptyLocked[base.State]()

	if err := db.state(key, func(key string, p isaac.TempDatabase) (bool, error) {
		switch st, found, err := p.State(key); {""", """	l := util.EmptyLocked[base.State]()

	pst, pfound, perr := db.perm.State(key)

	if err := db.state(key, func(key string, p isaac.TempDatabase) (bool, error) {
		switch st, found, err := p.State(key); {"""), ("""	if i, _ := l.Value(); i != nil {
		return i, true, nil
	}

	st, found, err := db.perm.State(key)
	if err != nil {
		return nil, false, e.Wrap(err)
	}

	return st, found, nil
}""", """	if i, _ := l.Value(); i != nil {
		return i, true, nil
	}

	if perr != nil {
		return nil, false, e.Wrap(perr)
	}

	return pst, pfound, nil
}""")]),
 'C19/m7_revert_fix_state_cache_race': (P, [("""	db.RLock()
	defer db.RUnlock()

	pst := db.pst
	if pst == nil {
		return nil, false, storage.ErrClosed.WithStack()
	}

	switch b, found, err := pst.Get(leveldbStateKey(key)); {""", """	pst, err := db.st()
	if err != nil {
		return nil, false, err
	}

	switch b, found, err := pst.Get(leveldbStateKey(key)); {""")]),
 'C19/m8_purge_only_without_write_cache': (P, [(PURGE, """	// NOTE purge old items from stcache, only the states which the temp
	// database does not keep in it's own state cache
	if err := temp.iterStateKeys(func(stateKey string) (bool, error) {
		if temp.stcache != nil {
			return true, nil
		}

		db.basePermanent.removeStateFromCache(stateKey)

		return true, nil
	}); err != nil {
		return e.Wrap(err)
	}
""")]),
 'C19/m9_merge_drops_key_at_batch_boundary': (P, [("""			batch = pst.NewBatch()
		}

		batch.Put(k, v)

		return true, nil""", """			batch = pst.NewBatch()

			return true, nil
		}

		batch.Put(k, v)

		return true, nil""")]),
 'C19/h1_harmless_rewrite': (C, [("""	for i := range temps {
		if i := temps[i].NetworkPolicy(); i != nil {
			return i
		}
	}""", """	for idx := range temps {
		if policy := temps[idx].NetworkPolicy(); policy != nil {
			return policy
		}
	}"""), ("""	proof, found, err := db.perm.SuffrageProof(suffrageHeight)
	if err != nil {
		return nil, false, e.Wrap(err)
	}

	return proof, found, nil""", """	switch permproof, permfound, err := db.perm.SuffrageProof(suffrageHeight); {
	case err != nil:
		return nil, false, e.Wrap(err)
	default:
		return permproof, permfound, nil
	}""")]),
 'C20/m1_revert_fix_body': (P, [("""			meta = m
			body = bd
""", """			meta = m
			_ = bd
""")]),
 'C20/m2_lastmap_ascending': (L, [("""			return false, DecodeFrame(db.encs, enchint, body, &m)
		},
		false,
	); err != nil {""", """			return false, DecodeFrame(db.encs, enchint, body, &m)
		},
		true,
	); err != nil {""")]),
 'C20/m3_no_policy_on_reopen': (P, [("""	if err := db.loadNetworkPolicy(); err != nil {
		return nil, err
	}

	return db, nil
}

func (db *LeveldbPermanent) Clean() error {""", """	return db, nil
}

func (db *LeveldbPermanent) Clean() error {""")]),
 'C20/m4_loadtemps_offbyone': (C, [("""		switch temp, err := loadTemp(st, last+1, encs, enc); {""", """		switch temp, err := loadTemp(st, last+2, encs, enc); {""")]),
 'C20/m5_merge_drops_key_at_batch_boundary': (P, [("""			batch = pst.NewBatch()
		}

		batch.Put(k, v)

		return true, nil""", """			batch = pst.NewBatch()

			return true, nil
		}

		batch.Put(k, v)

		return true, nil""")]),
}
READMES = {
 'C19/m9_merge_drops_key_at_batch_boundary': "mutant: the permanent merge returns right after flushing a full batch, so the key that triggered the flush (every 334th) is never written. Needs a block with more keys than LeveldbPermanent.batchlimit (BIG corpus block). Expect VIOLATION read-mismatch:State / ExistsKnownOperation.",
 'C20/m5_merge_drops_key_at_batch_boundary': "mutant: the permanent merge returns right after flushing a full batch, so every 334th key of a big block is lost from the permanent storage. Expect VIOLATION read-mismatch:State / ExistsKnownOperation and reopen-read:ExistsInStateOperation (true from the merged cache before the reopen, false after).",
}
bad = 0
for name, (path, edits) in M.items():
    d = os.path.join('/verif/selftest', name)
    os.makedirs(d, exist_ok=True)
    src = open(path).read()
    for old, new in edits:
        if old not in src:
            print('STALE EDIT (source changed):', name, repr(old[:50])); bad += 1
            continue
        src = src.replace(old, new, 1)
    fn = os.path.join(d, os.path.basename(path))
    open(fn, 'w').write(src)
    json.dump({"Replace": {path: fn}}, open(os.path.join(d, 'overlay.json'), 'w'), indent=1)
    if name in READMES:
        open(os.path.join(d, 'README'), 'w').write(READMES[name] + "\n")
print('regenerated %d mutants, %d stale edits' % (len(M), bad))
sys.exit(1 if bad else 0)
