#!/usr/bin/env python3
"""Regenerates the self-test mutants of C22/C23/C24/C38 from the *current* /repo sources by exact string
replacement (each pattern must match exactly once), so that they stay in step with fix: commits.
Usage: python3 selftest/mkmutants_pool.py [Cxx ...]      (writes selftest/Cxx/<name>/{overlay.json,<file>,README})"""
import json, os, sys

VERIF = os.path.dirname(os.path.dirname(os.path.abspath(__file__)))
REPO = os.environ.get("VERIF_REPO", "/repo")
POOL = "isaac/database/pool.go"
MAKER = "isaac/proposal_maker.go"

# (property, name, file, [(old, new), ...], expect, readme)
MUTANTS = []


def m(prop, name, file, subs, expect, readme):
    MUTANTS.append((prop, name, file, subs, expect, readme))


# ---------------------------------------------------------------- C23
TRAV_OLD = """			case r.End() < heighti, r.Start() > heighti:
				return true, nil
			default:
				if err := DecodeFrame(db.encs, enchint, opb, &op); err != nil {"""
m("C23", "traverse_stops_early", POOL,
  [(TRAV_OLD, TRAV_OLD.replace("return true, nil", "return false, nil"))],
  "VIOLATION", "TraverseSuffrageExpelOperations stops at the first non-covering record (the defect fixed by 7621776)")
LOOK_OLD = """			case !bytes.Equal(nodeb, r.Node()):
				return true, nil
			case r.End() < heighti, r.Start() > heighti:
				return true, nil
"""
m("C23", "lookup_stops_early", POOL,
  [(LOOK_OLD, LOOK_OLD.replace("heighti:\n\t\t\t\treturn true, nil", "heighti:\n\t\t\t\treturn false, nil"))],
  "VIOLATION", "SuffrageExpelOperation gives up at the node's first non-covering record")
m("C23", "remove_height_strict", POOL,
  [("\t\t\tcase r.End() > heighti:\n\t\t\t\treturn true, nil\n", "\t\t\tcase r.End() >= heighti:\n\t\t\t\treturn true, nil\n")],
  "VIOLATION", "RemoveSuffrageExpelOperationsByHeight keeps records that end exactly at the height (< instead of <=)")
m("C23", "traverse_end_off_by_one", POOL,
  [(TRAV_OLD, TRAV_OLD.replace("r.End() < heighti", "r.End() <= heighti"))],
  "VIOLATION", "traversal treats end == height as not covering")
m("C23", "harmless_ascending_reordered", POOL,
  [(TRAV_OLD + """
					return false, err
				}

				return callback(op)
			}
		}, false); err != nil {""",
    TRAV_OLD.replace("case r.End() < heighti, r.Start() > heighti:", "case r.Start() > heighti, r.End() < heighti:") + """
					return false, err
				}

				return callback(op)
			}
		}, true); err != nil {""")],
  "OK", "harmless: traversal iterates ascending and tests the two bounds in the other order")

# ---------------------------------------------------------------- C22
DUP = """			if prev, found := facts[factkey]; found {
				removeops = append(removeops, ops[prev][0])
				ops[prev] = [2]util.Hash{}

				selected--
			}
"""
m("C22", "keep_first_per_fact", POOL,
  [(DUP, """			if _, found := facts[factkey]; found {
				removeops = append(removeops, meta.Operation())

				return true, nil
			}
""")],
  "VIOLATION", "on a repeated fact the first operation is kept and the newer one removed")
m("C22", "limit_off_by_one_more", POOL,
  [("			return selected < limit, nil\n", "			return selected <= limit, nil\n")],
  "VIOLATION", "stops one selection too late: limit+1 entries")
m("C22", "limit_off_by_one_less", POOL,
  [("			return selected < limit, nil\n", "			return selected+1 < limit, nil\n")],
  "VIOLATION", "stops one selection too early: limit-1 entries although more pass (limit 1 still returns 1)")
m("C22", "filter_result_ignored", POOL,
  [("""			case !ok:
				removeops = append(removeops, meta.Operation())

				return true, nil
			}
""", """			case !ok:
				_ = ok
			}
""")],
  "VIOLATION", "the filter's false answer is ignored")
m("C22", "removes_returned_op", POOL,
  [("				removeops = append(removeops, ops[prev][0])\n", "				removeops = append(removeops, meta.Operation())\n")],
  "VIOLATION", "the newly selected operation instead of the superseded one is recorded as removed (part of the defect fixed by a71f6ef)")
m("C22", "stale_index_after_shift", POOL,
  [("				ops[prev] = [2]util.Hash{}\n", "				ops = append(ops[:prev:prev], ops[prev+1:]...)\n")],
  "VIOLATION", "the superseded slot is removed by shifting without re-indexing the fact map (the defect fixed by a71f6ef)")
m("C22", "set_not_idempotent", POOL,
  [("""	key, orderedkey := newNewOperationLeveldbKeys(op.Hash())

	switch found, err := pst.Exists(key); {
	case err != nil:
		return false, e.Wrap(err)
	case found:
		return false, nil
	}
""", """	key, orderedkey := newNewOperationLeveldbKeys(op.Hash())

	switch _, err := pst.Exists(key); {
	case err != nil:
		return false, e.Wrap(err)
	}
""")],
  "VIOLATION", "SetOperation stores an already known operation again")
m("C22", "harmless_reordered", POOL,
  [("""	if err := db.removeNewOperationOrdereds(removeordereds); err != nil {
		return nil, e.Wrap(err)
	}

	if err := db.setRemoveNewOperations(ctx, height, removeops); err != nil {
		return nil, e.Wrap(err)
	}

	selectedops := make([][2]util.Hash, 0, selected)

	for i := range ops {
		if ops[i][0] != nil {
			selectedops = append(selectedops, ops[i])
		}
	}
""", """	var picked [][2]util.Hash

	for _, item := range ops {
		if item[0] == nil {
			continue
		}

		picked = append(picked, item)
	}

	selectedops := picked

	if err := db.setRemoveNewOperations(ctx, height, removeops); err != nil {
		return nil, e.Wrap(err)
	}

	if err := db.removeNewOperationOrdereds(removeordereds); err != nil {
		return nil, e.Wrap(err)
	}
""")],
  "OK", "harmless: compaction before the removals, the two removal calls swapped, locals renamed")

# ---------------------------------------------------------------- C24
BL_LOCK = """	db.setBallotLock.Lock()
	defer db.setBallotLock.Unlock()
"""
PR_LOCK = """	db.setProposalLock.Lock()
	defer db.setProposalLock.Unlock()
"""
m("C24", "ballot_no_lock", POOL, [(BL_LOCK, "")],
  "VIOLATION", "SetBallot without the mutex (the defect fixed by dc3d60d)")
m("C24", "proposal_no_lock", POOL, [(PR_LOCK, "")],
  "VIOLATION", "SetProposal without the mutex (the defect fixed by dc3d60d)")
m("C24", "proposal_overwrites_fact", POOL,
  [("""	switch found, err := pst.Exists(key); {
	case err != nil:
		return false, e.Wrap(err)
	case found:
		return false, nil
	}

	batch := pst.NewBatch()
	defer batch.Reset()

	_, prb, err := EncodeFrame(db.enc, nil, pr)""", """	switch _, err := pst.Exists(key); {
	case err != nil:
		return false, e.Wrap(err)
	}

	batch := pst.NewBatch()
	defer batch.Reset()

	_, prb, err := EncodeFrame(db.enc, nil, pr)""")],
  "VIOLATION", "SetProposal overwrites the proposal already stored for the fact")
m("C24", "ballot_overwrites", POOL,
  [("""	switch found, err := pst.Exists(key); {
	case err != nil:
		return false, e.Wrap(err)
	case found:
		return false, nil
	default:
		_, b, err := EncodeFrame(db.enc, nil, bl)""", """	switch _, err := pst.Exists(key); {
	case err != nil:
		return false, e.Wrap(err)
	default:
		_, b, err := EncodeFrame(db.enc, nil, bl)""")],
  "VIOLATION", "SetBallot overwrites the ballot already stored")
m("C24", "clean_one_too_shallow", POOL,
  [("""		for range make([]int, deep) {
			height = height.SafePrev()
		}""", """		for range make([]int, deep-1) {
			height = height.SafePrev()
		}""")],
  "VIOLATION", "clean-up removes entries only depth-1 below the newest height")
m("C24", "clean_keeps_boundary", POOL,
  [("		if j != nil && j.(base.Height) > height {                         //nolint:forcetypeassert //...",
    "		if j != nil && j.(base.Height) >= height {                        //nolint:forcetypeassert //...")],
  "VIOLATION", "clean-up keeps the entries exactly depth below the newest height (model mismatch only: the property says 'only', so no oracle failure)")
m("C24", "ballot_key_ignores_flag", "isaac/database/leveldb.go",
  [("""	s := []byte("-")
	if isSuffrageConfirm {
		s = []byte("+")
	}
""", """	s := []byte("-")
	_ = isSuffrageConfirm
""")],
  "VIOLATION", "the ballot key ignores the suffrage-confirm flag")
m("C24", "harmless_key_later", POOL,
  [("""	key := leveldbBallotKey(bl.Point(), isaac.IsSuffrageConfirmBallotFact(bl.SignFact().Fact()))

	var blb []byte
""", """	issc := isaac.IsSuffrageConfirmBallotFact(bl.SignFact().Fact())

	var blb []byte

	key := leveldbBallotKey(bl.Point(), issc)
""")],
  "OK", "harmless: the ballot key is computed in two statements, after the declaration")

# ---------------------------------------------------------------- C38
MAKENEW_LOOKUP = """	switch pr, found, err := p.pool.ProposalByPoint(point, p.local.Address(), previousBlock); {
	case err != nil:
		return nil, errors.WithStack(err)
	case found:
		return pr, nil
	}

	ops, err := p.getOperations(ctx, point.Height())"""
m("C38", "make_skips_pool_lookup", MAKER,
  [(MAKENEW_LOOKUP, "	ops, err := p.getOperations(ctx, point.Height())")],
  "VIOLATION", "makeNew does not consult the pool before making a new proposal")
m("C38", "prefer_empty_skips_pool_lookup", MAKER,
  [("""	switch pr, found, err := p.pool.ProposalByPoint(point, p.local.Address(), previousBlock); {
	case err != nil:
		return nil, err
	case found:
		return pr, nil
	}

	pr, err := p.makeProposal(point, previousBlock, nil)""", "	pr, err := p.makeProposal(point, previousBlock, nil)")],
  "VIOLATION", "preferEmpty does not consult the pool")
m("C38", "make_no_lock", MAKER,
  [("""	ctx context.Context, point base.Point, previousBlock util.Hash,
) (base.ProposalSignFact, error) {
	p.l.Lock()
	defer p.l.Unlock()

	e := util.StringError("make proposal, %q", point)""", """	ctx context.Context, point base.Point, previousBlock util.Hash,
) (base.ProposalSignFact, error) {
	e := util.StringError("make proposal, %q", point)""")],
  "VIOLATION", "Make does not take the maker's mutex")
m("C38", "lookup_wrong_key", MAKER,
  [(MAKENEW_LOOKUP, MAKENEW_LOOKUP.replace("p.pool.ProposalByPoint(point, p.local.Address(), previousBlock)", "p.pool.ProposalByPoint(point.NextRound(), p.local.Address(), previousBlock)"))],
  "VIOLATION", "makeNew looks the pool up under the next round's key")
m("C38", "harmless_reordered_checks", MAKER,
  [("""	case point.Height() > m.Manifest().Height()+1: // NOTE empty proposal for unreachable point
		pr, err := p.preferEmpty(context.Background(), point, previousBlock)

		return pr, e.Wrap(err)
	case point.Height() == m.Manifest().Height()+1 && !previousBlock.Equal(m.Manifest().Hash()):
		pr, err := p.preferEmpty(context.Background(), point, previousBlock)

		return pr, e.Wrap(err)
	}""", """	case point.Height() == m.Manifest().Height()+1 && !m.Manifest().Hash().Equal(previousBlock),
		point.Height() > m.Manifest().Height()+1: // NOTE empty proposal for unreachable point
		empty, err := p.preferEmpty(context.Background(), point, previousBlock)

		return empty, e.Wrap(err)
	}""")],
  "OK", "harmless: the two empty-proposal cases merged and swapped")

m("C38", "pool_fact_index_written_once", POOL,
  [("""			if prev, found := facts[factkey]; found {
				removeops = append(removeops, ops[prev][0])
				ops[prev] = [2]util.Hash{}

				selected--
			}

			ops = append(ops, [2]util.Hash{meta.Operation(), meta.Fact()})
			facts[factkey] = len(ops) - 1
			selected++
""", """			switch prev, found := facts[factkey]; {
			case found:
				removeops = append(removeops, ops[prev][0])
				ops[prev] = [2]util.Hash{}

				selected--
			default:
				facts[factkey] = len(ops)
			}

			ops = append(ops, [2]util.Hash{meta.Operation(), meta.Fact()})
			selected++
""")],
  "VIOLATION", "OperationHashes writes the fact index only the first time a fact is seen: with 3 operations of one fact the proposal lists the fact twice (seeded/C38-A)")

# ---------------------------------------------------------------- round 2 (seeded/C23-D, C24-C, C24-D)
m("C23", "lookup_cache_not_purged_by_height", POOL,
  [("	opcache                           util.GCache[string, base.Operation]\n	cleanRemovedNewOperationsInterval time.Duration\n",
    "	opcache                           util.GCache[string, base.Operation]\n	expelopcache                      util.GCache[string, base.SuffrageExpelOperation]\n	cleanRemovedNewOperationsInterval time.Duration\n"),
   ("		opcache:                           opcache,\n	}\n",
    "		opcache:                           opcache,\n		expelopcache:                      util.NewLRUGCache[string, base.SuffrageExpelOperation](1 << 9),\n	}\n"),
   ("	nodeb := node.Bytes()\n	heighti := height.Int64()\n\n	var enchint string\n",
    "	cachekey := height.String() + \"-\" + node.String()\n	if op, found := db.expelopcache.Get(cachekey); found {\n		return op, true, nil\n	}\n\n	nodeb := node.Bytes()\n	heighti := height.Int64()\n\n	var enchint string\n"),
   ("	if err := DecodeFrame(db.encs, enchint, opb, &op); err != nil {\n		return nil, false, e.Wrap(err)\n	}\n\n	return op, true, nil\n}\n",
    "	if err := DecodeFrame(db.encs, enchint, opb, &op); err != nil {\n		return nil, false, e.Wrap(err)\n	}\n\n	db.expelopcache.Set(cachekey, op, 0)\n\n	return op, true, nil\n}\n"),
   ("	if err := pst.Put(newSuffrageExpelOperationKey(op.ExpelFact()), opb, nil); err != nil {\n		return e.Wrap(err)\n	}\n\n	return nil\n",
    "	if err := pst.Put(newSuffrageExpelOperationKey(op.ExpelFact()), opb, nil); err != nil {\n		return e.Wrap(err)\n	}\n\n	db.expelopcache.Purge()\n\n	return nil\n"),
   ("	for i := range facts {\n		batch.Delete(newSuffrageExpelOperationKey(facts[i]))\n	}\n\n	if err := pst.Batch(batch, nil); err != nil {\n		return e.Wrap(err)\n	}\n\n	return nil\n",
    "	for i := range facts {\n		batch.Delete(newSuffrageExpelOperationKey(facts[i]))\n	}\n\n	if err := pst.Batch(batch, nil); err != nil {\n		return e.Wrap(err)\n	}\n\n	db.expelopcache.Purge()\n\n	return nil\n")],
  "VIOLATION", "lookup cache purged by Set and RemoveByFact but not by RemoveByHeight: a removed operation is still found (seeded/C23-D)")
m("C24", "ballot_key_flag_from_expels", POOL,
  [("	key := leveldbBallotKey(bl.Point(), isaac.IsSuffrageConfirmBallotFact(bl.SignFact().Fact()))\n",
    "	issc := false\n	if f, ok := bl.SignFact().Fact().(isaac.ExpelBallotFact); ok && bl.Point().Stage() == base.StageINIT {\n		issc = len(f.ExpelFacts()) > 0\n	}\n\n	key := leveldbBallotKey(bl.Point(), issc)\n")],
  "VIOLATION", "the suffrage-confirm flag of the ballot key is derived from 'INIT ballot with expel facts' (seeded/C24-C)")
m("C24", "proposal_known_by_point_key", POOL,
  [("""	key := leveldbProposalKey(pr.Fact().Hash())

	// NOTE exists and put should be one step; without lock, the concurrent
	// callers with the same fact can pass exists together.
	db.setProposalLock.Lock()
	defer db.setProposalLock.Unlock()

	switch found, err := pst.Exists(key); {""", """	key := leveldbProposalPointKey(pr.ProposalFact().Point(), pr.ProposalFact().Proposer(), pr.ProposalFact().PreviousBlock())

	// NOTE exists and put should be one step; without lock, the concurrent
	// callers with the same fact can pass exists together.
	db.setProposalLock.Lock()
	defer db.setProposalLock.Unlock()

	switch found, err := pst.Exists(key); {""")],
  "VIOLATION", "SetProposal's already-known check uses the point key: a second fact of the position is refused and not stored by hash (seeded/C24-D)")

m("C38", "set_proposal_error_ignored", MAKER,
  [("""	if _, err := p.pool.SetProposal(signfact); err != nil {
		return sf, err
	}
""", """	if _, err := p.pool.SetProposal(signfact); err != nil {
		p.Log().Error().Err(err).Msg("failed to save proposal in pool")
	}
""")],
  "VIOLATION", "makeProposal only logs a failed pool write and hands the proposal out: asked again, the node signs another one (seeded/C38-D)")


def main():
    want = set(sys.argv[1:])
    for prop, name, file, subs, expect, readme in MUTANTS:
        if want and prop not in want:
            continue
        src = open(os.path.join(REPO, file)).read()
        for old, new in subs:
            if src.count(old) != 1:
                sys.exit("mutant %s/%s: pattern matches %d times in %s:\n%s" % (prop, name, src.count(old), file, old))
            src = src.replace(old, new)
        d = os.path.join(VERIF, "selftest", prop, name)
        os.makedirs(d, exist_ok=True)
        out = os.path.join(d, os.path.basename(file))
        open(out, "w").write(src)
        json.dump({"Replace": {os.path.join(REPO, file): out}}, open(os.path.join(d, "overlay.json"), "w"))
        open(os.path.join(d, "README"), "w").write("%s  (expected: %s)\n" % (readme, expect))
        print("%s/%s -> %s" % (prop, name, expect))


if __name__ == "__main__":
    main()
