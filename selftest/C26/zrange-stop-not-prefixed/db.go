package redisstorage

import (
	"context"
	"sync"

	"github.com/pkg/errors"
	"github.com/redis/go-redis/v9"
	"github.com/spikeekips/mitum/storage"
	"github.com/spikeekips/mitum/util"
)

type Storage struct {
	client *redis.Client
	prefix string
	l      sync.RWMutex
}

func NewStorage(ctx context.Context, opt *redis.Options, prefix string) (*Storage, error) {
	st := &Storage{
		prefix: prefix,
	}

	if err := st.connect(ctx, opt); err != nil {
		return nil, err
	}

	return st, nil
}

func (st *Storage) Connect(ctx context.Context) error {
	st.l.Lock()
	defer st.l.Unlock()

	return st.connect(ctx, st.client.Options())
}

func (st *Storage) connect(ctx context.Context, opt *redis.Options) error {
	client := redis.NewClient(opt)
	if err := client.Ping(ctx).Err(); err != nil {
		return storage.ErrConnection.WithMessage(err, "connect to redis server")
	}

	st.client = client

	return nil
}

func (st *Storage) Close() error {
	st.l.Lock()
	defer st.l.Unlock()

	if err := st.client.Close(); err != nil {
		return storage.ErrInternal.WithMessage(err, "close redis client")
	}

	return nil
}

func (st *Storage) key(key string) string {
	return st.prefix + "-" + key
}

func (st *Storage) unkey(s string) string {
	i := st.prefix + "-"
	if len(s) < len(i)+1 {
		return s
	}

	return s[len(i):]
}

func (st *Storage) Get(ctx context.Context, key string) (b []byte, found bool, _ error) {
	r := st.client.Get(ctx, st.key(key))

	switch {
	case r.Err() == nil:
		return []byte(r.Val()), true, nil
	case errors.Is(r.Err(), redis.Nil):
		return nil, false, nil
	default:
		return nil, false, storage.ErrExec.WithMessage(r.Err(), "get from redis storage")
	}
}

func (st *Storage) Set(ctx context.Context, key string, b []byte) error {
	r := st.client.Set(ctx, st.key(key), b, 0)

	switch {
	case r.Err() != nil:
		return storage.ErrExec.WithMessage(r.Err(), "set from redis storage")
	default:
		return nil
	}
}

func (st *Storage) Exists(ctx context.Context, key string) (bool, error) {
	r := st.client.Exists(ctx, st.key(key))

	switch {
	case r.Err() != nil:
		return false, storage.ErrExec.WithMessage(r.Err(), "exists from redis storage")
	default:
		return r.Val() == 1, nil
	}
}

func (st *Storage) Clean(ctx context.Context) error {
	e := util.StringError("clean redis storage")

	var cursor uint64

	for {
		keys, c, err := st.client.Scan(ctx, cursor, st.prefix+"*", 333).Result() //nolint:mnd // bulk size
		if err != nil {
			return e.Wrap(err)
		}

		cursor = c

		if len(keys) > 0 {
			if _, err := st.client.Del(ctx, keys...).Result(); err != nil {
				return e.Wrap(err)
			}
		}

		if cursor == 0 {
			break
		}
	}

	return nil
}

func (st *Storage) ZAddArgs(ctx context.Context, key string, args redis.ZAddArgs) error {
	for i := range args.Members {
		z := args.Members[i]
		z.Member = st.key(z.Member.(string)) //nolint:forcetypeassert //...
		args.Members[i] = z
	}

	if err := st.client.ZAddArgs(ctx, st.key(key), args).Err(); err != nil {
		return storage.ErrExec.WithMessage(err, "ZAddArgs")
	}

	return nil
}

func (st *Storage) ZRangeArgs(ctx context.Context, z redis.ZRangeArgs, f func(string) (bool, error)) error {
	z.Key = st.key(z.Key)

	if z.ByLex {
		if z.Start != nil {
			zstart := z.Start.(string) //nolint:forcetypeassert //...
			z.Start = zstart[:1] + st.key(zstart[1:])
		}

		if z.Stop != nil {
			zstop := z.Stop.(string) //nolint:forcetypeassert //...
			z.Stop = zstop
		}
	}

	sl, err := st.client.ZRangeArgs(ctx, z).Result()
	if err != nil {
		return storage.ErrExec.WithMessage(err, "ZRangeArgs")
	}

	for i := range sl {
		switch keep, err := f(st.unkey(sl[i])); {
		case err != nil:
			return err
		case !keep:
			return nil
		}
	}

	return nil
}
