package isaac

import (
	"github.com/pkg/errors"
	"github.com/spikeekips/mitum/base"
)

type LastPoint struct {
	base.StagePoint
	isMajority        bool
	isSuffrageConfirm bool
}

func NewLastPoint( //revive:disable-line:flag-parameter
	point base.StagePoint,
	isMajority, isSuffrageConfirm bool,
) (LastPoint, error) {
	if isSuffrageConfirm && point.Stage() != base.StageINIT {
		return LastPoint{}, errors.Errorf("isSuffrageConfirm should be from INIT stage")
	}

	return LastPoint{
		StagePoint:        point,
		isMajority:        isMajority,
		isSuffrageConfirm: isSuffrageConfirm,
	}, nil
}

func NewLastPointFromVoteproof(vp base.Voteproof) (LastPoint, error) {
	var isSuffrageConfirm bool
	if vp.Majority() != nil {
		isSuffrageConfirm = IsSuffrageConfirmBallotFact(vp.Majority())
	}

	return NewLastPoint(
		vp.Point(),
		vp.Result() == base.VoteResultMajority,
		isSuffrageConfirm,
	)
}

func (l LastPoint) IsMajority() bool {
	return l.isMajority
}

func (l LastPoint) IsSuffrageConfirm() bool {
	return l.isSuffrageConfirm
}

func (l LastPoint) Before( //revive:disable-line:flag-parameter
	point base.StagePoint,
	isSuffrageConfirm bool,
) bool {
	if l.IsZero() {
		return true
	}

	if point.Height() != l.Height() {
		return point.Height() > l.Height()
	}

	if point.Point.Equal(l.Point) && point.Stage().Compare(l.Stage()) >= 0 {
		return l.beforeSamePoint(point, isSuffrageConfirm)
	}

	return l.beforeNotSamePoint(point, isSuffrageConfirm)
}

func (l LastPoint) beforeSamePoint( //revive:disable-line:flag-parameter
	point base.StagePoint,
	isSuffrageConfirm bool,
) bool {
	switch {
	case isSuffrageConfirm:
		// NOTE suffrage confirm ballot should be passed under same height and
		// round.
		return !l.isSuffrageConfirm
	case !l.isMajority:
		// NOTE if last is not majority, moves to next round, so higher stage is
		// avoided.
		return false
	default:
		return true
	}
}

func (l LastPoint) beforeNotSamePoint( //revive:disable-line:flag-parameter
	point base.StagePoint,
	isSuffrageConfirm bool,
) bool {
	switch {
	case l.isMajority && point.Stage().Compare(l.Stage()) < 0:
		// NOTE lower stage will be ignored when last is majority.
		return false
	case point.Compare(l.StagePoint) > 0:
		// NOTE lower StagePoint will be ignored.
		return true
	case isSuffrageConfirm && !l.isMajority:
		// NOTE if last is not marjoity, suffrage confirms of same height will
		// be passed.
		return true
	default:
		return false
	}
}

func IsNewVoteproofbyPoint( // revive:disable-line:flag-parameter
	last LastPoint,
	point base.StagePoint,
	isMajority, isSuffrageConfirm bool,
) bool {
	if last.Before(point, isSuffrageConfirm) {
		return true
	}

	if !last.isMajority && isMajority && point.Point.Equal(last.Point) && point.Stage().Compare(last.Stage()) >= 0 {
		return true
	}

	return false
}

func IsNewVoteproof(last LastPoint, vp base.Voteproof) bool {
	return IsNewVoteproofbyPoint(
		last,
		vp.Point(),
		vp.Result() == base.VoteResultMajority,
		IsSuffrageConfirmBallotFact(vp.Majority()),
	)
}

func IsNewBallot(last LastPoint, point base.StagePoint, isSuffrageConfirm bool) bool {
	return last.Before(point, isSuffrageConfirm)
}
