package encoder

import (
	"io"
	"reflect"
	"strings"

	"github.com/pkg/errors"
	"github.com/spikeekips/mitum/util"
	"github.com/spikeekips/mitum/util/hint"
)

var encodersExtensionMap map[hint.Type]string

func init() {
	encodersExtensionMap = map[hint.Type]string{}
}

func Ptr(i interface{}) (ptr, elem reflect.Value) {
	switch j, ok := i.(reflect.Value); {
	case ok:
		elem = j
	default:
		elem = reflect.ValueOf(i)
	}

	if elem.Type().Kind() == reflect.Ptr {
		return elem, elem.Elem()
	}

	if elem.CanAddr() {
		return elem.Addr(), elem
	}

	ptr = reflect.New(elem.Type())
	ptr.Elem().Set(elem)

	return ptr, elem
}

func AnalyzeSetHinter(d DecodeDetail, v interface{}) DecodeDetail {
	if _, ok := v.(hint.SetHinter); !ok {
		return d
	}

	orig := reflect.ValueOf(v)
	_, elem := Ptr(orig)
	isptr := orig.Type().Kind() == reflect.Ptr

	p := d.Decode
	oht := v.(hint.Hinter).Hint() //nolint:forcetypeassert //...

	// NOTE hint.BaseHinter
	if i, j := elem.Type().FieldByName("BaseHinter"); j && i.Type == reflect.TypeOf(hint.BaseHinter{}) {
		d.Decode = func(b []byte, ht hint.Hint) (interface{}, error) {
			i, err := p(b, ht)
			if err != nil {
				return i, errors.WithMessage(err, "decode")
			}

			n := reflect.New(elem.Type())

			switch {
			case isptr:
				n.Elem().Set(reflect.ValueOf(i).Elem())
			default:
				n.Elem().Set(reflect.ValueOf(i))
			}

			x := n.Elem().FieldByName("BaseHinter")
			if !x.IsValid() || !x.CanAddr() {
				return i, nil
			}

			ht = oht

			x.Set(reflect.ValueOf(hint.NewBaseHinter(ht)))

			if isptr {
				return n.Interface(), nil
			}

			return n.Elem().Interface(), nil
		}

		return d
	}

	d.Decode = func(b []byte, ht hint.Hint) (interface{}, error) {
		i, err := p(b, ht)
		if err != nil {
			return i, errors.WithMessage(err, "decode")
		}

		if ht.IsEmpty() {
			ht = oht
		}

		return i.(hint.SetHinter).SetHint(ht), nil //nolint:forcetypeassert //...
	}

	return d
}

func Decode[T any](enc Encoder, b []byte, v *T) error {
	e := util.StringError("decode")

	hinter, err := enc.Decode(b)
	if err != nil {
		return e.Wrap(err)
	}

	if err := util.SetInterfaceValue(hinter, v); err != nil {
		return e.Wrap(err)
	}

	return nil
}

func DecodeReader[T any](enc Encoder, r io.Reader, v *T) error {
	e := util.StringError("DecodeReader")

	b, err := io.ReadAll(r)
	if err != nil {
		return e.WithMessage(err, "reader")
	}

	if err := Decode(enc, b, v); err != nil {
		return e.WithMessage(err, "decode")
	}

	return nil
}

func EncodersExtension(t hint.Type) (string, bool) {
	i, found := encodersExtensionMap[t]

	return i, found
}

func AddEncodersExtension(t hint.Type, ext string) (bool, error) {
	if strings.HasPrefix(ext, ".") {
		return false, errors.Errorf("extension should not have '.' prefix")
	}

	_, found := encodersExtensionMap[t]

	encodersExtensionMap[t] = ext

	return !found, nil
}
