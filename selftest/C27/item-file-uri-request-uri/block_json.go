package isaac

import (
	"encoding/json"
	"net/url"
	"time"

	"github.com/spikeekips/mitum/base"
	"github.com/spikeekips/mitum/util"
	"github.com/spikeekips/mitum/util/encoder"
	"github.com/spikeekips/mitum/util/hint"
	"github.com/spikeekips/mitum/util/localtime"
	"github.com/spikeekips/mitum/util/valuehash"
)

type ManifestJSONMarshaler struct {
	ProposedAt     time.Time `json:"proposed_at"`
	StatesTree     util.Hash `json:"states_tree"`
	Hash           util.Hash `json:"hash"`
	Previous       util.Hash `json:"previous"`
	Proposal       util.Hash `json:"proposal"`
	OperationsTree util.Hash `json:"operations_tree"`
	Suffrage       util.Hash `json:"suffrage"`
	hint.BaseHinter
	Height base.Height `json:"height"`
}

func (m Manifest) MarshalJSON() ([]byte, error) {
	return util.MarshalJSON(ManifestJSONMarshaler{
		BaseHinter:     m.BaseHinter,
		Hash:           m.h,
		Height:         m.height,
		Previous:       m.previous,
		Proposal:       m.proposal,
		OperationsTree: m.operationsTree,
		StatesTree:     m.statesTree,
		Suffrage:       m.suffrage,
		ProposedAt:     m.proposedAt,
	})
}

type ManifestJSONUnmarshaler struct {
	ProposedAt     localtime.Time        `json:"proposed_at"`
	Hash           valuehash.HashDecoder `json:"hash"`
	Previous       valuehash.HashDecoder `json:"previous"`
	Proposal       valuehash.HashDecoder `json:"proposal"`
	OperationsTree valuehash.HashDecoder `json:"operations_tree"`
	StatesTree     valuehash.HashDecoder `json:"states_tree"`
	Suffrage       valuehash.HashDecoder `json:"suffrage"`
	Height         base.HeightDecoder    `json:"height"`
}

func (m *Manifest) UnmarshalJSON(b []byte) error {
	e := util.StringError("unmarshal manifest")

	var u ManifestJSONUnmarshaler
	if err := util.UnmarshalJSON(b, &u); err != nil {
		return e.Wrap(err)
	}

	m.h = u.Hash.Hash()
	m.height = u.Height.Height()
	m.previous = u.Previous.Hash()
	m.proposal = u.Proposal.Hash()
	m.operationsTree = u.OperationsTree.Hash()
	m.statesTree = u.StatesTree.Hash()
	m.suffrage = u.Suffrage.Hash()
	m.proposedAt = u.ProposedAt.Time

	return nil
}

type BlockItemFileJSONMarshaler struct {
	URI            string `json:"uri,omitempty"`
	CompressFormat string `json:"compress_format,omitempty"`
	hint.BaseHinter
}

func (f BlockItemFile) MarshalJSON() ([]byte, error) {
	return util.MarshalJSON(BlockItemFileJSONMarshaler{
		BaseHinter:     f.BaseHinter,
		URI:            f.uri.String(),
		CompressFormat: f.compressFormat,
	})
}

func (f *BlockItemFile) UnmarshalJSON(b []byte) error {
	var u BlockItemFileJSONMarshaler
	if err := util.UnmarshalJSON(b, &u); err != nil {
		return err
	}

	switch i, err := url.ParseRequestURI(u.URI); {
	case err != nil:
		return util.ErrInvalid.Wrap(err)
	default:
		f.uri = *i
	}

	f.compressFormat = u.CompressFormat

	return nil
}

type BlockItemFilesJSONMarshaler struct {
	Items map[base.BlockItemType]base.BlockItemFile `json:"items"`
	hint.BaseHinter
}

func (f BlockItemFiles) MarshalJSON() ([]byte, error) {
	return util.MarshalJSON(BlockItemFilesJSONMarshaler{
		BaseHinter: f.BaseHinter,
		Items:      f.items,
	})
}

type BlockItemFilesJSONUnmarshaler struct {
	Items map[base.BlockItemType]json.RawMessage `json:"items"`
	hint.BaseHinter
}

func (f *BlockItemFiles) DecodeJSON(b []byte, enc encoder.Encoder) error {
	var u BlockItemFilesJSONUnmarshaler
	if err := util.UnmarshalJSON(b, &u); err != nil {
		return err
	}

	f.items = map[base.BlockItemType]base.BlockItemFile{}

	for i := range u.Items {
		var j base.BlockItemFile

		if err := encoder.Decode(enc, u.Items[i], &j); err != nil {
			return err
		}

		f.items[i] = j
	}

	return nil
}
