package base

import (
	"fmt"
	"regexp"
	"strconv"
	"strings"

	"github.com/pkg/errors"
	"github.com/rs/zerolog"
	"github.com/spikeekips/mitum/util"
)

var (
	NilHeight      = Height(-1)
	GenesisHeight  = Height(0)
	GenesisPoint   = Point{h: GenesisHeight, r: Round(0)}
	ZeroPoint      = Point{h: NilHeight, r: Round(0)}
	ZeroStagePoint = StagePoint{Point: ZeroPoint, stage: StageUnknown}
)

var zeroPrefixHeightString = regexp.MustCompile(`^0+`)

// Height stands for height of Block
type Height int64

func ParseHeightString(s string) (Height, error) {
	n := s
	if strings.HasPrefix(n, "0") {
		n = zeroPrefixHeightString.ReplaceAllString(n, "")

		if len(n) < 1 {
			n = "0"
		}
	}

	i, err := strconv.ParseInt(n, 10, 64)
	if err != nil {
		return NilHeight, errors.Wrap(err, "seHeightString")
	}

	return Height(i), nil
}

func ParseHeightBytes(b []byte) (Height, error) {
	i, err := util.BigBytesToInt64(b)
	if err != nil {
		return NilHeight, errors.Wrap(err, "seHeightBytes")
	}

	return Height(i), nil
}

func (h Height) IsValid([]byte) error {
	if h < GenesisHeight {
		return util.ErrInvalid.Errorf("height must be greater than %d; height=%d", GenesisHeight, h)
	}

	return nil
}

func (h Height) IsZero() bool {
	return h <= NilHeight
}

// Int64 returns int64 of height.
func (h Height) Int64() int64 {
	return int64(h)
}

func (h Height) Bytes() []byte {
	return util.Int64ToBigBytes(int64(h))
}

func (h Height) String() string {
	return strconv.FormatInt(h.Int64(), 10)
}

func (h Height) FixedString() string {
	return fmt.Sprintf("%021d", h)
}

func (h Height) Prev() Height {
	return h - 1
}

func (h Height) SafePrev() Height {
	if h <= GenesisHeight {
		return GenesisHeight
	}

	return h - 1
}

type Round uint64

func (r Round) Uint64() uint64 {
	return uint64(r)
}

func (r Round) Bytes() []byte {
	return util.Uint64ToBigBytes(uint64(r))
}

func (r Round) Prev() Round {
	if r <= 0 {
		return 0
	}

	return r - 1
}

type Point struct {
	h Height
	r Round
}

func NewPoint(h Height, r Round) Point {
	return Point{h: h, r: r}
}

func RawPoint(h int64, r uint64) Point {
	return Point{h: Height(h), r: Round(r)}
}

func (p Point) Bytes() []byte {
	return util.ConcatByters(p.Height(), util.BytesToByter([]byte("-")), p.Round())
}

func (p Point) Height() Height {
	return p.h
}

func (p Point) Round() Round {
	return p.r
}

func (p Point) String() string {
	return fmt.Sprintf("{Point height=%d round=%d}", p.h, p.r)
}

func (p Point) IsValid([]byte) error {
	if err := p.h.IsValid(nil); err != nil {
		return errors.Wrapf(err, "invalid point")
	}

	if p.h == GenesisHeight && p.r != Round(0) {
		return errors.Errorf("invalid genesis point, %q", p)
	}

	return nil
}

func (p Point) Equal(b Point) bool {
	return p.h == b.h && p.r == b.r
}

func (p Point) Compare(b Point) int {
	switch {
	case p.Height() > b.Height():
		return 1
	case p.Height() < b.Height():
		return -1
	case p.Round() > b.Round():
		return 1
	case p.Round() < b.Round():
		return -1
	default:
		return 0
	}
}

func (p Point) IsZero() bool {
	return p.h.IsZero()
}

// PrevRound returns previous round; if 0 round, returns previous height and zero
// round
func (p Point) PrevRound() Point {
	if p.Equal(GenesisPoint) {
		return GenesisPoint
	}

	var h Height
	var r Round

	switch {
	case p.r == 0:
		h = p.h.SafePrev()
		r = Round(0)
	default:
		h = p.h
		r = p.r.Prev()
	}

	return NewPoint(h, r)
}

func (p Point) NextRound() Point {
	return NewPoint(p.h, p.r+1)
}

// NextHeight returns next height with 0 round.
func (p Point) NextHeight() Point {
	return NewPoint(p.h+1, Round(0))
}

// PrevHeight returns previous height with 0 round
func (p Point) PrevHeight() Point {
	if p.h <= GenesisHeight {
		return p
	}

	return NewPoint(p.h-1, Round(0))
}

func (p Point) MarshalZerologObject(e *zerolog.Event) {
	e.Interface("height", p.h).Interface("round", p.r)
}

type pointJSONMarshaler struct {
	Height Height `json:"height"`
	Round  Round  `json:"round,omitempty"`
}

func (p Point) MarshalJSON() ([]byte, error) {
	return util.MarshalJSON(pointJSONMarshaler{
		Height: p.h,
		Round:  p.r,
	})
}

type pointJSONUnmarshaler struct {
	Height HeightDecoder `json:"height"`
	Round  Round         `json:"round"`
}

func (p *Point) UnmarshalJSON(b []byte) error {
	var u pointJSONUnmarshaler
	if err := util.UnmarshalJSON(b, &u); err != nil {
		return errors.Wrap(err, "unmarshal point")
	}

	p.h = u.Height.Height()
	p.r = u.Round

	return nil
}

type StagePoint struct {
	stage Stage
	Point
}

func NewStagePoint(point Point, stage Stage) StagePoint {
	return StagePoint{Point: point, stage: stage}
}

func (p StagePoint) Stage() Stage {
	return p.stage
}

func (p StagePoint) SetStage(s Stage) StagePoint {
	return NewStagePoint(p.Point, s)
}

func (p StagePoint) IsZero() bool {
	if p.Point.IsZero() {
		return true
	}

	err := p.stage.IsValid(nil)

	return err != nil
}

func (p StagePoint) IsValid([]byte) error {
	e := util.ErrInvalid.Errorf("invalid stage point")

	if err := p.Point.IsValid(nil); err != nil {
		return e.Wrap(err)
	}

	if err := p.stage.IsValid(nil); err != nil {
		return e.Wrap(err)
	}

	return nil
}

func (p StagePoint) Bytes() []byte {
	return util.ConcatByters(p.Point, p.stage)
}

func (p StagePoint) String() string {
	return fmt.Sprintf("{StagePoint height=%d round=%d stage=%s}", p.h, p.r, p.stage)
}

func (p StagePoint) Equal(b StagePoint) bool {
	return p.stage == b.stage && p.Point.Equal(b.Point)
}

func (p StagePoint) Compare(b StagePoint) int {
	c := p.Point.Compare(b.Point)
	if c == 0 {
		return p.stage.Compare(b.stage)
	}

	return c
}

func (p StagePoint) Decrease() StagePoint {
	return NewStagePoint(p.Point.PrevHeight(), p.stage)
}

func (p StagePoint) MarshalZerologObject(e *zerolog.Event) {
	e.Interface("height", p.h).Interface("round", p.r).Stringer("stage", p.stage)
}

type stagePointJSONMarshaler struct {
	Stage Stage `json:"stage"`
	pointJSONMarshaler
}

func (p StagePoint) MarshalJSON() ([]byte, error) {
	return util.MarshalJSON(stagePointJSONMarshaler{
		pointJSONMarshaler: pointJSONMarshaler{
			p.h,
			p.r,
		},
		Stage: p.stage,
	})
}

type stagePointJSONUnmarshaler struct {
	Stage Stage `json:"stage"`
	pointJSONUnmarshaler
}

func (p *StagePoint) UnmarshalJSON(b []byte) error {
	var u stagePointJSONUnmarshaler
	if err := util.UnmarshalJSON(b, &u); err != nil {
		return errors.Wrap(err, "unmarshal stage point")
	}

	p.h = u.Height.Height()
	p.r = u.Round
	p.stage = u.Stage

	return nil
}
