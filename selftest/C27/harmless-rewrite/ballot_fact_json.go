package isaac

import (
	"github.com/spikeekips/mitum/base"
	"github.com/spikeekips/mitum/util"
	"github.com/spikeekips/mitum/util/encoder"
	"github.com/spikeekips/mitum/util/valuehash"
)

type baseBallotFactJSONMarshaler struct {
	ExpelFacts []util.Hash     `json:"expel_facts,omitempty"`
	Point      base.StagePoint `json:"point"`
	base.BaseFactJSONMarshaler
}

type baseBallotFactJSONUnmarshaler struct {
	ExpelFacts []valuehash.HashDecoder `json:"expel_facts"`
	base.BaseFactJSONUnmarshaler
	Point base.StagePoint `json:"point"`
}

type INITBallotFactJSONMarshaler struct {
	PreviousBlock util.Hash `json:"previous_block"`
	Proposal      util.Hash `json:"proposal"`
	baseBallotFactJSONMarshaler
}

type INITBallotFactJSONUnmarshaler struct {
	PreviousBlock valuehash.HashDecoder `json:"previous_block"`
	Proposal      valuehash.HashDecoder `json:"proposal"`
	baseBallotFactJSONUnmarshaler
}

type ACCEPTBallotFactJSONMarshaler struct {
	Proposal util.Hash `json:"proposal"`
	NewBlock util.Hash `json:"new_block"`
	baseBallotFactJSONMarshaler
}

type ACCEPTBallotFactJSONUnmarshaler struct {
	Proposal valuehash.HashDecoder `json:"proposal"`
	NewBlock valuehash.HashDecoder `json:"new_block"`
	baseBallotFactJSONUnmarshaler
}

func (fact baseBallotFact) jsonMarshaler() baseBallotFactJSONMarshaler {
	return baseBallotFactJSONMarshaler{
		BaseFactJSONMarshaler: fact.BaseFact.JSONMarshaler(),
		Point:                 fact.point,
		ExpelFacts:            fact.expelfacts,
	}
}

func (fact *baseBallotFact) DecodeJSON(b []byte, enc encoder.Encoder) error {
	e := util.StringError("decode baseBallotFact")

	var u baseBallotFactJSONUnmarshaler
	if err := enc.Unmarshal(b, &u); err != nil {
		return e.Wrap(err)
	}

	fact.BaseFact.SetJSONUnmarshaler(u.BaseFactJSONUnmarshaler)
	fact.point = u.Point

	if len(u.ExpelFacts) > 0 {
		fact.expelfacts = make([]util.Hash, len(u.ExpelFacts))

		for i := range u.ExpelFacts {
			fact.expelfacts[i] = u.ExpelFacts[i].Hash()
		}
	}

	return nil
}

func (fact INITBallotFact) jsonMarshaler() INITBallotFactJSONMarshaler {
	return INITBallotFactJSONMarshaler{
		baseBallotFactJSONMarshaler: fact.baseBallotFact.jsonMarshaler(),
		PreviousBlock:               fact.previousBlock,
		Proposal:                    fact.proposal,
	}
}

func (fact INITBallotFact) MarshalJSON() ([]byte, error) {
	return util.MarshalJSON(fact.jsonMarshaler())
}

func (fact *INITBallotFact) DecodeJSON(b []byte, enc encoder.Encoder) error {
	e := util.StringError("decode INITBallotFact")

	var ub baseBallotFact
	if err := ub.DecodeJSON(b, enc); err != nil {
		return e.Wrap(err)
	}

	fact.baseBallotFact = ub

	var u INITBallotFactJSONUnmarshaler
	if err := enc.Unmarshal(b, &u); err != nil {
		return e.Wrap(err)
	}

	proposal := u.Proposal.Hash()
	fact.proposal = proposal
	fact.previousBlock = u.PreviousBlock.Hash()

	return nil
}

func (fact ACCEPTBallotFact) MarshalJSON() ([]byte, error) {
	return util.MarshalJSON(ACCEPTBallotFactJSONMarshaler{
		baseBallotFactJSONMarshaler: fact.jsonMarshaler(),
		Proposal:                    fact.proposal,
		NewBlock:                    fact.newBlock,
	})
}

func (fact *ACCEPTBallotFact) DecodeJSON(b []byte, enc encoder.Encoder) error {
	e := util.StringError("decode ACCEPTBallotFact")

	var ub baseBallotFact
	if err := ub.DecodeJSON(b, enc); err != nil {
		return e.Wrap(err)
	}

	fact.baseBallotFact = ub

	var u ACCEPTBallotFactJSONUnmarshaler
	if err := enc.Unmarshal(b, &u); err != nil {
		return e.Wrap(err)
	}

	fact.proposal = u.Proposal.Hash()
	fact.newBlock = u.NewBlock.Hash()

	return nil
}

type EmptyProposalINITBallotFactJSONMarshaler struct {
	R string `json:"r"`
	INITBallotFactJSONMarshaler
}

func (fact EmptyProposalINITBallotFact) MarshalJSON() ([]byte, error) {
	return util.MarshalJSON(EmptyProposalINITBallotFactJSONMarshaler{
		INITBallotFactJSONMarshaler: fact.INITBallotFact.jsonMarshaler(),
		R:                           fact.r,
	})
}

func (fact *EmptyProposalINITBallotFact) DecodeJSON(b []byte, enc encoder.Encoder) error {
	e := util.StringError("decode EmptyProposalINITBallotFact")

	if err := fact.INITBallotFact.DecodeJSON(b, enc); err != nil {
		return e.Wrap(err)
	}

	var u struct {
		R string `json:"r"`
	}

	if err := enc.Unmarshal(b, &u); err != nil {
		return e.Wrap(err)
	}

	fact.r = u.R

	return nil
}
