package isaac

import (
	"context"
	"sync"

	"github.com/pkg/errors"
	"github.com/rs/zerolog"
	"github.com/spikeekips/mitum/base"
	"github.com/spikeekips/mitum/util"
	"github.com/spikeekips/mitum/util/logging"
)

type ProposalMaker struct {
	*logging.Logging
	local         base.LocalNode
	pool          ProposalPool
	getOperations func(context.Context, base.Height) ([][2]util.Hash, error)
	lastBlockMap  func() (base.BlockMap, bool, error)
	networkID     base.NetworkID
	l             sync.Mutex
}

func NewProposalMaker(
	local base.LocalNode,
	networkID base.NetworkID,
	getOperations func(context.Context, base.Height) ([][2]util.Hash, error),
	pool ProposalPool,
	lastBlockMap func() (base.BlockMap, bool, error),
) *ProposalMaker {
	if getOperations == nil {
		getOperations = func( //revive:disable-line:modifies-parameter
			context.Context, base.Height,
		) ([][2]util.Hash, error) {
			return nil, nil
		}
	}

	if lastBlockMap == nil {
		lastBlockMap = func() (base.BlockMap, bool, error) { //revive:disable-line:modifies-parameter
			return nil, false, nil
		}
	}

	return &ProposalMaker{
		Logging: logging.NewLogging(func(lctx zerolog.Context) zerolog.Context {
			return lctx.Str("module", "proposal-maker")
		}),
		local:         local,
		networkID:     networkID,
		getOperations: getOperations,
		pool:          pool,
		lastBlockMap:  lastBlockMap,
	}
}

func (p *ProposalMaker) PreferEmpty(
	ctx context.Context, point base.Point, previousBlock util.Hash,
) (base.ProposalSignFact, error) {
	p.l.Lock()
	defer p.l.Unlock()

	e := util.StringError("make empty proposal")

	switch m, found, err := p.lastBlockMap(); {
	case err != nil:
		return nil, e.Wrap(err)
	case !found:
	case point.Height() < m.Manifest().Height()-1:
		return nil, e.Errorf("too old; ignored")
	}

	pr, err := p.preferEmpty(ctx, point, previousBlock)

	return pr, e.Wrap(err)
}

func (p *ProposalMaker) preferEmpty(
	_ context.Context, point base.Point, previousBlock util.Hash,
) (base.ProposalSignFact, error) {
	switch pr, found, err := p.pool.ProposalByPoint(point, p.local.Address(), previousBlock); {
	case err != nil:
		return nil, err
	case found:
		return pr, nil
	}

	pr, err := p.makeProposal(point, previousBlock, nil)
	if err != nil {
		return nil, errors.WithMessagef(err, "make empty proposal, %q", point)
	}

	return pr, nil
}

func (p *ProposalMaker) Make(
	ctx context.Context, point base.Point, previousBlock util.Hash,
) (base.ProposalSignFact, error) {
	p.l.Lock()
	defer p.l.Unlock()

	e := util.StringError("make proposal, %q", point)

	switch m, found, err := p.lastBlockMap(); {
	case err != nil:
		return nil, e.Wrap(err)
	case !found:
	case point.Height() < m.Manifest().Height()-1:
		return nil, e.Errorf("too old; ignored")
	case point.Height() > m.Manifest().Height()+1: // NOTE empty proposal for unreachable point
		pr, err := p.preferEmpty(context.Background(), point, previousBlock)

		return pr, e.Wrap(err)
	case point.Height() == m.Manifest().Height()+1 && !previousBlock.Equal(m.Manifest().Hash()):
		pr, err := p.preferEmpty(context.Background(), point, previousBlock)

		return pr, e.Wrap(err)
	}

	pr, err := p.makeNew(ctx, point, previousBlock)

	return pr, e.Wrap(err)
}

func (p *ProposalMaker) makeNew(
	ctx context.Context, point base.Point, previousBlock util.Hash,
) (base.ProposalSignFact, error) {
	switch pr, found, err := p.pool.ProposalByPoint(point, p.local.Address(), previousBlock); {
	case err != nil:
		return nil, errors.WithStack(err)
	case found:
		return pr, nil
	}

	ops, err := p.getOperations(ctx, point.Height())
	if err != nil {
		return nil, errors.WithMessage(err, "get operations")
	}

	p.Log().Trace().Func(func(e *zerolog.Event) {
		for i := range ops {
			e.Interface("operation", ops[i])
		}
	}).Msg("new operation for proposal maker")

	pr, err := p.makeProposal(point, previousBlock, ops)
	if err != nil {
		return nil, errors.WithStack(err)
	}

	return pr, nil
}

func (p *ProposalMaker) makeProposal(
	point base.Point, previousBlock util.Hash, ops [][2]util.Hash,
) (sf ProposalSignFact, _ error) {
	fact := NewProposalFact(point, p.local.Address(), previousBlock, ops)

	signfact := NewProposalSignFact(fact)
	if err := signfact.Sign(p.local.Privatekey(), p.networkID); err != nil {
		return sf, err
	}

	if _, err := p.pool.SetProposal(signfact); err != nil {
		p.Log().Error().Err(err).Msg("failed to save proposal in pool")
	}

	return signfact, nil
}
